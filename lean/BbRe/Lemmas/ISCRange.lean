import BbRe.Model.ISC
import BbRe.Lemmas.ISCPath
/-!
Helper lemmas for C07 (b): ranges of the values handed to the scheduler (size-class
indices, timeouts), for arbitrary `FloatOps`.
-/
namespace BbRe.Lemmas.ISC
open BbRe.ISC

/-! ## `getSmallerSizeClassExecutionParameters` clamps whatever the float arithmetic does -/

theorem smallerParams_range (F : FloatOps) (minTO : Int) (s l : Nat) (med origTO : Int)
    (hmin : 0 ≤ minTO) (horig : 0 ≤ origTO) :
    0 ≤ (smallerParams F minTO s l med origTO).execTimeout ∧
    (smallerParams F minTO s l med origTO).execTimeout ≤ origTO := by
  simp only [smallerParams]
  constructor <;> (split <;> split <;> omega)

/-! ## Strategies -/

/-- Every strategy's foreground timeout lies in `[0, origTO]`. -/
def StratOK (origTO : Int) (s : Strategy) : Prop := 0 ≤ s.fgTimeout ∧ s.fgTimeout ≤ origTO

theorem stratOK_default (origTO : Int) (h : 0 ≤ origTO) : StratOK origTO {} := by
  simp [StratOK, h]

/-- Lengths of the results of `build` (no hypotheses needed). -/
theorem build_length (F : FloatOps) (minTO : Int) (largest : Nat) (med origTO : Int) (l : List (Nat × PerClass)) :
    ∀ rb, (∀ ss, build F minTO largest med origTO l rb = .early ss → ss.length ≤ l.length) ∧
      (∀ os ss, build F minTO largest med origTO l rb = .full os ss →
        ss.length = l.length ∧ os.length = l.length) := by
  induction l with
  | nil => intro rb; simp [build]
  | cons e rest ih =>
    intro rb
    obtain ⟨sc, pc⟩ := e
    constructor
    · intro ss h
      unfold build at h
      simp only at h
      split at h
      · simp only [BuildRes.early.injEq] at h; subst h; simp
      · split at h
        · rename_i ss' heq
          simp only [BuildRes.early.injEq] at h; subst h
          have := (ih _).1 ss' heq
          simp; omega
        · simp at h
    · intro os ss h
      unfold build at h
      simp only at h
      split at h
      · simp at h
      · split at h
        · simp at h
        · rename_i os' ss' heq
          simp only [BuildRes.full.injEq] at h
          obtain ⟨h1, h2⟩ := h
          subst h1; subst h2
          have := (ih _).2 os' ss' heq
          simp; omega

theorem build_ok (F : FloatOps) (minTO : Int) (largest : Nat) (med origTO : Int)
    (hmin : 0 ≤ minTO) (horig : 0 ≤ origTO) (l : List (Nat × PerClass)) :
    ∀ rb, (∀ ss, build F minTO largest med origTO l rb = .early ss → ∀ s ∈ ss, StratOK origTO s) ∧
      (∀ os ss, build F minTO largest med origTO l rb = .full os ss → ∀ s ∈ ss, StratOK origTO s) := by
  induction l with
  | nil => intro rb; simp [build]
  | cons e rest ih =>
    intro rb
    obtain ⟨sc, pc⟩ := e
    have hr := smallerParams_range F minTO sc largest med origTO hmin horig
    -- the strategy appended for this class
    have hs0 : ∀ (rb' : Bool), StratOK origTO
        (if rb' = true then ({ background := true } : Strategy)
         else { fgTimeout := (smallerParams F minTO sc largest med origTO).execTimeout }) := by
      intro rb'
      split
      · simp [StratOK, horig]
      · exact hr
    constructor
    · intro ss h
      unfold build at h
      simp only at h
      split at h
      · simp only [BuildRes.early.injEq] at h; subst h
        intro s hs
        simp at hs
        subst hs
        simp [StratOK, horig]
      · split at h
        · rename_i ss' heq
          simp only [BuildRes.early.injEq] at h; subst h
          intro s hs
          simp only [List.mem_cons] at hs
          rcases hs with hs | hs
          · subst hs; exact hs0 _
          · exact (ih _).1 ss' heq s hs
        · simp at h
    · intro os ss h
      unfold build at h
      simp only at h
      split at h
      · simp at h
      · split at h
        · simp at h
        · rename_i os' ss' heq
          simp only [BuildRes.full.injEq] at h
          obtain ⟨h1, h2⟩ := h
          subst h1; subst h2
          intro s hs
          simp only [List.mem_cons] at hs
          rcases hs with hs | hs
          · subst hs; exact hs0 _
          · exact (ih _).2 os' ss' heq s hs

theorem setProbs_mem (ss : List Strategy) : ∀ (ps : List Rat) (s : Strategy), s ∈ setProbs ss ps →
    ∃ s0 ∈ ss, s.fgTimeout = s0.fgTimeout ∧ s.background = s0.background := by
  induction ss with
  | nil => intro ps s h; simp [setProbs] at h
  | cons a ss ih =>
    intro ps s h
    cases ps with
    | nil => simp [setProbs] at h
    | cons p ps =>
      simp only [setProbs, List.mem_cons] at h
      rcases h with h | h
      · exact ⟨a, by simp, by simp [h], by simp [h]⟩
      · obtain ⟨s0, hm, h1, h2⟩ := ih ps s h
        exact ⟨s0, by simp [hm], h1, h2⟩

theorem setProbs_length_le (ss : List Strategy) : ∀ (ps : List Rat), (setProbs ss ps).length ≤ ss.length := by
  induction ss with
  | nil => intro ps; simp [setProbs]
  | cons a ss ih =>
    intro ps
    cases ps with
    | nil => simp [setProbs]
    | cons p ps => simp [setProbs]; exact ih ps

theorem firstEmpty_lt (l : List PerClass) : ∀ (k i : Nat), firstEmpty l k = some i → k ≤ i ∧ i < k + l.length := by
  induction l with
  | nil => intro k i h; simp [firstEmpty] at h
  | cons pc rest ih =>
    intro k i h
    unfold firstEmpty at h
    split at h
    · simp at h; subst h; simp
    · have := ih (k + 1) i h
      simp only [List.length_cons]
      omega

theorem forcedStrategies_ok (minTO origTO : Int) (pcs : List PerClass) (n : Nat)
    (hmin : 0 ≤ minTO) (horig : 0 ≤ origTO) (hn : 2 ≤ n) :
    (∀ s ∈ forcedStrategies minTO origTO pcs n, StratOK origTO s) ∧
    (forcedStrategies minTO origTO pcs n).length ≤ n := by
  unfold forcedStrategies
  split
  · rename_i i hi
    have := firstEmpty_lt _ _ _ hi
    simp only [List.length_take] at this
    constructor
    · intro s hs
      simp only [List.mem_append, List.mem_replicate, List.mem_singleton] at hs
      rcases hs with hs | hs
      · rw [hs.2]; exact stratOK_default origTO horig
      · subst hs
        simp only [StratOK]
        split <;> omega
    · simp; omega
  · constructor
    · intro s hs
      simp only [List.mem_append, List.mem_replicate, List.mem_singleton] at hs
      rcases hs with hs | hs
      · rw [hs.2]; exact stratOK_default origTO horig
      · subst hs; simp [StratOK, horig]
    · simp; omega

theorem pageRankStrategies_length (c : PageRankCfg) (m : ClassMap) (classes : List Nat) (origTO : Int) :
    (pageRankStrategies c m classes origTO).2.1.length ≤ classes.length := by
  unfold pageRankStrategies
  simp only
  split
  · simp
  · rename_i hn
    split
    · unfold forcedStrategies
      split
      · rename_i i hi
        have := firstEmpty_lt _ _ _ hi
        simp only [List.length_take] at this
        simp; omega
      · simp; omega
    · rename_i med _
      have hb := build_length c.F c.minTO (classes.getLastD 0) med origTO
        (List.take (classes.length - 1)
          (classes.zip (classList (ensureClasses m classes) classes))) true
      split
      · rename_i ss heq
        have := hb.1 ss heq
        simp only [List.length_take] at this
        simp only
        omega
      · simp only [List.length_take]
        omega

theorem pageRankStrategies_ok (c : PageRankCfg) (m : ClassMap) (classes : List Nat) (origTO : Int)
    (hmin : 0 ≤ c.minTO) (horig : 0 ≤ origTO) :
    ∀ s ∈ (pageRankStrategies c m classes origTO).2.1, StratOK origTO s := by
  unfold pageRankStrategies
  simp only
  split
  · simp
  · rename_i hn
    split
    · exact (forcedStrategies_ok _ _ _ _ hmin horig (by omega)).1
    · rename_i med _
      have hb := build_ok c.F c.minTO (classes.getLastD 0) med origTO hmin horig
        (List.take (classes.length - 1)
          (classes.zip (classList (ensureClasses m classes) classes))) true
      split
      · rename_i ss heq
        exact hb.1 ss heq
      · rename_i os ss heq
        simp only
        intro s hs
        have hs' := List.mem_of_mem_take hs
        obtain ⟨s0, hm, h1, _⟩ := setProbs_mem _ _ _ hs'
        simp only [List.mem_append, List.mem_singleton] at hm
        simp only [StratOK, h1]
        rcases hm with hm | hm
        · exact hb.2 os ss heq s0 hm
        · subst hm; simp [horig]

theorem smallestStrategies_ok (classes : List Nat) (origTO : Int) (horig : 0 ≤ origTO) :
    (∀ s ∈ smallestStrategies classes origTO, StratOK origTO s) ∧
    (smallestStrategies classes origTO).length ≤ classes.length := by
  unfold smallestStrategies
  split
  · simp
  · constructor
    · intro s hs; simp at hs; subst hs; simp [StratOK, horig]
    · simp; omega

/-- The minimum execution timeout of the configured calculator is not negative. -/
def minNonneg (env : Env) : Prop :=
  match env.calculator with
  | .pageRank c => 0 ≤ c.minTO
  | .smallest => True

theorem strategiesFD_ok (env : Env) (stats : Stats) (origTO : Int) (classes : List Nat) (now : Int)
    (hmin : minNonneg env) (horig : 0 ≤ origTO) :
    ∀ s ∈ (strategiesFD env stats origTO classes now).2.1, StratOK origTO s := by
  unfold strategiesFD
  split
  · unfold Calc.strategies
    split
    · rename_i c hc
      simp only [minNonneg, hc] at hmin
      exact pageRankStrategies_ok c _ _ _ hmin horig
    · exact (smallestStrategies_ok _ _ horig).1
  · simp

/-- The number of strategies never exceeds the number of size classes. -/
theorem strategiesFD_length (env : Env) (stats : Stats) (origTO : Int) (classes : List Nat) (now : Int) :
    (strategiesFD env stats origTO classes now).2.1.length ≤ classes.length := by
  unfold strategiesFD
  split
  · unfold Calc.strategies
    split
    · exact pageRankStrategies_length _ _ _ _
    · unfold smallestStrategies
      split
      · simp
      · simp; omega
  · simp

/-! ## `pick` -/

theorem pick_spec (ss : List Strategy) : ∀ (k : Nat) (r : Rat) (i : Nat) (s : Strategy),
    pick ss k r = some (i, s) → k ≤ i ∧ i < k + ss.length ∧ s ∈ ss := by
  induction ss with
  | nil => intro k r i s h; simp [pick] at h
  | cons a ss ih =>
    intro k r i s h
    unfold pick at h
    split at h
    · simp only [Option.some.injEq, Prod.mk.injEq] at h
      obtain ⟨h1, h2⟩ := h
      subst h1; subst h2
      simp
    · have := ih (k + 1) _ i s h
      simp only [List.length_cons, List.mem_cons]
      refine ⟨by omega, by omega, Or.inr this.2.2⟩

/-! ## `Select` -/

/-- The timeout-related facts a learner must carry so that later calls stay in range. -/
def TOk (origTO : Int) : Learner → Prop
  | .smallerFg _ _ _ largestTO => largestTO = origTO
  | .largestBg _ largestTO _ => largestTO = origTO
  | .fbSmaller t => t = origTO
  | _ => True

theorem getLast?_some_ne_nil {α : Type} (l : List α) (a : α) (h : l.getLast? = some a) : 0 < l.length := by
  cases l with
  | nil => simp at h
  | cons x xs => simp

theorem chooseFD_range (stats1 : Stats) (strategies : List Strategy) (origTO : Int) (classes : List Nat)
    (largest : Nat) (r : Rat) (o : StepOut) (hne : 0 < classes.length)
    (h : chooseFD stats1 strategies origTO classes largest r = some o) :
    o.idx < classes.length ∧
    ((∀ s ∈ strategies, StratOK origTO s) → 0 ≤ origTO → 0 ≤ o.timeout ∧ o.timeout ≤ origTO) ∧
    (∀ l, o.next = some l → TOk origTO l) := by
  unfold chooseFD at h
  split at h
  · rename_i i s hp
    have hps := pick_spec _ _ _ _ _ hp
    split at h
    · simp at h
    · rename_i smaller hs
      have hi : i < classes.length := by
        have := List.getElem?_eq_some_iff.mp hs
        exact this.1
      split at h
      · simp only [Option.some.injEq] at h; subst h
        refine ⟨by simp; omega, ?_, ?_⟩
        · intro _ h0; simp [h0]
        · intro l hl; simp at hl; subst hl; simp [TOk]
      · simp only [Option.some.injEq] at h; subst h
        refine ⟨hi, ?_, ?_⟩
        · intro hok _; exact hok s hps.2.2
        · intro l hl; simp at hl; subst hl; simp [TOk]
  · simp only [Option.some.injEq] at h; subst h
    refine ⟨by simp; omega, ?_, ?_⟩
    · intro _ h0; simp [h0]
    · intro l hl; simp at hl; subst hl; simp [TOk]

/-- `Select` does not panic on a non-empty size-class list. -/
theorem chooseFD_isSome (stats1 : Stats) (strategies : List Strategy) (origTO : Int) (classes : List Nat)
    (largest : Nat) (r : Rat) (hlen : strategies.length ≤ classes.length) :
    (chooseFD stats1 strategies origTO classes largest r).isSome = true := by
  unfold chooseFD
  split
  · rename_i i s hp
    have hps := pick_spec _ _ _ _ _ hp
    have hi : i < classes.length := by omega
    rw [List.getElem?_eq_getElem hi]
    simp only
    split <;> simp
  · simp

/-! ## Terminal calls -/

theorem findClass_lt (sc : Nat) (xs : List Nat) : ∀ (k i : Nat), findClass sc xs k = some i →
    k ≤ i ∧ i < k + xs.length := by
  induction xs with
  | nil => intro k i h; simp [findClass] at h
  | cons x xs ih =>
    intro k i h
    unfold findClass at h
    split at h
    · simp at h; subst h; simp
    · have := ih (k + 1) i h
      simp only [List.length_cons]
      omega

/-- One terminal call: a returned index is an index of the list that was passed, a
returned timeout is in range, and the successor carries the timeout facts. -/
theorem step_range (env : Env) (origTO : Int) (l : Learner) (stats : Stats) (ev : Ev) (o : StepOut) (l' : Learner)
    (hok : TOk origTO l) (h : l.step env stats ev = some o) (hn : o.next = some l') :
    (∀ p ∈ ev.indexLog o, p.1 < p.2) ∧
    (minNonneg env → 0 ≤ origTO → 0 ≤ o.timeout ∧ o.timeout ≤ origTO) ∧
    TOk origTO l' := by
  cases l <;> cases ev <;>
    simp only [Learner.step, Learner.succeeded, Learner.failed, Learner.abandoned,
      Option.some.injEq] at h <;>
    (try (subst h; simp at hn))
  · -- smallerFg.failed
    subst hn
    simp only [TOk] at hok
    simp [Ev.indexLog, TOk, hok]
  · -- largestBg.succeeded
    simp only [TOk] at hok
    subst hok
    split at h
    · rename_i i hf
      split at h
      · simp at h
      · rename_i smallerTO hbt
        simp only [Option.some.injEq] at h; subst h
        simp at hn; subst hn
        have hfl := findClass_lt _ _ _ _ hf
        refine ⟨?_, ?_, by simp [TOk]⟩
        · intro p hp
          simp [Ev.indexLog] at hp
          subst hp
          simp; omega
        · intro hmin horig
          simp only
          unfold Calc.backgroundTimeout at hbt
          split at hbt
          · rename_i c hc
            simp only [minNonneg, hc] at hmin
            unfold backgroundTimeout at hbt
            simp only at hbt
            split at hbt
            · simp at hbt
            · split at hbt
              · simp at hbt
              · simp only [Option.some.injEq] at hbt
                subst hbt
                exact smallerParams_range c.F c.minTO _ _ _ _ hmin horig
          · simp at hbt
    · simp only [Option.some.injEq] at h; subst h; simp at hn
  · -- fbSmaller.failed
    subst hn
    simp only [TOk] at hok
    simp [Ev.indexLog, TOk, hok]

/-- Invariant of the ghost logs of a trace. -/
def InRange (env : Env) (origTO : Int) (t : Trace) : Prop :=
  (∀ p ∈ t.indices, p.1 < p.2) ∧
  (minNonneg env → 0 ≤ origTO → ∀ x ∈ t.timeouts, 0 ≤ x ∧ x ≤ origTO) ∧
  (∀ l, t.cur = some l → TOk origTO l)

theorem runPath_inRange (env : Env) (origTO : Int) (interfere : Nat → Stats → Stats) (evs : List Ev) :
    ∀ (t : Trace) (stats : Stats), InRange env origTO t →
      InRange env origTO (runPath env interfere t stats evs).1 := by
  induction evs with
  | nil => intro t stats h; simpa [runPath] using h
  | cons ev evs ih =>
    intro t stats h
    unfold runPath
    cases hc : t.cur with
    | none => simpa using h
    | some l =>
      simp only
      cases hs : l.step env (interfere t.calls stats) ev with
      | none =>
        refine ⟨h.1, h.2.1, ?_⟩
        intro l' hl'; simp at hl'
      | some o =>
        simp only
        apply ih
        cases hn : o.next with
        | none =>
          refine ⟨?_, ?_, by simp⟩
          · intro p hp
            simp only [List.mem_append] at hp
            rcases hp with hp | hp
            · exact h.1 p hp
            · cases ev <;> simp [Ev.indexLog, hn] at hp
          · intro hmin horig x hx
            simp at hx
            exact h.2.1 hmin horig x hx
        | some l' =>
          have hr := step_range env origTO l _ ev o l' (h.2.2 l hc) hs hn
          refine ⟨?_, ?_, ?_⟩
          · intro p hp
            simp only [List.mem_append] at hp
            rcases hp with hp | hp
            · exact h.1 p hp
            · exact hr.1 p hp
          · intro hmin horig x hx
            simp only [List.mem_append, Option.isSome_some, if_true, List.mem_singleton] at hx
            rcases hx with hx | hx
            · exact h.2.1 hmin horig x hx
            · subst hx; exact hr.2.1 hmin horig
          · intro l'' hl''
            simp at hl''
            subst hl''
            exact hr.2.2

end BbRe.Lemmas.ISC
