import BbRe.Lemmas.FilePoolBasic
/-!
Allocator bookkeeping of `Model/FilePool.lean`: the device/hole-source calls do
not touch the allocator state; `writeToNewSectors` either returns the allocator
to the same allocated set (every error path) or has added exactly the fresh run
it reports; `insertSectors` adds exactly that run to the file.
-/
namespace BbRe.Lemmas.FilePool
open BbRe.FilePool

/-- allocator part of the environment is the same. -/
def SameAlloc (e e' : Env) : Prop :=
  e'.allocd = e.allocd ∧ e'.dfree = e.dfree ∧ e'.answers = e.answers

theorem SameAlloc.refl (e : Env) : SameAlloc e e := ⟨rfl, rfl, rfl⟩

theorem SameAlloc.trans {a b c : Env} (h1 : SameAlloc a b) (h2 : SameAlloc b c) : SameAlloc a c :=
  ⟨h2.1.trans h1.1, h2.2.1.trans h1.2.1, h2.2.2.trans h1.2.2⟩

theorem devWrite_same (e : Env) (off : Nat) (p : List Byte) : SameAlloc e (e.devWrite off p).1 := by
  unfold Env.devWrite; split <;> exact ⟨rfl, rfl, rfl⟩

theorem devRead_same (e : Env) (off n : Nat) : SameAlloc e (e.devRead off n).1 := by
  unfold Env.devRead; split <;> exact ⟨rfl, rfl, rfl⟩

theorem readHole_same (e : Env) (h : Hole) (off n : Nat) : SameAlloc e (e.readHole h off n).1 := by
  unfold Env.readHole; split <;> exact ⟨rfl, rfl, rfl⟩

theorem holeSeek_same (e : Env) : SameAlloc e e.holeSeek.1 := by
  unfold Env.holeSeek; split <;> exact ⟨rfl, rfl, rfl⟩

theorem wnsPhase1_same (c : Cfg) (h : Hole) (e : Env) (p : List Byte) (sector idx ow : Nat) :
    SameAlloc e (wnsPhase1 c h e p sector idx ow).1 := by
  unfold wnsPhase1
  dsimp only
  have h1 := readHole_same e h (idx * c.ss) ow
  split
  · split
    · exact h1
    · have h2 : SameAlloc e (if ow + p.length < c.ss then
          (e.readHole h (idx * c.ss) ow).1.readHole h (idx * c.ss + (ow + p.length)) (c.ss - (ow + p.length))
          else ((e.readHole h (idx * c.ss) ow).1, [], none)).1 := by
        split
        · exact h1.trans (readHole_same _ _ _ _)
        · exact h1
      split
      · exact h2
      · split
        · exact h2.trans (devWrite_same _ _ _)
        · exact h2.trans (devWrite_same _ _ _)
  · exact SameAlloc.refl e

theorem wnsPhase2_same (c : Cfg) (e : Env) (cur : Cursor) : SameAlloc e (wnsPhase2 c e cur).1 := by
  unfold wnsPhase2
  dsimp only
  split
  · split
    · exact devWrite_same _ _ _
    · exact devWrite_same _ _ _
  · exact SameAlloc.refl e

theorem wnsPhase3_same (c : Cfg) (h : Hole) (e : Env) (cur : Cursor) : SameAlloc e (wnsPhase3 c h e cur).1 := by
  unfold wnsPhase3
  dsimp only
  split
  · split
    · exact readHole_same _ _ _ _
    · split
      · exact (readHole_same _ _ _ _).trans (devWrite_same _ _ _)
      · exact (readHole_same _ _ _ _).trans (devWrite_same _ _ _)
  · exact SameAlloc.refl e

theorem wnsPhases_same (c : Cfg) (h : Hole) (e : Env) (p : List Byte) (first idx ow : Nat) :
    SameAlloc e (wnsPhases c h e p first idx ow).1 := by
  unfold wnsPhases
  have h1 := wnsPhase1_same c h e p first idx ow
  split
  · rename_i e1 x heq; rw [heq] at h1; exact h1
  · rename_i e1 cur1 heq; rw [heq] at h1
    have h2 := wnsPhase2_same c e1 cur1
    split
    · rename_i e2 x heq2; rw [heq2] at h2; exact h1.trans h2
    · rename_i e2 cur2 heq2; rw [heq2] at h2
      exact (h1.trans h2).trans (wnsPhase3_same c h e2 cur2)

/-! ## `Env.alloc` / `Env.freeList` -/

theorem rangeFree_iff (A : List Nat) (first count : Nat) :
    rangeFree A first count = true ↔ ∀ s, first ≤ s → s < first + count → s ∉ A := by
  simp only [rangeFree, List.all_eq_true, List.mem_range'_1, Bool.not_eq_eq_eq_not, Bool.not_true,
    List.contains_eq_mem, decide_eq_false_iff_not]
  constructor
  · intro h s h1 h2; exact h s ⟨h1, h2⟩
  · intro h s hs; exact h s hs.1 hs.2

/-- What a successful `Env.alloc` guarantees (the interface contract of
`sector_allocator.go`, checked by the model on every oracle answer). -/
theorem alloc_ok {c : Cfg} {e e' : Env} {maximum first count : Nat}
    (h : e.alloc c maximum = (e', .ok first count)) :
    e'.allocd = List.range' first count ++ e.allocd ∧ e'.dfree = e.dfree ∧ e'.dev = e.dev ∧
      e'.faults = e.faults ∧
      1 ≤ count ∧ count ≤ maximum ∧ 1 ≤ first ∧ first + count ≤ c.nsec + 1 ∧
      ∀ s, first ≤ s → s < first + count → s ∉ e.allocd := by
  unfold Env.alloc at h
  split at h
  · simp at h
  · simp at h
  · split at h
    · rename_i hc
      simp only [Prod.mk.injEq, AllocRes.ok.injEq] at h
      obtain ⟨rfl, rfl, rfl⟩ := h
      exact ⟨rfl, rfl, rfl, rfl, hc.1, hc.2.1, hc.2.2.1, hc.2.2.2.1, (rangeFree_iff _ _ _).mp hc.2.2.2.2⟩
    · simp at h

theorem alloc_notok {c : Cfg} {e e' : Env} {maximum : Nat} {r : AllocRes}
    (h : e.alloc c maximum = (e', r)) (hr : ∀ f n, r ≠ .ok f n) :
    e'.allocd = e.allocd ∧ e'.dfree = e.dfree ∧ e'.dev = e.dev ∧ e'.faults = e.faults := by
  unfold Env.alloc at h
  split at h
  · simp only [Prod.mk.injEq] at h; obtain ⟨rfl, _⟩ := h; exact ⟨rfl, rfl, rfl, rfl⟩
  · simp only [Prod.mk.injEq] at h; obtain ⟨rfl, _⟩ := h; exact ⟨rfl, rfl, rfl, rfl⟩
  · split at h
    · simp only [Prod.mk.injEq] at h; obtain ⟨_, rfl⟩ := h; exact absurd rfl (hr _ _)
    · simp only [Prod.mk.injEq] at h; obtain ⟨rfl, _⟩ := h; exact ⟨rfl, rfl, rfl, rfl⟩

theorem freeList_dev (e : Env) (l : List Nat) : (e.freeList l).dev = e.dev ∧ (e.freeList l).faults = e.faults
    ∧ (e.freeList l).answers = e.answers := ⟨rfl, rfl, rfl⟩

/-- Freeing a list whose non-zero entries are allocated and pairwise distinct:
no double free, and exactly those sectors leave the allocated set. -/
theorem freeList_spec (e : Env) (l : List Nat) (hA : e.allocd.Nodup)
    (hsub : ∀ s ∈ l, s ≠ 0 → s ∈ e.allocd) (hnd : (nz l).Nodup) :
    (e.freeList l).dfree = e.dfree ∧ (e.freeList l).allocd.Nodup ∧
      ∀ s, s ∈ (e.freeList l).allocd ↔ (s ∈ e.allocd ∧ ¬ (s ∈ l ∧ s ≠ 0)) := by
  have := foldl_freeOne l e.allocd e.dfree hA hsub hnd
  exact this

theorem nz_range' (first count : Nat) (h : 1 ≤ first) : nz (List.range' first count) = List.range' first count := by
  simp only [nz, List.filter_eq_self, List.mem_range'_1]
  intro a ha; simp; omega

/-- `alloc` followed by `freeContiguous` of the same run: the allocated set is as before. -/
theorem alloc_free_roundtrip (e : Env) (first count : Nat) (hA : e.allocd.Nodup) (hf : 1 ≤ first)
    (hfresh : ∀ s, first ≤ s → s < first + count → s ∉ e.allocd)
    (e2 : Env) (h2 : e2.allocd = List.range' first count ++ e.allocd) (hd : e2.dfree = e.dfree) :
    (e2.freeContiguous first count).dfree = e.dfree ∧ (e2.freeContiguous first count).allocd.Nodup ∧
      ∀ s, s ∈ (e2.freeContiguous first count).allocd ↔ s ∈ e.allocd := by
  have hA2 : e2.allocd.Nodup := by
    rw [h2]
    refine List.nodup_append.mpr ⟨List.nodup_range', hA, ?_⟩
    intro a ha b hb hab; subst hab
    have := List.mem_range'_1.mp ha
    exact hfresh a this.1 this.2 hb
  have := freeList_spec e2 (List.range' first count) hA2
    (by intro s hs _; rw [h2]; exact List.mem_append_left _ hs)
    (by rw [nz_range' _ _ hf]; exact List.nodup_range')
  refine ⟨this.1.trans hd, this.2.1, fun s => ?_⟩
  unfold Env.freeContiguous
  rw [this.2.2, h2]
  constructor
  · rintro ⟨h3, h4⟩
    rcases List.mem_append.mp h3 with h5 | h5
    · have := List.mem_range'_1.mp h5
      exact absurd ⟨h5, by omega⟩ h4
    · exact h5
  · intro h3
    refine ⟨List.mem_append_right _ h3, fun ⟨h4, _⟩ => ?_⟩
    have := List.mem_range'_1.mp h4
    exact hfresh s this.1 this.2 h3

/-! ## `writeToNewSectors`: allocator bookkeeping -/

/-- Every error path of `writeToNewSectors` returns the allocator to the same
allocated set, without a double free. -/
theorem wns_error {c : Cfg} {h : Hole} {e e' : Env} {p : List Byte} {idx ow : Nat} {x : Err}
    (hA : e.allocd.Nodup) (hr : writeToNewSectors c h e p idx ow = (e', .error x)) :
    e'.dfree = e.dfree ∧ e'.allocd.Nodup ∧ ∀ s, s ∈ e'.allocd ↔ s ∈ e.allocd := by
  unfold writeToNewSectors at hr
  split at hr
  · rename_i e1 heq
    have := alloc_notok heq (by intro f n; simp)
    simp only [Prod.mk.injEq] at hr; obtain ⟨rfl, _⟩ := hr
    exact ⟨this.2.1, this.1 ▸ hA, fun s => by rw [this.1]⟩
  · rename_i e1 heq
    have := alloc_notok heq (by intro f n; simp)
    simp only [Prod.mk.injEq] at hr; obtain ⟨rfl, _⟩ := hr
    exact ⟨this.2.1, this.1 ▸ hA, fun s => by rw [this.1]⟩
  · rename_i e1 first got heq
    have ha := alloc_ok heq
    dsimp only at hr
    split at hr
    · rename_i e2 y heq2
      have hs := wnsPhases_same c h e1 (List.take (got * c.ss - ow) p) first idx ow
      rw [heq2] at hs
      simp only [Prod.mk.injEq] at hr; obtain ⟨rfl, _⟩ := hr
      exact alloc_free_roundtrip e first got hA ha.2.2.2.2.2.2.1 ha.2.2.2.2.2.2.2.2 e2
        (hs.1.trans ha.1) (hs.2.1.trans ha.2.1)
    · simp at hr

/-- A successful `writeToNewSectors` has allocated exactly the run it reports:
`1 ≤ got ≤` the number of sectors asked for, numbered from 1, on the device,
previously free. -/
theorem wns_ok {c : Cfg} {h : Hole} {e e' : Env} {p : List Byte} {idx ow n first got : Nat}
    (hr : writeToNewSectors c h e p idx ow = (e', .ok (n, first, got))) :
    e'.allocd = List.range' first got ++ e.allocd ∧ e'.dfree = e.dfree ∧
      1 ≤ got ∧ got ≤ (ow + p.length + c.ss - 1) / c.ss ∧ 1 ≤ first ∧ first + got ≤ c.nsec + 1 ∧
      (∀ s, first ≤ s → s < first + got → s ∉ e.allocd) ∧ n = min (got * c.ss - ow) p.length := by
  unfold writeToNewSectors at hr
  split at hr
  · simp at hr
  · simp at hr
  · rename_i e1 first' got' heq
    have ha := alloc_ok heq
    dsimp only at hr
    split at hr
    · simp at hr
    · rename_i e2 heq2
      have hs := wnsPhases_same c h e1 (List.take (got' * c.ss - ow) p) first' idx ow
      rw [heq2] at hs
      simp only [Prod.mk.injEq, Except.ok.injEq] at hr
      obtain ⟨rfl, rfl, rfl, rfl⟩ := hr
      refine ⟨hs.1.trans ha.1, hs.2.1.trans ha.2.1, ha.2.2.2.2.1, ha.2.2.2.2.2.1, ha.2.2.2.2.2.2.1,
        ha.2.2.2.2.2.2.2.1, ha.2.2.2.2.2.2.2.2, ?_⟩
      simp [List.length_take]

/-! ## `insertSectors` -/

theorem nz_eq_nil_of_all_zero (l : List Nat) (h : l.all (· == 0) = true) : nz l = [] := by
  simp only [nz, List.filter_eq_nil_iff]
  intro a ha
  have := List.all_eq_true.mp h a ha
  simpa using this

theorem insertSectors_spec {secs secs' : List Nat} {idx first count : Nat}
    (h : insertSectors secs idx first count = some secs') (hf : 1 ≤ first) :
    secs'.length = secs.length ∧ (nz secs').Perm (List.range' first count ++ nz secs) := by
  unfold insertSectors at h
  split at h
  · rename_i hc
    simp only [Option.some.injEq] at h; subst h
    constructor
    · simp; omega
    · have hsplit : secs = secs.take idx ++ ((secs.drop idx).take count ++ secs.drop (idx + count)) := by
        rw [← List.drop_drop, List.take_append_drop, List.take_append_drop]
      have h0 := nz_eq_nil_of_all_zero _ hc.2
      have hnz : nz secs = nz (secs.take idx) ++ nz (secs.drop (idx + count)) := by
        conv => lhs; rw [hsplit]
        rw [nz_append, nz_append, h0, List.nil_append]
      rw [nz_append, nz_append, nz_range' _ _ hf, hnz]
      rw [List.append_assoc]
      exact (List.perm_append_comm_assoc _ _ _)
  · simp at h

end BbRe.Lemmas.FilePool
