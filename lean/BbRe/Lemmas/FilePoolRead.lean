import BbRe.Lemmas.FilePoolWriteAt
/-!
`ReadAt` returns `content` (no read faults): run decomposition of the read loop.
-/
namespace BbRe.Lemmas.FilePool
open BbRe.FilePool

theorem readHole_nofault {e : Env} (h : e.faults.hr = none) (hole : Hole) (off n : Nat) :
    e.readHole hole off n = (e, hole.bytes off n, none) := by
  unfold Env.readHole; rw [h]

theorem devRead_nofault {e : Env} (h : e.faults.dr = none) (off n : Nat) :
    e.devRead off n = (e, readBytes e.dev off n, none) := by
  unfold Env.devRead; rw [h]

/-- one chunk: the bytes of `content` from `idx*ss+ow`, up to the end of the run. -/
theorem readFromSectors_content {c : Cfg} {f : File} {e : Env} (n idx endIdx ow : Nat)
    (hss : 0 < c.ss) (how : ow < c.ss) (hn : 0 < n) (hdr : e.faults.dr = none) (hhr : e.faults.hr = none) :
    (readFromSectors c f e n idx endIdx ow).1 = e ∧ (readFromSectors c f e n idx endIdx ow).2.2 = none ∧
      0 < (readFromSectors c f e n idx endIdx ow).2.1.length ∧
      (readFromSectors c f e n idx endIdx ow).2.1.length ≤ n ∧
      ((readFromSectors c f e n idx endIdx ow).2.1.length < n →
        (ow + (readFromSectors c f e n idx endIdx ow).2.1.length) % c.ss = 0) ∧
      ∀ j, j < (readFromSectors c f e n idx endIdx ow).2.1.length →
        (readFromSectors c f e n idx endIdx ow).2.1.getD j 0 = content c.ss e.dev f (idx * c.ss + ow + j) := by
  unfold readFromSectors
  split
  · rename_i hidx
    rw [readHole_nofault hhr]
    dsimp only
    rw [holeBytes_length]
    refine ⟨rfl, rfl, hn, Nat.le_refl _, fun h => absurd h (Nat.lt_irrefl _), fun j hj => ?_⟩
    rw [holeBytes_getD _ _ _ _ hj]
    unfold content
    rw [if_pos]
    have : idx ≤ (idx * c.ss + ow + j) / c.ss := by
      rw [Nat.le_div_iff_mul_le hss]; omega
    simp [List.getD_eq_getElem?_getD, List.getElem?_eq_none (show f.sectors.length ≤ (idx * c.ss + ow + j) / c.ss by omega)]
  · rename_i hidx
    have hidx' : idx < f.sectors.length := by omega
    obtain ⟨hc1, hc2, hc3, hc4, hc5⟩ := contig_spec f.sectors idx endIdx hidx'
    dsimp only
    have hcs : c.ss ≤ (contig f.sectors idx endIdx).2 * c.ss := Nat.le_mul_of_pos_left c.ss hc2
    have hbd : min n ((contig f.sectors idx endIdx).2 * c.ss - ow) < n →
        (ow + min n ((contig f.sectors idx endIdx).2 * c.ss - ow)) % c.ss = 0 := by
      intro hlt
      rw [Nat.min_eq_right (by omega), show ow + ((contig f.sectors idx endIdx).2 * c.ss - ow) =
        (contig f.sectors idx endIdx).2 * c.ss by omega]
      exact Nat.mul_mod_left _ _
    have hq : ∀ j, j < min n ((contig f.sectors idx endIdx).2 * c.ss - ow) →
        idx ≤ (idx * c.ss + ow + j) / c.ss ∧ (idx * c.ss + ow + j) / c.ss < idx + (contig f.sectors idx endIdx).2 := by
      intro j hj
      exact range_div (ss := c.ss) (idx := idx) (ow := ow) (i := idx * c.ss + ow + j) (m := j + 1)
        (cnt := (contig f.sectors idx endIdx).2) (by omega) (by omega) (by omega)
    split
    · rename_i hz
      rw [readHole_nofault hhr]
      dsimp only
      rw [holeBytes_length]
      refine ⟨rfl, rfl, by omega, Nat.min_le_left _ _, hbd, fun j hj => ?_⟩
      rw [holeBytes_getD _ _ _ _ hj]
      unfold content
      rw [if_pos]
      have := hq j hj
      have h5 := hc5 ((idx * c.ss + ow + j) / c.ss - idx) (by omega)
      rw [show idx + ((idx * c.ss + ow + j) / c.ss - idx) = (idx * c.ss + ow + j) / c.ss by omega, if_pos hz] at h5
      exact h5
    · rename_i hnz
      rw [devRead_nofault hdr]
      dsimp only
      rw [readBytes_length]
      refine ⟨rfl, rfl, by omega, Nat.min_le_left _ _, hbd, fun j hj => ?_⟩
      rw [readBytes_getD _ _ _ _ hj]
      have := hq j hj
      obtain ⟨d, hd⟩ : ∃ d, (idx * c.ss + ow + j) / c.ss = idx + d := ⟨(idx * c.ss + ow + j) / c.ss - idx, by omega⟩
      have h5 := hc5 d (by omega)
      rw [if_neg hnz] at h5
      have hi := div_mul_mod (idx * c.ss + ow + j) c.ss
      rw [hd, Nat.add_mul] at hi
      unfold content
      rw [hd, h5, if_neg (by omega)]
      congr 1
      obtain ⟨t0, ht0⟩ : ∃ t0, (contig f.sectors idx endIdx).1 = t0 + 1 :=
        ⟨(contig f.sectors idx endIdx).1 - 1, by omega⟩
      rw [ht0, show t0 + 1 + d - 1 = t0 + d by omega, Nat.add_sub_cancel, Nat.add_mul]
      omega

theorem readLoop_content {c : Cfg} {f : File} {e : Env} (hss : 0 < c.ss) (hdr : e.faults.dr = none)
    (hhr : e.faults.hr = none) : ∀ (fuel n idx endIdx ow : Nat), ow < c.ss → 0 < n → n < fuel →
    (readLoop c f fuel e n idx endIdx ow).1 = e ∧ (readLoop c f fuel e n idx endIdx ow).2.2 = none ∧
      (readLoop c f fuel e n idx endIdx ow).2.1.length = n ∧
      ∀ j, j < n → (readLoop c f fuel e n idx endIdx ow).2.1.getD j 0 =
        content c.ss e.dev f (idx * c.ss + ow + j) := by
  intro fuel
  induction fuel with
  | zero => intro n idx endIdx ow _ _ h; omega
  | succ fuel ih =>
    intro n idx endIdx ow how hn hfu
    obtain ⟨h1, h2, h3, h4, h5, h6⟩ := readFromSectors_content (c := c) (f := f) (e := e) n idx endIdx ow hss how hn hdr hhr
    unfold readLoop
    dsimp only
    generalize readFromSectors c f e n idx endIdx ow = r at h1 h2 h3 h4 h5 h6 ⊢
    rw [h2]
    dsimp only
    split
    · rename_i hz
      have hl : r.2.1.length = n := by omega
      refine ⟨h1, rfl, hl, fun j hj => h6 j (by omega)⟩
    · rename_i hz
      have hlt : r.2.1.length < n := by omega
      rw [if_neg (by rw [h5 hlt]; simp)]
      have hpos : (idx + (ow + r.2.1.length) / c.ss) * c.ss + 0 = idx * c.ss + ow + r.2.1.length := by
        have := div_mul_mod (ow + r.2.1.length) c.ss
        rw [h5 hlt] at this
        rw [Nat.add_mul]; omega
      rw [h1]
      obtain ⟨i1, i2, i3, i4⟩ := ih (n - r.2.1.length) (idx + (ow + r.2.1.length) / c.ss) endIdx 0 hss
        (by omega) (by omega)
      dsimp only
      refine ⟨i1, i2, by rw [List.length_append, i3]; omega, fun j hj => ?_⟩
      by_cases hj1 : j < r.2.1.length
      · rw [getD_append_lt _ _ _ hj1]; exact h6 j hj1
      · rw [getD_append_ge _ _ _ (by omega), i4 _ (by omega), hpos]
        congr 1; omega

/-- **`ReadAt` returns the contents** (no read faults, offset `o` inside the file, `n > 0`):
the bytes of `content` from `o`, cut at the size; `io.EOF` exactly when the read reaches the end. -/
theorem readAt_content {c : Cfg} {f : File} {e : Env} (o n : Nat) (hss : 0 < c.ss) (hn : 0 < n)
    (ho : o < f.size) (hdr : e.faults.dr = none) (hhr : e.faults.hr = none) :
    (readAt c f e o n).1 = e ∧
      (readAt c f e o n).2.2 = (if o + n ≥ f.size then some .eof else none) ∧
      (readAt c f e o n).2.1.length = min n (f.size - o) ∧
      ∀ j, j < min n (f.size - o) → (readAt c f e o n).2.1.getD j 0 = content c.ss e.dev f (o + j) := by
  unfold readAt
  rw [if_neg (by omega), if_neg (by omega)]
  dsimp only
  rw [Int.toNat_natCast, if_neg (by omega)]
  have hn' : 0 < (if o + n ≥ f.size then f.size - o else n) := by split <;> omega
  obtain ⟨l1, l2, l3, l4⟩ := readLoop_content (c := c) (f := f) (e := e) hss hdr hhr
    ((if o + n ≥ f.size then f.size - o else n) + 1) (if o + n ≥ f.size then f.size - o else n) (o / c.ss)
    (min ((o + (if o + n ≥ f.size then f.size - o else n) + c.ss - 1) / c.ss) f.sectors.length) (o % c.ss)
    (Nat.mod_lt _ hss) hn' (Nat.lt_succ_self _)
  rw [div_mul_mod] at l4
  have hmin : (if o + n ≥ f.size then f.size - o else n) = min n (f.size - o) := by split <;> omega
  refine ⟨l1, ?_, by rw [l3, hmin], fun j hj => l4 j (by rw [hmin]; exact hj)⟩
  rw [l2]

end BbRe.Lemmas.FilePool
