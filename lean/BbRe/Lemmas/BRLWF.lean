import BbRe.Lemmas.BRLSet
/-!
# Helper lemmas for C20: `setList` preserves the invariant

The output `pre ++ [n2]? ++ kept ++ tr2? ++ rest2` is pairwise related because
`pre ++ kept ++ rest2` is obtained from the input by deleting / shrinking
entries, and the two inserted entries are related to everything around them.
-/
namespace BbRe.Lemmas.BRL
open BbRe.BRL BbRe.Spec.ByteLocks


theorem pairwise_insert {α} {R : α → α → Prop} {A B : List α} {x : α}
    (h : (A ++ B).Pairwise R) (h1 : ∀ a ∈ A, R a x) (h2 : ∀ b ∈ B, R x b) :
    (A ++ x :: B).Pairwise R := by
  rw [List.pairwise_append] at h ⊢
  refine ⟨h.1, List.pairwise_cons.2 ⟨h2, h.2.1⟩, ?_⟩
  intro a ha b hb
  simp only [List.mem_cons] at hb
  rcases hb with rfl | hb
  · exact h1 a ha
  · exact h.2.2 a ha b hb

theorem ty_shared_of {t : Ty} (h1 : t ≠ .unlocked) (h2 : t ≠ .excl) : t = .shared := by
  cases t <;> simp_all

variable {ls : List Lock} {l : Lock} {pre kept rest2 : List Lock} {n2 : Lock} {tr2 : Option Lock}

/-- Another owner's entry that overlaps the grown new lock is shared, and so is
the new lock — because `Test` found no conflict. -/
theorem Pieces.cross_n2 (P : Pieces ls l pre kept rest2 n2 tr2)
    (hok : ∀ e ∈ ls, Ok e) (hp : ls.Pairwise Rel) (hl : l.start < l.stop)
    (hty : l.ty ≠ .unlocked) (ht : test ls l = none)
    {y : Lock} (hy : y ∈ ls) (ho : y.owner ≠ l.owner)
    (h1 : y.start < n2.stop) (h2 : n2.start < y.stop) : y.ty = .shared ∧ l.ty = .shared := by
  have hs : ls.Pairwise (fun a b => a.start ≤ b.start) := hp.imp (fun h => h.1)
  have hyok := hok y hy
  have hn2s := P.n2_start
  have hn2e := P.n2_stop
  -- a common byte
  have hb : ∃ b, y.start ≤ b ∧ b < y.stop ∧ n2.start ≤ b ∧ b < n2.stop := by
    unfold Ok at hyok
    by_cases h : y.start ≤ n2.start
    · exact ⟨n2.start, h, h2, Nat.le_refl _, by omega⟩
    · exact ⟨y.start, Nat.le_refl _, hyok.1, by omega, h1⟩
  obtain ⟨b, hb1, hb2, hb3, hb4⟩ := hb
  rcases P.n2_cov b hb3 hb4 with h | ⟨e, he, heo, het, he1, he2⟩
  · have := (test_none_iff hs l).1 ht y hy ho (by omega) (by omega)
    exact ⟨ty_shared_of hyok.2 (fun h => this (Or.inl h)), ty_shared_of hty (fun h => this (Or.inr h))⟩
  · have := cross_of_mem hp hy he (by rw [heo]; exact ho) (by omega) (by omega)
    exact ⟨this.1, by rw [← het]; exact this.2⟩


/-- (i) every entry placed before the re-inserted trailing part is related to it -/
theorem Pieces.tr_rel_before (P : Pieces ls l pre kept rest2 n2 tr2)
    (hp : ls.Pairwise Rel) (hl : l.start < l.stop) {x : Lock} (hx : tr2 = some x) :
    ∀ a ∈ pre ++ kept, Rel a x := by
  obtain ⟨hxo, hxt, hxs, hxne, e, he, heo, het, hes, hee⟩ := P.tr_ok x hx
  have hn2s := P.n2_start
  have hn2e := P.n2_stop
  have hn2o := P.n2_owner
  intro a ha
  simp only [List.mem_append] at ha
  rcases ha with ha | ha
  · obtain ⟨a0, ha0, hsh⟩ := P.pre_src a ha
    obtain ⟨hb1, hb2, hb3⟩ := P.pre_b a ha
    unfold Shrink at hsh
    refine ⟨by omega, ?_, ?_⟩
    · intro ho
      have := hb3 (by omega)
      omega
    · intro ho h1 h2
      have := cross_of_mem hp ha0 he (by omega)
        (by omega) (by omega)
      rw [hsh.2.2.1, ← het]
      exact this
  · obtain ⟨hk1, hk2, hk3, hk4⟩ := P.kept_b a ha
    refine ⟨by omega, ?_, ?_⟩
    · intro ho
      omega
    · intro ho h1 h2
      have := cross_of_mem hp hk1 he (by omega) (by omega) (by omega)
      rw [← het]
      exact this

/-- (ii) the re-inserted trailing part is related to everything after it -/
theorem Pieces.tr_rel_after (P : Pieces ls l pre kept rest2 n2 tr2)
    (hp : ls.Pairwise Rel) {x : Lock} (hx : tr2 = some x) :
    ∀ y ∈ rest2, Rel x y := by
  obtain ⟨hxo, hxt, hxs, hxne, e, he, heo, het, hes, hee⟩ := P.tr_ok x hx
  have hn2o := P.n2_owner
  intro y hy
  obtain ⟨hy1, hy2⟩ := P.rest_b y hy
  have hrel := rel_of_mem_of_lt hp he hy1 (by omega)
  unfold Rel at hrel
  refine ⟨by omega, ?_, ?_⟩
  · intro ho
    have := hrel.2.1 (by omega)
    rw [← hes, ← het]
    exact this
  · intro ho h1 h2
    have := hrel.2.2 (by omega) (by omega) (by omega)
    rw [← het]
    exact this

/-- (iii) every entry before the insertion point is related to the new lock -/
theorem Pieces.n2_rel_before (P : Pieces ls l pre kept rest2 n2 tr2)
    (hok : ∀ e ∈ ls, Ok e) (hp : ls.Pairwise Rel) (hl : l.start < l.stop)
    (hty : l.ty ≠ .unlocked) (ht : test ls l = none) :
    ∀ a ∈ pre, Rel a n2 := by
  intro a ha
  obtain ⟨a0, ha0, hsh⟩ := P.pre_src a ha
  obtain ⟨hb1, hb2, hb3⟩ := P.pre_b a ha
  unfold Shrink at hsh
  refine ⟨hb2, ?_, ?_⟩
  · intro ho
    have := P.n2_owner
    rw [P.n2_ty]
    exact hb3 (by omega)
  · intro ho h1 h2
    have := P.cross_n2 hok hp hl hty ht ha0 (by have := P.n2_owner; omega)
      (by omega) (by omega)
    rw [hsh.2.2.1, P.n2_ty]
    exact this

/-- (iv) the new lock is related to everything after the insertion point -/
theorem Pieces.n2_rel_after (P : Pieces ls l pre kept rest2 n2 tr2)
    (hok : ∀ e ∈ ls, Ok e) (hp : ls.Pairwise Rel) (hl : l.start < l.stop)
    (hty : l.ty ≠ .unlocked) (ht : test ls l = none) :
    ∀ y ∈ kept ++ (tr2.toList ++ rest2), Rel n2 y := by
  intro y hy
  have hn2s := P.n2_start
  have hn2e := P.n2_stop
  simp only [List.mem_append, Option.mem_toList] at hy
  rcases hy with hy | hy | hy
  · obtain ⟨hk1, hk2, hk3, hk4⟩ := P.kept_b y hy
    refine ⟨hk3, fun ho => absurd (by have := P.n2_owner; omega) hk2, ?_⟩
    intro ho h1 h2
    have := P.cross_n2 hok hp hl hty ht hk1 hk2 h2 h1
    rw [P.n2_ty]
    exact this.symm
  · obtain ⟨hxo, hxt, hxs, hxne, _⟩ := P.tr_ok y hy
    refine ⟨by omega, fun _ => ⟨by omega, fun h => absurd h.symm hxt⟩, ?_⟩
    intro ho
    exact absurd hxo.symm ho
  · obtain ⟨hy1, hy2⟩ := P.rest_b y hy
    exact ⟨by omega, fun _ => ⟨by omega, fun _ => hy2⟩, fun _ _ h => by omega⟩


theorem Pieces.pairwise_unlock (P : Pieces ls l pre kept rest2 n2 tr2)
    (hp : ls.Pairwise Rel) (hl : l.start < l.stop) :
    (pre ++ (kept ++ (tr2.toList ++ rest2))).Pairwise Rel := by
  cases hx : tr2 with
  | none => simpa using P.base
  | some x =>
    have h := pairwise_insert (x := x) (A := pre ++ kept) (B := rest2)
      (by simpa using P.base) (P.tr_rel_before hp hl hx) (P.tr_rel_after hp hx)
    simpa using h

theorem Pieces.pairwise_lock (P : Pieces ls l pre kept rest2 n2 tr2)
    (hok : ∀ e ∈ ls, Ok e) (hp : ls.Pairwise Rel) (hl : l.start < l.stop)
    (hty : l.ty ≠ .unlocked) (ht : test ls l = none) :
    (pre ++ n2 :: (kept ++ (tr2.toList ++ rest2))).Pairwise Rel :=
  pairwise_insert (P.pairwise_unlock hp hl) (P.n2_rel_before hok hp hl hty ht)
    (P.n2_rel_after hok hp hl hty ht)

theorem Pieces.ok_unlock (P : Pieces ls l pre kept rest2 n2 tr2) (hok : ∀ e ∈ ls, Ok e) :
    ∀ e ∈ pre ++ (kept ++ (tr2.toList ++ rest2)), Ok e := by
  intro e he
  simp only [List.mem_append, Option.mem_toList] at he
  rcases he with he | he | he | he
  · exact P.pre_ok e he
  · exact hok e (P.kept_b e he).1
  · obtain ⟨_, _, _, hne, e0, he0, _, het, _, _⟩ := P.tr_ok e he
    exact ⟨hne, by rw [← het]; exact (hok e0 he0).2⟩
  · exact hok e (P.rest_b e he).1

theorem Pieces.ok_n2 (P : Pieces ls l pre kept rest2 n2 tr2) (hl : l.start < l.stop)
    (hty : l.ty ≠ .unlocked) : Ok n2 := by
  have := P.n2_start
  have := P.n2_stop
  exact ⟨by omega, by rw [P.n2_ty]; exact hty⟩

/-! ## `setList` level -/

theorem setList_unlock_eq (ls : List Lock) (l : Lock) (h : l.ty = .unlocked) :
    setList ls l = (phase1 l none ls).1 ++
      ((phase2 (phase1 l none ls).2.2.1 (phase1 l none ls).2.2.2 (phase1 l none ls).2.1).1 ++
      ((phase2 (phase1 l none ls).2.2.1 (phase1 l none ls).2.2.2 (phase1 l none ls).2.1).2.2.2.toList ++
       (phase2 (phase1 l none ls).2.2.1 (phase1 l none ls).2.2.2 (phase1 l none ls).2.1).2.1)) := by
  unfold setList
  simp only [h, if_true, List.append_nil, List.append_assoc]

theorem setList_lock_eq (ls : List Lock) (l : Lock) (h : l.ty ≠ .unlocked) :
    setList ls l = (phase1 l none ls).1 ++
      (phase2 (phase1 l none ls).2.2.1 (phase1 l none ls).2.2.2 (phase1 l none ls).2.1).2.2.1 ::
      ((phase2 (phase1 l none ls).2.2.1 (phase1 l none ls).2.2.2 (phase1 l none ls).2.1).1 ++
      ((phase2 (phase1 l none ls).2.2.1 (phase1 l none ls).2.2.2 (phase1 l none ls).2.1).2.2.2.toList ++
       (phase2 (phase1 l none ls).2.2.1 (phase1 l none ls).2.2.2 (phase1 l none ls).2.1).2.1)) := by
  unfold setList
  simp only [h, if_false, List.append_assoc, List.cons_append, List.nil_append]

theorem wf_setList_unlock {ls : List Lock} {l : Lock} (hwf : WF ls) (hl : l.start < l.stop)
    (hty : l.ty = .unlocked) : WF (setList ls l) := by
  rw [wf_iff] at hwf ⊢
  have P := pieces ls l hwf.1 hwf.2 hl
  rw [setList_unlock_eq ls l hty]
  exact ⟨P.ok_unlock hwf.1, P.pairwise_unlock hwf.2 hl⟩

theorem wf_setList_lock {ls : List Lock} {l : Lock} (hwf : WF ls) (hl : l.start < l.stop)
    (hty : l.ty ≠ .unlocked) (ht : test ls l = none) : WF (setList ls l) := by
  rw [wf_iff] at hwf ⊢
  have P := pieces ls l hwf.1 hwf.2 hl
  rw [setList_lock_eq ls l hty]
  refine ⟨?_, P.pairwise_lock hwf.1 hwf.2 hl hty ht⟩
  intro e he
  simp only [List.mem_append, List.mem_cons] at he
  rcases he with he | rfl | he
  · exact P.ok_unlock hwf.1 e (by simp [he])
  · exact P.ok_n2 hl hty
  · exact P.ok_unlock hwf.1 e (by simp only [List.mem_append]; right; simpa using he)

end BbRe.Lemmas.BRL
