import BbRe.Lemmas.BitmapWord
/-! Array-level lemmas: `getW`/`setW` and the bit view `bit` of the bitmap. -/
namespace BbRe.Lemmas.Bitmap
open BbRe.Bitmap

theorem size_setW (bm : Array Word) (i : Nat) (v : Word) : (setW bm i v).size = bm.size := by
  simp [setW]

theorem getW_eq_getElem? (bm : Array Word) (i : Nat) : getW bm i = bm[i]?.getD 0 := by
  simp [getW]

theorem getW_setW (bm : Array Word) (i : Nat) (v : Word) (j : Nat) :
    getW (setW bm i v) j = if i = j ∧ i < bm.size then v else getW bm j := by
  simp only [getW_eq_getElem?, setW, Array.getElem?_setIfInBounds]
  by_cases h : i = j
  · subst h
    by_cases hs : i < bm.size <;> simp [hs]
  · simp [h]

theorem getW_of_size_le (bm : Array Word) (i : Nat) (h : bm.size ≤ i) : getW bm i = 0 := by
  simp [getW_eq_getElem?, Array.getElem?_eq_none h]

theorem lt_size_of_getW_ne_zero {bm : Array Word} {i : Nat} (h : getW bm i ≠ 0) : i < bm.size := by
  by_cases hs : i < bm.size
  · exact hs
  · exact absurd (getW_of_size_le bm i (by omega)) h

/-- Writing back `old &&& m` is the same inside and outside the slice (outside, `old = 0`). -/
theorem getW_setW_and (bm : Array Word) (i : Nat) (m : Word) (j : Nat) :
    getW (setW bm i (getW bm i &&& m)) j = if i = j then getW bm i &&& m else getW bm j := by
  rw [getW_setW]
  by_cases h : i = j
  · subst h
    by_cases hs : i < bm.size
    · simp [hs]
    · simp [hs, getW_of_size_le bm i (by omega)]
  · simp [h]

theorem bit_def (bm : Array Word) (i : Nat) : bit bm i = (getW bm (i / 64)).getLsbD (i % 64) := rfl

theorem bit_of_size_le (bm : Array Word) (i : Nat) (h : bm.size ≤ i / 64) : bit bm i = false := by
  simp [bit_def, getW_of_size_le bm _ h]

/-- Two bitmaps with the same words have the same bits. -/
theorem bit_congr {bm bm' : Array Word} (i : Nat) (h : getW bm' (i / 64) = getW bm (i / 64)) :
    bit bm' i = bit bm i := by
  simp [bit_def, h]

/-- bit `i` written as word index / position -/
theorem bit_at (bm : Array Word) (k j : Nat) (hj : j < 64) : bit bm (k * 64 + j) = (getW bm k).getLsbD j := by
  have h1 : (k * 64 + j) / 64 = k := by omega
  have h2 : (k * 64 + j) % 64 = j := by omega
  simp [bit_def, h1, h2]

theorem getW_eq_zero_of_bits {bm : Array Word} {k : Nat}
    (h : ∀ i, i / 64 = k → bit bm i = false) : getW bm k = 0 := by
  rw [eq_zero_iff_bits]
  intro j hj
  have := h (k * 64 + j) (by omega)
  rwa [bit_at bm k j hj] at this

theorem bits_of_getW_eq_zero {bm : Array Word} {i : Nat} (h : getW bm (i / 64) = 0) : bit bm i = false := by
  simp [bit_def, h]

end BbRe.Lemmas.Bitmap
