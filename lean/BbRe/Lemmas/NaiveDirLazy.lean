import BbRe.Lemmas.NaiveDir
import BbRe.Lemmas.InputRootEager
/-!
The eager merge against the lazy input root: a clean eager merge has accepted only
well-formed Directory messages (in the sense of the lazy fetcher, `WellFormed`), and the
tree it leaves shows, under every path, what the fully explored lazy tree (`expand`) shows.
-/
namespace BbRe.Lemmas.NaiveDir
open BbRe.InputRoot BbRe.NaiveDir BbRe.Lemmas.InputRoot

theorem mkDirN_isSome (c : CAS) (O : Oracle) (f : Nat) (p : Path) (e : DirNode)
    (h : (mkDirN c O f p e).isSome = true) : (parseDigest c.hashLen e.digest).isSome = true := by
  unfold mkDirN at h
  cases hp : parseDigest c.hashLen e.digest with
  | none => simp [hp] at h
  | some d => rfl

/-- The three loop conditions of the eager walk (files, directories, symlinks) amount to the
well-formedness the lazy fetcher demands (directories, files, symlinks). -/
theorem wellFormed_of_level (hl : Nat) (m : DirMsg) (mkD : DirNode → Option Node)
    (hD : ∀ e, (mkD e).isSome = true → (parseDigest hl e.digest).isSome = true)
    (g1 : GoodList FileNode.name (mkFile hl) m.files [])
    (g2 : GoodList DirNode.name mkD m.dirs (conv FileNode.name (mkFile hl) m.files))
    (g3 : GoodList SymNode.name mkSym m.syms
      (conv FileNode.name (mkFile hl) m.files ++ conv DirNode.name mkD m.dirs)) :
    WellFormed hl m := by
  obtain ⟨f1, f2, _⟩ := g1
  obtain ⟨d1, d2, d3⟩ := g2
  obtain ⟨s1, s2, s3⟩ := g3
  have hF := hasName_conv FileNode.name (mkFile hl) m.files (fun e he => (f1 e he).2)
  have hDn := hasName_conv DirNode.name mkD m.dirs (fun e he => (d1 e he).2)
  refine ⟨?_, ?_, ?_, ?_, ?_⟩
  · intro n hn
    simp only [entryNames, List.mem_append, List.mem_map] at hn
    rcases hn with (⟨e, he, rfl⟩ | ⟨e, he, rfl⟩) | ⟨e, he, rfl⟩
    · exact (d1 e he).1
    · exact (f1 e he).1
    · exact (s1 e he).1
  · simp only [entryNames]
    rw [List.nodup_append, List.nodup_append]
    refine ⟨⟨d2, f2, ?_⟩, s2, ?_⟩
    · intro a ha b hb hab
      subst hab
      obtain ⟨e, he, rfl⟩ := List.mem_map.1 ha
      have h1 := d3 e he
      have h2 := (hF (DirNode.name e)).2 hb
      rw [h1] at h2
      cases h2
    · intro a ha b hb hab
      subst hab
      obtain ⟨e, he, rfl⟩ := List.mem_map.1 hb
      have h1 := s3 e he
      rw [hasName_append] at h1
      simp only [Bool.or_eq_false_iff] at h1
      rcases List.mem_append.1 ha with ha | ha
      · have h2 := (hDn (SymNode.name e)).2 ha
        rw [h1.2] at h2
        cases h2
      · have h2 := (hF (SymNode.name e)).2 ha
        rw [h1.1] at h2
        cases h2
  · intro e he
    exact hD e (d1 e he).2
  · intro e he
    rw [← mkFile_isSome]
    exact (f1 e he).2
  · intro e he
    exact (mkSym_isSome e).1 (s1 e he).2

/-! ### looking a name up in both trees -/

def OptRel (R : Node → Node → Prop) : Option Node → Option Node → Prop
  | none, none => True
  | some a, some b => R a b
  | _, _ => False

theorem lookup_conv_rel {α : Type} (nameOf : α → Name) (mk mk' : α → Option Node)
    (R : Node → Node → Prop) (es : List α) (h : ∀ e ∈ es, OptRel R (mk e) (mk' e)) (x : Name) :
    OptRel R (lookup (conv nameOf mk es) x) (lookup (conv nameOf mk' es) x) := by
  induction es with
  | nil => simp [conv, lookup, OptRel]
  | cons e rest ih =>
    have ih' := ih (fun e' he' => h e' (List.mem_cons_of_mem _ he'))
    have he := h e (List.mem_cons_self ..)
    cases h1 : mk e with
    | none =>
      cases h2 : mk' e with
      | none =>
        have a1 : conv nameOf mk (e :: rest) = conv nameOf mk rest := by simp [conv, h1]
        have a2 : conv nameOf mk' (e :: rest) = conv nameOf mk' rest := by simp [conv, h2]
        rw [a1, a2]; exact ih'
      | some b => simp [h1, h2, OptRel] at he
    | some a =>
      cases h2 : mk' e with
      | none => simp [h1, h2, OptRel] at he
      | some b =>
        have a1 : conv nameOf mk (e :: rest) = (nameOf e, a) :: conv nameOf mk rest := by simp [conv, h1]
        have a2 : conv nameOf mk' (e :: rest) = (nameOf e, b) :: conv nameOf mk' rest := by simp [conv, h2]
        rw [a1, a2]
        simp only [h1, h2, OptRel] at he
        by_cases hx : nameOf e = x
        · simp [lookup, hx, OptRel, he]
        · simp only [lookup, hx, if_false]; exact ih'

theorem optRel_or (R : Node → Node → Prop) (a a' b b' : Option Node)
    (ha : OptRel R a a') (hb : OptRel R b b') : OptRel R (a.or b) (a'.or b') := by
  cases a <;> cases a' <;> simp_all [OptRel]

theorem optRel_or_swap (R : Node → Node → Prop) (a a' b b' : Option Node)
    (ha : OptRel R a a') (hb : OptRel R b b') (hdis : a.isSome = true → b = none) :
    OptRel R (a.or b) (b'.or a') := by
  cases a <;> cases a' <;> cases b <;> cases b' <;> simp_all [OptRel]

/-- Under every path the two nodes show the same kind of thing (file with digest and
executable bit, symlink with target, directory) or both nothing. -/
def Shows (c : CAS) (f : Nat) (v v' : Node) : Prop :=
  ∀ q : Path, (rawAt v q).map kindOf = (rawAt (expand c f v') q).map kindOf

theorem expand_file (c : CAS) (f : Nat) (d : Dig) (x : Bool) (m : Option Path) :
    expand c f (.file d x m) = .file d x m := by cases f <;> simp [expand]

theorem expand_sym (c : CAS) (f : Nat) (t : Bytes) : expand c f (.sym t) = .sym t := by
  cases f <;> simp [expand]

theorem shows_mkFile (c : CAS) (f : Nat) (e : FileNode) :
    OptRel (Shows c f) (mkFile c.hashLen e) (mkFile c.hashLen e) := by
  unfold mkFile
  cases parseDigest c.hashLen e.digest with
  | none => simp [OptRel]
  | some d => simp only [Option.map, OptRel, Shows, expand_file]; intro q; trivial

theorem shows_mkSym (c : CAS) (f : Nat) (e : SymNode) : OptRel (Shows c f) (mkSym e) (mkSym e) := by
  unfold mkSym
  split
  · simp only [OptRel, Shows, expand_sym]; intro q; trivial
  · simp [OptRel]

theorem annotate_none_spec (hl : Nat) (m : DirMsg) :
    (specChildren hl m).map (annotate none) = specChildren hl m := by
  have : ∀ e ∈ specChildren hl m, annotate none e = e := by
    intro e he
    obtain ⟨x, v⟩ := e
    rcases mem_specChildren hl m x v he with ⟨_, _, d', _, rfl⟩ | ⟨d', ex, rfl⟩ | ⟨t, rfl⟩ <;>
      simp [annotate]
  rw [List.map_congr_left this, List.map_id']

theorem getDirectory_ok (c : CAS) (F : List Dig) (d : Dig) (m : DirMsg)
    (h : getDirectory c F d = .ok m) : assoc c.dirs d = some (some m) := by
  unfold getDirectory at h
  split at h
  · cases h
  · split at h
    · cases h
    · cases h
    · rename_i m' hm; cases h; exact hm

/-- A clean eager merge shows what the fully explored lazy directory of the same digest shows. -/
theorem shows_of_clean (c : CAS) (O : Oracle) : ∀ (f : Nat) (d : Dig) (p : Path) (ch : Children),
    mergeDirIn c O f d p [] false = ⟨ch, false, none⟩ → Shows c f (.dir ch) (.lazy d none) := by
  intro f
  induction f with
  | zero => intro d p ch h; simp [mergeDirIn] at h
  | succ f ih =>
    intro d p ch h
    obtain ⟨m, hg, g1, g2, g3, hch, -⟩ := level_ok c O f d p ch h
    have hm := getDirectory_ok c O.cas d m hg
    have hw := wellFormed_of_level c.hashLen m (mkDirN c O f p) (mkDirN_isSome c O f p) g1 g2 g3
    have hfetch := fetch_wellFormed c [] d none m (by simp) hm hw
    rw [annotate_none_spec] at hfetch
    -- entry-wise relation between what the eager walk made and what the lazy fetcher lists
    have hdirs : ∀ e ∈ m.dirs, OptRel (Shows c f) (mkDirN c O f p e) (mkDir c.hashLen e) := by
      intro e he
      have hs := (g2.1 e he).2
      unfold mkDirN at hs ⊢
      unfold mkDir
      cases hp : parseDigest c.hashLen e.digest with
      | none => simp [OptRel]
      | some d' =>
        simp only [hp, Option.bind, Option.map] at hs ⊢
        split at hs
        · rename_i hc
          simp only [hc, if_true, OptRel]
          simp only [Bool.and_eq_true, Bool.not_eq_true', Option.isNone_iff_eq_none] at hc
          apply ih d' (p ++ [e.name])
          generalize mergeDirIn c O f d' (p ++ [e.name]) [] false = r at hc
          cases r; simp_all
        · cases hs
    have hdis : ∀ x, (lookup (conv FileNode.name (mkFile c.hashLen) m.files) x).isSome = true →
        lookup (conv DirNode.name (mkDirN c O f p) m.dirs) x = none := by
      intro x hx
      cases hl : lookup (conv DirNode.name (mkDirN c O f p) m.dirs) x with
      | none => rfl
      | some v =>
        have h1 : hasName (conv DirNode.name (mkDirN c O f p) m.dirs) x = true := by simp [hasName, hl]
        have h2 := (hasName_conv DirNode.name (mkDirN c O f p) m.dirs (fun e he => (g2.1 e he).2) x).1 h1
        obtain ⟨e, he, rfl⟩ := List.mem_map.1 h2
        have h3 := g2.2.2 e he
        simp only [hasName] at h3
        rw [h3] at hx
        cases hx
    intro q
    cases q with
    | nil => simp [rawAt, expand, hfetch, kindOf]
    | cons x rest =>
      have hrel : OptRel (Shows c f) (lookup ch x) (lookup (specChildren c.hashLen m) x) := by
        rw [hch]
        simp only [naiveChildren, specChildren, lookup_append]
        apply optRel_or
        · exact optRel_or_swap _ _ _ _ _
            (lookup_conv_rel _ _ _ _ _ (fun e _ => shows_mkFile c f e) x)
            (lookup_conv_rel _ _ _ _ _ hdirs x) (hdis x)
        · exact lookup_conv_rel _ _ _ _ _ (fun e _ => shows_mkSym c f e) x
      simp only [rawAt, expand, hfetch, lookup_map]
      cases h1 : lookup ch x with
      | none =>
        cases h2 : lookup (specChildren c.hashLen m) x with
        | none => simp
        | some b => simp [h1, h2, OptRel] at hrel
      | some a =>
        cases h2 : lookup (specChildren c.hashLen m) x with
        | none => simp [h1, h2, OptRel] at hrel
        | some b =>
          simp only [h1, h2, OptRel] at hrel
          simpa using hrel rest

end BbRe.Lemmas.NaiveDir
