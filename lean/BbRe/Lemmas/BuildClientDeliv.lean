import BbRe.Lemmas.BuildClientHanded
/-!
The completion of an action is never lost between the executor goroutine and
the request state (`Deliv`), in every reachable state.
-/
namespace BbRe.Lemmas.BuildClient
open BbRe.BuildClient

/-- The completion is never lost: once `Execute` has returned `r`, `Completed r`
is the last message still to be taken off the channel, or everything has been
taken and the request state is `Completed r`; and when the client holds no
execution the request state is `Idle` or a `Completed`. -/
def Deliv (s : State) : Prop :=
  (∀ e r, s.cur = some e → e.returned = some r → (∀ k, s.pc ≠ .drain k) →
    (pending e).getLast? = some ⟨e.digest, .completed r⟩ ∨
    (pending e = [] ∧ s.req = .executing e.digest (.completed r))) ∧
  (s.cur = none → s.req = .idle ∨ ∃ d r, s.req = .executing d (.completed r))

theorem deliv_frame {s s' : State} (h : Deliv s) (h1 : s'.cur = s.cur) (h2 : s'.req = s.req)
    (h3 : (∀ k, s'.pc ≠ .drain k) → ∀ k, s.pc ≠ .drain k) : Deliv s' := by
  refine ⟨?_, ?_⟩
  · intro e r hc hr hk
    rw [h1] at hc; rw [h2]
    exact h.1 e r hc hr (h3 hk)
  · intro hc; rw [h1] at hc; rw [h2]; exact h.2 hc

theorem deliv_finishStop (s : State) (k : DrainFor) (hc : s.cur = none) : Deliv (finishStop s k) := by
  cases k with
  | idle =>
    refine ⟨?_, ?_⟩
    · intro e r h; simp [finishStop, retRun, hc] at h
    · intro _; left; simp [finishStop, retRun]
  | start d =>
    refine ⟨?_, ?_⟩
    · intro e r h hr; simp [finishStop, retRun, touch] at h; subst h; simp at hr
    · intro h; simp [finishStop, retRun, touch] at h

theorem deliv_stopThen {s : State} (_h : Deliv s) (k : DrainFor) : Deliv (stopThen s k) := by
  unfold stopThen
  split
  · refine ⟨?_, ?_⟩
    · intro e r _ _ hk; exact absurd rfl (hk k)
    · intro hc; simp at hc
  · rename_i hc; exact deliv_finishStop s k hc

theorem deliv_replyBody {s1 s' : State} (h : Deliv s1) (hnd : ∀ k, s1.pc ≠ .drain k) (ce : Bool)
    (r : Reply) (hs : replyBody s1 ce r = some s') : Deliv s' := by
  have fr : ∀ (s2 : State) (a b : Bool), s2.cur = s1.cur → s2.req = s1.req →
      Deliv (retRun s2 a b) := fun s2 a b h1 h2 =>
    deliv_frame h (by simpa [retRun] using h1) (by simpa [retRun] using h2) (fun _ => hnd)
  have st : ∀ (s2 : State) (k : DrainFor), s2.cur = s1.cur → s2.req = s1.req → s2.pc = s1.pc →
      Deliv (stopThen s2 k) := fun s2 k h1 h2 h3 =>
    deliv_stopThen (deliv_frame h h1 h2 (fun _ => hnd)) k
  unfold replyBody at hs
  cases r with
  | rpcError => simp at hs; subst hs; exact fr _ _ _ rfl rfl
  | reply ts d =>
    cases ts with
    | none => simp at hs; subst hs; exact fr _ _ _ rfl rfl
    | some ts =>
      cases d with
      | none =>
        simp at hs
        split at hs <;> simp at hs <;> subst hs
        · exact fr _ _ _ rfl rfl
        · exact fr _ _ _ rfl rfl
      | idle => simp at hs; subst hs; exact st _ _ rfl rfl rfl
      | unknown => simp at hs; subst hs; exact fr _ _ _ rfl rfl
      | execute e =>
        cases e with
        | ok dg => simp at hs; subst hs; exact st _ _ rfl rfl rfl
        | badSuffix dg => simp at hs; subst hs; exact fr _ _ _ rfl rfl
        | badDigestFunction dg => simp at hs; subst hs; exact fr _ _ _ rfl rfl

/-- After the consume loop the request state is `Completed r` if `Execute` had returned `r`. -/
theorem applied_completed {s : State} (h : Deliv s) {e : Exec} {r : Resp} (hc : s.cur = some e)
    (hr : e.returned = some r) (hnd : ∀ k, s.pc ≠ .drain k) :
    applyMsgs s.req (e.buf ++ e.blocked.toList) = .executing e.digest (.completed r) := by
  rcases h.1 e r hc hr hnd with hl | ⟨hp, hq⟩
  · unfold pending at hl
    rcases List.eq_nil_or_concat (e.buf ++ e.blocked.toList) with hn | ⟨init, m, hm⟩
    · rw [hn] at hl; simp at hl
    · rw [hm] at hl ⊢
      simp only [List.concat_eq_append, List.getLast?_concat, Option.some.injEq] at hl
      subst hl
      simp only [List.concat_eq_append]
      exact applyMsgs_append _ _ _
  · unfold pending at hp
    rw [hp]; simpa [applyMsgs] using hq

theorem deliv_consumed {s : State} (hi : Inv s) (h : Deliv s) {e : Exec} {rc : Bool}
    (hpc : s.pc = .select rc) (hc : s.cur = some e) (c : Bool) : Deliv (consumed s e c) := by
  have hnd : ∀ k, s.pc ≠ .drain k := by simp [hpc]
  have wf := hi.curWF e hc
  unfold consumed
  simp only
  split
  · rename_i hcl
    have hret : e.returned.isSome = true := by
      simp at hcl
      rcases hcl with hcl | hcl
      · exact (wf.closedRet hcl).2
      · exact hcl.2
    obtain ⟨r, hr⟩ := Option.isSome_iff_exists.mp hret
    refine ⟨by intro e' r' h'; simp at h', ?_⟩
    intro _; right
    exact ⟨e.digest, r, by simpa using applied_completed h hc hr hnd⟩
  · refine ⟨?_, by intro h'; simp at h'⟩
    intro e' r' h' hr' _
    simp at h'; subst h'
    simp at hr'
    right
    exact ⟨by simp [pending], by simpa using applied_completed h hc hr' hnd⟩

theorem deliv_step? {s s' : State} (hi : Inv s) (h : Deliv s) (ev : Ev)
    (hs : step? s ev = some s') : Deliv s' := by
  cases ev with
  | runBegin =>
    obtain ⟨hpc, hc⟩ := runBegin_cases (by simpa [step?] using hs)
    have hnd : ∀ k, s.pc ≠ .drain k := by simp [hpc]
    rcases hc with rfl | rfl | rfl
    · exact deliv_frame h rfl rfl (fun _ => hnd)
    · exact deliv_frame h rfl rfl (fun _ => hnd)
    · refine deliv_frame h ?_ ?_ (fun _ => hnd) <;> (unfold afterReady; split <;> rfl)
  | readyResult ok =>
    simp only [step?, readyResult] at hs
    split at hs
    · rename_i hpc
      have hnd : ∀ k, s.pc ≠ .drain k := by simp [hpc]
      split at hs
      · simp at hs; subst hs
        refine deliv_frame h ?_ ?_ (fun _ => hnd) <;> (unfold afterReady; split <;> rfl)
      · simp at hs; subst hs; exact deliv_frame h rfl rfl (fun _ => hnd)
    · simp at hs
  | wakeTimer =>
    simp only [step?, wakeTimer] at hs
    split at hs
    · rename_i hpc
      simp at hs; subst hs
      exact deliv_frame h rfl rfl (fun _ => by simp [hpc])
    · simp at hs
  | wakeUpdate c =>
    obtain ⟨rc, e, hpc, hc, rfl⟩ := wakeUpdate_eq (by simpa [step?] using hs)
    have h1 := deliv_consumed hi h hpc hc c
    have hnd1 : ∀ k, (consumed s e c).pc ≠ .drain k := by simp [consumed_pc, hpc]
    simp only
    split
    · exact deliv_frame h1 rfl rfl (fun _ => hnd1)
    · exact deliv_frame h1 rfl rfl (fun _ => hnd1)
  | reply r =>
    simp only [step?] at hs
    rw [reply_eq] at hs
    split at hs
    · rename_i ce hpc
      refine deliv_replyBody ?_ ?_ ce r hs
      · split
        · exact deliv_frame h rfl rfl (fun _ => by simp [hpc])
        · exact deliv_frame h rfl rfl (fun _ => by simp [hpc])
      · intro k; split <;> simp [touch, hpc]
    · simp at hs
  | drainRecv =>
    simp only [step?, drainRecv] at hs
    split at hs
    · rename_i k e hpc hc
      split at hs
      · simp at hs
      · simp at hs; subst hs
        exact ⟨fun _ _ _ _ hk => absurd hpc (hk k), by intro h'; simp at h'⟩
    · simp at hs
  | drainDone =>
    simp only [step?, drainDone] at hs
    split at hs
    · split at hs
      · simp at hs; subst hs; exact deliv_finishStop _ _ rfl
      · simp at hs
    · simp at hs
  | cancel => simp [step?] at hs; subst hs; exact deliv_frame h rfl rfl (fun hk => hk)
  | tick n => simp [step?] at hs; subst hs; exact deliv_frame h rfl rfl (fun hk => hk)
  | emit u =>
    simp only [step?, emit] at hs
    split at hs
    · rename_i e hc
      split at hs
      · rename_i hg
        simp at hg hs; subst hs
        refine ⟨?_, by intro h'; simp at h'⟩
        intro e' r' h' hr'
        simp at h'; subst h'
        have : (push e ⟨e.digest, .upd u⟩).returned = e.returned := by unfold push; split <;> rfl
        simp [this, hg.1.1] at hr'
      · simp at hs
    · simp at hs
  | finish r =>
    simp only [step?, finish] at hs
    split at hs
    · rename_i e hc
      split at hs
      · rename_i hg
        simp at hg hs; subst hs
        refine ⟨?_, by intro h'; simp at h'⟩
        intro e' r' h' hr' _
        simp at h'; subst h'
        simp at hr'; subst hr'
        left
        unfold push pending
        split <;> simp [hg.1.2]
      · simp at hs
    · simp at hs
  | close =>
    simp only [step?, close] at hs
    split at hs
    · rename_i e hc
      split at hs
      · simp at hs; subst hs
        refine ⟨?_, by intro h'; simp at h'⟩
        intro e' r' h' hr' hk
        simp at h'; subst h'
        exact h.1 e r' hc hr' hk
      · simp at hs
    · simp at hs

theorem deliv_reachable (t0 : Nat) (evs : List Ev) : Deliv (run (init t0) evs) := by
  suffices ∀ s, Inv s → Deliv s → Deliv (run s evs) from
    this _ (inv_init t0) ⟨by intro e r h; simp [init] at h, by intro _; left; rfl⟩
  induction evs with
  | nil => intro s _ h; exact h
  | cons ev t ih =>
    intro s hi h
    apply ih _ (inv_step hi ev)
    unfold step
    cases hs : step? s ev with
    | none => simpa using h
    | some s' => simpa using deliv_step? hi h ev hs

end BbRe.Lemmas.BuildClient
