import BbRe.Lemmas.SchedTreePrioFixPrim
import BbRe.Lemmas.SchedTreePrioUpd
/-!
The invariant "exact caches" of the tree layer after the fix (`legacyPrio = false`) and the tree-only updates of
`TState`.
-/
namespace BbRe.Lemmas.SchedTree
open BbRe.Sched BbRe.SchedTree BbRe.Lemmas.SchedInv

/-- the tree recorded with a pick was the snapshot of a node list with exact caches -/
def DecFix (d : Decision) : Prop :=
  match d with
  | .pick q _ _ tree _ _ _ => ∃ (opOf : Nat → Fair.Op) (pr : Nat → Int) (ns : List Node),
      PrioFix pr ns ∧ StructOK ns ∧ (∀ o, (opOf o).prio = pr o) ∧ tree = snapshot opOf ns q
  | .handoff .. => True

/-- the code after the fix runs, every non-root invocation's cached priority is exact, the structural part, and
every logged pick saw such a tree -/
structure FixInv (ts : TState) : Prop where
  legacy : ts.legacyPrio = false
  n : NInv ts.prioOf ts.nodes
  dec : ∀ d ∈ ts.decisions, DecFix d

theorem FixInv.of_nodes {ts ts' : TState} (h : FixInv ts) (hl : ts'.legacyPrio = ts.legacyPrio) (hox : ts'.ox = ts.ox)
    (hd : ts'.decisions = ts.decisions) (hn : NInv ts.prioOf ts'.nodes) : FixInv ts' := by
  refine ⟨hl.trans h.legacy, ?_, by rw [hd]; exact h.dec⟩
  have : ts'.prioOf = ts.prioOf := by unfold TState.prioOf; rw [hox]
  rw [this]; exact hn

section
variable {ts : TState}

theorem FixInv.setS (s : State) (h : FixInv ts) : FixInv (ts.setS s) := h.of_nodes rfl rfl rfl h.n
theorem FixInv.setSticks (q : ScqId) (w : WId) (r : Nat) (h : FixInv ts) : FixInv (ts.setSticks q w r) :=
  h.of_nodes rfl rfl rfl h.n
theorem FixInv.setTX (t : Nat) (y : TX) (h : FixInv ts) : FixInv (ts.setTX t y) := h.of_nodes rfl rfl rfl h.n
theorem FixInv.dropTX (t : Nat) (h : FixInv ts) : FixInv (ts.dropTX t) := h.of_nodes rfl rfl rfl h.n
theorem FixInv.dropLimits (pq : Nat) (h : FixInv ts) : FixInv (ts.dropLimits pq) := h.of_nodes rfl rfl rfl h.n

theorem FixInv.log {d : Decision} (h : FixInv ts) (hd : DecFix d) : FixInv (ts.log d) := by
  refine ⟨h.legacy, h.n, ?_⟩
  intro d' hd'
  rcases List.mem_cons.mp hd' with e | e
  · rw [e]; exact hd
  · exact h.dec d' e

theorem FixInv.unparkTree (q : ScqId) (w : WId) (h : FixInv ts) : FixInv (ts.unparkTree q w) := by
  refine h.of_nodes rfl rfl rfl ?_
  show NInv ts.prioOf (match ts.lastOf q w with | some p => dequeueW ts.nodes q p w | none => ts.nodes)
  split
  · exact h.n.dequeueW _ _ _
  · exact h.n

theorem FixInv.parkTree (q : ScqId) (w : WId) (h : FixInv ts) : FixInv (ts.parkTree q w) := by
  refine h.of_nodes rfl rfl rfl ?_
  show NInv ts.prioOf (match ts.lastOf q w with | some p => parkW ts.nodes q p w | none => ts.nodes)
  split
  · exact h.n.parkW _ _ _
  · exact h.n

theorem FixInv.incOps (t : Task) (k : WKey) (h : FixInv ts) : FixInv (ts.incOps t k) := by
  refine h.of_nodes rfl rfl rfl ?_
  show NInv ts.prioOf (t.ops.foldl (fun ns o => incExecR ts.legacyPrio ts.prioOf ns t.scq (ts.invOf o) k ts.s.now) ts.nodes)
  rw [h.legacy]
  exact NInv.foldl _ (fun _ _ hb => hb.incExecR _ _ _ _) _ _ h.n

theorem FixInv.decOps (t : Task) (k : WKey) (h : FixInv ts) : FixInv (ts.decOps t k) := by
  refine h.of_nodes rfl rfl rfl ?_
  show NInv ts.prioOf (t.ops.foldl (fun ns o => decExecR ts.legacyPrio ts.prioOf ns t.scq (ts.invOf o) k ts.s.now) ts.nodes)
  rw [h.legacy]
  exact NInv.foldl _ (fun _ _ hb => hb.decExecR _ _ _ _) _ _ h.n

theorem FixInv.clearLast (q : ScqId) (w : WId) (h : FixInv ts) : FixInv (ts.clearLast q w) := by
  refine h.of_nodes rfl rfl rfl ?_
  show NInv ts.prioOf (match ts.lastOf q w with | some p => clearLastN ts.nodes q p | none => ts.nodes)
  split
  · exact h.n.clearLastN _ _
  · exact h.n

theorem FixInv.setLast (tq q : ScqId) (w : WId) (p : List Nat) (h : FixInv ts) : FixInv (ts.setLast tq q w p) :=
  h.of_nodes rfl rfl rfl (h.n.setLastN _ _)

theorem FixInv.createOps (t : Task) (h : FixInv ts) : FixInv (ts.createOps t) :=
  h.of_nodes rfl rfl rfl (NInv.foldl _ (fun _ _ hb => hb.getOrCreate _ _ _) _ _ h.n)

theorem FixInv.create (q : ScqId) (p : List Nat) (h : FixInv ts) : FixInv (ts.create q p) :=
  h.of_nodes rfl rfl rfl (h.n.getOrCreate _ _ _)

theorem FixInv.assignTree (w : Worker) (t : Task) (r : Nat) (h : FixInv ts) : FixInv (ts.assignTree w t r) :=
  ((h.incOps t (some w.id)).clearLast w.scq w.id).setSticks w.scq w.id r

theorem FixInv.deqOps (t : Task) (h : FixInv ts) : FixInv (ts.deqOps t) :=
  h.of_nodes rfl rfl rfl (NInv.foldl _ (fun _ _ hb => hb.removeQueuedOp _ _ _) _ _ h.n)

/-- `for _, o := range t.operations { o.enqueue() }` when the invocations of the operations exist -/
theorem FixInv.enqOps (t : Task) (h : FixInv ts) (hex : ∀ o ∈ t.ops, PathEx ts.nodes t.scq (ts.invOf o)) :
    FixInv (ts.enqOps t) :=
  h.of_nodes rfl rfl rfl (NInv.enqueueAll t.scq ts.invOf t.ops h.n hex)

theorem FixInv.detachTree (t : Task) (bw : Bool) (h : FixInv ts) : FixInv (ts.detachTree t bw) := by
  unfold TState.detachTree
  split
  · exact ((h.incOps t none).deqOps t).decOps t none
  · exact (h.setLast _ _ _ _).decOps t _

theorem FixInv.removeOpTree (t : Task) (o : Nat) (h : FixInv ts) : FixInv (ts.removeOpTree t o) := by
  unfold TState.removeOpTree
  split
  · exact h
  · refine h.of_nodes rfl rfl rfl ?_
    show NInv ts.prioOf (decExecR ts.legacyPrio ts.prioOf ts.nodes _ _ _ _)
    rw [h.legacy]
    exact h.n.decExecR _ _ _ _
  · exact h.of_nodes rfl rfl rfl (NInv.pruneChain _ _ (h.n.removeQueuedOp _ _ _))

theorem FixInv.dropScqTree (q : ScqId) (h : FixInv ts) : FixInv (ts.dropScqTree q) :=
  h.of_nodes rfl rfl rfl (h.n.dropScq q)

theorem FixInv.dropWorkerTree (q : ScqId) (w : WId) (h : FixInv ts) : FixInv (ts.dropWorkerTree q w) :=
  (h.clearLast q w).of_nodes rfl rfl rfl (h.clearLast q w).n

theorem FixInv.addWorkerTree (q : ScqId) (w : WId) (h : FixInv ts) : FixInv (ts.addWorkerTree q w) :=
  h.of_nodes rfl rfl rfl (h.n.setLastN _ _)

theorem FixInv.maybeDequeue (wk : Worker) (h : FixInv ts) : FixInv (ts.maybeDequeue wk) := by
  unfold TState.maybeDequeue
  split
  · exact h.unparkTree _ _
  · exact h

theorem FixInv.tWake (w : Worker) (h : FixInv ts) : FixInv (tWake ts w) := (h.unparkTree _ _).setS _

theorem FixInv.tTerminateOne (w : Worker) (h : FixInv ts) : FixInv (tTerminateOne ts w) := by
  unfold BbRe.SchedTree.tTerminateOne
  split
  · dsimp only
    split
    · split
      · exact (h.setS _).tWake _
      · exact h.setS _
    · exact h.setS _
  · exact h

/-- a new size-class queue: no invocation belongs to it yet -/
theorem FixInv.addScqTree (q : ScqId) (h : FixInv ts) (hfresh : ∀ n ∈ ts.nodes, n.scq ≠ q) : FixInv (ts.addScqTree q) := by
  refine h.of_nodes rfl rfl rfl ?_
  have := h.n.append_roots [q] 0 (by simp) (fun n hn hm => hfresh n hn (by simpa using hm))
  exact this

theorem FixInv.tRegisterPQ (x : Extras) (id : Nat) (comps : List Nat) (platform : Nat) (sizes : List Nat) (bgMax : Nat)
    (bgPrio : Int) (h : FixInv ts) (hnd : sizes.Nodup) (hfresh : ∀ n ∈ ts.nodes, n.scq.pq ≠ id) :
    FixInv (tRegisterPQ x ts id comps platform sizes bgMax bgPrio) := by
  refine h.of_nodes rfl rfl rfl ?_
  have := h.n.append_roots (sizes.map (fun sc => (⟨id, sc⟩ : ScqId))) 0
    (nodup_map_injN hnd (fun a b e => by cases e; rfl)) ?_
  · rw [List.map_map] at this; exact this
  · intro n hn hm
    obtain ⟨sc, _, e⟩ := List.mem_map.mp hm
    exact hfresh n hn (by rw [← e])

/-- the table entry of an operation that is in no `queuedOperations` does not matter -/
theorem FixInv.setOX {o : Nat} (y : OX) (h : FixInv ts) (ho : ∀ n ∈ ts.nodes, o ∉ n.qops) : FixInv (ts.setOX o y) := by
  refine ⟨h.legacy, h.n.pr_congr ?_, h.dec⟩
  intro n hn o' ho'
  have hne : ¬ o = o' := fun e => ho n hn (e ▸ ho')
  show (match alookup o' (aset o y ts.ox) with | some x => x.prio | none => 0) =
    (match alookup o' ts.ox with | some x => x.prio | none => 0)
  rw [alookup_aset, if_neg hne]

theorem FixInv.dropOX {o : Nat} (h : FixInv ts) (ho : ∀ n ∈ ts.nodes, o ∉ n.qops) : FixInv (ts.dropOX o) := by
  refine ⟨h.legacy, h.n.pr_congr ?_, h.dec⟩
  intro n hn o' ho'
  have hne : o ≠ o' := fun e => ho n hn (e ▸ ho')
  show (match alookup o' (aerase o ts.ox) with | some x => x.prio | none => 0) =
    (match alookup o' ts.ox with | some x => x.prio | none => 0)
  rw [alookup_aerase_ne _ _ _ hne]

theorem FixInv.withIncExec (h : FixInv ts) (q : ScqId) (p : List Nat) (w : WKey) (now : Nat) :
    FixInv { ts with nodes := incExecR ts.legacyPrio ts.prioOf ts.nodes q p w now } := by
  refine h.of_nodes rfl rfl rfl ?_
  show NInv ts.prioOf (incExecR ts.legacyPrio ts.prioOf ts.nodes q p w now)
  rw [h.legacy]
  exact h.n.incExecR _ _ _ _

theorem FixInv.withEnqueue (h : FixInv ts) (q : ScqId) (p : List Nat) (o : Nat) (hex : PathEx ts.nodes q p) :
    FixInv { ts with nodes := enqueueOp ts.prioOf ts.nodes q p o } :=
  h.of_nodes rfl rfl rfl (h.n.enqueueOp q p o hex)

end

/-- close a `FixInv` goal about a state built from tree-only updates without side conditions -/
macro "fixi" : tactic => `(tactic| (
  first
    | assumption
    | (simp (maxDischargeDepth := 40) only [FixInv.setS, FixInv.setSticks, FixInv.setTX, FixInv.dropTX, FixInv.dropLimits,
        FixInv.unparkTree, FixInv.parkTree, FixInv.incOps, FixInv.decOps, FixInv.clearLast, FixInv.setLast,
        FixInv.createOps, FixInv.create, FixInv.assignTree, FixInv.dropScqTree, FixInv.dropWorkerTree,
        FixInv.addWorkerTree, FixInv.maybeDequeue, FixInv.tWake, FixInv.deqOps,
        FixInv.detachTree, FixInv.removeOpTree, FixInv.tTerminateOne, *]; done)))

end BbRe.Lemmas.SchedTree
