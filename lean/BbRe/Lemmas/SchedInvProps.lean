import BbRe.Lemmas.SchedInvStep
import BbRe.Lemmas.SchedInvEvents
/-! Derived facts used by the property files C01 / C03 / C07Sched. -/
namespace BbRe.Lemmas.SchedInv
open BbRe.Sched

theorem mono_step {s s' : State} (g : Seg) (hI : Inv s) (h : step s g = .ok s') : Mono s s' :=
  (wp_of_ok (step_spec g hI) h).2.1

theorem stepEv_step {s s' : State} (g : Seg) (hI : Inv s) (h : step s g = .ok s') : StepEv g s s' :=
  (wp_of_ok (step_spec g hI) h).2.2

theorem run_inv_mono {s : State} (hI : Inv s) (gs : List Seg) : Inv (run s gs) ∧ Mono s (run s gs) := by
  induction gs generalizing s with
  | nil => exact ⟨hI, Mono.refl s⟩
  | cons g rest ih =>
    unfold run
    split
    · rename_i s' h
      obtain ⟨a, b⟩ := ih (inv_step g hI h)
      exact ⟨a, (mono_step g hI h).trans b⟩
    · exact ih hI

/-- an `execute` instruction names the task its worker holds in `s` -/
def ExecEv (s : State) : Event → Prop
  | .syncExecute q w d _ => ExecOK s q w d
  | _ => True

theorem ExecEv.of_quiet {s : State} {e : Event} (h : Quiet e) : ExecEv s e := by
  cases e <;> simp_all [Quiet, ExecEv]
theorem ExecEv.of_noExec {s : State} {e : Event} (h : NoExec e) : ExecEv s e := by
  cases e <;> simp_all [NoExec, ExecEv]
theorem ExecEv.of_syncEv {s : State} {e : Event} (h : SyncEv s e) : ExecEv s e := by
  cases e <;> simp_all [SyncEv, ExecEv]

/-- every `execute` instruction a segment emits names the task its worker holds afterwards -/
theorem step_exec_events {s s' : State} (g : Seg) (hI : Inv s) (h : step s g = .ok s') :
    Ext (ExecEv s') s.events s'.events := by
  have := stepEv_step g hI h
  cases g <;> simp only [StepEv] at this
  all_goals first
    | exact this.mono (fun e he => ExecEv.of_quiet he)
    | exact this.mono (fun e he => ExecEv.of_syncEv he)
    | exact this.1.mono (fun e he => ExecEv.of_noExec he)

theorem SyncEv.notSel {s : State} {e : Event} (h : SyncEv s e) : isSel e = false := by
  cases e <;> simp_all [SyncEv, isSel]

theorem Ext.selCount_eq' {P : Event → Prop} {a b : List Event} (h : Ext P a b)
    (hp : ∀ e, P e → isSel e = false) : selCount b = selCount a := by
  obtain ⟨new, rfl, hn⟩ := h
  unfold selCount
  rw [List.countP_append]
  have : List.countP isSel new = 0 := by
    rw [List.countP_eq_zero]; intro e he; simp [hp e (hn e he)]
  omega

/-- selector calls per segment: one for `Execute`, none otherwise -/
theorem step_selCount {s s' : State} (g : Seg) (hI : Inv s) (h : step s g = .ok s') :
    selCount s'.events = selCount s.events + (match g with | .exec .. => 1 | _ => 0) := by
  have := stepEv_step g hI h
  cases g <;> simp only [StepEv] at this
  all_goals first
    | exact this.2
    | exact this.selCount_eq
    | exact this.selCount_eq' (fun e he => SyncEv.notSel he)

/-! ## counting holders -/

theorem filter_length_le_one {ws : List Worker} (p : Worker → Bool) (hn : WNodup ws)
    (hp : ∀ a b, a ∈ ws → b ∈ ws → p a = true → p b = true → sameW a b) : (ws.filter p).length ≤ 1 := by
  induction ws with
  | nil => simp
  | cons a r ih =>
    simp only [WNodup, List.pairwise_cons] at hn
    have ihr := ih hn.2 (fun x y hx hy => hp x y (List.mem_cons_of_mem _ hx) (List.mem_cons_of_mem _ hy))
    rw [List.filter_cons]
    split
    · rename_i hpa
      have : r.filter p = [] := by
        rw [List.filter_eq_nil_iff]
        intro b hb hpb
        exact hn.1 b hb (hp a b (by simp) (List.mem_cons_of_mem _ hb) hpa hpb)
      simp [this]
    · exact ihr

theorem filter_length_pos {ws : List Worker} (p : Worker → Bool) {w : Worker} (hw : w ∈ ws) (hp : p w = true) :
    1 ≤ (ws.filter p).length :=
  List.length_pos_of_mem (List.mem_filter.mpr ⟨hw, hp⟩)

/-- number of holders of a task: its queue (0/1) plus the workers pointing to it -/
def holders (s : State) (tid : Nat) (t : Task) : Nat :=
  (if t.queued then 1 else 0) + (s.workers.filter (fun w => w.task = some tid)).length

theorem holders_eq_one {s : State} (hI : Inv s) {tid : Nat} {t : Task} (ht : alookup tid s.tasks = some t)
    (hr : t.response = none) : holders s tid t = 1 := by
  have hc := hI.core
  unfold holders
  have hkey : ∀ a, a ∈ s.workers → a.task = some tid → t.worker = some (a.scq, a.id) := by
    intro a ha hat
    obtain ⟨t', h1, h2⟩ := hc.p1 a.scq a.id a tid (wfind_of_mem hc.wnd ha) hat
    rw [ht] at h1; cases h1; exact h2
  rcases hc.q2 tid t ht hr with hq | hw | hf
  · have hwn := (hc.q1 tid t ht hq).1
    have : s.workers.filter (fun w => w.task = some tid) = [] := by
      rw [List.filter_eq_nil_iff]
      intro a ha hpa
      have := hkey a ha (by simpa using hpa)
      rw [hwn] at this; cases this
    simp [hq, this]
  · obtain ⟨⟨q, w⟩, hqw⟩ := Option.isSome_iff_exists.mp hw
    have hnq : t.queued = false := by
      cases hq : t.queued with
      | false => rfl
      | true => have := (hc.q1 tid t ht hq).1; rw [hqw] at this; cases this
    obtain ⟨wk, hwk, hwt⟩ := hc.p2 tid t q w ht hqw
    have h1 := filter_length_pos (fun w => decide (w.task = some tid)) (wfind_mem hwk) (by simpa using hwt)
    have h2 := filter_length_le_one (ws := s.workers) (fun w => decide (w.task = some tid)) hc.wnd (by
      intro a b ha hb hpa hpb
      have e1 := hkey a ha (by simpa using hpa)
      have e2 := hkey b hb (by simpa using hpb)
      rw [e1] at e2
      simp only [Option.some.injEq, Prod.mk.injEq] at e2
      exact ⟨e2.1, e2.2⟩)
    simp only [hnq, Bool.false_eq_true, if_false]
    omega
  · exact absurd hf id

/-- `Execute` that finds its digest in the in-flight deduplication map -/
theorem execBody_hit {h : Hints} {s : State} {c digest dkey : Nat} {dnc : Bool} {comps : List Nat}
    {platform : Nat} {inv : List Nat} {prio : Int} {tid : Nat} (hI : Inv s)
    (hd : alookup dkey s.dedup = some tid) :
    wp (execBody h s c digest dkey dnc comps platform inv prio) (fun s' => s'.nextTask = s.nextTask ∧
      ∃ st t', st ∈ s'.streams ∧ st.client = c ∧ alookup tid s'.tasks = some t' ∧ st.op ∈ t'.ops) := by
  unfold execBody
  rw [hd]
  dsimp only
  obtain ⟨t, ht, _, hr, _, _⟩ := hI.core.d1 dkey tid hd
  simp only [task?_def, ht]
  have hrs : ¬ t.response.isSome = true := by rw [hr]; simp
  have := execBody_hit_spec (c := c) (inv := inv) (prio := prio) hI ht hr
  refine wp_mono (Q := fun s' => ExecPost s s' ∧ s'.nextTask = s.nextTask ∧
      ∃ st t', st ∈ s'.streams ∧ st.client = c ∧ alookup tid s'.tasks = some t' ∧ st.op ∈ t'.ops) ?_ (fun s' h => h.2)
  split
  · rename_i o hf
    rw [hf] at this; exact this
  · rename_i hf
    rw [hf] at this
    rw [if_neg hrs]
    exact this

/-- `Execute` that misses the map and finds a platform queue: a new task is created -/
theorem execBody_miss {h : Hints} {s : State} {c digest dkey : Nat} {dnc : Bool} {comps : List Nat}
    {platform : Nat} {inv : List Nat} {prio : Int} {pq : PQ} (hI : Inv s)
    (hd : alookup dkey s.dedup = none) (hroute : route s comps platform = some pq) :
    wp (execBody h s c digest dkey dnc comps platform inv prio) (fun s' => s'.nextTask = s.nextTask + 1 ∧
      s'.dedup = (if dnc then s.dedup else aset dkey s.nextTask s.dedup) ∧
      ∃ t', alookup s.nextTask s'.tasks = some t' ∧ t'.dkey = dkey ∧ t'.doNotCache = dnc ∧
        t'.background = false ∧ t'.digest = digest) := by
  unfold execBody
  rw [hd]
  dsimp only
  rw [hroute]
  dsimp only
  split
  · rename_i sc _
    have := execBody_new_spec (h := h) (c := c) (digest := digest) (dnc := dnc) (q := ⟨pq.id, sc⟩)
      (inv := inv) (prio := prio) hI hd
    cases dnc with
    | true => exact wp_mono this (fun s' h => h.2)
    | false => exact wp_mono this (fun s' h => h.2)
  · okerr

theorem enter_noop {h : Hints} {s : State} {now : Nat} (hn : now ≤ s.now) : enter h s now = .ok s := by
  unfold enter
  rw [if_neg (by omega)]; rfl

/-- what a cancelled stream changes -/
theorem streamLeave_frame {s s' : State} {c code : Nat} (hh : streamLeave s c code = .ok s') :
    s'.tasks = s.tasks ∧ s'.workers = s.workers ∧ s'.dedup = s.dedup ∧ s'.assigned = s.assigned ∧
      s'.streams = s.streams.filter (fun x => x.client ≠ c) ∧
      ∃ st op, s.streams.find? (fun x => x.client = c) = some st ∧ s.op? st.op = some op ∧
        s'.ops = aset op.name { op with waiters := op.waiters - 1 } s.ops := by
  rw [streamLeave_eq] at hh
  cases hf : s.streams.find? (fun x => x.client = c) with
  | none => rw [hf] at hh; cases hh
  | some st =>
    rw [hf] at hh
    dsimp only at hh
    cases hop : s.op? st.op with
    | none => rw [hop] at hh; cases hh
    | some op =>
      rw [hop] at hh
      dsimp only at hh
      split at hh
      · cases hh
      · cases hh
        rw [maybeStartCleanup_eq]
        exact ⟨rfl, rfl, rfl, rfl, rfl, st, op, rfl, hop, rfl⟩

/-- removal of an operation that is not the last one of its task: only the operation table and
the task's list of operations change -/
theorem removeOp_nonlast {h : Hints} {s s' : State} {o : Nat} {op : Op} {t : Task}
    (hop : s.op? o = some op) (ht : s.task? op.task = some t) (hlen : t.ops.length ≠ 1)
    (hne : (t.ops.filter (· ≠ o)).isEmpty = false) (hh : removeOp h s o = .ok s') :
    s' = { s with ops := aerase o s.ops,
                  tasks := aset t.id { t with ops := t.ops.filter (· ≠ o) } s.tasks } := by
  unfold removeOp at hh
  simp only [hop] at hh
  have ht' : ({ s with ops := aerase o s.ops } : State).task? op.task = some t := ht
  simp only [ht', if_neg hlen, pure_bind] at hh
  simp only [hne, Bool.false_eq_true, if_false] at hh
  cases hh
  rfl

end BbRe.Lemmas.SchedInv
