import BbRe.Lemmas.SchedTreePrimExec
/-!
`operation.enqueue`, `operation.removeQueuedFromInvocation` and the `removeIfEmpty` chain of
`operation.remove` preserve the tree invariant.

The two loops walk from the invocation to the root; in the middle of the walk the clause `qk` of `TreeOK`
holds for the new bag of queued operations except for the (parent, key) pairs of the levels that were not
processed yet, for which it still holds for the old bag (`PrimQueue.QInv`).
-/
namespace BbRe.Lemmas.SchedTree
open BbRe.Sched BbRe.SchedTree

namespace PrimQueue

variable {X : List (ScqId × List Nat)} {ns : List Node} {E : List EC} {I : List IC} {Q : List QC} {P : List PC}

/-! ### paths -/

theorem prefixes_concat (p : List Nat) (k : Nat) : prefixes (p ++ [k]) = prefixes p ++ [p ++ [k]] := by
  induction p with
  | nil => simp [prefixes]
  | cons a r ih => simp [prefixes, ih]

theorem ups_concat (p : List Nat) (k : Nat) : ups (p ++ [k]) = (p ++ [k]) :: ups p := by
  unfold ups; rw [prefixes_concat]; simp

theorem prefixes_sorted (p : List Nat) : (prefixes p).Pairwise (fun a b => a.length < b.length) := by
  induction p with
  | nil => simp [prefixes]
  | cons k r ih =>
    simp only [prefixes, List.pairwise_cons, List.mem_map]
    refine ⟨?_, ?_⟩
    · rintro b ⟨x, hx, rfl⟩
      have := (mem_prefixes.mp hx).2
      cases x with
      | nil => exact absurd rfl this
      | cons _ _ => simp
    · rw [List.pairwise_map]; simpa using ih

theorem ups_sorted (p : List Nat) : (ups p).Pairwise (fun a b => b.length < a.length) := by
  unfold ups; rw [List.pairwise_reverse]; exact prefixes_sorted p

theorem concat_eq_iff {a pi : List Nat} {k : Nat} (hpi : pi ≠ []) :
    a ++ [k] = pi ↔ a = pi.dropLast ∧ k = lastKey pi := by
  constructor
  · rintro rfl; simp [lastKey]
  · rintro ⟨rfl, rfl⟩; exact dropLast_append_lastKey hpi

/-! ### the shape of one loop iteration -/

/-- some entry of the bag is at or below `(q, p)` -/
def Below (Q : List QC) (q : ScqId) (p : List Nat) : Prop := ∃ c ∈ Q, c.1 = q ∧ p <+: c.2.1

theorem Below.mono {Q : List QC} {q : ScqId} {a b : List Nat} (h : Below Q q b) (hab : a <+: b) : Below Q q a := by
  obtain ⟨c, hc, h1, h2⟩ := h
  exact ⟨c, hc, h1, hab.trans h2⟩

/-- a key-preserving map that changes at most `prio`, `qops`, `qkids` (and the time stamps) -/
def QMap (g : Node → Node) : Prop :=
  ∀ n, (g n).scq = n.scq ∧ (g n).path = n.path ∧ (g n).exec = n.exec ∧ (g n).idle = n.idle ∧
    (g n).parked = n.parked ∧ (g n).ikids = n.ikids

/-- one iteration at the non-root invocation `pi`: it gets priority `z`, the `qkids` of its parent become
`F qkids` -/
def shape (q : ScqId) (pi : List Nat) (z : Int) (F : List Nat → List Nat) (n : Node) : Node :=
  (fun P : Node => if P.isAt q pi.dropLast then { P with qkids := F P.qkids } else P)
    (if n.isAt q pi then { n with prio := z } else n)

theorem shape_spec (q : ScqId) (pi : List Nat) (z : Int) (F : List Nat → List Nat) (n : Node) :
    (shape q pi z F n).scq = n.scq ∧ (shape q pi z F n).path = n.path ∧ (shape q pi z F n).exec = n.exec ∧
    (shape q pi z F n).idle = n.idle ∧ (shape q pi z F n).parked = n.parked ∧ (shape q pi z F n).ikids = n.ikids ∧
    (shape q pi z F n).qops = n.qops ∧
    (shape q pi z F n).qkids = if n.isAt q pi.dropLast then F n.qkids else n.qkids := by
  unfold shape
  have e : ({ n with prio := z } : Node).isAt q pi.dropLast = n.isAt q pi.dropLast := rfl
  by_cases h1 : n.isAt q pi = true <;> by_cases h2 : n.isAt q pi.dropLast = true <;> simp [h1, h2, e]

theorem updPrio_eq (prioOf : Nat → Int) (ns : List Node) (n : Node) :
    updPrio prioOf ns n = { n with prio := (updPrio prioOf ns n).prio } := by
  unfold updPrio
  split
  · rfl
  · split <;> rfl

/-- with distinct keys, replacing the node at `(q, pi)` by a function of the node found there is a map -/
theorem updNode_const {ns : List Node} (hnd : (ns.map nkey).Nodup) {q : ScqId} {pi : List Nat} {i : Node}
    (hi : node? ns q pi = some i) (f : Node → Node) :
    updNode ns q pi (fun _ => f i) = updNode ns q pi f := by
  unfold updNode
  apply List.map_congr_left
  intro n hn
  by_cases h : n.isAt q pi = true
  · obtain ⟨h1, h2⟩ := (isAt_iff n q pi).mp h
    have := node?_of_mem hnd hn
    rw [h1, h2, hi] at this
    cases this; rfl
  · simp [h]

theorem enqStep_eq (prioOf : Nat → Int) {ns : List Node} (hnd : (ns.map nkey).Nodup) {q : ScqId} {pi : List Nat}
    {i : Node} (hi : node? ns q pi = some i) :
    enqStep prioOf q ns pi = ns.map (shape q pi (updPrio prioOf ns i).prio (insk (lastKey pi))) := by
  unfold enqStep
  rw [hi]
  simp only
  rw [updPrio_eq, updNode_const hnd hi (fun n => { n with prio := (updPrio prioOf ns i).prio })]
  unfold updNode
  rw [List.map_map]
  rfl

theorem deqStep_eq (prioOf : Nat → Int) {ns : List Node} (hnd : (ns.map nkey).Nodup) {q : ScqId} {pi : List Nat}
    {i : Node} (hi : node? ns q pi = some i) :
    deqStep prioOf q ns pi = ns.map (shape q pi (updPrio prioOf ns i).prio
      (fun l => if i.qkids.isEmpty && i.qops.isEmpty then l.erase (lastKey pi) else l)) := by
  unfold deqStep
  rw [hi]
  simp only
  rw [updPrio_eq, updNode_const hnd hi (fun n => { n with prio := (updPrio prioOf ns i).prio })]
  by_cases hc : (i.qkids.isEmpty && i.qops.isEmpty) = true
  · simp only [hc, if_true]
    unfold updNode
    rw [List.map_map]
    rfl
  · simp only [hc]
    unfold updNode
    apply List.map_congr_left
    intro n _
    have aux : ∀ m : Node, m = (if m.isAt q pi.dropLast then { m with qkids := m.qkids } else m) := by
      intro m; split <;> rfl
    exact aux _

/-! ### the loop invariant -/

/-- What holds in the middle of the walk towards the root (`pend` = the levels not processed yet, bottom-up;
`Qo` / `Qn` = the bag before / after; `ns0` = the nodes before the operation). -/
structure QInv (ns0 : List Node) (Qo Qn : List QC) (q : ScqId) (p : List Nat) (pend : List (List Nat))
    (ns : List Node) : Prop where
  rel : ∃ g, QMap g ∧ ns = ns0.map g
  nd : (ns.map nkey).Nodup
  ex : ∀ pi ∈ pend, pi ≠ [] ∧ pi <+: p ∧ (node? ns q pi).isSome = true
  ord : pend.Pairwise (fun a b => b.length < a.length)
  qo : ∀ n ∈ ns, n.qops.Nodup ∧ ∀ o, o ∈ n.qops ↔ (n.scq, n.path, o) ∈ Qn
  qk : ∀ n ∈ ns, n.qkids.Nodup ∧ ∀ k, k ∈ n.qkids ↔
    Below (if n.scq = q ∧ n.path ++ [k] ∈ pend then Qo else Qn) n.scq (n.path ++ [k])

variable {ns0 : List Node} {Qo Qn : List QC} {q : ScqId} {p pi : List Nat} {rest : List (List Nat)}

theorem QInv.step (hinv : QInv ns0 Qo Qn q p (pi :: rest) ns) (z : Int) (F : List Nat → List Nat)
    (hF : ∀ n ∈ ns, n.scq = q → n.path = pi.dropLast →
      (F n.qkids).Nodup ∧ ∀ k, k ∈ F n.qkids ↔ if k = lastKey pi then Below Qn q pi else k ∈ n.qkids) :
    QInv ns0 Qo Qn q p rest (ns.map (shape q pi z F)) := by
  have hs := shape_spec q pi z F
  have hk : KeepsKey (shape q pi z F) := fun n => ⟨(hs n).1, (hs n).2.1⟩
  have hpi : pi ≠ [] := (hinv.ex pi List.mem_cons_self).1
  have hord := List.pairwise_cons.mp hinv.ord
  have hnotin : pi ∉ rest := fun hm => by have := hord.1 pi hm; omega
  refine ⟨?_, ?_, ?_, hord.2, ?_, ?_⟩
  · obtain ⟨g, hg, e⟩ := hinv.rel
    refine ⟨shape q pi z F ∘ g, ?_, ?_⟩
    · intro n
      have a := hs (g n)
      have b := hg n
      exact ⟨a.1.trans b.1, a.2.1.trans b.2.1, a.2.2.1.trans b.2.2.1, a.2.2.2.1.trans b.2.2.2.1,
        a.2.2.2.2.1.trans b.2.2.2.2.1, a.2.2.2.2.2.1.trans b.2.2.2.2.2⟩
    · rw [e, List.map_map]
  · rw [map_keys hk]; exact hinv.nd
  · intro pi' hm
    obtain ⟨a, b, c⟩ := hinv.ex pi' (List.mem_cons_of_mem _ hm)
    refine ⟨a, b, ?_⟩
    rw [node?_map hk]; simpa using c
  · intro m hm
    obtain ⟨n, hn, rfl⟩ := List.mem_map.mp hm
    rw [(hs n).2.2.2.2.2.2.1, (hs n).1, (hs n).2.1]; exact hinv.qo n hn
  · intro m hm
    obtain ⟨n, hn, rfl⟩ := List.mem_map.mp hm
    rw [(hs n).2.2.2.2.2.2.2, (hs n).1, (hs n).2.1]
    have hq := hinv.qk n hn
    by_cases hat : n.isAt q pi.dropLast = true
    · obtain ⟨e1, e2⟩ := (isAt_iff _ _ _).mp hat
      obtain ⟨f1, f2⟩ := hF n hn e1 e2
      rw [if_pos hat]
      refine ⟨f1, fun k => ?_⟩
      rw [f2 k]
      by_cases hk0 : k = lastKey pi
      · have : n.path ++ [k] = pi := (concat_eq_iff hpi).mpr ⟨e2, hk0⟩
        rw [if_pos hk0, this, e1, if_neg (fun hc => hnotin hc.2)]
      · have hne : n.path ++ [k] ≠ pi := fun hc => hk0 ((concat_eq_iff hpi).mp hc).2
        rw [if_neg hk0, hq.2 k]
        simp only [List.mem_cons, hne, false_or]
    · rw [if_neg hat]
      refine ⟨hq.1, fun k => ?_⟩
      rw [hq.2 k]
      have hne : ¬ (n.scq = q ∧ n.path ++ [k] = pi) := fun hc =>
        hat ((isAt_iff _ _ _).mpr ⟨hc.1, ((concat_eq_iff hpi).mp hc.2).1⟩)
      have : (n.scq = q ∧ n.path ++ [k] ∈ pi :: rest) ↔ (n.scq = q ∧ n.path ++ [k] ∈ rest) := by
        simp only [List.mem_cons]
        constructor
        · rintro ⟨a, b | b⟩
          · exact absurd ⟨a, b⟩ hne
          · exact ⟨a, b⟩
        · rintro ⟨a, b⟩; exact ⟨a, Or.inr b⟩
      simp only [this]

/-- when the walk is at `pi`, the invocation at `pi` is up to date: it is queued iff something of the new
bag is at or below it -/
theorem QInv.below_iff (hinv : QInv ns0 Qo Qn q p (pi :: rest) ns) {i : Node} (hi : node? ns q pi = some i) :
    Below Qn q pi ↔ ¬ (i.qkids = [] ∧ i.qops = []) := by
  obtain ⟨him, hiq, hip⟩ := node?_some hi
  have hord := List.pairwise_cons.mp hinv.ord
  have hqo := (hinv.qo i him).2
  have hqk : ∀ k, k ∈ i.qkids ↔ Below Qn q (pi ++ [k]) := by
    intro k
    have := (hinv.qk i him).2 k
    rw [hiq, hip] at this
    rw [this, if_neg]
    rintro ⟨_, hm⟩
    rcases List.mem_cons.mp hm with e | e
    · have := congrArg List.length e; simp at this
    · have := hord.1 _ e; simp at this; omega
  constructor
  · rintro ⟨c, hc, h1, t, ht⟩ ⟨e1, e2⟩
    cases t with
    | nil =>
      have : c.2.2 ∈ i.qops := (hqo c.2.2).mpr (by
        rw [hiq, hip, ← h1]
        have : pi = c.2.1 := by simpa using ht
        rw [this]; exact hc)
      rw [e2] at this; cases this
    | cons k t' =>
      have : k ∈ i.qkids := (hqk k).mpr ⟨c, hc, h1, t', by rw [← ht]; simp⟩
      rw [e1] at this; cases this
  · intro hne
    cases hk : i.qkids with
    | cons k l =>
      exact ((hqk k).mp (by rw [hk]; exact List.mem_cons_self)).mono (List.prefix_append _ _)
    | nil =>
      cases ho : i.qops with
      | nil => exact absurd ⟨hk, ho⟩ hne
      | cons o l =>
        have := (hqo o).mp (by rw [ho]; exact List.mem_cons_self)
        rw [hiq, hip] at this
        exact ⟨_, this, rfl, List.prefix_refl _⟩

theorem insk_spec (k0 : Nat) (l : List Nat) (hl : l.Nodup) :
    (insk k0 l).Nodup ∧ ∀ k, k ∈ insk k0 l ↔ k = k0 ∨ k ∈ l := by
  unfold insk
  by_cases h : k0 ∈ l
  · rw [if_pos h]; refine ⟨hl, fun k => ?_⟩
    constructor
    · exact Or.inr
    · rintro (e | e)
      · rw [e]; exact h
      · exact e
  · rw [if_neg h]
    refine ⟨?_, fun k => ?_⟩
    · rw [List.nodup_append]
      refine ⟨hl, by simp, ?_⟩
      intro a ha b hb
      simp only [List.mem_singleton] at hb
      rintro rfl; subst hb; exact h ha
    · simp only [List.mem_append, List.mem_singleton]
      constructor
      · rintro (e | e); exact Or.inr e; exact Or.inl e
      · rintro (e | e); exact Or.inr e; exact Or.inl e

theorem QInv.enq_fold (prioOf : Nat → Int) (hc0 : Below Qn q p) :
    ∀ (l : List (List Nat)) (ns : List Node), QInv ns0 Qo Qn q p l ns →
      QInv ns0 Qo Qn q p [] (l.foldl (enqStep prioOf q) ns) := by
  intro l
  induction l with
  | nil => intro ns h; exact h
  | cons pi rest ih =>
    intro ns hinv
    rw [List.foldl_cons]
    apply ih
    obtain ⟨_, hpp, hex⟩ := hinv.ex pi List.mem_cons_self
    cases hi : node? ns q pi with
    | none => rw [hi] at hex; cases hex
    | some i =>
      rw [enqStep_eq prioOf hinv.nd hi]
      apply hinv.step
      intro n hn _ _
      obtain ⟨a, b⟩ := insk_spec (lastKey pi) n.qkids (hinv.qk n hn).1
      refine ⟨a, fun k => ?_⟩
      rw [b k]
      by_cases hk : k = lastKey pi
      · rw [if_pos hk]; exact ⟨fun _ => hc0.mono hpp, fun _ => Or.inl hk⟩
      · rw [if_neg hk]; exact ⟨fun h => h.resolve_left hk, Or.inr⟩

theorem QInv.deq_fold (prioOf : Nat → Int) (hsub : ∀ c ∈ Qn, c ∈ Qo) :
    ∀ (l : List (List Nat)) (ns : List Node), QInv ns0 Qo Qn q p l ns →
      QInv ns0 Qo Qn q p [] (l.foldl (deqStep prioOf q) ns) := by
  intro l
  induction l with
  | nil => intro ns h; exact h
  | cons pi rest ih =>
    intro ns hinv
    rw [List.foldl_cons]
    apply ih
    obtain ⟨hpi, hpp, hex⟩ := hinv.ex pi List.mem_cons_self
    cases hi : node? ns q pi with
    | none => rw [hi] at hex; cases hex
    | some i =>
      rw [deqStep_eq prioOf hinv.nd hi]
      apply hinv.step
      intro n hn e1 e2
      have hb := hinv.below_iff hi
      obtain ⟨hnd, hqk⟩ := hinv.qk n hn
      -- the pending pair (parent, last key) is still recorded with respect to the old bag
      have hold : lastKey pi ∈ n.qkids ↔ Below Qo q pi := by
        have := hqk (lastKey pi)
        rw [e1, e2, dropLast_append_lastKey hpi, if_pos ⟨rfl, List.mem_cons_self⟩] at this
        exact this
      by_cases hc : (i.qkids.isEmpty && i.qops.isEmpty) = true
      · have hnb : ¬ Below Qn q pi := by
          rw [hb]; simp only [Bool.and_eq_true, List.isEmpty_iff] at hc; exact fun h => h hc
        simp only [hc, if_true]
        refine ⟨hnd.erase _, fun k => ?_⟩
        rw [hnd.mem_erase_iff]
        by_cases hk : k = lastKey pi
        · rw [if_pos hk]; exact ⟨fun h => absurd hk h.1, fun h => absurd h hnb⟩
        · rw [if_neg hk]; exact ⟨fun h => h.2, fun h => ⟨hk, h⟩⟩
      · have hyb : Below Qn q pi := by
          rw [hb]; simp only [Bool.and_eq_true, List.isEmpty_iff] at hc; exact hc
        simp only [hc, Bool.false_eq_true, if_false]
        refine ⟨hnd, fun k => ?_⟩
        by_cases hk : k = lastKey pi
        · rw [if_pos hk, hk]
          refine ⟨fun _ => hyb, fun _ => hold.mpr ?_⟩
          obtain ⟨c, hc1, hc2⟩ := hyb
          exact ⟨c, hsub c hc1, hc2⟩
        · rw [if_neg hk]

/-- the start of the walk: the invocation at `p` has got its new `qops` -/
theorem QInv.init (h : TreeOK X ns E I Qo P) (q : ScqId) (p : List Nat) (Qn : List QC) (G : List Nat → List Nat)
    (hn : (node? ns q p).isSome = true)
    (hQ : ∀ c : QC, ¬ (c.1 = q ∧ c.2.1 = p) → (c ∈ Qo ↔ c ∈ Qn))
    (hG : ∀ n ∈ ns, n.scq = q → n.path = p → (G n.qops).Nodup ∧ ∀ o, o ∈ G n.qops ↔ (q, p, o) ∈ Qn) :
    QInv ns Qo Qn q p (ups p) (updNode ns q p (fun n => { n with qops := G n.qops })) := by
  let g : Node → Node := fun n => if n.isAt q p then { n with qops := G n.qops } else n
  have hgs : ∀ n, (g n).scq = n.scq ∧ (g n).path = n.path ∧ (g n).exec = n.exec ∧ (g n).idle = n.idle ∧
      (g n).parked = n.parked ∧ (g n).ikids = n.ikids ∧ (g n).qkids = n.qkids ∧
      (g n).qops = if n.isAt q p then G n.qops else n.qops := by
    intro n; by_cases hc : n.isAt q p = true <;> simp [g, hc]
  have hk : KeepsKey g := fun n => ⟨(hgs n).1, (hgs n).2.1⟩
  show QInv ns Qo Qn q p (ups p) (ns.map g)
  refine ⟨⟨g, fun n => ?_, rfl⟩, ?_, ?_, ups_sorted p, ?_, ?_⟩
  · have a := hgs n
    exact ⟨a.1, a.2.1, a.2.2.1, a.2.2.2.1, a.2.2.2.2.1, a.2.2.2.2.2.1⟩
  · rw [map_keys hk]; exact h.nd
  · intro pi hm
    obtain ⟨a, b⟩ := mem_ups.mp hm
    refine ⟨b, a, ?_⟩
    rw [node?_map hk]; simpa using h.prefix_exists p hn pi a
  · intro m hm
    obtain ⟨n, hn', rfl⟩ := List.mem_map.mp hm
    rw [(hgs n).2.2.2.2.2.2.2, (hgs n).1, (hgs n).2.1]
    by_cases hat : n.isAt q p = true
    · obtain ⟨e1, e2⟩ := (isAt_iff _ _ _).mp hat
      rw [if_pos hat, e1, e2]; exact hG n hn' e1 e2
    · rw [if_neg hat]
      refine ⟨(h.qo n hn').1, fun o => ?_⟩
      rw [(h.qo n hn').2 o]
      exact hQ (n.scq, n.path, o) (fun hc => hat ((isAt_iff _ _ _).mpr hc))
  · intro m hm
    obtain ⟨n, hn', rfl⟩ := List.mem_map.mp hm
    rw [(hgs n).2.2.2.2.2.2.1, (hgs n).1, (hgs n).2.1]
    refine ⟨(h.qk n hn').1, fun k => ?_⟩
    rw [(h.qk n hn').2 k]
    by_cases hc : n.scq = q ∧ n.path ++ [k] ∈ ups p
    · rw [if_pos hc]; exact Iff.rfl
    · rw [if_neg hc]
      have hoff : ∀ c : QC, c.1 = n.scq → (n.path ++ [k]) <+: c.2.1 → ¬ (c.1 = q ∧ c.2.1 = p) := by
        rintro c h1 h2 ⟨h3, h4⟩
        exact hc ⟨h1.symm.trans h3, mem_ups.mpr ⟨h4 ▸ h2, by simp⟩⟩
      constructor
      · rintro ⟨c, hc1, h1, h2⟩; exact ⟨c, (hQ c (hoff c h1 h2)).mp hc1, h1, h2⟩
      · rintro ⟨c, hc1, h1, h2⟩; exact ⟨c, (hQ c (hoff c h1 h2)).mpr hc1, h1, h2⟩

/-- the end of the walk: the invariant for the new bag, every invocation being exempt -/
theorem treeOK_of_qinv {ns' : List Node} (h : TreeOK X ns E I Qo P) (hinv : QInv ns Qo Qn q p [] ns')
    (hrQ : ∀ c ∈ Qn, (node? ns c.1 c.2.1).isSome = true) :
    TreeOK (ns.map nkey) ns' E I Qn P := by
  obtain ⟨g, hg, rfl⟩ := hinv.rel
  have hk : KeepsKey g := fun n => ⟨(hg n).1, (hg n).2.1⟩
  apply h.of_map g hk
  · intro n hn k; rw [(hg n).2.2.1]; exact h.ex n hn k
  · intro n hn; rw [(hg n).2.2.1]; exact h.exnd n hn
  · intro n hn; rw [(hg n).2.2.2.1]; exact h.id n hn
  · intro n hn
    have := hinv.qo (g n) (List.mem_map_of_mem hn)
    rw [(hg n).1, (hg n).2.1] at this; exact this
  · intro n hn
    have := hinv.qk (g n) (List.mem_map_of_mem hn)
    rw [(hg n).1, (hg n).2.1] at this
    refine ⟨this.1, fun k => ?_⟩
    have := this.2 k
    rw [if_neg (fun hc => by cases hc.2)] at this
    exact this
  · intro n hn; rw [(hg n).2.2.2.2.1]; exact h.pk n hn
  · intro n hn; rw [(hg n).2.2.2.2.2]; exact h.ik n hn
  · intro n hn _ hx
    exact absurd (List.mem_map_of_mem (f := nkey) hn) hx
  · exact h.rfE
  · exact h.rfI
  · exact hrQ
  · exact h.rfP
  · exact h.pi

/-- a node after the walk and the node it came from -/
theorem QInv.origin {ns' : List Node} {l : List (List Nat)} (hinv : QInv ns Qo Qn q p l ns') {m : Node} (hm : m ∈ ns') :
    ∃ n ∈ ns, n.scq = m.scq ∧ n.path = m.path := by
  obtain ⟨g, hg, rfl⟩ := hinv.rel
  obtain ⟨n, hn, rfl⟩ := List.mem_map.mp hm
  exact ⟨n, hn, (hg n).1.symm, (hg n).2.1.symm⟩

/-! ### the `removeIfEmpty` chain -/

/-- an ancestor of an invocation that is not empty is not empty -/
theorem nonempty_anc (h : TreeOK X ns E I Q P) {n i : Node} (hn : n ∈ ns) (hi : i ∈ ns) (hq : n.scq = i.scq)
    (hp : n.path <+: i.path) (he : i.isEmptyInv = false) : n.isEmptyInv = false := by
  rw [h.not_empty_iff hn]
  rcases (h.not_empty_iff hi).mp he with ⟨e, he, h1, h2⟩ | ⟨e, he, h1, h2⟩ | ⟨e, he, h1, h2⟩
  · exact Or.inl ⟨e, he, h1.trans hq.symm, hp.trans h2⟩
  · exact Or.inr (Or.inl ⟨e, he, h1.trans hq.symm, hp.trans h2⟩)
  · exact Or.inr (Or.inr ⟨e, he, h1.trans hq.symm, hp.trans h2⟩)

/-- removing one empty non-root invocation below which nothing is exempt -/
theorem remove_empty (h : TreeOK X ns E I Q P) {q : ScqId} {p : List Nat} {i : Node} (hi : node? ns q p = some i)
    (he : i.isEmptyInv = true) (hX : ∀ x ∈ X, x.1 = q → p <+: x.2 → x.2 = p) :
    TreeOK (X.filter (fun x => decide (x ≠ (q, p)))) (ns.filter (fun n => !n.isAt q p)) E I Q P := by
  obtain ⟨him, hiq, hip⟩ := node?_some hi
  have hmem : ∀ n, n ∈ ns.filter (fun n => !n.isAt q p) → n ∈ ns := fun n hn => (List.mem_filter.mp hn).1
  have hrm : ∀ n ∈ ns, n.isAt q p = true → n = i := by
    intro n hn hat
    obtain ⟨h1, h2⟩ := (isAt_iff n q p).mp hat
    have := node?_of_mem h.nd' hn
    rw [h1, h2, hi] at this
    cases this; rfl
  have hkept : ∀ n ∈ ns, n.isEmptyInv = false → (!n.isAt q p) = true := by
    intro n hn hne
    cases hat : n.isAt q p with
    | false => rfl
    | true => rw [hrm n hn hat, he] at hne; cases hne
  have hsome : ∀ q' p', (node? ns q' p').isSome = true → (∀ n, node? ns q' p' = some n → n.isEmptyInv = false) →
      (node? (ns.filter (fun n => !n.isAt q p)) q' p').isSome = true := by
    intro q' p' hs hne
    cases hnq : node? ns q' p' with
    | none => rw [hnq] at hs; cases hs
    | some n =>
      have := node?_filter_of_keep (keep := fun n => !n.isAt q p) hnq (hkept n (node?_some hnq).1 (hne n hnq))
      rw [this]; rfl
  refine ⟨?_, ?_, ?_, ?_, ?_, ?_, ?_, ?_, ?_, ?_, ?_, ?_, ?_, ?_, h.pi⟩
  · exact (List.filter_sublist.map _).nodup h.nd
  · intro m hm hp
    have hm' := hmem m hm
    have hpar := h.pc m hm' hp
    cases hc : node? ns m.scq m.path.dropLast with
    | none => rw [hc] at hpar; cases hpar
    | some c =>
      obtain ⟨hc1, hc2, hc3⟩ := node?_some hc
      have hkeep : (!c.isAt q p) = true := by
        cases hat : c.isAt q p with
        | false => rfl
        | true =>
          exfalso
          have hci := hrm c hc1 hat
          obtain ⟨a1, a2⟩ := (isAt_iff c q p).mp hat
          have hlen : m.path.dropLast.length < m.path.length := by
            rw [List.length_dropLast]
            have : 0 < m.path.length := List.length_pos_iff.mpr hp
            omega
          by_cases hXm : (m.scq, m.path) ∈ X
          · have := hX _ hXm (hc2.symm.trans a1) (by rw [← a2, hc3]; exact List.dropLast_prefix _)
            have e : m.path = m.path.dropLast := this.trans (a2.symm.trans hc3)
            have := congrArg List.length e
            omega
          · have hme := h.ne m hm' hp hXm
            have := nonempty_anc h hc1 hm' hc2 (by rw [hc3]; exact List.dropLast_prefix _) hme
            rw [hci, he] at this; cases this
      rw [node?_filter_of_keep (keep := fun n => !n.isAt q p) hc hkeep]; rfl
  · intro n hn k; exact h.ex n (hmem n hn) k
  · intro n hn; exact h.exnd n (hmem n hn)
  · intro n hn; exact h.id n (hmem n hn)
  · intro n hn; exact h.qo n (hmem n hn)
  · intro n hn; exact h.qk n (hmem n hn)
  · intro n hn; exact h.pk n (hmem n hn)
  · intro n hn; exact h.ik n (hmem n hn)
  · intro n hn hp hx
    apply h.ne n (hmem n hn) hp
    intro hXn
    apply hx
    rw [List.mem_filter]
    refine ⟨hXn, ?_⟩
    have hat := (List.mem_filter.mp hn).2
    simp only [decide_eq_true_eq]
    intro e
    have : n.isAt q p = true := (isAt_iff n q p).mpr ⟨congrArg Prod.fst e, congrArg Prod.snd e⟩
    rw [this] at hat; cases hat
  · intro c hc
    apply hsome _ _ (h.rfE c hc)
    intro n hn
    obtain ⟨h1, h2, h3⟩ := node?_some hn
    exact (h.not_empty_iff h1).mpr (Or.inl ⟨c, hc, h2.symm, by rw [h3]; exact List.prefix_refl _⟩)
  · intro c hc
    apply hsome _ _ (h.rfI c hc)
    intro n hn
    obtain ⟨h1, h2, h3⟩ := node?_some hn
    exact (h.not_empty_iff h1).mpr (Or.inr (Or.inl ⟨c, hc, h2.symm, by rw [h3]; exact List.prefix_refl _⟩))
  · intro c hc
    apply hsome _ _ (h.rfQ c hc)
    intro n hn
    obtain ⟨h1, h2, h3⟩ := node?_some hn
    exact (h.not_empty_iff h1).mpr (Or.inr (Or.inr ⟨c, hc, h2.symm, by rw [h3]; exact List.prefix_refl _⟩))
  · intro c hc
    apply hsome _ _ (h.rfP c hc)
    intro n hn
    obtain ⟨h1, h2, h3⟩ := node?_some hn
    exact (h.not_empty_iff h1).mpr (Or.inr (Or.inl ⟨(c.1, c.2.1), h.pi c hc, h2.symm, by rw [h3]; exact List.prefix_refl _⟩))

theorem pruneChain_aux (q : ScqId) : ∀ (k : Nat) (p : List Nat) (X : List (ScqId × List Nat)) (ns : List Node),
    p.length = k → TreeOK X ns E I Q P → (node? ns q p).isSome = true → (∀ x ∈ X, x.1 = q ∧ x.2 <+: p) →
    TreeOK [] (pruneChain ns q (ups p)) E I Q P := by
  intro k
  induction k with
  | zero =>
    intro p X ns hl h _ hX
    have : p = [] := List.length_eq_zero_iff.mp hl
    subst this
    show TreeOK [] ns E I Q P
    apply h.reexempt
    intro n _ hp hXn _
    exact absurd (List.prefix_nil.mp (hX _ hXn).2) hp
  | succ k ih =>
    intro p X ns hl h hn hX
    have hp : p ≠ [] := by intro e; subst e; simp at hl
    have hpe := dropLast_append_lastKey hp
    rw [← hpe, ups_concat, hpe]
    unfold pruneChain
    cases hi : node? ns q p with
    | none => rw [hi] at hn; cases hn
    | some i =>
      obtain ⟨him, hiq, hip⟩ := node?_some hi
      simp only
      by_cases he : i.isEmptyInv = true
      · rw [if_pos he]
        have hpar := h.pc i him (by rw [hip]; exact hp)
        rw [hiq, hip] at hpar
        apply ih p.dropLast (X.filter (fun x => decide (x ≠ (q, p)))) _ (by rw [List.length_dropLast, hl]; rfl)
          (remove_empty h hi he ?_)
        · cases hc : node? ns q p.dropLast with
          | none => rw [hc] at hpar; cases hpar
          | some c =>
            obtain ⟨_, _, hc3⟩ := node?_some hc
            have hkeep : (!c.isAt q p) = true := by
              cases hat : c.isAt q p with
              | false => rfl
              | true =>
                exfalso
                have := ((isAt_iff c q p).mp hat).2
                rw [hc3] at this
                have := congrArg List.length this
                rw [List.length_dropLast, hl] at this
                omega
            rw [node?_filter_of_keep (keep := fun n => !n.isAt q p) hc hkeep]; rfl
        · intro x hx
          obtain ⟨hx1, hx2⟩ := List.mem_filter.mp hx
          simp only [decide_eq_true_eq] at hx2
          obtain ⟨a, b⟩ := hX x hx1
          refine ⟨a, ?_⟩
          rw [← hpe, List.prefix_concat_iff] at b
          rcases b with b | b
          · exfalso; apply hx2
            rw [hpe] at b
            exact Prod.ext a b
          · exact b
        · intro x hx _ hpx
          exact (hX x hx).2.eq_of_length_le hpx.length_le
      · rw [if_neg he]
        have he' : i.isEmptyInv = false := by simpa using he
        apply h.reexempt
        intro n hn' _ hXn _
        obtain ⟨a, b⟩ := hX _ hXn
        exact nonempty_anc h hn' him (a.trans hiq.symm) (by rw [hip]; exact b) he'

end PrimQueue

open PrimQueue

variable {X : List (ScqId × List Nat)} {ns : List Node} {E : List EC} {I : List IC} {Q : List QC} {P : List PC}

/-- `operation.enqueue`: operation `o` is now queued in the invocation `(q, p)` -/
theorem enqueueOp_ok (h : TreeOK X ns E I Q P) (prioOf : Nat → Int) (q : ScqId) (p : List Nat) (o : Nat)
    (hn : (node? ns q p).isSome = true) (ho : (q, p, o) ∉ Q) :
    TreeOK (offPath X q p) (enqueueOp prioOf ns q p o) E I ((q, p, o) :: Q) P := by
  have hinv0 : QInv ns Q ((q, p, o) :: Q) q p (ups p) (updNode ns q p (fun n => { n with qops := n.qops ++ [o] })) := by
    apply QInv.init h q p ((q, p, o) :: Q) (fun l => l ++ [o]) hn
    · intro c hc
      constructor
      · exact List.mem_cons_of_mem _
      · intro hm
        rcases List.mem_cons.mp hm with e | e
        · subst e; exact absurd ⟨rfl, rfl⟩ hc
        · exact e
    · intro n hn' e1 e2
      have hq := h.qo n hn'
      rw [e1, e2] at hq
      refine ⟨?_, fun o' => ?_⟩
      · rw [List.nodup_append]
        refine ⟨hq.1, by simp, ?_⟩
        intro a ha b hb
        simp only [List.mem_singleton] at hb
        rintro rfl; subst hb; exact ho ((hq.2 a).mp ha)
      · rw [List.mem_append, List.mem_singleton, List.mem_cons, hq.2 o']
        constructor
        · rintro (e | e)
          · exact Or.inr e
          · exact Or.inl (by rw [e])
        · rintro (e | e)
          · right; cases e; rfl
          · exact Or.inl e
  have hinv := QInv.enq_fold prioOf ⟨(q, p, o), List.mem_cons_self, rfl, List.prefix_refl _⟩ _ _ hinv0
  have T : TreeOK (ns.map nkey) (enqueueOp prioOf ns q p o) E I ((q, p, o) :: Q) P := by
    apply treeOK_of_qinv h hinv
    intro c hc
    rcases List.mem_cons.mp hc with e | e
    · subst e; exact hn
    · exact h.rfQ c e
  apply T.reexempt
  intro m hm hp _ hx
  by_cases hon : m.scq = q ∧ m.path <+: p
  · exact (T.not_empty_iff hm).mpr (Or.inr (Or.inr ⟨(q, p, o), List.mem_cons_self, hon.1.symm, hon.2⟩))
  · have hX : (m.scq, m.path) ∉ X := fun hc => hx (mem_offPath.mpr ⟨hc, hon⟩)
    obtain ⟨n, hn', e1, e2⟩ := hinv.origin hm
    have := h.ne n hn' (by rw [e2]; exact hp) (by rw [e1, e2]; exact hX)
    rw [T.not_empty_iff hm]
    rw [h.not_empty_iff hn', e1, e2] at this
    rcases this with a | a | ⟨c, hc, a⟩
    · exact Or.inl a
    · exact Or.inr (Or.inl a)
    · exact Or.inr (Or.inr ⟨c, List.mem_cons_of_mem _ hc, a⟩)

/-- `operation.removeQueuedFromInvocation`: `o` is no longer queued in `(q, p)`.  The invocations on the
path may now be empty (the callers call `removeIfEmpty` or have recorded something else there before):
they are exempt afterwards. -/
theorem removeQueuedOp_ok (h : TreeOK X ns E I Q P) (prioOf : Nat → Int) (q : ScqId) (p : List Nat) (o : Nat)
    (hc : (q, p, o) ∈ Q) (h1 : (q, p, o) ∉ Q.erase (q, p, o)) :
    TreeOK (X ++ (prefixes p).map (fun pi => (q, pi))) (removeQueuedOp prioOf ns q p o) E I (Q.erase (q, p, o)) P := by
  have hn : (node? ns q p).isSome = true := h.rfQ _ hc
  have hmem : ∀ c : QC, c ∈ Q.erase (q, p, o) ↔ c ∈ Q ∧ c ≠ (q, p, o) := by
    intro c
    by_cases e : c = (q, p, o)
    · subst e; exact ⟨fun hm => absurd hm h1, fun hm => absurd rfl hm.2⟩
    · rw [List.mem_erase_of_ne e]; exact ⟨fun hm => ⟨hm, e⟩, fun hm => hm.1⟩
  have hinv0 : QInv ns Q (Q.erase (q, p, o)) q p (ups p) (updNode ns q p (fun n => { n with qops := n.qops.erase o })) := by
    apply QInv.init h q p (Q.erase (q, p, o)) (fun l => l.erase o) hn
    · intro c hc'
      rw [hmem]
      exact ⟨fun hm => ⟨hm, fun e => hc' (by rw [e]; exact ⟨rfl, rfl⟩)⟩, fun hm => hm.1⟩
    · intro n hn' e1 e2
      have hq := h.qo n hn'
      rw [e1, e2] at hq
      refine ⟨hq.1.erase _, fun o' => ?_⟩
      rw [hq.1.mem_erase_iff, hmem, hq.2 o']
      constructor
      · rintro ⟨a, b⟩; exact ⟨b, fun e => a (by cases e; rfl)⟩
      · rintro ⟨a, b⟩; exact ⟨fun e => b (by rw [e]), a⟩
  have hinv := QInv.deq_fold prioOf (fun c hc' => ((hmem c).mp hc').1) _ _ hinv0
  have T : TreeOK (ns.map nkey) (removeQueuedOp prioOf ns q p o) E I (Q.erase (q, p, o)) P := by
    apply treeOK_of_qinv h hinv
    intro c hc'
    exact h.rfQ c ((hmem c).mp hc').1
  apply T.reexempt
  intro m hm hp _ hx
  have hX : (m.scq, m.path) ∉ X := fun hc' => hx (List.mem_append_left _ hc')
  have hoff : ¬ (m.scq = q ∧ m.path <+: p) := by
    rintro ⟨a, b⟩
    apply hx
    apply List.mem_append_right
    rw [List.mem_map]
    exact ⟨m.path, mem_prefixes.mpr ⟨b, hp⟩, by rw [a]⟩
  obtain ⟨n, hn', e1, e2⟩ := hinv.origin hm
  have := h.ne n hn' (by rw [e2]; exact hp) (by rw [e1, e2]; exact hX)
  rw [T.not_empty_iff hm]
  rw [h.not_empty_iff hn', e1, e2] at this
  rcases this with a | a | ⟨c, hc', a⟩
  · exact Or.inl a
  · exact Or.inr (Or.inl a)
  · refine Or.inr (Or.inr ⟨c, (hmem c).mpr ⟨hc', ?_⟩, a⟩)
    rintro rfl
    exact hoff ⟨a.1.symm, a.2⟩

/-- `for i.removeIfEmpty() { i = i.parent }` starting at `(q, p)`, when only invocations on that path are
exempt: afterwards nothing is exempt -/
theorem pruneChain_ok (h : TreeOK X ns E I Q P) (q : ScqId) (p : List Nat)
    (hn : (node? ns q p).isSome = true) (hX : ∀ x ∈ X, x.1 = q ∧ x.2 <+: p) :
    TreeOK [] (pruneChain ns q (ups p)) E I Q P :=
  pruneChain_aux q p.length p X ns rfl h hn hX

end BbRe.Lemmas.SchedTree
