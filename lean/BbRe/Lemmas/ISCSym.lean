import BbRe.Model.ISC
import BbRe.Lemmas.ISCFaster
/-!
Helper lemmas for C07 (b): `Outcomes.IsFaster` is antisymmetric,
`x.IsFaster(y) + y.IsFaster(x) = 1`, for sorted success lists (as `NewOutcomes` produces).
The merge loop is shown to compute the Mann-Whitney pair score.
-/
namespace BbRe.Lemmas.ISC
open BbRe.ISC

/-- Points for one pair: 2 if `a` is faster, 1 on a tie, 0 otherwise. -/
def pw (a b : Int) : Int := if a < b then 2 else if a = b then 1 else 0

def rowScore (a : Int) : List Int → Int
  | [] => 0
  | b :: B => pw a b + rowScore a B

def colScore : List Int → Int → Int
  | [], _ => 0
  | a :: A, b => pw a b + colScore A b

def pairScore : List Int → List Int → Int
  | [], _ => 0
  | a :: A, B => rowScore a B + pairScore A B

theorem pw_sym (a b : Int) : pw a b + pw b a = 2 := by
  unfold pw
  split <;> split <;> (try split) <;> (try split) <;> omega

theorem rowScore_all_gt (a : Int) (B : List Int) (h : ∀ b ∈ B, a < b) : rowScore a B = 2 * (B.length : Int) := by
  induction B with
  | nil => simp [rowScore]
  | cons b B ih =>
    have hb := h b (by simp)
    have := ih (fun x hx => h x (by simp [hx]))
    simp only [rowScore, pw, hb, if_true, List.length_cons, this]
    push_cast; omega

theorem colScore_all_gt (A : List Int) (b : Int) (h : ∀ a ∈ A, b < a) : colScore A b = 0 := by
  induction A with
  | nil => simp [colScore]
  | cons a A ih =>
    have ha := h a (by simp)
    have := ih (fun x hx => h x (by simp [hx]))
    have h1 : ¬ a < b := by omega
    have h2 : ¬ a = b := by omega
    simp [colScore, pw, h1, h2, this]

theorem pairScore_nil_right (A : List Int) : pairScore A [] = 0 := by
  induction A with
  | nil => simp [pairScore]
  | cons a A ih => simp [pairScore, rowScore, ih]

theorem pairScore_cons_right (A : List Int) (b : Int) (B : List Int) :
    pairScore A (b :: B) = colScore A b + pairScore A B := by
  induction A with
  | nil => simp [pairScore, colScore]
  | cons a A ih => simp only [pairScore, rowScore, colScore, ih]; omega

theorem row_col (a : Int) (B : List Int) : rowScore a B + colScore B a = 2 * (B.length : Int) := by
  induction B with
  | nil => simp [rowScore, colScore]
  | cons b B ih =>
    have := pw_sym a b
    simp only [rowScore, colScore, List.length_cons]
    push_cast; omega

/-- Every pair is worth two points in total. -/
theorem pairScore_sym (A B : List Int) : pairScore A B + pairScore B A = 2 * (A.length : Int) * (B.length : Int) := by
  induction A with
  | nil => simp [pairScore, pairScore_nil_right]
  | cons a A ih =>
    rw [pairScore_cons_right]
    simp only [pairScore, List.length_cons]
    have := row_col a B
    push_cast
    have e : 2 * ((A.length : Int) + 1) * (B.length : Int) = 2 * (A.length : Int) * (B.length : Int) + 2 * (B.length : Int) := by
      grind
    omega

/-! ## Sorted lists and `takeEq` -/

def Sorted (l : List Int) : Prop := l.Pairwise (· ≤ ·)

theorem rowScore_replicate_append (c : Int) (k : Nat) (R : List Int) :
    rowScore c (List.replicate k c ++ R) = (k : Int) + rowScore c R := by
  induction k with
  | zero => simp
  | succ k ih =>
    simp only [List.replicate_succ, List.cons_append, rowScore, ih, pw]
    simp
    omega

theorem rowScore_gt_replicate_append (a c : Int) (h : c < a) (k : Nat) (R : List Int) :
    rowScore a (List.replicate k c ++ R) = rowScore a R := by
  induction k with
  | zero => simp
  | succ k ih =>
    have h1 : ¬ a < c := by omega
    have h2 : ¬ a = c := by omega
    simp [List.replicate_succ, rowScore, ih, pw, h1, h2]

theorem pairScore_replicate_append (c : Int) (k : Nat) (R B : List Int) :
    pairScore (List.replicate k c ++ R) B = (k : Int) * rowScore c B + pairScore R B := by
  induction k with
  | zero => simp
  | succ k ih =>
    simp only [List.replicate_succ, List.cons_append, pairScore, ih]
    push_cast
    grind

theorem pairScore_gt_replicate_append (R : List Int) (c : Int) (h : ∀ a ∈ R, c < a) (k : Nat) (B : List Int) :
    pairScore R (List.replicate k c ++ B) = pairScore R B := by
  induction R with
  | nil => simp [pairScore]
  | cons a R ih =>
    simp only [pairScore]
    rw [rowScore_gt_replicate_append a c (h a (by simp)), ih (fun x hx => h x (by simp [hx]))]

/-- On a sorted list starting with (elements ≥) `c`, `takeEq c` splits off exactly the run of `c`s. -/
theorem takeEq_sorted (c : Int) (xs : List Int) (hs : Sorted xs) (hge : ∀ x ∈ xs, c ≤ x) :
    xs = List.replicate (takeEq c xs).1 c ++ (takeEq c xs).2 ∧
    (∀ x ∈ (takeEq c xs).2, c < x) ∧ Sorted (takeEq c xs).2 := by
  induction xs with
  | nil => simp [takeEq, Sorted]
  | cons x xs ih =>
    have hs' : Sorted xs := (List.pairwise_cons.mp hs).2
    have hx := hge x (by simp)
    unfold takeEq
    split
    · rename_i heq
      subst heq
      have := ih hs' (fun y hy => hge y (by simp [hy]))
      refine ⟨?_, this.2.1, this.2.2⟩
      simp only [List.replicate_succ, List.cons_append]
      rw [← this.1]
    · rename_i hne
      refine ⟨by simp, ?_, hs⟩
      intro y hy
      simp only [List.mem_cons] at hy
      rcases hy with hy | hy
      · subst hy; omega
      · have := (List.pairwise_cons.mp hs).1 y hy
        omega

/-! ## The merge loop computes the pair score -/

theorem mergeScore_spec (A B : List Int) (score remB : Int) (hA : Sorted A) (hB : Sorted B) :
    mergeScore A B score remB =
      score + pairScore A B + 2 * (A.length : Int) * (remB - (B.length : Int)) := by
  fun_induction mergeScore A B score remB with
  | case1 B score remB => simp [pairScore]
  | case2 score remB a A' =>
    simp [pairScore_nil_right]
  | case3 score remB a A' b B' hlt ih =>
    have hA' : Sorted A' := (List.pairwise_cons.mp hA).2
    have ih := ih hA' hB
    have hall : ∀ x ∈ b :: B', a < x := by
      intro x hx
      simp only [List.mem_cons] at hx
      rcases hx with hx | hx
      · subst hx; exact hlt
      · have := (List.pairwise_cons.mp hB).1 x hx
        omega
    have hrow := rowScore_all_gt a (b :: B') hall
    rw [ih]
    simp only [pairScore, hrow, List.length_cons]
    push_cast
    grind
  | case4 score remB a A' b B' hlt hgt ih =>
    have hB' : Sorted B' := (List.pairwise_cons.mp hB).2
    have ih := ih hA hB'
    have hall : ∀ x ∈ a :: A', b < x := by
      intro x hx
      simp only [List.mem_cons] at hx
      rcases hx with hx | hx
      · subst hx; omega
      · have := (List.pairwise_cons.mp hA).1 x hx
        omega
    have hcol := colScore_all_gt (a :: A') b hall
    rw [ih, pairScore_cons_right, hcol]
    simp only [List.length_cons]
    push_cast
    grind
  | case5 score remB a A' b B' hlt hgt ea eb ih =>
    have hab : b = a := by omega
    subst hab
    have hA' : Sorted A' := (List.pairwise_cons.mp hA).2
    have hB' : Sorted B' := (List.pairwise_cons.mp hB).2
    have tA := takeEq_sorted b A' hA' (fun x hx => (List.pairwise_cons.mp hA).1 x hx)
    have tB := takeEq_sorted b B' hB' (fun x hx => (List.pairwise_cons.mp hB).1 x hx)
    have ih := ih tA.2.2 tB.2.2
    rw [ih]
    -- rewrite A and B as runs of `b` followed by strictly larger elements
    have eA : b :: A' = List.replicate ((takeEq b A').1 + 1) b ++ (takeEq b A').2 := by
      rw [List.replicate_succ, List.cons_append, ← tA.1]
    have eB : b :: B' = List.replicate ((takeEq b B').1 + 1) b ++ (takeEq b B').2 := by
      rw [List.replicate_succ, List.cons_append, ← tB.1]
    have hlenA : ((b :: A').length : Int) = ea + ((takeEq b A').2.length : Int) := by
      have := congrArg List.length eA
      simp only [List.length_cons, List.length_append, List.length_replicate] at this
      simp only [ea, List.length_cons]; omega
    have hlenB : ((b :: B').length : Int) = eb + ((takeEq b B').2.length : Int) := by
      have := congrArg List.length eB
      simp only [List.length_cons, List.length_append, List.length_replicate] at this
      simp only [eb, List.length_cons]; omega
    have hps : pairScore (b :: A') (b :: B') =
        ea * (eb + 2 * ((takeEq b B').2.length : Int)) + pairScore (takeEq b A').2 (takeEq b B').2 := by
      rw [eA, pairScore_replicate_append, eB, rowScore_replicate_append,
        rowScore_all_gt b _ tB.2.1, pairScore_gt_replicate_append _ b tA.2.1]
      simp only [ea, eb]
      push_cast
      rfl
    rw [hps, hlenA, hlenB]
    grind

theorem insertSorted_sorted (x : Int) (l : List Int) (h : Sorted l) : Sorted (insertSorted x l) := by
  induction l with
  | nil => simp [insertSorted, Sorted]
  | cons y ys ih =>
    unfold insertSorted
    split
    · rename_i hle
      apply List.pairwise_cons.mpr
      refine ⟨?_, h⟩
      intro z hz
      simp only [List.mem_cons] at hz
      rcases hz with hz | hz
      · subst hz; exact hle
      · have := (List.pairwise_cons.mp h).1 z hz
        omega
    · rename_i hgt
      have hys : Sorted ys := (List.pairwise_cons.mp h).2
      have hrec := ih hys
      apply List.pairwise_cons.mpr
      refine ⟨?_, hrec⟩
      intro z hz
      have hmem : ∀ (l : List Int) (z : Int), z ∈ insertSorted x l → z = x ∨ z ∈ l := by
        intro l
        induction l with
        | nil => intro z hz; simp [insertSorted] at hz; exact Or.inl hz
        | cons w ws ihw =>
          intro z hz
          unfold insertSorted at hz
          split at hz
          · simp only [List.mem_cons] at hz ⊢
            rcases hz with hz | hz | hz
            · exact Or.inl hz
            · exact Or.inr (Or.inl hz)
            · exact Or.inr (Or.inr hz)
          · simp only [List.mem_cons] at hz ⊢
            rcases hz with hz | hz
            · exact Or.inr (Or.inl hz)
            · rcases ihw z hz with h1 | h1
              · exact Or.inl h1
              · exact Or.inr (Or.inr h1)
      rcases hmem ys z hz with hzx | hzy
      · subst hzx; omega
      · exact (List.pairwise_cons.mp h).1 z hzy

theorem sortInts_sorted (l : List Int) : Sorted (sortInts l) := by
  induction l with
  | nil => simp [sortInts, Sorted]
  | cons x xs ih => exact insertSorted_sorted x _ ih

/-- The scores of the two directions add up to the common denominator. -/
theorem isFasterScore_sym (a b : Outcomes) (ha : Sorted a.successes) (hb : Sorted b.successes) :
    isFasterScore a b + isFasterScore b a = isFasterDenom a b := by
  unfold isFasterScore isFasterDenom Outcomes.count
  rw [mergeScore_spec _ _ _ _ ha hb, mergeScore_spec _ _ _ _ hb ha]
  have := pairScore_sym a.successes b.successes
  grind

theorem isFasterDenom_comm (a b : Outcomes) : isFasterDenom b a = isFasterDenom a b := by
  unfold isFasterDenom; grind

theorem isFaster_sym (a b : Outcomes) (ha : Sorted a.successes) (hb : Sorted b.successes) :
    isFaster a b + isFaster b a = 1 := by
  unfold isFaster
  rw [isFasterDenom_comm a b]
  have hd : (0 : Rat) < (isFasterDenom a b : Rat) := by exact_mod_cast isFasterDenom_pos a b
  have hne : (isFasterDenom a b : Rat) ≠ 0 := by grind
  have hs : (isFasterScore a b : Rat) + (isFasterScore b a : Rat) = (isFasterDenom a b : Rat) := by
    exact_mod_cast isFasterScore_sym a b ha hb
  rw [Rat.div_def, Rat.div_def, ← Rat.add_mul, hs]
  exact Rat.mul_inv_cancel _ hne

end BbRe.Lemmas.ISC
