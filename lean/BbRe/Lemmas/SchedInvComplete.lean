import BbRe.Lemmas.SchedInvSched
import BbRe.Lemmas.SchedInvLog
/-!
`task.complete`: decomposition into named pieces and their specifications.
-/
namespace BbRe.Lemmas.SchedInv
open BbRe.Sched

/-- first assignment in `complete`: a QUEUED task is dequeued -/
def preT (t : Task) : Task := if t.worker.isNone then bumpGen { t with queued := false, retry := 0 } else t

/-- detach the worker of `t` -/
def detachW (s : State) (t : Task) : State :=
  match t.worker with
  | some (q, w) => match s.worker? q w with
    | some wk => s.setWorker { wk with task := none }
    | none => s
  | none => s

/-- the success branch of `complete` -/
def completeOk (h : Hints) (s : State) (t : Task) (r : Resp) (learner : Nat) : M State := do
    let s := emit s (.learnerSucceeded learner (if h.bg.isSome then some s.nextLearner else none))
    let t := { t with learner := none }
    let s := if alookup t.dkey s.dedup = some t.id then { s with dedup := aerase t.dkey s.dedup } else s
    let t := bumpGen { t with response := some r }
    let s := s.setTask t
    let s := complete.finishOps s t.ops
    match h.bg with
    | none => return s
    | some bgIdx =>
      let bl := s.nextLearner
      let s := { s with nextLearner := bl + 1 }
      let some pq := s.pq? t.scq.pq | throw "complete: no platform queue"
      if pq.bgMax = 0 then return emit s (.learnerAbandoned bl)
      let sizes := s.sizes t.scq.pq
      let some bsc := sizes[min bgIdx (sizes.length - 1)]? | throw "platform queue without size classes"
      let bq : ScqId := ⟨t.scq.pq, bsc⟩
      if countQueuedBackground s bq ≥ pq.bgMax then return emit s (.learnerAbandoned bl)
      let opn := s.nextOp
      let bt : Task := { id := s.nextTask, digest := t.digest, dkey := t.dkey, doNotCache := true, scq := bq, ops := [opn], worker := none, retry := 0, response := none, gen := 0, learner := some bl, background := true, queued := false }
      let bo : Op := { name := opn, task := bt.id, inv := [0], prio := pq.bgPrio, waiters := 0, mayExistWithoutWaiters := true }
      let s := { s with nextTask := s.nextTask + 1, nextOp := opn + 1 }
      let s := (s.setTask bt).setOp bo
      schedule h s bt.id

/-- the retry branch of `complete` -/
def completeRetry (h : Hints) (s : State) (t : Task) (r : Resp) (learner : Nat) : M State := do
      let timedOut := r.code = cDeadlineExceeded
      let nl := s.nextLearner
      let s := emit { s with nextLearner := nl + 1 } (.learnerFailed learner timedOut (some nl))
      let t := { t with learner := some nl, scq := largestScq s t.scq }
      let s := s.setTask t
      let s ← schedule h s t.id
      let some t := s.task? t.id | throw "complete: task vanished"
      return s.setTask (bumpGen t)

theorem complete_eq (h : Hints) (s : State) (tid : Nat) (r : Resp) (bw : Bool) :
    complete h s tid r bw =
      match s.task? tid with
      | none => throw "complete: no task"
      | some t =>
        if t.response.isSome then pure s else
        let s1 := detachW s (preT t)
        let t2 : Task := { preT t with worker := none }
        match t2.learner with
        | none => throw "complete: task without learner"
        | some learner =>
          if r.code = cOK ∧ r.exit = 0 then completeOk h s1 t2 r learner
          else if bw then
            if h.retry then completeRetry h s1 t2 r learner
            else complete.finalize (emit s1 (.learnerFailed learner (r.code = cDeadlineExceeded) none))
                  { t2 with learner := none } r
          else complete.finalize (emit s1 (.learnerAbandoned learner)) { t2 with learner := none } r := by
  unfold complete
  cases ht : s.task? tid with
  | none => rfl
  | some t =>
    simp only []
    by_cases hr : t.response.isSome = true
    · simp only [hr, if_true]
    · simp only [hr, if_false]
      cases hl : ({ preT t with worker := none } : Task).learner with
      | none =>
        have hl' : (preT t).learner = none := hl
        simp only [preT] at hl'
        simp only [hl']
      | some l =>
        have hl' : (preT t).learner = some l := hl
        simp only [preT] at hl'
        simp only [hl']
        by_cases h1 : r.code = cOK ∧ r.exit = 0
        · simp only [h1, and_self, if_true]; rfl
        · simp only [h1, if_false]
          by_cases h2 : bw = true
          · simp only [h2, if_true]
            by_cases h3 : h.retry = true
            · simp only [h3, if_true]; rfl
            · simp only [h3, if_false]; rfl
          · simp only [h2, if_false]; rfl


/-- the state in which task `t` has been taken off its worker / out of the queue -/
def detSt (s : State) (t : Task) : State := (detachW s (preT t)).setTask { preT t with worker := none }

structure DetPost (s : State) (tid : Nat) (t : Task) (s' : State) : Prop where
  same : ∃ ws ts, s' = { s with workers := ws, tasks := ts }
  tk : ∀ k, k ≠ tid → alookup k s'.tasks = alookup k s.tasks
  tt : alookup tid s'.tasks = some { preT t with worker := none }
  rw : RW s s'
  wex : ∀ q w, (wfind s'.workers q w).isSome = (wfind s.workers q w).isSome

theorem detSt_post {ex exo} {s : State} {tid : Nat} {t : Task} (hI : InvX ex exo s)
    (ht : alookup tid s.tasks = some t) : DetPost s tid t (detSt s t) := by
  have hid : t.id = tid := (hI.core.tid tid t ht).1
  have hpid : (preT t).id = tid := by unfold preT; split <;> simp [bumpGen, hid]
  have hpw : (preT t).worker = t.worker := by unfold preT; split <;> simp [bumpGen]
  unfold detSt detachW
  rw [hpw]
  cases htw : t.worker with
  | none =>
    simp only []
    refine ⟨⟨_, _, rfl⟩, ?_, ?_, RW.refl s, fun _ _ => rfl⟩
    · intro k hk; simp only [State.setTask]; grind
    · simp only [State.setTask]; grind
  | some qw =>
    obtain ⟨q, w⟩ := qw
    obtain ⟨wk, hwk, hwt⟩ := hI.core.p2 tid t q w ht htw
    simp only [worker?_def, hwk, setWorker_eq]
    refine ⟨⟨_, _, rfl⟩, ?_, ?_, ?_, ?_⟩
    · intro k hk; simp only [State.setTask]; grind
    · simp only [State.setTask]; grind
    · intro q' w' wk' hwk' hp'
      simp only [State.setTask]
      by_cases hk : wk.scq = q' ∧ wk.id = w'
      · have := wfind_key hwk
        have e : wk' = wk := by grind
        subst e
        exact ⟨{ wk' with task := none }, by grind, rfl, Or.inr rfl⟩
      · exact ⟨wk', by grind, rfl, Or.inl rfl⟩
    · intro q' w'; simp only [State.setTask]; grind

theorem detSt_inv {exo} {s : State} {tid : Nat} {t : Task} (hI : InvX (fun _ => False) exo s)
    (ht : alookup tid s.tasks = some t) (hr : t.response = none) :
    InvX (fun k => k = tid) exo (detSt s t) := by
  have hid : t.id = tid := (hI.core.tid tid t ht).1
  have ht' : alookup t.id s.tasks = some t := by rw [hid]; exact ht
  have hpid : (preT t).id = t.id := by unfold preT; split <;> simp [bumpGen]
  have hpw : (preT t).worker = t.worker := by unfold preT; split <;> simp [bumpGen]
  have hc := hI.core
  refine ⟨?_, ?_, ?_, ?_⟩
  · unfold detSt detachW
    rw [hpw]
    cases htw : t.worker with
    | none =>
      simp only [State.setTask, preT, htw, Option.isNone_none, if_true, bumpGen]
      core_facts hc
      constructor <;> grind
    | some qw =>
      obtain ⟨q, w⟩ := qw
      obtain ⟨wk, hwk, hwt⟩ := hI.core.p2 tid t q w ht htw
      simp only [worker?_def, hwk, setWorker_eq, State.setTask, preT, htw, Option.isNone_some, Bool.false_eq_true, if_false]
      have := wfind_key hwk
      core_facts hc
      constructor <;> grind
  · have : (detSt s t).ops = s.ops ∧ (detSt s t).nextOp = s.nextOp ∧
        (detSt s t).tasks = aset ({ preT t with worker := none } : Task).id { preT t with worker := none } s.tasks := by
      unfold detSt detachW; split <;> (try split) <;> exact ⟨rfl, rfl, rfl⟩
    rw [this.1, this.2.1, this.2.2]
    exact hI.oinv.setTask (t := { preT t with worker := none }) (t0 := t) (by simpa [hpid] using ht')
      (by unfold preT; split <;> simp [bumpGen])
  · have : (detSt s t).ops = s.ops ∧ (detSt s t).streams = s.streams ∧ (detSt s t).cleanup = s.cleanup := by
      unfold detSt detachW; split <;> (try split) <;> exact ⟨rfl, rfl, rfl⟩
    rw [this.1, this.2.1, this.2.2]; exact hI.sinv
  · have : (detSt s t).events = s.events ∧ (detSt s t).nextLearner = s.nextLearner ∧
        (detSt s t).tasks = aset ({ preT t with worker := none } : Task).id { preT t with worker := none } s.tasks := by
      unfold detSt detachW; split <;> (try split) <;> exact ⟨rfl, rfl, rfl⟩
    rw [this.1, this.2.1, this.2.2]
    exact hI.linv.setTask (t := { preT t with worker := none }) (t0 := t) (by simpa [hpid] using ht')
      (Or.inl (by unfold preT; split <;> simp [bumpGen]))

/-- the state `finalize` produces before `finishOps` -/
def finSt0 (s : State) (t : Task) (r : Resp) : State :=
  { s with dedup := if alookup t.dkey s.dedup = some t.id then aerase t.dkey s.dedup else s.dedup,
           tasks := aset t.id (bumpGen { t with response := some r }) s.tasks }

theorem finalize_eq (s : State) (t : Task) (r : Resp) :
    complete.finalize s t r = .ok (complete.finishOps (finSt0 s t r) t.ops) := by
  unfold complete.finalize finSt0
  by_cases hc : alookup t.dkey s.dedup = some t.id
  · simp only [hc, if_true]; rfl
  · simp only [hc, if_false]; rfl

theorem finSt0_setTask (s : State) (t0 t : Task) (r : Resp) (hid : t0.id = t.id) :
    finSt0 (s.setTask t0) t r = finSt0 s t r := by
  unfold finSt0
  simp only [State.setTask, hid, aset_aset]

/-- `Core` after the final completion of the exempt task `tid` -/
theorem finSt0_core {s : State} {tid : Nat} {t0 : Task}
    (hc : Core (fun k => k = tid) s.tasks s.workers s.dedup s.nextTask s.nextLearner)
    (h0 : alookup tid s.tasks = some t0) (hw : t0.worker = none) (hq : t0.queued = false) (r : Resp) :
    Core (fun _ => False) (finSt0 s { t0 with learner := none } r).tasks s.workers
      (finSt0 s { t0 with learner := none } r).dedup s.nextTask s.nextLearner := by
  have hid : t0.id = tid := (hc.tid tid t0 h0).1
  unfold finSt0
  core_facts hc
  simp only [bumpGen]
  split
  · constructor <;> grind
  · constructor <;> grind

/-- what the final completion does to the state -/
structure FinPost (s : State) (tid : Nat) (t0 : Task) (e : Event) (r : Resp) (s' : State) : Prop where
  same : ∃ ts dd os cl, s' = { s with tasks := ts, dedup := dd, ops := os, cleanup := cl, events := e :: s.events }
  tk : ∀ k, k ≠ tid → alookup k s'.tasks = alookup k s.tasks
  tt : ∃ t', alookup tid s'.tasks = some t' ∧ t'.response = some r ∧ t'.ops = t0.ops ∧ t'.worker = none

theorem finalize_spec {exo} {s : State} {tid : Nat} {t0 : Task} {l : Nat} {e : Event}
    (hI : InvX (fun k => k = tid) exo s)
    (h0 : alookup tid s.tasks = some t0) (hw : t0.worker = none) (hq : t0.queued = false)
    (hl : t0.learner = some l) (het : ∀ l', isTerm l' e = (l' == l)) (hei : ∀ l', isIssue l' e = false)
    (r : Resp) :
    ∃ s', complete.finalize (emit s e) { t0 with learner := none } r = .ok s' ∧
      InvX (fun _ => False) exo s' ∧ FinPost s tid t0 e r s' := by
  have hid : t0.id = tid := (hI.core.tid tid t0 h0).1
  have h0' : alookup t0.id s.tasks = some t0 := by rw [hid]; exact h0
  rw [finalize_eq]
  -- the state before `finishOps`
  have hcore := finSt0_core hI.core h0 hw hq r
  have hoinv : OInv exo (finSt0 (emit s e) { t0 with learner := none } r).tasks s.ops s.nextOp :=
    hI.oinv.setTask (t := bumpGen { t0 with learner := none, response := some r }) (t0 := t0) h0' rfl
  have hlinv : LogInv (finSt0 (emit s e) { t0 with learner := none } r).tasks s.nextLearner (e :: s.events) := by
    refine hI.linv.terminal ⟨tid, t0, h0, hl⟩ het hei ?_
    intro l' hl'
    have hl'' : Held (aset t0.id (bumpGen { t0 with learner := none, response := some r }) s.tasks) l' := hl'
    rcases hl''.aset with h | ⟨k', t', hk, h1, h2⟩
    · simp [bumpGen] at h
    · refine ⟨⟨k', t', h1, h2⟩, ?_⟩
      intro e; subst e
      exact hk ((hI.core.l3 k' tid t' t0 l' h1 h0 h2 hl).trans hid.symm)
  obtain ⟨os, cl, he, hsim, hsinv⟩ := finishOps_frame (exo := exo) (ts := (finSt0 (emit s e) { t0 with learner := none } r).tasks)
    (no := s.nextOp) (finSt0 (emit s e) { t0 with learner := none } r) t0.ops hoinv
  refine ⟨_, congrArg Except.ok he, ⟨hcore, hoinv.sim hsim, hsinv hI.sinv, hlinv⟩, ⟨_, _, _, _, rfl⟩, ?_, ?_⟩
  · intro k hk; simp only [finSt0, emit]; grind
  · refine ⟨bumpGen { t0 with learner := none, response := some r }, ?_, rfl, rfl, hw⟩
    simp only [finSt0, emit]; grind

end BbRe.Lemmas.SchedInv
