import BbRe.Lemmas.SchedInvSched
import BbRe.Lemmas.SchedInvLog
/-!
`task.complete`: decomposition into named pieces and their specifications.
-/
namespace BbRe.Lemmas.SchedInv
open BbRe.Sched

/-- first assignment in `complete`: a QUEUED task is dequeued -/
def preT (t : Task) : Task := if t.worker.isNone then bumpGen { t with queued := false, retry := 0 } else t

/-- detach the worker of `t` -/
def detachW (s : State) (t : Task) : State :=
  match t.worker with
  | some (q, w) => match s.worker? q w with
    | some wk => s.setWorker { wk with task := none }
    | none => s
  | none => s

/-- the success branch of `complete` -/
def completeOk (h : Hints) (s : State) (t : Task) (r : Resp) (learner : Nat) : M State := do
    let s := emit s (.learnerSucceeded learner (if h.bg.isSome then some s.nextLearner else none))
    let t := { t with learner := none }
    let s := if alookup t.dkey s.dedup = some t.id then { s with dedup := aerase t.dkey s.dedup } else s
    let t := bumpGen { t with response := some r }
    let s := s.setTask t
    let s := complete.finishOps s t.ops
    match h.bg with
    | none => return s
    | some bgIdx =>
      let bl := s.nextLearner
      let s := { s with nextLearner := bl + 1 }
      let some pq := s.pq? t.scq.pq | throw "complete: no platform queue"
      if pq.bgMax = 0 then return emit s (.learnerAbandoned bl)
      let sizes := s.sizes t.scq.pq
      let some bsc := sizes[min bgIdx (sizes.length - 1)]? | throw "platform queue without size classes"
      let bq : ScqId := ⟨t.scq.pq, bsc⟩
      if countQueuedBackground s bq ≥ pq.bgMax then return emit s (.learnerAbandoned bl)
      let opn := s.nextOp
      let bt : Task := { id := s.nextTask, digest := t.digest, dkey := t.dkey, doNotCache := true, scq := bq, ops := [opn], worker := none, retry := 0, response := none, gen := 0, learner := some bl, background := true, queued := false }
      let bo : Op := { name := opn, task := bt.id, inv := [0], prio := pq.bgPrio, waiters := 0, mayExistWithoutWaiters := true }
      let s := { s with nextTask := s.nextTask + 1, nextOp := opn + 1 }
      let s := (s.setTask bt).setOp bo
      schedule h s bt.id

/-- the retry branch of `complete` -/
def completeRetry (h : Hints) (s : State) (t : Task) (r : Resp) (learner : Nat) : M State := do
      let timedOut := r.code = cDeadlineExceeded
      let nl := s.nextLearner
      let s := emit { s with nextLearner := nl + 1 } (.learnerFailed learner timedOut (some nl))
      let t := { t with learner := some nl, scq := largestScq s t.scq }
      let s := s.setTask t
      let s ← schedule h s t.id
      let some t := s.task? t.id | throw "complete: task vanished"
      return s.setTask (bumpGen t)

theorem complete_eq (h : Hints) (s : State) (tid : Nat) (r : Resp) (bw : Bool) :
    complete h s tid r bw =
      match s.task? tid with
      | none => throw "complete: no task"
      | some t =>
        if t.response.isSome then pure s else
        let s1 := detachW s (preT t)
        let t2 : Task := { preT t with worker := none }
        match t2.learner with
        | none => throw "complete: task without learner"
        | some learner =>
          if r.code = cOK ∧ r.exit = 0 then completeOk h s1 t2 r learner
          else if bw then
            if h.retry then completeRetry h s1 t2 r learner
            else complete.finalize (emit s1 (.learnerFailed learner (r.code = cDeadlineExceeded) none))
                  { t2 with learner := none } r
          else complete.finalize (emit s1 (.learnerAbandoned learner)) { t2 with learner := none } r := by
  unfold complete
  cases ht : s.task? tid with
  | none => rfl
  | some t =>
    simp only []
    by_cases hr : t.response.isSome = true
    · simp only [hr, if_true]
    · simp only [hr, if_false]
      cases hl : ({ preT t with worker := none } : Task).learner with
      | none =>
        have hl' : (preT t).learner = none := hl
        simp only [preT] at hl'
        simp only [hl']
      | some l =>
        have hl' : (preT t).learner = some l := hl
        simp only [preT] at hl'
        simp only [hl']
        by_cases h1 : r.code = cOK ∧ r.exit = 0
        · simp only [h1, and_self, if_true]; rfl
        · simp only [h1, if_false]
          by_cases h2 : bw = true
          · simp only [h2, if_true]
            by_cases h3 : h.retry = true
            · simp only [h3, if_true]; rfl
            · simp only [h3, if_false]; rfl
          · simp only [h2, if_false]; rfl


/-- the state in which task `t` has been taken off its worker / out of the queue -/
def detSt (s : State) (t : Task) : State := (detachW s (preT t)).setTask { preT t with worker := none }

structure DetPost (s : State) (tid : Nat) (t : Task) (s' : State) : Prop where
  same : ∃ ws ts, s' = { s with workers := ws, tasks := ts }
  tk : ∀ k, k ≠ tid → alookup k s'.tasks = alookup k s.tasks
  tt : alookup tid s'.tasks = some { preT t with worker := none }
  rw : RW s s'
  wex : ∀ q w, (wfind s'.workers q w).isSome = (wfind s.workers q w).isSome
  par : ∀ q w wk', wfind s'.workers q w = some wk' → ∃ wk, wfind s.workers q w = some wk ∧ wk.parked = wk'.parked

theorem detSt_post {ex exo} {s : State} {tid : Nat} {t : Task} (hI : InvX ex exo s)
    (ht : alookup tid s.tasks = some t) : DetPost s tid t (detSt s t) := by
  have hid : t.id = tid := (hI.core.tid tid t ht).1
  have hpid : (preT t).id = tid := by unfold preT; split <;> simp [bumpGen, hid]
  have hpw : (preT t).worker = t.worker := by unfold preT; split <;> simp [bumpGen]
  unfold detSt detachW
  rw [hpw]
  cases htw : t.worker with
  | none =>
    simp only []
    refine ⟨⟨_, _, rfl⟩, ?_, ?_, RW.refl s, fun _ _ => rfl, fun q w wk' h => ⟨wk', h, rfl⟩⟩
    · intro k hk; simp only [State.setTask]; grind
    · simp only [State.setTask]; grind
  | some qw =>
    obtain ⟨q, w⟩ := qw
    obtain ⟨wk, hwk, hwt⟩ := hI.core.p2 tid t q w ht htw
    simp only [worker?_def, hwk, setWorker_eq]
    refine ⟨⟨_, _, rfl⟩, ?_, ?_, ?_, ?_, ?_⟩
    · intro k hk; simp only [State.setTask]; grind
    · simp only [State.setTask]; grind
    · intro q' w' wk' hwk' hp'
      simp only [State.setTask]
      by_cases hk : wk.scq = q' ∧ wk.id = w'
      · have := wfind_key hwk
        have e : wk' = wk := by grind
        subst e
        exact ⟨{ wk' with task := none }, by grind, rfl, Or.inr rfl⟩
      · exact ⟨wk', by grind, rfl, Or.inl rfl⟩
    · intro q' w'; simp only [State.setTask]; grind
    · intro q' w' wk'; simp only [State.setTask]
      have := wfind_key hwk
      by_cases hk : wk.scq = q' ∧ wk.id = w'
      · intro h; exact ⟨wk, by grind, by grind⟩
      · intro h; exact ⟨wk', by grind, rfl⟩

theorem detSt_inv {exo} {s : State} {tid : Nat} {t : Task} (hI : InvX (fun _ => False) exo s)
    (ht : alookup tid s.tasks = some t) (hr : t.response = none) :
    InvX (fun k => k = tid) exo (detSt s t) := by
  have hid : t.id = tid := (hI.core.tid tid t ht).1
  have ht' : alookup t.id s.tasks = some t := by rw [hid]; exact ht
  have hpid : (preT t).id = t.id := by unfold preT; split <;> simp [bumpGen]
  have hpw : (preT t).worker = t.worker := by unfold preT; split <;> simp [bumpGen]
  have hc := hI.core
  refine ⟨?_, ?_, ?_, ?_⟩
  · unfold detSt detachW
    rw [hpw]
    cases htw : t.worker with
    | none =>
      simp only [State.setTask, preT, htw, Option.isNone_none, if_true, bumpGen]
      core_facts hc
      constructor <;> grind
    | some qw =>
      obtain ⟨q, w⟩ := qw
      obtain ⟨wk, hwk, hwt⟩ := hI.core.p2 tid t q w ht htw
      simp only [worker?_def, hwk, setWorker_eq, State.setTask, preT, htw, Option.isNone_some, Bool.false_eq_true, if_false]
      have := wfind_key hwk
      core_facts hc
      constructor <;> grind
  · have : (detSt s t).ops = s.ops ∧ (detSt s t).nextOp = s.nextOp ∧
        (detSt s t).tasks = aset ({ preT t with worker := none } : Task).id { preT t with worker := none } s.tasks := by
      unfold detSt detachW; split <;> (try split) <;> exact ⟨rfl, rfl, rfl⟩
    rw [this.1, this.2.1, this.2.2]
    exact hI.oinv.setTask (t := { preT t with worker := none }) (t0 := t) (by simpa [hpid] using ht')
      (by unfold preT; split <;> simp [bumpGen])
  · have : (detSt s t).ops = s.ops ∧ (detSt s t).streams = s.streams ∧ (detSt s t).cleanup = s.cleanup := by
      unfold detSt detachW; split <;> (try split) <;> exact ⟨rfl, rfl, rfl⟩
    rw [this.1, this.2.1, this.2.2]; exact hI.sinv
  · have : (detSt s t).events = s.events ∧ (detSt s t).nextLearner = s.nextLearner ∧
        (detSt s t).tasks = aset ({ preT t with worker := none } : Task).id { preT t with worker := none } s.tasks := by
      unfold detSt detachW; split <;> (try split) <;> exact ⟨rfl, rfl, rfl⟩
    rw [this.1, this.2.1, this.2.2]
    exact hI.linv.setTask (t := { preT t with worker := none }) (t0 := t) (by simpa [hpid] using ht')
      (Or.inl (by unfold preT; split <;> simp [bumpGen]))

/-- the state `finalize` produces before `finishOps` -/
def finSt0 (s : State) (t : Task) (r : Resp) : State :=
  { s with dedup := if alookup t.dkey s.dedup = some t.id then aerase t.dkey s.dedup else s.dedup,
           tasks := aset t.id (bumpGen { t with response := some r }) s.tasks }

theorem finalize_eq (s : State) (t : Task) (r : Resp) :
    complete.finalize s t r = .ok (complete.finishOps (finSt0 s t r) t.ops) := by
  unfold complete.finalize finSt0
  by_cases hc : alookup t.dkey s.dedup = some t.id
  · simp only [hc, if_true]; rfl
  · simp only [hc, if_false]; rfl

theorem finSt0_setTask (s : State) (t0 t : Task) (r : Resp) (hid : t0.id = t.id) :
    finSt0 (s.setTask t0) t r = finSt0 s t r := by
  unfold finSt0
  simp only [State.setTask, hid, aset_aset]

/-- `Core` after the final completion of the exempt task `tid` -/
theorem finSt0_core {s : State} {tid : Nat} {t0 : Task}
    (hc : Core (fun k => k = tid) s.tasks s.workers s.dedup s.nextTask s.nextLearner)
    (h0 : alookup tid s.tasks = some t0) (hw : t0.worker = none) (hq : t0.queued = false) (r : Resp) :
    Core (fun _ => False) (finSt0 s { t0 with learner := none } r).tasks s.workers
      (finSt0 s { t0 with learner := none } r).dedup s.nextTask s.nextLearner := by
  have hid : t0.id = tid := (hc.tid tid t0 h0).1
  unfold finSt0
  core_facts hc
  simp only [bumpGen]
  split
  · constructor <;> grind
  · constructor <;> grind

/-- what the final completion does to the state -/
structure FinPost (s : State) (tid : Nat) (t0 : Task) (e : Event) (r : Resp) (s' : State) : Prop where
  same : ∃ ts dd os cl, s' = { s with tasks := ts, dedup := dd, ops := os, cleanup := cl, events := e :: s.events }
  tk : ∀ k, k ≠ tid → alookup k s'.tasks = alookup k s.tasks
  tt : ∃ t', alookup tid s'.tasks = some t' ∧ t'.response = some r ∧ t'.ops = t0.ops ∧ t'.worker = none
  opk : keys s'.ops = keys s.ops

theorem finalize_spec {exo} {s : State} {tid : Nat} {t0 : Task} {l : Nat} {e : Event}
    (hI : InvX (fun k => k = tid) exo s)
    (h0 : alookup tid s.tasks = some t0) (hw : t0.worker = none) (hq : t0.queued = false)
    (hl : t0.learner = some l) (het : ∀ l', isTerm l' e = (l' == l)) (hei : ∀ l', isIssue l' e = false)
    (r : Resp) :
    ∃ s', complete.finalize (emit s e) { t0 with learner := none } r = .ok s' ∧
      InvX (fun _ => False) exo s' ∧ FinPost s tid t0 e r s' := by
  have hid : t0.id = tid := (hI.core.tid tid t0 h0).1
  have h0' : alookup t0.id s.tasks = some t0 := by rw [hid]; exact h0
  rw [finalize_eq]
  -- the state before `finishOps`
  have hcore := finSt0_core hI.core h0 hw hq r
  have hoinv : OInv exo (finSt0 (emit s e) { t0 with learner := none } r).tasks s.ops s.nextOp :=
    hI.oinv.setTask (t := bumpGen { t0 with learner := none, response := some r }) (t0 := t0) h0' rfl
  have hlinv : LogInv (finSt0 (emit s e) { t0 with learner := none } r).tasks s.nextLearner (e :: s.events) := by
    refine hI.linv.terminal ⟨tid, t0, h0, hl⟩ het hei ?_
    intro l' hl'
    have hl'' : Held (aset t0.id (bumpGen { t0 with learner := none, response := some r }) s.tasks) l' := hl'
    rcases hl''.aset with h | ⟨k', t', hk, h1, h2⟩
    · simp [bumpGen] at h
    · refine ⟨⟨k', t', h1, h2⟩, ?_⟩
      intro e; subst e
      exact hk ((hI.core.l3 k' tid t' t0 l' h1 h0 h2 hl).trans hid.symm)
  obtain ⟨os, cl, he, hsim, hsinv⟩ := finishOps_frame (exo := exo) (ts := (finSt0 (emit s e) { t0 with learner := none } r).tasks)
    (no := s.nextOp) (finSt0 (emit s e) { t0 with learner := none } r) t0.ops hoinv
  refine ⟨_, congrArg Except.ok he, ⟨hcore, hoinv.sim hsim, hsinv hI.sinv, hlinv⟩, ⟨_, _, _, _, rfl⟩, ?_, ?_, hsim.1⟩
  · intro k hk; simp only [finSt0, emit]; grind
  · refine ⟨bumpGen { t0 with learner := none, response := some r }, ?_, rfl, rfl, hw⟩
    simp only [finSt0, emit]; grind

theorem Core.nl_mono {ex ts ws dd nt nl nl'} (h : Core ex ts ws dd nt nl) (hle : nl ≤ nl') :
    Core ex ts ws dd nt nl' :=
  { h with l2 := fun k t l h1 h2 => Nat.lt_of_lt_of_le (h.l2 k t l h1 h2) hle }

/-- the parts of the invariant that do not depend on the event log, after the final
completion of the exempt task -/
theorem finSt_parts {exo} {s : State} {tid : Nat} {t0 : Task} (e : Event)
    (hI : InvX (fun k => k = tid) exo s)
    (h0 : alookup tid s.tasks = some t0) (hw : t0.worker = none) (hq : t0.queued = false) (r : Resp) :
    ∃ s', complete.finalize (emit s e) { t0 with learner := none } r = .ok s' ∧
      Core (fun _ => False) s'.tasks s'.workers s'.dedup s'.nextTask s'.nextLearner ∧
      OInv exo s'.tasks s'.ops s'.nextOp ∧ SInv s'.ops s'.streams s'.cleanup ∧
      FinPost s tid t0 e r s' ∧
      s'.tasks = aset t0.id (bumpGen { t0 with learner := none, response := some r }) s.tasks := by
  have hid : t0.id = tid := (hI.core.tid tid t0 h0).1
  have h0' : alookup t0.id s.tasks = some t0 := by rw [hid]; exact h0
  rw [finalize_eq]
  have hcore := finSt0_core hI.core h0 hw hq r
  have hoinv : OInv exo (finSt0 (emit s e) { t0 with learner := none } r).tasks s.ops s.nextOp :=
    hI.oinv.setTask (t := bumpGen { t0 with learner := none, response := some r }) (t0 := t0) h0' rfl
  obtain ⟨os, cl, he, hsim, hsinv⟩ := finishOps_frame (exo := exo) (ts := (finSt0 (emit s e) { t0 with learner := none } r).tasks)
    (no := s.nextOp) (finSt0 (emit s e) { t0 with learner := none } r) t0.ops hoinv
  refine ⟨_, congrArg Except.ok he, hcore, hoinv.sim hsim, hsinv hI.sinv, ⟨⟨_, _, _, _, rfl⟩, ?_, ?_, hsim.1⟩, rfl⟩
  · intro k hk; simp only [finSt0, emit]; grind
  · refine ⟨bumpGen { t0 with learner := none, response := some r }, ?_, rfl, rfl, hw⟩
    simp only [finSt0, emit]; grind

/-- the background-learning part of the success branch -/
def bgPart (h : Hints) (s : State) (t : Task) (bgIdx : Nat) : M State := do
      let bl := s.nextLearner
      let s := { s with nextLearner := bl + 1 }
      let some pq := s.pq? t.scq.pq | throw "complete: no platform queue"
      if pq.bgMax = 0 then return emit s (.learnerAbandoned bl)
      let sizes := s.sizes t.scq.pq
      let some bsc := sizes[min bgIdx (sizes.length - 1)]? | throw "platform queue without size classes"
      let bq : ScqId := ⟨t.scq.pq, bsc⟩
      if countQueuedBackground s bq ≥ pq.bgMax then return emit s (.learnerAbandoned bl)
      let opn := s.nextOp
      let bt : Task := { id := s.nextTask, digest := t.digest, dkey := t.dkey, doNotCache := true, scq := bq, ops := [opn], worker := none, retry := 0, response := none, gen := 0, learner := some bl, background := true, queued := false }
      let bo : Op := { name := opn, task := bt.id, inv := [0], prio := pq.bgPrio, waiters := 0, mayExistWithoutWaiters := true }
      let s := { s with nextTask := s.nextTask + 1, nextOp := opn + 1 }
      let s := (s.setTask bt).setOp bo
      schedule h s bt.id

theorem completeOk_eq (h : Hints) (s : State) (t : Task) (r : Resp) (l : Nat) :
    completeOk h s t r l =
      (complete.finalize (emit s (.learnerSucceeded l (if h.bg.isSome then some s.nextLearner else none)))
        { t with learner := none } r >>= fun s' =>
        match h.bg with
        | none => pure s'
        | some bgIdx => bgPart h s' (bumpGen { t with learner := none, response := some r }) bgIdx) := by
  rw [finalize_eq]
  unfold completeOk finSt0
  simp only [ok_bind']
  by_cases hc : alookup t.dkey s.dedup = some t.id
  · simp only [emit, hc, if_true]; rfl
  · simp only [emit, hc, if_false]; rfl


def bgTask (Y : State) (t : Task) (bq : ScqId) : Task :=
  { id := Y.nextTask, digest := t.digest, dkey := t.dkey, doNotCache := true, scq := bq,
    ops := [Y.nextOp], worker := none, retry := 0, response := none, gen := 0,
    learner := some Y.nextLearner, background := true, queued := false }

def bgOp (Y : State) (prio : Int) : Op :=
  { name := Y.nextOp, task := Y.nextTask, inv := [0], prio := prio, waiters := 0,
    mayExistWithoutWaiters := true }

/-- the state in which the background task and its operation have been created -/
def bgSt (Y : State) (t : Task) (bq : ScqId) (prio : Int) : State :=
  { Y with nextLearner := Y.nextLearner + 1, nextTask := Y.nextTask + 1, nextOp := Y.nextOp + 1,
           tasks := aset Y.nextTask (bgTask Y t bq) Y.tasks,
           ops := aset Y.nextOp (bgOp Y prio) Y.ops }

/-- frame of the background part -/
structure BgPost (Y s' : State) : Prop where
  fr : Fr Y s'
  rw : RW Y s'
  wex : ∀ q w, (wfind s'.workers q w).isSome = (wfind Y.workers q w).isSome
  tk : ∀ k, k < Y.nextTask → alookup k s'.tasks = alookup k Y.tasks
  sts : s'.streams = Y.streams
  opk : ∀ k, k < Y.nextOp → (alookup k s'.ops).isSome = (alookup k Y.ops).isSome

theorem bgSt_inv {exo} {Y : State} {t : Task} {bq : ScqId} {prio : Int}
    (hc : Core (fun _ => False) Y.tasks Y.workers Y.dedup Y.nextTask Y.nextLearner)
    (ho : OInv exo Y.tasks Y.ops Y.nextOp) (hs : SInv Y.ops Y.streams Y.cleanup)
    (hlog : ∀ ts', (∀ l', Held ts' l' → Held Y.tasks l' ∨ l' = Y.nextLearner) →
      LogInv ts' (Y.nextLearner + 1) Y.events) :
    InvX (fun k => k = Y.nextTask) exo (bgSt Y t bq prio) := by
  refine ⟨?_, ?_, ?_, ?_⟩
  · simp only [bgSt, bgTask]
    core_facts hc
    constructor <;> grind
  · simp only [bgSt]
    have := ho.ond; have := ho.oid; have := ho.o1; have := ho.o2; have := ho.o3; have := hc.tid
    constructor
    · grind
    · grind [bgOp]
    · intro k o; rw [alookup_aset]; split
      · rename_i hk; intro e; cases e
        exact ⟨bgTask Y t bq, by rw [alookup_aset]; simp [bgOp], by simp [bgTask, hk]⟩
      · intro hk
        obtain ⟨t', h1, h2⟩ := ho.o1 k o hk
        have hne : ¬ Y.nextTask = o.task := by have := hc.tid _ _ h1; omega
        exact ⟨t', by rw [alookup_aset, if_neg hne]; exact h1, h2⟩
    · intro k t' o; rw [alookup_aset]; split
      · rename_i hk; intro e; cases e; intro hm
        simp only [bgTask, List.mem_singleton] at hm; subst hm
        exact ⟨by omega, Or.inr ⟨bgOp Y prio, by rw [alookup_aset]; simp, hk⟩⟩
      · intro hk hm
        obtain ⟨a, b⟩ := ho.o2 k t' o hk hm
        refine ⟨by omega, ?_⟩
        rcases b with b | ⟨op, e1, e2⟩
        · exact Or.inl b
        · right; exact ⟨op, by rw [alookup_aset, if_neg (by omega)]; exact e1, e2⟩
    · intro k t'; rw [alookup_aset]; split
      · intro e; cases e; simp [bgTask]
      · exact ho.o3 k t'
  · simp only [bgSt]
    have := ho.oid
    constructor
    · intro k op; rw [alookup_aset]; split
      · intro e; cases e
        rename_i hk; subst hk
        simp only [bgOp, Nat.le_zero_eq, List.countP_eq_zero]
        intro st hst
        have h3 := hs.s3 st hst
        cases ha : alookup st.op Y.ops with
        | none => simp [ha] at h3
        | some op => have := (ho.oid _ _ ha).2; simp; omega
      · exact hs.s1 k op
    · intro k op e; rw [alookup_aset]; split
      · intro e'; cases e'; intros; rfl
      · exact hs.s2 k op e
    · intro st hst; have := hs.s3 st hst; rw [alookup_aset]; split <;> simp_all
  · simp only [bgSt]
    apply hlog
    intro l' hl'
    rcases hl'.aset with h | ⟨k', t', _, h1, h2⟩
    · right; simpa [bgTask] using h.symm
    · left; exact ⟨k', t', h1, h2⟩


theorem bgSt_fr (Y : State) (t : Task) (bq : ScqId) (prio : Int) : Fr Y (bgSt Y t bq prio) := by
  refine ⟨⟨rfl, Nat.le_succ _, Nat.le_succ _, Nat.le_succ _, ?_, Ext.refl _ _⟩, Ext.refl _ _⟩
  intro k hk
  refine ⟨Nat.lt_succ_of_lt hk.1, ?_⟩
  intro t'
  simp only [bgSt]
  rw [alookup_aset, if_neg (by have := hk.1; omega)]
  exact hk.2 t'

theorem abandon_post (Y : State) :
    BgPost Y (emit { Y with nextLearner := Y.nextLearner + 1 } (.learnerAbandoned Y.nextLearner)) := by
  refine ⟨⟨⟨rfl, Nat.le_refl _, Nat.le_succ _, Nat.le_refl _, fun k hk => hk, Ext.refl _ _⟩, ?_⟩,
    RW.refl Y, fun _ _ => rfl, fun _ _ => rfl, rfl, fun _ _ => rfl⟩
  exact Ext.cons (Ext.refl _ _) _ trivial

theorem bgPart_spec {exo} {h : Hints} {Y : State} {t : Task} {bgIdx : Nat}
    (hc : Core (fun _ => False) Y.tasks Y.workers Y.dedup Y.nextTask Y.nextLearner)
    (ho : OInv exo Y.tasks Y.ops Y.nextOp) (hs : SInv Y.ops Y.streams Y.cleanup)
    (hlog : ∀ ts', (∀ l', Held ts' l' → Held Y.tasks l' ∨ l' = Y.nextLearner) →
      LogInv ts' (Y.nextLearner + 1) Y.events)
    (hab : LogInv Y.tasks (Y.nextLearner + 1) (.learnerAbandoned Y.nextLearner :: Y.events)) :
    wp (bgPart h Y t bgIdx) (fun s' => InvX (fun _ => False) (exo) s' ∧ BgPost Y s') := by
  have hA : InvX (fun _ => False) exo
      (emit { Y with nextLearner := Y.nextLearner + 1 } (.learnerAbandoned Y.nextLearner)) :=
    ⟨hc.nl_mono (Nat.le_succ _), ho, hs, hab⟩
  unfold bgPart
  simp only []
  split
  · rename_i pq hpq
    split
    · exact ⟨hA, abandon_post Y⟩
    · split
      · rename_i bsc hbsc
        split
        · exact ⟨hA, abandon_post Y⟩
        · have hZ := bgSt_inv (t := t) (bq := ⟨t.scq.pq, bsc⟩) (prio := pq.bgPrio) hc ho hs hlog
          have ht : alookup Y.nextTask (bgSt Y t ⟨t.scq.pq, bsc⟩ pq.bgPrio).tasks = some (bgTask Y t ⟨t.scq.pq, bsc⟩) := by
            simp only [bgSt]; rw [alookup_aset]; simp
          have hsp := schedule_spec (h := h) hZ ht rfl rfl
          refine wp_mono hsp ?_
          intro s' ⟨hI', hp⟩
          refine ⟨hI'.mono (fun k hk => hk.2 hk.1) (fun _ h => h), ?_⟩
          obtain ⟨ws, ts, asg, he⟩ := hp.same
          refine ⟨(bgSt_fr Y t _ _).trans (hp.fr ht rfl), ?_, hp.wex, ?_, by rw [he]; rfl, ?_⟩
          · exact RW.trans (RW.refl Y) hp.rw
          · intro k hk
            rw [hp.tk k (by omega)]
            simp only [bgSt]
            rw [alookup_aset, if_neg (by omega)]
          · intro k hk
            rw [he]
            simp only [bgSt]
            rw [alookup_aset, if_neg (by omega)]
      · okerr
  · okerr

/-- frame of the branches of `complete`, relative to the detached state -/
structure ContPost (s : State) (tid : Nat) (t0 : Task) (s' : State) : Prop where
  fr : Fr s s'
  rw : RW s s'
  wex : ∀ q w, (wfind s'.workers q w).isSome = (wfind s.workers q w).isSome
  tk : ∀ k, k ≠ tid → k < s.nextTask → alookup k s'.tasks = alookup k s.tasks
  tt : ∃ t', alookup tid s'.tasks = some t' ∧ t'.ops = t0.ops ∧
        ∀ q w, t'.worker = some (q, w) → ∃ wk, wfind s.workers q w = some wk ∧ wk.parked = true
  sts : s'.streams = s.streams
  opk : ∀ k, k < s.nextOp → (alookup k s'.ops).isSome = (alookup k s.ops).isSome

/-- task `tid` is completed in `s` -/
def TDone (s : State) (tid : Nat) : Prop := ∀ t', alookup tid s.tasks = some t' → t'.response.isSome = true

theorem FinPost.cont {s Y : State} {tid : Nat} {t0 : Task} {e : Event} {r : Resp}
    (h : FinPost s tid t0 e r Y) (h0 : alookup tid s.tasks = some t0) (hr : t0.response = none)
    (hq : Quiet e) : ContPost s tid t0 Y ∧ TDone Y tid := by
  obtain ⟨ts, dd, os, cl, he⟩ := h.same
  obtain ⟨t', h1, h2, h3, h4⟩ := h.tt
  have htk := h.tk
  have hopk := h.opk
  subst he
  refine ⟨⟨⟨⟨rfl, Nat.le_refl _, Nat.le_refl _, Nat.le_refl _, ?_, Ext.refl _ _⟩, ?_⟩, RW.refl s,
    fun _ _ => rfl, fun k hk _ => htk k hk, ⟨t', h1, h3, ?_⟩, rfl, ?_⟩, ?_⟩
  · intro k hk
    by_cases hkt : k = tid
    · subst hkt; have := hk.2 t0 h0; simp [hr] at this
    · refine ⟨hk.1, ?_⟩
      have := htk k hkt
      simp only at this ⊢
      rw [this]; exact hk.2
  · exact Ext.cons (Ext.refl _ _) _ hq
  · intro q w hqw; rw [h4] at hqw; cases hqw
  · intro k _
    have a := alookup_isSome_iff k os
    have b := alookup_isSome_iff k s.ops
    simp only at hopk ⊢
    rw [hopk] at a
    exact Bool.eq_iff_iff.mpr (a.trans b.symm)
  · intro t'' h1'; rw [h1] at h1'; cases h1'; simp [h2]

theorem ContPost.trans_bg {s Y s' : State} {tid : Nat} {t0 : Task} (h1 : ContPost s tid t0 Y)
    (h2 : BgPost Y s') (hnt : Y.nextTask = s.nextTask) (hno : Y.nextOp = s.nextOp) (hlt : tid < s.nextTask) :
    ContPost s tid t0 s' := by
  obtain ⟨t', a, b, c⟩ := h1.tt
  refine ⟨h1.fr.trans h2.fr, h1.rw.trans h2.rw, fun q w => (h2.wex q w).trans (h1.wex q w), ?_, ?_,
    h2.sts.trans h1.sts, fun k hk => (h2.opk k (by omega)).trans (h1.opk k hk)⟩
  · intro k hk hlt'
    rw [h2.tk k (by omega), h1.tk k hk hlt']
  · exact ⟨t', by rw [h2.tk tid (by omega)]; exact a, b, c⟩

theorem TDone.trans_bg {Y s' : State} {tid : Nat} (h1 : TDone Y tid) (h2 : BgPost Y s')
    (hlt : tid < Y.nextTask) : TDone s' tid := by
  intro t' ht'; rw [h2.tk tid hlt] at ht'; exact h1 t' ht'

/-- holders after the final completion of `tid` (which held `l`) -/
theorem held_fin {ex} {s : State} {tid : Nat} {t0 t1 : Task} {l : Nat}
    (hc : Core ex s.tasks s.workers s.dedup s.nextTask s.nextLearner)
    (h0 : alookup tid s.tasks = some t0) (hl : t0.learner = some l) (h1 : t1.learner = none) :
    ∀ l', Held (aset tid t1 s.tasks) l' → Held s.tasks l' ∧ l' ≠ l := by
  intro l' hl'
  rcases hl'.aset with h | ⟨k', t', hk, h2, h3⟩
  · rw [h1] at h; cases h
  · refine ⟨⟨k', t', h2, h3⟩, ?_⟩
    intro e; subst e
    exact hk (hc.l3 k' tid t' t0 l' h2 h0 h3 hl)

theorem completeOk_spec {exo} {h : Hints} {s : State} {tid : Nat} {t0 : Task} {l : Nat} {r : Resp}
    (hI : InvX (fun k => k = tid) exo s)
    (h0 : alookup tid s.tasks = some t0) (hr : t0.response = none) (hw : t0.worker = none)
    (hq : t0.queued = false) (hl : t0.learner = some l) :
    wp (completeOk h s t0 r l) (fun s' => InvX (fun _ => False) exo s' ∧ ContPost s tid t0 s' ∧ TDone s' tid) := by
  have hid : t0.id = tid := (hI.core.tid tid t0 h0).1
  have hlt : tid < s.nextTask := (hI.core.tid tid t0 h0).2
  have hll : l < s.nextLearner := hI.core.l2 tid t0 l h0 hl
  rw [completeOk_eq]
  cases hbg : h.bg with
  | none =>
    simp only [Option.isSome_none, Bool.false_eq_true, if_false]
    obtain ⟨Y, hY, hIY, hfp⟩ := finalize_spec (e := .learnerSucceeded l none) hI h0 hw hq hl
      (by intro l'; simp) (by intro l'; simp) r
    rw [hY]
    simp only [ok_bind', wp_pure]
    have := hfp.cont h0 hr trivial
    exact ⟨hIY, this.1, this.2⟩
  | some bgIdx =>
    simp only [Option.isSome_some, if_true]
    obtain ⟨Y, hY, hcY, hoY, hsY, hfp, htasks⟩ :=
      finSt_parts (.learnerSucceeded l (some s.nextLearner)) hI h0 hw hq r
    rw [hY]
    simp only [ok_bind']
    have hcont := hfp.cont h0 hr trivial
    obtain ⟨ts, dd, os, cl, he⟩ := hfp.same
    have hev : Y.events = .learnerSucceeded l (some s.nextLearner) :: s.events := by rw [he]
    have hnl : Y.nextLearner = s.nextLearner := by rw [he]
    have hnt : Y.nextTask = s.nextTask := by rw [he]
    have hno : Y.nextOp = s.nextOp := by rw [he]
    have htasks' : Y.tasks = aset tid (bumpGen { t0 with learner := none, response := some r }) s.tasks := by
      rw [htasks]; exact congrArg (fun k => aset k _ s.tasks) hid
    have hheld := held_fin (t1 := bumpGen { t0 with learner := none, response := some r }) hI.core h0 hl rfl
    rw [← htasks'] at hheld
    have hlog : ∀ ts', (∀ l', Held ts' l' → Held Y.tasks l' ∨ l' = Y.nextLearner) →
        LogInv ts' (Y.nextLearner + 1) Y.events := by
      intro ts' hts'
      rw [hev, hnl]
      refine hI.linv.term_issue ⟨tid, t0, h0, hl⟩ hll (by intro l'; simp)
        (by intro l'; simp) ?_
      intro l' hl'
      rcases hts' l' hl' with a | a
      · exact Or.inl (hheld l' a)
      · exact Or.inr (a.trans hnl)
    have hab : LogInv Y.tasks (Y.nextLearner + 1) (.learnerAbandoned Y.nextLearner :: Y.events) := by
      refine (hlog Y.tasks (fun l' h => Or.inl h)).abandon_unheld ?_ ?_ ?_
      · rw [hev, hnl, issueCount_cons, hI.linv.g4 _ (Nat.le_refl _)]; simp
      · have h1 := hI.linv.g1 s.nextLearner
        rw [hI.linv.g4 _ (Nat.le_refl _)] at h1
        have : ¬ s.nextLearner = l := by omega
        rw [hev, hnl, termCount_cons]; simp [this]; omega
      · intro hh
        obtain ⟨⟨k', t', a, b⟩, _⟩ := hheld _ hh
        have := hI.core.l2 k' t' _ a b
        omega
    refine wp_mono (bgPart_spec (h := h) (t := bumpGen { t0 with learner := none, response := some r })
      (bgIdx := bgIdx) hcY hoY hsY hlog hab) ?_
    intro s' ⟨hI', hbp⟩
    exact ⟨hI', hcont.1.trans_bg hbp hnt hno hlt, hcont.2.trans_bg hbp (by omega)⟩

theorem Fr.of_fields {s s' : State} (hcfg : s'.cfg = s.cfg) (hnt : s.nextTask ≤ s'.nextTask)
    (hnl : s.nextLearner ≤ s'.nextLearner) (hno : s.nextOp ≤ s'.nextOp) (hasg : s'.assigned = s.assigned)
    (hev : Ext Quiet s.events s'.events)
    (hdead : ∀ k, Dead s.tasks s.nextTask k → ∀ t, alookup k s'.tasks = some t → t.response.isSome = true) :
    Fr s s' :=
  ⟨⟨hcfg, hnt, hnl, hno, fun k hk => ⟨Nat.lt_of_lt_of_le hk.1 hnt, hdead k hk⟩, by rw [hasg]; exact Ext.refl _ _⟩, hev⟩

theorem finBranch_spec {exo} {s : State} {tid : Nat} {t0 : Task} {l : Nat} {e : Event}
    (hI : InvX (fun k => k = tid) exo s)
    (h0 : alookup tid s.tasks = some t0) (hr : t0.response = none) (hw : t0.worker = none)
    (hq : t0.queued = false) (hl : t0.learner = some l)
    (he : e = .learnerAbandoned l ∨ ∃ b, e = .learnerFailed l b none) (r : Resp) :
    ∃ s', complete.finalize (emit s e) { t0 with learner := none } r = .ok s' ∧
      InvX (fun _ => False) exo s' ∧ ContPost s tid t0 s' ∧ TDone s' tid ∧
      s'.nextTask = s.nextTask ∧ s'.nextOp = s.nextOp := by
  have het : ∀ l', isTerm l' e = (l' == l) := by
    rcases he with he | ⟨b, he⟩ <;> subst he <;> intro l' <;> simp
  have hei : ∀ l', isIssue l' e = false := by
    rcases he with he | ⟨b, he⟩ <;> subst he <;> intro l' <;> simp
  have hqe : Quiet e := by
    rcases he with he | ⟨b, he⟩ <;> subst he <;> trivial
  obtain ⟨Y, hY, hIY, hfp⟩ := finalize_spec hI h0 hw hq hl het hei r
  have := hfp.cont h0 hr hqe
  obtain ⟨ts, dd, os, cl, hs⟩ := hfp.same
  exact ⟨Y, hY, hIY, this.1, this.2, by rw [hs], by rw [hs]⟩

/-- the state handed to `schedule` by the retry branch -/
def retrySt (s : State) (t0 : Task) (l : Nat) (r : Resp) : State :=
  (emit { s with nextLearner := s.nextLearner + 1 }
      (.learnerFailed l (r.code = cDeadlineExceeded) (some s.nextLearner))).setTask
    { t0 with learner := some s.nextLearner,
              scq := largestScq (emit { s with nextLearner := s.nextLearner + 1 }
                (.learnerFailed l (r.code = cDeadlineExceeded) (some s.nextLearner))) t0.scq }

def retryTask (s : State) (t0 : Task) (l : Nat) (r : Resp) : Task :=
    { t0 with learner := some s.nextLearner,
              scq := largestScq (emit { s with nextLearner := s.nextLearner + 1 }
                (.learnerFailed l (r.code = cDeadlineExceeded) (some s.nextLearner))) t0.scq }

theorem completeRetry_eq (h : Hints) (s : State) (t0 : Task) (r : Resp) (l : Nat) :
    completeRetry h s t0 r l = (schedule h (retrySt s t0 l r) t0.id >>= fun s3 => do
      let some t := s3.task? t0.id | throw "complete: task vanished"
      return s3.setTask (bumpGen t)) := by
  unfold completeRetry retrySt
  rfl

theorem retrySt_inv {exo} {s : State} {tid : Nat} {t0 : Task} {l : Nat} (r : Resp)
    (hI : InvX (fun k => k = tid) exo s)
    (h0 : alookup tid s.tasks = some t0) (hl : t0.learner = some l) :
    InvX (fun k => k = tid) exo (retrySt s t0 l r) := by
  have hid : t0.id = tid := (hI.core.tid tid t0 h0).1
  have h0' : alookup t0.id s.tasks = some t0 := by rw [hid]; exact h0
  have hll : l < s.nextLearner := hI.core.l2 tid t0 l h0 hl
  have hc := hI.core
  refine ⟨?_, ?_, hI.sinv, ?_⟩
  · simp only [retrySt, State.setTask, emit]
    core_facts hc
    constructor
    case l3 => clear h_p1 h_p2 h_p3 h_q1 h_q2 h_d1 h_d2 h_bg h_l1 h_w1 h_w2 h_w3 hI hc; grind
    all_goals grind
  · exact hI.oinv.setTask (t := retryTask s t0 l r) h0' rfl
  · simp only [retrySt, State.setTask, emit]
    refine hI.linv.term_issue ⟨tid, t0, h0, hl⟩ hll (by intro l'; simp) (by intro l'; simp) ?_
    intro l' hl'
    rcases hl'.aset with h | ⟨k', t', hk, h2, h3⟩
    · right; simpa using h.symm
    · left
      refine ⟨⟨k', t', h2, h3⟩, ?_⟩
      intro e; subst e
      exact hk ((hc.l3 k' tid t' t0 l' h2 h0 h3 hl).trans hid.symm)

theorem retrySt_fr {s : State} {tid : Nat} {t0 : Task} (l : Nat) (r : Resp)
    (h0 : alookup tid s.tasks = some t0) (hid : t0.id = tid) (hr : t0.response = none) :
    Fr s (retrySt s t0 l r) := by
  refine Fr.of_fields rfl (Nat.le_refl _) (Nat.le_succ _) (Nat.le_refl _) rfl
    (Ext.cons (Ext.refl _ _) _ trivial) ?_
  intro k hk t
  simp only [retrySt, State.setTask, emit]
  rw [alookup_aset]
  split
  · rename_i hkk
    rw [hid] at hkk; subst hkk
    have := hk.2 t0 h0; simp [hr] at this
  · exact hk.2 t

/-- replacing a task by one with the same response -/
theorem Fr.setTask {s : State} {t t0 : Task} (h0 : alookup t.id s.tasks = some t0)
    (hr : t.response = t0.response) : Fr s (s.setTask t) := by
  refine Fr.of_fields rfl (Nat.le_refl _) (Nat.le_refl _) (Nat.le_refl _) rfl (Ext.refl _ _) ?_
  intro k hk t'
  simp only [State.setTask]
  rw [alookup_aset]
  split
  · rename_i hkk; subst hkk
    intro e; cases e
    rw [hr]; exact hk.2 t0 h0
  · exact hk.2 t'

set_option maxHeartbeats 800000 in
theorem completeRetry_spec {exo} {h : Hints} {s : State} {tid : Nat} {t0 : Task} {l : Nat} {r : Resp}
    (hI : InvX (fun k => k = tid) exo s)
    (h0 : alookup tid s.tasks = some t0) (hr : t0.response = none) (hw : t0.worker = none)
    (hl : t0.learner = some l) :
    wp (completeRetry h s t0 r l) (fun s' => InvX (fun _ => False) exo s' ∧ ContPost s tid t0 s' ∧
      s'.nextTask = s.nextTask ∧ s'.nextOp = s.nextOp ∧
      ∃ t', alookup tid s'.tasks = some t' ∧ t'.learner = some s.nextLearner ∧
        t'.scq = largestScq s t0.scq ∧ t'.response = none) := by
  have hid : t0.id = tid := (hI.core.tid tid t0 h0).1
  have hI2 := retrySt_inv r hI h0 hl
  have ht2 : alookup tid (retrySt s t0 l r).tasks = some (retryTask s t0 l r) := by
    simp only [retrySt, State.setTask, emit, retryTask]; rw [alookup_aset, hid]; simp
  rw [completeRetry_eq, hid]
  apply wp_bind
  refine wp_mono (schedule_spec (h := h) hI2 ht2 hr hw) ?_
  intro s3 ⟨hI3, hp⟩
  obtain ⟨t3, ht3, he3, _, hprov⟩ := hp.tt
  simp only [task?_def, ht3, wp_pure]
  have hid3 : t3.id = tid := by rw [he3]; exact hid
  have ht3' : alookup (bumpGen t3).id s3.tasks = some t3 := by simp only [bumpGen]; rw [hid3]; exact ht3
  have hI3' : InvX (fun _ => False) exo s3 := hI3.mono (fun k hk => hk.2 hk.1) (fun _ h => h)
  obtain ⟨ws, ts, asg, hs3⟩ := hp.same
  refine ⟨bumpGen_inv hI3' ht3, ?_, by rw [hs3]; rfl, by rw [hs3]; rfl,
    ⟨bumpGen t3, by simp only [State.setTask, bumpGen]; rw [alookup_aset, if_pos hid3],
      by rw [he3]; rfl, by rw [he3]; rfl, by rw [he3]; exact hr⟩⟩
  · have hfr : Fr s (s3.setTask (bumpGen t3)) :=
      ((retrySt_fr l r h0 hid hr).trans (hp.fr ht2 hr)).trans (Fr.setTask (t := bumpGen t3) ht3' rfl)
    refine ⟨hfr, ?_, ?_, ?_, ?_, by rw [hs3]; rfl, fun k _ => by rw [hs3]; rfl⟩
    · exact RW.trans (RW.trans (RW.refl s) hp.rw) (RW.refl s3)
    · exact hp.wex
    · intro k hk _
      simp only [State.setTask, bumpGen]
      rw [alookup_aset, if_neg (by rw [hid3]; exact fun e => hk e.symm), hp.tk k hk]
      simp only [retrySt, State.setTask, emit]
      rw [alookup_aset, if_neg (by rw [hid]; exact fun e => hk e.symm)]
    · refine ⟨bumpGen t3, ?_, ?_, ?_⟩
      · simp only [State.setTask, bumpGen]; rw [alookup_aset, if_pos hid3]
      · rw [he3]; rfl
      · intro q w hqw; exact hprov q w hqw

end BbRe.Lemmas.SchedInv
