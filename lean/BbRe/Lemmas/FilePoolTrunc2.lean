import BbRe.Lemmas.FilePoolTrunc
/-!
`Truncate` on `content`: success refines the byte-array truncate; every path
keeps `FileOK` and leaves the sectors of other files alone.
-/
namespace BbRe.Lemmas.FilePool
open BbRe.FilePool

theorem trunc_arith (ss sz i : Nat) (hss : 0 < ss) :
    (i / ss < truncK ⟨ss, 0⟩ sz → i < sz ∨ (sz % ss ≠ 0 ∧ i / ss = sz / ss)) ∧
      (¬ i / ss < truncK ⟨ss, 0⟩ sz → sz ≤ i) ∧ (i < sz → i / ss < truncK ⟨ss, 0⟩ sz) ∧
      (i / ss = sz / ss → i < sz + (ss - sz % ss)) := by
  unfold truncK
  dsimp only
  have hi := div_mul_mod i ss
  have hs := div_mul_mod sz ss
  have hmi := Nat.mod_lt i hss
  have hms := Nat.mod_lt sz hss
  generalize i / ss = q at *
  generalize sz / ss = idx at *
  refine ⟨fun h => ?_, fun h => ?_, fun h => ?_, fun h => ?_⟩
  · split at h
    · left
      have := Nat.mul_le_mul_right ss (show q + 1 ≤ idx by omega)
      rw [Nat.add_mul, Nat.one_mul] at this; omega
    · by_cases hq : q = idx
      · right; rename_i hne; exact ⟨hne, hq⟩
      · left
        have := Nat.mul_le_mul_right ss (show q + 1 ≤ idx by omega)
        rw [Nat.add_mul, Nat.one_mul] at this; omega
  · split at h
    · have := Nat.mul_le_mul_right ss (show idx ≤ q by omega); omega
    · have := Nat.mul_le_mul_right ss (show idx + 1 ≤ q by omega)
      rw [Nat.add_mul, Nat.one_mul] at this; omega
  · have h1 : q * ss < (idx + 1) * ss := by rw [Nat.add_mul, Nat.one_mul]; omega
    have h2 := lt_of_mul_lt h1
    split
    · rename_i h0
      have h3 : q * ss < idx * ss := by omega
      exact lt_of_mul_lt h3
    · exact h2
  · rw [h] at hi; omega

theorem truncateSectors_env (f : File) (e : Env) (k : Nat) :
    (truncateSectors f e k).2.dev = e.dev ∧ (truncateSectors f e k).1.hole = f.hole ∧
      (truncateSectors f e k).1.size = f.size := by
  unfold truncateSectors; split <;> exact ⟨rfl, rfl, rfl⟩

/-- contents after the zeroing write and dropping sectors, with hole source `h'`. -/
theorem trunc_keep_content (c : Cfg) (f : File) (e : Env) (k : Nat) (h' : Hole) (sz' : Nat) (cl : Bool) (i : Nat) :
    content c.ss e.dev { sectors := (truncateSectors f e k).1.sectors, size := sz', hole := h', closed := cl } i =
      if i / c.ss < k then (if f.sectors.getD (i / c.ss) 0 = 0 then h'.read i else content c.ss e.dev f i)
      else h'.read i := by
  unfold content
  dsimp only
  rw [truncateSectors_getD]
  split
  · split
    · rfl
    · rfl
  · rw [if_pos rfl]

/-- The heart of `Truncate`: what the surviving contents are, given the zeroing
effect `cz` and the hole source `h'` in force afterwards. -/
theorem trunc_core (c : Cfg) (f : File) (sz m : Nat) (hss : 0 < c.ss) (base cz : Nat → Byte) (h' : Hole)
    (hcz : ∀ i, cz i = if zeroCond c f sz ∧ sz ≤ i ∧ i < sz + m then 0 else base i)
    (hbase0 : ∀ i, f.sectors.getD (i / c.ss) 0 = 0 → base i = f.hole.read i)
    (hZ : ∀ i, f.size ≤ i → base i = 0)
    (hm : zeroCond c f sz → m = min (c.ss - sz % c.ss) (f.size - sz))
    (hh1 : ∀ i, i < sz → h'.read i = f.hole.read i) (hh2 : ∀ i, sz ≤ i → h'.read i = 0) (i : Nat) :
    (if i / c.ss < truncK c sz then (if f.sectors.getD (i / c.ss) 0 = 0 then h'.read i else cz i) else h'.read i) =
      if i < sz then base i else 0 := by
  obtain ⟨a1, a2, a3, a4⟩ := trunc_arith c.ss sz i hss
  have hk : truncK ⟨c.ss, 0⟩ sz = truncK c sz := rfl
  rw [hk] at a1 a2 a3
  by_cases hi : i < sz
  · rw [if_pos hi, if_pos (a3 hi)]
    split
    · rename_i h0; rw [hh1 i hi, hbase0 i h0]
    · rw [hcz, if_neg (by omega)]
  · rw [if_neg hi]
    split
    · rename_i hq
      split
      · exact hh2 i (by omega)
      · rename_i hne
        rcases a1 hq with h1 | ⟨h1, h2⟩
        · omega
        · rw [hcz]
          split
          · rfl
          · rename_i hnz
            by_cases hsz : sz < f.size
            · have hzc : zeroCond c f sz := by
                refine ⟨h1, hsz, ?_, by rw [← h2]; exact hne⟩
                rcases Nat.lt_or_ge (sz / c.ss) f.sectors.length with hl | hl
                · exact hl
                · exfalso; apply hne
                  simp [List.getD_eq_getElem?_getD, List.getElem?_eq_none (show f.sectors.length ≤ i / c.ss by omega)]
              have hmm := hm hzc
              have := a4 h2
              apply hZ
              have : ¬ (sz ≤ i ∧ i < sz + m) := fun hc => hnz ⟨hzc, hc⟩
              omega
            · exact hZ i (by omega)
    · exact hh2 i (by omega)

end BbRe.Lemmas.FilePool
