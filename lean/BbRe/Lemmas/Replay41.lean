import BbRe.Model.Replay41
/-! Invariant of the NFSv4.1 replay model (`Model/Replay41.lean`) and the helper
lemmas the C19 theorems rest on. -/
namespace BbRe.Lemmas.Replay41
open BbRe.Replay41

/-- Requests whose execution was started on (sid, slot), in order. -/
def execsOn (es : List (Nat × Req)) (sid slot : Nat) : List Req :=
  (es.filter (fun e => e.2.sess == sid && e.2.slot == slot)).map (·.2)

/-- `1, 2, …, n` as `uint32` sequence ids. -/
def seqsTo (n : Nat) : List Nat := (List.range n).map (fun k => (k + 1) % M)

theorem execsOn_nil (sid slot : Nat) : execsOn [] sid slot = [] := rfl

theorem execsOn_append_same (es : List (Nat × Req)) (c : Nat) (r : Req) :
    execsOn (es ++ [(c, r)]) r.sess r.slot = execsOn es r.sess r.slot ++ [r] := by
  simp [execsOn, List.filter_append]

theorem execsOn_append_other (es : List (Nat × Req)) (c : Nat) (r : Req) (sid slot : Nat)
    (h : ¬ (r.sess = sid ∧ r.slot = slot)) :
    execsOn (es ++ [(c, r)]) sid slot = execsOn es sid slot := by
  have : (r.sess == sid && r.slot == slot) = false := by
    cases h1 : (r.sess == sid && r.slot == slot)
    · rfl
    · simp at h1; exact absurd h1 h
  simp [execsOn, List.filter_append, this]

theorem seqsTo_succ (n : Nat) : seqsTo (n + 1) = seqsTo n ++ [(n + 1) % M] := by
  simp [seqsTo, List.range_succ]

theorem seqsTo_length (n : Nat) : (seqsTo n).length = n := by simp [seqsTo]

theorem seqsTo_get (n i : Nat) (h : i < (seqsTo n).length) : (seqsTo n)[i] = (i + 1) % M := by
  simp [seqsTo]

/-- What must hold for one slot given the executions started on it. -/
structure SlotInv (ex : List Req) (sl : Slot) : Prop where
  seqs : ex.map (·.seq) = seqsTo sl.nExec
  idle : sl.busy = none → sl.lastSeq = sl.nExec % M
  busy : ∀ b, sl.busy = some b →
    1 ≤ sl.nExec ∧ sl.lastSeq = (sl.nExec - 1) % M ∧ b.req.seq = sl.nExec % M ∧ sl.lastDone = none ∧
      ex.getLast? = some b.req
  done : ∀ r0 x0, sl.lastDone = some (r0, x0) →
    sl.lastResult = cachedRes r0.cache x0 ∧ sl.lastSeq = r0.seq ∧ ex.getLast? = some r0

theorem slotInv_fresh : SlotInv [] ({} : Slot) where
  seqs := rfl
  idle := fun _ => rfl
  busy := fun b h => by simp at h
  done := fun r0 x0 h => by simp at h

structure Inv (s : State) : Prop where
  fresh : ∀ sid, s.nsess ≤ sid → s.sess sid = none
  noexec : ∀ sid slot, s.sess sid = none → execsOn s.execs sid slot = []
  slots : ∀ sid se slot, s.sess sid = some se → SlotInv (execsOn s.execs sid slot) (se.slot slot)
  parked : s.legacy = false → ∀ c sid slot, (c, sid, slot) ∈ s.parked →
    ∃ se b, s.sess sid = some se ∧ (se.slot slot).busy = some b ∧ c ∈ b.waiters.map (·.1)

theorem inv_init (a b : Nat) (l lj : Bool) : Inv (init a b l lj) where
  fresh := fun _ _ => rfl
  noexec := fun _ _ _ => rfl
  slots := fun sid se slot h => by simp [init] at h
  parked := fun _ c sid slot h => by simp [init] at h

/-! ### frame lemmas for `setSlot` -/

theorem setSlot_sess_same (s : State) (sid slot : Nat) (sl : Slot) (se : Session) (h : s.sess sid = some se) :
    (setSlot s sid slot sl).sess sid =
      some { se with slot := fun j => if j = slot then sl else se.slot j } := by
  simp [setSlot, h]

theorem setSlot_sess_other (s : State) (sid slot : Nat) (sl : Slot) (k : Nat) (h : k ≠ sid) :
    (setSlot s sid slot sl).sess k = s.sess k := by
  simp [setSlot, h]

theorem setSlot_sess_none (s : State) (sid slot : Nat) (sl : Slot) (k : Nat) :
    (setSlot s sid slot sl).sess k = none ↔ s.sess k = none := by
  unfold setSlot
  by_cases hk : k = sid
  · subst hk; simp
  · simp [hk]

/-- Replacing one slot (and possibly appending one execution of that slot,
changing the parked list) keeps the invariant if the new slot value is fine. -/
theorem inv_update (s : State) (sid slot : Nat) (se : Session) (sl' : Slot)
    (ex' : List (Nat × Req)) (pk' : List (Nat × Nat × Nat))
    (hinv : Inv s) (hse : s.sess sid = some se)
    (hex : ∀ sid2 slot2, ¬ (sid2 = sid ∧ slot2 = slot) → execsOn ex' sid2 slot2 = execsOn s.execs sid2 slot2)
    (hslot : SlotInv (execsOn ex' sid slot) sl')
    (hpk : s.legacy = false → ∀ c sid2 slot2, (c, sid2, slot2) ∈ pk' →
      if sid2 = sid ∧ slot2 = slot then ∃ b, sl'.busy = some b ∧ c ∈ b.waiters.map (·.1)
      else (c, sid2, slot2) ∈ s.parked) :
    Inv { setSlot s sid slot sl' with execs := ex', parked := pk' } where
  fresh := fun k hk => by
    have := hinv.fresh k hk
    show (setSlot s sid slot sl').sess k = none
    exact (setSlot_sess_none ..).2 this
  noexec := fun k j hk => by
    have hk' : s.sess k = none := (setSlot_sess_none s sid slot sl' k).1 hk
    have hne : ¬ (k = sid ∧ j = slot) := by
      intro ⟨h1, _⟩; subst h1; rw [hse] at hk'; cases hk'
    show execsOn ex' k j = []
    rw [hex k j hne]; exact hinv.noexec k j hk'
  slots := fun k se2 j hk => by
    show SlotInv (execsOn ex' k j) (se2.slot j)
    by_cases hks : k = sid
    · subst hks
      have h2 : (setSlot s k slot sl').sess k = some { se with slot := fun j => if j = slot then sl' else se.slot j } :=
        setSlot_sess_same s k slot sl' se hse
      have : se2 = { se with slot := fun j => if j = slot then sl' else se.slot j } := by
        have h3 : (setSlot s k slot sl').sess k = some se2 := hk
        rw [h2] at h3; exact (Option.some.inj h3).symm
      subst this
      by_cases hj : j = slot
      · subst hj; simpa using hslot
      · simp only [hj, if_false]
        rw [hex k j (by intro ⟨_, h⟩; exact hj h)]
        exact hinv.slots k se j hse
    · have h3 : s.sess k = some se2 := by
        have : (setSlot s sid slot sl').sess k = some se2 := hk
        rwa [setSlot_sess_other s sid slot sl' k hks] at this
      rw [hex k j (by intro ⟨h, _⟩; exact hks h)]
      exact hinv.slots k se2 j h3
  parked := fun hl c k j hmem => by
    have hl' : s.legacy = false := hl
    have := hpk hl' c k j hmem
    by_cases hks : k = sid ∧ j = slot
    · rw [if_pos hks] at this
      obtain ⟨b, hb, hc⟩ := this
      obtain ⟨h1, h2⟩ := hks
      subst h1; subst h2
      refine ⟨_, b, setSlot_sess_same s k j sl' se hse, ?_, hc⟩
      simpa using hb
    · rw [if_neg hks] at this
      obtain ⟨se2, b, h1, h2, h3⟩ := hinv.parked hl' c k j this
      by_cases hk : k = sid
      · subst hk
        have hj : j ≠ slot := fun h => hks ⟨rfl, h⟩
        rw [hse] at h1; cases h1
        refine ⟨_, b, setSlot_sess_same s k slot sl' se hse, ?_, h3⟩
        simpa [hj] using h2
      · exact ⟨se2, b, by rw [show ({ setSlot s sid slot sl' with execs := ex', parked := pk' } : State).sess k = (setSlot s sid slot sl').sess k from rfl, setSlot_sess_other s sid slot sl' k hk]; exact h1, h2, h3⟩


/-- States that differ only in session liveness / client bookkeeping. -/
def SameSlots (s s' : State) : Prop :=
  s'.execs = s.execs ∧ s'.parked = s.parked ∧ s'.legacy = s.legacy ∧ s'.nsess = s.nsess ∧
  ∀ k, (s'.sess k = none ↔ s.sess k = none) ∧
    ∀ a b, s.sess k = some a → s'.sess k = some b → b.slot = a.slot

theorem inv_sameSlots {s s' : State} (h : SameSlots s s') (hinv : Inv s) : Inv s' := by
  obtain ⟨he, hp, hl, hn, hk⟩ := h
  refine ⟨?_, ?_, ?_, ?_⟩
  · intro k hk'; rw [hn] at hk'; exact ((hk k).1).2 (hinv.fresh k hk')
  · intro k j h0; rw [he]; exact hinv.noexec k j (((hk k).1).1 h0)
  · intro k se j h0
    rw [he]
    cases h1 : s.sess k with
    | none => have := ((hk k).1).2 h1; rw [h0] at this; cases this
    | some a =>
      have := (hk k).2 a se h1 h0
      rw [this]; exact hinv.slots k a j h1
  · intro hl' c k j hmem
    rw [hp] at hmem
    rw [hl] at hl'
    obtain ⟨se, b, h1, h2, h3⟩ := hinv.parked hl' c k j hmem
    cases h4 : s'.sess k with
    | none => have := ((hk k).1).1 h4; rw [h1] at this; cases this
    | some a =>
      have := (hk k).2 se a h1 h4
      exact ⟨a, b, rfl, by rw [this]; exact h2, h3⟩

theorem sameSlots_removeInc (s : State) (k : Nat) : SameSlots s (removeInc s k) := by
  refine ⟨rfl, rfl, rfl, rfl, fun i => ⟨?_, ?_⟩⟩
  · simp [removeInc]
  · intro a b ha hb
    simp [removeInc, ha] at hb
    subst hb; split <;> rfl

theorem inv_destroySession (s : State) (sid : Nat) (hinv : Inv s) : Inv (destroySession s sid).1 := by
  unfold destroySession
  split
  · exact hinv
  · rename_i se hse
    split
    · refine inv_sameSlots (s := s) ⟨rfl, rfl, rfl, rfl, fun i => ⟨?_, ?_⟩⟩ hinv
      · by_cases hi : i = sid
        · subst hi; simp [hse]
        · simp [hi]
      · intro a b ha hb
        by_cases hi : i = sid
        · subst hi; simp at hb; rw [hse] at ha; cases ha; subst hb; rfl
        · simp [hi] at hb; rw [ha] at hb; cases hb; rfl
    · exact hinv

theorem inv_exchangeId (s : State) (c v o : Nat) (hinv : Inv s) : Inv (exchangeId s c v o).1 := by
  unfold exchangeId
  split
  · exact hinv
  · exact inv_sameSlots (s := s) ⟨rfl, rfl, rfl, rfl, fun i => ⟨Iff.rfl, fun a b ha hb => by rw [show s.sess i = some a from ha] at hb; cases hb; rfl⟩⟩ hinv

/-- Adding a fresh session. -/
theorem inv_newSession (s : State) (k client seq : Nat) (hinv : Inv s) : Inv (newSession s k client seq).1 where
  fresh := fun i hi => by
    have h1 : i ≠ s.nsess := by intro h; subst h; exact Nat.lt_irrefl _ (Nat.lt_of_succ_le hi)
    show (if i = s.nsess then _ else s.sess i) = none
    rw [if_neg h1]
    exact hinv.fresh i (Nat.le_of_succ_le hi)
  noexec := fun i j h0 => by
    have h0' : (if i = s.nsess then some (⟨k, true, s.nslots, fun _ => {}⟩ : Session) else s.sess i) = none := h0
    by_cases h1 : i = s.nsess
    · rw [if_pos h1] at h0'; cases h0'
    · rw [if_neg h1] at h0'; exact hinv.noexec i j h0'
  slots := fun i se2 j h0 => by
    have h0' : (if i = s.nsess then some (⟨k, true, s.nslots, fun _ => {}⟩ : Session) else s.sess i) = some se2 := h0
    show SlotInv (execsOn s.execs i j) (se2.slot j)
    by_cases h1 : i = s.nsess
    · rw [if_pos h1] at h0'; cases h0'
      rw [h1, hinv.noexec s.nsess j (hinv.fresh _ (Nat.le_refl _))]
      exact slotInv_fresh
    · rw [if_neg h1] at h0'; exact hinv.slots i se2 j h0'
  parked := fun hl c i j hmem => by
    obtain ⟨se2, b, h1, h2, h3⟩ := hinv.parked hl c i j hmem
    have hk : i ≠ s.nsess := by
      intro h; subst h; rw [hinv.fresh _ (Nat.le_refl _)] at h1; cases h1
    refine ⟨se2, b, ?_, h2, h3⟩
    show (if i = s.nsess then _ else s.sess i) = some se2
    rw [if_neg hk]; exact h1

theorem inv_createSession (s : State) (k q : Nat) (hinv : Inv s) : Inv (createSession s k q).1 := by
  unfold createSession
  split
  · exact hinv
  · split
    · exact hinv
    · split
      · split
        · split
          · exact inv_newSession s _ _ _ hinv
          · split
            · exact hinv
            · exact inv_newSession (removeInc s _) _ _ _ (inv_sameSlots (sameSlots_removeInc s _) hinv)
        · exact inv_newSession s _ _ _ hinv
      · exact hinv

theorem mod_succ_eq (n : Nat) : (n % M + 1) % M = (n + 1) % M := by
  simp [Nat.add_mod]

theorem inv_arrive (s : State) (call : Nat) (r : Req) (hinv : Inv s) : Inv (arrive s call r).1 := by
  unfold arrive
  split
  · exact hinv
  · rename_i se hse
    split
    · exact hinv
    · split
      · exact hinv
      · dsimp only
        split
        · exact hinv
        · rename_i hseq0
          split
          · rename_i hseq
            have hsl := hinv.slots r.sess se r.slot hse
            split
            · -- join the in-flight original
              rename_i b hb
              have hbusy := hsl.busy b hb
              refine inv_update s r.sess r.slot se _ s.execs _ hinv hse (fun _ _ _ => rfl) ?_ ?_
              · refine ⟨hsl.seqs, fun h => by simp at h, ?_, fun r0 x0 h => ?_⟩
                · intro b2 hb2
                  simp only [Option.some.injEq] at hb2
                  subst hb2
                  obtain ⟨h1, h2, h3, h4, h5⟩ := hbusy
                  refine ⟨h1, h2, ?_, h4, ?_⟩
                  · split <;> simpa using h3
                  · split <;> simpa using h5
                · have : (se.slot r.slot).lastDone = some (r0, x0) := h
                  rw [hbusy.2.2.2.1] at this; cases this
              · intro hl c sid2 slot2 hmem
                simp only [List.mem_append, List.mem_singleton, Prod.mk.injEq] at hmem
                split
                · rename_i hsame
                  obtain ⟨h1, h2⟩ := hsame
                  subst h1; subst h2
                  refine ⟨_, rfl, ?_⟩
                  simp only [hl, Bool.false_eq_true, if_false, List.map_append, List.mem_append]
                  rcases hmem with hmem | ⟨h1, _, _⟩
                  · obtain ⟨se2, b2, e1, e2, e3⟩ := hinv.parked hl c _ _ hmem
                    rw [hse] at e1; cases e1
                    rw [hb] at e2; cases e2
                    exact Or.inl e3
                  · subst h1; simp
                · rename_i hne
                  rcases hmem with hmem | ⟨_, h2, h3⟩
                  · exact hmem
                  · exact absurd ⟨h2, h3⟩ hne
            · -- slot idle
              rename_i hb
              have hidle := hsl.idle hb
              have hnopark : s.legacy = false → ∀ c, (c, r.sess, r.slot) ∉ s.parked := by
                intro hl c hmem
                obtain ⟨se2, b2, e1, e2, _⟩ := hinv.parked hl c _ _ hmem
                rw [hse] at e1; cases e1
                rw [hb] at e2; cases e2
              split
              · -- TOO_MANY_OPS: only the cache is forgotten
                refine inv_update s r.sess r.slot se _ s.execs s.parked hinv hse (fun _ _ _ => rfl) ?_ ?_
                · refine ⟨hsl.seqs, hsl.idle, fun b2 hb2 => ?_, fun r0 x0 h => by simp at h⟩
                  have hb3 : (se.slot r.slot).busy = some b2 := hb2
                  rw [hb] at hb3; cases hb3
                · intro hl c sid2 slot2 hmem
                  split
                  · rename_i hsame; obtain ⟨h1, h2⟩ := hsame; subst h1; subst h2
                    exact absurd hmem (hnopark hl c)
                  · exact hmem
              · -- start executing
                refine inv_update s r.sess r.slot se _ (s.execs ++ [(call, r)]) s.parked hinv hse
                  (fun sid2 slot2 hne => execsOn_append_other _ _ _ _ _ (fun ⟨a, b⟩ => hne ⟨a.symm, b.symm⟩)) ?_ ?_
                · rw [execsOn_append_same]
                  refine ⟨?_, fun h => by simp at h, ?_, fun r0 x0 h => by simp at h⟩
                  · simp only [List.map_append, List.map_cons, List.map_nil]
                    rw [hsl.seqs, seqsTo_succ, hseq, hidle, mod_succ_eq]
                  · intro b2 hb2
                    simp only [Option.some.injEq] at hb2
                    subst hb2
                    refine ⟨Nat.succ_le_succ (Nat.zero_le _), ?_, ?_, rfl, by simp⟩
                    · simpa using hidle
                    · show r.seq = _
                      rw [hseq, hidle, mod_succ_eq]
                · intro hl c sid2 slot2 hmem
                  split
                  · rename_i hsame; obtain ⟨h1, h2⟩ := hsame; subst h1; subst h2
                    exact absurd hmem (hnopark hl c)
                  · exact hmem
          · exact hinv

theorem inv_finish (s : State) (sid slot : Nat) (x : XRes) (hinv : Inv s) : Inv (finish s sid slot x).1 := by
  unfold finish
  split
  · exact hinv
  · rename_i sl hsl
    split
    · exact hinv
    · rename_i b hb
      unfold getSlot at hsl
      cases hse : s.sess sid with
      | none => rw [hse] at hsl; cases hsl
      | some se =>
        rw [hse] at hsl
        simp only [Option.map_some, Option.some.injEq] at hsl
        subst hsl
        have hs := hinv.slots sid se slot hse
        obtain ⟨h1, h2, h3, h4, h5⟩ := hs.busy b hb
        refine inv_update s sid slot se _ s.execs _ hinv hse (fun _ _ _ => rfl) ?_ ?_
        · refine ⟨hs.seqs, fun _ => h3, fun b2 hb2 => by simp at hb2, fun r0 x0 h => ?_⟩
          simp only [Option.some.injEq, Prod.mk.injEq] at h
          obtain ⟨e1, e2⟩ := h
          subst e1; subst e2
          exact ⟨rfl, rfl, h5⟩
        · intro hl c sid2 slot2 hmem
          simp only [List.mem_filter] at hmem
          obtain ⟨hm1, hm2⟩ := hmem
          split
          · rename_i hsame; obtain ⟨e1, e2⟩ := hsame; subst e1; subst e2
            obtain ⟨se2, b2, e1, e2, e3⟩ := hinv.parked hl c _ _ hm1
            rw [hse] at e1; cases e1
            rw [hb] at e2; cases e2
            simp only [Bool.not_eq_true', List.contains_eq_mem, decide_eq_false_iff_not] at hm2
            exact absurd e3 hm2
          · exact hm1

theorem step_arrive_fst (s : State) (c : Nat) (r : Req) : (step s (.arrive c r)).1 = (arrive s c r).1 := by
  show (match arrive s c r with
    | (s', ArriveOut.reply rep) => (s', [(c, rep)])
    | (s', _) => (s', [])).1 = _
  rcases arrive s c r with ⟨s', o⟩
  cases o <;> rfl

theorem inv_step (s : State) (o : Op) (hinv : Inv s) : Inv (step s o).1 := by
  cases o with
  | exchangeId c v ob => exact inv_exchangeId s c v ob hinv
  | createSession k q => exact inv_createSession s k q hinv
  | destroySession sid => exact inv_destroySession s sid hinv
  | arrive c r => rw [step_arrive_fst]; exact inv_arrive s c r hinv
  | finish sid slot x => exact inv_finish s sid slot x hinv

theorem inv_reachable {s0 s : State} (h0 : Inv s0) (h : Reachable s0 s) : Inv s := by
  induction h with
  | init => exact h0
  | step o _ ih => exact inv_step _ o ih


/-! ### `arrive`, arm by arm -/

theorem arrive_eq_nosession (s : State) (c : Nat) (r : Req) (h : s.sess r.sess = none) :
    arrive s c r = (s, .reply (seqErr errBadSession)) := by
  unfold arrive; rw [h]

theorem arrive_eq_dead (s : State) (c : Nat) (r : Req) (se : Session) (hse : s.sess r.sess = some se)
    (h : se.alive = false) : arrive s c r = (s, .reply (seqErr errBadSession)) := by
  unfold arrive; rw [hse]; simp [h]

theorem arrive_eq_badslot (s : State) (c : Nat) (r : Req) (se : Session) (hse : s.sess r.sess = some se)
    (ha : se.alive = true) (h : se.nslots ≤ r.slot) : arrive s c r = (s, .reply (seqErr errBadSlot)) := by
  unfold arrive; rw [hse]; simp [ha, h]

theorem arrive_eq_replay (s : State) (c : Nat) (r : Req) (se : Session) (hse : s.sess r.sess = some se)
    (ha : se.alive = true) (hs : r.slot < se.nslots) (hq : r.seq = (se.slot r.slot).lastSeq) :
    arrive s c r = (s, .reply (if shapeOK (se.slot r.slot).lastResult r.ops then (se.slot r.slot).lastResult
      else seqErr errSeqFalseRetry)) := by
  unfold arrive; rw [hse]; simp [ha, Nat.not_le.2 hs, hq]

theorem arrive_eq_misordered (s : State) (c : Nat) (r : Req) (se : Session) (hse : s.sess r.sess = some se)
    (ha : se.alive = true) (hs : r.slot < se.nslots) (hq : r.seq ≠ (se.slot r.slot).lastSeq)
    (hn : r.seq ≠ ((se.slot r.slot).lastSeq + 1) % M) :
    arrive s c r = (s, .reply (seqErr errSeqMisordered)) := by
  unfold arrive; rw [hse]; simp [ha, Nat.not_le.2 hs, hq, hn]

theorem arrive_eq_join (s : State) (c : Nat) (r : Req) (se : Session) (b : Busy) (hse : s.sess r.sess = some se)
    (ha : se.alive = true) (hs : r.slot < se.nslots) (hq : r.seq ≠ (se.slot r.slot).lastSeq)
    (hn : r.seq = ((se.slot r.slot).lastSeq + 1) % M) (hb : (se.slot r.slot).busy = some b) :
    arrive s c r =
      ({ setSlot s r.sess r.slot ⟨(se.slot r.slot).lastSeq, (se.slot r.slot).lastResult,
            some (if s.legacy then b else { b with waiters := b.waiters ++ [(c, r.ops)] }),
            (se.slot r.slot).nExec, (se.slot r.slot).lastDone⟩ with
          parked := s.parked ++ [(c, r.sess, r.slot)] }, .parked) := by
  unfold arrive; rw [hse]
  simp only [ha, Bool.not_true, Bool.false_eq_true, if_false, ge_iff_le, Nat.not_le.2 hs, hq]
  rw [if_pos hn, hb]

theorem arrive_eq_toomany (s : State) (c : Nat) (r : Req) (se : Session) (hse : s.sess r.sess = some se)
    (ha : se.alive = true) (hs : r.slot < se.nslots) (hq : r.seq ≠ (se.slot r.slot).lastSeq)
    (hn : r.seq = ((se.slot r.slot).lastSeq + 1) % M) (hb : (se.slot r.slot).busy = none)
    (ho : 1 + r.ops.length > s.maxOps) :
    arrive s c r =
      (setSlot s r.sess r.slot ⟨(se.slot r.slot).lastSeq, seqErr errSeqMisordered, (se.slot r.slot).busy,
          (se.slot r.slot).nExec, none⟩,
       .reply (seqErr errTooManyOps)) := by
  unfold arrive; rw [hse]
  simp only [ha, Bool.not_true, Bool.false_eq_true, if_false, ge_iff_le, Nat.not_le.2 hs, hq]
  rw [if_pos hn, hb]
  simp only [ho, if_true]

theorem arrive_eq_start (s : State) (c : Nat) (r : Req) (se : Session) (hse : s.sess r.sess = some se)
    (ha : se.alive = true) (hs : r.slot < se.nslots) (hq : r.seq ≠ (se.slot r.slot).lastSeq)
    (hn : r.seq = ((se.slot r.slot).lastSeq + 1) % M) (hb : (se.slot r.slot).busy = none)
    (ho : ¬ 1 + r.ops.length > s.maxOps) :
    arrive s c r =
      ({ setSlot s r.sess r.slot ⟨(se.slot r.slot).lastSeq, seqErr errSeqMisordered, some ⟨c, r, []⟩,
            (se.slot r.slot).nExec + 1, none⟩ with
          execs := s.execs ++ [(c, r)] }, .started) := by
  unfold arrive; rw [hse]
  simp only [ha, Bool.not_true, Bool.false_eq_true, if_false, ge_iff_le, Nat.not_le.2 hs, hq]
  rw [if_pos hn, hb]
  simp only [ho, if_false]

/-- Case analysis of `arrive`. -/
theorem arrive_cases (s : State) (c : Nat) (r : Req) :
    (∃ rep, arrive s c r = (s, .reply rep) ∧
      ((∃ code, rep = seqErr code) ∨
       ∃ se, s.sess r.sess = some se ∧ se.alive = true ∧ r.slot < se.nslots ∧
         r.seq = (se.slot r.slot).lastSeq ∧ shapeOK (se.slot r.slot).lastResult r.ops = true ∧
         rep = (se.slot r.slot).lastResult)) ∨
    (∃ se, s.sess r.sess = some se ∧ se.alive = true ∧ r.slot < se.nslots ∧
      (se.slot r.slot).busy = none ∧ r.seq = ((se.slot r.slot).lastSeq + 1) % M ∧
      ((arrive s c r).2 = .reply (seqErr errTooManyOps) ∧ (arrive s c r).1.execs = s.execs ∨
       (arrive s c r).2 = .started ∧ (arrive s c r).1.execs = s.execs ++ [(c, r)])) ∨
    ((arrive s c r).2 = .parked ∧ (arrive s c r).1.execs = s.execs) := by
  cases hse : s.sess r.sess with
  | none => exact Or.inl ⟨_, arrive_eq_nosession s c r hse, Or.inl ⟨_, rfl⟩⟩
  | some se =>
    cases ha : se.alive with
    | false => exact Or.inl ⟨_, arrive_eq_dead s c r se hse ha, Or.inl ⟨_, rfl⟩⟩
    | true =>
      by_cases hs : r.slot < se.nslots
      · by_cases hq : r.seq = (se.slot r.slot).lastSeq
        · refine Or.inl ⟨_, arrive_eq_replay s c r se hse ha hs hq, ?_⟩
          cases hok : shapeOK (se.slot r.slot).lastResult r.ops
          · exact Or.inl ⟨errSeqFalseRetry, by simp⟩
          · exact Or.inr ⟨se, rfl, ha, hs, hq, hok, by simp⟩
        · by_cases hn : r.seq = ((se.slot r.slot).lastSeq + 1) % M
          · cases hb : (se.slot r.slot).busy with
            | some b =>
              refine Or.inr (Or.inr ?_)
              rw [arrive_eq_join s c r se b hse ha hs hq hn hb]
              exact ⟨rfl, rfl⟩
            | none =>
              refine Or.inr (Or.inl ⟨se, rfl, ha, hs, hb, hn, ?_⟩)
              by_cases ho : 1 + r.ops.length > s.maxOps
              · rw [arrive_eq_toomany s c r se hse ha hs hq hn hb ho]; exact Or.inl ⟨rfl, rfl⟩
              · rw [arrive_eq_start s c r se hse ha hs hq hn hb ho]; exact Or.inr ⟨rfl, rfl⟩
          · exact Or.inl ⟨_, arrive_eq_misordered s c r se hse ha hs hq hn, Or.inl ⟨_, rfl⟩⟩
      · exact Or.inl ⟨_, arrive_eq_badslot s c r se hse ha (Nat.le_of_not_lt hs), Or.inl ⟨_, rfl⟩⟩


theorem arrive_legacy (s : State) (c : Nat) (r : Req) : (arrive s c r).1.legacy = s.legacy := by
  cases hse : s.sess r.sess with
  | none => rw [arrive_eq_nosession s c r hse]
  | some se =>
    cases ha : se.alive with
    | false => rw [arrive_eq_dead s c r se hse ha]
    | true =>
      by_cases hs : r.slot < se.nslots
      · by_cases hq : r.seq = (se.slot r.slot).lastSeq
        · rw [arrive_eq_replay s c r se hse ha hs hq]
        · by_cases hn : r.seq = ((se.slot r.slot).lastSeq + 1) % M
          · cases hb : (se.slot r.slot).busy with
            | some b => rw [arrive_eq_join s c r se b hse ha hs hq hn hb]; rfl
            | none =>
              by_cases ho : 1 + r.ops.length > s.maxOps
              · rw [arrive_eq_toomany s c r se hse ha hs hq hn hb ho]; rfl
              · rw [arrive_eq_start s c r se hse ha hs hq hn hb ho]; rfl
          · rw [arrive_eq_misordered s c r se hse ha hs hq hn]
      · rw [arrive_eq_badslot s c r se hse ha (Nat.le_of_not_lt hs)]

theorem step_legacy (s : State) (o : Op) : (step s o).1.legacy = s.legacy := by
  cases o with
  | exchangeId c v ob =>
    show (exchangeId s c v ob).1.legacy = s.legacy
    unfold exchangeId; split <;> rfl
  | createSession k q =>
    show (createSession s k q).1.legacy = s.legacy
    unfold createSession newSession
    repeat (first | rfl | split)
  | destroySession sid =>
    show (destroySession s sid).1.legacy = s.legacy
    unfold destroySession
    repeat (first | rfl | split)
  | arrive c r => rw [step_arrive_fst]; exact arrive_legacy s c r
  | finish sid slot x =>
    show (finish s sid slot x).1.legacy = s.legacy
    unfold finish
    repeat (first | rfl | split)

theorem reachable_legacy {s0 s : State} (h : Reachable s0 s) : s.legacy = s0.legacy := by
  induction h with
  | init => rfl
  | step o _ ih => rw [step_legacy, ih]

end BbRe.Lemmas.Replay41
