import BbRe.Lemmas.FilePoolOps2
/-!
The pool-wide invariant `Inv` (sector conservation + isolation of sector lists)
and its preservation by every `step`, for every operation and every oracle.
-/
namespace BbRe.Lemmas.FilePool
open BbRe.FilePool

structure Inv (st : State) : Prop where
  /-- every sector referenced by a file is allocated -/
  owned : ∀ (i : Nat) (f : File), st.files[i]? = some f → ∀ s ∈ f.sectors, s ≠ 0 → s ∈ st.allocd
  /-- within a file no sector occurs twice -/
  nodup : ∀ (i : Nat) (f : File), st.files[i]? = some f → (nz f.sectors).Nodup
  /-- no sector is referenced by two files -/
  disjoint : ∀ (i j : Nat) (f g : File), i ≠ j → st.files[i]? = some f → st.files[j]? = some g →
    ∀ s, s ≠ 0 → s ∈ f.sectors → s ∉ g.sectors
  /-- every allocated sector is referenced by a file -/
  noLeak : ∀ s ∈ st.allocd, ∃ (i : Nat) (f : File), st.files[i]? = some f ∧ s ∈ f.sectors
  allocNodup : st.allocd.Nodup
  allocRange : ∀ s ∈ st.allocd, 1 ≤ s ∧ s ≤ st.cfg.nsec
  /-- no sector was ever freed while not allocated -/
  noDoubleFree : st.dfree = false
  closedEmpty : ∀ (i : Nat) (f : File), st.files[i]? = some f → f.closed = true → f.sectors = []
  ssPos : 0 < st.cfg.ss

/-- the non-zero sectors of the files other than `i`. -/
def Oth (st : State) (i : Nat) (s : Nat) : Prop :=
  ∃ (j : Nat) (g : File), j ≠ i ∧ st.files[j]? = some g ∧ s ∈ g.sectors ∧ s ≠ 0

theorem inv_part {st : State} (h : Inv st) {i : Nat} {f : File} (hf : st.files[i]? = some f) :
    Part st.cfg.nsec (Oth st i) st.allocd (nz f.sectors) := by
  refine ⟨h.allocNodup, h.nodup i f hf, ?_, ?_, h.allocRange⟩
  · intro s
    constructor
    · intro hs
      obtain ⟨j, g, hg, hsg⟩ := h.noLeak s hs
      have hs0 : s ≠ 0 := by have := h.allocRange s hs; omega
      by_cases hji : j = i
      · subst hji
        rw [hf] at hg; cases hg
        exact Or.inl (mem_nz.mpr ⟨hsg, hs0⟩)
      · exact Or.inr ⟨j, g, hji, hg, hsg, hs0⟩
    · rintro (hs | ⟨j, g, _, hg, hsg, hs0⟩)
      · exact h.owned i f hf s (mem_nz.mp hs).1 (mem_nz.mp hs).2
      · exact h.owned j g hg s hsg hs0
  · rintro s hs ⟨j, g, hji, hg, hsg, hs0⟩
    exact h.disjoint i j f g (Ne.symm hji) hf hg s hs0 (mem_nz.mp hs).1 hsg

theorem getElem?_set_some {l : List File} {i j : Nat} {f' g : File} (hi : i < l.length)
    (h : (l.set i f')[j]? = some g) : (j = i ∧ g = f') ∨ (j ≠ i ∧ l[j]? = some g) := by
  rw [List.getElem?_set] at h
  split at h
  · rename_i hij
    subst hij
    simp only [hi, ↓reduceIte, Option.some.injEq] at h
    exact Or.inl ⟨rfl, h.symm⟩
  · rename_i hij
    exact Or.inr ⟨fun e => hij e.symm, h⟩

/-- Replacing file `i` by `f'` and the allocated list by `A'`, related by `Part` with the same
"other files" set, re-establishes the invariant. -/
theorem inv_of_part {st : State} (h : Inv st) {i : Nat} {f f' : File} (hf : st.files[i]? = some f)
    {A' : List Nat} {dev' : Array Byte}
    (hP : Part st.cfg.nsec (Oth st i) A' (nz f'.sectors)) (hc : f'.closed = true → f'.sectors = []) :
    Inv { st with dev := dev', allocd := A', dfree := false, files := st.files.set i f' } := by
  have hi : i < st.files.length := by
    have := List.getElem?_eq_some_iff.mp hf; exact this.1
  have hset : (st.files.set i f')[i]? = some f' := by
    simp [List.getElem?_set, hi]
  refine ⟨?_, ?_, ?_, ?_, hP.nodupA, hP.range, rfl, ?_, h.ssPos⟩
  · intro j g hg s hs hs0
    rcases getElem?_set_some hi hg with ⟨rfl, rfl⟩ | ⟨hji, hg'⟩
    · exact (hP.mem s).mpr (Or.inl (mem_nz.mpr ⟨hs, hs0⟩))
    · exact (hP.mem s).mpr (Or.inr ⟨j, g, hji, hg', hs, hs0⟩)
  · intro j g hg
    rcases getElem?_set_some hi hg with ⟨rfl, rfl⟩ | ⟨hji, hg'⟩
    · exact hP.nodupF
    · exact h.nodup j g hg'
  · intro j k g1 g2 hjk hg1 hg2 s hs0 hs1 hs2
    rcases getElem?_set_some hi hg1 with ⟨rfl, rfl⟩ | ⟨hji, hg1'⟩
    · rcases getElem?_set_some hi hg2 with ⟨rfl, rfl⟩ | ⟨hki, hg2'⟩
      · exact hjk rfl
      · exact hP.sep s (mem_nz.mpr ⟨hs1, hs0⟩) ⟨k, g2, hki, hg2', hs2, hs0⟩
    · rcases getElem?_set_some hi hg2 with ⟨rfl, rfl⟩ | ⟨hki, hg2'⟩
      · exact hP.sep s (mem_nz.mpr ⟨hs2, hs0⟩) ⟨j, g1, hji, hg1', hs1, hs0⟩
      · exact h.disjoint j k g1 g2 hjk hg1' hg2' s hs0 hs1 hs2
  · intro s hs
    rcases (hP.mem s).mp hs with h1 | ⟨j, g, hji, hg, hsg, _⟩
    · exact ⟨i, f', hset, (mem_nz.mp h1).1⟩
    · refine ⟨j, g, ?_, hsg⟩
      simp only [List.getElem?_set, Ne.symm hji, ↓reduceIte]
      exact hg
  · intro j g hg hcl
    rcases getElem?_set_some hi hg with ⟨rfl, rfl⟩ | ⟨hji, hg'⟩
    · exact hc hcl
    · exact h.closedEmpty j g hg' hcl

/-- an operation that leaves the allocator and the files alone. -/
theorem inv_put_same {st : State} (h : Inv st) {e e' : Env} (he : e.allocd = st.allocd ∧ e.dfree = st.dfree)
    (hs : SameAlloc e e') : Inv (st.put e') := by
  have h1 : e'.allocd = st.allocd := hs.1.trans he.1
  have h2 : e'.dfree = st.dfree := hs.2.1.trans he.2
  unfold State.put
  refine ⟨?_, h.nodup, h.disjoint, ?_, ?_, ?_, ?_, h.closedEmpty, h.ssPos⟩
  · intro i f hf s hs hs0; simp only [h1]; exact h.owned i f hf s hs hs0
  · intro s hs; simp only [h1] at hs; exact h.noLeak s hs
  · simp only [h1]; exact h.allocNodup
  · intro s hs; simp only [h1] at hs; exact h.allocRange s hs
  · simp only [h2]; exact h.noDoubleFree

theorem file?_some {st : State} {i : Nat} {f : File} (h : st.file? i = some f) :
    st.files[i]? = some f ∧ f.closed = false := by
  unfold State.file? at h
  split at h
  · rename_i g hg
    split at h
    · simp at h
    · rename_i hc
      simp only [Option.some.injEq] at h; subst h
      exact ⟨hg, by simpa using hc⟩
  · simp at h

theorem finish_fst (e : Env) (st : State) (out : Out) : (finish e st out).1 = st := by
  unfold finish; split <;> rfl

theorem inv_init (c : Cfg) (hss : 0 < c.ss) : Inv (init c) := by
  refine ⟨?_, ?_, ?_, ?_, List.nodup_nil, ?_, rfl, ?_, hss⟩ <;> simp [init]

theorem inv_new {st : State} (h : Inv st) (hole : Hole) (size : Nat) :
    Inv { st with files := st.files ++ [{ sectors := [], size := size, hole := hole, closed := false }] } := by
  have key : ∀ (j : Nat) (g : File), (st.files ++ [({ sectors := [], size := size, hole := hole, closed := false } : File)])[j]? = some g →
      st.files[j]? = some g ∨ g.sectors = [] := by
    intro j g hg
    by_cases hj : j < st.files.length
    · rw [List.getElem?_append_left hj] at hg; exact Or.inl hg
    · rw [List.getElem?_append_right (Nat.le_of_not_lt hj)] at hg
      right
      cases hjj : j - st.files.length with
      | zero => rw [hjj] at hg; simp at hg; rw [← hg]
      | succ k => rw [hjj] at hg; simp at hg
  refine ⟨?_, ?_, ?_, ?_, h.allocNodup, h.allocRange, h.noDoubleFree, ?_, h.ssPos⟩
  · intro j g hg s hs hs0
    rcases key j g hg with h1 | h1
    · exact h.owned j g h1 s hs hs0
    · rw [h1] at hs; cases hs
  · intro j g hg
    rcases key j g hg with h1 | h1
    · exact h.nodup j g h1
    · rw [h1]; exact List.nodup_nil
  · intro j k g1 g2 hjk hg1 hg2 s hs0 hs1 hs2
    rcases key j g1 hg1 with h1 | h1
    · rcases key k g2 hg2 with h2 | h2
      · exact h.disjoint j k g1 g2 hjk h1 h2 s hs0 hs1 hs2
      · rw [h2] at hs2; cases hs2
    · rw [h1] at hs1; cases hs1
  · intro s hs
    obtain ⟨j, g, hg, hsg⟩ := h.noLeak s hs
    refine ⟨j, g, ?_, hsg⟩
    have hj : j < st.files.length := (List.getElem?_eq_some_iff.mp hg).1
    rw [List.getElem?_append_left hj]; exact hg
  · intro j g hg hcl
    rcases key j g hg with h1 | h1
    · exact h.closedEmpty j g h1 hcl
    · exact h1

/-- **Invariant step**: every operation with every oracle preserves `Inv`. -/
theorem inv_step {st : State} (h : Inv st) (op : Op) (o : Oracle) : Inv (step st op o).1 := by
  have he : (st.env o).allocd = st.allocd ∧ (st.env o).dfree = st.dfree := ⟨rfl, rfl⟩
  unfold step
  dsimp only
  cases op with
  | new hole size => dsimp only; rw [finish_fst]; exact inv_new h hole size
  | read i off n =>
    dsimp only
    split
    · exact h
    · rw [finish_fst]; exact inv_put_same h he (readAt_same _ _ _ _ _)
  | write i off p =>
    dsimp only
    split
    · exact h
    · rename_i f hf
      rw [finish_fst]
      have hf' := file?_some hf
      have hP := inv_part h hf'.1
      have := writeAt_part (c := st.cfg) (f := f) (e := st.env o) p off h.ssPos hP h.noDoubleFree
      have hI := inv_of_part h hf'.1 (dev' := (writeAt st.cfg f (st.env o) p off).2.1.dev) this.1
        (by intro hc; rw [this.2.2.1, hf'.2] at hc; cases hc)
      unfold State.put
      rw [this.2.1]
      exact hI
  | trunc i size =>
    dsimp only
    split
    · exact h
    · rename_i f hf
      rw [finish_fst]
      have hf' := file?_some hf
      have hP := inv_part h hf'.1
      have := truncate_part (c := st.cfg) (f := f) (e := st.env o) size hP h.noDoubleFree
      have hI := inv_of_part h hf'.1 (dev' := (truncate st.cfg f (st.env o) size).2.1.dev) this.1
        (by intro hc; rw [this.2.2, hf'.2] at hc; cases hc)
      unfold State.put
      rw [this.2.1]
      exact hI
  | seek i off data =>
    dsimp only
    split
    · exact h
    · rw [finish_fst]; exact inv_put_same h he (seek_same _ _ _ _ _)
  | len i =>
    dsimp only
    split
    · exact h
    · rw [finish_fst]; exact h
  | close i =>
    dsimp only
    split
    · exact h
    · rename_i f hf
      rw [finish_fst]
      have hf' := file?_some hf
      have hP := inv_part h hf'.1
      have := close_part (f := f) (e := st.env o) hP h.noDoubleFree
      have hI := inv_of_part h hf'.1 (f' := (close f (st.env o)).1) (dev' := (close f (st.env o)).2.1.dev)
        (by rw [this.2.2.1]; exact this.1) (fun _ => this.2.2.1)
      unfold State.put
      rw [this.2.1]
      exact hI

theorem inv_run {st : State} (h : Inv st) (ops : List (Op × Oracle)) : Inv (run st ops) := by
  induction ops generalizing st with
  | nil => exact h
  | cons x xs ih => exact ih (inv_step h x.1 x.2)

end BbRe.Lemmas.FilePool
