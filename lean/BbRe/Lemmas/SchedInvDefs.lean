import BbRe.Lemmas.SchedInvAList
/-!
The invariant of the scheduler model (`Model/Sched.lean`), the frame relations used to
compose the per-helper specifications, and a tiny weakest-precondition calculus for
`Except String`.
-/
namespace BbRe.Lemmas.SchedInv
open BbRe.Sched

/-! ## errors -/

/-- Errors of `step` that remain possible under the invariant: oracle answers outside
the allowed set (`mismatch: …`), segments that are not enabled, malformed input
(`bad-op`), and the model-internal routing errors that depend on the platform-queue
registry (not part of the invariant proved here).  None of them is one of the
code's `panic` guards. -/
def okErrors : List String :=
  [ "mismatch: parked worker exists but task was not handed to one",
    "mismatch: task handed to a worker that was not parked",
    "mismatch: no such parked stream",
    "mismatch: stream woke up without a stage change",
    "mismatch: worker was given a task that is not queued in its size-class queue",
    "mismatch: tasks are queued but the worker was not given one",
    "mismatch: no such worker",
    "mismatch: worker is not inside Synchronize",
    "mismatch: worker woke up although its wakeup channel is open",
    "mismatch: worker woke up without an undrain",
    "mismatch: worker is not waiting for an undrain",
    "mismatch: no such TerminateWorkers call",
    "mismatch: TerminateWorkers returned while a captured task is still executing",
    "bad-op",
    "complete: no platform queue",
    "platform queue without size classes",
    "platform queue without size class queue",
    "getNextTask: no queue",
    "syncWake: no queue" ]

def OkErr (e : String) : Prop := e ∈ okErrors

/-- The code's `panic` guards that have a counterpart in the model. -/
def panicErrors : List String :=
  [ "Worker is already associated with a task",
    "Task is already associated with a worker",
    "Invalid waiters count on operation",
    "Worker is already queued",
    "Task in unexpected stage" ]

/-- Model-internal consistency errors (a pointer that leads nowhere). -/
def internalErrors : List String :=
  [ "schedule: no task", "schedule: worker vanished", "complete: no task",
    "complete: task without learner", "complete: task vanished", "removeOp: no task",
    "streamSend: no operation", "streamSend: no task", "streamAttach: no operation",
    "streamLeave: no operation", "dedup map points to a missing task",
    "streamWake: no operation", "streamWake: no task", "assignNext: task vanished",
    "execResponse: no task", "execResponse: task missing", "getNextTask: no worker",
    "getNextTask: worker vanished", "getCurrentOrNext: no worker",
    "worker points to a missing task", "syncArrive: worker vanished", "syncArrive: no task" ]

/-! ## weakest preconditions for `Except String` -/

def wp {α} (x : M α) (Q : α → Prop) : Prop :=
  match x with
  | .ok a => Q a
  | .error e => OkErr e

@[simp] theorem wp_ok {α} (a : α) (Q : α → Prop) : wp (Except.ok a) Q ↔ Q a := Iff.rfl
@[simp] theorem wp_pure {α} (a : α) (Q : α → Prop) : wp (pure a : M α) Q ↔ Q a := Iff.rfl
@[simp] theorem wp_error {α} (e : String) (Q : α → Prop) : wp (Except.error e : M α) Q ↔ OkErr e := Iff.rfl
@[simp] theorem wp_throw {α} (e : String) (Q : α → Prop) : wp (throw e : M α) Q ↔ OkErr e := Iff.rfl

theorem wp_bind {α β} (x : M α) (f : α → M β) (Q : β → Prop) (h : wp x (fun a => wp (f a) Q)) :
    wp (x >>= f) Q := by
  cases x with
  | ok a => exact h
  | error e => exact h

theorem wp_mono {α} {x : M α} {Q Q' : α → Prop} (h : wp x Q) (hq : ∀ a, Q a → Q' a) : wp x Q' := by
  cases x with
  | ok a => exact hq a h
  | error e => exact h

theorem wp_of_ok {α} {x : M α} {Q : α → Prop} {a : α} (h : wp x Q) (hx : x = .ok a) : Q a := by
  subst hx; exact h

theorem wp_of_error {α} {x : M α} {Q : α → Prop} {e : String} (h : wp x Q) (hx : x = .error e) : OkErr e := by
  subst hx; exact h

/-! ## event classification -/

/-- events that are neither selector calls nor `execute` instructions -/
def Quiet : Event → Prop
  | .selSelect _ => False
  | .selAbandoned => False
  | .syncExecute _ _ _ _ => False
  | _ => True

def isTerm (l : Nat) : Event → Bool
  | .learnerSucceeded l' _ => l' == l
  | .learnerFailed l' _ _ => l' == l
  | .learnerAbandoned l' => l' == l
  | _ => false

def isIssue (l : Nat) : Event → Bool
  | .selSelect l' => l' == l
  | .learnerSucceeded _ (some l') => l' == l
  | .learnerFailed _ _ (some l') => l' == l
  | _ => false

def termCount (l : Nat) (evs : List Event) : Nat := evs.countP (isTerm l)
def issueCount (l : Nat) (evs : List Event) : Nat := evs.countP (isIssue l)

/-- worker `(q, w)` is assigned an uncompleted task with digest `d` -/
def ExecOK (s : State) (q : ScqId) (w : WId) (d : Nat) : Prop :=
  ∃ wk k t, wfind s.workers q w = some wk ∧ wk.task = some k ∧ alookup k s.tasks = some t ∧
    t.digest = d ∧ t.response = none

/-- events a `Synchronize` segment may emit: no selector calls, and every `execute`
instruction names the task the worker holds in `s` -/
def SyncEv (s : State) : Event → Prop
  | .selSelect _ => False
  | .selAbandoned => False
  | .syncExecute q w d _ => ExecOK s q w d
  | _ => True

theorem SyncEv.of_quiet {s : State} {e : Event} (h : Quiet e) : SyncEv s e := by
  cases e <;> simp_all [Quiet, SyncEv]

/-! ## the invariant -/

/-- a learner token is held by some task -/
def Held (ts : List (Nat × Task)) (l : Nat) : Prop := ∃ k t, alookup k ts = some t ∧ t.learner = some l

/-- Tasks, workers, deduplication map.  `ex` marks tasks that are in the middle of a
lock-held section and are momentarily neither queued nor assigned. -/
structure Core (ex : Nat → Prop) (ts : List (Nat × Task)) (ws : List Worker) (dd : List (Nat × Nat))
    (nt nl : Nat) : Prop where
  tnd : (keys ts).Nodup
  tid : ∀ k t, alookup k ts = some t → t.id = k ∧ k < nt
  wnd : WNodup ws
  dnd : (keys dd).Nodup
  p1 : ∀ q w wk k, wfind ws q w = some wk → wk.task = some k →
        ∃ t, alookup k ts = some t ∧ t.worker = some (q, w)
  p2 : ∀ k t q w, alookup k ts = some t → t.worker = some (q, w) →
        ∃ wk, wfind ws q w = some wk ∧ wk.task = some k
  p3 : ∀ k t, alookup k ts = some t → t.worker.isSome = true → t.response = none
  q1 : ∀ k t, alookup k ts = some t → t.queued = true → t.worker = none ∧ t.response = none
  q2 : ∀ k t, alookup k ts = some t → t.response = none → t.queued = true ∨ t.worker.isSome = true ∨ ex k
  d1 : ∀ dk k, alookup dk dd = some k → ∃ t, alookup k ts = some t ∧ t.dkey = dk ∧ t.response = none ∧
        t.doNotCache = false ∧ t.background = false
  d2 : ∀ k t, alookup k ts = some t → t.response = none → t.doNotCache = false → t.background = false →
        alookup t.dkey dd = some k
  bg : ∀ k t, alookup k ts = some t → t.background = true → t.doNotCache = true
  l1 : ∀ k t, alookup k ts = some t → (t.learner.isSome = true ↔ t.response = none)
  l2 : ∀ k t l, alookup k ts = some t → t.learner = some l → l < nl
  l3 : ∀ k k' t t' l, alookup k ts = some t → alookup k' ts = some t' → t.learner = some l →
        t'.learner = some l → k = k'
  w1 : ∀ q w wk, wfind ws q w = some wk → wk.parked = true →
        wk.task = none ∧ wk.drainWait = none ∧ wk.woken = false ∧ wk.inSync = true
  w2 : ∀ q w wk, wfind ws q w = some wk → wk.woken = true → wk.drainWait = none ∧ wk.inSync = true
  w3 : ∀ q w wk, wfind ws q w = some wk → wk.drainWait.isSome = true → wk.task = none ∧ wk.inSync = true

/-- operations ↔ tasks -/
structure OInv (exo : Nat → Prop) (ts : List (Nat × Task)) (os : List (Nat × Op)) (no : Nat) : Prop where
  ond : (keys os).Nodup
  oid : ∀ k o, alookup k os = some o → o.name = k ∧ k < no
  o1 : ∀ k o, alookup k os = some o → ∃ t, alookup o.task ts = some t ∧ k ∈ t.ops
  o2 : ∀ k t o, alookup k ts = some t → o ∈ t.ops → o < no ∧ (exo o ∨ ∃ op, alookup o os = some op ∧ op.task = k)
  o3 : ∀ k t, alookup k ts = some t → t.ops.Nodup ∧ t.ops ≠ []

/-- waiters, parked streams and the no-waiter cleanup entries -/
structure SInv (os : List (Nat × Op)) (sts : List Stream) (cl : List CleanupEntry) : Prop where
  s1 : ∀ k op, alookup k os = some op → (sts.countP (fun st => st.op = k)) ≤ op.waiters
  s2 : ∀ k op e, alookup k os = some op → e ∈ cl → e.kind = .op k → op.waiters = 0
  s3 : ∀ st, st ∈ sts → (alookup st.op os).isSome = true

/-- the ghost event log and the learner tokens -/
structure LogInv (ts : List (Nat × Task)) (nl : Nat) (evs : List Event) : Prop where
  g1 : ∀ l, termCount l evs ≤ issueCount l evs
  g2 : ∀ l, issueCount l evs ≤ 1
  g3 : ∀ l, Held ts l → termCount l evs = 0
  g4 : ∀ l, nl ≤ l → issueCount l evs = 0
  g5 : ∀ l, Held ts l → issueCount l evs = 1

structure InvX (ex exo : Nat → Prop) (s : State) : Prop where
  core : Core ex s.tasks s.workers s.dedup s.nextTask s.nextLearner
  oinv : OInv exo s.tasks s.ops s.nextOp
  sinv : SInv s.ops s.streams s.cleanup
  linv : LogInv s.tasks s.nextLearner s.events

abbrev Inv (s : State) : Prop := InvX (fun _ => False) (fun _ => False) s

/-! ## frame relations -/

/-- `k` names a task that will never run (again): completed or dropped. -/
def Dead (ts : List (Nat × Task)) (nt : Nat) (k : Nat) : Prop :=
  k < nt ∧ ∀ t, alookup k ts = some t → t.response.isSome = true

/-- `new ++ old` with every new element satisfying `P` -/
def Ext {α} (P : α → Prop) (old new' : List α) : Prop := ∃ new, new' = new ++ old ∧ ∀ e ∈ new, P e

theorem Ext.refl {α} (P : α → Prop) (l : List α) : Ext P l l := ⟨[], by simp, by simp⟩

theorem Ext.trans {α} {P : α → Prop} {a b c : List α} (h1 : Ext P a b) (h2 : Ext P b c) : Ext P a c := by
  obtain ⟨n1, e1, p1⟩ := h1
  obtain ⟨n2, e2, p2⟩ := h2
  refine ⟨n2 ++ n1, by simp [e1, e2], ?_⟩
  intro e he
  rcases List.mem_append.mp he with h | h
  · exact p2 e h
  · exact p1 e h

theorem Ext.mono {α} {P P' : α → Prop} {a b : List α} (h : Ext P a b) (hp : ∀ e, P e → P' e) : Ext P' a b := by
  obtain ⟨n, e, p⟩ := h
  exact ⟨n, e, fun x hx => hp x (p x hx)⟩

theorem Ext.cons {α} {P : α → Prop} {a b : List α} (h : Ext P a b) (x : α) (hx : P x) : Ext P a (x :: b) := by
  obtain ⟨n, e, p⟩ := h
  refine ⟨x :: n, by simp [e], ?_⟩
  intro y hy
  rcases List.mem_cons.mp hy with h | h
  · subst h; exact hx
  · exact p y h

/-- Monotone facts that hold across every helper and every segment. -/
structure Mono (s s' : State) : Prop where
  cfg : s'.cfg = s.cfg
  nt : s.nextTask ≤ s'.nextTask
  nl : s.nextLearner ≤ s'.nextLearner
  no : s.nextOp ≤ s'.nextOp
  dead : ∀ k, Dead s.tasks s.nextTask k → Dead s'.tasks s'.nextTask k
  asg : Ext (fun x => ¬ Dead s.tasks s.nextTask x.2.2) s.assigned s'.assigned

theorem Mono.refl (s : State) : Mono s s :=
  ⟨rfl, Nat.le_refl _, Nat.le_refl _, Nat.le_refl _, fun _ h => h, Ext.refl _ _⟩

theorem Mono.trans {a b c : State} (h1 : Mono a b) (h2 : Mono b c) : Mono a c := by
  refine ⟨h2.cfg.trans h1.cfg, Nat.le_trans h1.nt h2.nt, Nat.le_trans h1.nl h2.nl, Nat.le_trans h1.no h2.no,
    fun k hk => h2.dead k (h1.dead k hk), ?_⟩
  refine Ext.trans h1.asg (h2.asg.mono ?_)
  intro x hx hd
  exact hx (h1.dead _ hd)

/-- Frame of the helpers that run inside a segment before its own work (`enter`,
`complete`, …): monotone facts plus only quiet events. -/
structure Fr (s s' : State) : Prop extends Mono s s' where
  ev : Ext Quiet s.events s'.events

theorem Fr.refl (s : State) : Fr s s := ⟨Mono.refl s, Ext.refl _ _⟩

theorem Fr.trans {a b c : State} (h1 : Fr a b) (h2 : Fr b c) : Fr a c :=
  ⟨h1.toMono.trans h2.toMono, h1.ev.trans h2.ev⟩

/-- Workers that are not parked are left alone, except that their task may be taken away. -/
def RW (s s' : State) : Prop :=
  ∀ q w wk, wfind s.workers q w = some wk → wk.parked = false →
    ∃ wk', wfind s'.workers q w = some wk' ∧ wk' = { wk with task := wk'.task } ∧
      (wk'.task = wk.task ∨ wk'.task = none)

theorem RW.refl (s : State) : RW s s := fun q w wk h _ => ⟨wk, h, rfl, Or.inl rfl⟩

theorem RW.trans {a b c : State} (h1 : RW a b) (h2 : RW b c) : RW a c := by
  intro q w wk hw hp
  obtain ⟨wk1, hw1, e1, t1⟩ := h1 q w wk hw hp
  have hp1 : wk1.parked = false := by rw [e1]; exact hp
  obtain ⟨wk2, hw2, e2, t2⟩ := h2 q w wk1 hw1 hp1
  refine ⟨wk2, hw2, ?_, ?_⟩
  · rw [e2, e1]
  · rcases t2 with t2 | t2
    · rw [t2]; exact t1
    · exact Or.inr t2

end BbRe.Lemmas.SchedInv
