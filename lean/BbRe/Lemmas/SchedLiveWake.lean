import BbRe.Lemmas.SchedLiveMono3
import BbRe.Lemmas.SchedLiveStream
/-!
The wake-up invariant of parked client streams and of blocked `TerminateWorkers`
calls (C02 `no_lost_wakeup`): a snapshot never runs ahead of the generation of
its task, and is strictly behind once the task is completed.
-/
namespace BbRe.Lemmas.SchedLive
open BbRe.Sched

/-- a stream parked by this very segment: its snapshot is the current generation of an uncompleted task -/
def FreshStream (s' : State) (st : Stream) : Prop :=
  ∃ op t, s'.op? st.op = some op ∧ s'.task? op.task = some t ∧ t.response = none ∧ st.snap = t.gen

/-- every parked stream after a segment was parked before, or was parked by this segment with a fresh snapshot -/
def StreamsRel (s s' : State) : Prop := ∀ st ∈ s'.streams, st ∈ s.streams ∨ FreshStream s' st

theorem streamsRel_of_eq {s s' : State} (h : s'.streams = s.streams) : StreamsRel s s' :=
  fun _ hst => .inl (h ▸ hst)

theorem streamSend_streamsRel {s0 s s' : State} {c o : Nat} (h0 : s.streams = s0.streams)
    (hh : streamSend s c o = .ok s') : StreamsRel s0 s' := by
  obtain ⟨op, t, h1, h2, ⟨r, _, _, rfl⟩ | ⟨hr, rfl⟩⟩ := streamSend_ok hh
  · intro st hst
    simp only [sendDone_streams, List.mem_filter] at hst
    exact .inl (h0 ▸ hst.1)
  · intro st hst
    simp only [sendPark_streams, List.mem_cons, List.mem_filter] at hst
    rcases hst with rfl | hst
    · exact .inr ⟨op, t, h1, h2, hr, rfl⟩
    · exact .inl (h0 ▸ hst.1)

theorem streamAttach_streamsRel {s0 s s' : State} {c o : Nat} (h0 : s.streams = s0.streams)
    (hh : streamAttach s c o = .ok s') : StreamsRel s0 s' := by
  obtain ⟨op, _, h1⟩ := streamAttach_ok hh
  exact streamSend_streamsRel (s := attachS s o op) h0 h1

theorem streamLeave_streamsRel {s0 s s' : State} {c code : Nat} (h0 : s.streams = s0.streams)
    (hh : streamLeave s c code = .ok s') : StreamsRel s0 s' := by
  obtain ⟨st, op, _, _, _, rfl⟩ := streamLeave_ok hh
  intro st hst
  simp only [leaveS_streams, List.mem_filter] at hst
  exact .inl (h0 ▸ hst.1)

theorem step_streamsRel {s s' : State} {g : Seg} (hstep : step s g = .ok s') : StreamsRel s s' := by
  cases g with
  | register id comps pf sizes bm bp =>
    simp only [step, pure_ok] at hstep; subst hstep; exact streamsRel_of_eq rfl
  | exec h now c0 d dk dnc comps pf inv prio =>
    obtain ⟨s1, h1, h2 | h2 | h2⟩ := execArrive_ok hstep
    · obtain ⟨tid, t, _, _, ⟨o, _, h3⟩ | ⟨_, h3⟩⟩ := h2
      · exact streamAttach_streamsRel (s := emit s1 .selAbandoned) (enter_frame h1).streams h3
      · exact streamAttach_streamsRel (s := addOpS (emit s1 .selAbandoned) tid t inv prio) (enter_frame h1).streams h3
    · obtain ⟨_, _, rfl⟩ := h2
      exact streamsRel_of_eq (enter_frame h1).streams
    · obtain ⟨_, pq, sc, s3, _, _, h3, h4⟩ := h2
      refine streamAttach_streamsRel ?_ h4
      rw [(schedule_frame h3).streams]; simp only [newTaskS_streams]; exact (enter_frame h1).streams
  | wait h now c0 name =>
    obtain ⟨s1, h1, ⟨_, rfl⟩ | ⟨op, _, h2⟩⟩ := waitArrive_ok hstep
    · exact streamsRel_of_eq (enter_frame h1).streams
    · exact streamAttach_streamsRel (enter_frame h1).streams h2
  | streamWake h now c0 reason =>
    obtain ⟨s1, st, h1, _, ⟨_, h3⟩ | ⟨_, _, h3⟩⟩ := streamWake_ok hstep
    · exact streamLeave_streamsRel (enter_frame h1).streams h3
    · exact streamSend_streamsRel (enter_frame h1).streams h3
  | sync h now q comps pf w rep pi => exact streamsRel_of_eq (syncArrive_frame hstep).streams
  | syncWake h now q w reason => exact streamsRel_of_eq (syncWake_frame hstep).streams
  | killOp h now name code => exact streamsRel_of_eq (killOp_frame hstep).streams
  | killQueue h now q code => exact streamsRel_of_eq (killQueue_frame hstep).streams
  | addDrain h now q p => exact streamsRel_of_eq (addDrain_frame hstep).streams
  | removeDrain h now q p => exact streamsRel_of_eq (removeDrain_frame hstep).streams
  | terminate h now id p => exact streamsRel_of_eq (terminate_sframe hstep).streams
  | termWake id reason => exact streamsRel_of_eq (termWake_sframe hstep).streams
  | touch h now => exact streamsRel_of_eq (enter_frame hstep).streams

/-- **Wake-up invariant of parked streams.** -/
def WakeInv (s : State) : Prop :=
  ∀ st ∈ s.streams, st.op < s.nextOp ∧
    ∀ op t, s.op? st.op = some op → s.task? op.task = some t →
      st.snap ≤ t.gen ∧ (t.response.isSome = true → st.snap < t.gen)

theorem wakeInv_step {s s' : State} {g : Seg} (hk : KeysOK s) (hw : WakeInv s) (hstep : step s g = .ok s') :
    WakeInv s' := by
  obtain ⟨hk', rel⟩ := step_tstep hstep hk
  intro st hst
  rcases step_streamsRel hstep st hst with hold | ⟨op, t, h1, h2, hr, hsn⟩
  · obtain ⟨hlt, hinv⟩ := hw st hold
    refine ⟨Nat.lt_of_lt_of_le hlt rel.no, ?_⟩
    intro op' t' e1 e2
    obtain ⟨op, e3, e4⟩ := rel.ops _ _ hlt e1
    have hlt2 := (hk.oname _ _ e3).2.2
    rw [e4] at e2
    obtain ⟨t, e5, le⟩ := rel.tasks _ _ hlt2 e2
    obtain ⟨i1, i2⟩ := hinv op t e3 e5
    have := le.gen
    refine ⟨by omega, ?_⟩
    intro hsome
    cases hrt : t.response with
    | some r => have := i2 (by simp [hrt]); omega
    | none =>
      have := le.bump (.inr (by rw [hrt]; intro e; rw [e] at hsome; cases hsome))
      omega
  · refine ⟨(hk'.oname _ _ h1).2.1, ?_⟩
    intro op' t' e1 e2
    rw [h1] at e1; injection e1 with e1; subst e1
    rw [h2] at e2; injection e2 with e2; subst e2
    exact ⟨by omega, by simp [hr]⟩

theorem wakeInv_init (cfg : Cfg) : WakeInv (State.init cfg) := by
  intro st hst; simp [State.init] at hst

theorem wakeInv_reachable {s : State} (hs : Reachable s) : WakeInv s := by
  induction hs with
  | init cfg => exact wakeInv_init cfg
  | step g hr hstep ih => exact wakeInv_step (keysOK_reachable hr) ih hstep

end BbRe.Lemmas.SchedLive
