import BbRe.Lemmas.SchedLiveQuiesce4
/-!
The executable `quiesce` (C06): cancel every parked stream, return every blocked
`Synchronize` and `TerminateWorkers` call, then let time pass beyond every
deadline until the cleanup queue is empty.
-/
namespace BbRe.Lemmas.SchedLive
open BbRe.Sched

/-- hints used by the quiescing segments (they never schedule anything, so the hints are irrelevant) -/
def qh : Hints := ⟨[], 0, none, false⟩

def cancelSegs (n : Nat) (cs : List Nat) : List Seg := cs.map (fun c => .streamWake qh n c 2)
def syncSegs (n : Nat) (ks : List (ScqId × WId)) : List Seg := ks.map (fun k => .syncWake qh n k.1 k.2 2)
def termSegs (ids : List Nat) : List Seg := ids.map (fun i => .termWake i 2)

/-- a time beyond every armed deadline -/
def maxDeadline (s : State) : Nat := s.cleanup.foldl (fun m e => max m e.deadline) s.now

/-- let time pass beyond all deadlines, repeatedly (callbacks arm new entries) -/
def drain : Nat → State → State
  | 0, s => s
  | f + 1, s => if s.cleanup.isEmpty then s else drain f (run s [.touch qh (maxDeadline s + 1)])

/-- **quiesce**: all clients cancel, all workers and operators go away, and time passes. -/
def quiesce (s : State) : State :=
  let a := run s (cancelSegs s.now (s.streams.map (·.client)))
  let b := run a (syncSegs a.now (a.workers.map wkey))
  let c := run b (termSegs (b.terms.map (·.id)))
  drain (objCount c + 1) c

theorem run_single (s : State) (g : Seg) :
    run s [g] = match step s g with | .ok s' => s' | .error _ => s := by
  cases hs : step s g with
  | ok s1 => simp [run, hs]
  | error e => simp [run, hs]

theorem run_cons (s : State) (g : Seg) (gs : List Seg) : run s (g :: gs) = run (run s [g]) gs := by
  cases hs : step s g with
  | ok s1 => simp [run, hs]
  | error e => simp [run, hs]

/-- reachable, exact waiter counts, one stream per client -/
structure QS (s : State) : Prop where
  reach : Reachable s
  weq : WEq s
  nodup : ClientsNodup s

theorem qs_run {s : State} (h : QS s) (gs : List Seg) (hg : usedClients gs = []) : QS (run s gs) := by
  have h0 : QI (s.streams.map (·.client)) s :=
    ⟨h.reach, h.weq, h.nodup, fun st hm => List.mem_map.2 ⟨st, hm, rfl⟩⟩
  have := qi_run gs _ s h0 (by rw [hg]; exact List.nodup_nil) (by rw [hg]; intro c hc; cases hc)
  exact ⟨this.reach, this.weq, this.nodup⟩

theorem usedClients_of_none (gs : List Seg) (h : ∀ g ∈ gs, attachClient g = none) : usedClients gs = [] := by
  unfold usedClients
  rw [List.filterMap_eq_nil_iff]; exact h

/-! ### phase A: cancel all streams -/

theorem cancel_one {s : State} (hs : Reachable s) (c : Nat) :
    (run s [.streamWake qh s.now c 2]).streams = s.streams.filter (fun st => st.client ≠ c) ∧
    (run s [.streamWake qh s.now c 2]).now = s.now := by
  rw [run_single]
  cases hf : s.streams.find? (fun x => x.client = c) with
  | some st =>
    obtain ⟨op, _, _, e⟩ := streamWake_cancel hs qh hf
    rw [e]; exact ⟨by simp, by simp⟩
  | none =>
    have hnone : s.streams.filter (fun st => st.client ≠ c) = s.streams := by
      rw [List.filter_eq_self]
      rw [List.find?_eq_none] at hf
      intro st hm; simpa using hf st hm
    cases hst : step s (.streamWake qh s.now c 2) with
    | error e => exact ⟨hnone.symm, rfl⟩
    | ok s' =>
      obtain ⟨s1, st, h1, h2, _⟩ := streamWake_ok hst
      rw [enter_now] at h1; injection h1 with h1
      subst h1; rw [hf] at h2; cases h2

theorem cancel_all (n : Nat) : ∀ (cs : List Nat) (s : State), Reachable s → s.now = n →
    (run s (cancelSegs n cs)).streams = s.streams.filter (fun st => st.client ∉ cs) ∧
    (run s (cancelSegs n cs)).now = n := by
  intro cs
  induction cs with
  | nil => intro s _ hn; simp [cancelSegs, run, hn]; rw [List.filter_eq_self.2 (fun _ _ => rfl)]
  | cons c r ih =>
    intro s hs hn
    have hc : cancelSegs n (c :: r) = .streamWake qh n c 2 :: cancelSegs n r := rfl
    rw [hc, run_cons]
    subst hn
    obtain ⟨a, b⟩ := cancel_one hs c
    obtain ⟨a2, b2⟩ := ih _ (reachable_run hs _) b
    refine ⟨?_, b2⟩
    rw [a2, a, List.filter_filter]
    apply List.filter_congr
    intro st _; simp [Bool.and_comm]

/-! ### phase B: return all blocked `Synchronize` calls -/

theorem sync_one (s : State) (hn : (s.workers.map wkey).Nodup) (q : ScqId) (w : WId) :
    let s1 := run s [.syncWake qh s.now q w 2]
    s1.streams = s.streams ∧ s1.terms = s.terms ∧ s1.now = s.now ∧
    (∀ x' ∈ s1.workers, x'.inSync = true →
      ¬ (x'.scq = q ∧ x'.id = w) ∧ ∃ x ∈ s.workers, wkey x = wkey x' ∧ x.inSync = true) := by
  simp only
  rw [run_single]
  cases hst : step s (.syncWake qh s.now q w 2) with
  | error e =>
    refine ⟨rfl, rfl, rfl, ?_⟩
    intro x' hx' hi
    refine ⟨?_, x', hx', rfl, hi⟩
    rintro ⟨e1, e2⟩
    -- then the cancel would have succeeded
    have hex : ∃ wk, s.worker? q w = some wk := by
      cases hf : s.worker? q w with
      | some wk => exact ⟨wk, rfl⟩
      | none =>
        unfold State.worker? at hf
        rw [List.find?_eq_none] at hf
        exact absurd (by simp [e1, e2]) (hf x' hx')
    obtain ⟨wk, hwk⟩ := hex
    have : x' = wk := eq_of_wkey hn hx' (worker?_mem hwk).1 (by
      obtain ⟨_, a, b⟩ := worker?_mem hwk; simp [wkey, e1, e2, a, b])
    subst this
    have := syncWake_cancel s qh hwk hi
    rw [hst] at this; cases this
  | ok s' =>
    obtain ⟨s1, wk, h1, hwk, hin, h2⟩ := syncWake_ok (show syncWake qh s s.now q w 2 = .ok s' from hst)
    rw [enter_now] at h1; injection h1 with h1; subst h1
    have e := syncWake_cancel s qh hwk hin
    rw [hst] at e; injection e with e; subst e
    obtain ⟨hm, hq, hw'⟩ := worker?_mem hwk
    let wA : Worker := { wk with parked := false, woken := false, drainWait := none }
    have hA : (emit (s.setWorker wA) (.syncErr q w cCanceled)).worker? q w = some wA := by
      show (s.setWorker wA).worker? q w = some wA
      rw [worker?_setWorker]; simp only [wA, hq, hw', and_self, if_true, hwk, Option.map_some]
    refine ⟨by simp, by simp, by simp, ?_⟩
    intro x' hx' hi
    unfold syncReturn at hx'
    rw [hA] at hx'
    simp only [addCleanup_workers] at hx'
    rcases mem_setWorker hx' with rfl | ⟨hx1, hne1⟩
    · cases hi
    · have hx1' : x' ∈ (s.setWorker wA).workers := hx1
      rcases mem_setWorker hx1' with rfl | ⟨hx2, hne2⟩
      · exact absurd (by simp [wkey, wA]) hne1
      · refine ⟨?_, x', hx2, rfl, hi⟩
        rintro ⟨a, b⟩; exact hne2 (by simp [wkey, wA, a, b, hq, hw'])

theorem sync_all (n : Nat) : ∀ (ks : List (ScqId × WId)) (s : State), Reachable s → s.now = n →
    (run s (syncSegs n ks)).streams = s.streams ∧ (run s (syncSegs n ks)).terms = s.terms ∧
    (run s (syncSegs n ks)).now = n ∧
    (∀ x' ∈ (run s (syncSegs n ks)).workers, x'.inSync = true →
      wkey x' ∉ ks ∧ ∃ x ∈ s.workers, wkey x = wkey x' ∧ x.inSync = true) := by
  intro ks
  induction ks with
  | nil => intro s _ hn; exact ⟨rfl, rfl, hn, fun x' hx' hi => ⟨by simp, x', hx', rfl, hi⟩⟩
  | cons k r ih =>
    intro s hs hn
    have hc : syncSegs n (k :: r) = .syncWake qh n k.1 k.2 2 :: syncSegs n r := rfl
    rw [hc, run_cons]
    subst hn
    obtain ⟨a1, a2, a3, a4⟩ := sync_one s (winv_reachable hs).uniq k.1 k.2
    obtain ⟨b1, b2, b3, b4⟩ := ih _ (reachable_run hs _) a3
    refine ⟨b1.trans a1, b2.trans a2, b3, ?_⟩
    intro x' hx' hi
    obtain ⟨c1, x1, hx1, e1, i1⟩ := b4 x' hx' hi
    obtain ⟨d1, x0, hx0, e0, i0⟩ := a4 x1 hx1 i1
    refine ⟨?_, x0, hx0, e0.trans e1, i0⟩
    intro hmem
    rcases List.mem_cons.1 hmem with h | h
    · apply d1; rw [← e1] at h
      simp only [wkey] at h
      have := congrArg Prod.fst h; have := congrArg Prod.snd h
      simp_all
    · exact c1 h

/-! ### phase C: return all blocked `TerminateWorkers` calls -/

theorem term_one (s : State) (id : Nat) :
    (run s [.termWake id 2]).terms = s.terms.filter (fun t => t.id ≠ id) ∧
    (run s [.termWake id 2]).streams = s.streams ∧ (run s [.termWake id 2]).workers = s.workers ∧
    (run s [.termWake id 2]).now = s.now := by
  rw [run_single]
  cases hf : s.terms.find? (fun t => t.id = id) with
  | some tc => rw [termWake_cancel s hf]; exact ⟨rfl, rfl, rfl, rfl⟩
  | none =>
    have hnone : s.terms.filter (fun t => t.id ≠ id) = s.terms := by
      rw [List.filter_eq_self]; rw [List.find?_eq_none] at hf
      intro t hm; simpa using hf t hm
    cases hst : step s (.termWake id 2) with
    | error e => exact ⟨hnone.symm, rfl, rfl, rfl⟩
    | ok s' =>
      obtain ⟨tc, h1, _⟩ := termWake_ok (show termWake s id 2 = .ok s' from hst)
      rw [hf] at h1; cases h1

theorem term_all : ∀ (ids : List Nat) (s : State),
    (run s (termSegs ids)).terms = s.terms.filter (fun t => t.id ∉ ids) ∧
    (run s (termSegs ids)).streams = s.streams ∧ (run s (termSegs ids)).workers = s.workers ∧
    (run s (termSegs ids)).now = s.now := by
  intro ids
  induction ids with
  | nil => intro s; simp [termSegs, run]; rw [List.filter_eq_self.2 (fun _ _ => rfl)]
  | cons i r ih =>
    intro s
    have hc : termSegs (i :: r) = .termWake i 2 :: termSegs r := rfl
    rw [hc, run_cons]
    obtain ⟨a1, a2, a3, a4⟩ := term_one s i
    obtain ⟨b1, b2, b3, b4⟩ := ih (run s [.termWake i 2])
    refine ⟨?_, b2.trans a2, b3.trans a3, b4.trans a4⟩
    rw [b1, a1, List.filter_filter]
    apply List.filter_congr
    intro t _; simp [Bool.and_comm]

/-! ### phase D: let time pass -/

theorem foldl_max_ge {α} (f : α → Nat) (l : List α) (init : Nat) :
    init ≤ l.foldl (fun m e => max m (f e)) init ∧ ∀ e ∈ l, f e ≤ l.foldl (fun m e => max m (f e)) init := by
  induction l generalizing init with
  | nil => simp
  | cons a r ih =>
    simp only [List.foldl_cons]
    obtain ⟨h1, h2⟩ := ih (max init (f a))
    refine ⟨by omega, ?_⟩
    intro e he
    rcases List.mem_cons.1 he with rfl | he
    · omega
    · exact h2 e he

theorem maxDeadline_spec (s : State) : s.now ≤ maxDeadline s ∧ ∀ e ∈ s.cleanup, e.deadline ≤ maxDeadline s :=
  foldl_max_ge (fun e : CleanupEntry => e.deadline) s.cleanup s.now

theorem drain_round {s : State} (hq : QS s) (hne : s.cleanup ≠ []) :
    let s1 := run s [.touch qh (maxDeadline s + 1)]
    QS s1 ∧ objCount s1 < objCount s ∧ s1.streams = s.streams ∧ s1.terms = s.terms ∧ WSub s s1 := by
  simp only
  obtain ⟨hnow, hdl⟩ := maxDeadline_spec s
  obtain ⟨s1, hst, hrun⟩ := touch_ok hq.reach qh (maxDeadline s + 1)
  have hent : enter qh s (maxDeadline s + 1) = .ok s1 := hst
  rw [hrun]
  have hq1 : QS s1 := by
    have := qs_run hq [.touch qh (maxDeadline s + 1)] (by simp [usedClients, attachClient])
    rw [hrun] at this; exact this
  refine ⟨hq1, ?_, (enter_frame hent).streams, (enter_frame hent).terms, enter_wsub hent⟩
  rcases enter_ok hent with ⟨hle, _⟩ | ⟨_, h1⟩
  · omega
  · have hi0 : KWC noEx (setNow s (maxDeadline s + 1)) :=
      ⟨KWStep.of_same (s := s) rfl rfl rfl rfl rfl rfl (kwc_reachable hq.reach).1,
       (kwc_reachable hq.reach).2.frame (CFrame.of_same rfl rfl rfl rfl rfl)⟩
    obtain ⟨_, hlt⟩ := runCleanup_objCount (cleanupFuel s) _ _ hi0 h1
    have hdue : popDue (setNow s (maxDeadline s + 1)).now (setNow s (maxDeadline s + 1)).cleanup ≠ none := by
      intro hnone
      have := popDue_none.1 hnone
      obtain ⟨e, he⟩ := List.exists_mem_of_ne_nil _ hne
      have h1' := this e he
      have h2' := hdl e he
      simp only [setNow_now] at h1'
      omega
    have := hlt (by unfold cleanupFuel; omega) hdue
    simpa [objCount] using this

theorem drain_spec : ∀ (f : Nat) (s : State), QS s → objCount s < f →
    QS (drain f s) ∧ (drain f s).cleanup = [] ∧ (drain f s).streams = s.streams ∧ (drain f s).terms = s.terms ∧
    WSub s (drain f s) := by
  intro f
  induction f with
  | zero => intro s _ h; omega
  | succ f ih =>
    intro s hq hlt
    unfold drain
    by_cases he : s.cleanup.isEmpty = true
    · rw [if_pos he]
      exact ⟨hq, List.isEmpty_iff.1 he, rfl, rfl, WSub.refl s⟩
    · rw [if_neg he]
      have hne : s.cleanup ≠ [] := fun e => he (by rw [e]; rfl)
      obtain ⟨q1, c1, st1, t1, w1⟩ := drain_round hq hne
      obtain ⟨q2, c2, st2, t2, w2⟩ := ih _ q1 (by omega)
      exact ⟨q2, c2, st2.trans st1, t2.trans t1, w1.trans w2⟩

end BbRe.Lemmas.SchedLive
