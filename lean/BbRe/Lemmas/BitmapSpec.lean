import BbRe.Lemmas.BitmapFree
import BbRe.Spec.AllocSpec
/-! The bitmap allocator against `AllocSpec`: `new`, and each operation under the
abstraction `Bitmap.abs` and the invariant `Bitmap.Inv`. -/
namespace BbRe.Lemmas.Bitmap
open BbRe.Bitmap

theorem getW_new (n j : Nat) : getW (new n).bm j =
    if j < n / 64 then allBits else if j = n / 64 then ~~~(allBits <<< (n % 64)) else 0 := by
  simp only [getW_eq_getElem?, new, Array.getElem?_push, Array.size_replicate, Array.getElem?_replicate]
  by_cases h1 : j < n / 64
  · have : ¬ j = n / 64 := by omega
    simp [h1, this]
  · by_cases h2 : j = n / 64
    · simp [h2]
    · simp [h1, h2]

theorem bit_new (n i : Nat) : bit (new n).bm i = decide (i < n) := by
  rw [bit_def, getW_new]
  by_cases h1 : i / 64 < n / 64
  · rw [if_pos h1, getLsbD_allBits]; simp; omega
  · rw [if_neg h1]
    by_cases h2 : i / 64 = n / 64
    · rw [if_pos h2, getLsbD_low, Bool.eq_iff_iff]; simp; omega
    · rw [if_neg h2]; simp; omega

theorem new_inv (n : Nat) : Inv n (new n) :=
  ⟨by simp [new], by intro i hi; rw [bit_new]; simp; omega, by simp [new]⟩

theorem abs_new (n s : Nat) : abs n (new n) s = false := by
  simp only [abs, bit_new]
  by_cases h : 1 ≤ s ∧ s ≤ n
  · have : s - 1 < n := by omega
    simp [this]
  · rw [Bool.eq_false_iff]; simp; omega


/-- The bitmap allocator as an `AllocSpec.Impl`. -/
def impl : AllocSpec.Impl State :=
  { new := new, alloc := alloc, freeContiguous := freeContiguous, freeList := freeList }

theorem abs_wf (n : Nat) (st : State) : AllocSpec.WF n (abs n st) := by
  intro s hs
  simp [abs] at hs
  omega

theorem abs_eq_true {n : Nat} {st : State} {s : Nat} :
    abs n st s = true ↔ 1 ≤ s ∧ s ≤ n ∧ bit st.bm (s - 1) = false := by
  simp [abs]; constructor <;> intro h <;> simp [h]

theorem alloc_ok_spec (n : Nat) (st : State) (maximum first count : Nat) (hinv : Inv n st)
    (hmax : 1 ≤ maximum) (h : (alloc st maximum).2 = some (first, count)) :
    AllocSpec.AllocOk n (abs n st) maximum first count (abs n (alloc st maximum).1) := by
  obtain ⟨h1, h2, h3, h4, h5, h6, _⟩ := alloc_some hinv hmax h
  refine ⟨h1, h2, h3, h4, ?_, ?_⟩
  · intro s s1 s2
    have := h5 (s - 1) (by omega) (by omega)
    simp [abs, this]
  · intro s
    simp only [abs, h6, AllocSpec.inRun]
    by_cases hs : 1 ≤ s ∧ s ≤ n
    · have e1 : decide (first - 1 ≤ s - 1) = decide (first ≤ s) := by
        rw [Bool.eq_iff_iff]; simp; omega
      have e2 : decide (s - 1 < first - 1 + count) = decide (s < first + count) := by
        rw [Bool.eq_iff_iff]; simp; omega
      rw [e1, e2]
      simp [hs]
    · have e0 : (decide (1 ≤ s) && decide (s ≤ n)) = false := by
        rw [Bool.eq_false_iff]; simp; omega
      have e3 : (decide (first ≤ s) && decide (s < first + count)) = false := by
        rw [Bool.eq_false_iff]; simp; omega
      rw [e0, e3]; simp

theorem alloc_fail_spec (n : Nat) (st : State) (maximum : Nat) (h : (alloc st maximum).2 = none) :
    AllocSpec.AllocFail n (abs n st) (abs n (alloc st maximum).1) := by
  obtain ⟨h1, h2⟩ := alloc_none h
  refine ⟨?_, by intro s; rw [h1]⟩
  intro s s1 s2
  simp [abs, h2, s1, s2]

theorem alloc_inv (n : Nat) (st : State) (maximum : Nat) (hinv : Inv n st) (hmax : 1 ≤ maximum) :
    Inv n (alloc st maximum).1 := by
  cases h : (alloc st maximum).2 with
  | none => rw [(alloc_none h).1]; exact hinv
  | some r => obtain ⟨f, c⟩ := r; exact (alloc_some hinv hmax h).2.2.2.2.2.2

theorem freeContiguous_ok_spec (n : Nat) (st : State) (first count : Nat) (hinv : Inv n st)
    (hc : 1 ≤ count) (hpre : AllocSpec.FreeContiguousPre (abs n st) first count) :
    ∃ st', freeContiguous st first count = some st' ∧ Inv n st' ∧
      AllocSpec.FreeContiguousPost (abs n st) first count (abs n st') := by
  obtain ⟨h1, hall⟩ := hpre
  have hlast := abs_eq_true.1 (hall (first + count - 1) (by omega) (by omega))
  obtain ⟨st', e, hn, hs, hb⟩ := freeContiguous_bits hinv first count h1 hc (by omega) (by
    intro i i1 i2
    have := abs_eq_true.1 (hall (i + 1) (by omega) (by omega))
    simpa using this.2.2)
  refine ⟨st', e, ⟨by rw [hs]; exact hinv.size, ?_, by rw [hn]; exact hinv.next⟩, ?_⟩
  · intro i hi
    rw [hb, hinv.tail i hi]
    simp; omega
  · intro s
    simp only [abs, hb, AllocSpec.inRun]
    by_cases hs : 1 ≤ s ∧ s ≤ n
    · have e1 : decide (first - 1 ≤ s - 1) = decide (first ≤ s) := by
        rw [Bool.eq_iff_iff]; simp; omega
      have e2 : decide (s - 1 < first - 1 + count) = decide (s < first + count) := by
        rw [Bool.eq_iff_iff]; simp; omega
      rw [e1, e2]
      simp [hs]
    · have e0 : (decide (1 ≤ s) && decide (s ≤ n)) = false := by
        rw [Bool.eq_false_iff]; simp; omega
      rw [e0]; simp

theorem freeList_ok_spec (n : Nat) (st : State) (sectors : List Nat) (hinv : Inv n st)
    (hpre : AllocSpec.FreeListPre (abs n st) sectors) :
    ∃ st', freeList st sectors = some st' ∧ Inv n st' ∧
      AllocSpec.FreeListPost (abs n st) sectors (abs n st') := by
  obtain ⟨hall, hnd⟩ := hpre
  obtain ⟨bm', e, hs, hb⟩ := freeListBm_ok n sectors st.bm hinv.size (by
    intro s hs h0
    have := abs_eq_true.1 (hall s hs h0)
    exact ⟨this.2.1, this.2.2⟩) hnd
  refine ⟨{ st with bm := bm' }, by simp [freeList, e], ⟨by simp only; rw [hs]; exact hinv.size, ?_, hinv.next⟩, ?_⟩
  · intro i hi
    simp only
    rw [hb, hinv.tail i hi]
    simp only [Bool.false_or]
    rw [Bool.eq_false_iff]
    intro hc
    have hm : i + 1 ∈ sectors := by simpa using hc
    have := abs_eq_true.1 (hall (i + 1) hm (by omega))
    omega
  · intro s
    simp only [abs, hb]
    by_cases hs0 : 1 ≤ s
    · have : s - 1 + 1 = s := by omega
      rw [this]
      have : decide (s ≠ 0) = true := by simp; omega
      rw [this]
      cases bit st.bm (s - 1) <;> cases sectors.contains s <;> simp
    · have : s = 0 := by omega
      subst this; simp

/-- States reachable from a fresh allocator of `n` sectors by calls that respect the contract
of `sector_allocator.go` (`maximum ≥ 1`; frees only of sectors that are handed out). -/
inductive Reach (n : Nat) : State → Prop
  | new : Reach n (new n)
  | alloc {st : State} (max : Nat) : Reach n st → 1 ≤ max → Reach n (alloc st max).1
  | freeContiguous {st st' : State} (first count : Nat) : Reach n st → 1 ≤ count →
      AllocSpec.FreeContiguousPre (abs n st) first count →
      freeContiguous st first count = some st' → Reach n st'
  | freeList {st st' : State} (sectors : List Nat) : Reach n st →
      AllocSpec.FreeListPre (abs n st) sectors → freeList st sectors = some st' → Reach n st'

/-- The sectors that are allocated, in increasing order. -/
def allocatedList (n : Nat) (st : State) : List Nat :=
  ((List.range n).filter (fun i => !bit st.bm i)).map (· + 1)


end BbRe.Lemmas.Bitmap
