import BbRe.Lemmas.SchedLiveFrame2
/-!
What a segment does to client streams, as seen by one client `c`: the `msg`
events it appends for `c` and whether `c` has a parked stream before / after
(C02 `at_most_one_done`).
-/
namespace BbRe.Lemmas.SchedLive
open BbRe.Sched

/-- `e` is a `msg` event addressed to client `c` -/
def isMsgOf (c : Nat) : Event → Bool
  | .msg c' _ _ _ _ _ => c' == c
  | _ => false

/-- client `c` has a parked stream -/
def hasStream (s : State) (c : Nat) : Bool := s.streams.any (fun x => x.client = c)

/-- the segment is an `Execute` / `WaitExecution` call of client `c` -/
def isAttachOf (c : Nat) : Seg → Bool
  | .exec _ _ c' _ _ _ _ _ _ _ => c' == c
  | .wait _ _ c' _ => c' == c
  | _ => false

theorem filter_msg_nonclient (c : Nat) (l : List Event) (h : ∀ e ∈ l, isClientEv e = false) :
    l.filter (isMsgOf c) = [] := by
  rw [List.filter_eq_nil_iff]
  intro e he hm
  have := h e he
  cases e <;> simp_all [isMsgOf, isClientEv]

/-- Effect of a segment of client `c0` on all clients. -/
structure ClientEff (c0 : Nat) (s s' : State) : Prop where
  ev : ∃ new, s'.events = new ++ s.events ∧
        (∀ c, c ≠ c0 → new.filter (isMsgOf c) = []) ∧
        ((new.filter (isMsgOf c0) = [] ∧ (hasStream s' c0 = true → hasStream s c0 = true)) ∨
         (∃ o st code tok, new.filter (isMsgOf c0) = [.msg c0 o st true code tok] ∧ hasStream s' c0 = false) ∨
         (∃ o st, new.filter (isMsgOf c0) = [.msg c0 o st false 0 0] ∧ hasStream s' c0 = true))
  others : ∀ c, c ≠ c0 → hasStream s' c = hasStream s c

theorem ClientEff.of_frame {c0 : Nat} {s s' : State} (h : Frame s s') : ClientEff c0 s s' := by
  obtain ⟨new, e, p⟩ := h.events
  refine ⟨⟨new, e, fun c _ => filter_msg_nonclient c new p, .inl ⟨filter_msg_nonclient c0 new p, ?_⟩⟩, ?_⟩
  · unfold hasStream; rw [h.streams]; exact id
  · intro c _; unfold hasStream; rw [h.streams]

theorem ClientEff.after_frame {c0 : Nat} {a b c : State} (h1 : Frame a b) (h2 : ClientEff c0 b c) :
    ClientEff c0 a c := by
  obtain ⟨n1, e1, p1⟩ := h1.events
  obtain ⟨⟨n2, e2, q1, q2⟩, q3⟩ := h2
  have hs : ∀ x, hasStream b x = hasStream a x := by intro x; unfold hasStream; rw [h1.streams]
  refine ⟨⟨n2 ++ n1, by rw [e2, e1, List.append_assoc], ?_, ?_⟩, ?_⟩
  · intro x hx; rw [List.filter_append, q1 x hx, filter_msg_nonclient x n1 p1]; rfl
  · rw [List.filter_append, filter_msg_nonclient c0 n1 p1, List.append_nil, ← hs]; exact q2
  · intro x hx; rw [q3 x hx, hs]

theorem ClientEff.then_frame {c0 : Nat} {a b c : State} (h1 : ClientEff c0 a b) (h2 : Frame b c) :
    ClientEff c0 a c := by
  obtain ⟨n2, e2, p2⟩ := h2.events
  obtain ⟨⟨n1, e1, q1, q2⟩, q3⟩ := h1
  have hs : ∀ x, hasStream c x = hasStream b x := by intro x; unfold hasStream; rw [h2.streams]
  refine ⟨⟨n2 ++ n1, by rw [e2, e1, List.append_assoc], ?_, ?_⟩, ?_⟩
  · intro x hx; rw [List.filter_append, q1 x hx, filter_msg_nonclient x n2 p2]; rfl
  · rw [List.filter_append, filter_msg_nonclient c0 n2 p2, List.nil_append, hs]; exact q2
  · intro x hx; rw [hs, q3 x hx]

theorem any_filter_ne (l : List Stream) (c c0 : Nat) (h : c ≠ c0) :
    (l.filter (fun x => x.client ≠ c0)).any (fun x => x.client = c) = l.any (fun x => x.client = c) := by
  rw [Bool.eq_iff_iff]; simp only [List.any_eq_true, List.mem_filter, decide_eq_true_eq]
  constructor
  · rintro ⟨x, ⟨hx, _⟩, hc⟩; exact ⟨x, hx, hc⟩
  · rintro ⟨x, hx, hc⟩; exact ⟨x, ⟨hx, by rw [hc]; exact h⟩, hc⟩

theorem any_filter_self (l : List Stream) (c0 : Nat) :
    (l.filter (fun x => x.client ≠ c0)).any (fun x => x.client = c0) = false := by
  rw [Bool.eq_false_iff]; simp only [ne_eq, List.any_eq_true, List.mem_filter, decide_eq_true_eq, decide_not,
    Bool.not_eq_eq_eq_not, Bool.not_true, decide_eq_false_iff_not]
  rintro ⟨x, ⟨_, hx⟩, hc⟩; exact hx hc

theorem streamSend_eff {s s' : State} {c0 o : Nat} (hh : streamSend s c0 o = .ok s') : ClientEff c0 s s' := by
  obtain ⟨op, t, _, _, ⟨r, _, _, rfl⟩ | ⟨_, rfl⟩⟩ := streamSend_ok hh
  · refine ⟨⟨[.ret c0 cOK, .msg c0 o t.stage true r.code r.tok], by simp, ?_, .inr (.inl ⟨o, t.stage, r.code, r.tok, ?_, ?_⟩)⟩, ?_⟩
    · intro c hc; simp [isMsgOf, Ne.symm hc]
    · simp [isMsgOf]
    · simp only [hasStream, sendDone_streams]; exact any_filter_self _ _
    · intro c hc; simp only [hasStream, sendDone_streams]; exact any_filter_ne _ _ _ hc
  · refine ⟨⟨[.msg c0 o t.stage false 0 0], by simp, ?_, .inr (.inr ⟨o, t.stage, ?_, ?_⟩)⟩, ?_⟩
    · intro c hc; simp [isMsgOf, Ne.symm hc]
    · simp [isMsgOf]
    · simp [hasStream]
    · intro c hc; simp only [hasStream, sendPark_streams, List.any_cons]
      rw [any_filter_ne _ _ _ hc]; simp [Ne.symm hc]

theorem streamAttach_eff {s s' : State} {c0 o : Nat} (hh : streamAttach s c0 o = .ok s') : ClientEff c0 s s' := by
  obtain ⟨op, _, h1⟩ := streamAttach_ok hh
  exact ClientEff.after_frame (Frame.of_eq (s := s) (s' := attachS s o op) rfl rfl rfl rfl) (streamSend_eff h1)

theorem streamLeave_eff {s s' : State} {c0 code : Nat} (hh : streamLeave s c0 code = .ok s') : ClientEff c0 s s' := by
  obtain ⟨st, op, _, _, _, rfl⟩ := streamLeave_ok hh
  refine ⟨⟨[.ret c0 code], by simp, ?_, .inl ⟨by simp [isMsgOf], ?_⟩⟩, ?_⟩
  · intro c _; simp [isMsgOf]
  · simp only [hasStream, leaveS_streams]; rw [any_filter_self]; simp
  · intro c hc; simp only [hasStream, leaveS_streams]; exact any_filter_ne _ _ _ hc

theorem execArrive_eff {h : Hints} {s s' : State} {now c digest dkey : Nat} {dnc : Bool} {comps : List Nat}
    {platform : Nat} {inv : List Nat} {prio : Int}
    (hh : execArrive h s now c digest dkey dnc comps platform inv prio = .ok s') : ClientEff c s s' := by
  obtain ⟨s1, h1, h2 | h2 | h2⟩ := execArrive_ok hh
  · obtain ⟨tid, t, _, _, ⟨o, _, h3⟩ | ⟨_, h3⟩⟩ := h2
    · exact ClientEff.after_frame ((enter_frame h1).trans
        (Frame.of_ev (s := s1) (s' := emit s1 .selAbandoned) (ev := .selAbandoned) rfl rfl rfl rfl rfl)) (streamAttach_eff h3)
    · exact ClientEff.after_frame (((enter_frame h1).trans
        (Frame.of_ev (s := s1) (s' := emit s1 .selAbandoned) (ev := .selAbandoned) rfl rfl rfl rfl rfl)).trans
        (Frame.of_eq (s' := addOpS (emit s1 .selAbandoned) tid t inv prio) rfl rfl rfl rfl)) (streamAttach_eff h3)
  · obtain ⟨_, _, rfl⟩ := h2
    refine ClientEff.after_frame ((enter_frame h1).trans
      (Frame.of_ev (s := s1) (s' := emit s1 .selAbandoned) (ev := .selAbandoned) rfl rfl rfl rfl rfl)) ?_
    refine ⟨⟨[_], rfl, ?_, .inl ⟨by simp [isMsgOf], fun h => h⟩⟩, fun _ _ => rfl⟩
    intro c' _; simp [isMsgOf]
  · obtain ⟨_, pq, sc, s3, _, _, h3, h4⟩ := h2
    exact ClientEff.after_frame (((enter_frame h1).trans
      (Frame.of_ev (s := s1) (s' := newTaskS s1 digest dkey dnc ⟨pq.id, sc⟩ inv prio) (ev := .selSelect s1.nextLearner)
        (by simp) (by simp) (by simp) (by simp) rfl)).trans
        (schedule_frame h3)) (streamAttach_eff h4)

theorem waitArrive_eff {h : Hints} {s s' : State} {now c name : Nat}
    (hh : waitArrive h s now c name = .ok s') : ClientEff c s s' := by
  obtain ⟨s1, h1, ⟨_, rfl⟩ | ⟨op, _, h2⟩⟩ := waitArrive_ok hh
  · refine ClientEff.after_frame (enter_frame h1) ?_
    refine ⟨⟨[_], rfl, ?_, .inl ⟨by simp [isMsgOf], fun h => h⟩⟩, fun _ _ => rfl⟩
    intro c' _; simp [isMsgOf]
  · exact ClientEff.after_frame (enter_frame h1) (streamAttach_eff h2)

theorem streamWake_eff {h : Hints} {s s' : State} {now c reason : Nat}
    (hh : streamWake h s now c reason = .ok s') : ClientEff c s s' ∧ hasStream s c = true := by
  obtain ⟨s1, st, h1, h2, h3⟩ := streamWake_ok hh
  have hst : hasStream s c = true := by
    unfold hasStream; rw [← (enter_frame h1).streams]
    rw [List.any_eq_true]
    exact ⟨st, List.mem_of_find?_eq_some h2, by simpa using List.find?_some h2⟩
  refine ⟨ClientEff.after_frame (enter_frame h1) ?_, hst⟩
  rcases h3 with ⟨_, h3⟩ | ⟨_, _, h3⟩
  · exact streamLeave_eff h3
  · exact streamSend_eff h3

/-- streams untouched, no client events (what `terminate` / `termWake` still guarantee) -/
structure SFrame (s s' : State) : Prop where
  streams : s'.streams = s.streams
  events : ∃ new, s'.events = new ++ s.events ∧ ∀ e ∈ new, isClientEv e = false

theorem Frame.toS {s s' : State} (h : Frame s s') : SFrame s s' := ⟨h.streams, h.events⟩

theorem SFrame.trans {a b c : State} (h1 : SFrame a b) (h2 : SFrame b c) : SFrame a c := by
  obtain ⟨n1, e1, p1⟩ := h1.events
  obtain ⟨n2, e2, p2⟩ := h2.events
  refine ⟨h2.streams.trans h1.streams, n2 ++ n1, by rw [e2, e1, List.append_assoc], ?_⟩
  intro e he; rcases List.mem_append.1 he with h | h
  · exact p2 e h
  · exact p1 e h

theorem ClientEff.of_sframe {c0 : Nat} {s s' : State} (h : SFrame s s') : ClientEff c0 s s' := by
  obtain ⟨new, e, p⟩ := h.events
  refine ⟨⟨new, e, fun c _ => filter_msg_nonclient c new p, .inl ⟨filter_msg_nonclient c0 new p, ?_⟩⟩, ?_⟩
  · unfold hasStream; rw [h.streams]; exact id
  · intro c _; unfold hasStream; rw [h.streams]

theorem terminate_sframe {h : Hints} {s s' : State} {now id : Nat} {p : Pattern}
    (hh : terminate h s now id p = .ok s') : SFrame s s' := by
  obtain ⟨s1, h1, h2⟩ := terminate_ok hh
  simp only at h2
  refine (enter_frame h1).toS.trans
    ((foldl_frame termMark termMark_frame (s1.workers.filter (fun w => p.matches w.id)) s1).toS.trans ?_)
  rcases h2 with ⟨_, rfl⟩ | ⟨_, rfl⟩
  · exact ⟨rfl, [_], rfl, by simp [isClientEv]⟩
  · exact ⟨rfl, [], rfl, by simp⟩

theorem termWake_sframe {s s' : State} {id reason : Nat} (hh : termWake s id reason = .ok s') : SFrame s s' := by
  obtain ⟨tc, _, ⟨_, rfl⟩ | ⟨_, _, rfl⟩⟩ := termWake_ok hh
  · exact ⟨rfl, [_], rfl, by simp [isClientEv]⟩
  · exact ⟨rfl, [_], rfl, by simp [isClientEv]⟩

/-- **Per-segment client view.**  For every successful segment and every client `c` the segment
appends (i) no `msg` for `c`, and then it creates no parked stream for `c`; or (ii) exactly one
`msg` for `c`, marked `done`, and `c` has no parked stream afterwards; or (iii) exactly one `msg`
for `c`, not `done`, and `c` is parked afterwards.  Cases (ii)/(iii) only happen in an
`Execute`/`WaitExecution` segment of `c` itself or when `c` had a parked stream before. -/
theorem step_client {s s' : State} {g : Seg} (hstep : step s g = .ok s') (c : Nat) :
    ∃ new, s'.events = new ++ s.events ∧
      ((new.filter (isMsgOf c) = [] ∧ (hasStream s' c = true → hasStream s c = true)) ∨
       ((isAttachOf c g = true ∨ hasStream s c = true) ∧
        ((∃ o st code tok, new.filter (isMsgOf c) = [.msg c o st true code tok] ∧ hasStream s' c = false) ∨
         (∃ o st, new.filter (isMsgOf c) = [.msg c o st false 0 0] ∧ hasStream s' c = true)))) := by
  -- every segment is a `ClientEff` of some client `c0`, which is `c` only in the three stream segments
  have key : ∀ c0, ClientEff c0 s s' → (c0 = c → isAttachOf c g = true ∨ hasStream s c = true) →
      ∃ new, s'.events = new ++ s.events ∧
      ((new.filter (isMsgOf c) = [] ∧ (hasStream s' c = true → hasStream s c = true)) ∨
       ((isAttachOf c g = true ∨ hasStream s c = true) ∧
        ((∃ o st code tok, new.filter (isMsgOf c) = [.msg c o st true code tok] ∧ hasStream s' c = false) ∨
         (∃ o st, new.filter (isMsgOf c) = [.msg c o st false 0 0] ∧ hasStream s' c = true)))) := by
    intro c0 ⟨⟨new, e, q1, q2⟩, q3⟩ hc
    refine ⟨new, e, ?_⟩
    by_cases hcc : c = c0
    · subst hcc
      rcases q2 with q2 | q2 | q2
      · exact .inl q2
      · exact .inr ⟨hc rfl, .inl q2⟩
      · exact .inr ⟨hc rfl, .inr q2⟩
    · exact .inl ⟨q1 c hcc, by rw [q3 c hcc]; exact id⟩
  have fr : Frame s s' → _ := fun f => key (c + 1) (ClientEff.of_frame f) (fun e => absurd e (by omega))
  have sfr : SFrame s s' → _ := fun f => key (c + 1) (ClientEff.of_sframe f) (fun e => absurd e (by omega))
  cases g with
  | register id comps pf sizes bm bp =>
    simp only [step, pure_ok] at hstep; subst hstep
    exact fr (Frame.of_eq rfl rfl rfl rfl)
  | exec h now c0 d dk dnc comps pf inv prio =>
    exact key c0 (execArrive_eff hstep) (fun e => .inl (by simp [isAttachOf, e]))
  | wait h now c0 name =>
    exact key c0 (waitArrive_eff hstep) (fun e => .inl (by simp [isAttachOf, e]))
  | streamWake h now c0 reason =>
    obtain ⟨h1, h2⟩ := streamWake_eff hstep
    exact key c0 h1 (fun e => .inr (e ▸ h2))
  | sync h now q comps pf w rep pi => exact fr (syncArrive_frame hstep)
  | syncWake h now q w reason => exact fr (syncWake_frame hstep)
  | killOp h now name code => exact fr (killOp_frame hstep)
  | killQueue h now q code => exact fr (killQueue_frame hstep)
  | addDrain h now q p => exact fr (addDrain_frame hstep)
  | removeDrain h now q p => exact fr (removeDrain_frame hstep)
  | terminate h now id p => exact sfr (terminate_sframe hstep)
  | termWake id reason => exact sfr (termWake_sframe hstep)
  | touch h now => exact fr (enter_frame hstep)

/-- no segment of the list is an `Execute` / `WaitExecution` call of client `c` -/
def noAttach (c : Nat) (gs : List Seg) : Prop := ∀ g ∈ gs, isAttachOf c g = false

/-- **Run-level corollary.**  Once client `c` has no parked stream, no run without a new
`Execute` / `WaitExecution` of `c` sends it any message, and `c` stays without a stream. -/
theorem run_no_msg {s : State} {c : Nat} (gs : List Seg) (hs : hasStream s c = false) (hg : noAttach c gs) :
    hasStream (run s gs) c = false ∧
    ∃ new, (run s gs).events = new ++ s.events ∧ new.filter (isMsgOf c) = [] := by
  induction gs generalizing s with
  | nil => exact ⟨hs, [], rfl, rfl⟩
  | cons g rest ih =>
    have hg' : noAttach c rest := fun x hx => hg x (List.mem_cons_of_mem _ hx)
    unfold run
    split
    · rename_i s1 h1
      obtain ⟨new, e, h2 | ⟨h2, _⟩⟩ := step_client h1 c
      · have hs1 : hasStream s1 c = false := by
          cases hb : hasStream s1 c with
          | false => rfl
          | true => rw [h2.2 hb] at hs; cases hs
        obtain ⟨i1, new2, e2, i2⟩ := ih hs1 hg'
        exact ⟨i1, new2 ++ new, by rw [e2, e, List.append_assoc], by rw [List.filter_append, i2, h2.1]; rfl⟩
      · rcases h2 with h2 | h2
        · rw [hg g (List.mem_cons_self ..)] at h2; cases h2
        · rw [hs] at h2; cases h2
    · exact ih hs hg'

end BbRe.Lemmas.SchedLive
