import BbRe.Lemmas.SchedLiveQuiesce3
/-!
What `enter` does to the worker list (only removals, `inSync` untouched) and to
the number of objects (never grows; shrinks when something was due).
-/
namespace BbRe.Lemmas.SchedLive
open BbRe.Sched

/-- every worker after was there before, with the same `inSync` flag -/
def WSub (s s' : State) : Prop :=
  ∀ wk' ∈ s'.workers, ∃ wk ∈ s.workers, wkey wk = wkey wk' ∧ wk.inSync = wk'.inSync

theorem WSub.refl (s : State) : WSub s s := fun wk h => ⟨wk, h, rfl, rfl⟩
theorem WSub.trans {a b c : State} (h1 : WSub a b) (h2 : WSub b c) : WSub a c := by
  intro wk' hm
  obtain ⟨wb, hb, e1, e2⟩ := h2 wk' hm
  obtain ⟨wa, ha, e3, e4⟩ := h1 wb hb
  exact ⟨wa, ha, e3.trans e1, e4.trans e2⟩
theorem WSub.of_eq {s s' : State} (h : s'.workers = s.workers) : WSub s s' := fun wk hm => ⟨wk, h ▸ hm, rfl, rfl⟩

theorem detachW_wsub (s : State) (t : Task) : WSub s (detachW s t) := by
  unfold detachW
  split
  · split
    · rename_i q w wk hwk
      intro x hx
      rcases mem_setWorker hx with rfl | ⟨hx1, _⟩
      · exact ⟨wk, (worker?_mem hwk).1, rfl, rfl⟩
      · exact ⟨x, hx1, rfl, rfl⟩
    · exact WSub.refl _
  · exact WSub.refl _

theorem complete_wsub {h : Hints} {s s' : State} {tid : Nat} {r : Resp} (hns : ¬ isSucc r)
    (hh : complete h s tid r false = .ok s') : WSub s s' := by
  obtain ⟨t, h0, ⟨_, rfl⟩ | ⟨_, l, _, h1 | h1 | h1⟩⟩ := complete_ok hh
  · exact WSub.refl _
  · exact absurd h1.1 hns
  · cases h1.2.1
  · obtain ⟨_, _, ev, _, rfl⟩ := h1
    exact (detachW_wsub s t).trans (WSub.of_eq (by simp))

theorem cancelAllQueued_wsub {h : Hints} {s s' : State} {q : ScqId} {r : Resp} (hns : ¬ isSucc r)
    (hh : cancelAllQueued h s q r = .ok s') : WSub s s' :=
  cancelAllQueued_rel WSub WSub.refl (fun _ _ _ => WSub.trans) (fun _ _ _ hc => complete_wsub hns hc) hh

theorem callback_wsub {h : Hints} {s s' : State} {e : CleanupEntry} (hh : callback h s e = .ok s') : WSub s s' := by
  unfold callback at hh
  split at hh
  · rename_i q w _
    rcases removeStaleWorker_ok hh with ⟨_, rfl⟩ | ⟨wk, s1, _, h1, rfl⟩
    · exact WSub.refl _
    · have h1' : WSub s s1 := by
        rcases h1 with ⟨t, _, h1⟩ | ⟨_, rfl⟩
        · exact complete_wsub (by simp [isSucc, cUnavailable, cOK]) h1
        · exact WSub.refl _
      refine h1'.trans ?_
      intro x hx
      have : (dropWorker s1 q w e.deadline).workers = (filterWorkers s1 q w).workers := by
        unfold dropWorker; (repeat' split) <;> rfl
      rw [this] at hx
      exact ⟨x, (mem_filterWorkers.1 hx).1, rfl, rfl⟩
  · rcases removeOp_ok hh with ⟨_, rfl⟩ | ⟨op, t, s1, t1, _, _, h1, _, rfl⟩
    · exact WSub.refl _
    · have h1' : WSub s s1 := by
        rcases h1 with ⟨_, h1⟩ | ⟨_, rfl⟩
        · exact (WSub.of_eq (s := s) (s' := eraseOp s _) rfl).trans (complete_wsub (by simp [isSucc, cCanceled, cOK]) h1)
        · exact WSub.of_eq rfl
      exact h1'.trans (WSub.of_eq (by simp))
  · obtain ⟨s1, h1, rfl⟩ := removeScq_ok hh
    exact (cancelAllQueued_wsub (by simp [isSucc, cUnavailable, cOK]) h1).trans (WSub.of_eq (by simp))

theorem runCleanup_wsub {h : Hints} {f : Nat} {s s' : State} (hh : runCleanup h f s = .ok s') : WSub s s' :=
  runCleanup_rel WSub WSub.refl (fun _ _ _ => WSub.trans) (fun _ _ _ _ => WSub.of_eq rfl)
    (fun _ _ _ => callback_wsub) f s s' hh

theorem enter_wsub {h : Hints} {s s' : State} {t : Nat} (hh : enter h s t = .ok s') : WSub s s' := by
  rcases enter_ok hh with ⟨_, rfl⟩ | ⟨_, h1⟩
  · exact WSub.refl _
  · exact (WSub.of_eq (s := s) (s' := setNow s t) rfl).trans (runCleanup_wsub h1)

/-- the cleanup loop never creates an object, and removes one whenever something is due -/
theorem runCleanup_objCount {h : Hints} (f : Nat) (s s' : State) (hi : KWC noEx s) (hh : runCleanup h f s = .ok s') :
    objCount s' ≤ objCount s ∧ (0 < f → popDue s.now s.cleanup ≠ none → objCount s' < objCount s) := by
  induction f generalizing s with
  | zero => rw [runCleanup_zero, pure_ok] at hh; subst hh; exact ⟨Nat.le_refl _, fun h => absurd h (Nat.lt_irrefl 0)⟩
  | succ f ih =>
    rw [runCleanup_succ] at hh
    cases hp : popDue s.now s.cleanup with
    | none => simp only [hp, pure_ok] at hh; subst hh; exact ⟨Nat.le_refl _, fun _ hne => absurd rfl hne⟩
    | some p =>
      obtain ⟨e, rest⟩ := p
      simp only [hp, bind_ok] at hh
      obtain ⟨s1, h1, h2⟩ := hh
      have hi1 := callback_kwc hi hp h1
      obtain ⟨hd, _⟩ := callback_decreases hi hp h1
      obtain ⟨a, _⟩ := ih s1 hi1 h2
      exact ⟨by omega, fun _ _ => by omega⟩

end BbRe.Lemmas.SchedLive
