import BbRe.Lemmas.SchedTreePrimExec
/-!
`getOrCreateInvocation`, the root invocations of new size-class queues and the removal of the tree of a
size-class queue preserve the tree invariant (the bags do not change).
-/
namespace BbRe.Lemmas.SchedTree
open BbRe.Sched BbRe.SchedTree

variable {X : List (ScqId × List Nat)} {ns : List Node} {E : List EC} {I : List IC} {Q : List QC} {P : List PC}

/-! ### lists from the back, `prefixes`, `node?` over an appended list -/

theorem list_snoc_ind {α : Type _} {motive : List α → Prop} (hnil : motive [])
    (hsnoc : ∀ l a, motive l → motive (l ++ [a])) : ∀ l, motive l := by
  intro l
  have hr : ∀ r : List α, motive r.reverse := by
    intro r
    induction r with
    | nil => exact hnil
    | cons a t ih => rw [List.reverse_cons]; exact hsnoc _ _ ih
  have h := hr l.reverse
  rwa [List.reverse_reverse] at h

theorem prefixes_concat (p : List Nat) (k : Nat) : prefixes (p ++ [k]) = prefixes p ++ [p ++ [k]] := by
  induction p with
  | nil => rfl
  | cons a r ih =>
    show prefixes (a :: (r ++ [k])) = _
    simp only [prefixes, ih, List.map_append, List.map_cons, List.map_nil, List.cons_append]

theorem node?_append_of_some {ns : List Node} (ms : List Node) {q : ScqId} {p : List Nat} {n : Node}
    (h : node? ns q p = some n) : node? (ns ++ ms) q p = some n := by
  unfold node? at h ⊢
  rw [List.find?_append, h]; rfl

theorem node?_append_isSome {ns : List Node} (ms : List Node) {q : ScqId} {p : List Nat}
    (h : (node? ns q p).isSome = true) : (node? (ns ++ ms) q p).isSome = true := by
  cases hn : node? ns q p with
  | none => rw [hn] at h; cases h
  | some n => rw [node?_append_of_some ms hn]; rfl

theorem node?_append_self {ns : List Node} {q : ScqId} {p : List Nat} (now : Nat) :
    (node? (ns ++ [mkNode q p now]) q p).isSome = true :=
  node?_isSome_iff.mpr ⟨mkNode q p now, List.mem_append_right _ List.mem_cons_self, rfl, rfl⟩

/-! ### one iteration of `getOrCreateInvocation` -/

/-- one iteration of the loop of `getOrCreateInvocation` -/
def gocStep (q : ScqId) (now : Nat) (ns : List Node) (pi : List Nat) : List Node :=
  if (node? ns q pi).isSome then ns else ns ++ [mkNode q pi now]

theorem getOrCreate_nil (ns : List Node) (q : ScqId) (now : Nat) : getOrCreate ns q [] now = ns := rfl

theorem getOrCreate_concat (ns : List Node) (q : ScqId) (p : List Nat) (k : Nat) (now : Nat) :
    getOrCreate ns q (p ++ [k]) now = gocStep q now (getOrCreate ns q p now) (p ++ [k]) := by
  unfold getOrCreate gocStep
  rw [prefixes_concat, List.foldl_append]; rfl

theorem gocStep_mono (ns : List Node) (q : ScqId) (pi : List Nat) (now : Nat) {q' : ScqId} {p' : List Nat} {n : Node}
    (h : node? ns q' p' = some n) : node? (gocStep q now ns pi) q' p' = some n := by
  unfold gocStep
  split
  · exact h
  · exact node?_append_of_some _ h

theorem gocStep_self (ns : List Node) (q : ScqId) (pi : List Nat) (now : Nat) :
    (node? (gocStep q now ns pi) q pi).isSome = true := by
  unfold gocStep
  split
  · assumption
  · exact node?_append_self now

/-- `getOrCreateInvocation` keeps what exists -/
theorem getOrCreate_mono (ns : List Node) (q : ScqId) (p : List Nat) (now : Nat) (q' : ScqId) (p' : List Nat) (n : Node)
    (h : node? ns q' p' = some n) : node? (getOrCreate ns q p now) q' p' = some n := by
  induction p using list_snoc_ind with
  | hnil => exact h
  | hsnoc p k ih => rw [getOrCreate_concat]; exact gocStep_mono _ _ _ _ ih

/-- … and is the identity when every invocation on the path exists -/
theorem getOrCreate_id (ns : List Node) (q : ScqId) (p : List Nat) (now : Nat)
    (h : ∀ pi ∈ prefixes p, (node? ns q pi).isSome = true) : getOrCreate ns q p now = ns := by
  induction p using list_snoc_ind with
  | hnil => rfl
  | hsnoc p k ih =>
    rw [prefixes_concat] at h
    rw [getOrCreate_concat, ih (fun pi hpi => h pi (List.mem_append_left _ hpi))]
    unfold gocStep
    rw [if_pos (h (p ++ [k]) (List.mem_append_right _ List.mem_cons_self))]

/-- afterwards every invocation on the path exists -/
theorem getOrCreate_exists (ns : List Node) (q : ScqId) (p : List Nat) (now : Nat)
    (hroot : (node? ns q []).isSome = true) :
    ∀ pi, pi <+: p → (node? (getOrCreate ns q p now) q pi).isSome = true := by
  induction p using list_snoc_ind with
  | hnil =>
    intro pi hpi
    have : pi = [] := List.prefix_nil.mp hpi
    subst this; exact hroot
  | hsnoc p k ih =>
    intro pi hpi
    rw [getOrCreate_concat]
    rcases List.prefix_concat_iff.mp hpi with e | hp
    · subst e; exact gocStep_self _ _ _ _
    · have := ih pi hp
      cases hn : node? (getOrCreate ns q p now) q pi with
      | none => rw [hn] at this; cases this
      | some n => rw [gocStep_mono _ _ _ _ hn]; rfl

/-! ### a fresh empty invocation -/

/-- Appending a fresh empty invocation whose parent exists preserves the invariant, with that invocation
exempt from the emptiness clause: nothing is recorded at or below it, because whatever is recorded is
recorded in an invocation that exists, together with all its ancestors. -/
theorem TreeOK.append_fresh (h : TreeOK X ns E I Q P) (q : ScqId) (pi : List Nat) (now : Nat)
    (X' : List (ScqId × List Nat)) (hX : ∀ x ∈ X, x ∈ X') (hx : pi ≠ [] → (q, pi) ∈ X')
    (hfresh : node? ns q pi = none)
    (hpar : pi ≠ [] → (node? ns q pi.dropLast).isSome = true) :
    TreeOK X' (ns ++ [mkNode q pi now]) E I Q P := by
  have hnone : ∀ p', pi <+: p' → (node? ns q p').isSome = true → False := by
    intro p' hp hs
    have := h.prefix_exists p' hs pi hp
    rw [hfresh] at this; cases this
  have hmem : ∀ n, n ∈ ns ++ [mkNode q pi now] → n ∈ ns ∨ n = mkNode q pi now := by
    intro n hn
    rcases List.mem_append.mp hn with h1 | h1
    · exact Or.inl h1
    · exact Or.inr (List.mem_singleton.mp h1)
  have hcE : ∀ k, cntE q pi k E = 0 := by
    intro k
    apply Nat.eq_zero_of_not_pos
    intro hpos
    obtain ⟨c, hc, h1, h2, _⟩ := (cntE_pos_iff _ _ _ _).mp hpos
    exact hnone c.2.1 h2 (h1 ▸ h.rfE c hc)
  have hcI : cntI q pi I = 0 := by
    apply Nat.eq_zero_of_not_pos
    intro hpos
    obtain ⟨c, hc, h1, h2⟩ := (cntI_pos_iff _ _ _).mp hpos
    exact hnone c.2 h2 (h1 ▸ h.rfI c hc)
  refine ⟨?_, ?_, ?_, ?_, ?_, ?_, ?_, ?_, ?_, ?_, ?_, ?_, ?_, ?_, h.pi⟩
  · rw [List.map_append, List.nodup_append]
    refine ⟨h.nd, by simp, ?_⟩
    intro a ha b hb
    obtain ⟨n, hn, rfl⟩ := List.mem_map.mp ha
    simp only [List.map_cons, List.map_nil, List.mem_singleton] at hb
    subst hb
    intro e
    have e1 : n.scq = q := congrArg Prod.fst e
    have e2 : n.path = pi := congrArg Prod.snd e
    exact node?_eq_none_iff.mp hfresh n hn ⟨e1, e2⟩
  · intro n hn hp
    rcases hmem n hn with h1 | h1
    · exact node?_append_isSome _ (h.pc n h1 hp)
    · subst h1; exact node?_append_isSome _ (hpar hp)
  · intro n hn k
    rcases hmem n hn with h1 | h1
    · exact h.ex n h1 k
    · subst h1; show mget k [] = cntE q pi k E
      rw [hcE]; rfl
  · intro n hn
    rcases hmem n hn with h1 | h1
    · exact h.exnd n h1
    · subst h1; exact ⟨List.nodup_nil, fun e he => by cases he⟩
  · intro n hn
    rcases hmem n hn with h1 | h1
    · exact h.id n h1
    · subst h1; show 0 = cntI q pi I
      rw [hcI]
  · intro n hn
    rcases hmem n hn with h1 | h1
    · exact h.qo n h1
    · subst h1
      refine ⟨List.nodup_nil, fun o => ⟨fun ho => (by cases ho), fun ho => ?_⟩⟩
      exact (hnone pi (List.prefix_refl _) (h.rfQ _ ho)).elim
  · intro n hn
    rcases hmem n hn with h1 | h1
    · exact h.qk n h1
    · subst h1
      refine ⟨List.nodup_nil, fun k => ⟨fun hk => (by cases hk), ?_⟩⟩
      rintro ⟨c, hc, (e1 : c.1 = q), e2⟩
      exact (hnone c.2.1 ((List.prefix_append _ _).trans e2) (e1 ▸ h.rfQ c hc)).elim
  · intro n hn
    rcases hmem n hn with h1 | h1
    · exact h.pk n h1
    · subst h1
      refine ⟨List.nodup_nil, fun w => ⟨fun hw => (by cases hw), fun hw => ?_⟩⟩
      exact (hnone pi (List.prefix_refl _) (h.rfP _ hw)).elim
  · intro n hn
    rcases hmem n hn with h1 | h1
    · exact h.ik n h1
    · subst h1
      refine ⟨List.nodup_nil, fun k => ⟨fun hk => (by cases hk), ?_⟩⟩
      rintro ⟨c, hc, (e1 : c.1 = q), e2⟩
      exact (hnone c.2.1 ((List.prefix_append _ _).trans e2) (e1 ▸ h.rfP c hc)).elim
  · intro n hn hp hnx
    rcases hmem n hn with h1 | h1
    · exact h.ne n h1 hp (fun hc => hnx (hX _ hc))
    · subst h1; exact absurd (hx hp) hnx
  · intro c hc; exact node?_append_isSome _ (h.rfE c hc)
  · intro c hc; exact node?_append_isSome _ (h.rfI c hc)
  · intro c hc; exact node?_append_isSome _ (h.rfQ c hc)
  · intro c hc; exact node?_append_isSome _ (h.rfP c hc)

/-- more exemptions -/
theorem TreeOK.exempt_more (h : TreeOK X ns E I Q P) (X' : List (ScqId × List Nat)) (hX : ∀ x ∈ X, x ∈ X') :
    TreeOK X' ns E I Q P :=
  h.reexempt X' (fun _ _ _ hin hnin => absurd (hX _ hin) hnin)

/-- `getOrCreateInvocation(keys)`: the bags do not change; the invocations on the path are exempt from
the emptiness clause until something is recorded in them -/
theorem getOrCreate_ok (h : TreeOK X ns E I Q P) (q : ScqId) (p : List Nat) (now : Nat)
    (hroot : (node? ns q []).isSome = true) :
    TreeOK (X ++ (prefixes p).map (fun pi => (q, pi))) (getOrCreate ns q p now) E I Q P := by
  induction p using list_snoc_ind with
  | hnil => simpa [prefixes, getOrCreate_nil] using h
  | hsnoc p k ih =>
    have hsub : ∀ x ∈ X ++ (prefixes p).map (fun pi => (q, pi)),
        x ∈ X ++ (prefixes (p ++ [k])).map (fun pi => (q, pi)) := by
      intro x hx
      rw [prefixes_concat, List.map_append]
      rcases List.mem_append.mp hx with h1 | h1
      · exact List.mem_append_left _ h1
      · exact List.mem_append_right _ (List.mem_append_left _ h1)
    rw [getOrCreate_concat]
    unfold gocStep
    split
    · exact ih.exempt_more _ hsub
    · rename_i hno
      apply ih.append_fresh q (p ++ [k]) now _ hsub
      · intro _
        rw [prefixes_concat, List.map_append]
        exact List.mem_append_right _ (List.mem_append_right _ (by simp))
      · cases hn : node? (getOrCreate ns q p now) q (p ++ [k]) with
        | none => rfl
        | some n => rw [hn] at hno; exact absurd rfl hno
      · intro _
        rw [List.dropLast_concat]
        exact getOrCreate_exists ns q p now hroot p (List.prefix_refl _)

/-- a new size-class queue: its root invocation -/
theorem addRoot_ok (h : TreeOK X ns E I Q P) (q : ScqId) (now : Nat) (hq : ∀ n ∈ ns, n.scq ≠ q) :
    TreeOK X (ns ++ [mkNode q [] now]) E I Q P := by
  apply h.append_fresh q [] now X (fun _ hx => hx) (fun hne => absurd rfl hne)
  · exact node?_eq_none_iff.mpr (fun n hn hc => hq n hn hc.1)
  · intro hne; exact absurd rfl hne

/-- several new queues (`RegisterPredeclaredPlatformQueue`) -/
theorem addRoots_ok (h : TreeOK X ns E I Q P) (qs : List ScqId) (now : Nat) (hnd : qs.Nodup)
    (hq : ∀ q ∈ qs, ∀ n ∈ ns, n.scq ≠ q) :
    TreeOK X (ns ++ qs.map (fun q => mkNode q [] now)) E I Q P := by
  induction qs generalizing ns with
  | nil => simpa using h
  | cons q qs ih =>
    have hnd' := List.nodup_cons.mp hnd
    have h1 := addRoot_ok h q now (hq q List.mem_cons_self)
    have h2 := ih h1 hnd'.2 (by
      intro q' hq' n hn
      rcases List.mem_append.mp hn with hm | hm
      · exact hq q' (List.mem_cons_of_mem _ hq') n hm
      · rw [List.mem_singleton.mp hm]
        show q ≠ q'
        intro e; subst e; exact hnd'.1 hq')
    rw [List.map_cons]
    rw [List.append_assoc] at h2
    exact h2

/-- a size-class queue in which nothing is recorded is dropped with its whole tree -/
theorem dropScq_ok (h : TreeOK X ns E I Q P) (q : ScqId)
    (hE : ∀ c ∈ E, c.1 ≠ q) (hI : ∀ c ∈ I, c.1 ≠ q) (hQ : ∀ c ∈ Q, c.1 ≠ q) (hP : ∀ c ∈ P, c.1 ≠ q) :
    TreeOK X (ns.filter (fun n => n.scq ≠ q)) E I Q P := by
  have hmem : ∀ n, n ∈ ns.filter (fun n => n.scq ≠ q) → n ∈ ns := fun n hn => (List.mem_filter.mp hn).1
  have hsome : ∀ q' p', q' ≠ q → (node? ns q' p').isSome = true →
      (node? (ns.filter (fun n => n.scq ≠ q)) q' p').isSome = true := by
    intro q' p' hne hs
    cases hn : node? ns q' p' with
    | none => rw [hn] at hs; cases hs
    | some n =>
      have hk : (fun n : Node => decide (n.scq ≠ q)) n = true := by
        have := (node?_some hn).2.1
        simp [this, hne]
      rw [node?_filter_of_keep hn hk]; rfl
  refine ⟨?_, ?_, ?_, ?_, ?_, ?_, ?_, ?_, ?_, ?_, ?_, ?_, ?_, ?_, h.pi⟩
  · exact (List.filter_sublist.map _).nodup h.nd
  · intro m hm hp
    have hk : m.scq ≠ q := by simpa using (List.mem_filter.mp hm).2
    exact hsome _ _ hk (h.pc m (hmem m hm) hp)
  · intro n hn k; exact h.ex n (hmem n hn) k
  · intro n hn; exact h.exnd n (hmem n hn)
  · intro n hn; exact h.id n (hmem n hn)
  · intro n hn; exact h.qo n (hmem n hn)
  · intro n hn; exact h.qk n (hmem n hn)
  · intro n hn; exact h.pk n (hmem n hn)
  · intro n hn; exact h.ik n (hmem n hn)
  · intro n hn hp hx; exact h.ne n (hmem n hn) hp hx
  · intro c hc; exact hsome _ _ (hE c hc) (h.rfE c hc)
  · intro c hc; exact hsome _ _ (hI c hc) (h.rfI c hc)
  · intro c hc; exact hsome _ _ (hQ c hc) (h.rfQ c hc)
  · intro c hc; exact hsome _ _ (hP c hc) (h.rfP c hc)

end BbRe.Lemmas.SchedTree
