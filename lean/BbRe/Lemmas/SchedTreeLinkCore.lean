import BbRe.Lemmas.SchedTreeLinkFold
import BbRe.Lemmas.SchedTreeLinkBags
import BbRe.Lemmas.SchedTreeLinkFrame
import BbRe.Lemmas.SchedTreeLinkKeys
/-!
The tree layer's `assignUnqueuedTask`, `task.schedule` and `task.complete` preserve the invariant
`TInvX` (`Lemmas/SchedTreeLinkDefs.lean`).
-/
namespace BbRe.Lemmas.SchedTree
open BbRe.Sched BbRe.SchedTree BbRe.Lemmas.SchedInv

variable {X : List (ScqId × List Nat)} {E : List EC} {I : List IC} {Q : List QC} {P : List PC}

/-! ### node-level effect of the tree-only updates -/

@[simp] theorem incOps_lastOf (ts : TState) (t k q w) : (ts.incOps t k).lastOf q w = ts.lastOf q w := rfl
@[simp] theorem incOps_wx (ts : TState) (t k) : (ts.incOps t k).wx = ts.wx := rfl
@[simp] theorem incOps_ox (ts : TState) (t k) : (ts.incOps t k).ox = ts.ox := rfl
@[simp] theorem setSticks_nodes (ts : TState) (q w r) : (ts.setSticks q w r).nodes = ts.nodes := rfl

theorem incOps_nodes (ts : TState) (t : Task) (k : WKey) :
    (ts.incOps t k).nodes = t.ops.foldl (fun ns o => incExecR ts.legacyPrio ts.prioOf ns t.scq (ts.invOf o) k ts.s.now) ts.nodes := rfl

theorem clearLast_nodes (ts : TState) (q : ScqId) (w : WId) (p : List Nat) (h : ts.lastOf q w = some p) :
    (ts.clearLast q w).nodes = clearLastN ts.nodes q p := by
  unfold TState.clearLast; simp only [h]

/-- `assignUnqueuedTask` on the node list: the task's operations become executing operations of `w`, the
worker's last invocation is cleared -/
theorem assignTree_nodes_ok (ts : TState) (w : Worker) (t : Task) (r : Nat)
    (hT : TreeOK X ts.nodes E I Q P)
    (hn : ∀ o ∈ t.ops, (node? ts.nodes t.scq (ts.invOf o)).isSome = true)
    (hX : ∀ x ∈ X, ∃ o ∈ t.ops, onPathOf t.scq (ts.invOf o) x = true)
    (p : List Nat) (hl : ts.lastOf w.scq w.id = some p) (hI : (w.scq, p) ∈ I)
    (hP : ∀ c ∈ P, (c.1, c.2.1) ∈ I.erase (w.scq, p)) :
    TreeOK [] (ts.assignTree w t r).nodes (t.ops.map (fun o => (t.scq, ts.invOf o, some w.id)) ++ E)
      (I.erase (w.scq, p)) Q P := by
  have h1 := incOps_ok hT ts.legacyPrio ts.prioOf t.scq ts.invOf (some w.id) ts.s.now t.ops hn
  have hX0 : X.filter (fun x => !t.ops.any (fun o => onPathOf t.scq (ts.invOf o) x)) = [] := by
    rw [List.filter_eq_nil_iff]
    intro x hx
    obtain ⟨o, ho, hon⟩ := hX x hx
    have : t.ops.any (fun o => onPathOf t.scq (ts.invOf o) x) = true := List.any_eq_true.mpr ⟨o, ho, hon⟩
    simp [this]
  rw [hX0] at h1
  have h2 := clearLastN_ok h1 w.scq p hI (by intro x hx; cases hx) hP
  show TreeOK [] ((((ts.incOps t (some w.id)).clearLast w.scq w.id).setSticks w.scq w.id r).nodes) _ _ _ _
  rw [setSticks_nodes, clearLast_nodes _ _ _ p (by simpa using hl), incOps_nodes]
  exact h2

/-! ### facts about the worker extras read off `Side` -/

theorem Side.wx_of_worker {ts : TState} (hS : Side ts) {q : ScqId} {w : WId} {wk : Worker}
    (hw : wfind ts.s.workers q w = some wk) :
    ∃ x, ts.wx.find? (fun x => x.scq = q ∧ x.id = w) = some x ∧ x.scq = q ∧ x.id = w ∧
      x.parked = wk.parked ∧ (x.last = none ↔ wk.task.isSome = true) := by
  have h1 := hS.wxw q w
  rw [worker?_def, hw] at h1
  cases hx : ts.wx? q w with
  | none => rw [hx] at h1; cases h1
  | some x =>
    have hk := List.find?_some (show ts.wx.find? (fun x => x.scq = q ∧ x.id = w) = some x from hx)
    simp only [decide_eq_true_eq] at hk
    have := hS.wpl q w wk x (by rw [worker?_def]; exact hw) hx
    exact ⟨x, hx, hk.1, hk.2, this.1, this.2⟩

theorem lastOf_of_find {ts : TState} {q : ScqId} {w : WId} {x : WX}
    (h : ts.wx.find? (fun x => x.scq = q ∧ x.id = w) = some x) : ts.lastOf q w = x.last := by
  unfold TState.lastOf TState.wx?; rw [h]

theorem conE_assigned (ox : List (Nat × OX)) (t : Task) (q : ScqId) (w : WId) :
    conE ox { t with worker := some (q, w), retry := 0, queued := false } =
      t.ops.map (fun o => (t.scq, (match alookup o ox with | some y => y.inv | none => []), some w)) := rfl

theorem conE_unassigned (ox : List (Nat × OX)) (t : Task) (h : t.worker = none) : conE ox t = [] := by
  unfold conE; rw [h]

theorem conQ_unqueued (ox : List (Nat × OX)) (t : Task) (h : t.queued = false) : conQ ox t = [] := by
  unfold conQ; simp [h]

/-! ### `assignUnqueuedTask` of a task that is not queued (direct hand-off) -/

theorem assign_tree {ex exo} {ts : TState} {w : Worker} {t : Task} {r : Nat}
    (hT : TInvX ex exo X ts)
    (hw : wfind ts.s.workers w.scq w.id = some w) (hwt : w.task = none) (hwp : w.parked = false)
    (ht : alookup t.id ts.s.tasks = some t) (htw : t.worker = none) (hq : t.queued = false)
    (hn : ∀ o ∈ t.ops, (node? ts.nodes t.scq (ts.invOf o)).isSome = true)
    (hX : ∀ x ∈ X, ∃ o ∈ t.ops, onPathOf t.scq (ts.invOf o) x = true) :
    let ts' := (ts.assignTree w t r).setS (assignSt ts.s w t)
    TreeOK [] ts'.nodes (bagE ts') (bagI ts') (bagQ ts') (bagP ts') := by
  intro ts'
  obtain ⟨x0, hx0, hxq, hxi, hxp, hxl⟩ := hT.side.wx_of_worker hw
  have hlast : ∃ p, x0.last = some p := by
    cases hl : x0.last with
    | none => have := hxl.mp hl; rw [hwt] at this; cases this
    | some p => exact ⟨p, rfl⟩
  obtain ⟨p, hp⟩ := hlast
  have hlo : ts.lastOf w.scq w.id = some p := by rw [lastOf_of_find hx0, hp]
  -- the extras of the new state
  let g : WX → WX := fun y => { ({ y with last := none } : WX) with sticks := restick r ts.s.now y.sticks }
  have hg : ∀ y, wxkey (g y) = wxkey y := fun y => rfl
  have hwx' : ts'.wx = setWX ts.wx w.scq w.id g := by
    exact setWX_setWX ts.wx w.scq w.id _ _ (fun y => rfl)
  -- the bags of the new state
  have hI' : ((bagI ts).erase (w.scq, p)).Perm (bagI ts') := by
    have := bagI_setWX ts.wx w.scq w.id g hg hT.side.wxnd x0 hx0
    have e1 : conI (g x0) = [] := rfl
    have e2 : conI x0 = [(w.scq, p)] := by unfold conI; rw [hp, hxq]
    rw [e1, e2, List.append_nil] at this
    rw [bagI_def, bagI_def, hwx']
    exact perm_erase_of_append this
  have hP' : (bagP ts).Perm (bagP ts') := by
    have := bagP_setWX ts.wx w.scq w.id g hg hT.side.wxnd x0 hx0
    have e1 : conP (g x0) = [] := by unfold conP; simp [g, hxp, hwp]
    have e2 : conP x0 = [] := by unfold conP; simp [hxp, hwp]
    rw [e1, e2, List.append_nil, List.append_nil] at this
    rw [bagP_def, bagP_def, hwx']; exact this
  let t1 : Task := { t with worker := some (w.scq, w.id), retry := 0, queued := false }
  have hE' : (t.ops.map (fun o => (t.scq, ts.invOf o, some w.id)) ++ bagE ts).Perm (bagE ts') := by
    have := bagE_setTask ts (assignSt ts.s w t) t t1 ts.ox ht rfl (fun _ _ => rfl) ts' rfl rfl
    rw [conE_unassigned _ t htw, List.append_nil] at this
    exact (List.perm_append_comm.trans this)
  have hQ' : (bagQ ts).Perm (bagQ ts') := by
    have := bagQ_setTask ts (assignSt ts.s w t) t t1 ts.ox ht rfl (fun _ _ => rfl) ts' rfl rfl
    rw [conQ_unqueued _ t hq, conQ_unqueued _ t1 rfl, List.append_nil, List.append_nil] at this
    exact this
  -- the node list
  have hPI : ∀ c ∈ bagP ts, (c.1, c.2.1) ∈ (bagI ts).erase (w.scq, p) := by
    intro c hc
    have h1 : c ∈ bagP ts' := hP'.mem_iff.mp hc
    rw [bagP_def] at h1
    have h2 := bagP_sub_bagI ts'.wx c h1
    rw [← bagI_def] at h2
    exact hI'.mem_iff.mpr h2
  have hI0 : (w.scq, p) ∈ bagI ts := by
    rw [bagI_def]
    exact List.mem_flatMap.mpr ⟨x0, List.mem_of_find?_eq_some hx0, by unfold conI; rw [hp, hxq]; simp⟩
  have h := assignTree_nodes_ok ts w t r hT.tree hn hX p hlo hI0 hPI
  exact h.congr hE' hI' (fun c => hQ'.mem_iff) (fun c => hP'.mem_iff)

/-- `Side.roots` / `Side.nscq` after a tree update that creates invocations only in existing queues -/
theorem side_nodes {ts : TState} (hS : Side ts) {qs : List ScqId} {ns' : List Node} {scqs' : List Scq}
    (hf : NFrame qs ts.nodes ns') (hq : ∀ q ∈ qs, ∃ sq ∈ scqs', sq.id = q)
    (hsc : ∀ sq ∈ ts.s.scqs, sq ∈ scqs') (hnew : ∀ sq ∈ scqs', sq ∈ ts.s.scqs ∨ (node? ns' sq.id []).isSome = true) :
    (∀ sq ∈ scqs', (node? ns' sq.id []).isSome = true) ∧ (∀ n ∈ ns', ∃ sq ∈ scqs', sq.id = n.scq) := by
  constructor
  · intro sq hsq
    rcases hnew sq hsq with h | h
    · exact hf.roots _ (hS.roots sq h)
    · exact h
  · intro n hn
    rcases hf.scqs n hn with ⟨n0, hn0, he⟩ | h
    · obtain ⟨sq, hsq, hid⟩ := hS.nscq n0 hn0
      exact ⟨sq, hsc sq hsq, by rw [hid, he]⟩
    · exact hq _ h

theorem assign_side {ex exo} {ts : TState} {w : Worker} {t : Task} {r : Nat}
    (hT : TInvX ex exo X ts)
    (hw : wfind ts.s.workers w.scq w.id = some w) (hwt : w.task = none)
    (ht : alookup t.id ts.s.tasks = some t) (hsq : w.scq = t.scq) :
    Side ((ts.assignTree w t r).setS (assignSt ts.s w t)) := by
  have hS := hT.side
  obtain ⟨x0, hx0, hxq, hxi, hxp, hxl⟩ := hS.wx_of_worker hw
  let g : WX → WX := fun y => { ({ y with last := none } : WX) with sticks := restick r ts.s.now y.sticks }
  have hg : ∀ y, wxkey (g y) = wxkey y := fun y => rfl
  have hwx' : ((ts.assignTree w t r).setS (assignSt ts.s w t)).wx = setWX ts.wx w.scq w.id g :=
    setWX_setWX ts.wx w.scq w.id _ _ (fun y => rfl)
  have hnodes := side_nodes hS (assignTree_nframe ts w t r) (scqs' := ts.s.scqs) (by intro q hq; cases hq)
    (fun sq h => h) (fun sq h => Or.inl h)
  refine ⟨hnodes.1, hnodes.2, ?_, ?_, ?_, ?_, ?_⟩
  · rw [hwx']
    show ((setWX ts.wx w.scq w.id g).map wxkey).Nodup
    rw [setWX_keys ts.wx w.scq w.id g hg]; exact hS.wxnd
  · intro q' w'
    show (List.find? _ _).isSome = (wfind (wset ts.s.workers _) q' w').isSome
    rw [hwx', find?_setWX _ _ _ _ hg, wfind_wset]
    have := hS.wxw q' w'
    rw [worker?_def, wx?_eq] at this
    by_cases hk : w.scq = q' ∧ w.id = w'
    · simp only [hk, and_self, if_true, Option.isSome_map]
      rw [this]; cases (wfind ts.s.workers q' w') <;> rfl
    · simp only [hk, if_false, Option.isSome_map]; exact this
  · intro q' w' wk x hwk hx
    rw [worker?_def] at hwk
    change wfind (wset ts.s.workers _) q' w' = some wk at hwk
    rw [wfind_wset] at hwk
    change List.find? _ _ = some x at hx
    rw [hwx', find?_setWX _ _ _ _ hg] at hx
    by_cases hk : w.scq = q' ∧ w.id = w'
    · simp only [hk, and_self, if_true] at hwk
      rw [← hk.1, ← hk.2, hw] at hwk
      simp only [Option.isSome_some, if_true, Option.some.injEq] at hwk
      rw [← hk.1, ← hk.2, hx0] at hx
      simp only [Option.map_some, hxq, hxi, and_self, if_true, Option.some.injEq] at hx
      subst hwk; subst hx
      exact ⟨hxp, by simp [g]⟩
    · simp only [hk, if_false] at hwk
      cases hf : ts.wx.find? (fun x => x.scq = q' ∧ x.id = w') with
      | none => rw [hf] at hx; cases hx
      | some y =>
        rw [hf] at hx
        have hyk := List.find?_some hf
        simp only [decide_eq_true_eq] at hyk
        have : ¬ (y.scq = w.scq ∧ y.id = w.id) := by rw [hyk.1, hyk.2]; exact fun h => hk ⟨h.1.symm, h.2.symm⟩
        simp only [Option.map_some, this, if_false, Option.some.injEq] at hx
        subst hx
        exact hS.wpl q' w' wk y (by rw [worker?_def]; exact hwk) hf
  · exact hS.oxok
  · intro k t' q' w' hk hw'
    change alookup k (aset _ _ ts.s.tasks) = some t' at hk
    rw [alookup_aset] at hk
    by_cases hkk : t.id = k
    · simp only [hkk, if_true, Option.some.injEq] at hk
      subst hk
      simp only [Option.some.injEq, Prod.mk.injEq] at hw'
      rw [← hw'.1]; exact hsq
    · simp only [hkk, if_false] at hk
      exact hS.wq k t' q' w' hk hw'

/-- `TS` only looks at the scheduler state, the node list, the worker extras and the operation table -/
theorem TS.of_fields {ts1 ts2 : TState} (h : TS X ts1) (hs : ts2.s = ts1.s) (hn : ts2.nodes = ts1.nodes)
    (hw : ts2.wx = ts1.wx) (ho : ts2.ox = ts1.ox) : TS X ts2 := by
  obtain ⟨s1, n1, w1, o1, x1, l1, d1⟩ := ts1
  obtain ⟨s2, n2, w2, o2, x2, l2, d2⟩ := ts2
  simp only at hs hn hw ho
  subst hs; subst hn; subst hw; subst ho
  obtain ⟨ht, hsd⟩ := h
  exact ⟨ht, ⟨hsd.roots, hsd.nscq, hsd.wxnd, hsd.wxw, hsd.wpl, hsd.oxok, hsd.wq⟩⟩

/-- **direct hand-off, tree part**: `assignUnqueuedTask` of a task that is neither queued nor assigned to
a worker `w` that is not parked -/
theorem assign_ts {ex exo} {ts : TState} {w : Worker} {t : Task} {r : Nat}
    (hT : TInvX ex exo X ts)
    (hw : wfind ts.s.workers w.scq w.id = some w) (hwt : w.task = none) (hwp : w.parked = false)
    (ht : alookup t.id ts.s.tasks = some t) (htw : t.worker = none) (hq : t.queued = false)
    (hsq : w.scq = t.scq)
    (hn : ∀ o ∈ t.ops, (node? ts.nodes t.scq (ts.invOf o)).isSome = true)
    (hX : ∀ x ∈ X, ∃ o ∈ t.ops, onPathOf t.scq (ts.invOf o) x = true) :
    TS [] ((ts.assignTree w t r).setS (assignSt ts.s w t)) :=
  ⟨assign_tree hT hw hwt hwp ht htw hq hn hX, assign_side hT hw hwt ht hsq⟩

end BbRe.Lemmas.SchedTree
