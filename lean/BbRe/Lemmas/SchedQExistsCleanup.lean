import BbRe.Lemmas.SchedQExistsComplete
/-!
`QExists` across the cleanup callbacks (`operation.remove`, `sizeClassQueue.removeStaleWorker`,
`sizeClassQueue.remove`), `cleanupQueue.run` and `bq.enter`.  `sizeClassQueue.remove` is the one
place where `Inv` is needed: every uncompleted task of the removed queue is queued (its worker
would be a worker of the queue, and the queue has none), hence cancelled before the queue goes.
-/
namespace BbRe.Lemmas.SchedQ
open BbRe.Sched BbRe.Lemmas.SchedInv

variable {ne : Prop}

/-! ## `operation.remove` -/

theorem removeOp_q {h : Hints} {s : State} {o : Nat} (hq : QExists ne s) :
    wpR ne (removeOp h s o) (QP ne s) := by
  unfold removeOp
  simp only [op?_def]
  cases hop : alookup o s.ops with
  | none => exact ⟨hq, QFr.refl s⟩
  | some op =>
    simp only []
    have h1 : QP ne s { s with ops := aerase o s.ops } := hq.same rfl rfl rfl rfl (fun _ h _ _ => h)
    simp only [task?_def]
    cases ht : alookup op.task s.tasks with
    | none => noterr
    | some t =>
      simp only []
      split
      · apply wpR_bind
        refine wpR_mono (complete_q h1.1) ?_
        intro s2 hp
        have h2 := h1.trans hp
        cases ht2 : alookup op.task s2.tasks with
        | none => simp only [ht2]; noterr
        | some t2 =>
          simp only [ht2]
          have hok := taskOK_of_lookup h2.1 ht2
          split
          · simp only [wpR_pure]
            refine h2.trans (h2.1.upd rfl rfl ⟨fun _ h _ _ => h, fun wk h => ⟨wk, h, rfl⟩⟩ ?_)
            intro p hp; exact h2.1.tq p (mem_aerase hp)
          · simp only [wpR_pure]
            exact h2.trans (h2.1.setTask _ (fun hr => hok hr))
      · try simp only [pure_bind]
        cases ht2 : alookup op.task { s with ops := aerase o s.ops }.tasks with
        | none => simp only [ht2]; noterr
        | some t2 =>
          simp only [ht2]
          have hok := taskOK_of_lookup h1.1 ht2
          split
          · simp only [wpR_pure]
            refine h1.trans (h1.1.upd rfl rfl ⟨fun _ h _ _ => h, fun wk h => ⟨wk, h, rfl⟩⟩ ?_)
            intro p hp; exact h1.1.tq p (mem_aerase hp)
          · simp only [wpR_pure]
            exact h1.trans (h1.1.setTask _ (fun hr => hok hr))

/-! ## cancelling the queued tasks of a queue -/

theorem foldl_complete_q {h : Hints} {r : Resp} (ids : List Nat) {s : State} (hq : QExists ne s) :
    wpR ne (ids.foldlM (fun s t => complete h s t r false) s) (QP ne s) := by
  induction ids generalizing s with
  | nil => exact ⟨hq, QFr.refl s⟩
  | cons a rest ih =>
    rw [List.foldlM_cons]
    apply wpR_bind
    refine wpR_mono (complete_q hq) ?_
    intro s1 h1
    exact wpR_mono (ih h1.1) (fun s' hp => h1.trans hp)

theorem cancelAllQueued_q {h : Hints} {s : State} {q : ScqId} {r : Resp} (hq : QExists ne s) :
    wpR ne (cancelAllQueued h s q r) (QP ne s) := by
  unfold cancelAllQueued
  exact foldl_complete_q _ hq

/-- after cancelling `ids` with a non-success response only tasks outside `ids` are uncompleted,
and those are untouched -/
theorem foldl_complete_cancel {h : Hints} {r : Resp} (hr : ¬ (r.code = cOK ∧ r.exit = 0)) (ids : List Nat)
    {s : State} (hI : Inv s) (hex : ∀ k ∈ ids, (alookup k s.tasks).isSome = true) :
    wp (ids.foldlM (fun s t => complete h s t r false) s) (fun s' => Inv s' ∧
      ∀ k t', alookup k s'.tasks = some t' → t'.response = none → k ∉ ids ∧ alookup k s.tasks = some t') := by
  induction ids generalizing s with
  | nil => exact ⟨hI, fun k t' hk _ => ⟨by simp, hk⟩⟩
  | cons a rest ih =>
    rw [List.foldlM_cons]
    apply wp_bind
    refine wp_mono (complete_spec (h := h) (r := r) (bw := false) hI (hex a (by simp))) ?_
    intro s1 ⟨hI1, hcp, hd, hn⟩
    refine wp_mono (ih hI1 ?_) ?_
    · intro k hk; exact hcp.persist hI k (hex k (by simp [hk]))
    · intro s' ⟨hI', hl⟩
      refine ⟨hI', ?_⟩
      intro k t' hk hrn
      obtain ⟨hk1, hk2⟩ := hl k t' hk hrn
      have hka : k ≠ a := by
        intro e; subst e
        have := hd (Or.inl rfl) t' hk2
        rw [hrn] at this; cases this
      have hlt : k < s.nextTask := by
        have := (hI1.core.tid k t' hk2).2
        rw [(hn hr).1] at this; exact this
      refine ⟨by simp [hka, hk1], ?_⟩
      rw [← hcp.tk k hka hlt]; exact hk2

/-! ## `sizeClassQueue.remove` -/

/-- the registry update at the end of `sizeClassQueue.remove` -/
def dropScq (s : State) (q : ScqId) : State :=
  if (s.scqs.filter (fun x => x.id ≠ q)).any (fun x => x.id.pq = q.pq)
  then { s with scqs := s.scqs.filter (fun x => x.id ≠ q) }
  else { s with scqs := s.scqs.filter (fun x => x.id ≠ q), pqs := s.pqs.filter (fun p => p.id ≠ q.pq) }

theorem removeScq_eq (h : Hints) (s : State) (q : ScqId) :
    removeScq h s q = (cancelAllQueued h s q ⟨cUnavailable, 0, 0, .queueRemoved⟩ >>= fun s1 => pure (dropScq s1 q)) := by
  unfold removeScq dropScq
  congr 1
  funext s1
  simp only []
  split <;> rfl

theorem mem_filter_ids (l : List Scq) (q q' : ScqId) :
    q' ∈ (l.filter (fun x => x.id ≠ q)).map (·.id) ↔ q' ∈ l.map (·.id) ∧ q' ≠ q := by
  simp only [List.mem_map, List.mem_filter, decide_eq_true_eq]
  constructor
  · rintro ⟨x, ⟨a, b⟩, c⟩; exact ⟨⟨x, a, c⟩, by rw [← c]; exact b⟩
  · rintro ⟨⟨x, a, c⟩, b⟩; exact ⟨x, ⟨a, by rw [c]; exact b⟩, c⟩

theorem dropScq_q {s : State} {q : ScqId} (hq : QExists ne s)
    (hlive : ∀ p ∈ s.tasks, p.2.response = none → p.2.scq ≠ q)
    (hnw : ∀ wk ∈ s.workers, wk.scq ≠ q) (hnc : ∀ e ∈ s.cleanup, e.kind ≠ .scq q) :
    QExists ne (dropScq s q) := by
  have hids : ∀ q', q' ∈ scqIds (dropScq s q) ↔ q' ∈ scqIds s ∧ q' ≠ q := by
    intro q'; unfold dropScq scqIds; split <;> exact mem_filter_ids _ _ _
  have htasks : (dropScq s q).tasks = s.tasks := by unfold dropScq; split <;> rfl
  have hworkers : (dropScq s q).workers = s.workers := by unfold dropScq; split <;> rfl
  have hcleanup : (dropScq s q).cleanup = s.cleanup := by unfold dropScq; split <;> rfl
  have hS : ∀ q', q' ≠ q → HasScq s q' → HasScq (dropScq s q) q' := fun q' h1 h2 => (hids q').mpr ⟨h2, h1⟩
  refine ⟨?_, ?_, ?_, ?_, ?_, ?_⟩
  · intro p hp hr
    rw [htasks] at hp
    obtain ⟨a, b⟩ := hq.tq p hp hr
    exact ⟨hS _ (hlive p hp hr) a, b⟩
  · intro wk hwk
    rw [hworkers] at hwk
    exact hS _ (hnw wk hwk) (hq.wq wk hwk)
  · intro q' hq'
    obtain ⟨a, b⟩ := (hids q').mp hq'
    have hp := hq.qp q' a
    unfold dropScq
    split
    · exact hp
    · rename_i hany
      unfold HasPq pqIds at hp ⊢
      simp only [List.mem_map, List.mem_filter, decide_eq_true_eq] at hp ⊢
      obtain ⟨x, hx, he⟩ := hp
      refine ⟨x, ⟨hx, ?_⟩, he⟩
      intro hxq
      apply hany
      simp only [List.any_eq_true, List.mem_filter, decide_eq_true_eq]
      unfold scqIds at a
      obtain ⟨y, hy, hye⟩ := List.mem_map.mp a
      exact ⟨y, ⟨hy, by rw [hye]; exact b⟩, by rw [hye, ← he, hxq]⟩
  · intro e he q' hk
    rw [hcleanup] at he
    obtain ⟨a, b⟩ := hq.cq e he q' hk
    refine ⟨hS _ ?_ a, by rw [hworkers]; exact b⟩
    intro e'; subst e'; exact hnc e he hk
  · rw [hcleanup]; exact hq.cu
  · intro hne p hp
    have hp0 : p ∈ pqIds s := by
      unfold dropScq pqIds at hp
      split at hp
      · exact hp
      · simp only [List.mem_map, List.mem_filter] at hp
        obtain ⟨x, ⟨hx, _⟩, he⟩ := hp
        exact List.mem_map.mpr ⟨x, hx, he⟩
    obtain ⟨q', a, b⟩ := hq.pn hne p hp0
    by_cases hqq : q' = q
    · -- the removed queue was the witness: another queue of the platform queue remains, or `p` is gone
      subst hqq
      by_cases hany : (s.scqs.filter (fun x => x.id ≠ q')).any (fun x => x.id.pq = q'.pq) = true
      · simp only [List.any_eq_true, decide_eq_true_eq] at hany
        obtain ⟨y, hy, hye⟩ := hany
        refine ⟨y.id, ?_, by rw [hye, b]⟩
        have : y.id ∈ (s.scqs.filter (fun x => x.id ≠ q')).map (·.id) := List.mem_map.mpr ⟨y, hy, rfl⟩
        exact (hids y.id).mpr ((mem_filter_ids _ _ _).mp this)
      · exfalso
        unfold dropScq pqIds at hp
        rw [if_neg hany] at hp
        simp only [List.mem_map, List.mem_filter, decide_eq_true_eq] at hp
        obtain ⟨x, ⟨_, hx⟩, he⟩ := hp
        exact hx (by rw [he, b])
    · exact ⟨q', (hids q').mpr ⟨a, hqq⟩, b⟩

theorem removeScq_q {h : Hints} {s : State} {q : ScqId} (hq : QExists ne s) (hI : Inv s)
    (hnw : ∀ wk ∈ s.workers, wk.scq ≠ q) (hnc : ∀ e ∈ s.cleanup, e.kind ≠ .scq q) :
    wpR ne (removeScq h s q) (QExists ne) := by
  rw [removeScq_eq]
  apply wpR_bind
  have hcancel : wp (cancelAllQueued h s q ⟨cUnavailable, 0, 0, .queueRemoved⟩) (fun s' => Inv s' ∧
      ∀ k t', alookup k s'.tasks = some t' → t'.response = none →
        k ∉ (s.tasks.filter (fun p => p.2.scq = q ∧ p.2.queued ∧ p.2.response.isNone ∧ p.2.worker.isNone)).map (·.1) ∧
          alookup k s.tasks = some t') := by
    unfold cancelAllQueued
    apply foldl_complete_cancel (by simp [cUnavailable, cOK]) _ hI
    intro k hk
    simp only [List.mem_map, List.mem_filter] at hk
    obtain ⟨⟨k', t⟩, ⟨hm, _⟩, rfl⟩ := hk
    rw [alookup_of_mem hI.core.tnd hm]; rfl
  refine wpR_mono (wpR_and (cancelAllQueued_q (ne := ne) hq) hcancel) ?_
  intro s1 ⟨h1, hI1, hl⟩
  simp only [wpR_pure]
  refine dropScq_q h1.1 ?_ ?_ ?_
  · intro p hp hr hpq
    have hlk : alookup p.1 s1.tasks = some p.2 := alookup_of_mem hI1.core.tnd hp
    obtain ⟨hnin, hk0⟩ := hl p.1 p.2 hlk hr
    apply hnin
    have hm0 : (p.1, p.2) ∈ s.tasks := mem_of_alookup hk0
    refine List.mem_map.mpr ⟨(p.1, p.2), List.mem_filter.mpr ⟨hm0, ?_⟩, rfl⟩
    have hqd : p.2.queued = true := by
      rcases hI.core.q2 p.1 p.2 hk0 hr with a | a | a
      · exact a
      · exfalso
        cases hw : p.2.worker with
        | none => rw [hw] at a; cases a
        | some qw =>
          obtain ⟨q', w'⟩ := qw
          have hq' := ((hq.tq (p.1, p.2) hm0) hr).2 q' w' hw
          obtain ⟨wk, hwk, _⟩ := hI.core.p2 p.1 p.2 q' w' hk0 hw
          exact hnw wk (wfind_mem hwk) (by rw [(wfind_key hwk).1, hq', hpq])
      · exact absurd a id
    have := hI.core.q1 p.1 p.2 hk0 hqd
    simp [hpq, hqd, this.1, this.2]
  · intro wk hwk
    obtain ⟨w0, a0, b0⟩ := h1.2.ws wk hwk
    rw [← b0]; exact hnw w0 a0
  · intro e he hk
    exact hnc e (h1.2.cl e he q hk) hk

/-! ## `sizeClassQueue.removeStaleWorker` -/

theorem staleTail_q {s1 : State} {q : ScqId} {w : WId} {rt : Nat} (hq : QExists ne s1)
    (hnc : ∀ e ∈ s1.cleanup, e.kind ≠ .scq q) : wpR ne (staleTail s1 q w rt) (QExists ne) := by
  have h2 : QP ne s1 { s1 with workers := s1.workers.filter (fun x => ¬ (x.scq = q ∧ x.id = w)) } :=
    hq.upd rfl rfl ⟨fun _ h _ _ => h, fun wk h => ⟨wk, (List.mem_filter.mp h).1, rfl⟩⟩ hq.tq
  unfold staleTail
  dsimp only
  split
  · rename_i sq hsq
    split
    · rename_i hc
      simp only [wpR_pure]
      have hhas : HasScq { s1 with workers := s1.workers.filter (fun x => ¬ (x.scq = q ∧ x.id = w)) } q :=
        (hasScq_iff _ q).mpr ⟨sq, hsq⟩
      have hnow : ∀ wk ∈ s1.workers.filter (fun x => ¬ (x.scq = q ∧ x.id = w)), wk.scq ≠ q := by
        have := hc.1
        simp only [Bool.not_eq_true', List.any_eq_false, decide_eq_true_eq] at this
        exact this
      have hq2 := h2.1
      refine ⟨hq2.tq, hq2.wq, hq2.qp, ?_, ?_, hq2.pn⟩
      · intro e he q' hk
        rcases List.mem_cons.mp he with e1 | e1
        · subst e1
          simp only [CleanupKind.scq.injEq] at hk
          subst hk
          exact ⟨hhas, hnow⟩
        · exact hq2.cq e e1 q' hk
      · intro e1 m1 e2 m2 q' k1 k2
        rcases List.mem_cons.mp m1 with a | a <;> rcases List.mem_cons.mp m2 with b | b
        · rw [a, b]
        · subst a
          simp only [CleanupKind.scq.injEq] at k1
          subst k1
          exact absurd k2 (hnc e2 b)
        · subst b
          simp only [CleanupKind.scq.injEq] at k2
          subst k2
          exact absurd k1 (hnc e1 a)
        · exact hq2.cu e1 a e2 b q' k1 k2
    · exact h2.1
  · exact h2.1

theorem removeStaleWorker_q {h : Hints} {s : State} {q : ScqId} {w : WId} {rt : Nat} (hq : QExists ne s) :
    wpR ne (removeStaleWorker h s q w rt) (QExists ne) := by
  rw [removeStaleWorker_eq]
  simp only [worker?_def]
  cases hw : wfind s.workers q w with
  | none => exact hq
  | some wk =>
    dsimp only
    have hnc : ∀ e ∈ s.cleanup, e.kind ≠ .scq q := by
      intro e he hk
      exact (hq.cq e he q hk).2 wk (wfind_mem hw) (wfind_key hw).1
    apply wpR_bind
    have hmid : wpR ne (match wk.task with
        | some t => complete h s t ⟨cUnavailable, 0, 0, .workerDisappeared⟩ false
        | none => pure s) (QP ne s) := by
      split
      · exact complete_q hq
      · exact ⟨hq, QFr.refl s⟩
    refine wpR_mono hmid ?_
    intro s1 h1
    exact staleTail_q h1.1 (fun e he hk => hnc e (h1.2.cl e he q hk) hk)

/-! ## `cleanupQueue.run`, `bq.enter` -/

theorem popDue_rest {now : Nat} {cs : List CleanupEntry} {e : CleanupEntry} {rest : List CleanupEntry}
    (h : popDue now cs = some (e, rest)) : rest = cs.filter (fun x => x ≠ e) := by
  unfold popDue at h
  split at h
  · cases h
  · cases h; rfl

theorem runCleanup_q {h : Hints} (fuel : Nat) {s : State} (hq : QExists ne s) (hI : Inv s) :
    wpR ne (runCleanup h fuel s) (fun s' => QExists ne s' ∧ Inv s') := by
  induction fuel generalizing s with
  | zero => exact ⟨hq, hI⟩
  | succ n ih =>
    unfold runCleanup
    cases hp : popDue s.now s.cleanup with
    | none => exact ⟨hq, hI⟩
    | some er =>
      obtain ⟨e, rest⟩ := er
      dsimp only
      obtain ⟨hmem, hsub⟩ := popDue_some hp
      have hI0 : Inv { s with cleanup := rest } := ⟨hI.core, hI.oinv, hI.sinv.cleanup_sub hsub, hI.linv⟩
      have hq0 : QExists ne { s with cleanup := rest } :=
        (hq.same (s' := { s with cleanup := rest }) rfl rfl rfl rfl (fun x hx _ _ => hsub x hx)).1
      cases hk : e.kind with
      | worker q w =>
        dsimp only
        apply wpR_bind
        refine wpR_mono (wpR_and (removeStaleWorker_q (ne := ne) hq0) (removeStaleWorker_spec hI0)) ?_
        intro s1 ⟨a, b, _⟩
        exact ih a b
      | op o =>
        dsimp only
        apply wpR_bind
        refine wpR_mono (wpR_and (removeOp_q (ne := ne) hq0)
          (removeOp_spec hI0 (fun op hop => hI.sinv.s2 o op e hop hmem hk))) ?_
        intro s1 ⟨a, b, _⟩
        exact ih a.1 b
      | scq q =>
        dsimp only
        apply wpR_bind
        have hnw : ∀ wk ∈ s.workers, wk.scq ≠ q := (hq.cq e hmem q hk).2
        have hnc : ∀ x ∈ rest, x.kind ≠ .scq q := by
          intro x hx hxk
          have hx' := hx
          rw [popDue_rest hp] at hx'
          have hxe : x = e := hq.cu x (hsub x hx) e hmem q hxk hk
          have := (List.mem_filter.mp hx').2
          simp [hxe] at this
        refine wpR_mono (wpR_and (removeScq_q (ne := ne) hq0 hI0 hnw hnc) (removeScq_spec hI0)) ?_
        intro s1 ⟨a, b, _⟩
        exact ih a b

theorem enter_q {h : Hints} {s : State} {t : Nat} (hq : QExists ne s) (hI : Inv s) :
    wpR ne (enter h s t) (fun s' => QExists ne s' ∧ Inv s') := by
  unfold enter
  split
  · have hI0 : Inv { s with now := t } := hI.of_same rfl rfl rfl rfl rfl rfl rfl rfl rfl rfl
    have hq0 : QExists ne { s with now := t } :=
      (hq.same (s' := { s with now := t }) rfl rfl rfl rfl (fun _ h _ _ => h)).1
    exact runCleanup_q _ hq0 hI0
  · exact ⟨hq, hI⟩

end BbRe.Lemmas.SchedQ
