/-
Lemmas and theorems about `BbRe.Model.LockPile` (property C14, part b).

1. `pile_no_hold_and_wait`  – a blocking acquisition inside `LockPile.Lock` happens only
                              when the thread holds no lock of the pile
   (`pile_blocked_holds_nothing`: … no lock at all, if it held pile locks only);
2. `pile_post`              – postcondition of `Lock` (held set, permutation of the
                              inserted pile, recursion counts, return value ⇔ no release);
   `lock_progress`, `lock_no_panic` – the index-panic branches of the model are unreachable;
3. `pile_unlock`, 4. `pile_unlockAll`;
5. `no_deadlock_path`, `no_deadlock`, `some_thread_can_proceed` – abstract wait-for graph;
6. `pile_thread_satisfies_H`, `pile_system_can_proceed` – connection of 1 and 5.
Invariant: `Inv` (`inv_init`, `inv_env`, `inv_step`, `inv_reachable`).
`reach_lockRun`: the deterministic runs of the model are reachable (used by the examples).
Core Lean only.
-/
import BbRe.Model.LockPile
namespace BbRe.Lemmas.LockPile
open BbRe.LockPile

/-! ## 0. list helpers -/

theorem locks_cons (h : Handle) (p : Pile) : locks (h :: p) = h.lock :: locks p := rfl

theorem mem_locks_of_mem {p : Pile} {h : Handle} (hm : h ∈ p) : h.lock ∈ locks p :=
  List.mem_map_of_mem (f := (·.lock)) hm

theorem nodup_getElem?_inj {p : Pile} (hn : (locks p).Nodup) :
    ∀ {i j : Nat} {a b : Handle}, p[i]? = some a → p[j]? = some b → a.lock = b.lock → i = j := by
  induction p with
  | nil => intro i j a b h; simp at h
  | cons h tl ih =>
    rw [locks_cons, List.nodup_cons] at hn
    intro i j a b hi hj hab
    cases i with
    | zero =>
      cases j with
      | zero => rfl
      | succ j =>
        simp at hi hj
        subst hi
        exact absurd (hab ▸ mem_locks_of_mem (List.mem_of_getElem? hj)) hn.1
    | succ i =>
      cases j with
      | zero =>
        simp at hi hj
        subst hj
        exact absurd (hab ▸ mem_locks_of_mem (List.mem_of_getElem? hi)) hn.1
      | succ j =>
        simp at hi hj
        rw [ih hn.2 hi hj hab]

theorem locks_insert (p : Pile) (l : Nat) :
    locks (LockPile.insert p l) = if l ∈ locks p then locks p else locks p ++ [l] := by
  induction p with
  | nil => simp [LockPile.insert, locks]
  | cons h tl ih =>
    unfold LockPile.insert
    split
    · next heq => simp [locks_cons, heq]
    · next hne =>
      rw [locks_cons, ih, locks_cons]
      have : ¬ l = h.lock := fun e => hne e.symm
      by_cases hm : l ∈ locks tl <;> simp [hm, this]

theorem nodup_insert {p : Pile} (l : Nat) (hn : (locks p).Nodup) : (locks (LockPile.insert p l)).Nodup := by
  rw [locks_insert]
  split
  · exact hn
  · next hm =>
    rw [List.nodup_append]
    refine ⟨hn, by simp, ?_⟩
    intro a ha b hb
    simp at hb
    subst hb
    intro e; exact hm (e ▸ ha)

theorem nodup_insertAll {p : Pile} (news : List Nat) (hn : (locks p).Nodup) :
    (locks (insertAll p news)).Nodup := by
  induction news generalizing p with
  | nil => exact hn
  | cons l ls ih => exact ih (nodup_insert l hn)

theorem mem_locks_insertAll (p : Pile) (news : List Nat) (x : Nat) :
    x ∈ locks (insertAll p news) ↔ x ∈ locks p ∨ x ∈ news := by
  induction news generalizing p with
  | nil => simp [insertAll]
  | cons l ls ih =>
    show x ∈ locks (insertAll (LockPile.insert p l) ls) ↔ _
    rw [ih, locks_insert]
    by_cases hm : l ∈ locks p
    · simp only [hm, if_true, List.mem_cons]
      constructor
      · rintro (h | h)
        · exact Or.inl h
        · exact Or.inr (Or.inr h)
      · rintro (h | h | h)
        · exact Or.inl h
        · exact Or.inl (h ▸ hm)
        · exact Or.inr h
    · simp only [hm, if_false, List.mem_cons, List.mem_append, List.not_mem_nil,
        or_false]
      constructor
      · rintro ((h | h) | h)
        · exact Or.inl h
        · exact Or.inr (Or.inl h)
        · exact Or.inr (Or.inr h)
      · rintro (h | h | h)
        · exact Or.inl (Or.inl h)
        · exact Or.inl (Or.inr h)
        · exact Or.inr h

/-- The old pile's locks stay where they are; everything appended is genuinely new. -/
theorem locks_insertAll_prefix (p : Pile) (news : List Nat) :
    ∃ e, locks (insertAll p news) = locks p ++ e ∧ ∀ x ∈ e, x ∈ news ∧ x ∉ locks p := by
  induction news generalizing p with
  | nil => exact ⟨[], by simp [insertAll], by simp⟩
  | cons l ls ih =>
    obtain ⟨e, he, hx⟩ := ih (LockPile.insert p l)
    rw [locks_insert] at he hx
    by_cases hm : l ∈ locks p
    · simp only [hm, if_true] at he hx
      exact ⟨e, he, fun x hxe => ⟨List.mem_cons_of_mem _ (hx x hxe).1, (hx x hxe).2⟩⟩
    · simp only [hm, if_false] at he hx
      refine ⟨l :: e, by rw [show insertAll p (l :: ls) = insertAll (LockPile.insert p l) ls from rfl, he]; simp, ?_⟩
      intro x hxe
      rcases List.mem_cons.1 hxe with rfl | hxe
      · exact ⟨List.mem_cons_self, hm⟩
      · have := hx x hxe
        exact ⟨List.mem_cons_of_mem _ this.1, fun h => this.2 (List.mem_append_left _ h)⟩

theorem acq_insert (p : Pile) (l x : Nat) :
    acq (LockPile.insert p l) x = acq p x + if l = x then 1 else 0 := by
  induction p with
  | nil => simp [LockPile.insert, acq]
  | cons h tl ih =>
    unfold LockPile.insert
    split
    · next heq =>
      subst heq
      by_cases hx : h.lock = x <;> simp [acq, hx]
    · next hne =>
      by_cases hx : h.lock = x
      · have : ¬ l = x := fun e => hne (hx.trans e.symm)
        simp [acq, hx, this]
      · simp [acq, hx, ih]

theorem acq_insertAll (p : Pile) (news : List Nat) (x : Nat) :
    acq (insertAll p news) x = acq p x + news.count x := by
  induction news generalizing p with
  | nil => simp [insertAll]
  | cons l ls ih =>
    show acq (insertAll (LockPile.insert p l) ls) x = _
    rw [ih, acq_insert, List.count_cons]
    by_cases h : l = x <;> simp [h] <;> omega

theorem acq_of_mem {p : Pile} (hn : (locks p).Nodup) {h : Handle} (hm : h ∈ p) :
    acq p h.lock = h.recursion + 1 := by
  induction p with
  | nil => simp at hm
  | cons a tl ih =>
    rw [locks_cons, List.nodup_cons] at hn
    rcases List.mem_cons.1 hm with rfl | hm
    · simp [acq]
    · have : a.lock ≠ h.lock := fun e => hn.1 (e ▸ mem_locks_of_mem hm)
      simp [acq, this, ih hn.2 hm]

theorem acq_eq_zero {p : Pile} {l : Nat} (h : l ∉ locks p) : acq p l = 0 := by
  induction p with
  | nil => rfl
  | cons a tl ih =>
    rw [locks_cons, List.mem_cons, not_or] at h
    have : ¬ a.lock = l := fun e => h.1 e.symm
    simp [acq, this, ih h.2]


/-! ## 1. swap / swapRemove are permutations -/

theorem set_perm_cons_eraseIdx {α} (p : List α) (k : Nat) (a : α) (hk : k < p.length) :
    (p.set k a).Perm (a :: p.eraseIdx k) := by
  induction p generalizing k with
  | nil => simp at hk
  | cons h tl ih =>
    cases k with
    | zero => simp
    | succ k =>
      simp only [List.set_cons_succ, List.eraseIdx_cons_succ]
      exact ((ih k (by simpa using hk)).cons h).trans (List.Perm.swap a h _)

theorem perm_cons_eraseIdx {α} (p : List α) (k : Nat) (b : α) (hk : p[k]? = some b) :
    p.Perm (b :: p.eraseIdx k) := by
  induction p generalizing k with
  | nil => simp at hk
  | cons h tl ih =>
    cases k with
    | zero => simp at hk; subst hk; simp
    | succ k =>
      simp only [List.eraseIdx_cons_succ]
      exact ((ih k (by simpa using hk)).cons h).trans (List.Perm.swap b h _)

theorem swap_zero_perm (p : Pile) (j : Nat) : (swap p 0 j).Perm p := by
  unfold swap
  split
  · next a b ha hb =>
    cases p with
    | nil => simp at ha
    | cons x rest =>
      simp at ha; subst ha
      cases j with
      | zero => simp at hb; subst hb; simp
      | succ k =>
        simp at hb
        simp only [List.set_cons_zero, List.set_cons_succ]
        have hk : k < rest.length := by
          rcases List.getElem?_eq_some_iff.1 hb with ⟨h, _⟩; exact h
        have h1 := set_perm_cons_eraseIdx rest k x hk
        have h2 := perm_cons_eraseIdx rest k b hb
        exact ((h1.cons b).trans (List.Perm.swap x b _)).trans (h2.symm.cons x)
  · exact List.Perm.refl _

theorem swapRemove_perm (p : Pile) (i : Nat) (h : Handle) (hi : p[i]? = some h) :
    p.Perm (h :: swapRemove p i) := by
  induction p generalizing i with
  | nil => simp at hi
  | cons x tl ih =>
    cases tl with
    | nil =>
      cases i with
      | zero => simp at hi; subst hi; simp [swapRemove]
      | succ i => simp at hi
    | cons y tl' =>
      have hlast : (x :: y :: tl').getLast? = (y :: tl').getLast? := List.getLast?_cons_cons
      obtain ⟨last, hl⟩ : ∃ last, (y :: tl').getLast? = some last := by
        cases hh : (y :: tl').getLast? with
        | none => simp at hh
        | some v => exact ⟨v, rfl⟩
      cases i with
      | zero =>
        simp at hi; subst hi
        simp only [swapRemove, hlast, hl, List.set_cons_zero]
        obtain ⟨ys, hys⟩ := List.getLast?_eq_some_iff.1 hl
        rw [List.dropLast_cons_of_ne_nil (by simp)]
        refine List.Perm.cons _ ?_
        rw [hys, List.dropLast_concat]
        exact List.perm_append_comm
      | succ k =>
        have hk : (y :: tl')[k]? = some h := by simpa using hi
        have ih' := ih k hk
        simp only [swapRemove, hl] at ih'
        simp only [swapRemove, hlast, hl, List.set_cons_succ]
        have hne : (y :: tl').set k last ≠ [] := by
          intro e; have := congrArg List.length e; simp at this
        rw [List.dropLast_cons_of_ne_nil hne]
        exact (ih'.cons x).trans (List.Perm.swap h x _)


/-! ## 2. The invariant of the `Lock` machine -/

/-- "thread `t` holds `l`" as a predicate on locks. -/
def held (t : Nat) (T : Table) : Nat → Prop := fun l => T l = some t

theorem held_set (t : Nat) (T : Table) (x : Nat) (v : Option Nat) (l : Nat) :
    held t (T.set x v) l ↔ if l = x then v = some t else held t T l := by
  unfold held Table.set
  split <;> exact Iff.rfl

theorem envStep_held {t : Nat} {T T' : Table} (h : EnvStep t T T') : held t T = held t T' :=
  funext fun l => propext (h l)

/-- `Hd` holds exactly on the locks of `p[a..b)`. -/
def HoldsRange (Hd : Nat → Prop) (p : Pile) (a b : Nat) : Prop :=
  ∀ j h, p[j]? = some h → (Hd h.lock ↔ a ≤ j ∧ j < b)

/-- Per-program-counter part of the invariant. -/
def pcInv (Hd : Nat → Prop) (s : MState) : Prop :=
  match s.pc with
  | .loopTest => HoldsRange Hd s.pile 0 s.cur
  | .tryLock => HoldsRange Hd s.pile 0 s.cur ∧ 0 < s.cur ∧ s.cur < s.pile.length
  | .release i => HoldsRange Hd s.pile i s.cur ∧ i ≤ s.cur ∧ 0 < s.cur ∧ s.cur < s.pile.length
      ∧ s.completed = false
  | .block => (∀ h ∈ s.pile, ¬ Hd h.lock) ∧ 0 < s.pile.length
  | .done => HoldsRange Hd s.pile 0 s.cur ∧ s.cur = s.pile.length
  | .panic => s.pile = []

/-- Invariant of `Lock`: `P0` = pile after the insertions, `Hd0`/`Hd` = what `t`
holds initially / now. -/
structure Inv (P0 : Pile) (Hd0 Hd : Nat → Prop) (s : MState) : Prop where
  perm : s.pile.Perm P0
  first : s.first = 0
  frame : ∀ l, l ∉ locks P0 → (Hd l ↔ Hd0 l)
  curLe : s.cur ≤ s.pile.length
  ghost1 : s.completed = true → s.releases = 0
  ghost2 : s.completed = false → 0 < s.releases ∨ s.pc = .release 0
  pcinv : pcInv Hd s

theorem Inv.nodup {P0 Hd0 Hd s} (hn : (locks P0).Nodup) (h : Inv P0 Hd0 Hd s) :
    (locks s.pile).Nodup :=
  (List.Perm.nodup_iff (show (locks s.pile).Perm (locks P0) from h.perm.map _)).2 hn

theorem Inv.mem_locks {P0 Hd0 Hd s} (h : Inv P0 Hd0 Hd s) (l : Nat) :
    l ∈ locks s.pile ↔ l ∈ locks P0 :=
  List.Perm.mem_iff (show (locks s.pile).Perm (locks P0) from h.perm.map _)

theorem lt_length_of_getElem? {α} {p : List α} {j : Nat} {a : α} (h : p[j]? = some a) :
    j < p.length := by
  rcases List.getElem?_eq_some_iff.1 h with ⟨h, _⟩; exact h

/-- Acquiring `p[c]` extends the held range `[a, c)` to `[a, c+1)`. -/
theorem holdsRange_acquire {t T} {p : Pile} (hn : (locks p).Nodup) {a c : Nat} {h : Handle}
    (hc : p[c]? = some h) (hac : a ≤ c) (hr : HoldsRange (held t T) p a c) :
    HoldsRange (held t (T.set h.lock (some t))) p a (c + 1) := by
  intro j hj hjs
  rw [held_set]
  split
  · next heq =>
    have : j = c := nodup_getElem?_inj hn hjs hc heq
    subst this
    simp; omega
  · next hne =>
    have : j ≠ c := by
      intro e; subst e; rw [hc] at hjs; cases hjs; exact hne rfl
    rw [hr j hj hjs]; omega

/-- Releasing `p[a]` shrinks the held range `[a, c)` to `[a+1, c)`. -/
theorem holdsRange_release {t T} {p : Pile} (hn : (locks p).Nodup) {a c : Nat} {h : Handle}
    (ha : p[a]? = some h) (hr : HoldsRange (held t T) p a c) :
    HoldsRange (held t (T.set h.lock none)) p (a + 1) c := by
  intro j hj hjs
  rw [held_set]
  split
  · next heq =>
    have : j = a := nodup_getElem?_inj hn hjs ha heq
    subst this
    simp; omega
  · next hne =>
    have : j ≠ a := by
      intro e; subst e; rw [ha] at hjs; cases hjs; exact hne rfl
    rw [hr j hj hjs]; omega

/-- Acquiring `p[0]` from "nothing held" gives the held range `[0, 1)`. -/
theorem holdsRange_first {t T} {p : Pile} (hn : (locks p).Nodup) {h : Handle}
    (h0 : p[0]? = some h) (hnone : ∀ x ∈ p, ¬ held t T x.lock) :
    HoldsRange (held t (T.set h.lock (some t))) p 0 1 := by
  intro j hj hjs
  rw [held_set]
  split
  · next heq =>
    have : j = 0 := nodup_getElem?_inj hn hjs h0 heq
    subst this
    simp
  · next hne =>
    have : j ≠ 0 := by
      intro e; subst e; rw [h0] at hjs; cases hjs; exact hne rfl
    have := hnone hj (List.mem_of_getElem? hjs)
    constructor
    · intro h; exact absurd h this
    · intro h; omega

theorem holdsRange_empty {Hd : Nat → Prop} {p : Pile} {a : Nat} (hr : HoldsRange Hd p a a) :
    ∀ h ∈ p, ¬ Hd h.lock := by
  intro h hm hh
  obtain ⟨j, hj, rfl⟩ := List.getElem_of_mem hm
  have := (hr j p[j] (List.getElem?_eq_getElem hj)).1 hh
  omega

theorem holdsRange_full {Hd : Nat → Prop} {p : Pile} (hr : HoldsRange Hd p 0 p.length) :
    ∀ h ∈ p, Hd h.lock := by
  intro h hm
  obtain ⟨j, hj, rfl⟩ := List.getElem_of_mem hm
  exact (hr j p[j] (List.getElem?_eq_getElem hj)).2 ⟨Nat.zero_le _, hj⟩

/-- Frame: setting a pile lock keeps the non-pile part of `held`. -/
theorem frame_set {t T P0} {Hd0 : Nat → Prop} {x : Nat} {v : Option Nat} (hx : x ∈ locks P0)
    (hf : ∀ l, l ∉ locks P0 → (held t T l ↔ Hd0 l)) :
    ∀ l, l ∉ locks P0 → (held t (T.set x v) l ↔ Hd0 l) := by
  intro l hl
  rw [held_set]
  have : l ≠ x := fun e => hl (e ▸ hx)
  simp only [this, if_false]
  exact hf l hl


theorem inv_env {t P0 Hd0 s T T'} (hi : Inv P0 Hd0 (held t T) s) (he : EnvStep t T T') :
    Inv P0 Hd0 (held t T') s := by
  rw [← envStep_held he]; exact hi

theorem inv_step {t : Nat} {P0 : Pile} {Hd0 : Nat → Prop} {s s' : MState} {T T' : Table}
    (hn : (locks P0).Nodup) (hi : Inv P0 Hd0 (held t T) s)
    (hs : step t s T = some (s', T')) : Inv P0 Hd0 (held t T') s' := by
  have hnp := hi.nodup hn
  have hml := hi.mem_locks
  obtain ⟨perm, first, frame, curLe, g1, g2, pci⟩ := hi
  rcases s with ⟨pile, cur, completed, fst, pc, releases⟩
  simp only at perm first frame curLe g1 g2 hnp hml
  subst first
  cases pc with
  | loopTest =>
    simp only [pcInv] at pci
    simp only [step] at hs
    split at hs
    · next hlt =>
      split at hs
      · next hpos =>
        cases hs
        exact ⟨perm, rfl, frame, curLe, g1, by simpa using g2, ⟨pci, hpos, hlt⟩⟩
      · next hz =>
        cases hs
        have : cur = 0 := by omega
        subst this
        exact ⟨perm, rfl, frame, curLe, g1, by simpa using g2, ⟨holdsRange_empty pci, hlt⟩⟩
    · next hge =>
      cases hs
      exact ⟨perm, rfl, frame, curLe, g1, by simpa using g2, ⟨pci, by simp only; omega⟩⟩
  | tryLock =>
    simp only [pcInv] at pci
    obtain ⟨hr, hpos, hlt⟩ := pci
    simp only [step] at hs
    split at hs
    · cases hs
    · next h hc =>
      have hmem : h.lock ∈ locks P0 := (hml _).1 (mem_locks_of_mem (List.mem_of_getElem? hc))
      split at hs
      · cases hs
        exact ⟨perm, rfl, frame_set hmem frame, by simp only; omega, g1, by simpa using g2,
          holdsRange_acquire hnp hc (Nat.zero_le _) hr⟩
      · cases hs
        exact ⟨perm, rfl, frame, curLe, by simp, by simp,
          ⟨hr, Nat.zero_le _, hpos, hlt, rfl⟩⟩
  | release i =>
    simp only [pcInv] at pci
    obtain ⟨hr, hic, hpos, hlt, hcf⟩ := pci
    simp only [step] at hs
    split at hs
    · next hilt =>
      split at hs
      · cases hs
      · next h hc =>
        cases hs
        have hmem : h.lock ∈ locks P0 := (hml _).1 (mem_locks_of_mem (List.mem_of_getElem? hc))
        exact ⟨perm, rfl, frame_set hmem frame, curLe, by simp [hcf], by simp,
          ⟨holdsRange_release hnp hc hr, by simp only; omega, hpos, hlt, hcf⟩⟩
    · next hige =>
      cases hs
      have hic' : i = cur := by omega
      subst hic'
      have hp := swap_zero_perm pile i
      refine ⟨hp.trans perm, rfl, frame, by simp only; rw [hp.length_eq]; exact curLe,
        by simp [hcf], ?_, ?_⟩
      · intro _
        rcases g2 hcf with h | h
        · exact Or.inl h
        · simp at h; omega
      · refine ⟨?_, by rw [hp.length_eq]; omega⟩
        intro h hm
        exact holdsRange_empty hr h (hp.mem_iff.1 hm)
  | block =>
    simp only [pcInv] at pci
    obtain ⟨hnone, hlen⟩ := pci
    simp only [step] at hs
    split at hs
    · cases hs
    · next h hc =>
      have hmem : h.lock ∈ locks P0 := (hml _).1 (mem_locks_of_mem (List.mem_of_getElem? hc))
      split at hs
      · cases hs
        exact ⟨perm, rfl, frame_set hmem frame, by simp only; omega, g1, by simpa using g2,
          holdsRange_first hnp hc hnone⟩
      · cases hs
  | done => simp [step] at hs
  | panic => simp [step] at hs


theorem length_le_insertAll (old : Pile) (news : List Nat) :
    old.length ≤ (insertAll old news).length := by
  obtain ⟨e, he, _⟩ := locks_insertAll_prefix old news
  have := congrArg List.length he
  simp [locks] at this
  omega

theorem holdsRange_init {t old news T0} (hwf : WfStart t old news T0) :
    HoldsRange (held t T0) (insertAll old news) 0 old.length := by
  obtain ⟨e, he, hx⟩ := locks_insertAll_prefix old news
  intro j hj hjs
  have h1 : (locks (insertAll old news))[j]? = some hj.lock := by
    simp [locks, hjs]
  rw [he] at h1
  by_cases hlt : j < old.length
  · rw [List.getElem?_append_left (by simpa [locks] using hlt)] at h1
    simp only [locks, List.getElem?_map, Option.map_eq_some_iff] at h1
    obtain ⟨ho, hoj, hol⟩ := h1
    have := hwf.holdsOld ho (List.mem_of_getElem? hoj)
    unfold held
    rw [← hol, this]
    simp [hlt]
  · rw [List.getElem?_append_right (by simpa [locks] using hlt)] at h1
    have hme := hx _ (List.mem_of_getElem? h1)
    have := hwf.newFree _ hme.1 hme.2
    unfold held
    constructor
    · intro h; exact absurd h this
    · intro h; omega

theorem inv_init {t old news T0} (hwf : WfStart t old news T0) :
    Inv (insertAll old news) (held t T0) (held t T0) (lockInit old news) := by
  refine ⟨List.Perm.refl _, rfl, fun _ _ => Iff.rfl, length_le_insertAll old news,
    fun _ => rfl, fun h => by simp [lockInit] at h, ?_⟩
  by_cases hz : (insertAll old news).length = 0
  · have hpc : (lockInit old news).pc = .panic := by simp [lockInit, hz]
    unfold pcInv
    rw [hpc]
    exact List.eq_nil_of_length_eq_zero hz
  · have hpc : (lockInit old news).pc = .loopTest := by simp [lockInit, hz]
    unfold pcInv
    rw [hpc]
    exact holdsRange_init hwf

theorem inv_reachable {t old news T0 s T} (hwf : WfStart t old news T0)
    (hr : Reach t (lockInit old news) T0 s T) :
    Inv (insertAll old news) (held t T0) (held t T) s := by
  induction hr with
  | init => exact inv_init hwf
  | env _ he ih => exact inv_env ih he
  | step _ hs ih => exact inv_step (nodup_insertAll news hwf.nodup) ih hs

theorem awaited_some {s : MState} {l : Nat} (h : awaited s = some l) : s.pc = .block := by
  unfold awaited at h
  split at h
  · assumption
  · cases h

/-! ## 3. Theorems about `Lock` -/

/-- (1) Whenever the next step of `t` is the blocking acquisition, `t` holds no lock of the pile. -/
theorem pile_no_hold_and_wait {t : Nat} {old : Pile} {news : List Nat} {T0 : Table}
    (hwf : WfStart t old news T0) {s : MState} {T : Table}
    (hr : Reach t (lockInit old news) T0 s T) (hpc : s.pc = .block) :
    ∀ h ∈ s.pile, T h.lock ≠ some t := by
  have := (inv_reachable hwf hr).pcinv
  unfold pcInv at this
  rw [hpc] at this
  exact this.1

/-- (1') Same, and moreover `t` holds nothing at all if initially it held pile locks only. -/
theorem pile_blocked_holds_nothing {t : Nat} {old : Pile} {news : List Nat} {T0 : Table}
    (hwf : WfStart t old news T0) (honly : ∀ l, T0 l = some t → l ∈ locks old)
    {s : MState} {T : Table}
    (hr : Reach t (lockInit old news) T0 s T) (hpc : s.pc = .block) :
    ∀ l, T l ≠ some t := by
  intro l hl
  have hi := inv_reachable hwf hr
  by_cases hm : l ∈ locks (insertAll old news)
  · have hm' := (hi.mem_locks l).2 hm
    simp only [locks, List.mem_map] at hm'
    obtain ⟨h, hh, rfl⟩ := hm'
    exact pile_no_hold_and_wait hwf hr hpc h hh hl
  · have := (hi.frame l hm).1 hl
    exact hm ((mem_locks_insertAll old news l).2 (Or.inl (honly l this)))

/-- (2) Postcondition of `Lock`. -/
theorem pile_post {t : Nat} {old : Pile} {news : List Nat} {T0 : Table}
    (hwf : WfStart t old news T0) {s : MState} {T : Table}
    (hr : Reach t (lockInit old news) T0 s T) (hpc : s.pc = .done) :
    (∀ h ∈ s.pile, T h.lock = some t) ∧
    (locks s.pile).Nodup ∧
    s.pile.Perm (insertAll old news) ∧
    (∀ l, l ∈ locks s.pile ↔ l ∈ locks old ∨ l ∈ news) ∧
    (∀ h ∈ s.pile, h.recursion + 1 = acq old h.lock + news.count h.lock) ∧
    (∀ l, l ∉ locks s.pile → (T l = some t ↔ T0 l = some t)) ∧
    (result s = some s.completed) ∧
    (s.completed = true ↔ s.releases = 0) := by
  have hi := inv_reachable hwf hr
  have hn0 := nodup_insertAll news hwf.nodup
  have hpi := hi.pcinv
  unfold pcInv at hpi
  rw [hpc] at hpi
  refine ⟨?_, hi.nodup hn0, hi.perm, ?_, ?_, ?_, ?_, hi.ghost1, ?_⟩
  · have := hpi.1
    rw [hpi.2] at this
    exact holdsRange_full this
  · intro l
    rw [hi.mem_locks, mem_locks_insertAll]
  · intro h hm
    have hm0 := hi.perm.mem_iff.1 hm
    rw [← acq_insertAll, acq_of_mem hn0 hm0]
  · intro l hl
    exact hi.frame l (fun h => hl ((hi.mem_locks l).2 h))
  · unfold result; rw [hpc]
  · intro hz
    cases hc : s.completed with
    | true => rfl
    | false =>
      rcases hi.ghost2 hc with h | h
      · omega
      · rw [hpc] at h; cases h


/-- Under the invariant the machine never hits an index panic: a step is disabled only
after `return`, after the initial panic, or at the blocking acquisition of a held lock. -/
theorem lock_progress {t : Nat} {old : Pile} {news : List Nat} {T0 : Table}
    (hwf : WfStart t old news T0) {s : MState} {T : Table}
    (hr : Reach t (lockInit old news) T0 s T) (hstuck : step t s T = none) :
    s.pc = .done ∨ s.pc = .panic ∨ (∃ l, awaited s = some l ∧ T l ≠ none) := by
  have hi := inv_reachable hwf hr
  obtain ⟨_, first, _, curLe, _, _, pci⟩ := hi
  rcases s with ⟨pile, cur, completed, fst, pc, releases⟩
  simp only at first curLe
  subst first
  cases pc with
  | loopTest =>
    simp only [step] at hstuck
    split at hstuck
    · split at hstuck <;> cases hstuck
    · cases hstuck
  | tryLock =>
    simp only [pcInv] at pci
    simp only [step] at hstuck
    split at hstuck
    · next hnone => rw [List.getElem?_eq_none_iff] at hnone; omega
    · split at hstuck <;> cases hstuck
  | release i =>
    simp only [pcInv] at pci
    simp only [step] at hstuck
    split at hstuck
    · split at hstuck
      · next hnone => rw [List.getElem?_eq_none_iff] at hnone; omega
      · cases hstuck
    · cases hstuck
  | block =>
    simp only [pcInv] at pci
    simp only [step] at hstuck
    split at hstuck
    · next hnone => rw [List.getElem?_eq_none_iff] at hnone; omega
    · next h hc =>
      split at hstuck
      · cases hstuck
      · next hheld => exact Or.inr (Or.inr ⟨h.lock, by simp [awaited, hc], hheld⟩)
  | done => exact Or.inl rfl
  | panic => exact Or.inr (Or.inl rfl)

/-- `Lock` with at least one lock in old ∪ new never panics. -/
theorem lock_no_panic {t : Nat} {old : Pile} {news : List Nat} {T0 : Table}
    (hwf : WfStart t old news T0) (hne : old ≠ [] ∨ news ≠ []) {s : MState} {T : Table}
    (hr : Reach t (lockInit old news) T0 s T) : s.pc ≠ .panic := by
  intro hpc
  have hi := inv_reachable hwf hr
  have hpi := hi.pcinv
  unfold pcInv at hpi
  rw [hpc] at hpi
  have hp := hi.perm
  rw [hpi] at hp
  have hnil : insertAll old news = [] := hp.symm.eq_nil
  have hl : ∀ l, ¬ (l ∈ locks old ∨ l ∈ news) := by
    intro l h
    have := (mem_locks_insertAll old news l).2 h
    rw [hnil] at this
    simp [locks] at this
  rcases hne with h | h
  · cases old with
    | nil => exact h rfl
    | cons a _ => exact hl a.lock (Or.inl (by simp [locks]))
  · cases news with
    | nil => exact h rfl
    | cons a _ => exact hl a (Or.inr (by simp))

/-! ## 4. `Unlock` / `UnlockAll` -/

theorem findIdx_spec {p : Pile} {l : Nat} (hl : l ∈ locks p) :
    ∃ i h, findIdx p l = some i ∧ p[i]? = some h ∧ h.lock = l := by
  induction p with
  | nil => simp [locks] at hl
  | cons a tl ih =>
    unfold findIdx
    split
    · next heq => exact ⟨0, a, rfl, rfl, heq⟩
    · next hne =>
      rw [locks_cons, List.mem_cons] at hl
      rcases hl with rfl | hl
      · exact absurd rfl hne
      · obtain ⟨i, h, hf, hg, hh⟩ := ih hl
        exact ⟨i + 1, h, by simp [hf], by simpa using hg, hh⟩

/-- (3) `Unlock l` on a pile containing `l`: with `recursion > 0` only the count
drops and the table is unchanged; otherwise `l` becomes free, every other table
entry is unchanged and the pile loses exactly that handle. -/
theorem pile_unlock {p : Pile} {T : Table} {l : Nat} (hl : l ∈ locks p) :
    ∃ i h p' T', p[i]? = some h ∧ h.lock = l ∧ unlock p T l = some (p', T') ∧
      (0 < h.recursion →
        p' = p.set i { h with recursion := h.recursion - 1 } ∧ T' = T) ∧
      (h.recursion = 0 →
        T' l = none ∧ (∀ x, x ≠ l → T' x = T x) ∧
        p.Perm (h :: p') ∧ p'.Perm (p.erase h) ∧
        ((locks p).Nodup → l ∉ locks p')) := by
  obtain ⟨i, h, hf, hg, hh⟩ := findIdx_spec hl
  by_cases hrec : 0 < h.recursion
  · refine ⟨i, h, _, T, hg, hh, by simp [unlock, hf, hg, hrec], fun _ => ⟨rfl, rfl⟩, ?_⟩
    intro h0; omega
  · refine ⟨i, h, swapRemove p i, T.set h.lock none, hg, hh, by simp [unlock, hf, hg, hrec],
      fun h' => absurd h' hrec, ?_⟩
    intro _
    have hperm := swapRemove_perm p i h hg
    refine ⟨by simp [Table.set, hh], ?_, hperm, ?_, ?_⟩
    · intro x hx
      simp [Table.set, hh, hx]
    · have h1 : p.Perm (h :: p.erase h) := List.perm_cons_erase (List.mem_of_getElem? hg)
      exact (hperm.symm.trans h1).cons_inv
    · intro hn hmem
      have : (locks p).Perm (l :: locks (swapRemove p i)) := by
        have := hperm.map (·.lock)
        simpa [locks, hh] using this
      have hn' := (this.nodup_iff).1 hn
      exact (List.nodup_cons.1 hn').1 hmem

theorem foldl_release (p : Pile) (T : Table) (x : Nat) :
    (p.foldl (fun T h => T.set h.lock none) T) x = if x ∈ locks p then none else T x := by
  induction p generalizing T with
  | nil => simp [locks]
  | cons a tl ih =>
    rw [List.foldl_cons, ih, locks_cons]
    by_cases h1 : x ∈ locks tl
    · simp [h1]
    · by_cases h2 : x = a.lock <;> simp [h1, h2, Table.set]

/-- (4) `UnlockAll`: the pile is empty, every lock of the pile is free, all other
table entries are unchanged. -/
theorem pile_unlockAll (p : Pile) (T : Table) :
    (unlockAll p T).1 = [] ∧
    (∀ l ∈ locks p, (unlockAll p T).2 l = none) ∧
    (∀ l, l ∉ locks p → (unlockAll p T).2 l = T l) := by
  refine ⟨rfl, ?_, ?_⟩
  · intro l hl; simp [unlockAll, foldl_release, hl]
  · intro l hl; simp [unlockAll, foldl_release, hl]

/-! ## 5. Abstract wait-for graph -/

section Abstract
variable (holds : Nat → Nat → Prop) (waits : Nat → Option Nat) (cls : Nat → Nat)

/-- Wait-for edge: `t` is blocked on a lock held by `u`. -/
def Edge (t u : Nat) : Prop := ∃ l, waits t = some l ∧ holds u l

/-- Hypothesis H for one thread: while blocked on `l` it holds nothing, or only
locks of strictly smaller class than `l`. -/
def HAt (t : Nat) : Prop :=
  ∀ l, waits t = some l → (∀ l', ¬ holds t l') ∨ (∀ l', holds t l' → cls l' < cls l)

/-- Hypothesis H. -/
def H : Prop := ∀ t, HAt holds waits cls t

/-- Non-empty paths of a relation. -/
inductive Path (E : Nat → Nat → Prop) : Nat → Nat → Prop where
  | single {a b} : E a b → Path E a b
  | cons {a b c} : E a b → Path E b c → Path E a c

/-- `Chain E a [b, c, …]` ≡ `a ⟶ b ⟶ c ⟶ …`. -/
def Chain (E : Nat → Nat → Prop) : Nat → List Nat → Prop
  | _, [] => True
  | a, b :: rest => E a b ∧ Chain E b rest

theorem path_of_chain {E : Nat → Nat → Prop} {a b : Nat} (rest : List Nat)
    (h : Chain E a (rest ++ [b])) : Path E a b := by
  induction rest generalizing a with
  | nil => exact Path.single h.1
  | cons c r ih => exact Path.cons h.1 (ih h.2)

variable {holds waits cls}

/-- Every thread with an outgoing wait-for edge is blocked. -/
theorem Edge.blocked {t u : Nat} (h : Edge holds waits t u) : waits t ≠ none := by
  obtain ⟨l, hl, _⟩ := h
  rw [hl]; exact fun e => nomatch e

/-- Along an edge into a blocked thread the class of the awaited lock strictly increases. -/
theorem edge_increases (hH : H holds waits cls) {t u m : Nat}
    (he : Edge holds waits t u) (hu : waits u = some m) :
    ∃ l, waits t = some l ∧ cls l < cls m := by
  obtain ⟨l, hl, hul⟩ := he
  rcases hH u m hu with h | h
  · exact absurd hul (h l)
  · exact ⟨l, hl, h l hul⟩

theorem path_increases (hH : H holds waits cls) {t u : Nat}
    (hp : Path (Edge holds waits) t u) :
    ∀ m, waits u = some m → ∃ l, waits t = some l ∧ cls l < cls m := by
  induction hp with
  | single he => exact fun m hm => edge_increases hH he hm
  | cons he _ ih =>
    intro m hm
    obtain ⟨lb, hlb, hlt⟩ := ih m hm
    obtain ⟨la, hla, hlt'⟩ := edge_increases hH he hlb
    exact ⟨la, hla, Nat.lt_trans hlt' hlt⟩

/-- (5) Under H the wait-for graph has no cycle (all members of a cycle are
blocked, because each has an outgoing edge: `Edge.blocked`). -/
theorem no_deadlock_path (hH : H holds waits cls) (t : Nat) :
    ¬ Path (Edge holds waits) t t := by
  intro hp
  obtain ⟨l, hl, _⟩ : ∃ l, waits t = some l ∧ True := by
    cases hp with
    | single he => obtain ⟨l, hl, _⟩ := he; exact ⟨l, hl, trivial⟩
    | cons he _ => obtain ⟨l, hl, _⟩ := he; exact ⟨l, hl, trivial⟩
  obtain ⟨l', hl', hlt⟩ := path_increases hH hp l hl
  rw [hl] at hl'
  cases hl'
  exact Nat.lt_irrefl _ hlt

/-- (5) List form: there is no chain `t0 ⟶ t1 ⟶ … ⟶ tn ⟶ t0` (any `n ≥ 0`). -/
theorem no_deadlock (hH : H holds waits cls) (t0 : Nat) (rest : List Nat) :
    ¬ Chain (Edge holds waits) t0 (rest ++ [t0]) :=
  fun hc => no_deadlock_path hH t0 (path_of_chain rest hc)

theorem exists_max (f : Nat → Nat) (ts : List Nat) (hne : ts ≠ []) :
    ∃ t ∈ ts, ∀ u ∈ ts, f u ≤ f t := by
  induction ts with
  | nil => exact absurd rfl hne
  | cons a tl ih =>
    cases tl with
    | nil => exact ⟨a, by simp, by simp⟩
    | cons b tl' =>
      obtain ⟨m, hm, hmax⟩ := ih (by simp)
      by_cases hle : f m ≤ f a
      · refine ⟨a, by simp, ?_⟩
        intro u hu
        rcases List.mem_cons.1 hu with rfl | hu
        · exact Nat.le_refl _
        · exact Nat.le_trans (hmax u hu) hle
      · refine ⟨m, List.mem_cons_of_mem _ hm, ?_⟩
        intro u hu
        rcases List.mem_cons.1 hu with rfl | hu
        · omega
        · exact hmax u hu

/-- (5, corollary) In a finite non-empty set of threads in which every awaited
lock is free or held inside the set, not everyone is stuck: some thread is
running, or is blocked on a lock held by nobody. -/
theorem some_thread_can_proceed (hH : H holds waits cls) (ts : List Nat) (hne : ts ≠ [])
    (hclosed : ∀ t ∈ ts, ∀ l, waits t = some l → (∃ u ∈ ts, holds u l) ∨ (∀ u, ¬ holds u l)) :
    ∃ t ∈ ts, waits t = none ∨ ∃ l, waits t = some l ∧ ∀ u, ¬ holds u l := by
  obtain ⟨t, ht, hmax⟩ :=
    exists_max (fun t => match waits t with | some l => cls l | none => 0) ts hne
  cases hwt : waits t with
  | none => exact ⟨t, ht, Or.inl hwt⟩
  | some l =>
    rcases hclosed t ht l hwt with ⟨u, hu, hul⟩ | hfree
    · cases hwu : waits u with
      | none => exact ⟨u, hu, Or.inl hwu⟩
      | some m =>
        exfalso
        have hle := hmax u hu
        simp only [hwt, hwu] at hle
        rcases hH u m hwu with h | h
        · exact h l hul
        · have := h l hul; omega
    · exact ⟨t, ht, Or.inr ⟨l, hwt, hfree⟩⟩

end Abstract

/-! ## 6. A pile thread satisfies H -/

/-- (6) A thread whose locks (of the class at hand) are all acquired through
`LockPile.Lock` satisfies the first disjunct of H whenever it is blocked inside
`Lock`: for any system view `holds`/`waits` that agrees with the machine on
thread `t`. -/
theorem pile_thread_satisfies_H {t : Nat} {old : Pile} {news : List Nat} {T0 : Table}
    (hwf : WfStart t old news T0) (honly : ∀ l, T0 l = some t → l ∈ locks old)
    {s : MState} {T : Table} (hr : Reach t (lockInit old news) T0 s T)
    (holds : Nat → Nat → Prop) (waits : Nat → Option Nat) (cls : Nat → Nat)
    (hholds : ∀ l, holds t l ↔ T l = some t) (hwaits : waits t = awaited s) :
    HAt holds waits cls t := by
  intro l hl
  left
  rw [hwaits] at hl
  intro l' hl'
  exact pile_blocked_holds_nothing hwf honly hr (awaited_some hl) l' ((hholds l').1 hl')

/-- (6') End-to-end: a finite non-empty system of threads, each somewhere inside a
`LockPile.Lock` call (seen from its own side: the others are its environment),
sharing the table `T`, all locks held by members of the system: some thread is
not blocked, or is blocked on a free lock. -/
theorem pile_system_can_proceed (ts : List Nat) (hne : ts ≠ [])
    (old : Nat → Pile) (news : Nat → List Nat) (T0 : Nat → Table) (s : Nat → MState) (T : Table)
    (hwf : ∀ t ∈ ts, WfStart t (old t) (news t) (T0 t))
    (honly : ∀ t ∈ ts, ∀ l, T0 t l = some t → l ∈ locks (old t))
    (hr : ∀ t ∈ ts, Reach t (lockInit (old t) (news t)) (T0 t) (s t) T)
    (hclosed : ∀ l u, T l = some u → u ∈ ts) :
    ∃ t ∈ ts, awaited (s t) = none ∨ ∃ l, awaited (s t) = some l ∧ T l = none := by
  let holds : Nat → Nat → Prop := fun u l => T l = some u
  let waits : Nat → Option Nat := fun u => if u ∈ ts then awaited (s u) else none
  have hH : H holds waits (fun _ => 0) := by
    intro t
    by_cases ht : t ∈ ts
    · exact pile_thread_satisfies_H (hwf t ht) (honly t ht) (hr t ht) holds waits _
        (fun _ => Iff.rfl) (by simp [waits, ht])
    · intro l hl
      simp [waits, ht] at hl
  obtain ⟨t, ht, h⟩ := some_thread_can_proceed hH ts hne (by
    intro t _ l _
    cases hT : T l with
    | none => right; intro u hu; simp [holds, hT] at hu
    | some u => exact Or.inl ⟨u, hclosed l u hT, hT⟩)
  refine ⟨t, ht, ?_⟩
  simp only [waits, ht, if_true] at h
  rcases h with h | ⟨l, hl, hfree⟩
  · exact Or.inl h
  · refine Or.inr ⟨l, hl, ?_⟩
    cases hT : T l with
    | none => rfl
    | some u => exact absurd hT (hfree u)

/-! ## 7. The deterministic runs are reachable -/

theorem envStep_refl (t : Nat) (T : Table) : EnvStep t T T := fun _ => Iff.rfl

theorem envFor_envStep (t : Nat) (s : MState) (T : Table) (g : Bool) :
    EnvStep t T (envFor t s T g) := by
  rcases s with ⟨pile, cur, completed, fst, pc, releases⟩
  cases pc with
  | tryLock =>
    simp only [envFor]
    split
    · split
      · next hg =>
        intro l
        unfold Table.set
        split
        · next heq => subst heq; rw [hg.2]; simp
        · exact Iff.rfl
      · exact envStep_refl t T
    · exact envStep_refl t T
  | block =>
    simp only [envFor]
    split
    · split
      · exact envStep_refl t T
      · next hc =>
        intro l
        unfold Table.set
        split
        · next heq => subst heq; simp [hc]
        · exact Iff.rfl
    · exact envStep_refl t T
  | loopTest => exact envStep_refl t T
  | release i => exact envStep_refl t T
  | done => exact envStep_refl t T
  | panic => exact envStep_refl t T

theorem reach_runSteps {t : Nat} {s0 : MState} {T0 : Table} :
    ∀ (fuel : Nat) (orc : List Bool) (s : MState) (T : Table), Reach t s0 T0 s T →
      Reach t s0 T0 (runSteps t fuel orc s T).1 (runSteps t fuel orc s T).2 := by
  intro fuel
  induction fuel with
  | zero => intro orc s T hr; exact hr
  | succ n ih =>
    intro orc s T hr
    have hr1 := Reach.env hr (envFor_envStep t s T (orc.headD false))
    unfold runSteps
    simp only
    split
    · exact hr1
    · next s' T' hs => exact ih _ _ _ (Reach.step hr1 hs)

theorem reach_lockRun (t fuel : Nat) (orc : List Bool) (old : Pile) (news : List Nat) (T0 : Table) :
    Reach t (lockInit old news) T0 (lockRun t fuel orc old news T0).1
      (lockRun t fuel orc old news T0).2 :=
  reach_runSteps fuel orc _ _ Reach.init


/-! ## 8. Non-vacuity: concrete instances

Thread 0 holds the pile `[10]` and calls `Lock(20, 30, 10)`: the pile becomes
`[10(rec 1), 20, 30]`; `TryLock(20)` succeeds, `TryLock(30)` fails (thread 1 grabbed
it), locks 10 and 20 are released, 30 is swapped to the front and awaited. -/

namespace Ex

def old : Pile := [{ lock := 10, recursion := 0 }]
def news : List Nat := [20, 30, 10]
def T0 : Table := Table.free.set 10 (some 0)

theorem wf : WfStart 0 old news T0 where
  nodup := by decide
  holdsOld := by decide
  newFree := by decide

/-- After 7 steps: blocked on 30, having released 10 and 20. -/
def blocked : MState × Table := lockRun 0 7 [false, true] old news T0
/-- Run to completion. -/
def final : MState × Table := lockRun 0 20 [false, true] old news T0

example : blocked.1.pc = .block ∧ awaited blocked.1 = some 30 ∧ locks blocked.1.pile = [30, 20, 10]
    ∧ blocked.1.releases = 2 ∧ blocked.2 30 = some 1 := by decide

-- (1) instantiated: the hypotheses are satisfiable with a genuinely blocked state
example : ∀ h ∈ blocked.1.pile, blocked.2 h.lock ≠ some 0 :=
  pile_no_hold_and_wait wf (reach_lockRun 0 7 [false, true] old news T0) (by decide)

example : final.1.pc = .done ∧ result final.1 = some false ∧ final.1.releases = 2
    ∧ final.1.pile = [⟨30, 0⟩, ⟨20, 0⟩, ⟨10, 1⟩]
    ∧ final.2 10 = some 0 ∧ final.2 20 = some 0 ∧ final.2 30 = some 0 := by decide

-- (2) instantiated on the completed run (return value `false`, two releases)
example := pile_post wf (reach_lockRun 0 20 [false, true] old news T0) (by decide)

-- a run without contention returns `true`
example : result (lockRun 0 20 [] old news T0).1 = some true
    ∧ (lockRun 0 20 [] old news T0).1.releases = 0 := by decide

-- (3) instantiated: recursive handle (10, count drops) and plain handle (30, released)
example : unlock final.1.pile final.2 10 = some ([⟨30, 0⟩, ⟨20, 0⟩, ⟨10, 0⟩], final.2) := rfl
example := pile_unlock (p := final.1.pile) (T := final.2) (l := 30) (by decide)
example : (unlock final.1.pile final.2 30).map (·.1) = some [⟨10, 1⟩, ⟨20, 0⟩] := by decide

-- (4) instantiated
example : (unlockAll final.1.pile final.2).2 20 = none := by decide

-- (5) instantiated: two threads, thread 0 blocked on lock 1 (class 1) holding lock 0
-- (class 0), thread 1 running and holding lock 1: H holds, and thread 1 can proceed.
def holds2 : Nat → Nat → Prop := fun t l => (t = 0 ∧ l = 0) ∨ (t = 1 ∧ l = 1)
def waits2 : Nat → Option Nat := fun t => if t = 0 then some 1 else none
def cls2 : Nat → Nat := fun l => l

theorem H2 : H holds2 waits2 cls2 := by
  intro t l hl
  unfold waits2 at hl
  split at hl
  · next h0 =>
    cases hl
    right
    intro l' hh
    unfold holds2 at hh
    unfold cls2
    omega
  · cases hl

example : Edge holds2 waits2 0 1 := ⟨1, rfl, Or.inr ⟨rfl, rfl⟩⟩
example : ¬ Chain (Edge holds2 waits2) 0 ([1] ++ [0]) := no_deadlock H2 0 [1]
example : ∃ t ∈ [0, 1], waits2 t = none ∨ ∃ l, waits2 t = some l ∧ ∀ u, ¬ holds2 u l :=
  some_thread_can_proceed H2 [0, 1] (by simp) (by
    intro t ht l hl
    unfold waits2 at hl
    split at hl
    · cases hl; exact Or.inl ⟨1, by simp, Or.inr ⟨rfl, rfl⟩⟩
    · cases hl)

-- (6) instantiated on the blocked state above
example : HAt (fun u l => blocked.2 l = some u) (fun u => if u = 0 then awaited blocked.1 else none)
    (fun _ => 0) 0 :=
  pile_thread_satisfies_H wf (by
      intro l hl
      unfold T0 Table.set Table.free at hl
      split at hl
      · next h => subst h; decide
      · cases hl)
    (reach_lockRun 0 7 [false, true] old news T0) _ _ _ (fun _ => Iff.rfl) rfl

-- (6') instantiated: the one-thread system at the start of the call above
example : ∃ t ∈ [0], awaited ((fun _ => lockInit old news) t) = none ∨
    ∃ l, awaited ((fun _ => lockInit old news) t) = some l ∧ T0 l = none :=
  pile_system_can_proceed [0] (by simp) (fun _ => old) (fun _ => news) (fun _ => T0)
    (fun _ => lockInit old news) T0
    (by intro t ht; simp at ht; subst ht; exact wf)
    (by
      intro t ht l hl
      unfold T0 Table.set Table.free at hl
      split at hl
      · next h => subst h; decide
      · cases hl)
    (by intro t ht; simp at ht; subst ht; exact Reach.init)
    (by
      intro l u hl
      unfold T0 Table.set Table.free at hl
      split at hl
      · cases hl; simp
      · cases hl)

end Ex

end BbRe.Lemmas.LockPile
