import BbRe.Lemmas.SchedTreeFnCleanup
import BbRe.Lemmas.SchedTreeFnNext
import BbRe.Lemmas.SchedTreeFnSync
import BbRe.Lemmas.SchedTreeFnExec
/-!
The invariant of the tree layer holds in every reachable state: `TInv` = the invariant of `Sched` on the
`Sched` component, `TreeOK` for the four bags computed from the state, and the coupling `Side`.
-/
namespace BbRe.Lemmas.SchedTree
open BbRe.Sched BbRe.SchedTree BbRe.Lemmas.SchedInv

theorem tinv_init (cfg : Cfg) : TInv (TState.init cfg) := by
  refine ⟨inv_init cfg, ?_, ?_⟩
  · refine ⟨List.nodup_nil, ?_, ?_, ?_, ?_, ?_, ?_, ?_, ?_, ?_, ?_, ?_, ?_, ?_, ?_⟩ <;>
      first
        | (intro n hn; cases hn)
        | (intro c hc; simp [TState.init, State.init, bagE, bagI, bagQ, bagP] at hc)
  · refine ⟨?_, ?_, List.nodup_nil, ?_, ?_, ?_, ?_⟩
    · intro sq hsq; cases hsq
    · intro n hn; cases hn
    · intro q w; rfl
    · intro q w wk x hw; cases hw
    · intro o op ho; cases ho
    · intro k t q w hk; cases hk

theorem tstep_tinv {ts ts' : TState} {g : TSeg} (hI : TInv ts) (hh : tstep ts g = .ok ts') : TInv ts' := by
  refine TInv.mk' (wp_of_ok (step_spec g.seg hI.inv) (tstep_ref ts ts' g hh)).1 ?_
  unfold tstep at hh
  split at hh
  · split at hh
    · cases hh; exact tRegister_ts hI _ _ _ _ _ _ _ (by assumption)
    · cases hh
  · exact tExecArrive_ts enterOK hI hh
  · exact tWaitArrive_ts enterOK hI hh
  · exact tStreamWake_ts enterOK hI hh
  · exact tSyncArrive_ts enterOK completeOK nextOK (curOK completeOK) hI hh
  · exact tSyncWake_ts enterOK nextOK hI hh
  · exact tKillOp_ts enterOK completeOK hI hh
  · exact tKillQueue_ts enterOK cancelOK hI hh
  · exact tAddDrain_ts enterOK hI hh
  · exact tRemoveDrain_ts enterOK hI hh
  · exact tTerminate_ts enterOK hI hh
  · exact tTermWake_ts hI hh
  · exact enterOK _ _ _ _ _ hI hh

theorem tinv_reachable {ts : TState} (h : TReachable ts) : TInv ts := by
  induction h with
  | init cfg => exact tinv_init cfg
  | step g _ hs ih => exact tstep_tinv ih hs

end BbRe.Lemmas.SchedTree
