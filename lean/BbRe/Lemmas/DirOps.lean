import BbRe.Lemmas.DirLe
/-!
Every operation of `Model/Dir.lean` preserves the invariant (`Inv`) and moves
the store forward (`Le`).  One lemma per operation, proved by chaining the
primitive lemmas of `DirInv.lean` / `DirLe.lean` along the operation's branches.
-/
namespace BbRe.Lemmas.Dir
open BbRe.Dir

/-- What is known after `getContents` / `createChildren` succeeded on directory `d`. -/
structure MatOK (P : Params) (s s1 : Store) (d : Nat) (fl : List Child) : Prop where
  inv    : InvF P s1 fl
  le     : Le s s1
  lazy   : (s1.dir d).lazy = none
  leaves : s1.leaves.length = s.leaves.length
  tmpls  : s1.tmpls = s.tmpls
  ff     : s1.fetchFail = s.fetchFail
  af     : s1.allocFail = s.allocFail
  del    : (s1.dir d).deleted = (s.dir d).deleted
  frame  : ∀ d', d' ≠ d → d' < s.dirs.length → s1.dir d' = s.dir d'

theorem mayAttach_none {x : Dir} {n : Nat} (h : x.mayAttach n = none) : x.deleted = false ∧ x.find? n = none := by
  unfold Dir.mayAttach at h
  by_cases hd : x.deleted = true
  · simp [hd] at h
  · cases hf : x.find? n with
    | none => simp_all
    | some e => simp [hd, hf] at h

theorem link_modDir (s : Store) (d : Nat) (f : Dir → Dir) (l : Nat) :
    (s.modDir d f).link l = (s.link l).modDir d f := rfl

theorem unlink_modDir (s : Store) (d : Nat) (f : Dir → Dir) (l : Nat) :
    (s.modDir d f).unlink l = (s.unlink l).modDir d f := rfl

theorem attachInitial_ok {P : Params} {d : Nat} {fl : List Child} :
    ∀ (cs : List (Nat × TChild)) (s s' : Store), InvF P s fl → d < s.dirs.length → (s.dir d).lazy = none →
      (∀ c ∈ cs, ∀ l, c.2 = TChild.leaf l → l < s.leaves.length) →
      attachInitial P d cs s = some s' → MatOK P s s' d fl
  | [], s, s', h, _, hl, _, he => by
    simp [attachInitial] at he; subst he
    exact ⟨h, Le.refl s, hl, rfl, rfl, rfl, rfl, rfl, fun _ _ _ => rfl⟩
  | (name, tc) :: rest, s, s', h, hd, hl, hcs, he => by
    unfold attachInitial at he
    simp only [] at he
    split at he
    · cases he
    · rename_i hma
      have hma' : (s.dir d).mayAttach (P.normalize name) = none := by
        cases hm : (s.dir d).mayAttach (P.normalize name) <;> simp_all
      cases tc with
      | leaf l =>
        simp only [] at he
        have hlv : l < s.leaves.length := hcs (name, TChild.leaf l) (by simp) l rfl
        have h1 : InvF P ((s.modDir d (fun x => x.attach name (P.normalize name) (Child.leaf l))).link l) fl := by
          rw [link_modDir]
          exact (h.link l hlv).attach d (by simpa using hd) name _ rfl (by simpa using hma') (by simpa using hl)
        have hd1 : d < ((s.modDir d (fun x => x.attach name (P.normalize name) (Child.leaf l))).link l).dirs.length := by
          simpa using hd
        have hl1 : (((s.modDir d (fun x => x.attach name (P.normalize name) (Child.leaf l))).link l).dir d).lazy = none := by
          simp [dir_modDir_self s d _ hd, hl]
        have r := attachInitial_ok rest _ s' h1 hd1 hl1 (by
          intro c hc l' hl'
          have := hcs c (by simp [hc]) l' hl'
          simpa using this) he
        refine ⟨r.inv, ?_, r.lazy, ?_, ?_, ?_, ?_, ?_, ?_⟩
        · exact Le.trans (Le.trans (Le.attach s d name _ _) (Le.link _ l)) r.le
        · rw [r.leaves]; simp
        · rw [r.tmpls]; simp
        · rw [r.ff]; simp
        · rw [r.af]; simp
        · rw [r.del]; simp [dir_modDir_self s d _ hd]
        · intro d' hne hlt
          rw [r.frame d' hne (by simpa using hlt)]
          simp [dir_modDir_ne s d d' _ (fun e => hne e.symm)]
      | dir t =>
        simp only [] at he
        have hnd : DirOK P ({ lazy := some t, fs := (s.dir d).fs } : Dir) :=
          ⟨(by intro e he; cases he), List.Pairwise.nil, List.Pairwise.nil, (by intro e he; cases he),
           (by intro h; cases h), (by intro _; rfl)⟩
        have h0 := h.pushDir ({ lazy := some t, fs := (s.dir d).fs } : Dir) hnd rfl
        have hdir0 : (s.pushDir { lazy := some t, fs := (s.dir d).fs }).dir d = s.dir d := dir_pushDir_lt s _ d hd
        have hd0 : d < (s.pushDir { lazy := some t, fs := (s.dir d).fs }).dirs.length := by simp; omega
        have h1 := h0.attach d hd0 name (P.normalize name) rfl (by rw [hdir0]; exact hma') (by rw [hdir0]; exact hl)
        have r := attachInitial_ok rest _ s' h1 (by simpa using hd0) (by
          rw [dir_modDir_self _ d _ hd0, hdir0]; simpa using hl) (by
          intro c hc l' hl'
          have := hcs c (by simp [hc]) l' hl'
          simpa using this) he
        refine ⟨r.inv, ?_, r.lazy, ?_, ?_, ?_, ?_, ?_, ?_⟩
        · exact Le.trans (Le.trans (Le.pushDir s _) (Le.attach _ d name _ _)) r.le
        · rw [r.leaves]; simp
        · rw [r.tmpls]; simp
        · rw [r.ff]; simp
        · rw [r.af]; simp
        · rw [r.del, dir_modDir_self _ d _ hd0, hdir0]; simp
        · intro d' hne hlt
          rw [r.frame d' hne (by simp; omega)]
          rw [dir_modDir_ne _ d d' _ (fun e => hne e.symm), dir_pushDir_lt s _ d' hlt]

theorem mem_insertByName {c x : Nat × TChild} {l : List (Nat × TChild)} (h : x ∈ insertByName c l) : x = c ∨ x ∈ l := by
  induction l with
  | nil => simp [insertByName] at h; exact Or.inl h
  | cons y rest ih =>
    unfold insertByName at h
    split at h
    · simp at h; rcases h with h | h | h <;> simp [h]
    · simp at h
      rcases h with h | h
      · simp [h]
      · rcases ih h with h' | h' <;> simp [h']

theorem mem_sortChildren {x : Nat × TChild} {l : List (Nat × TChild)} (h : x ∈ sortChildren l) : x ∈ l := by
  induction l with
  | nil => simp [sortChildren] at h
  | cons y rest ih =>
    unfold sortChildren at h
    rcases mem_insertByName h with h' | h'
    · simp [h']
    · simp [ih h']

theorem tmpl_mem (s : Store) (t : Nat) (c : Nat × TChild) (h : c ∈ s.tmpl t) : ∃ tt ∈ s.tmpls, c ∈ tt := by
  unfold Store.tmpl at h
  cases ht : s.tmpls[t]? with
  | none => simp [ht] at h
  | some tt =>
    simp [ht] at h
    exact ⟨tt, List.mem_of_getElem? ht, h⟩

theorem materialize_ok {P : Params} {s s1 : Store} {d : Nat} {fl : List Child} (h : InvF P s fl)
    (hd : d < s.dirs.length) (he : materialize P s d = .ok s1) : MatOK P s s1 d fl := by
  unfold materialize at he
  split at he
  · rename_i hl
    cases he
    exact ⟨h, Le.refl s, hl, rfl, rfl, rfl, rfl, rfl, fun _ _ _ => rfl⟩
  · rename_i t hl
    split at he
    · cases he
    · split at he
      · rename_i s' hs'
        cases he
        have h1 := h.unlazy d
        have r := attachInitial_ok (sortChildren (s.tmpl t)) _ s1 h1 (by simpa using hd)
          (by rw [dir_modDir_self s d _ hd]) (by
            intro c hc l hl'
            obtain ⟨tt, htt, hct⟩ := tmpl_mem s t c (mem_sortChildren hc)
            have := h.tmplLeaf tt htt c hct l hl'
            simpa using this) hs'
        refine ⟨r.inv, Le.trans (Le.unlazy s d) r.le, r.lazy, ?_, ?_, ?_, ?_, ?_, ?_⟩
        · rw [r.leaves]; simp
        · rw [r.tmpls]; simp
        · rw [r.ff]; simp
        · rw [r.af]; simp
        · rw [r.del, dir_modDir_self s d _ hd]
        · intro d' hne hlt
          rw [r.frame d' hne (by simpa using hlt), dir_modDir_ne s d d' _ (fun e => hne e.symm)]
      · cases he

theorem materialize_nonlazy (P : Params) (s : Store) (d : Nat) (h : (s.dir d).lazy = none) :
    materialize P s d = .ok s := by
  unfold materialize; simp [h]

theorem clearDir_dir_ne (s : Store) (c d : Nat) (del : Bool) (h : c ≠ d) : (clearDir s c del).dir d = s.dir d := by
  rw [clearDir_eq, dir_setDir_ne _ c d _ h]
  exact dir_eq_of_dirs (unlinkLeaves_dirs s _) d

theorem clearDir_dirs_length (s : Store) (c : Nat) (del : Bool) : (clearDir s c del).dirs.length = s.dirs.length := by
  rw [clearDir_eq]; simp [unlinkLeaves_dirs]

theorem entry_child_ref {s : Store} {d n : Nat} {e : Entry} (hd : d < s.dirs.length) (h : (s.dir d).find? n = some e) :
    e.child ∈ refs s :=
  mem_refs.mpr ⟨s.dir d, dir_mem s d hd, e, (find?_some h).1, rfl⟩

theorem isDeletable_no_dir {P : Params} {x : Dir} (h : isDeletable P x = true) {e : Entry} (he : e ∈ x.entries) :
    e.child.isDir = false := by
  unfold isDeletable at h
  have := List.all_eq_true.mp h e he
  cases hc : e.child.isDir <;> simp_all

/-! ### per operation -/

/-- `le_chain` that also looks into `MatOK` hypotheses. -/
macro "le_chain'" : tactic =>
  `(tactic| (le_chain; repeat (first
    | exact MatOK.le (by assumption)
    | (apply Le.trans (MatOK.le (by assumption)) _))))

structure StepOK (P : Params) (s s' : Store) : Prop where
  inv : Inv P s'
  le  : Le s s'

theorem dirOK_fresh (P : Params) (t : Option Nat) (fs : Nat) : DirOK P ({ lazy := t, fs := fs } : Dir) :=
  ⟨(by intro e he; cases he), List.Pairwise.nil, List.Pairwise.nil, (by intro e he; cases he),
   (by intro h; cases h), (by intro _; rfl)⟩

theorem MatOK.hd {P : Params} {s s1 : Store} {d : Nat} {fl : List Child} (r : MatOK P s s1 d fl)
    {d' : Nat} (h : d' < s.dirs.length) : d' < s1.dirs.length := by
  have := r.le.dirsLen; omega

/-- Attach a freshly created directory under `name` in `d`. -/
theorem attachNewDir_ok {P : Params} {s : Store} {fl : List Child} (h : InvF P s fl) (d : Nat) (hd : d < s.dirs.length)
    (name : Nat) (hma : (s.dir d).mayAttach (P.normalize name) = none) (hl : (s.dir d).lazy = none) (x : Dir) :
    InvF P ((s.pushDir (newDirOf x)).modDir d (fun y => y.attach name (P.normalize name) (Child.dir s.dirs.length))) fl := by
  have h0 := h.pushDir (newDirOf x) (dirOK_fresh P _ _) rfl
  have hdir0 : (s.pushDir (newDirOf x)).dir d = s.dir d := dir_pushDir_lt s _ d hd
  exact h0.attach d (by simp; omega) name _ rfl (by rw [hdir0]; exact hma) (by rw [hdir0]; exact hl)

/-- Attach a freshly created leaf under `name` in `d`. -/
theorem attachNewLeaf_ok {P : Params} {s : Store} {fl : List Child} (h : InvF P s fl) (d : Nat) (hd : d < s.dirs.length)
    (name : Nat) (hma : (s.dir d).mayAttach (P.normalize name) = none) (hl : (s.dir d).lazy = none) (k : Nat) :
    InvF P ((s.pushLeaf { kind := k, links := 1 }).modDir d
      (fun y => y.attach name (P.normalize name) (Child.leaf s.leaves.length))) fl :=
  (h.pushLeafOwned k).attach d (by simpa using hd) name _ rfl (by simpa using hma) (by simpa using hl)

theorem vmkdir_ok {P : Params} {s : Store} (h : Inv P s) (d name : Nat) (hd : d < s.dirs.length) :
    StepOK P s (vmkdir P s d name).1 := by
  unfold vmkdir
  split
  · exact ⟨h, Le.refl s⟩
  · rename_i s1 he
    have r := materialize_ok h hd he
    try simp only []
    split
    · exact ⟨r.inv, r.le⟩
    · rename_i hma
      exact ⟨attachNewDir_ok r.inv d (r.hd hd) name hma r.lazy _, by le_chain'⟩

theorem vmknod_ok {P : Params} {s : Store} (h : Inv P s) (d name kind : Nat) (hd : d < s.dirs.length) :
    StepOK P s (vmknod P s d name kind).1 := by
  unfold vmknod
  split
  · exact ⟨h, Le.refl s⟩
  · rename_i s1 he
    have r := materialize_ok h hd he
    try simp only []
    split
    · exact ⟨r.inv, r.le⟩
    · rename_i hma
      split
      · split
        · exact ⟨r.inv, r.le⟩
        · exact ⟨attachNewLeaf_ok r.inv d (r.hd hd) name hma r.lazy _, by le_chain'⟩
      · exact ⟨r.inv, r.le⟩

theorem mayAttach_of {x : Dir} {n : Nat} (hdel : x.deleted = false) (hf : x.find? n = none) : x.mayAttach n = none := by
  unfold Dir.mayAttach; simp [hdel, hf]

theorem vopen_ok {P : Params} {s : Store} (h : Inv P s) (d name : Nat) (c e : Bool) (hd : d < s.dirs.length) :
    StepOK P s (vopen P s d name c e).1 := by
  unfold vopen
  split
  · exact ⟨h, Le.refl s⟩
  · rename_i s1 he
    have r := materialize_ok h hd he
    try simp only []
    split
    · split
      · exact ⟨r.inv, r.le⟩
      · split <;> exact ⟨r.inv, r.le⟩
    · rename_i hf
      split
      · exact ⟨r.inv, r.le⟩
      · rename_i hdc
        split
        · exact ⟨r.inv, r.le⟩
        · have hdel : (s1.dir d).deleted = false := by
            cases hx : (s1.dir d).deleted <;> simp_all
          exact ⟨attachNewLeaf_ok r.inv d (r.hd hd) name (mayAttach_of hdel hf) r.lazy _, by le_chain'⟩

theorem vlink_ok {P : Params} {s : Store} (h : Inv P s) (d name l : Nat) (hd : d < s.dirs.length)
    (hl : l < s.leaves.length) : StepOK P s (vlink P s d name l).1 := by
  unfold vlink
  split
  · exact ⟨h, Le.refl s⟩
  · rename_i s1 he
    have r := materialize_ok h hd he
    try simp only []
    split
    · exact ⟨r.inv, r.le⟩
    · rename_i hma
      split
      · exact ⟨r.inv, r.le⟩
      · refine ⟨?_, by le_chain'⟩
        exact (r.inv.link l (by rw [r.leaves]; exact hl)).attach d (by simpa using r.hd hd) name _ rfl
          (by simpa using hma) (by simpa using r.lazy)

theorem vlookup_ok {P : Params} {s : Store} (h : Inv P s) (d name : Nat) (hd : d < s.dirs.length) :
    StepOK P s (vlookup P s d name).1 := by
  unfold vlookup
  split
  · exact ⟨h, Le.refl s⟩
  · rename_i s1 he
    have r := materialize_ok h hd he
    try simp only []
    split <;> exact ⟨r.inv, r.le⟩

theorem vreaddir_ok {P : Params} {s : Store} (h : Inv P s) (d c k : Nat) (hd : d < s.dirs.length) :
    StepOK P s (vreaddir P s d c k).1 := by
  unfold vreaddir
  split
  · exact ⟨h, Le.refl s⟩
  · rename_i s1 he
    have r := materialize_ok h hd he
    exact ⟨r.inv, r.le⟩

theorem lookupChild_ok {P : Params} {s : Store} (h : Inv P s) (d name : Nat) (hd : d < s.dirs.length) :
    StepOK P s (lookupChild P s d name).1 := by
  unfold lookupChild
  split
  · exact ⟨h, Le.refl s⟩
  · rename_i s1 he
    have r := materialize_ok h hd he
    try simp only []
    split <;> exact ⟨r.inv, r.le⟩

theorem lookupAll_ok {P : Params} {s : Store} (h : Inv P s) (d : Nat) (hd : d < s.dirs.length) :
    StepOK P s (lookupAll P s d).1 := by
  unfold lookupAll
  split
  · exact ⟨h, Le.refl s⟩
  · rename_i s1 he
    have r := materialize_ok h hd he
    exact ⟨r.inv, r.le⟩

theorem readDirB_ok {P : Params} {s : Store} (h : Inv P s) (d : Nat) (hd : d < s.dirs.length) :
    StepOK P s (readDirB P s d).1 := by
  unfold readDirB
  split
  · exact ⟨h, Le.refl s⟩
  · rename_i s1 he
    have r := materialize_ok h hd he
    exact ⟨r.inv, r.le⟩

theorem vremove_ok {P : Params} {s : Store} (h : Inv P s) (d name : Nat) (a b : Bool) (hd : d < s.dirs.length) :
    StepOK P s (vremove P s d name a b).1 := by
  unfold vremove
  split
  · exact ⟨h, Le.refl s⟩
  · rename_i s1 he
    have r := materialize_ok h hd he
    try simp only []
    split
    · exact ⟨r.inv, r.le⟩
    · rename_i e hf
      split
      · rename_i c hc
        split
        · exact ⟨r.inv, r.le⟩
        · have hcref := entry_child_ref (r.hd hd) hf
          rw [hc] at hcref
          have hcl : c < s1.dirs.length := r.inv.dirRef c (by simpa using hcref)
          split
          · exact ⟨r.inv, r.le⟩
          · rename_i s2 he2
            have r2 := materialize_ok r.inv hcl he2
            split
            · exact ⟨r2.inv, Le.trans r.le r2.le⟩
            · rename_i hdel
              have hne : c ≠ d := by
                intro hcd; subst hcd
                have hs : s2 = s1 := by
                  have := materialize_nonlazy P s1 c r.lazy
                  rw [this] at he2; cases he2; rfl
                subst hs
                have hdl : isDeletable P (s2.dir c) = true := by simpa using hdel
                have := isDeletable_no_dir hdl (find?_some hf).1
                rw [hc] at this; simp [Child.isDir] at this
              have hf2 : (s2.dir d).find? (P.normalize name) = some e := by
                rw [r2.frame d (Ne.symm hne) (r.hd hd)]; exact hf
              have hf3 : ((clearDir s2 c true).dir d).find? (P.normalize name) = some e := by
                rw [clearDir_dir_ne _ c d _ hne]; exact hf2
              have h3 := r2.inv.clearDir c true
              have h4 := h3.detach d (by rw [clearDir_dirs_length]; exact r2.hd (r.hd hd)) _ e hf3
              rw [hc] at h4
              exact ⟨h4.dropDir, Le.trans r.le (Le.trans r2.le (by le_chain))⟩
      · rename_i l hc
        split
        · exact ⟨r.inv, r.le⟩
        · have h4 := r.inv.detach d (r.hd hd) _ e hf
          rw [hc] at h4
          have h5 := h4.unlink
          rw [unlink_modDir] at h5
          exact ⟨h5, Le.trans r.le (by le_chain)⟩

theorem remove_ok {P : Params} {s : Store} (h : Inv P s) (d name : Nat) (hd : d < s.dirs.length) :
    StepOK P s (remove P s d name).1 := vremove_ok h d name true true hd

theorem removeAll_ok {P : Params} {s : Store} (h : Inv P s) (d name : Nat) (hd : d < s.dirs.length) :
    StepOK P s (removeAll P s d name).1 := by
  unfold removeAll
  split
  · exact ⟨h, Le.refl s⟩
  · rename_i s1 he
    have r := materialize_ok h hd he
    try simp only []
    split
    · exact ⟨r.inv, r.le⟩
    · rename_i e hf
      have h4 := r.inv.detach d (r.hd hd) _ e hf
      exact ⟨InvF.postRemove [e] (by simpa using h4), Le.trans r.le (by le_chain)⟩

theorem removeAllChildren_ok {P : Params} {s : Store} (h : Inv P s) (d : Nat) (b : Bool) :
    StepOK P s (removeAllChildren s d b).1 := by
  unfold removeAllChildren
  exact ⟨(h.clearDir d b).removeTree _ _, by le_chain⟩

theorem createAndEnter_ok {P : Params} {s : Store} (h : Inv P s) (d name : Nat) (hd : d < s.dirs.length) :
    StepOK P s (createAndEnter P s d name).1 := by
  unfold createAndEnter
  split
  · exact ⟨h, Le.refl s⟩
  · rename_i s1 he
    have r := materialize_ok h hd he
    try simp only []
    split
    · rename_i e hf
      split
      · exact ⟨r.inv, r.le⟩
      · rename_i l hc
        have h4 := r.inv.detach d (r.hd hd) _ e hf
        rw [hc] at h4
        have h5 := h4.unlink
        have hd5 : d < ((s1.modDir d (fun x => x.detach (P.normalize name))).unlink l).dirs.length := by
          simpa using r.hd hd
        have hdir5 : ((s1.modDir d (fun x => x.detach (P.normalize name))).unlink l).dir d =
            (s1.dir d).detach (P.normalize name) := by
          simp [dir_modDir_self s1 d _ (r.hd hd)]
        have hdel : (s1.dir d).deleted = false := by
          cases hx : (s1.dir d).deleted with
          | false => rfl
          | true =>
            have := (r.inv.dirOK d).del hx
            have hm := (find?_some hf).1
            rw [this.1] at hm; cases hm
        have h6 := attachNewDir_ok h5 d hd5 name (by
          rw [hdir5]; exact mayAttach_of (by simpa using hdel) (find?_detach_self _ _)) (by
          rw [hdir5]; simpa using r.lazy) (s1.dir d)
        have hlen : ((s1.modDir d (fun x => x.detach (P.normalize name))).unlink l).dirs.length = s1.dirs.length := by simp
        rw [hlen] at h6
        exact ⟨h6, Le.trans r.le (by le_chain)⟩
    · rename_i hf
      split
      · exact ⟨r.inv, r.le⟩
      · rename_i hdc
        have hdel : (s1.dir d).deleted = false := by
          cases hx : (s1.dir d).deleted <;> simp_all
        exact ⟨attachNewDir_ok r.inv d (r.hd hd) name (mayAttach_of hdel hf) r.lazy _, Le.trans r.le (by le_chain)⟩

/-! ### rename -/

theorem not_deleted_of_find {P : Params} {x : Dir} (h : DirOK P x) {n : Nat} {e : Entry} (hf : x.find? n = some e) :
    x.deleted = false := by
  cases hx : x.deleted with
  | false => rfl
  | true =>
    have := (h.del hx).1
    have hm := (find?_some hf).1
    rw [this] at hm; cases hm

/-- Directory `dNew` after the old entry was detached from `dOld`. -/
theorem dir_after_detach (s : Store) (dOld dNew nOld : Nat) (hO : dOld < s.dirs.length) :
    (s.modDir dOld (fun x => x.detach nOld)).dir dNew =
      if dOld = dNew then (s.dir dNew).detach nOld else s.dir dNew := by
  rw [dir_modDir]
  by_cases h : dOld = dNew
  · subst h; simp [hO]
  · simp [h]

theorem find_after_detach (s : Store) (dOld dNew nOld nNew : Nat) (hO : dOld < s.dirs.length)
    (hdiff : dOld = dNew → nOld ≠ nNew) :
    ((s.modDir dOld (fun x => x.detach nOld)).dir dNew).find? nNew = (s.dir dNew).find? nNew := by
  rw [dir_after_detach s dOld dNew nOld hO]
  by_cases h : dOld = dNew
  · simp [h]; exact find?_detach_ne _ _ _ (hdiff h)
  · simp [h]

theorem rename_move_ok {P : Params} {s : Store} (h : Inv P s) (dOld dNew : Nat) (hO : dOld < s.dirs.length)
    (hN : dNew < s.dirs.length) (nOld newName : Nat) (oldE : Entry)
    (hfO : (s.dir dOld).find? nOld = some oldE) (hfN : (s.dir dNew).find? (P.normalize newName) = none)
    (hdel : (s.dir dNew).deleted = false) (hlz : (s.dir dNew).lazy = none) :
    Inv P ((s.modDir dOld (fun x => x.detach nOld)).modDir dNew
      (fun x => x.attach newName (P.normalize newName) oldE.child)) := by
  have h4 := h.detach dOld hO nOld oldE hfO
  apply h4.attach dNew (by simpa using hN) newName _ rfl
  · rw [dir_after_detach s dOld dNew nOld hO]
    by_cases hd : dOld = dNew
    · simp only [hd, if_true]
      apply mayAttach_of (by simpa using hdel)
      by_cases hn : nOld = P.normalize newName
      · rw [hn]; exact find?_detach_self _ _
      · rw [find?_detach_ne _ _ _ hn]; exact hfN
    · simp only [hd, if_false]; exact mayAttach_of hdel hfN
  · rw [dir_after_detach s dOld dNew nOld hO]
    by_cases hd : dOld = dNew
    · simp only [hd, if_true]; simpa using hlz
    · simp only [hd, if_false]; exact hlz

/-- Directory `dNew` after both entries were detached. -/
theorem mayAttach_after_two (P : Params) (s : Store) (dOld dNew nOld : Nat) (newName : Nat) (hO : dOld < s.dirs.length)
    (hN : dNew < s.dirs.length) (hdel : (s.dir dNew).deleted = false) (hlz : (s.dir dNew).lazy = none) :
    let s5 := (s.modDir dOld (fun x => x.detach nOld)).modDir dNew (fun x => x.detach (P.normalize newName))
    (s5.dir dNew).mayAttach (P.normalize newName) = none ∧ (s5.dir dNew).lazy = none := by
  intro s5
  have hN4 : dNew < (s.modDir dOld (fun x => x.detach nOld)).dirs.length := by simpa using hN
  have e5 : s5.dir dNew = ((s.modDir dOld (fun x => x.detach nOld)).dir dNew).detach (P.normalize newName) :=
    dir_modDir_self _ dNew _ hN4
  rw [e5, dir_after_detach s dOld dNew nOld hO]
  by_cases hd : dOld = dNew
  · simp only [hd, if_true]
    exact ⟨mayAttach_of (by simpa using hdel) (find?_detach_self _ _), by simpa using hlz⟩
  · simp only [hd, if_false]
    exact ⟨mayAttach_of (by simpa using hdel) (find?_detach_self _ _), by simpa using hlz⟩

theorem rename_over_leaf_ok {P : Params} {s : Store} (h : Inv P s) (dOld dNew : Nat) (hO : dOld < s.dirs.length)
    (hN : dNew < s.dirs.length) (nOld newName : Nat) (oldE newE : Entry) (nl : Nat)
    (hfO : (s.dir dOld).find? nOld = some oldE) (hfN : (s.dir dNew).find? (P.normalize newName) = some newE)
    (hcN : newE.child = Child.leaf nl) (hdiff : dOld = dNew → nOld ≠ P.normalize newName)
    (hlz : (s.dir dNew).lazy = none) :
    Inv P ((((s.modDir dOld (fun x => x.detach nOld)).modDir dNew (fun x => x.detach (P.normalize newName))).unlink nl).modDir
      dNew (fun x => x.attach newName (P.normalize newName) oldE.child)) := by
  have hdel := not_deleted_of_find (h.dirOK dNew) hfN
  have h4 := h.detach dOld hO nOld oldE hfO
  have hN4 : dNew < (s.modDir dOld (fun x => x.detach nOld)).dirs.length := by simpa using hN
  have h5 := h4.detach dNew hN4 (P.normalize newName) newE (by
    rw [find_after_detach s dOld dNew nOld _ hO hdiff]; exact hfN)
  rw [hcN] at h5
  have h6 := h5.unlink
  have hm := mayAttach_after_two P s dOld dNew nOld newName hO hN hdel hlz
  exact h6.attach dNew (by simpa using hN) newName _ rfl (by simpa using hm.1) (by simpa using hm.2)

theorem rename_over_dir_ok {P : Params} {s : Store} (h : Inv P s) (dOld dNew : Nat) (hO : dOld < s.dirs.length)
    (hN : dNew < s.dirs.length) (nOld newName : Nat) (oldE newE : Entry) (nd : Nat)
    (hfO : (s.dir dOld).find? nOld = some oldE) (hfN : (s.dir dNew).find? (P.normalize newName) = some newE)
    (hcN : newE.child = Child.dir nd) (hdiff : dOld = dNew → nOld ≠ P.normalize newName)
    (hne : nd ≠ dNew) (hlz : (s.dir dNew).lazy = none) :
    Inv P ((clearDir ((s.modDir dOld (fun x => x.detach nOld)).modDir dNew (fun x => x.detach (P.normalize newName))) nd true).modDir
      dNew (fun x => x.attach newName (P.normalize newName) oldE.child)) := by
  have hdel := not_deleted_of_find (h.dirOK dNew) hfN
  have h4 := h.detach dOld hO nOld oldE hfO
  have hN4 : dNew < (s.modDir dOld (fun x => x.detach nOld)).dirs.length := by simpa using hN
  have h5 := h4.detach dNew hN4 (P.normalize newName) newE (by
    rw [find_after_detach s dOld dNew nOld _ hO hdiff]; exact hfN)
  rw [hcN] at h5
  have h6 := (h5.clearDir nd true).dropDir
  have hm := mayAttach_after_two P s dOld dNew nOld newName hO hN hdel hlz
  apply h6.attach dNew (by rw [clearDir_dirs_length]; simpa using hN) newName _ rfl
  · rw [clearDir_dir_ne _ nd dNew _ hne]; exact hm.1
  · rw [clearDir_dir_ne _ nd dNew _ hne]; exact hm.2

theorem vrename_ok {P : Params} {s : Store} (h : Inv P s) (dOld oldName dNew newName : Nat)
    (hd1 : dOld < s.dirs.length) (hd2 : dNew < s.dirs.length) :
    StepOK P s (vrename P s dOld oldName dNew newName).1 := by
  unfold vrename
  split
  · exact ⟨h, Le.refl s⟩
  · rename_i s1 he1
    have r1 := materialize_ok h hd1 he1
    try simp only []
    split
    · exact ⟨r1.inv, r1.le⟩
    · rename_i s2 he2
      have r2 := materialize_ok r1.inv (r1.hd hd2) he2
      have hO : dOld < s2.dirs.length := r2.hd (r1.hd hd1)
      have hN : dNew < s2.dirs.length := r2.hd (r1.hd hd2)
      have le2 : Le s s2 := Le.trans r1.le r2.le
      have lzO : (s2.dir dOld).lazy = none := by
        by_cases hdd : dOld = dNew
        · rw [hdd]; exact r2.lazy
        · rw [r2.frame dOld hdd (r1.hd hd1)]; exact r1.lazy
      try simp only []
      split
      · rename_i newE hfN
        split
        · exact ⟨r2.inv, le2⟩
        · rename_i oldE hfO
          have hdiff : oldE.child ≠ newE.child → dOld = dNew → P.normalize oldName ≠ P.normalize newName := by
            intro hc hdd hnn
            subst hdd
            rw [hnn, hfN] at hfO
            cases hfO
            exact hc rfl
          split
          · rename_i nd hcN
            split
            · exact ⟨r2.inv, le2⟩
            · rename_i od hcO
              split
              · exact ⟨r2.inv, le2⟩
              · rename_i hne
                split
                · exact ⟨r2.inv, le2⟩
                · have hndref := entry_child_ref hN hfN
                  rw [hcN] at hndref
                  have hnd : nd < s2.dirs.length := r2.inv.dirRef nd (by simpa using hndref)
                  split
                  · exact ⟨r2.inv, le2⟩
                  · rename_i s3 he3
                    have r3 := materialize_ok r2.inv hnd he3
                    split
                    · exact ⟨r3.inv, Le.trans le2 r3.le⟩
                    · rename_i hdl
                      have hdl' : isDeletable P (s3.dir nd) = true := by simpa using hdl
                      -- the directory being replaced is neither dNew nor dOld: both hold a directory entry
                      have hneN : nd ≠ dNew := by
                        intro hx; subst hx
                        have hs : s3 = s2 := by
                          have := materialize_nonlazy P s2 nd r2.lazy
                          rw [this] at he3; cases he3; rfl
                        subst hs
                        have := isDeletable_no_dir hdl' (find?_some hfN).1
                        rw [hcN] at this; simp [Child.isDir] at this
                      have hneO : nd ≠ dOld := by
                        intro hx; subst hx
                        have hs : s3 = s2 := by
                          have := materialize_nonlazy P s2 nd lzO
                          rw [this] at he3; cases he3; rfl
                        subst hs
                        have := isDeletable_no_dir hdl' (find?_some hfO).1
                        rw [hcO] at this; simp [Child.isDir] at this
                      have hfO3 : (s3.dir dOld).find? (P.normalize oldName) = some oldE := by
                        rw [r3.frame dOld (Ne.symm hneO) hO]; exact hfO
                      have hfN3 : (s3.dir dNew).find? (P.normalize newName) = some newE := by
                        rw [r3.frame dNew (Ne.symm hneN) hN]; exact hfN
                      have hlz3 : (s3.dir dNew).lazy = none := by
                        rw [r3.frame dNew (Ne.symm hneN) hN]; exact r2.lazy
                      have hcne : oldE.child ≠ newE.child := by
                        rw [hcO, hcN]; intro hx; cases hx; exact hne rfl
                      refine ⟨rename_over_dir_ok r3.inv dOld dNew (r3.hd hO) (r3.hd hN) _ newName oldE newE nd hfO3 hfN3
                        hcN (hdiff hcne) hneN hlz3, Le.trans le2 (Le.trans r3.le (by le_chain))⟩
          · rename_i nl hcN
            split
            · exact ⟨r2.inv, le2⟩
            · rename_i ol hcO
              split
              · exact ⟨r2.inv, le2⟩
              · rename_i hne
                have hcne : oldE.child ≠ newE.child := by
                  rw [hcO, hcN]; intro hx; cases hx; exact hne rfl
                exact ⟨rename_over_leaf_ok r2.inv dOld dNew hO hN _ newName oldE newE nl hfO hfN hcN (hdiff hcne) r2.lazy,
                  Le.trans le2 (by le_chain)⟩
      · rename_i hfN
        split
        · exact ⟨r2.inv, le2⟩
        · rename_i hdel
          split
          · exact ⟨r2.inv, le2⟩
          · rename_i oldE hfO
            split
            · exact ⟨r2.inv, le2⟩
            · have hdel' : (s2.dir dNew).deleted = false := by
                cases hx : (s2.dir dNew).deleted <;> simp_all
              exact ⟨rename_move_ok r2.inv dOld dNew hO hN _ newName oldE hfO hfN hdel' r2.lazy,
                Le.trans le2 (by le_chain)⟩

/-! ### CreateChildren -/

theorem createChildren_ok {P : Params} {s : Store} (h : Inv P s) (d : Nat) (ow : Bool) (cs : List (Nat × TChild))
    (hd : d < s.dirs.length) (hcs : ∀ c ∈ cs, ∀ l, c.2 = TChild.leaf l → l < s.leaves.length) :
    StepOK P s (createChildren P s d ow cs).1 := by
  unfold createChildren
  split
  · exact ⟨h, Le.refl s⟩
  · rename_i s1 he
    have r := materialize_ok h hd he
    have hcs1 : ∀ c ∈ sortChildren cs, ∀ l, c.2 = TChild.leaf l → l < s1.leaves.length := by
      intro c hc l hl
      rw [r.leaves]; exact hcs c (mem_sortChildren hc) l hl
    try simp only []
    split
    · exact ⟨r.inv, r.le⟩
    · split
      · -- overwrite: the entries in the way become floating, then are destroyed
        let norms := cs.map (fun c => P.normalize c.1)
        let p : Entry → Bool := fun e => !norms.contains e.norm
        have hq : (fun e : Entry => !p e) = (fun e => norms.contains e.norm) := by
          funext e; simp [p]
        have h2 := r.inv.detachMany d (r.hd hd) p ((s1.dir d).entries.filter (fun e => norms.contains e.norm)).length
        rw [hq] at h2
        have l2 := Le.shrink s1 d p
        rw [hq] at l2
        split
        · exact ⟨h, Le.refl s⟩
        · rename_i s3 he3
          have r3 := attachInitial_ok (sortChildren cs) _ s3 h2 (by simpa using r.hd hd)
            (by rw [dir_setDir_self s1 d _ (r.hd hd)]; exact r.lazy) (by simpa using hcs1) he3
          exact ⟨InvF.postRemove _ r3.inv, Le.trans r.le (Le.trans l2 (Le.trans r3.le (Le.postRemove _ _)))⟩
      · split
        · exact ⟨r.inv, r.le⟩
        · split
          · exact ⟨h, Le.refl s⟩
          · rename_i s3 he3
            have r3 := attachInitial_ok (sortChildren cs) _ s3 r.inv (r.hd hd) r.lazy hcs1 he3
            exact ⟨r3.inv, Le.trans r.le r3.le⟩

/-! ### every operation -/

theorem tchildOK_leaf {s : Store} {cs : List (Nat × TChild)} (h : cs.all (tchildOK s) = true) :
    ∀ c ∈ cs, ∀ l, c.2 = TChild.leaf l → l < s.leaves.length := by
  intro c hc l hl
  have := List.all_eq_true.mp h c hc
  obtain ⟨n, tc⟩ := c
  simp at hl; subst hl
  simpa [tchildOK] using this

theorem exec_ok {P : Params} {s : Store} (h : Inv P s) (op : Op) (hv : validOp s op = true) :
    StepOK P s (exec P s op).1 := by
  cases op with
  | mkdir d n => exact vmkdir_ok h d n (by simpa [validOp] using hv)
  | mknod d n k => exact vmknod_ok h d n k (by simpa [validOp] using hv)
  | openc d n c e => exact vopen_ok h d n c e (by simpa [validOp] using hv)
  | link d n l =>
    have hv' : d < s.dirs.length ∧ l < s.leaves.length := by simpa [validOp] using hv
    exact vlink_ok h d n l hv'.1 hv'.2
  | lookup d n => exact vlookup_ok h d n (by simpa [validOp] using hv)
  | readdir d c k => exact vreaddir_ok h d c k (by simpa [validOp] using hv)
  | rename d1 n1 d2 n2 =>
    have hv' : d1 < s.dirs.length ∧ d2 < s.dirs.length := by simpa [validOp] using hv
    exact vrename_ok h d1 n1 d2 n2 hv'.1 hv'.2
  | vremove d n a b => exact vremove_ok h d n a b (by simpa [validOp] using hv)
  | getattr d => exact ⟨h, Le.refl s⟩
  | lookupChild d n => exact lookupChild_ok h d n (by simpa [validOp] using hv)
  | lookupAll d => exact lookupAll_ok h d (by simpa [validOp] using hv)
  | readDirB d => exact readDirB_ok h d (by simpa [validOp] using hv)
  | remove d n => exact remove_ok h d n (by simpa [validOp] using hv)
  | removeAll d n => exact removeAll_ok h d n (by simpa [validOp] using hv)
  | removeAllChildren d b => exact removeAllChildren_ok h d b
  | createChildren d ow cs =>
    have hv' : d < s.dirs.length ∧ cs.all (tchildOK s) = true := by simpa [validOp] using hv
    exact createChildren_ok h d ow cs hv'.1 (tchildOK_leaf hv'.2)
  | createAndEnter d n => exact createAndEnter_ok h d n (by simpa [validOp] using hv)
  | filter d k => exact ⟨h, Le.refl s⟩
  | installHooks d => exact ⟨h, Le.refl s⟩
  | newRoot fs => exact ⟨h.pushRoot _ (dirOK_fresh P _ _) rfl, Le.pushDir s _⟩
  | newLeaf k => exact ⟨h.pushLeafFree k, Le.pushLeaf s _⟩
  | defTmpl cs =>
    have hv' : cs.all (tchildOK s) = true := by simpa [validOp] using hv
    refine ⟨⟨h.dirs, h.dirRef, h.leafRef, h.oneParent, h.links, ?_⟩, Le.of_dirs_eq rfl (Nat.le_refl _)⟩
    intro t ht c hc l hl
    simp [exec] at ht
    rcases ht with ht | ht
    · exact h.tmplLeaf t ht c hc l hl
    · subst ht; exact tchildOK_leaf hv' c hc l hl
  | setFetchFail b =>
    exact ⟨⟨h.dirs, h.dirRef, h.leafRef, h.oneParent, h.links, h.tmplLeaf⟩, Le.of_dirs_eq rfl (Nat.le_refl _)⟩
  | setAllocFail b =>
    exact ⟨⟨h.dirs, h.dirRef, h.leafRef, h.oneParent, h.links, h.tmplLeaf⟩, Le.of_dirs_eq rfl (Nat.le_refl _)⟩

theorem step_ok {P : Params} {s : Store} (h : Inv P s) (op : Op) : StepOK P s (step P s op).1 := by
  unfold step
  split
  · rename_i hv; exact exec_ok h op hv
  · exact ⟨h, Le.refl s⟩

theorem inv_init (P : Params) : Inv P init :=
  ⟨(by intro x hx; cases hx), (by intro d hd; simp [refs, init] at hd), (by intro l hl; simp [refs, init] at hl),
   (by intro d; simp [refs, init]), (by intro l; simp [refs, init, Store.leaf]; rfl),
   (by intro t ht c hc; simp [init] at ht; subst ht; cases hc)⟩

theorem run_ok {P : Params} (ops : List Op) {s : Store} (h : Inv P s) : StepOK P s (run P s ops) := by
  induction ops generalizing s with
  | nil => exact ⟨h, Le.refl s⟩
  | cons op rest ih =>
    have h1 := step_ok h op
    have h2 := ih h1.inv
    exact ⟨h2.inv, Le.trans h1.le h2.le⟩

end BbRe.Lemmas.Dir
