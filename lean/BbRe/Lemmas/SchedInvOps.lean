import BbRe.Lemmas.SchedInvSync
/-! Operator segments: `KillOperations`, drains, `TerminateWorkers`, queue registration. -/
namespace BbRe.Lemmas.SchedInv
open BbRe.Sched

theorem killOp_spec {h : Hints} {s : State} {now name code : Nat} (hI : Inv s) :
    wp (killOp h s now name code) (fun s' => QuietPost s s') := by
  unfold killOp
  apply wp_bind
  refine wp_mono (enter_spec hI) ?_
  intro s0 ⟨hI0, hfr0⟩
  cases hop : alookup name s0.ops with
  | none =>
    simp only [op?_def, hop, wp_pure]
    exact ⟨emit_quiet_inv hI0 _ (fun _ => ⟨rfl, rfl⟩), hfr0.trans (emit_fr _ _ trivial)⟩
  | some op =>
    simp only [op?_def, hop]
    obtain ⟨t, ht, _⟩ := hI0.oinv.o1 name op hop
    apply wp_bind
    refine wp_mono (complete_spec (h := h) (r := ⟨code, 0, 0, .killed⟩) (bw := false) hI0 (by rw [ht]; rfl)) ?_
    intro s1 ⟨hI1, hcp, _, _⟩
    rw [wp_pure]
    exact ⟨emit_quiet_inv hI1 _ (fun _ => ⟨rfl, rfl⟩), (hfr0.trans hcp.fr).trans (emit_fr _ _ trivial)⟩

theorem killQueue_spec {h : Hints} {s : State} {now : Nat} {q : ScqId} {code : Nat} (hI : Inv s) :
    wp (killQueue h s now q code) (fun s' => QuietPost s s') := by
  unfold killQueue
  apply wp_bind
  refine wp_mono (enter_spec hI) ?_
  intro s0 ⟨hI0, hfr0⟩
  split
  · rw [wp_pure]
    exact ⟨emit_quiet_inv hI0 _ (fun _ => ⟨rfl, rfl⟩), hfr0.trans (emit_fr _ _ trivial)⟩
  · split
    · rw [wp_pure]
      exact ⟨emit_quiet_inv hI0 _ (fun _ => ⟨rfl, rfl⟩), hfr0.trans (emit_fr _ _ trivial)⟩
    · apply wp_bind
      refine wp_mono (cancelAllQueued_spec hI0) ?_
      intro s1 ⟨hI1, hfr1, _⟩
      rw [wp_pure]
      exact ⟨emit_quiet_inv hI1 _ (fun _ => ⟨rfl, rfl⟩), (hfr0.trans hfr1).trans (emit_fr _ _ trivial)⟩

/-- waking a list of (distinct, current) parked workers -/
theorem foldl_wake_spec (c : Worker → Prop) [DecidablePred c] (hc : ∀ w, c w → w.parked = true) (l : List Worker) {s : State}
    (hI : Inv s) (hl : WNodup l) (hcur : ∀ w, w ∈ l → wfind s.workers w.scq w.id = some w) :
    Inv (l.foldl (fun s w => if c w then wakeWorker s w else s) s) ∧
      Fr s (l.foldl (fun s w => if c w then wakeWorker s w else s) s) := by
  induction l generalizing s with
  | nil => exact ⟨hI, Fr.refl s⟩
  | cons a r ih =>
    rw [List.foldl_cons]
    simp only [WNodup, List.pairwise_cons] at hl
    by_cases hca : c a
    · rw [if_pos hca]
      have ha := hcur a (by simp)
      have hI1 := wake_inv hI ha (hc a hca)
      have hcur1 : ∀ w, w ∈ r → wfind (wakeWorker s a).workers w.scq w.id = some w := by
        intro w hw
        have hne := hl.1 w hw
        simp only [wakeWorker, setWorker_eq]
        rw [wfind_wset, if_neg]
        · exact hcur w (List.mem_cons_of_mem _ hw)
        · exact fun h => hne ⟨h.1, h.2⟩
      obtain ⟨hI', hfr'⟩ := ih hI1 hl.2 hcur1
      exact ⟨hI', (setWorker_fr s _).trans hfr'⟩
    · rw [if_neg hca]
      exact ih hI hl.2 (fun w hw => hcur w (List.mem_cons_of_mem _ hw))

theorem setScq_inv {s : State} (hI : Inv s) (sq : Scq) : Inv (s.setScq sq) :=
  hI.of_same rfl rfl rfl rfl rfl rfl rfl rfl rfl rfl

theorem setScq_fr (s : State) (sq : Scq) : Fr s (s.setScq sq) := Fr.of_same rfl rfl rfl rfl rfl rfl rfl

theorem addDrain_spec {h : Hints} {s : State} {now : Nat} {q : ScqId} {p : Pattern} (hI : Inv s) :
    wp (addDrain h s now q p) (fun s' => QuietPost s s') := by
  unfold addDrain
  apply wp_bind
  refine wp_mono (enter_spec hI) ?_
  intro s0 ⟨hI0, hfr0⟩
  split
  · rw [wp_pure]
    exact ⟨emit_quiet_inv hI0 _ (fun _ => ⟨rfl, rfl⟩), hfr0.trans (emit_fr _ _ trivial)⟩
  · rename_i sq _
    rw [wp_pure]
    have hI1 := setScq_inv hI0 { sq with drains := if sq.drains.contains p then sq.drains else sq.drains ++ [p] }
    obtain ⟨hI2, hfr2⟩ := foldl_wake_spec (fun w => w.scq = q ∧ w.parked = true ∧ p.matches w.id = true)
      (by intro w hw; exact hw.2.1) s0.workers hI1 hI0.core.wnd
      (fun w hw => wfind_of_mem hI0.core.wnd hw)
    exact ⟨emit_quiet_inv hI2 _ (fun _ => ⟨rfl, rfl⟩),
      ((hfr0.trans (setScq_fr _ _)).trans hfr2).trans (emit_fr _ _ trivial)⟩


theorem removeDrain_spec {h : Hints} {s : State} {now : Nat} {q : ScqId} {p : Pattern} (hI : Inv s) :
    wp (removeDrain h s now q p) (fun s' => QuietPost s s') := by
  unfold removeDrain
  apply wp_bind
  refine wp_mono (enter_spec hI) ?_
  intro s0 ⟨hI0, hfr0⟩
  split
  · rw [wp_pure]
    exact ⟨emit_quiet_inv hI0 _ (fun _ => ⟨rfl, rfl⟩), hfr0.trans (emit_fr _ _ trivial)⟩
  · rename_i sq _
    rw [wp_pure]
    exact ⟨emit_quiet_inv (setScq_inv hI0 _) _ (fun _ => ⟨rfl, rfl⟩),
      (hfr0.trans (setScq_fr _ _)).trans (emit_fr _ _ trivial)⟩

/-- one iteration of the marking loop of `TerminateWorkers` -/
def termStep (s : State) (w : Worker) : State :=
  match s.worker? w.scq w.id with
  | some w =>
    let s := s.setWorker { w with terminating := true }
    if w.task.isNone ∧ w.parked then
      match s.worker? w.scq w.id with | some w' => wakeWorker s w' | none => s
    else s
  | none => s

theorem setTerminating_inv {s : State} {wk : Worker} (hI : Inv s)
    (hw : wfind s.workers wk.scq wk.id = some wk) : Inv (s.setWorker { wk with terminating := true }) := by
  refine ⟨?_, hI.oinv, hI.sinv, hI.linv⟩
  simp only [setWorker_eq]
  have hc := hI.core
  core_facts hc
  constructor <;> grind

theorem termStep_spec {s : State} (w : Worker) (hI : Inv s) : Inv (termStep s w) ∧ Fr s (termStep s w) := by
  unfold termStep
  cases hw : s.worker? w.scq w.id with
  | none => exact ⟨hI, Fr.refl s⟩
  | some wk =>
    dsimp only
    simp only [worker?_def] at hw
    have hk := wfind_key hw
    have hw' : wfind s.workers wk.scq wk.id = some wk := by rw [hk.1, hk.2]; exact hw
    have hI1 := setTerminating_inv hI hw'
    have hw1 := wfind_setWorker_self (wk' := { wk with terminating := true }) hw' rfl rfl
    split
    · rename_i hc
      simp only [worker?_def, hw1]
      exact ⟨wake_inv hI1 hw1 hc.2, (setWorker_fr _ _).trans (setWorker_fr _ _)⟩
    · exact ⟨hI1, setWorker_fr _ _⟩

theorem foldl_termStep_spec (l : List Worker) {s : State} (hI : Inv s) :
    Inv (l.foldl termStep s) ∧ Fr s (l.foldl termStep s) := by
  induction l generalizing s with
  | nil => exact ⟨hI, Fr.refl s⟩
  | cons a r ih =>
    rw [List.foldl_cons]
    obtain ⟨h1, f1⟩ := termStep_spec a hI
    obtain ⟨h2, f2⟩ := ih h1
    exact ⟨h2, f1.trans f2⟩

theorem terminate_eq (h : Hints) (s : State) (now id : Nat) (p : Pattern) :
    terminate h s now id p = (enter h s now >>= fun s =>
      let matching := s.workers.filter (fun w => p.matches w.id)
      let s := matching.foldl termStep s
      let waits := matching.filterMap (fun w => match w.task with
        | some t => match s.task? t with | some tk => some (t, tk.gen) | none => none
        | none => none)
      if waits.isEmpty then pure (emit s (.termRet id cOK))
      else pure { s with terms := ⟨id, waits⟩ :: s.terms }) := rfl

theorem terminate_spec {h : Hints} {s : State} {now id : Nat} {p : Pattern} (hI : Inv s) :
    wp (terminate h s now id p) (fun s' => QuietPost s s') := by
  rw [terminate_eq]
  apply wp_bind
  refine wp_mono (enter_spec hI) ?_
  intro s0 ⟨hI0, hfr0⟩
  dsimp only
  obtain ⟨hI1, hfr1⟩ := foldl_termStep_spec (s0.workers.filter (fun w => p.matches w.id)) hI0
  split
  · rw [wp_pure]
    exact ⟨emit_quiet_inv hI1 _ (fun _ => ⟨rfl, rfl⟩), (hfr0.trans hfr1).trans (emit_fr _ _ trivial)⟩
  · rw [wp_pure]
    exact ⟨hI1.of_same rfl rfl rfl rfl rfl rfl rfl rfl rfl rfl,
      (hfr0.trans hfr1).trans (Fr.of_same rfl rfl rfl rfl rfl rfl rfl)⟩

theorem termWake_spec {s : State} {id reason : Nat} (hI : Inv s) :
    wp (termWake s id reason) (fun s' => QuietPost s s') := by
  unfold termWake
  split
  · rename_i tc _
    dsimp only
    have hI1 : Inv { s with terms := s.terms.filter (fun t => t.id ≠ id) } :=
      hI.of_same rfl rfl rfl rfl rfl rfl rfl rfl rfl rfl
    have hfr1 : Fr s { s with terms := s.terms.filter (fun t => t.id ≠ id) } :=
      Fr.of_same rfl rfl rfl rfl rfl rfl rfl
    split
    · rw [wp_pure]
      exact ⟨emit_quiet_inv hI1 _ (fun _ => ⟨rfl, rfl⟩), hfr1.trans (emit_fr _ _ trivial)⟩
    · split
      · okerr
      · rw [wp_pure]
        exact ⟨emit_quiet_inv hI1 _ (fun _ => ⟨rfl, rfl⟩), hfr1.trans (emit_fr _ _ trivial)⟩
  · okerr

theorem registerPQ_spec {s : State} (id : Nat) (comps : List Nat) (platform : Nat) (sizes : List Nat)
    (bgMax : Nat) (bgPrio : Int) (hI : Inv s) : QuietPost s (registerPQ s id comps platform sizes bgMax bgPrio) :=
  ⟨hI.of_same rfl rfl rfl rfl rfl rfl rfl rfl rfl rfl, Fr.of_same rfl rfl rfl rfl rfl rfl rfl⟩

end BbRe.Lemmas.SchedInv
