import BbRe.Spec.ByteLocks
/-!
# Helper lemmas for C20: the per-byte abstraction `abs` and the invariant `WF`
-/
namespace BbRe.Lemmas.BRL
open BbRe.BRL BbRe.Spec.ByteLocks

/-! ## `abs` -/

@[simp] theorem abs_nil (o b : Nat) : abs [] o b = none := rfl

theorem abs_cons (e : Lock) (ls : List Lock) (o b : Nat) :
    abs (e :: ls) o b = if Covers e o b then some e.ty else abs ls o b := rfl

theorem abs_append (xs ys : List Lock) (o b : Nat) :
    abs (xs ++ ys) o b = (abs xs o b).orElse (fun _ => abs ys o b) := by
  induction xs with
  | nil => simp
  | cons e xs ih =>
    simp only [List.cons_append, abs_cons]
    split <;> simp [ih]

/-- `abs` returns the type of some covering entry. -/
theorem abs_some_mem {ls : List Lock} {o b : Nat} {t : Ty} (h : abs ls o b = some t) :
    ∃ e ∈ ls, Covers e o b ∧ e.ty = t := by
  induction ls with
  | nil => simp at h
  | cons e ls ih =>
    rw [abs_cons] at h
    split at h
    · exact ⟨e, by simp, by assumption, by simpa using h⟩
    · obtain ⟨e', h1, h2⟩ := ih h
      exact ⟨e', by simp [h1], h2⟩

/-- `abs` is `none` exactly when no entry of the owner covers the byte. -/
theorem abs_eq_none_iff {ls : List Lock} {o b : Nat} :
    abs ls o b = none ↔ ∀ e ∈ ls, ¬ Covers e o b := by
  induction ls with
  | nil => simp
  | cons e ls ih =>
    rw [abs_cons]
    by_cases h : Covers e o b
    · rw [if_pos h]
      exact ⟨fun h' => (by cases h'), fun h' => absurd h (h' e (by simp))⟩
    · rw [if_neg h, ih]
      constructor
      · intro h' x hx
        simp only [List.mem_cons] at hx
        rcases hx with rfl | hx
        · exact h
        · exact h' x hx
      · exact fun h' x hx => h' x (by simp [hx])

/-- Entries of other owners are invisible to `abs`. -/
theorem abs_filter_owner (ls : List Lock) (o b : Nat) (p : Lock → Bool)
    (hp : ∀ e, e.owner = o → p e = true) :
    abs (ls.filter p) o b = abs ls o b := by
  induction ls with
  | nil => rfl
  | cons e ls ih =>
    by_cases h : p e = true
    · simp only [List.filter_cons_of_pos h, abs_cons, ih]
    · have : ¬ Covers e o b := fun hc => h (hp e hc.1)
      simp only [List.filter_cons_of_neg h, abs_cons, ih, this, if_false]

/-! ## `WF` as one `Pairwise` relation -/

/-- The relation between an earlier entry `a` and a later entry `b`. -/
def Rel (a b : Lock) : Prop :=
  a.start ≤ b.start ∧
  (a.owner = b.owner → a.stop ≤ b.start ∧ (a.ty = b.ty → a.stop < b.start)) ∧
  (a.owner ≠ b.owner → a.start < b.stop → b.start < a.stop → a.ty = .shared ∧ b.ty = .shared)

/-- Per-entry part of `WF`. -/
def Ok (e : Lock) : Prop := e.start < e.stop ∧ e.ty ≠ .unlocked

theorem wf_iff (ls : List Lock) : WF ls ↔ (∀ e ∈ ls, Ok e) ∧ ls.Pairwise Rel := by
  unfold Rel Ok
  simp only [List.pairwise_and_iff]
  constructor
  · intro h
    exact ⟨fun e he => ⟨h.nonempty e he, h.locked e he⟩, h.sorted, h.own, h.cross⟩
  · intro ⟨h1, h2, h3, h4⟩
    exact ⟨h2, fun e he => (h1 e he).1, fun e he => (h1 e he).2, h3, h4⟩

theorem wf_nil : WF [] := by
  constructor <;> simp

/-- Order-free form of the pairwise part: any two members with `x.start <
y.start` are related. -/
theorem rel_of_mem_of_lt {ls : List Lock} (hp : ls.Pairwise Rel) {x y : Lock}
    (hx : x ∈ ls) (hy : y ∈ ls) (hlt : x.start < y.start) : Rel x y := by
  induction ls with
  | nil => simp at hx
  | cons a ls ih =>
    rw [List.pairwise_cons] at hp
    simp only [List.mem_cons] at hx hy
    rcases hx with rfl | hx <;> rcases hy with rfl | hy
    · omega
    · exact hp.1 _ hy
    · have := (hp.1 _ hx).1; omega
    · exact ih hp.2 hx hy

/-- Two members of different owners sharing a byte are both shared. -/
theorem cross_of_mem {ls : List Lock} (hp : ls.Pairwise Rel) {x y : Lock}
    (hx : x ∈ ls) (hy : y ∈ ls) (hne : x.owner ≠ y.owner)
    (h1 : x.start < y.stop) (h2 : y.start < x.stop) : x.ty = .shared ∧ y.ty = .shared := by
  induction ls with
  | nil => simp at hx
  | cons a ls ih =>
    rw [List.pairwise_cons] at hp
    simp only [List.mem_cons] at hx hy
    rcases hx with rfl | hx <;> rcases hy with rfl | hy
    · exact absurd rfl hne
    · exact (hp.1 _ hy).2.2 hne h1 h2
    · exact ((hp.1 _ hx).2.2 (Ne.symm hne) h2 h1).symm
    · exact ih hp.2 hx hy

/-- Under the invariant, at most one entry of an owner covers a byte, so `abs`
is exactly "some entry of `o` of type `t` covers `b`". -/
theorem abs_eq_some_iff {ls : List Lock} (hok : ∀ e ∈ ls, Ok e) (hp : ls.Pairwise Rel)
    {o b : Nat} {t : Ty} :
    abs ls o b = some t ↔ ∃ e ∈ ls, Covers e o b ∧ e.ty = t := by
  constructor
  · exact abs_some_mem
  · intro ⟨e, he, hc, ht⟩
    induction ls with
    | nil => simp at he
    | cons a ls ih =>
      rw [List.pairwise_cons] at hp
      rw [abs_cons]
      simp only [List.mem_cons] at he
      rcases he with rfl | he
      · simp [hc, ht]
      · split
        · rename_i hca
          have := (hp.1 _ he).2.1 (by unfold Covers at hc hca; omega)
          have := (hp.1 _ he).1
          unfold Covers at hc hca; omega
        · exact ih (fun e he => hok e (List.mem_cons_of_mem _ he)) hp.2 he

end BbRe.Lemmas.BRL
