import BbRe.Lemmas.SchedInvDefs
/-!
Frame lemmas for the primitive state updates of `Model/Sched.lean`.
-/
namespace BbRe.Lemmas.SchedInv
open BbRe.Sched

@[simp] theorem task?_def (s : State) (k : Nat) : s.task? k = alookup k s.tasks := rfl
@[simp] theorem op?_def (s : State) (k : Nat) : s.op? k = alookup k s.ops := rfl
@[simp] theorem worker?_def (s : State) (q w) : s.worker? q w = wfind s.workers q w := rfl
theorem setWorker_eq (s : State) (w : Worker) : s.setWorker w = { s with workers := wset s.workers w } := rfl

@[simp] theorem throw_bind' {α β} (e : String) (f : α → M β) :
    ((throw e : M α) >>= f) = (Except.error e : M β) := rfl
@[simp] theorem error_bind' {α β} (e : String) (f : α → M β) :
    ((Except.error e : M α) >>= f) = (Except.error e : M β) := rfl
@[simp] theorem ok_bind' {α β} (a : α) (f : α → M β) : ((Except.ok a : M α) >>= f) = f a := rfl

/-- close a goal `OkErr "literal"` -/
macro "okerr" : tactic => `(tactic| (simp only [wp_throw, wp_error, throw_bind', error_bind', OkErr, okErrors]; decide))

attribute [grind =] alookup_aset wfind_wset wfind_append alookup_aerase mem_keys_aset
  mem_keys_aerase
grind_pattern nodup_aset => keys (aset k v l)
grind_pattern nodup_aerase => keys (aerase k l)
grind_pattern wset_nodup => wset ws w
grind_pattern wfind_key => wfind ws q i, some wk

/-! ## monotonicity in the exception sets -/

theorem Core.mono {ex ex' : Nat → Prop} {ts ws dd nt nl} (h : Core ex ts ws dd nt nl)
    (hx : ∀ k, ex k → ex' k) : Core ex' ts ws dd nt nl := by
  have q2' : ∀ k t, alookup k ts = some t → t.response = none → t.queued = true ∨ t.worker.isSome = true ∨ ex' k := by
    intro k t h1 h2; have := h.q2 k t h1 h2; grind
  exact { h with q2 := q2' }

theorem OInv.mono {exo exo' : Nat → Prop} {ts os no} (h : OInv exo ts os no)
    (hx : ∀ k, exo k → exo' k) : OInv exo' ts os no := by
  have o2' : ∀ k t o, alookup k ts = some t → o ∈ t.ops →
      o < no ∧ (exo' o ∨ ∃ op, alookup o os = some op ∧ op.task = k) := by
    intro k t o h1 h2; have := h.o2 k t o h1 h2; grind
  exact { h with o2 := o2' }

theorem InvX.mono {ex ex' exo exo' : Nat → Prop} {s : State} (h : InvX ex exo s)
    (hx : ∀ k, ex k → ex' k) (ho : ∀ k, exo k → exo' k) : InvX ex' exo' s :=
  ⟨h.core.mono hx, h.oinv.mono ho, h.sinv, h.linv⟩

/-! ## event counting -/

@[simp] theorem termCount_nil (l : Nat) : termCount l [] = 0 := rfl
@[simp] theorem issueCount_nil (l : Nat) : issueCount l [] = 0 := rfl
theorem termCount_cons (l : Nat) (e : Event) (evs) :
    termCount l (e :: evs) = termCount l evs + (if isTerm l e then 1 else 0) := by
  simp [termCount, List.countP_cons]
theorem issueCount_cons (l : Nat) (e : Event) (evs) :
    issueCount l (e :: evs) = issueCount l evs + (if isIssue l e then 1 else 0) := by
  simp [issueCount, List.countP_cons]

/-- an event that is no learner/selector-issue event -/
def NoLearn (e : Event) : Prop := ∀ l, isTerm l e = false ∧ isIssue l e = false

theorem LogInv.emit {ts nl evs} (h : LogInv ts nl evs) (e : Event) (he : NoLearn e) :
    LogInv ts nl (e :: evs) := by
  constructor
  · intro l; rw [termCount_cons, issueCount_cons, (he l).1, (he l).2]; simpa using h.g1 l
  · intro l; rw [issueCount_cons, (he l).2]; simpa using h.g2 l
  · intro l hl; rw [termCount_cons, (he l).1]; simpa using h.g3 l hl
  · intro l hl; rw [issueCount_cons, (he l).2]; simpa using h.g4 l hl
  · intro l hl; rw [issueCount_cons, (he l).2]; simpa using h.g5 l hl

theorem LogInv.held_anti {ts ts' nl evs} (h : LogInv ts nl evs) (hh : ∀ l, Held ts' l → Held ts l) :
    LogInv ts' nl evs :=
  ⟨h.g1, h.g2, fun l hl => h.g3 l (hh l hl), h.g4, fun l hl => h.g5 l (hh l hl)⟩

theorem Held.aset {ts : List (Nat × Task)} {k : Nat} {t : Task} {l : Nat} (h : Held (aset k t ts) l) :
    t.learner = some l ∨ ∃ k' t', k' ≠ k ∧ alookup k' ts = some t' ∧ t'.learner = some l := by
  obtain ⟨k', t', h1, h2⟩ := h
  rw [alookup_aset] at h1
  split at h1
  · cases h1; exact Or.inl h2
  · rename_i hne; exact Or.inr ⟨k', t', fun e => hne e.symm, h1, h2⟩

/-- replacing a task by one with the same (or no) learner keeps the log invariant -/
theorem LogInv.setTask {ts nl evs} (h : LogInv ts nl evs) {t t0 : Task} (h0 : alookup t.id ts = some t0)
    (hl : t.learner = t0.learner ∨ t.learner = none) : LogInv (aset t.id t ts) nl evs := by
  apply h.held_anti
  intro l hh
  rcases hh.aset with hh | ⟨k', t', _, h1, h2⟩
  · rcases hl with hl | hl
    · exact ⟨t.id, t0, h0, by rw [← hl]; exact hh⟩
    · rw [hl] at hh; cases hh
  · exact ⟨k', t', h1, h2⟩

theorem LogInv.aerase {ts : List (Nat × Task)} {nl evs} (h : LogInv ts nl evs) (k : Nat) (hn : (keys ts).Nodup) :
    LogInv (aerase k ts) nl evs := by
  apply h.held_anti
  intro l ⟨k', t', h1, h2⟩
  rw [alookup_aerase _ _ _ hn] at h1
  split at h1
  · cases h1
  · exact ⟨k', t', h1, h2⟩

/-! ## operations -/

/-- replacing a task by one with the same operations -/
theorem OInv.setTask {exo ts os no} (h : OInv exo ts os no) {t t0 : Task} (h0 : alookup t.id ts = some t0)
    (ho : t.ops = t0.ops) : OInv exo (aset t.id t ts) os no := by
  have := h.o1; have := h.o2; have := h.o3
  constructor
  · exact h.ond
  · exact h.oid
  · intro k o; grind
  · intro k t' o; grind
  · intro k t'; grind

/-- operations agree up to the `mayExistWithoutWaiters` flag -/
def OpsSim (os os' : List (Nat × Op)) : Prop :=
  keys os' = keys os ∧
  ∀ k, (∀ op', alookup k os' = some op' → ∃ op, alookup k os = some op ∧
          op'.name = op.name ∧ op'.task = op.task ∧ op'.waiters = op.waiters ∧ op'.inv = op.inv) ∧
       (∀ op, alookup k os = some op → ∃ op', alookup k os' = some op')

theorem OpsSim.refl (os : List (Nat × Op)) : OpsSim os os :=
  ⟨rfl, fun _ => ⟨fun op' h => ⟨op', h, rfl, rfl, rfl, rfl⟩, fun op h => ⟨op, h⟩⟩⟩

theorem OpsSim.trans {a b c : List (Nat × Op)} (h1 : OpsSim a b) (h2 : OpsSim b c) : OpsSim a c := by
  refine ⟨h2.1.trans h1.1, fun k => ⟨?_, ?_⟩⟩
  · intro op' h
    obtain ⟨op1, e1, f1⟩ := (h2.2 k).1 op' h
    obtain ⟨op0, e0, f0⟩ := (h1.2 k).1 op1 e1
    exact ⟨op0, e0, by grind⟩
  · intro op h
    obtain ⟨op1, e1⟩ := (h1.2 k).2 op h
    exact (h2.2 k).2 op1 e1

theorem OpsSim.setOp {os : List (Nat × Op)} {op op' : Op} (h : alookup op.name os = some op)
    (h1 : op'.name = op.name) (h2 : op'.task = op.task) (h3 : op'.waiters = op.waiters)
    (h4 : op'.inv = op.inv) : OpsSim os (aset op'.name op' os) := by
  constructor
  · rw [keys_aset, h1]
    have : op.name ∈ keys os := (alookup_isSome_iff _ _).mp (by rw [h]; rfl)
    simp [this]
  · intro k; constructor
    · intro x hx; grind
    · intro x hx; grind

theorem OInv.sim {exo ts os os' no} (h : OInv exo ts os no) (hs : OpsSim os os') : OInv exo ts os' no := by
  have := h.o1; have := h.o2; have := h.oid
  obtain ⟨hk, hs⟩ := hs
  constructor
  · rw [hk]; exact h.ond
  · intro k o ho; obtain ⟨op, e, f⟩ := (hs k).1 o ho; grind
  · intro k o ho; obtain ⟨op, e, f⟩ := (hs k).1 o ho; grind
  · intro k t o hk ho
    obtain ⟨a, b⟩ := h.o2 k t o hk ho
    refine ⟨a, ?_⟩
    rcases b with b | ⟨op, e, f⟩
    · exact Or.inl b
    · obtain ⟨op', e'⟩ := (hs o).2 op e
      obtain ⟨op2, e2, f2⟩ := (hs o).1 op' e'
      right; exact ⟨op', e', by grind⟩
  · exact h.o3

theorem SInv.sim {os os' sts cl} (h : SInv os sts cl) (hs : OpsSim os os') : SInv os' sts cl := by
  obtain ⟨hk, hs⟩ := hs
  constructor
  · intro k op' ho; obtain ⟨op, e, f⟩ := (hs k).1 op' ho; have := h.s1 k op e; grind
  · intro k op' e ho he hk; obtain ⟨op, e', f⟩ := (hs k).1 op' ho; have := h.s2 k op e e' he hk; grind
  · intro st hst
    have := h.s3 st hst
    cases hl : alookup st.op os with
    | none => simp [hl] at this
    | some op => obtain ⟨op', e'⟩ := (hs st.op).2 op hl; simp [e']

/-! ## cleanup -/

theorem maybeStartCleanup_eq (s : State) (o : Nat) :
    maybeStartCleanup s o = { s with cleanup := (maybeStartCleanup s o).cleanup } := by
  unfold maybeStartCleanup
  split
  · split <;> rfl
  · rfl

theorem SInv.maybeStartCleanup {s : State} (h : SInv s.ops s.streams s.cleanup) (o : Nat) :
    SInv s.ops s.streams (maybeStartCleanup s o).cleanup := by
  unfold BbRe.Sched.maybeStartCleanup
  split
  · rename_i op hop
    split
    · rename_i hc
      simp only [State.addCleanup]
      constructor
      · exact h.s1
      · intro k op' e ho he hk
        rcases List.mem_cons.mp he with he | he
        · subst he; simp at hk; subst hk
          simp at hop; rw [hop] at ho; cases ho; exact hc.1
        · exact h.s2 k op' e ho he hk
      · exact h.s3
    · exact h
  · exact h

theorem SInv.cleanup_sub {os sts cl cl'} (h : SInv os sts cl) (hs : ∀ e, e ∈ cl' → e ∈ cl) : SInv os sts cl' :=
  ⟨h.s1, fun k op e ho he hk => h.s2 k op e ho (hs e he) hk, h.s3⟩

/-- adding a cleanup entry that is not an operation entry -/
theorem SInv.cleanup_cons {os sts cl} (h : SInv os sts cl) (e : CleanupEntry) (he : ∀ k, e.kind ≠ .op k) :
    SInv os sts (e :: cl) :=
  ⟨h.s1, fun k op e' ho he' hk => by
      rcases List.mem_cons.mp he' with h1 | h1
      · subst h1; exact absurd hk (he k)
      · exact h.s2 k op e' ho h1 hk, h.s3⟩

end BbRe.Lemmas.SchedInv
