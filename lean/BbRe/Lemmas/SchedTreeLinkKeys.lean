import BbRe.Lemmas.SchedTreeLinkFold
import BbRe.Lemmas.SchedTreePrimPark
import BbRe.Lemmas.SchedTreePrimIdle
/-!
Every update of the node list made by the tree layer keeps the root invocations and creates invocations
only in the queue it is told to (`NFrame`).
-/
namespace BbRe.Lemmas.SchedTree
open BbRe.Sched BbRe.SchedTree

/-- `ns'` was obtained from `ns` by updates that keep every root invocation and create invocations only
in the queues `qs` -/
structure NFrame (qs : List ScqId) (ns ns' : List Node) : Prop where
  roots : ∀ q, (node? ns q []).isSome = true → (node? ns' q []).isSome = true
  scqs : ∀ n' ∈ ns', (∃ n ∈ ns, n.scq = n'.scq) ∨ n'.scq ∈ qs

theorem NFrame.refl (ns : List Node) : NFrame [] ns ns :=
  ⟨fun _ h => h, fun n' hn' => Or.inl ⟨n', hn', rfl⟩⟩

theorem NFrame.trans {qs qs' : List ScqId} {a b c : List Node} (h1 : NFrame qs a b) (h2 : NFrame qs' b c) :
    NFrame (qs ++ qs') a c := by
  refine ⟨fun q h => h2.roots q (h1.roots q h), ?_⟩
  intro n' hn'
  rcases h2.scqs n' hn' with ⟨m, hm, e⟩ | hq
  · rcases h1.scqs m hm with ⟨n, hn, e'⟩ | hq
    · exact Or.inl ⟨n, hn, e'.trans e⟩
    · exact Or.inr (List.mem_append_left _ (e ▸ hq))
  · exact Or.inr (List.mem_append_right _ hq)

theorem NFrame.mono {qs qs' : List ScqId} {a b : List Node} (h : NFrame qs a b) (hs : ∀ q ∈ qs, q ∈ qs') :
    NFrame qs' a b := by
  refine ⟨h.roots, ?_⟩
  intro n' hn'
  rcases h.scqs n' hn' with h1 | h1
  · exact Or.inl h1
  · exact Or.inr (hs _ h1)

/-- composition of two updates that create nothing -/
theorem NFrame.trans0 {a b c : List Node} (h1 : NFrame [] a b) (h2 : NFrame [] b c) : NFrame [] a c :=
  (h1.trans h2).mono (fun _ hq => by simp at hq)

/-- same key list -/
theorem NFrame.of_keys {ns ns' : List Node} (h : ns'.map nkey = ns.map nkey) : NFrame [] ns ns' := by
  refine ⟨fun q hq => by rw [node?_isSome_of_keys h]; exact hq, ?_⟩
  intro n' hn'
  have hm : nkey n' ∈ ns.map nkey := by rw [← h]; exact List.mem_map_of_mem hn'
  obtain ⟨n, hn, e⟩ := List.mem_map.mp hm
  exact Or.inl ⟨n, hn, congrArg Prod.fst e⟩

/-- a filter that keeps every root -/
theorem NFrame.of_filter (ns : List Node) (keep : Node → Bool) (hk : ∀ n ∈ ns, n.path = [] → keep n = true) :
    NFrame [] ns (ns.filter keep) := by
  refine ⟨?_, fun n' hn' => Or.inl ⟨n', (List.mem_filter.mp hn').1, rfl⟩⟩
  intro q hq
  obtain ⟨n, hn, h1, h2⟩ := node?_isSome_iff.mp hq
  exact node?_isSome_iff.mpr ⟨n, List.mem_filter.mpr ⟨hn, hk n hn h2⟩, h1, h2⟩

/-- a loop of updates -/
theorem foldl_nframe {α : Type _} (qs : List ScqId) (step : List Node → α → List Node)
    (hs : ∀ ns a, NFrame qs ns (step ns a)) (l : List α) :
    ∀ ns : List Node, NFrame qs ns (l.foldl step ns) := by
  induction l with
  | nil => intro ns; exact (NFrame.refl ns).mono (fun _ hq => nomatch hq)
  | cons a r ih =>
    intro ns
    rw [List.foldl_cons]
    exact ((hs ns a).trans (ih (step ns a))).mono (fun q hq => by
      rcases List.mem_append.mp hq with h | h <;> exact h)

/-! ### node-level primitives -/

theorem updPath_keys (ns : List Node) (q : ScqId) (p : List Nat) (f : Node → Node) (hf : KeepsKey f) :
    (updPath ns q p f).map nkey = ns.map nkey := by
  rw [updPath_eq_map]; exact map_keys (keepsKey_ite hf)

theorem pruneP_nframe (ns : List Node) (q : ScqId) (p : List Nat) : NFrame [] ns (pruneP ns q p) := by
  unfold pruneP
  apply NFrame.of_filter
  intro n _ hp
  simp [hp]

theorem incExec_nframe (ns : List Node) (q : ScqId) (p : List Nat) (k : WKey) (now : Nat) :
    NFrame [] ns (incExec ns q p k now) :=
  NFrame.of_keys (updPath_keys _ _ _ _ (fun _ => ⟨rfl, rfl⟩))

theorem refreshUp_nframe (pr : Nat → Int) (ns : List Node) (q : ScqId) (p : List Nat) : NFrame [] ns (refreshUp pr ns q p) :=
  NFrame.of_keys (refreshUp_keys pr ns q p)

theorem incExecR_nframe (lg : Bool) (pr : Nat → Int) (ns : List Node) (q : ScqId) (p : List Nat) (k : WKey) (now : Nat) :
    NFrame [] ns (incExecR lg pr ns q p k now) := by
  unfold incExecR
  split
  · exact incExec_nframe ns q p k now
  · exact NFrame.trans0 (incExec_nframe ns q p k now) (refreshUp_nframe pr _ q p)

theorem decExec_nframe (ns : List Node) (q : ScqId) (p : List Nat) (k : WKey) (now : Nat) :
    NFrame [] ns (decExec ns q p k now) := by
  unfold decExec
  refine NFrame.trans0 (NFrame.of_keys ?_) (pruneP_nframe _ q p)
  exact updPath_keys ns q p _ (fun _ => ⟨rfl, rfl⟩)

theorem decExecR_nframe (lg : Bool) (pr : Nat → Int) (ns : List Node) (q : ScqId) (p : List Nat) (k : WKey) (now : Nat) :
    NFrame [] ns (decExecR lg pr ns q p k now) := by
  unfold decExecR
  split
  · exact decExec_nframe ns q p k now
  · exact NFrame.trans0 (decExec_nframe ns q p k now) (refreshUp_nframe pr _ q p)

theorem setLastN_nframe (ns : List Node) (q : ScqId) (p : List Nat) : NFrame [] ns (setLastN ns q p) :=
  NFrame.of_keys (updPath_keys _ _ _ _ (fun _ => ⟨rfl, rfl⟩))

theorem clearLastN_nframe (ns : List Node) (q : ScqId) (p : List Nat) : NFrame [] ns (clearLastN ns q p) := by
  unfold clearLastN
  refine NFrame.trans0 (NFrame.of_keys ?_) (pruneP_nframe _ q p)
  exact updPath_keys ns q p _ (fun _ => ⟨rfl, rfl⟩)

theorem enqueueOp_keys (prioOf : Nat → Int) (ns : List Node) (q : ScqId) (p : List Nat) (o : Nat) :
    (enqueueOp prioOf ns q p o).map nkey = ns.map nkey := by
  unfold enqueueOp
  rw [foldl_keys _ (enqStep_keys prioOf q), updNode_keys]
  intro _ _ _; rfl

theorem removeQueuedOp_keys (prioOf : Nat → Int) (ns : List Node) (q : ScqId) (p : List Nat) (o : Nat) :
    (removeQueuedOp prioOf ns q p o).map nkey = ns.map nkey := by
  unfold removeQueuedOp
  rw [foldl_keys _ (deqStep_keys prioOf q), updNode_keys]
  intro _ _ _; rfl

theorem enqueueOp_nframe (prioOf : Nat → Int) (ns : List Node) (q : ScqId) (p : List Nat) (o : Nat) :
    NFrame [] ns (enqueueOp prioOf ns q p o) :=
  NFrame.of_keys (enqueueOp_keys prioOf ns q p o)

theorem removeQueuedOp_nframe (prioOf : Nat → Int) (ns : List Node) (q : ScqId) (p : List Nat) (o : Nat) :
    NFrame [] ns (removeQueuedOp prioOf ns q p o) :=
  NFrame.of_keys (removeQueuedOp_keys prioOf ns q p o)

theorem parkStep_keys (q : ScqId) (ns : List Node) (pi : List Nat) :
    (parkStep q ns pi).map nkey = ns.map nkey := by
  unfold parkStep
  apply updNode_keys
  intro _ _ _; rfl

theorem unparkStep_keys (q : ScqId) (ns : List Node) (pi : List Nat) :
    (unparkStep q ns pi).map nkey = ns.map nkey := by
  unfold unparkStep
  split
  · rfl
  · split
    · apply updNode_keys
      intro _ _ _; rfl
    · rfl

theorem parkW_keys (ns : List Node) (q : ScqId) (p : List Nat) (w : WId) :
    (parkW ns q p w).map nkey = ns.map nkey := by
  unfold parkW
  rw [foldl_keys _ (parkStep_keys q), updNode_keys]
  intro _ _ _; rfl

theorem dequeueW_keys (ns : List Node) (q : ScqId) (p : List Nat) (w : WId) :
    (dequeueW ns q p w).map nkey = ns.map nkey := by
  unfold dequeueW
  rw [foldl_keys _ (unparkStep_keys q), updNode_keys]
  intro _ _ _; rfl

theorem parkW_nframe (ns : List Node) (q : ScqId) (p : List Nat) (w : WId) : NFrame [] ns (parkW ns q p w) :=
  NFrame.of_keys (parkW_keys ns q p w)

theorem dequeueW_nframe (ns : List Node) (q : ScqId) (p : List Nat) (w : WId) : NFrame [] ns (dequeueW ns q p w) :=
  NFrame.of_keys (dequeueW_keys ns q p w)

theorem pruneChain_nframe (ns : List Node) (q : ScqId) (l : List (List Nat)) (hl : ∀ pi ∈ l, pi ≠ []) :
    NFrame [] ns (pruneChain ns q l) := by
  induction l generalizing ns with
  | nil => exact NFrame.refl ns
  | cons pi rest ih =>
    unfold pruneChain
    split
    · split
      · refine (NFrame.of_filter ns _ ?_).trans0 (ih _ (fun x hx => hl x (List.mem_cons_of_mem _ hx)))
        intro n _ hp
        have hne : pi ≠ [] := hl pi List.mem_cons_self
        have : n.isAt q pi = false := by
          rw [Bool.eq_false_iff]
          intro hc
          exact hne (((isAt_iff n q pi).mp hc).2.symm.trans hp)
        rw [this]; rfl
      · exact NFrame.refl ns
    · exact NFrame.refl ns

theorem append_mkNode_nframe (ns : List Node) (q : ScqId) (pi : List Nat) (now : Nat) :
    NFrame [q] ns (ns ++ [mkNode q pi now]) := by
  refine ⟨fun q' h => node?_append_isSome _ h, ?_⟩
  intro n' hn'
  rcases List.mem_append.mp hn' with h | h
  · exact Or.inl ⟨n', h, rfl⟩
  · have : n' = mkNode q pi now := by simpa using h
    subst this
    exact Or.inr (by simp [mkNode])

theorem getOrCreate_nframe (ns : List Node) (q : ScqId) (p : List Nat) (now : Nat) :
    NFrame [q] ns (getOrCreate ns q p now) := by
  unfold getOrCreate
  apply foldl_nframe
  intro ms pi
  split
  · exact (NFrame.refl ms).mono (fun _ hq => nomatch hq)
  · exact append_mkNode_nframe ms q pi now

/-! ### the tree-only updates of the state -/

theorem incOps_nframe (ts : TState) (t : Task) (k : WKey) : NFrame [] ts.nodes (ts.incOps t k).nodes :=
  foldl_nframe [] _ (fun ns o => incExecR_nframe ts.legacyPrio ts.prioOf ns t.scq (ts.invOf o) k ts.s.now) t.ops ts.nodes

theorem decOps_nframe (ts : TState) (t : Task) (k : WKey) : NFrame [] ts.nodes (ts.decOps t k).nodes :=
  foldl_nframe [] _ (fun ns o => decExecR_nframe ts.legacyPrio ts.prioOf ns t.scq (ts.invOf o) k ts.s.now) t.ops ts.nodes

theorem enqOps_nframe (ts : TState) (t : Task) : NFrame [] ts.nodes (ts.enqOps t).nodes :=
  foldl_nframe [] _ (fun ns o => enqueueOp_nframe ts.prioOf ns t.scq (ts.invOf o) o) t.ops ts.nodes

theorem deqOps_nframe (ts : TState) (t : Task) : NFrame [] ts.nodes (ts.deqOps t).nodes :=
  foldl_nframe [] _ (fun ns o => removeQueuedOp_nframe ts.prioOf ns t.scq (ts.invOf o) o) t.ops ts.nodes

theorem clearLast_nframe (ts : TState) (q : ScqId) (w : WId) : NFrame [] ts.nodes (ts.clearLast q w).nodes := by
  show NFrame [] ts.nodes (match ts.lastOf q w with
    | some p => clearLastN ts.nodes q p
    | none => ts.nodes)
  split
  · exact clearLastN_nframe _ _ _
  · exact NFrame.refl _

theorem setLast_nframe (ts : TState) (tq q : ScqId) (w : WId) (p : List Nat) :
    NFrame [] ts.nodes (ts.setLast tq q w p).nodes :=
  setLastN_nframe ts.nodes tq p

theorem unparkTree_nframe (ts : TState) (q : ScqId) (w : WId) : NFrame [] ts.nodes (ts.unparkTree q w).nodes := by
  show NFrame [] ts.nodes (match ts.lastOf q w with
    | some p => dequeueW ts.nodes q p w
    | none => ts.nodes)
  split
  · exact dequeueW_nframe _ _ _ _
  · exact NFrame.refl _

theorem parkTree_nframe (ts : TState) (q : ScqId) (w : WId) : NFrame [] ts.nodes (ts.parkTree q w).nodes := by
  show NFrame [] ts.nodes (match ts.lastOf q w with
    | some p => parkW ts.nodes q p w
    | none => ts.nodes)
  split
  · exact parkW_nframe _ _ _ _
  · exact NFrame.refl _

theorem createOps_nframe (ts : TState) (t : Task) : NFrame [t.scq] ts.nodes (ts.createOps t).nodes :=
  foldl_nframe [t.scq] _ (fun ns o => getOrCreate_nframe ns t.scq (ts.invOf o) ts.s.now) t.ops ts.nodes

theorem create_nframe (ts : TState) (q : ScqId) (p : List Nat) : NFrame [q] ts.nodes (ts.create q p).nodes :=
  getOrCreate_nframe ts.nodes q p ts.s.now

theorem assignTree_nframe (ts : TState) (w : Worker) (t : Task) (r : Nat) :
    NFrame [] ts.nodes (ts.assignTree w t r).nodes :=
  (incOps_nframe ts t (some w.id)).trans0 (clearLast_nframe (ts.incOps t (some w.id)) w.scq w.id)

theorem detachTree_nframe (ts : TState) (t : Task) (bw : Bool) : NFrame [] ts.nodes (ts.detachTree t bw).nodes := by
  unfold TState.detachTree
  split
  · exact ((incOps_nframe ts t none).trans0 (deqOps_nframe _ t)).trans0 (decOps_nframe _ t none)
  · exact (setLast_nframe ts _ _ _ _).trans0 (decOps_nframe _ t _)

theorem removeOpTree_nframe (ts : TState) (t : Task) (o : Nat) : NFrame [] ts.nodes (ts.removeOpTree t o).nodes := by
  unfold TState.removeOpTree
  split
  · exact NFrame.refl _
  · exact decExecR_nframe _ _ _ _ _ _ _
  · exact (removeQueuedOp_nframe _ _ _ _ _).trans0
      (pruneChain_nframe _ _ _ (fun pi hpi => (mem_ups.mp hpi).2))

theorem maybeDequeue_nframe (ts : TState) (wk : Worker) : NFrame [] ts.nodes (ts.maybeDequeue wk).nodes := by
  unfold TState.maybeDequeue
  split
  · exact unparkTree_nframe _ _ _
  · exact NFrame.refl _

theorem tWake_nframe (ts : TState) (w : Worker) : NFrame [] ts.nodes (tWake ts w).nodes :=
  unparkTree_nframe ts w.scq w.id

end BbRe.Lemmas.SchedTree
