import BbRe.Lemmas.FilePoolReadGen
/-!
History-level refinement: the per-file byte-array specification run side by
side with the model.  `absFiles` maps a pool state to the list of its files as
byte arrays (`none` = closed); `SpecStep` says what one operation may do to
that list and which output it may produce, given the environment's oracle;
`spec_step` shows every model step is such a specification step.
-/
namespace BbRe.Lemmas.FilePool
open BbRe.FilePool BbRe.ByteFile

abbrev SpecState := List (Option ByteFile)

/-- the pool as a list of byte arrays, indexed by file id. -/
def absFiles (st : State) : SpecState :=
  st.files.map fun f => if f.closed then none else some (absFile st.cfg.ss st.dev f)

/-- same entry (absent / closed / extensionally equal byte arrays). -/
def OEqv : Option (Option ByteFile) → Option (Option ByteFile) → Prop
  | none, none => True
  | some none, some none => True
  | some (some a), some (some b) => Eqv a b
  | _, _ => False

theorem OEqv.refl : ∀ a, OEqv a a
  | none => trivial
  | some none => trivial
  | some (some _) => ⟨rfl, fun _ => rfl⟩

/-- same number of files, and every entry except possibly `i` is the same byte array. -/
def SameExcept (i : Option Nat) (s s' : SpecState) : Prop :=
  s'.length = s.length ∧ ∀ j, i ≠ some j → OEqv s[j]? s'[j]?

/-- outputs of the region seeks of a sparse byte array whose holes read as zero: `D` is the
data map (at whatever granularity the implementation keeps it). -/
def SeekOk (b : ByteFile) (D : Nat → Prop) (off : Nat) (data : Bool) (r : Except Err Nat) : Prop :=
  (∀ k, ¬ D k → b.data k = 0) ∧
  (data = true →
    (∃ j, r = .ok j ∧ off ≤ j ∧ D j ∧ ∀ k, off ≤ k → k < j → ¬ D k) ∨ (r = .error .eof ∧ ∀ k, off ≤ k → ¬ D k)) ∧
  (data = false →
    ∃ j, r = .ok j ∧ off ≤ j ∧ j ≤ b.size ∧ (∀ k, off ≤ k → k < j → D k) ∧ (j < b.size → ¬ D j))

/-- One step of the byte-array specification, for the environment `o`: which output `out` and
which next state `s'` are allowed from `s`. -/
def SpecStep (s : SpecState) (op : Op) (o : Oracle) (out : Out) (s' : SpecState) : Prop :=
  match op with
  | .new hole size =>
    out = .created s.length ∧ s'.length = s.length + 1 ∧ (∀ j, j < s.length → OEqv s[j]? s'[j]?) ∧
      OEqv s'[s.length]? (some (some (create hole.read size)))
  | .read i off n =>
    SameExcept none s s' ∧
    match s[i]? with
    | some (some b) =>
      if off < 0 then out = .read [] (some .invalid)
      else ∃ bs err, out = .read bs err ∧ bs <+: (ByteFile.read b off.toNat n).1 ∧ err ≠ some .panic ∧
        (o.faults.dr = none → o.faults.hr = none →
          bs = (ByteFile.read b off.toNat n).1 ∧
            err = if (ByteFile.read b off.toNat n).2 then some .eof else none)
    | _ => out = .noFile
  | .write i off p =>
    match s[i]? with
    | some (some b) =>
      if off < 0 then out = .wrote 0 (some .invalid) ∧ SameExcept none s s'
      else ∃ n err, out = .wrote n err ∧ n ≤ p.length ∧ (err = none → n = p.length) ∧ err ≠ some .panic ∧
        SameExcept (some i) s s' ∧ OEqv s'[i]? (some (some (ByteFile.write b off.toNat (p.take n))))
    | _ => out = .noFile ∧ SameExcept none s s'
  | .trunc i size =>
    match s[i]? with
    | some (some b) =>
      if size < 0 then out = .done (some .invalid) ∧ SameExcept none s s'
      else ∃ err, out = .done err ∧ SameExcept (some i) s s' ∧
        (err = none → OEqv s'[i]? (some (some (ByteFile.truncate b size.toNat)))) ∧
        (err ≠ none → ∃ b', s'[i]? = some (some b') ∧ b'.size = b.size ∧
          (∀ k, k < size.toNat → b'.data k = b.data k) ∧ WF b')
    | _ => out = .noFile ∧ SameExcept none s s'
  | .seek i off data =>
    SameExcept none s s' ∧
    match s[i]? with
    | some (some b) =>
      if off < 0 then out = .offset (.error .invalid)
      else if b.size ≤ off.toNat then out = .offset (.error .eof)
      else ∃ r, out = .offset r ∧ (o.faults.hs = none → ∃ D, SeekOk b D off.toNat data r)
    | _ => out = .noFile
  | .len i =>
    SameExcept none s s' ∧
    match s[i]? with
    | some (some b) => out = .len b.size
    | _ => out = .noFile
  | .close i =>
    match s[i]? with
    | some (some _) => (∃ err, out = .done err) ∧ SameExcept (some i) s s' ∧ s'[i]? = some none
    | _ => out = .noFile ∧ SameExcept none s s'

/-- a step whose output was replaced by the harness-protocol marker "more allocator answers
supplied than consumed" is still a specification step (with the output it would have had). -/
def SpecStepL (s : SpecState) (op : Op) (o : Oracle) (out : Out) (s' : SpecState) : Prop :=
  SpecStep s op o out s' ∨ (out = .leftover ∧ ∃ out', SpecStep s op o out' s')

/-- a run of the specification producing the outputs `outs`. -/
inductive SpecRun : SpecState → List (Op × Oracle) → List Out → SpecState → Prop
  | nil (s : SpecState) : SpecRun s [] [] s
  | cons {s s1 s2 : SpecState} {op : Op} {o : Oracle} {out : Out} {rest : List (Op × Oracle)} {outs : List Out} :
      SpecStepL s op o out s1 → SpecRun s1 rest outs s2 → SpecRun s ((op, o) :: rest) (out :: outs) s2

/-- the outputs of the model along a history. -/
def outputs : State → List (Op × Oracle) → List Out
  | _, [] => []
  | st, (op, o) :: rest => (step st op o).2 :: outputs (step st op o).1 rest

/-! ## basic facts -/

theorem absFiles_get (st : State) (j : Nat) :
    (absFiles st)[j]? = (st.files[j]?).map fun f => if f.closed then none else some (absFile st.cfg.ss st.dev f) := by
  unfold absFiles; rw [List.getElem?_map]

theorem absFiles_length (st : State) : (absFiles st).length = st.files.length := by
  unfold absFiles; rw [List.length_map]

theorem absFiles_open {st : State} {i : Nat} {f : File} (hf : st.file? i = some f) :
    (absFiles st)[i]? = some (some (absFile st.cfg.ss st.dev f)) := by
  have := file?_some hf
  rw [absFiles_get, this.1]; simp [this.2]

theorem absFiles_notopen {st : State} {i : Nat} (hf : st.file? i = none) :
    (absFiles st)[i]? = none ∨ (absFiles st)[i]? = some none := by
  rw [absFiles_get]
  unfold State.file? at hf
  cases hg : st.files[i]? with
  | none => left; rfl
  | some g =>
    rw [hg] at hf
    dsimp only at hf
    split at hf
    · rename_i hc; right; simp [hc]
    · simp at hf

theorem finish_snd (e : Env) (st : State) (out : Out) : (finish e st out).2 = out ∨ (finish e st out).2 = .leftover := by
  unfold finish; split
  · left; rfl
  · right; rfl

theorem specStepL_of {s s' : SpecState} {op : Op} {o : Oracle} {out0 out : Out}
    (h : SpecStep s op o out0 s') (hout : out = out0 ∨ out = .leftover) : SpecStepL s op o out s' := by
  rcases hout with rfl | rfl
  · exact Or.inl h
  · exact Or.inr ⟨rfl, out0, h⟩

/-- entries of files other than the target are the same byte arrays after a step. -/
theorem absFiles_others {st : State} (h : Inv st) (op : Op) (o : Oracle) (j : Nat) (hj : opTarget op ≠ some j)
    (hjl : j < st.files.length) : OEqv (absFiles st)[j]? (absFiles (step st op o).1)[j]? := by
  obtain ⟨g, hg⟩ : ∃ g, st.files[j]? = some g := ⟨st.files[j], List.getElem?_eq_getElem hjl⟩
  obtain ⟨h1, h2⟩ := step_others h op o j g hj hg
  rw [absFiles_get, absFiles_get, hg, h1, step_cfg]
  dsimp only [Option.map_some]
  split
  · trivial
  · exact ⟨rfl, fun x => (h2 x).symm⟩

theorem step_length_ne_new (st : State) (op : Op) (o : Oracle) (hop : ∀ h s, op ≠ .new h s) :
    (step st op o).1.files.length = st.files.length := by
  unfold step
  cases op with
  | new hole size => exact absurd rfl (hop hole size)
  | read i off n => dsimp only; split <;> (try rw [finish_fst]) <;> rfl
  | write i off p => dsimp only; split <;> (try rw [finish_fst]) <;> simp
  | trunc i size => dsimp only; split <;> (try rw [finish_fst]) <;> simp
  | seek i off data => dsimp only; split <;> (try rw [finish_fst]) <;> rfl
  | len i => dsimp only; split <;> (try rw [finish_fst]) <;> rfl
  | close i => dsimp only; split <;> (try rw [finish_fst]) <;> simp

theorem sameExcept_target {st : State} (h : Inv st) (op : Op) (o : Oracle) (hop : ∀ h s, op ≠ .new h s) :
    SameExcept (opTarget op) (absFiles st) (absFiles (step st op o).1) := by
  refine ⟨by rw [absFiles_length, absFiles_length, step_length_ne_new st op o hop], fun j hj => ?_⟩
  by_cases hjl : j < st.files.length
  · exact absFiles_others h op o j hj hjl
  · have h1 : (absFiles st)[j]? = none := by
      rw [List.getElem?_eq_none]; rw [absFiles_length]; omega
    have h2 : (absFiles (step st op o).1)[j]? = none := by
      rw [List.getElem?_eq_none]; rw [absFiles_length, step_length_ne_new st op o hop]; omega
    rw [h1, h2]; trivial

/-- a step that changes neither the files nor the device leaves every byte array as it is. -/
theorem sameExcept_none_of_eq {st st' : State} (hf : st'.files = st.files) (hd : st'.dev = st.dev)
    (hc : st'.cfg = st.cfg) : SameExcept none (absFiles st) (absFiles st') := by
  have : absFiles st' = absFiles st := by unfold absFiles; rw [hf, hd, hc]
  rw [this]
  exact ⟨rfl, fun j _ => OEqv.refl _⟩

theorem not_dataAt_zero (c : Cfg) (dev : Array FilePool.Byte) (f : File) (k : Nat) (h : ¬ dataAt c f k) :
    content c.ss dev f k = 0 := by
  unfold dataAt at h
  have h1 : f.sectors.getD (k / c.ss) 0 = 0 := by
    rcases Nat.eq_zero_or_pos (f.sectors.getD (k / c.ss) 0) with h0 | h0
    · exact h0
    · exact absurd (Or.inl (by omega)) h
  rw [content_hole_of_zero _ _ _ _ h1]
  unfold Hole.read
  rw [if_neg]
  intro hd; exact h (Or.inr hd)

/-- effect of a failed `Truncate` (device failure while zeroing, or failing hole-source
`Truncate`): the size and everything below the requested size are unchanged. -/
theorem truncate_fail_effect {O : Nat → Prop} {c : Cfg} {f : File} {e : Env} (sz : Nat) (hss : 0 < c.ss)
    (hP : Part c.nsec O e.allocd (nz f.sectors))
    (hres : (truncate c f e (sz : Int)).2.2 ≠ none) :
    (truncate c f e (sz : Int)).1.size = f.size ∧
      ∀ i, i < sz → content c.ss (truncate c f e (sz : Int)).2.1.dev (truncate c f e (sz : Int)).1 i =
        content c.ss e.dev f i := by
  obtain ⟨m, hm, hmz, hcz, _, _⟩ := truncZr_content (O := O) (c := c) (f := f) (e := e) sz hss hP
  obtain ⟨e1, e2, e3⟩ := truncateSectors_env f (truncZr c f e sz).1 (truncK c sz)
  have hbelow : ∀ i, i < sz → content c.ss (truncZr c f e sz).1.dev f i = content c.ss e.dev f i := by
    intro i hi; rw [hcz i, if_neg (by omega)]
  cases hz : (truncZr c f e sz).2 with
  | some n => rw [truncate_some hz]; exact ⟨rfl, hbelow⟩
  | none =>
    by_cases hlt : sz < f.size
    · by_cases hht : (truncFe c f e sz).2.faults.ht = true
      · rw [truncate_shrink_fault hz hlt hht]
        dsimp only
        refine ⟨e3, fun i hi => ?_⟩
        have : (truncFe c f e sz).1 =
            { sectors := (truncateSectors f (truncZr c f e sz).1 (truncK c sz)).1.sectors, size := f.size,
              hole := f.hole, closed := (truncFe c f e sz).1.closed } := by
          rw [← e2, ← e3]
        rw [this, e1, trunc_keep_content]
        have a3 := (trunc_arith c.ss sz i hss).2.2.1 hi
        have hk : truncK ⟨c.ss, 0⟩ sz = truncK c sz := rfl
        rw [hk] at a3
        rw [if_pos a3]
        split
        · rename_i h0; rw [← hbelow i hi, content_hole_of_zero _ _ _ _ h0]
        · exact hbelow i hi
      · rw [truncate_shrink_ok hz hlt hht] at hres; simp at hres
    · rw [truncate_grow hz hlt] at hres; simp at hres

end BbRe.Lemmas.FilePool
