import BbRe.Lemmas.SchedLiveMono3
/-!
Worker invariants (C02 `no_lost_wakeup` for workers, C05 eligibility, C06
`every_sleeper_wakes`): a parked worker is inside `Synchronize`, holds no task,
is not terminating and matches no drain of its queue; a woken worker is inside
`Synchronize` and no longer parked; a worker waiting for an undrain holds no
task; a worker's `currentTask` points to an uncompleted task that points back.
-/
namespace BbRe.Lemmas.SchedLive
open BbRe.Sched

/-- identity of a worker -/
def wkey (x : Worker) : ScqId × WId := (x.scq, x.id)

/-- per-worker invariant, relative to the state (drains, tasks) -/
structure WOk (s : State) (wk : Worker) : Prop where
  parked : wk.parked = true → wk.inSync = true ∧ wk.woken = false ∧ wk.task = none ∧ wk.terminating = false ∧
      wk.drainWait = none ∧ ∀ sq, s.scq? wk.scq = some sq → ∀ p ∈ sq.drains, p.matches wk.id = false
  woken : wk.woken = true → wk.inSync = true ∧ wk.parked = false ∧ wk.drainWait = none
  dwait : wk.drainWait.isSome = true → wk.inSync = true ∧ wk.task = none
  ptr : ∀ tid, wk.task = some tid → tid < s.nextTask ∧
      ∀ t, s.task? tid = some t → t.worker = some (wk.scq, wk.id) ∧ t.response = none

structure WInv (s : State) : Prop where
  uniq : (s.workers.map wkey).Nodup
  ok : ∀ wk ∈ s.workers, WOk s wk

/-- what of the state a worker's invariant depends on may change like this; `X` = task keys that may
change arbitrarily (no worker may point to them) -/
structure WFrame (X : Nat → Prop) (s s' : State) : Prop where
  nt : s.nextTask ≤ s'.nextTask
  drains : ∀ q sq', s'.scq? q = some sq' → ∀ p ∈ sq'.drains, ∃ sq, s.scq? q = some sq ∧ p ∈ sq.drains
  tasks : ∀ tid t', tid < s.nextTask → ¬ X tid → s'.task? tid = some t' →
      ∃ t, s.task? tid = some t ∧ t'.worker = t.worker ∧ t'.response = t.response

def noX : Nat → Prop := fun _ => False

theorem WOk.frame {X : Nat → Prop} {s s' : State} {wk : Worker} (h : WOk s wk) (f : WFrame X s s')
    (hx : ∀ tid, wk.task = some tid → ¬ X tid) : WOk s' wk := by
  refine ⟨?_, h.woken, h.dwait, ?_⟩
  · intro hp
    obtain ⟨a, b, c, d, e, g⟩ := h.parked hp
    refine ⟨a, b, c, d, e, ?_⟩
    intro sq' hsq' p hpm
    obtain ⟨sq, e1, e2⟩ := f.drains _ _ hsq' p hpm
    exact g sq e1 p e2
  · intro tid ht
    obtain ⟨a, b⟩ := h.ptr tid ht
    refine ⟨Nat.lt_of_lt_of_le a f.nt, ?_⟩
    intro t' ht'
    obtain ⟨t, e1, e2, e3⟩ := f.tasks tid t' a (hx tid ht) ht'
    obtain ⟨c, d⟩ := b t e1
    exact ⟨e2 ▸ c, e3 ▸ d⟩

theorem WFrame.refl (X : Nat → Prop) (s : State) : WFrame X s s :=
  ⟨Nat.le_refl _, fun _ sq' h _ hp => ⟨sq', h, hp⟩, fun _ t' _ _ h => ⟨t', h, rfl, rfl⟩⟩

theorem WFrame.of_eq {X : Nat → Prop} {s s' : State} (h1 : s'.nextTask = s.nextTask) (h2 : s'.scqs = s.scqs)
    (h3 : s'.tasks = s.tasks) : WFrame X s s' := by
  refine ⟨by omega, ?_, ?_⟩
  · intro q sq' h p hp; simp only [State.scq?, h2] at h; exact ⟨sq', h, hp⟩
  · intro tid t' _ _ h; simp only [State.task?, h3] at h; exact ⟨t', h, rfl, rfl⟩

/-- the task under key `k0` rewritten arbitrarily (exempt key) -/
theorem WFrame.of_aset {s s' : State} {k0 : Nat} (h1 : s'.nextTask = s.nextTask) (h2 : s'.scqs = s.scqs)
    (h3 : ∀ k, k ≠ k0 → s'.task? k = s.task? k) : WFrame (· = k0) s s' := by
  refine ⟨by omega, ?_, ?_⟩
  · intro q sq' h p hp; simp only [State.scq?, h2] at h; exact ⟨sq', h, hp⟩
  · intro tid t' _ hx h
    rw [h3 tid hx] at h
    exact ⟨t', h, rfl, rfl⟩

/-- one task rewritten keeping its worker and response -/
theorem WFrame.of_aset_same {s s' : State} {k0 : Nat} {t0 t2 : Task} (h0 : s.task? k0 = some t0)
    (hw : t2.worker = t0.worker) (hr : t2.response = t0.response)
    (h1 : s'.nextTask = s.nextTask) (h2 : s'.scqs = s.scqs)
    (h3 : s'.tasks = aset k0 t2 s.tasks) : WFrame noX s s' := by
  refine ⟨by omega, ?_, ?_⟩
  · intro q sq' h p hp; simp only [State.scq?, h2] at h; exact ⟨sq', h, hp⟩
  · intro tid t' _ _ h
    simp only [State.task?, h3, alookup_aset] at h
    split at h
    · rename_i e; subst e; injection h with h; subst h; exact ⟨t0, h0, hw, hr⟩
    · exact ⟨t', h, rfl, rfl⟩

/-- no worker points to any exempt key -/
def NoPtr (X : Nat → Prop) (s : State) : Prop := ∀ wk ∈ s.workers, ∀ tid, wk.task = some tid → ¬ X tid

theorem NoPtr.noX (s : State) : NoPtr noX s := fun _ _ _ _ h => h

/-- workers untouched, the rest framed -/
theorem WInv.of_frame {X : Nat → Prop} {s s' : State} (h : WInv s) (hw : s'.workers = s.workers)
    (f : WFrame X s s') (hx : NoPtr X s) : WInv s' :=
  ⟨hw ▸ h.uniq, fun wk hm => (h.ok wk (hw ▸ hm)).frame f (hx wk (hw ▸ hm))⟩

/-! ### list facts about keyed workers -/

theorem eq_of_wkey {l : List Worker} (hn : (l.map wkey).Nodup) {x y : Worker} (hx : x ∈ l) (hy : y ∈ l)
    (h : wkey x = wkey y) : x = y := by
  induction l with
  | nil => cases hx
  | cons a r ih =>
    simp only [List.map_cons, List.nodup_cons] at hn
    rcases List.mem_cons.1 hx with hx1 | hx1
    · rcases List.mem_cons.1 hy with hy1 | hy1
      · rw [hx1, hy1]
      · subst hx1; exact absurd (List.mem_map.2 ⟨y, hy1, h.symm⟩) hn.1
    · rcases List.mem_cons.1 hy with hy1 | hy1
      · subst hy1; exact absurd (List.mem_map.2 ⟨x, hx1, h⟩) hn.1
      · exact ih hn.2 hx1 hy1

theorem worker?_mem {s : State} {q : ScqId} {w : WId} {wk : Worker} (h : s.worker? q w = some wk) :
    wk ∈ s.workers ∧ wk.scq = q ∧ wk.id = w := by
  unfold State.worker? at h
  refine ⟨List.mem_of_find?_eq_some h, ?_⟩
  have := List.find?_some h
  simpa using this

theorem worker?_of_mem {s : State} (hn : (s.workers.map wkey).Nodup) {wk : Worker} (h : wk ∈ s.workers) :
    s.worker? wk.scq wk.id = some wk := by
  unfold State.worker?
  cases hf : s.workers.find? (fun x => x.scq = wk.scq ∧ x.id = wk.id) with
  | none =>
    rw [List.find?_eq_none] at hf
    exact absurd (by simp) (hf wk h)
  | some x =>
    have hx := List.mem_of_find?_eq_some hf
    have hk := List.find?_some hf
    simp only [decide_eq_true_eq] at hk
    have : x = wk := eq_of_wkey hn hx h (by simp [wkey, hk.1, hk.2])
    rw [this]

theorem setWorker_workers (s : State) (w : Worker) :
    (s.setWorker w).workers = s.workers.map (fun x => if wkey x = wkey w then w else x) := by
  unfold State.setWorker
  simp only [wkey, Prod.mk.injEq]

theorem map_wkey_setWorker (s : State) (w : Worker) : (s.setWorker w).workers.map wkey = s.workers.map wkey := by
  rw [setWorker_workers, List.map_map]
  apply List.map_congr_left
  intro x _; simp only [Function.comp]; split
  · rename_i h; exact h.symm
  · rfl

/-- members of the worker list after `setWorker` -/
theorem mem_setWorker {s : State} {w x : Worker} (h : x ∈ (s.setWorker w).workers) :
    x = w ∨ (x ∈ s.workers ∧ wkey x ≠ wkey w) := by
  rw [setWorker_workers, List.mem_map] at h
  obtain ⟨y, hy, e⟩ := h
  split at e
  · exact .inl e.symm
  · subst e; exact .inr ⟨hy, by assumption⟩

/-- replacing a worker by a record that satisfies the invariant in the new state -/
theorem WInv.setWorker {X : Nat → Prop} {s s' : State} {w : Worker} (h : WInv s)
    (hw : s'.workers = (s.setWorker w).workers) (f : WFrame X s s') (hx : NoPtr X s) (hok : WOk s' w) : WInv s' := by
  refine ⟨by rw [hw, map_wkey_setWorker]; exact h.uniq, ?_⟩
  intro x hm
  rw [hw] at hm
  rcases mem_setWorker hm with rfl | ⟨hm, _⟩
  · exact hok
  · exact (h.ok x hm).frame f (hx x hm)

theorem WInv.filter {X : Nat → Prop} {s s' : State} (h : WInv s) (p : Worker → Bool)
    (hw : s'.workers = s.workers.filter p) (f : WFrame X s s') (hx : NoPtr X s) : WInv s' := by
  refine ⟨by rw [hw]; exact List.Nodup.sublist (List.Sublist.map _ List.filter_sublist) h.uniq, ?_⟩
  intro x hm; rw [hw] at hm
  exact (h.ok x (List.mem_filter.1 hm).1).frame f (hx x (List.mem_filter.1 hm).1)

end BbRe.Lemmas.SchedLive
