import BbRe.Lemmas.SchedLiveFrame
/-!
Inversion lemmas for the RPC segments of `Model/Sched.lean`: client streams,
`Execute` / `WaitExecution`, the `Synchronize` family and the operator calls.
-/
namespace BbRe.Lemmas.SchedLive
open BbRe.Sched

/-! ### client streams -/

theorem streamSend_ok {s s' : State} {c o : Nat} (hh : streamSend s c o = .ok s') :
    ∃ op t, s.op? o = some op ∧ s.task? op.task = some t ∧
      ((∃ r, t.response = some r ∧ op.waiters ≠ 0 ∧ s' = sendDone s c o op t r) ∨
       (t.response = none ∧ s' = sendPark s c o t)) := by
  unfold streamSend at hh
  paths hh
  · injection hh with hh
    exact ⟨_, _, by assumption, by assumption, .inl ⟨_, by assumption, by assumption, hh.symm⟩⟩
  · injection hh with hh
    exact ⟨_, _, by assumption, by assumption, .inr ⟨by assumption, hh.symm⟩⟩

theorem streamAttach_ok {s s' : State} {c o : Nat} (hh : streamAttach s c o = .ok s') :
    ∃ op, s.op? o = some op ∧ streamSend (attachS s o op) c o = .ok s' := by
  unfold streamAttach at hh
  paths hh
  exact ⟨_, by assumption, hh⟩

theorem streamLeave_ok {s s' : State} {c code : Nat} (hh : streamLeave s c code = .ok s') :
    ∃ st op, s.streams.find? (fun x => x.client = c) = some st ∧ s.op? st.op = some op ∧
      op.waiters ≠ 0 ∧ s' = leaveS s c st op code := by
  unfold streamLeave at hh
  paths hh
  injection hh with hh
  exact ⟨_, _, by assumption, by assumption, by assumption, hh.symm⟩

theorem streamWake_ok {h : Hints} {s s' : State} {now c reason : Nat} (hh : streamWake h s now c reason = .ok s') :
    ∃ s1 st, enter h s now = .ok s1 ∧ s1.streams.find? (fun x => x.client = c) = some st ∧
      ((reason = 2 ∧ streamLeave s1 c cCanceled = .ok s') ∨
       (reason ≠ 2 ∧ (reason = 0 → ∃ op t, s1.op? st.op = some op ∧ s1.task? op.task = some t ∧ t.gen ≠ st.snap) ∧
          streamSend s1 c st.op = .ok s')) := by
  unfold streamWake at hh
  simp only [bind_ok] at hh
  obtain ⟨s1, h1, h2⟩ := hh
  paths h2
  · exact ⟨s1, _, h1, by assumption, .inl ⟨by assumption, h2⟩⟩
  · exact ⟨s1, _, h1, by assumption, .inr ⟨by assumption, fun _ => ⟨_, _, by assumption, by assumption, by assumption⟩, h2⟩⟩
  · exact ⟨s1, _, h1, by assumption, .inr ⟨by assumption, fun h0 => absurd h0 (by assumption), h2⟩⟩

/-! ### `Execute` / `WaitExecution` -/

theorem execArrive_ok {h : Hints} {s s' : State} {now c digest dkey : Nat} {dnc : Bool} {comps : List Nat}
    {platform : Nat} {inv : List Nat} {prio : Int}
    (hh : execArrive h s now c digest dkey dnc comps platform inv prio = .ok s') :
    ∃ s1, enter h s now = .ok s1 ∧
      ((∃ tid t, alookup dkey s1.dedup = some tid ∧ s1.task? tid = some t ∧
          ((∃ o, o ∈ t.ops ∧ streamAttach (emit s1 .selAbandoned) c o = .ok s') ∨
           (t.response.isSome = false ∧
              streamAttach (addOpS (emit s1 .selAbandoned) tid t inv prio) c s1.nextOp = .ok s'))) ∨
       (alookup dkey s1.dedup = none ∧ route s1 comps platform = none ∧
          s' = emit (emit s1 .selAbandoned)
                (.ret c (if s1.now < s1.cfg.hardFailTime then cUnavailable else cFailedPrecondition))) ∨
       (alookup dkey s1.dedup = none ∧ ∃ pq sc s3, route s1 comps platform = some pq ∧
          (s1.sizes pq.id)[min h.sel ((s1.sizes pq.id).length - 1)]? = some sc ∧
          schedule h (newTaskS s1 digest dkey dnc ⟨pq.id, sc⟩ inv prio) s1.nextTask = .ok s3 ∧
          streamAttach s3 c s1.nextOp = .ok s')) := by
  unfold execArrive at hh
  simp only [bind_ok] at hh
  obtain ⟨s1, h1, h2⟩ := hh
  refine ⟨s1, h1, ?_⟩
  split at h2
  · rename_i tid hd
    refine .inl ?_
    paths h2
    · exact ⟨tid, _, hd, by assumption, .inl ⟨_, List.mem_of_find?_eq_some (by assumption), h2⟩⟩
    · exact ⟨tid, _, hd, by assumption, .inr ⟨by simp_all, h2⟩⟩
  · rename_i hd
    split at h2
    · rename_i hr
      rw [pure_ok] at h2
      exact .inr (.inl ⟨hd, hr, h2.symm⟩)
    · rename_i pq hr
      refine .inr (.inr ⟨hd, pq, ?_⟩)
      simp only [bind, Except.bind] at h2
      split at h2
      · split at h2
        · simp at h2
        · rename_i s3 hs
          refine ⟨_, s3, hr, by assumption, ?_, h2⟩
          unfold newTaskS
          cases dnc <;> exact hs
      · simp at h2

theorem waitArrive_ok {h : Hints} {s s' : State} {now c name : Nat} (hh : waitArrive h s now c name = .ok s') :
    ∃ s1, enter h s now = .ok s1 ∧
      ((s1.op? name = none ∧ s' = emit s1 (.ret c cNotFound)) ∨
       (∃ op, s1.op? name = some op ∧ streamAttach s1 c name = .ok s')) := by
  unfold waitArrive at hh
  simp only [bind_ok] at hh
  obtain ⟨s1, h1, h2⟩ := hh
  refine ⟨s1, h1, ?_⟩
  split at h2
  · rw [pure_ok] at h2; exact .inl ⟨by assumption, h2.symm⟩
  · exact .inr ⟨_, by assumption, h2⟩

/-! ### the `Synchronize` family -/

theorem assignNext_ok {h : Hints} {s s1 : State} {w : Worker} {got : Bool}
    (hh : assignNext h s w = .ok (s1, got)) :
    (got = false ∧ s1 = s ∧ (queuedTasks s w.scq).isEmpty = true) ∨
    (got = true ∧ ∃ t t', t ∈ queuedTasks s w.scq ∧ w.task = none ∧ t.worker = none ∧
        (assignS s w t).task? t.id = some t' ∧ s1 = (assignS s w t).setTask (bumpGen t')) := by
  unfold assignNext at hh
  simp only [bind, Except.bind, pure, Except.pure] at hh
  split at hh
  · split at hh
    · rename_i t ht
      split at hh
      · simp at hh
      · rename_i s2 hs2
        rw [assignTo_ok] at hs2
        obtain ⟨hw, htw, rfl⟩ := hs2
        split at hh
        · injection hh with hh; injection hh with h1 h2
          exact .inr ⟨h2.symm, t, _, List.mem_of_find?_eq_some ht, hw, htw, by assumption, h1.symm⟩
        · simp at hh
    · simp at hh
  · split at hh
    · injection hh with hh; injection hh with h1 h2
      exact .inl ⟨h2.symm, h1.symm, by assumption⟩
    · simp at hh

theorem execResponse_ok {s s' : State} {w : Worker} (hh : execResponse s w = .ok s') :
    ∃ tid t, w.task = some tid ∧ s.task? tid = some t ∧
      s' = emit s (.syncExecute w.scq w.id t.digest (s.now + s.cfg.busyInterval)) := by
  unfold execResponse at hh
  paths hh
  injection hh with hh
  exact ⟨_, _, by assumption, by assumption, hh.symm⟩

theorem getNextTask_ok {h : Hints} {s s' : State} {q : ScqId} {w : WId} {pi block : Bool}
    (hh : getNextTask h s q w pi block = .ok s') :
    ∃ wk sq, s.worker? q w = some wk ∧ s.scq? q = some sq ∧
      ((pi = true ∧ s' = syncReturn (emit s (.syncIdle q w s.now)) q w) ∨
       (pi = false ∧ isDrained sq wk = false ∧ ∃ s1 got, assignNext h s wk = .ok (s1, got) ∧
          ((got = true ∧ ∃ wk1 s2, s1.worker? q w = some wk1 ∧ execResponse s1 wk1 = .ok s2 ∧ s' = syncReturn s2 q w) ∨
           (got = false ∧ block = false ∧ s' = syncReturn (emit s1 (.syncIdle q w s1.now)) q w) ∨
           (got = false ∧ block = true ∧ ∃ wk1, s1.worker? q w = some wk1 ∧ wk1.parked = false ∧ s' = parkS s1 wk1))) ∨
       (pi = false ∧ isDrained sq wk = true ∧
          ((block = false ∧ s' = syncReturn (emit s (.syncIdle q w s.now)) q w) ∨
           (block = true ∧ s' = drainWaitS s wk sq)))) := by
  unfold getNextTask at hh
  simp only [bind, Except.bind, pure, Except.pure] at hh
  split at hh
  · rename_i wk hwk
    split at hh
    · rename_i sq hsq
      refine ⟨wk, sq, hwk, hsq, ?_⟩
      split at hh
      · injection hh with hh; exact .inl ⟨by assumption, hh.symm⟩
      · have hpi : pi = false := by simpa using ‹¬ pi = true›
        split at hh
        · refine .inr (.inl ⟨hpi, by simpa using ‹(!isDrained sq wk) = true›, ?_⟩)
          split at hh
          · simp at hh
          · rename_i p hp
            obtain ⟨s1, got⟩ := p
            refine ⟨s1, got, hp, ?_⟩
            simp only at hh
            split at hh
            · split at hh
              · split at hh
                · simp at hh
                · injection hh with hh
                  exact .inl ⟨by assumption, _, _, by assumption, by assumption, hh.symm⟩
              · simp at hh
            · have hg : got = false := by simpa using ‹¬ got = true›
              split at hh
              · injection hh with hh
                exact .inr (.inl ⟨hg, by simpa using ‹(!block) = true›, hh.symm⟩)
              · split at hh
                · split at hh
                  · simp at hh
                  · injection hh with hh
                    exact .inr (.inr ⟨hg, by simpa using ‹¬ (!block) = true›, _, by assumption, by simpa using ‹¬ _ = true›, hh.symm⟩)
                · simp at hh
        · refine .inr (.inr ⟨hpi, by simpa using ‹¬ (!isDrained sq wk) = true›, ?_⟩)
          split at hh
          · injection hh with hh; exact .inl ⟨by simpa using ‹(!block) = true›, hh.symm⟩
          · injection hh with hh; exact .inr ⟨by simpa using ‹¬ (!block) = true›, hh.symm⟩
    · simp at hh
  · simp at hh

theorem getCurrentOrNext_ok {h : Hints} {s s' : State} {q : ScqId} {w : WId} {pi block : Bool}
    (hh : getCurrentOrNext h s q w pi block = .ok s') :
    ∃ wk, s.worker? q w = some wk ∧
      ((wk.task = none ∧ getNextTask h s q w pi block = .ok s') ∨
       (∃ tid t, wk.task = some tid ∧ s.task? tid = some t ∧
          ((t.retry < s.cfg.retryCount ∧
              s' = syncReturn (emit (s.setTask { t with retry := t.retry + 1 })
                      (.syncExecute q w t.digest (s.now + s.cfg.busyInterval))) q w) ∨
           (¬ t.retry < s.cfg.retryCount ∧ ∃ s1, complete h s tid ⟨cInternal, 0, 0, .retryLimit⟩ false = .ok s1 ∧
              getNextTask h s1 q w pi block = .ok s')))) := by
  unfold getCurrentOrNext at hh
  simp only [bind, Except.bind, pure, Except.pure] at hh
  split at hh
  · rename_i wk hwk
    refine ⟨wk, hwk, ?_⟩
    split at hh
    · rename_i tid htid
      split at hh
      · rename_i t ht
        refine .inr ⟨tid, t, htid, ht, ?_⟩
        split at hh
        · injection hh with hh; exact .inl ⟨by assumption, hh.symm⟩
        · split at hh
          · simp at hh
          · exact .inr ⟨by assumption, _, by assumption, hh⟩
      · simp at hh
    · exact .inl ⟨by assumption, hh⟩
  · simp at hh

theorem syncQueue_ok {s : State} {q : ScqId} {comps : List Nat} {pf : Nat} {w : WId} {x : State ⊕ State}
    (hh : syncQueue s q comps pf w = .ok x) :
    ((∃ sq, s.scq? q = some sq) ∧ x = .inr (s.removeCleanup (.scq q))) ∨
    (s.scq? q = none ∧ x = .inl (emit s (.syncErr q w cInvalidArgument))) ∨
    (s.scq? q = none ∧ (∃ pq, s.pq? q.pq = some pq) ∧ x = .inr (addScq s q)) ∨
    (s.scq? q = none ∧ s.pq? q.pq = none ∧ x = .inr (addPqScq s q comps pf)) := by
  unfold syncQueue at hh
  split at hh
  · rw [pure_ok] at hh; exact .inl ⟨⟨_, by assumption⟩, hh.symm⟩
  · rename_i hn
    split at hh
    · rename_i pq hpq
      simp only at hh
      split at hh
      · simp at hh
      · split at hh
        · simp at hh
        · split at hh
          · rw [pure_ok] at hh; exact .inr (.inl ⟨hn, hh.symm⟩)
          · split at hh
            · rw [pure_ok] at hh; exact .inr (.inl ⟨hn, hh.symm⟩)
            · split at hh
              · rw [pure_ok] at hh; exact .inr (.inl ⟨hn, hh.symm⟩)
              · rw [pure_ok] at hh; exact .inr (.inr (.inl ⟨hn, ⟨_, hpq⟩, hh.symm⟩))
    · rw [pure_ok] at hh; exact .inr (.inr (.inr ⟨hn, by assumption, hh.symm⟩))

theorem syncWorker_cases (s : State) (q : ScqId) (w : WId) :
    (∃ wk, s.worker? q w = some wk ∧ wk.inSync = true ∧ syncWorker s q w = .inl (emit s (.syncErr q w cResourceExhausted))) ∨
    (∃ wk, s.worker? q w = some wk ∧ wk.inSync = false ∧
        syncWorker s q w = .inr ((s.removeCleanup (.worker q w)).setWorker { wk with inSync := true })) ∨
    (s.worker? q w = none ∧ syncWorker s q w = .inr (addWorker s q w)) := by
  unfold syncWorker
  cases hw : s.worker? q w with
  | none => exact .inr (.inr ⟨rfl, rfl⟩)
  | some wk =>
    cases hi : wk.inSync with
    | true => exact .inl ⟨wk, rfl, hi, by simp [hi]⟩
    | false => exact .inr (.inl ⟨wk, rfl, hi, by simp [hi]⟩)

/-- the reported digest matches the task the scheduler believes the worker is running -/
def RunningCorrect (s : State) (wk : Worker) (d : Nat) : Prop :=
  ∃ tid t, wk.task = some tid ∧ s.task? tid = some t ∧ t.digest = d

theorem syncArrive_ok {h : Hints} {s s' : State} {now : Nat} {q : ScqId} {comps : List Nat} {pf : Nat}
    {w : WId} {rep : Report} {pi : Bool} (hh : syncArrive h s now q comps pf w rep pi = .ok s') :
    ∃ s1 x, enter h s now = .ok s1 ∧ syncQueue s1 q comps pf w = .ok x ∧
      ((x = .inl s') ∨
       ∃ s2, x = .inr s2 ∧
        ((syncWorker s2 q w = .inl s') ∨
         ∃ s3 wk, syncWorker s2 q w = .inr s3 ∧ s3.worker? q w = some wk ∧
          ((rep = .malformed ∧ s' = syncReturn (emit s3 (.syncErr q w cInvalidArgument)) q w) ∨
           (rep = .idle ∧ getCurrentOrNext h s3 q w pi true = .ok s') ∨
           (∃ d, rep = .executing d ∧ RunningCorrect s3 wk d ∧
              s' = syncReturn (emit s3 (.syncNoChange q w (s3.now + s3.cfg.busyInterval))) q w) ∨
           (∃ d, rep = .executing d ∧ ¬ RunningCorrect s3 wk d ∧ getCurrentOrNext h s3 q w pi false = .ok s') ∨
           (∃ d r tid s4, rep = .completed d r ∧ RunningCorrect s3 wk d ∧ wk.task = some tid ∧
              complete h s3 tid r true = .ok s4 ∧ getNextTask h s4 q w pi true = .ok s') ∨
           (∃ d r, rep = .completed d r ∧ ¬ RunningCorrect s3 wk d ∧ getCurrentOrNext h s3 q w pi true = .ok s')))) := by
  unfold syncArrive at hh
  simp only [bind_ok] at hh
  obtain ⟨s1, h1, x, h2, h3⟩ := hh
  refine ⟨s1, x, h1, h2, ?_⟩
  cases x with
  | inl s2 => simp only [pure_ok] at h3; exact .inl (by rw [h3])
  | inr s2 =>
    refine .inr ⟨s2, rfl, ?_⟩
    simp only at h3
    cases hsw : syncWorker s2 q w with
    | inl s3 => simp only [hsw, pure_ok] at h3; exact .inl (by rw [h3])
    | inr s3 =>
      simp only [hsw] at h3
      refine .inr ?_
      simp only [bind, Except.bind, pure, Except.pure] at h3
      split at h3
      · rename_i wk hwk
        refine ⟨s3, wk, rfl, hwk, ?_⟩
        cases rep with
        | malformed => simp only at h3; injection h3 with h3; exact .inl ⟨rfl, h3.symm⟩
        | idle => exact .inr (.inl ⟨rfl, h3⟩)
        | executing d =>
          simp only at h3
          cases hwt : wk.task with
          | none =>
            simp only [hwt, Bool.false_eq_true, if_false] at h3
            exact .inr (.inr (.inr (.inl ⟨d, rfl, by rintro ⟨tid, t, e1, _⟩; simp [hwt] at e1, h3⟩)))
          | some tid =>
            cases hst : s3.task? tid with
            | none =>
              simp only [hwt, hst, Bool.false_eq_true, if_false] at h3
              exact .inr (.inr (.inr (.inl ⟨d, rfl, by rintro ⟨tid', t, e1, e2, _⟩; simp_all, h3⟩)))
            | some t =>
              by_cases hd : t.digest = d
              · simp only [hwt, hst, hd, decide_true, if_true] at h3
                injection h3 with h3
                exact .inr (.inr (.inl ⟨d, rfl, ⟨tid, t, hwt, hst, hd⟩, h3.symm⟩))
              · simp only [hwt, hst, hd, decide_false, Bool.false_eq_true, if_false] at h3
                exact .inr (.inr (.inr (.inl ⟨d, rfl, by rintro ⟨tid', t', e1, e2, e3⟩; simp_all, h3⟩)))
        | completed d r =>
          simp only at h3
          cases hwt : wk.task with
          | none =>
            simp only [hwt, Bool.false_eq_true, if_false] at h3
            exact .inr (.inr (.inr (.inr (.inr ⟨d, r, rfl, by rintro ⟨tid, t, e1, _⟩; simp [hwt] at e1, h3⟩))))
          | some tid =>
            cases hst : s3.task? tid with
            | none =>
              simp only [hwt, hst, Bool.false_eq_true, if_false] at h3
              exact .inr (.inr (.inr (.inr (.inr ⟨d, r, rfl, by rintro ⟨tid', t, e1, e2, _⟩; simp_all, h3⟩))))
            | some t =>
              by_cases hd : t.digest = d
              · simp only [hwt, hst, hd, decide_true, if_true] at h3
                cases hc : complete h s3 tid r true with
                | error e => simp [hc] at h3
                | ok s4 =>
                  simp only [hc] at h3
                  exact .inr (.inr (.inr (.inr (.inl ⟨d, r, tid, s4, rfl, ⟨tid, t, hwt, hst, hd⟩, rfl, hc, h3⟩))))
              · simp only [hwt, hst, hd, decide_false, Bool.false_eq_true, if_false] at h3
                exact .inr (.inr (.inr (.inr (.inr ⟨d, r, rfl, by rintro ⟨tid', t', e1, e2, e3⟩; simp_all, h3⟩))))
      · simp at h3

theorem syncWake_ok {h : Hints} {s s' : State} {now : Nat} {q : ScqId} {w : WId} {reason : Nat}
    (hh : syncWake h s now q w reason = .ok s') :
    ∃ s1 wk, enter h s now = .ok s1 ∧ s1.worker? q w = some wk ∧ wk.inSync = true ∧
      ((reason = 1 ∧
          ((∃ s3, wk.task.isSome = true ∧
              execResponse (s1.setWorker { wk with parked := false, woken := false, drainWait := none }) wk = .ok s3 ∧
              s' = syncReturn s3 q w) ∨
           (wk.task.isSome = false ∧
              s' = syncReturn (emit (s1.setWorker { wk with parked := false, woken := false, drainWait := none })
                      (.syncIdle q w s1.now)) q w))) ∨
       (reason = 2 ∧
          s' = syncReturn (emit (s1.setWorker { wk with parked := false, woken := false, drainWait := none })
                  (.syncErr q w cCanceled)) q w) ∨
       (reason = 0 ∧ wk.woken = true ∧
          ((∃ s3, wk.task.isSome = true ∧ execResponse (s1.setWorker { wk with woken := false }) wk = .ok s3 ∧
              s' = syncReturn s3 q w) ∨
           (wk.task.isSome = false ∧ getNextTask h (s1.setWorker { wk with woken := false }) q w false true = .ok s'))) ∨
       (reason = 3 ∧ ∃ sq g, s1.scq? q = some sq ∧ wk.drainWait = some g ∧ g ≠ sq.undrainGen ∧
          getNextTask h (s1.setWorker { wk with drainWait := none }) q w false true = .ok s')) := by
  unfold syncWake at hh
  simp only [bind_ok] at hh
  obtain ⟨s1, h1, h2⟩ := hh
  simp only [bind, Except.bind, pure, Except.pure] at h2
  split at h2
  · rename_i wk hwk
    split at h2
    · simp at h2
    · have hin : wk.inSync = true := by simpa using ‹¬ (!wk.inSync) = true›
      refine ⟨s1, wk, h1, hwk, hin, ?_⟩
      split at h2
      · -- timeout
        refine .inl ⟨rfl, ?_⟩
        split at h2
        · split at h2
          · simp at h2
          · injection h2 with h2
            exact .inl ⟨_, by assumption, by assumption, h2.symm⟩
        · injection h2 with h2
          exact .inr ⟨by simpa using ‹¬ wk.task.isSome = true›, h2.symm⟩
      · injection h2 with h2
        exact .inr (.inl ⟨rfl, h2.symm⟩)
      · refine .inr (.inr (.inl ⟨rfl, ?_⟩))
        split at h2
        · simp at h2
        · refine ⟨by simpa using ‹¬ (!wk.woken) = true›, ?_⟩
          split at h2
          · split at h2
            · simp at h2
            · injection h2 with h2
              exact .inl ⟨_, by assumption, by assumption, h2.symm⟩
          · exact .inr ⟨by simpa using ‹¬ wk.task.isSome = true›, h2⟩
      · refine .inr (.inr (.inr ⟨rfl, ?_⟩))
        split at h2
        · rename_i sq hsq
          split at h2
          · rename_i g hg
            split at h2
            · simp at h2
            · exact ⟨sq, g, hsq, hg, by assumption, h2⟩
          · simp at h2
        · simp at h2
      · simp at h2
  · simp at h2

/-! ### operator calls -/

theorem killOp_ok {h : Hints} {s s' : State} {now name code : Nat} (hh : killOp h s now name code = .ok s') :
    ∃ s1, enter h s now = .ok s1 ∧
      ((s1.op? name = none ∧ s' = emit s1 (.opErr cNotFound)) ∨
       (∃ op s2, s1.op? name = some op ∧ complete h s1 op.task ⟨code, 0, 0, .killed⟩ false = .ok s2 ∧
          s' = emit s2 .opOk)) := by
  unfold killOp at hh
  simp only [bind_ok] at hh
  obtain ⟨s1, h1, h2⟩ := hh
  refine ⟨s1, h1, ?_⟩
  split at h2
  · rw [pure_ok] at h2; exact .inl ⟨by assumption, h2.symm⟩
  · simp only [bind_ok, pure_ok] at h2
    obtain ⟨s2, h3, h4⟩ := h2
    exact .inr ⟨_, s2, by assumption, h3, h4.symm⟩

theorem killQueue_ok {h : Hints} {s s' : State} {now : Nat} {q : ScqId} {code : Nat}
    (hh : killQueue h s now q code = .ok s') :
    ∃ s1, enter h s now = .ok s1 ∧
      ((∃ ev, isClientEv ev = false ∧ s' = emit s1 ev) ∨
       (∃ s2, cancelAllQueued h s1 q ⟨code, 0, 0, .killed⟩ = .ok s2 ∧ s' = emit s2 .opOk)) := by
  unfold killQueue at hh
  simp only [bind_ok] at hh
  obtain ⟨s1, h1, h2⟩ := hh
  refine ⟨s1, h1, ?_⟩
  split at h2
  · rw [pure_ok] at h2; exact .inl ⟨_, rfl, h2.symm⟩
  · simp only [bind, Except.bind, pure, Except.pure] at h2
    split at h2
    · injection h2 with h2; exact .inl ⟨_, rfl, h2.symm⟩
    · split at h2
      · simp at h2
      · injection h2 with h2; exact .inr ⟨_, by assumption, h2.symm⟩

/-- one iteration of the wake-up loop of `AddDrain` -/
def drainWake (q : ScqId) (p : Pattern) (s : State) (w : Worker) : State :=
  if w.scq = q ∧ w.parked ∧ p.matches w.id then wakeWorker s w else s

theorem addDrain_ok {h : Hints} {s s' : State} {now : Nat} {q : ScqId} {p : Pattern}
    (hh : addDrain h s now q p = .ok s') :
    ∃ s1, enter h s now = .ok s1 ∧
      ((s1.scq? q = none ∧ s' = emit s1 (.opErr cNotFound)) ∨
       (∃ sq, s1.scq? q = some sq ∧
          s' = emit (s1.workers.foldl (drainWake q p)
                  (s1.setScq { sq with drains := if sq.drains.contains p then sq.drains else sq.drains ++ [p] })) .opOk)) := by
  unfold addDrain at hh
  simp only [bind_ok] at hh
  obtain ⟨s1, h1, h2⟩ := hh
  refine ⟨s1, h1, ?_⟩
  split at h2
  · rw [pure_ok] at h2; exact .inl ⟨by assumption, h2.symm⟩
  · rw [pure_ok] at h2; exact .inr ⟨_, by assumption, h2.symm⟩

theorem removeDrain_ok {h : Hints} {s s' : State} {now : Nat} {q : ScqId} {p : Pattern}
    (hh : removeDrain h s now q p = .ok s') :
    ∃ s1, enter h s now = .ok s1 ∧
      ((s1.scq? q = none ∧ s' = emit s1 (.opErr cNotFound)) ∨
       (∃ sq, s1.scq? q = some sq ∧
          s' = emit (s1.setScq { sq with drains := sq.drains.filter (· ≠ p), undrainGen := sq.undrainGen + 1 }) .opOk)) := by
  unfold removeDrain at hh
  simp only [bind_ok] at hh
  obtain ⟨s1, h1, h2⟩ := hh
  refine ⟨s1, h1, ?_⟩
  split at h2
  · rw [pure_ok] at h2; exact .inl ⟨by assumption, h2.symm⟩
  · rw [pure_ok] at h2; exact .inr ⟨_, by assumption, h2.symm⟩

/-- one iteration of the marking loop of `TerminateWorkers` -/
def termMark (s : State) (w : Worker) : State :=
  match s.worker? w.scq w.id with
  | some w =>
    if w.task.isNone ∧ w.parked then
      match (s.setWorker { w with terminating := true }).worker? w.scq w.id with
      | some w' => wakeWorker (s.setWorker { w with terminating := true }) w'
      | none => s.setWorker { w with terminating := true }
    else s.setWorker { w with terminating := true }
  | none => s

/-- the `(task, generation)` pairs captured by `TerminateWorkers` -/
def termWaits (s : State) (ws : List Worker) : List (Nat × Nat) :=
  ws.filterMap (fun w => match w.task with
    | some t => match s.task? t with | some tk => some (t, tk.gen) | none => none
    | none => none)

theorem terminate_ok {h : Hints} {s s' : State} {now id : Nat} {p : Pattern}
    (hh : terminate h s now id p = .ok s') :
    ∃ s1, enter h s now = .ok s1 ∧
      let ms := s1.workers.filter (fun w => p.matches w.id)
      let s2 := ms.foldl termMark s1
      ((termWaits s2 ms).isEmpty = true ∧ s' = emit s2 (.termRet id cOK)) ∨
      ((termWaits s2 ms).isEmpty = false ∧ s' = addTerm s2 ⟨id, termWaits s2 ms⟩) := by
  unfold terminate at hh
  simp only [bind_ok] at hh
  obtain ⟨s1, h1, h2⟩ := hh
  refine ⟨s1, h1, ?_⟩
  split at h2
  · rw [pure_ok] at h2; exact .inl ⟨by assumption, h2.symm⟩
  · rw [pure_ok] at h2; exact .inr ⟨Bool.eq_false_iff.2 (by assumption), h2.symm⟩

theorem termWake_ok {s s' : State} {id reason : Nat} (hh : termWake s id reason = .ok s') :
    ∃ tc, s.terms.find? (fun t => t.id = id) = some tc ∧
      ((reason = 2 ∧ s' = emit (dropTerm s id) (.termRet id cCanceled)) ∨
       (reason ≠ 2 ∧ (∀ tg ∈ tc.waits, ∀ tk, s.task? tg.1 = some tk → tk.gen > tg.2) ∧
          s' = emit (dropTerm s id) (.termRet id cOK))) := by
  unfold termWake at hh
  simp only [bind, Except.bind, pure, Except.pure] at hh
  split at hh
  · rename_i tc htc
    refine ⟨tc, htc, ?_⟩
    split at hh
    · injection hh with hh; exact .inl ⟨by assumption, hh.symm⟩
    · split at hh
      · simp at hh
      · injection hh with hh
        refine .inr ⟨by assumption, ?_, hh.symm⟩
        rename_i hst
        simp only [Bool.not_eq_true', Bool.not_eq_false] at hst
        rw [List.all_eq_true] at hst
        intro tg htg tk htk
        have := hst tg htg
        obtain ⟨t, g⟩ := tg
        simp only at this htk
        have e2 : (dropTerm s id).task? t = s.task? t := rfl
        simp only [State.task?] at this
        simp only [State.task?] at htk
        rw [htk] at this
        simpa using this
  · simp at hh

end BbRe.Lemmas.SchedLive
