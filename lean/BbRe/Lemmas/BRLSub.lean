import BbRe.Lemmas.BRLAbs
/-!
# Helper lemmas for C20: "delete or shrink entries" preserves the pairwise part of `WF`
-/
namespace BbRe.Lemmas.BRL
open BbRe.BRL BbRe.Spec.ByteLocks

/-- `e'` is `e` with a possibly smaller range (same start, owner, type). -/
def Shrink (e e' : Lock) : Prop :=
  e'.start = e.start ∧ e'.owner = e.owner ∧ e'.ty = e.ty ∧ e'.stop ≤ e.stop

theorem Shrink.refl (e : Lock) : Shrink e e := ⟨rfl, rfl, rfl, Nat.le_refl _⟩

theorem Rel.shrink {a b a' b' : Lock} (h : Rel a b) (ha : Shrink a a') (hb : Shrink b b') :
    Rel a' b' := by
  unfold Rel Shrink at *
  grind

/-- `ls'` is obtained from `ls` by deleting entries and shrinking entries. -/
inductive Sub : List Lock → List Lock → Prop
  | nil : Sub [] []
  | drop {e ls ls'} : Sub ls ls' → Sub (e :: ls) ls'
  | keep {e e' ls ls'} : Shrink e e' → Sub ls ls' → Sub (e :: ls) (e' :: ls')

theorem Sub.refl : ∀ ls, Sub ls ls
  | [] => .nil
  | e :: ls => .keep (Shrink.refl e) (Sub.refl ls)

theorem Sub.mem {ls ls' : List Lock} (h : Sub ls ls') : ∀ e' ∈ ls', ∃ e ∈ ls, Shrink e e' := by
  induction h with
  | nil => simp
  | drop _ ih => intro e' he'; obtain ⟨e, he, hs⟩ := ih e' he'; exact ⟨e, by simp [he], hs⟩
  | keep hs _ ih =>
    intro x hx
    simp only [List.mem_cons] at hx
    rcases hx with rfl | hx
    · exact ⟨_, by simp, hs⟩
    · obtain ⟨e, he, hs⟩ := ih x hx; exact ⟨e, by simp [he], hs⟩

theorem Sub.pairwise {ls ls' : List Lock} (h : Sub ls ls') (hp : ls.Pairwise Rel) :
    ls'.Pairwise Rel := by
  induction h with
  | nil => exact hp
  | drop _ ih => exact ih hp.of_cons
  | keep hs hsub ih =>
    rw [List.pairwise_cons] at hp ⊢
    refine ⟨?_, ih hp.2⟩
    intro y' hy'
    obtain ⟨y, hy, hys⟩ := hsub.mem y' hy'
    exact (hp.1 y hy).shrink hs hys

end BbRe.Lemmas.BRL
