import BbRe.Lemmas.ProtoStoreGInv
/-! Frame lemmas (what the steps of `Model/ProtoStore.lean` leave unchanged) and
monotonicity of the backing store. -/
namespace BbRe.Lemmas.ProtoStore
open BbRe.ProtoStore

theorem removeOrQueue_store (cfg : Config) (s : State) (h : Nat) :
    (removeOrQueue cfg s h).store = s.store := by
  unfold removeOrQueue
  repeat' split
  all_goals rfl

theorem increaseUseCount_store (s : State) (h : Nat) : (increaseUseCount s h).store = s.store := by
  unfold increaseUseCount
  dsimp only
  repeat' split
  all_goals rfl

theorem dequeueOne_store (s : State) (g : Nat) : (dequeueOne s g).store = s.store := by
  unfold dequeueOne
  repeat' split
  all_goals rfl

theorem dequeueN_store (s : State) (g n : Nat) : (dequeueN s g n).store = s.store := by
  induction n generalizing s with
  | zero => rfl
  | succ n ih => unfold dequeueN; rw [ih, dequeueOne_store]

theorem getBegin_store (s : State) (g d : Nat) : (getBegin s g d).store = s.store := by
  unfold getBegin
  split
  · rfl
  · rw [dequeueN_store]
    dsimp only
    split
    · exact increaseUseCount_store _ _
    · rfl

theorem readDone_store (s : State) (g : Nat) (ok : Bool) : (readDone s g ok).store = s.store := by
  unfold readDone
  repeat' split
  all_goals rfl

theorem getEnd_store (cfg : Config) (s : State) (g : Nat) : (getEnd cfg s g).store = s.store := by
  unfold getEnd decreaseUseCount
  dsimp only
  repeat' split
  all_goals first | rfl | (rw [removeOrQueue_store]) | (rw [increaseUseCount_store])

theorem release_store (cfg : Config) (s : State) (h : Nat) (dirty : Bool) :
    (release cfg s h dirty).store = s.store := by
  unfold release decreaseUseCount
  split
  · rfl
  · rw [removeOrQueue_store]

theorem store_monotone_step (s : State) (op : Op) (hg : GInv s) (d : Nat) :
    s.store d ≤ (step repoConfig s op).store d := by
  cases op with
  | getBegin g d' => simp [step, getBegin_store]
  | readDone g ok => simp [step, readDone_store]
  | getEnd g => simp [step, getEnd_store]
  | release h dirty => simp [step, release_store]
  | putDone g h o =>
    simp only [step]
    unfold putDone
    split
    · rename_i r hr
      split
      · rename_i w hw
        obtain ⟨hmem, hwh⟩ := findWrite_some _ _ _ hw
        obtain ⟨_, _, _, _, hsm⟩ := hg.g3 g r w hr hmem
        rw [hwh] at hsm
        rw [removeOrQueue_store]
        dsimp only
        cases o <;> simp only [reduceCtorEq, if_true, if_false, upd_apply] <;> (try split) <;> (try subst_vars) <;> omega
      · exact Nat.le_refl _
    · exact Nat.le_refl _
theorem dequeueOne_record (s : State) (g : Nat) (r : GetRec) (hr : lookupG s.gets g = some r) :
    ∃ r', lookupG (dequeueOne s g).gets g = some r' ∧ r'.digest = r.digest ∧
      r'.existing = r.existing ∧ r'.need = r.need := by
  unfold dequeueOne
  split
  · rename_i h r0 hl hr0
    rw [hr] at hr0; cases hr0
    refine ⟨{ r with writes := r.writes ++ [⟨h, s.msg h, s.current h⟩] }, ?_, rfl, rfl, rfl⟩
    dsimp only
    rw [lookupG_setG]
    simp
  · exact ⟨r, hr, rfl, rfl, rfl⟩

theorem dequeueN_record (s : State) (g n : Nat) (r : GetRec) (hr : lookupG s.gets g = some r) :
    ∃ r', lookupG (dequeueN s g n).gets g = some r' ∧ r'.digest = r.digest ∧
      r'.existing = r.existing ∧ r'.need = r.need := by
  induction n generalizing s r with
  | zero => exact ⟨r, hr, rfl, rfl, rfl⟩
  | succ n ih =>
    obtain ⟨r1, h1, h2, h3, h4⟩ := dequeueOne_record s g r hr
    obtain ⟨r2, k1, k2, k3, k4⟩ := ih (dequeueOne s g) r1 h1
    exact ⟨r2, k1, by rw [k2, h2], by rw [k3, h3], by rw [k4, h4]⟩

theorem increaseUseCount_gets (s : State) (h : Nat) : (increaseUseCount s h).gets = s.gets := by
  unfold increaseUseCount
  dsimp only
  repeat' split
  all_goals rfl

/-- The record that `getBegin` creates: digest, the handle found in the map, and
the ghost `need`. -/
theorem getBegin_record (s : State) (g d : Nat) (hg : lookupG s.gets g = none) :
    ∃ r, lookupG (getBegin s g d).gets g = some r ∧ r.digest = d ∧ r.existing = s.map d ∧
      r.need = (if s.store d = s.latest d then 0 else s.latest d) := by
  rw [getBegin_eq s g d hg]
  have : ∃ r, lookupG (getBeginMid s g d).gets g = some r ∧ r.digest = d ∧ r.existing = s.map d ∧
      r.need = (if s.store d = s.latest d then 0 else s.latest d) := by
    unfold getBeginMid
    dsimp only
    exact ⟨_, by rw [lookupG_setG]; simp; rfl, rfl, rfl, rfl⟩
  obtain ⟨r, h1, h2, h3, h4⟩ := this
  obtain ⟨r', k1, k2, k3, k4⟩ := dequeueN_record _ g writesPerRead r h1
  exact ⟨r', k1, by rw [k2, h2], by rw [k3, h3], by rw [k4, h4]⟩
end BbRe.Lemmas.ProtoStore
