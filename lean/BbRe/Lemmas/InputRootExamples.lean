import BbRe.Lemmas.InputRootEager
import BbRe.Lemmas.InputRootState
/-!
Vocabulary and concrete objects used by `Properties/C17.lean` (kept out of the
property namespace, which holds theorems only).
-/
namespace BbRe.Lemmas.InputRoot
open BbRe.InputRoot

/-- A history without storage faults. -/
def noFaults (ops : List Op) : List (List Dig × Op) := ops.map fun o => ([], o)

/-- The refusals of a CAS backed file. -/
def isRefusal (o : Out) : Prop :=
  o = .status .eacces ∨ o = .status .ewrongtype ∨ o = .unreachable

/-- The same history without any `UnreadDirectoryMonitor`. -/
def unmonitored : Op → Op
  | .merge d _ => .merge d false
  | op => op

namespace Ex

/-- digests "a0", "b0", "c0", "f1", "f2" of a store with 2-character hashes -/
def dA : Dig := ⟨[97, 48], 7⟩
def dB : Dig := ⟨[98, 48], 5⟩
def dC : Dig := ⟨[99, 48], 3⟩
def f1 : Dig := ⟨[102, 49], 4⟩
def f2 : Dig := ⟨[102, 50], 0⟩
def raw (d : Dig) : RawDigest := ⟨true, d.hash, d.size⟩

/-- root `a0` = { sub/ → b0, shared/ → c0, bad/ → b0' (malformed), x (exec file), l → "t" },
`b0` = { again/ → c0, y }, `c0` = {} (shared empty directory),
`dd` = a directory that lists the name "y" twice (file and symlink). -/
def dD : Dig := ⟨[100, 100], 9⟩
def exCAS : CAS where
  hashLen := 2
  dirs := [
    (dA, some ⟨[⟨[115], raw dB⟩, ⟨[104], raw dC⟩, ⟨[98], raw dD⟩], [⟨[120], raw f1, true⟩], [⟨[108], [116]⟩]⟩),
    (dB, some ⟨[⟨[97], raw dC⟩], [⟨[121], raw f2, false⟩], []⟩),
    (dC, some ⟨[], [], []⟩),
    (dD, some ⟨[], [⟨[121], raw f1, false⟩], [⟨[121], [116]⟩]⟩)]
  blobs := [(f1, [1, 2, 3, 4]), (f2, [])]

/-- `exCAS` is a DAG. -/
theorem exCAS_acyclic : Acyclic exCAS (fun d => if d = dA then 2 else if d = dB then 1 else 0) := by
  intro d m hm e he d' hp
  simp only [exCAS, assoc] at hm
  split at hm
  · rename_i h; subst h
    simp only [Option.some.injEq] at hm; subst hm
    simp only [List.mem_cons, List.not_mem_nil, or_false] at he
    rcases he with rfl | rfl | rfl <;> simp [parseDigest, raw, exCAS, dB, dC, dD, isLowerHex] at hp <;>
      subst hp <;> decide
  · split at hm
    · rename_i h1 h; subst h
      simp only [Option.some.injEq] at hm; subst hm
      simp only [List.mem_cons, List.not_mem_nil, or_false] at he
      subst he
      simp [parseDigest, raw, exCAS, dC, isLowerHex] at hp
      subst hp; decide
    · split at hm
      · simp only [Option.some.injEq] at hm; subst hm; simp at he
      · split at hm
        · simp only [Option.some.injEq] at hm; subst hm; simp at he
        · cases hm


end Ex
end BbRe.Lemmas.InputRoot
