import BbRe.Lemmas.SchedInvComplete2
/-! Which events `task.complete` appends (the three-way learner split), without invariants. -/
namespace BbRe.Lemmas.SchedInv
open BbRe.Sched

theorem schedule_same {h : Hints} {s s' : State} {tid : Nat} (hh : schedule h s tid = .ok s') :
    ∃ ws ts asg, s' = { s with workers := ws, tasks := ts, assigned := asg } := by
  unfold schedule at hh
  cases ht : s.task? tid with
  | none => simp only [ht] at hh; cases hh
  | some t =>
    simp only [ht] at hh
    by_cases hp : anyParked s t.scq = true
    · rw [if_pos hp] at hh
      cases hw : hintedWorker h s t with
      | none => simp only [hw] at hh; cases hh
      | some w =>
        simp only [hw] at hh
        by_cases hpk : w.parked = true
        · simp only [hpk, Bool.not_true, Bool.false_eq_true, if_false] at hh
          cases hw2 : (wakeWorker s w).worker? w.scq w.id with
          | none => simp only [hw2] at hh; cases hh
          | some w2 =>
            simp only [hw2] at hh
            rw [assignTo_eq] at hh
            split at hh
            · cases hh
            · split at hh
              · cases hh
              · cases hh; exact ⟨_, _, _, rfl⟩
        · simp only [hpk, Bool.not_false, if_true, throw_bind'] at hh; cases hh
    · rw [if_neg hp] at hh; cases hh; exact ⟨_, _, _, rfl⟩

theorem schedule_events {h : Hints} {s s' : State} {tid : Nat} (hh : schedule h s tid = .ok s') :
    s'.events = s.events := by
  obtain ⟨ws, ts, asg, he⟩ := schedule_same hh
  rw [he]

theorem fstep_events (s : State) (o : Nat) : (fstep s o).events = s.events := by
  unfold fstep
  split
  · split
    · rw [maybeStartCleanup_eq]; rfl
    · rfl
  · rfl

theorem finishOps_events (s : State) (ops : List Nat) : (complete.finishOps s ops).events = s.events := by
  rw [finishOps_eq]
  induction ops generalizing s with
  | nil => rfl
  | cons o r ih => rw [List.foldl_cons, ih, fstep_events]

theorem finalize_events {s s' : State} {t : Task} {r : Resp} (hh : complete.finalize s t r = .ok s') :
    s'.events = s.events := by
  rw [finalize_eq] at hh
  cases hh
  rw [finishOps_events]; rfl

theorem bgPart_events {h : Hints} {Y s' : State} {t : Task} {i : Nat} (hh : bgPart h Y t i = .ok s') :
    s'.events = Y.events ∨ s'.events = .learnerAbandoned Y.nextLearner :: Y.events := by
  unfold bgPart at hh
  dsimp only at hh
  split at hh
  · split at hh
    · cases hh; exact Or.inr rfl
    · split at hh
      · split at hh
        · cases hh; exact Or.inr rfl
        · exact Or.inl ((schedule_events hh).trans rfl)
      · cases hh
  · cases hh


theorem fstep_nextLearner (s : State) (o : Nat) : (fstep s o).nextLearner = s.nextLearner := by
  unfold fstep
  split
  · split
    · rw [maybeStartCleanup_eq]; rfl
    · rfl
  · rfl

theorem finishOps_nextLearner (s : State) (ops : List Nat) :
    (complete.finishOps s ops).nextLearner = s.nextLearner := by
  rw [finishOps_eq]
  induction ops generalizing s with
  | nil => rfl
  | cons o r ih => rw [List.foldl_cons, ih, fstep_nextLearner]

theorem finalize_nextLearner {s s' : State} {t : Task} {r : Resp} (hh : complete.finalize s t r = .ok s') :
    s'.nextLearner = s.nextLearner := by
  rw [finalize_eq] at hh
  cases hh
  rw [finishOps_nextLearner]; rfl

theorem completeOk_events {h : Hints} {s s' : State} {t : Task} {r : Resp} {l : Nat}
    (hh : completeOk h s t r l = .ok s') :
    s'.events = .learnerSucceeded l (if h.bg.isSome then some s.nextLearner else none) :: s.events ∨
    s'.events = .learnerAbandoned s.nextLearner ::
      .learnerSucceeded l (if h.bg.isSome then some s.nextLearner else none) :: s.events := by
  rw [completeOk_eq] at hh
  generalize (Event.learnerSucceeded l (if h.bg.isSome then some s.nextLearner else none)) = e at hh ⊢
  cases hf : complete.finalize (emit s e) { t with learner := none } r with
  | error e => rw [hf] at hh; cases hh
  | ok Y =>
    rw [hf] at hh
    have hev : Y.events = e :: s.events := finalize_events hf
    have hnl : Y.nextLearner = s.nextLearner := (finalize_nextLearner hf).trans rfl
    simp only [ok_bind'] at hh
    cases hbg : h.bg with
    | none => rw [hbg] at hh; cases hh; left; exact hev
    | some i =>
      rw [hbg] at hh
      rcases bgPart_events hh with h1 | h1
      · left; rw [h1, hev]
      · right; rw [h1, hev, hnl]

theorem completeRetry_events {h : Hints} {s s' : State} {t : Task} {r : Resp} {l : Nat}
    (hh : completeRetry h s t r l = .ok s') :
    s'.events = .learnerFailed l (r.code = cDeadlineExceeded) (some s.nextLearner) :: s.events := by
  rw [completeRetry_eq] at hh
  cases hs : schedule h (retrySt s t l r) t.id with
  | error e => rw [hs] at hh; cases hh
  | ok s3 =>
    rw [hs] at hh
    simp only [ok_bind'] at hh
    have h3 := schedule_events hs
    split at hh
    · cases hh; exact h3
    · cases hh

theorem detachW_events (s : State) (t : Task) : (detachW s t).events = s.events := by
  unfold detachW
  split
  · split <;> rfl
  · rfl

theorem detachW_nextLearner (s : State) (t : Task) : (detachW s t).nextLearner = s.nextLearner := by
  unfold detachW
  split
  · split <;> rfl
  · rfl

/-- The three-way split of `task.complete`: which learner events a call appends.
`l` = the learner the task held. -/
theorem complete_events {h : Hints} {s s' : State} {tid : Nat} {t : Task} {r : Resp} {bw : Bool} {l : Nat}
    (hh : complete h s tid r bw = .ok s') (ht : s.task? tid = some t) (hr : t.response = none)
    (hl : t.learner = some l) :
    (r.code = cOK ∧ r.exit = 0 →
      s'.events = .learnerSucceeded l (if h.bg.isSome then some s.nextLearner else none) :: s.events ∨
      s'.events = .learnerAbandoned s.nextLearner ::
        .learnerSucceeded l (if h.bg.isSome then some s.nextLearner else none) :: s.events) ∧
    (¬ (r.code = cOK ∧ r.exit = 0) → bw = true →
      s'.events = .learnerFailed l (r.code = cDeadlineExceeded) (if h.retry then some s.nextLearner else none)
        :: s.events) ∧
    (¬ (r.code = cOK ∧ r.exit = 0) → bw = false → s'.events = .learnerAbandoned l :: s.events) := by
  rw [complete_eq] at hh
  simp only [ht] at hh
  have hrs : ¬ t.response.isSome = true := by rw [hr]; simp
  rw [if_neg hrs] at hh
  have hlp : (preT t).learner = some l := by unfold preT; split <;> simpa [bumpGen] using hl
  simp only [hlp] at hh
  refine ⟨?_, ?_, ?_⟩
  · intro hok
    rw [if_pos hok] at hh
    have := completeOk_events hh
    rw [detachW_events, detachW_nextLearner] at this
    exact this
  · intro hok hb
    rw [if_neg hok, if_pos hb] at hh
    by_cases hre : h.retry = true
    · rw [if_pos hre] at hh
      have := completeRetry_events hh
      rw [detachW_events, detachW_nextLearner] at this
      rw [if_pos hre]; exact this
    · rw [if_neg hre] at hh
      have := finalize_events hh
      rw [if_neg hre, this]
      show _ :: (detachW s (preT t)).events = _
      rw [detachW_events]
  · intro hok hb
    have hb' : ¬ bw = true := by rw [hb]; simp
    rw [if_neg hok, if_neg hb'] at hh
    have := finalize_events hh
    rw [this]
    show _ :: (detachW s (preT t)).events = _
    rw [detachW_events]


/-- a background task is created only while fewer than `bgMax` background tasks are queued
in its size-class queue -/
theorem bgPart_creates {h : Hints} {Y s' : State} {t : Task} {i : Nat} (hh : bgPart h Y t i = .ok s')
    (hn : s'.nextTask ≠ Y.nextTask) :
    ∃ pq bsc, Y.pq? t.scq.pq = some pq ∧ countQueuedBackground Y ⟨t.scq.pq, bsc⟩ < pq.bgMax ∧
      s'.nextTask = Y.nextTask + 1 := by
  unfold bgPart at hh
  dsimp only at hh
  split at hh
  · rename_i pq hpq
    split at hh
    · cases hh; exact absurd rfl hn
    · split at hh
      · rename_i bsc _
        split at hh
        · cases hh; exact absurd rfl hn
        · rename_i hlt
          obtain ⟨ws, ts, asg, he⟩ := schedule_same hh
          refine ⟨pq, bsc, hpq, ?_, by rw [he]; rfl⟩
          have : ¬ countQueuedBackground Y ⟨t.scq.pq, bsc⟩ ≥ pq.bgMax := hlt
          omega
      · cases hh
  · cases hh

/-- `schedule` keeps the immutable fields of the task it schedules -/
theorem schedule_task {h : Hints} {s s' : State} {tid : Nat} {t : Task} (hh : schedule h s tid = .ok s')
    (ht : s.task? tid = some t) :
    ∃ t', s'.task? tid = some t' ∧ t'.background = t.background ∧ t'.doNotCache = t.doNotCache ∧
      t'.scq = t.scq ∧ t'.dkey = t.dkey := by
  unfold schedule at hh
  simp only [ht] at hh
  by_cases hp : anyParked s t.scq = true
  · rw [if_pos hp] at hh
    cases hw : hintedWorker h s t with
    | none => simp only [hw] at hh; cases hh
    | some w =>
      simp only [hw] at hh
      by_cases hpk : w.parked = true
      · simp only [hpk, Bool.not_true, Bool.false_eq_true, if_false] at hh
        cases hw2 : (wakeWorker s w).worker? w.scq w.id with
        | none => simp only [hw2] at hh; cases hh
        | some w2 =>
          simp only [hw2] at hh
          rw [assignTo_eq] at hh
          split at hh
          · cases hh
          · split at hh
            · cases hh
            · cases hh
              simp only [task?_def, assignSt, State.setTask, setWorker_eq, wakeWorker]
              rw [alookup_aset]
              split
              · exact ⟨_, rfl, rfl, rfl, rfl, rfl⟩
              · exact ⟨t, ht, rfl, rfl, rfl, rfl⟩
      · simp only [hpk, Bool.not_false, if_true, throw_bind'] at hh; cases hh
  · rw [if_neg hp] at hh; cases hh
    simp only [task?_def, State.setTask]
    rw [alookup_aset]
    split
    · exact ⟨_, rfl, rfl, rfl, rfl, rfl⟩
    · exact ⟨t, ht, rfl, rfl, rfl, rfl⟩

/-- a background task is created only while fewer than `bgMax` background tasks are queued in
its size-class queue; it is a background, uncacheable task of that queue with the key of the
completed task -/
theorem bgPart_creates' {h : Hints} {Y s' : State} {t : Task} {i : Nat} (hh : bgPart h Y t i = .ok s')
    (hn : s'.nextTask ≠ Y.nextTask) :
    ∃ pq bsc, Y.pq? t.scq.pq = some pq ∧ countQueuedBackground Y ⟨t.scq.pq, bsc⟩ < pq.bgMax ∧
      s'.nextTask = Y.nextTask + 1 ∧
      ∃ t', s'.task? Y.nextTask = some t' ∧ t'.background = true ∧ t'.doNotCache = true ∧
        t'.scq = ⟨t.scq.pq, bsc⟩ ∧ t'.dkey = t.dkey := by
  unfold bgPart at hh
  dsimp only at hh
  split at hh
  · rename_i pq hpq
    split at hh
    · cases hh; exact absurd rfl hn
    · split at hh
      · rename_i bsc _
        split at hh
        · cases hh; exact absurd rfl hn
        · rename_i hlt
          obtain ⟨ws, ts, asg, he⟩ := schedule_same hh
          have hlt' : ¬ countQueuedBackground Y ⟨t.scq.pq, bsc⟩ ≥ pq.bgMax := hlt
          obtain ⟨t', a, b, c, d, e⟩ := schedule_task hh (t := bgTask Y t ⟨t.scq.pq, bsc⟩)
            (by simp only [task?_def, State.setOp, State.setTask]; rw [alookup_aset, if_pos rfl]; rfl)
          exact ⟨pq, bsc, hpq, by omega, by rw [he]; rfl, t', a, b, c, d, e⟩
      · cases hh
  · cases hh

end BbRe.Lemmas.SchedInv
