import BbRe.Lemmas.FilePoolContent
/-!
Effect of `writeToSectors` on `content`: the bytes reported written are laid
over the old contents; every other byte of the file is unchanged — on every
path (success, short allocation, failure).
-/
namespace BbRe.Lemmas.FilePool
open BbRe.FilePool

/-- content of an allocated own sector is not affected by `writeToNewSectors` (any outcome). -/
theorem content_wns_unchanged {O : Nat → Prop} {c : Cfg} {f : File} {e : Env} {p : List Byte} {idx ow : Nat}
    (hss : 0 < c.ss) (how : ow < c.ss) (hp : 0 < p.length)
    (hP : Part c.nsec O e.allocd (nz f.sectors)) (i : Nat) :
    content c.ss (writeToNewSectors c f.hole e p idx ow).1.dev f i = content c.ss e.dev f i := by
  unfold content
  split
  · rfl
  · rename_i hne
    have hmem : f.sectors.getD (i / c.ss) 0 ∈ e.allocd := (hP.mem _).mpr (Or.inl (getD_mem_nz hne))
    obtain ⟨t, ht⟩ : ∃ t, f.sectors.getD (i / c.ss) 0 = t + 1 := ⟨f.sectors.getD (i / c.ss) 0 - 1, by omega⟩
    rw [ht, Nat.add_sub_cancel]
    exact wns_conf hss how hp t (i % c.ss) (Nat.mod_lt _ hss) (ht ▸ hmem)

/-- Inserting a freshly written run into a region of holes. -/
theorem insert_content {O : Nat → Prop} {c : Cfg} {f : File} {e e1 : Env} {p : List Byte}
    {idx ow n first got : Nat} (secs0 secs' : List Nat)
    (hss : 0 < c.ss) (how : ow < c.ss) (hp : 0 < p.length)
    (hget0 : ∀ q, secs0.getD q 0 = f.sectors.getD q 0)
    (hr : writeToNewSectors c f.hole e p idx ow = (e1, .ok (n, first, got)))
    (hins : insertSectors secs0 idx first got = some secs')
    (hzero : ∀ q, idx ≤ q → q < idx + got → f.sectors.getD q 0 = 0)
    (hP : Part c.nsec O e.allocd (nz f.sectors)) (i : Nat) :
    content c.ss e1.dev { f with sectors := secs' } i =
      overlay (content c.ss e.dev f) (idx * c.ss + ow) (p.take n) i := by
  have hw := wns_ok hr
  obtain ⟨hrun, _⟩ := wns_ok_dev hss how hp hr
  obtain ⟨t0, rfl⟩ : ∃ t0, first = t0 + 1 := ⟨first - 1, by omega⟩
  simp only [Nat.add_sub_cancel] at hrun
  have hunch := content_wns_unchanged (f := f) (idx := idx) hss how hp hP i
  rw [hr] at hunch
  have hn : (p.take n).length = n := by rw [List.length_take, hw.2.2.2.2.2.2.2]; omega
  have hnle : ow + n ≤ got * c.ss := by
    have : c.ss ≤ got * c.ss := Nat.le_mul_of_pos_left c.ss hw.2.2.1
    rw [hw.2.2.2.2.2.2.2]; omega
  have hi := div_mul_mod i c.ss
  have hmod := Nat.mod_lt i hss
  by_cases hq : idx ≤ i / c.ss ∧ i / c.ss < idx + got
  · -- inside the new run
    obtain ⟨d, hd⟩ : ∃ d, i / c.ss = idx + d := ⟨i / c.ss - idx, by omega⟩
    have hdg : d < got := by omega
    have hsec : secs'.getD (i / c.ss) 0 = t0 + 1 + d := by
      rw [insertSectors_getD hins, if_pos hq, hd]; omega
    have hdss : d * c.ss + c.ss ≤ got * c.ss := by
      have := Nat.mul_le_mul_right c.ss (show d + 1 ≤ got by omega)
      rw [Nat.add_mul, Nat.one_mul] at this; exact this
    have hidx : i = idx * c.ss + (d * c.ss + i % c.ss) := by
      rw [hd, Nat.add_mul] at hi; omega
    have hpos : (t0 + 1 + d - 1) * c.ss + i % c.ss = t0 * c.ss + (d * c.ss + i % c.ss) := by
      rw [show t0 + 1 + d - 1 = t0 + d by omega, Nat.add_mul]; omega
    have hL : content c.ss e1.dev { f with sectors := secs' } i =
        rd e1.dev (t0 * c.ss + (d * c.ss + i % c.ss)) := by
      unfold content
      dsimp only
      rw [hsec, if_neg (by omega), hpos]
    have hold : f.sectors.getD (i / c.ss) 0 = 0 := hzero _ hq.1 hq.2
    have hbase : content c.ss e.dev f i = f.hole.read i := by
      unfold content; rw [if_pos hold]
    rw [hL, hrun _ (by omega)]
    unfold tgt overlay
    rw [hn]
    by_cases hin : ow ≤ d * c.ss + i % c.ss ∧ d * c.ss + i % c.ss < ow + n
    · rw [if_pos hin, if_pos (by omega)]
      congr 1; omega
    · rw [if_neg hin, if_neg (by omega), hbase]
      congr 1; omega
  · -- outside the new run: same sector entry as before, device unchanged there
    have hsec : secs'.getD (i / c.ss) 0 = f.sectors.getD (i / c.ss) 0 := by
      rw [insertSectors_getD hins, if_neg hq, hget0]
    have hov : overlay (content c.ss e.dev f) (idx * c.ss + ow) (p.take n) i = content c.ss e.dev f i := by
      unfold overlay
      rw [if_neg]
      rw [hn]
      intro hc
      apply hq
      constructor
      · rcases Nat.lt_or_ge (i / c.ss) idx with hlt | hge
        · have := Nat.mul_le_mul_right c.ss (show i / c.ss + 1 ≤ idx by omega)
          rw [Nat.add_mul, Nat.one_mul] at this; omega
        · exact hge
      · have : i < (idx + got) * c.ss := by rw [Nat.add_mul]; omega
        exact div_lt_of_lt_mul' this
    rw [hov, ← hunch]
    unfold content
    dsimp only
    rw [hsec]

theorem range_div {ss idx ow m cnt i : Nat} (h1 : idx * ss + ow ≤ i) (h2 : i < idx * ss + ow + m)
    (h3 : ow + m ≤ cnt * ss) : idx ≤ i / ss ∧ i / ss < idx + cnt := by
  constructor
  · rcases Nat.lt_or_ge (i / ss) idx with hlt | hge
    · have := Nat.mul_le_mul_right ss (show i / ss + 1 ≤ idx by omega)
      rw [Nat.add_mul, Nat.one_mul] at this
      have hi := div_mul_mod i ss
      have : i % ss < ss := Nat.mod_lt _ (by
        rcases Nat.eq_zero_or_pos ss with h0 | h0
        · rw [h0] at h3; omega
        · exact h0)
      omega
    · exact hge
  · have : i < (idx + cnt) * ss := by rw [Nat.add_mul]; omega
    exact div_lt_of_lt_mul' this

/-- Overwriting a run of existing sectors with (a prefix of) the data. -/
theorem overwrite_content {O : Nat → Prop} {c : Cfg} {f : File} {e : Env} (p : List Byte)
    (idx endIdx ow m : Nat) (hss : 0 < c.ss) (how : ow < c.ss) (hidx : idx < f.sectors.length)
    (hne : (contig f.sectors idx endIdx).1 ≠ 0) (hP : Part c.nsec O e.allocd (nz f.sectors))
    (hm : ow + m ≤ (contig f.sectors idx endIdx).2 * c.ss) (hmp : m ≤ p.length) (i : Nat) :
    content c.ss (writeBytes e.dev (((contig f.sectors idx endIdx).1 - 1) * c.ss + ow) (p.take m)) f i =
      overlay (content c.ss e.dev f) (idx * c.ss + ow) (p.take m) i := by
  obtain ⟨hc1, hc2, hc3, hc4, hc5⟩ := contig_spec f.sectors idx endIdx hidx
  generalize (contig f.sectors idx endIdx).1 = s0 at *
  generalize (contig f.sectors idx endIdx).2 = cnt at *
  obtain ⟨t0, rfl⟩ : ∃ t0, s0 = t0 + 1 := ⟨s0 - 1, by omega⟩
  simp only [Nat.add_sub_cancel]
  have hlen : (p.take m).length = m := by rw [List.length_take]; omega
  have hi := div_mul_mod i c.ss
  have hmod := Nat.mod_lt i hss
  have hov_out : ¬ (idx ≤ i / c.ss ∧ i / c.ss < idx + cnt) →
      overlay (content c.ss e.dev f) (idx * c.ss + ow) (p.take m) i = content c.ss e.dev f i := by
    intro hq
    unfold overlay
    rw [if_neg]
    rw [hlen]
    intro hc
    exact hq (range_div hc.1 hc.2 hm)
  by_cases hs : f.sectors.getD (i / c.ss) 0 = 0
  · have hq : ¬ (idx ≤ i / c.ss ∧ i / c.ss < idx + cnt) := by
      intro hq
      have := hc5 (i / c.ss - idx) (by omega)
      rw [show idx + (i / c.ss - idx) = i / c.ss by omega, hs, if_neg (by omega)] at this
      omega
    rw [hov_out hq]
    unfold content
    rw [if_pos hs, if_pos hs]
  · obtain ⟨t, ht⟩ : ∃ t, f.sectors.getD (i / c.ss) 0 = t + 1 := ⟨f.sectors.getD (i / c.ss) 0 - 1, by omega⟩
    have hL : content c.ss (writeBytes e.dev (t0 * c.ss + ow) (p.take m)) f i =
        rd (writeBytes e.dev (t0 * c.ss + ow) (p.take m)) (t * c.ss + i % c.ss) := by
      unfold content; rw [if_neg hs, ht, Nat.add_sub_cancel]
    have hB : content c.ss e.dev f i = rd e.dev (t * c.ss + i % c.ss) := by
      unfold content; rw [if_neg hs, ht, Nat.add_sub_cancel]
    rw [hL]
    by_cases hq : idx ≤ i / c.ss ∧ i / c.ss < idx + cnt
    · obtain ⟨d, hd⟩ : ∃ d, i / c.ss = idx + d := ⟨i / c.ss - idx, by omega⟩
      have htd : t = t0 + d := by
        have := hc5 d (by omega)
        rw [← hd, ht, if_neg (by omega)] at this
        omega
      have hidx' : i = idx * c.ss + (d * c.ss + i % c.ss) := by
        rw [hd, Nat.add_mul] at hi; omega
      rw [htd, Nat.add_mul, rd_writeBytes, hlen]
      unfold overlay
      rw [hlen]
      by_cases hin : idx * c.ss + ow ≤ i ∧ i < idx * c.ss + ow + m
      · rw [if_pos (by omega), if_pos hin]
        congr 1; omega
      · rw [if_neg (by omega), if_neg hin, hB, htd, Nat.add_mul]
    · rw [hov_out hq, hB, rd_writeBytes_outside]
      rw [hlen]
      have hnot : t < t0 ∨ t0 + cnt ≤ t := by
        by_cases hc : t0 ≤ t ∧ t < t0 + cnt
        · exfalso
          have h5 := hc5 (t - t0) (by omega)
          rw [if_neg (by omega)] at h5
          have heq : f.sectors.getD (i / c.ss) 0 = f.sectors.getD (idx + (t - t0)) 0 := by
            rw [ht, h5]; omega
          have := nodup_nz_getD f.sectors _ _ hP.nodupF heq hs
          omega
        · omega
      have := pos_outside c.ss t t0 cnt (i % c.ss) hmod hnot
      rw [Nat.add_mul] at this
      omega

end BbRe.Lemmas.FilePool
