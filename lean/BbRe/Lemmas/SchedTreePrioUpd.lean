import BbRe.Lemmas.SchedTreePrioPrim
import BbRe.Lemmas.SchedTreeRefine
import BbRe.Lemmas.SchedInvAList
/-!
`PrioOK` and the tree-only updates of `TState`: every update except `setOX` / `dropOX` keeps it; these two keep
it when the operation is in no `queuedOperations`.
-/
namespace BbRe.Lemmas.SchedTree
open BbRe.Sched BbRe.SchedTree BbRe.Lemmas.SchedInv

/-- `firstQueuedOperationPriority` of a non-root invocation that has queued operations of its own is the least
priority among them (`updateFirstOperationPriority`: `i.firstQueuedOperationPriority = i.queuedOperations[0].priority`) -/
def PrioOK (ts : TState) : Prop :=
  ∀ n ∈ ts.nodes, n.path ≠ [] → n.qops ≠ [] → n.prio = minPrio (n.qops.map ts.prioOf)

theorem prioOK_iff (ts : TState) : PrioOK ts ↔ NAll (NodeOK ts.prioOf) ts.nodes := Iff.rfl

/-- every queued operation has a name below `b` -/
def QB (b : Nat) (ts : TState) : Prop := NAll (QIn (· < b)) ts.nodes

/-- `PrioOK` only looks at the nodes and the operation table -/
theorem PrioOK.of_eq {ts ts' : TState} (h : PrioOK ts) (hn : ts'.nodes = ts.nodes) (hox : ts'.ox = ts.ox) : PrioOK ts' := by
  unfold PrioOK TState.prioOf at h ⊢
  rw [hn, hox]; exact h

theorem QB.of_eq {b : Nat} {ts ts' : TState} (h : QB b ts) (hn : ts'.nodes = ts.nodes) : QB b ts' := by
  unfold QB at h ⊢
  rw [hn]; exact h

/-! ### node predicates and the updates that do not touch `qops` / `prio` -/

section generic
variable {P : Node → Prop} {ts : TState}

theorem unparkTree_nall (hP : QP P) (h : NAll P ts.nodes) (q : ScqId) (w : WId) : NAll P (ts.unparkTree q w).nodes := by
  show NAll P (match ts.lastOf q w with | some p => dequeueW ts.nodes q p w | none => ts.nodes)
  split
  · exact h.dequeueW hP _ _ _
  · exact h

theorem parkTree_nall (hP : QP P) (h : NAll P ts.nodes) (q : ScqId) (w : WId) : NAll P (ts.parkTree q w).nodes := by
  show NAll P (match ts.lastOf q w with | some p => parkW ts.nodes q p w | none => ts.nodes)
  split
  · exact h.parkW hP _ _ _
  · exact h

theorem incOps_nall (hP : QP P) (hR : RP ts.prioOf P) (h : NAll P ts.nodes) (t : Task) (k : WKey) : NAll P (ts.incOps t k).nodes :=
  NAll.foldl _ (fun _ _ hb => hb.incExecR hP hR _ _ _ _ _) _ _ h

theorem decOps_nall (hP : QP P) (hR : RP ts.prioOf P) (h : NAll P ts.nodes) (t : Task) (k : WKey) : NAll P (ts.decOps t k).nodes :=
  NAll.foldl _ (fun _ _ hb => hb.decExecR hP hR _ _ _ _ _) _ _ h

theorem clearLast_nall (hP : QP P) (h : NAll P ts.nodes) (q : ScqId) (w : WId) : NAll P (ts.clearLast q w).nodes := by
  show NAll P (match ts.lastOf q w with | some p => clearLastN ts.nodes q p | none => ts.nodes)
  split
  · exact h.clearLastN hP _ _
  · exact h

theorem setLast_nall (hP : QP P) (h : NAll P ts.nodes) (tq q : ScqId) (w : WId) (p : List Nat) :
    NAll P (ts.setLast tq q w p).nodes := h.setLastN hP _ _

theorem createOps_nall (hP : QP P) (h : NAll P ts.nodes) (t : Task) : NAll P (ts.createOps t).nodes :=
  NAll.foldl _ (fun _ _ hb => hb.getOrCreate hP _ _ _) _ _ h

theorem create_nall (hP : QP P) (h : NAll P ts.nodes) (q : ScqId) (p : List Nat) : NAll P (ts.create q p).nodes :=
  h.getOrCreate hP _ _ _

theorem assignTree_nall (hP : QP P) (hR : RP ts.prioOf P) (h : NAll P ts.nodes) (w : Worker) (t : Task) (r : Nat) :
    NAll P (ts.assignTree w t r).nodes :=
  clearLast_nall hP (incOps_nall hP hR h t (some w.id)) w.scq w.id

theorem dropScqTree_nall (h : NAll P ts.nodes) (q : ScqId) : NAll P (ts.dropScqTree q).nodes := h.filter _

theorem dropWorkerTree_nall (hP : QP P) (h : NAll P ts.nodes) (q : ScqId) (w : WId) :
    NAll P (ts.dropWorkerTree q w).nodes := clearLast_nall hP h q w

theorem addScqTree_nall (hP : QP P) (h : NAll P ts.nodes) (q : ScqId) : NAll P (ts.addScqTree q).nodes :=
  h.append (NAll.mkNode hP _ _ _)

theorem addWorkerTree_nall (hP : QP P) (h : NAll P ts.nodes) (q : ScqId) (w : WId) :
    NAll P (ts.addWorkerTree q w).nodes := h.setLastN hP _ _

theorem maybeDequeue_nall (hP : QP P) (h : NAll P ts.nodes) (wk : Worker) : NAll P (ts.maybeDequeue wk).nodes := by
  unfold TState.maybeDequeue
  split
  · exact unparkTree_nall hP h _ _
  · exact h

theorem tWake_nall (hP : QP P) (h : NAll P ts.nodes) (w : Worker) : NAll P (tWake ts w).nodes :=
  unparkTree_nall hP h _ _

theorem tRegisterPQ_nall (hP : QP P) (h : NAll P ts.nodes) (x : Extras) (id : Nat) (comps : List Nat) (platform : Nat)
    (sizes : List Nat) (bgMax : Nat) (bgPrio : Int) :
    NAll P (tRegisterPQ x ts id comps platform sizes bgMax bgPrio).nodes := by
  refine h.append ?_
  intro n hn
  obtain ⟨sc, _, e⟩ := List.mem_map.mp hn
  subst e
  exact hP.empty _ rfl

end generic

/-! ### the queued operations stay below a bound -/

theorem QB.setS {b : Nat} {ts : TState} (h : QB b ts) (s : State) : QB b (ts.setS s) := h

theorem QB.create {b : Nat} {ts : TState} (h : QB b ts) (q : ScqId) (p : List Nat) : QB b (ts.create q p) :=
  create_nall (qin_qp _) h q p

theorem QB.deqOps {b : Nat} {ts : TState} (h : QB b ts) (t : Task) : QB b (ts.deqOps t) :=
  NAll.foldl _ (fun _ _ hb => removeQueuedOp_qin hb _ _ _) _ _ h

theorem QB.detachTree {b : Nat} {ts : TState} (h : QB b ts) (t : Task) (bw : Bool) : QB b (ts.detachTree t bw) := by
  unfold TState.detachTree
  split
  · exact decOps_nall (qin_qp _) (qin_rp _ _) (QB.deqOps (incOps_nall (qin_qp _) (qin_rp _ _) h t none) t) t none
  · exact decOps_nall (qin_qp _) (qin_rp _ _) (setLast_nall (qin_qp _) h _ _ _ _) t _

theorem QB.mono {b b' : Nat} {ts : TState} (h : QB b ts) (hb : b ≤ b') : QB b' ts :=
  fun n hn o ho => Nat.lt_of_lt_of_le (h n hn o ho) hb

theorem QB.notin {b : Nat} {ts : TState} (h : QB b ts) : ∀ n ∈ ts.nodes, b ∉ n.qops :=
  fun n hn hm => Nat.lt_irrefl _ (h n hn b hm)

/-! ### `PrioOK` and the updates -/

section prio
variable {ts : TState}

theorem PrioOK.setS (s : State) (h : PrioOK ts) : PrioOK (ts.setS s) := h
theorem PrioOK.setSticks (q : ScqId) (w : WId) (r : Nat) (h : PrioOK ts) : PrioOK (ts.setSticks q w r) := h
theorem PrioOK.setTX (t : Nat) (y : TX) (h : PrioOK ts) : PrioOK (ts.setTX t y) := h
theorem PrioOK.dropTX (t : Nat) (h : PrioOK ts) : PrioOK (ts.dropTX t) := h
theorem PrioOK.log (d : Decision) (h : PrioOK ts) : PrioOK (ts.log d) := h
theorem PrioOK.dropLimits (pq : Nat) (h : PrioOK ts) : PrioOK (ts.dropLimits pq) := h

theorem PrioOK.unparkTree (q : ScqId) (w : WId) (h : PrioOK ts) : PrioOK (ts.unparkTree q w) :=
  unparkTree_nall (nodeOK_qp _) h q w
theorem PrioOK.parkTree (q : ScqId) (w : WId) (h : PrioOK ts) : PrioOK (ts.parkTree q w) :=
  parkTree_nall (nodeOK_qp _) h q w
theorem PrioOK.incOps (t : Task) (k : WKey) (h : PrioOK ts) : PrioOK (ts.incOps t k) :=
  incOps_nall (nodeOK_qp _) (nodeOK_rp _) h t k
theorem PrioOK.decOps (t : Task) (k : WKey) (h : PrioOK ts) : PrioOK (ts.decOps t k) :=
  decOps_nall (nodeOK_qp _) (nodeOK_rp _) h t k
theorem PrioOK.clearLast (q : ScqId) (w : WId) (h : PrioOK ts) : PrioOK (ts.clearLast q w) :=
  clearLast_nall (nodeOK_qp _) h q w
theorem PrioOK.setLast (tq q : ScqId) (w : WId) (p : List Nat) (h : PrioOK ts) : PrioOK (ts.setLast tq q w p) :=
  setLast_nall (nodeOK_qp _) h tq q w p
theorem PrioOK.createOps (t : Task) (h : PrioOK ts) : PrioOK (ts.createOps t) :=
  createOps_nall (nodeOK_qp _) h t
theorem PrioOK.create (q : ScqId) (p : List Nat) (h : PrioOK ts) : PrioOK (ts.create q p) :=
  create_nall (nodeOK_qp _) h q p
theorem PrioOK.assignTree (w : Worker) (t : Task) (r : Nat) (h : PrioOK ts) : PrioOK (ts.assignTree w t r) :=
  assignTree_nall (nodeOK_qp _) (nodeOK_rp _) h w t r
theorem PrioOK.dropScqTree (q : ScqId) (h : PrioOK ts) : PrioOK (ts.dropScqTree q) :=
  dropScqTree_nall h q
theorem PrioOK.dropWorkerTree (q : ScqId) (w : WId) (h : PrioOK ts) : PrioOK (ts.dropWorkerTree q w) :=
  dropWorkerTree_nall (nodeOK_qp _) h q w
theorem PrioOK.addScqTree (q : ScqId) (h : PrioOK ts) : PrioOK (ts.addScqTree q) :=
  addScqTree_nall (nodeOK_qp _) h q
theorem PrioOK.addWorkerTree (q : ScqId) (w : WId) (h : PrioOK ts) : PrioOK (ts.addWorkerTree q w) :=
  addWorkerTree_nall (nodeOK_qp _) h q w
theorem PrioOK.maybeDequeue (wk : Worker) (h : PrioOK ts) : PrioOK (ts.maybeDequeue wk) := by
  have : (ts.maybeDequeue wk).prioOf = ts.prioOf := by unfold TState.maybeDequeue; split <;> rfl
  rw [prioOK_iff, this]
  exact maybeDequeue_nall (nodeOK_qp _) h wk
theorem PrioOK.tWake (w : Worker) (h : PrioOK ts) : PrioOK (tWake ts w) :=
  tWake_nall (nodeOK_qp _) h w
theorem PrioOK.tRegisterPQ (x : Extras) (id : Nat) (comps : List Nat) (platform : Nat)
    (sizes : List Nat) (bgMax : Nat) (bgPrio : Int) (h : PrioOK ts) :
    PrioOK (tRegisterPQ x ts id comps platform sizes bgMax bgPrio) :=
  tRegisterPQ_nall (nodeOK_qp _) h x id comps platform sizes bgMax bgPrio

theorem PrioOK.enqOps (t : Task) (h : PrioOK ts) : PrioOK (ts.enqOps t) :=
  NAll.foldl _ (fun _ _ hb => enqueueOp_prio hb _ _ _) _ _ h

theorem PrioOK.deqOps (t : Task) (h : PrioOK ts) : PrioOK (ts.deqOps t) :=
  NAll.foldl _ (fun _ _ hb => removeQueuedOp_prio hb _ _ _) _ _ h

theorem PrioOK.detachTree (t : Task) (bw : Bool) (h : PrioOK ts) : PrioOK (ts.detachTree t bw) := by
  unfold TState.detachTree
  split
  · exact ((h.incOps t none).deqOps t).decOps t none
  · exact (h.setLast _ _ _ _).decOps t _

theorem PrioOK.removeOpTree (t : Task) (o : Nat) (h : PrioOK ts) : PrioOK (ts.removeOpTree t o) := by
  unfold TState.removeOpTree
  split
  · exact h
  · exact NAll.decExecR (P := NodeOK ts.prioOf) h (nodeOK_qp _) (nodeOK_rp _) _ _ _ _ _
  · exact NAll.pruneChain (P := NodeOK ts.prioOf) _ _ (removeQueuedOp_prio h _ _ _)

theorem PrioOK.tTerminateOne (w : Worker) (h : PrioOK ts) : PrioOK (tTerminateOne ts w) := by
  unfold BbRe.SchedTree.tTerminateOne
  split
  · dsimp only
    split
    · split
      · exact (h.setS _).tWake _
      · exact h.setS _
    · exact h.setS _
  · exact h

/-- the priority of an operation that is in no `queuedOperations` does not matter -/
theorem PrioOK.setOX {o : Nat} (y : OX) (h : PrioOK ts) (ho : ∀ n ∈ ts.nodes, o ∉ n.qops) : PrioOK (ts.setOX o y) := by
  intro n hn hp hq
  rw [h n hn hp hq]
  congr 1
  apply List.map_congr_left
  intro o' ho'
  have hne : ¬ o = o' := fun e => ho n hn (e ▸ ho')
  show (match alookup o' ts.ox with | some x => x.prio | none => 0) =
    (match alookup o' (aset o y ts.ox) with | some x => x.prio | none => 0)
  rw [alookup_aset, if_neg hne]

theorem PrioOK.dropOX {o : Nat} (h : PrioOK ts) (ho : ∀ n ∈ ts.nodes, o ∉ n.qops) : PrioOK (ts.dropOX o) := by
  intro n hn hp hq
  rw [h n hn hp hq]
  congr 1
  apply List.map_congr_left
  intro o' ho'
  have hne : o ≠ o' := fun e => ho n hn (e ▸ ho')
  show (match alookup o' ts.ox with | some x => x.prio | none => 0) =
    (match alookup o' (aerase o ts.ox) with | some x => x.prio | none => 0)
  rw [alookup_aerase_ne _ _ _ hne]

end prio

/-- close a `PrioOK` goal about a state built from tree-only updates on states for which `PrioOK` is known -/
macro "prio" : tactic => `(tactic| (
  first
    | assumption
    | (simp (maxDischargeDepth := 40) only [PrioOK.setS, PrioOK.setSticks, PrioOK.setTX, PrioOK.dropTX, PrioOK.log, PrioOK.dropLimits,
        PrioOK.unparkTree, PrioOK.parkTree, PrioOK.incOps, PrioOK.decOps, PrioOK.clearLast, PrioOK.setLast,
        PrioOK.createOps, PrioOK.create, PrioOK.assignTree, PrioOK.dropScqTree, PrioOK.dropWorkerTree,
        PrioOK.addScqTree, PrioOK.addWorkerTree, PrioOK.maybeDequeue, PrioOK.tWake, PrioOK.enqOps, PrioOK.deqOps,
        PrioOK.detachTree, PrioOK.removeOpTree, PrioOK.tTerminateOne, *]; done)))

end BbRe.Lemmas.SchedTree
