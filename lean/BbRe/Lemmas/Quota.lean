import BbRe.Model.Quota
/-! Helper lemmas for `quota_conservation` (`Properties/C15Alloc.lean`). -/
namespace BbRe.Lemmas.Quota
open BbRe.Quota

/-- The conservation invariant of the quota pool. -/
def Conserved (st : State) : Prop :=
  st.filesRemaining + st.files.length = st.maxFiles ∧
  st.bytesRemaining + totalSize st.files = st.maxBytes

theorem totalSize_append (a b : List (Nat × Nat)) : totalSize (a ++ b) = totalSize a + totalSize b := by
  induction a with
  | nil => simp [totalSize]
  | cons x xs ih => obtain ⟨i, s⟩ := x; simp [totalSize, ih]; omega

theorem length_setSize (files : List (Nat × Nat)) (id sz : Nat) :
    (setSize files id sz).length = files.length := by
  induction files with
  | nil => simp [setSize]
  | cons x xs ih =>
    obtain ⟨i, s⟩ := x
    unfold setSize
    split <;> simp [ih]

theorem totalSize_setSize {files : List (Nat × Nat)} {id fsize : Nat} (sz : Nat)
    (h : lookup files id = some fsize) :
    totalSize (setSize files id sz) + fsize = totalSize files + sz := by
  induction files with
  | nil => simp [lookup] at h
  | cons x xs ih =>
    obtain ⟨i, s⟩ := x
    unfold lookup at h
    unfold setSize
    split
    · rename_i hi
      simp [hi] at h
      simp [totalSize]; omega
    · rename_i hi
      simp [hi] at h
      have := ih h
      simp [totalSize]; omega

theorem length_remove {files : List (Nat × Nat)} {id fsize : Nat}
    (h : lookup files id = some fsize) : (remove files id).length + 1 = files.length := by
  induction files with
  | nil => simp [lookup] at h
  | cons x xs ih =>
    obtain ⟨i, s⟩ := x
    unfold lookup at h
    unfold remove
    split
    · simp
    · rename_i hi
      simp [hi] at h
      have := ih h
      simp; omega

theorem totalSize_remove {files : List (Nat × Nat)} {id fsize : Nat}
    (h : lookup files id = some fsize) : totalSize (remove files id) + fsize = totalSize files := by
  induction files with
  | nil => simp [lookup] at h
  | cons x xs ih =>
    obtain ⟨i, s⟩ := x
    unfold lookup at h
    unfold remove
    split
    · rename_i hi
      simp [hi] at h
      simp [totalSize]; omega
    · rename_i hi
      simp [hi] at h
      have := ih h
      simp [totalSize]; omega

theorem newFile_conserved (st : State) (size : Nat) (baseOk : Bool) (h : Conserved st) :
    Conserved (newFile st size baseOk).1 ∧ (newFile st size baseOk).1.maxFiles = st.maxFiles ∧
      (newFile st size baseOk).1.maxBytes = st.maxBytes := by
  obtain ⟨h1, h2⟩ := h
  simp only [newFile]
  by_cases c1 : st.filesRemaining < 1
  · simp only [c1, if_true]; exact ⟨⟨h1, h2⟩, by simp, by simp⟩
  · simp only [c1, if_false]
    by_cases c2 : size > 0 ∧ st.bytesRemaining < size
    · obtain ⟨c2a, c2b⟩ := c2
      simp [Conserved, c2a, c2b]; omega
    · simp only [c2, if_false]
      cases baseOk <;> by_cases hs : size > 0 <;>
        simp [Conserved, hs, totalSize_append, totalSize] <;> omega

theorem truncate_conserved (st : State) (id fsize : Nat) (size : Int) (baseOk : Bool)
    (hl : lookup st.files id = some fsize) (h : Conserved st) :
    Conserved (truncate st id fsize size baseOk).1 ∧
      (truncate st id fsize size baseOk).1.maxFiles = st.maxFiles ∧
      (truncate st id fsize size baseOk).1.maxBytes = st.maxBytes := by
  obtain ⟨h1, h2⟩ := h
  have hs := totalSize_setSize size.toNat hl
  have hlen := length_setSize st.files id size.toNat
  simp only [truncate]
  by_cases c1 : size < 0
  · simp only [c1, if_true]; exact ⟨⟨h1, h2⟩, by simp, by simp⟩
  · simp only [c1, if_false]
    by_cases c2 : size.toNat < fsize
    · simp only [c2, if_true]
      cases baseOk
      · exact ⟨⟨h1, h2⟩, by simp, by simp⟩
      · refine ⟨⟨?_, ?_⟩, by simp, by simp⟩ <;> simp <;> omega
    · simp only [c2, if_false]
      by_cases c3 : size.toNat > fsize
      · simp only [c3, if_true]
        by_cases c4 : st.bytesRemaining < size.toNat - fsize
        · simp only [c4, if_true]; exact ⟨⟨h1, h2⟩, by simp, by simp⟩
        · simp only [c4, if_false]
          cases baseOk
          · exact ⟨⟨h1, h2⟩, by simp, by simp⟩
          · refine ⟨⟨?_, ?_⟩, by simp, by simp⟩ <;> simp <;> omega
      · simp only [c3, if_false]; exact ⟨⟨h1, h2⟩, by simp, by simp⟩

theorem writeAt_conserved (st : State) (id fsize : Nat) (off : Int) (len n : Nat) (baseErr : Bool)
    (hl : lookup st.files id = some fsize) (hn : n ≤ len) (h : Conserved st) :
    Conserved (writeAt st id fsize off len n baseErr).1 ∧
      (writeAt st id fsize off len n baseErr).1.maxFiles = st.maxFiles ∧
      (writeAt st id fsize off len n baseErr).1.maxBytes = st.maxBytes := by
  obtain ⟨h1, h2⟩ := h
  simp only [writeAt]
  by_cases c1 : off < 0
  · simp only [c1, if_true]; exact ⟨⟨h1, h2⟩, by simp, by simp⟩
  · simp only [c1, if_false]
    by_cases c2 : off.toNat + len ≤ fsize
    · simp only [c2, if_true]; exact ⟨⟨h1, h2⟩, by simp, by simp⟩
    · simp only [c2, if_false]
      by_cases c3 : st.bytesRemaining < off.toNat + len - fsize
      · simp only [c3, if_true]; exact ⟨⟨h1, h2⟩, by simp, by simp⟩
      · simp only [c3, if_false]
        generalize hact : (if (if n > 0 then off.toNat + n else 0) < fsize then fsize
            else (if n > 0 then off.toNat + n else 0)) = actual
        have hs := totalSize_setSize actual hl
        have hle : actual ≤ off.toNat + len := by
          by_cases hn0 : n > 0 <;> simp only [hn0, if_true, if_false] at hact <;> split at hact <;> omega
        have hge : fsize ≤ actual := by
          by_cases hn0 : n > 0 <;> simp only [hn0, if_true, if_false] at hact <;> split at hact <;> omega
        refine ⟨⟨?_, ?_⟩, by simp, by simp⟩
        · simp [length_setSize]; omega
        · simp only; split <;> omega

theorem close_conserved (st : State) (id fsize : Nat) (baseErr : Bool)
    (hl : lookup st.files id = some fsize) (h : Conserved st) :
    Conserved (close st id fsize baseErr).1 ∧ (close st id fsize baseErr).1.maxFiles = st.maxFiles ∧
      (close st id fsize baseErr).1.maxBytes = st.maxBytes := by
  obtain ⟨h1, h2⟩ := h
  have := length_remove hl
  have := totalSize_remove hl
  refine ⟨⟨?_, ?_⟩, rfl, rfl⟩ <;> simp [close] <;> omega

theorem step_conserved {st : State} {op : Op} {r : State × Out} (hs : step st op = some r)
    (h : Conserved st) : Conserved r.1 ∧ r.1.maxFiles = st.maxFiles ∧ r.1.maxBytes = st.maxBytes := by
  unfold step at hs
  split at hs
  · simp at hs; subst hs; exact newFile_conserved _ _ _ h
  · split at hs
    · rename_i hl; simp at hs; subst hs; exact truncate_conserved _ _ _ _ _ hl h
    · simp at hs
  · split at hs
    · rename_i hl
      split at hs
      · rename_i hn; simp at hs; subst hs; exact writeAt_conserved _ _ _ _ _ _ _ hl hn h
      · simp at hs
    · simp at hs
  · split at hs
    · rename_i hl; simp at hs; subst hs; exact close_conserved _ _ _ _ hl h
    · simp at hs

theorem run_conserved (ops : List Op) (st : State) (h : Conserved st) :
    Conserved (run st ops) ∧ (run st ops).maxFiles = st.maxFiles ∧ (run st ops).maxBytes = st.maxBytes := by
  induction ops generalizing st with
  | nil => exact ⟨h, rfl, rfl⟩
  | cons op rest ih =>
    unfold run
    split
    · rename_i r hs
      have h1 := step_conserved hs h
      have h2 := ih r.1 h1.1
      exact ⟨h2.1, h2.2.1.trans h1.2.1, h2.2.2.trans h1.2.2⟩
    · exact ih st h

/-- Closing the open files one after the other (any base outcomes) empties the table. -/
theorem run_closeList (errs : Nat → Bool) (st : State) :
    (run st (st.files.map (fun f => Op.close f.1 (errs f.1)))).files = [] := by
  generalize hf : st.files = fs
  induction fs generalizing st with
  | nil => simp [run, hf]
  | cons x xs ih =>
    obtain ⟨i, s⟩ := x
    simp only [List.map_cons, run, step, hf, lookup, if_true]
    apply ih
    simp [close, hf, remove]

end BbRe.Lemmas.Quota
