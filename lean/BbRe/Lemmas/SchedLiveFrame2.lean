import BbRe.Lemmas.SchedLiveSpec2
/-!
`Frame` (parked streams, blocked `TerminateWorkers` calls and configuration
untouched; no client-addressed events) for the worker-facing and operator
segments.
-/
namespace BbRe.Lemmas.SchedLive
open BbRe.Sched

theorem assignNext_frame {h : Hints} {s s1 : State} {w : Worker} {got : Bool}
    (hh : assignNext h s w = .ok (s1, got)) : Frame s s1 := by
  rcases assignNext_ok hh with ⟨_, rfl, _⟩ | ⟨_, t, t', _, _, _, _, rfl⟩
  · exact Frame.refl _
  · exact Frame.of_eq rfl rfl rfl rfl

theorem execResponse_frame {s s' : State} {w : Worker} (hh : execResponse s w = .ok s') : Frame s s' := by
  obtain ⟨tid, t, _, _, rfl⟩ := execResponse_ok hh
  exact Frame.of_ev rfl rfl rfl rfl rfl

theorem syncReturn_frame (s : State) (q : ScqId) (w : WId) : Frame s (syncReturn s q w) :=
  Frame.of_eq (by simp) (by simp) (by simp) (by simp)

theorem getNextTask_frame {h : Hints} {s s' : State} {q : ScqId} {w : WId} {pi block : Bool}
    (hh : getNextTask h s q w pi block = .ok s') : Frame s s' := by
  obtain ⟨wk, sq, _, _, h1 | h1 | h1⟩ := getNextTask_ok hh
  · obtain ⟨_, rfl⟩ := h1
    exact (Frame.of_ev (s := s) (s' := emit s (.syncIdle q w s.now)) rfl rfl rfl rfl rfl).trans (syncReturn_frame _ _ _)
  · obtain ⟨_, _, s1, got, h2, h3 | h3 | h3⟩ := h1
    · obtain ⟨_, wk1, s2, _, h4, rfl⟩ := h3
      exact ((assignNext_frame h2).trans (execResponse_frame h4)).trans (syncReturn_frame _ _ _)
    · obtain ⟨_, _, rfl⟩ := h3
      exact ((assignNext_frame h2).trans
        (Frame.of_ev (s := s1) (s' := emit s1 (.syncIdle q w s1.now)) rfl rfl rfl rfl rfl)).trans (syncReturn_frame _ _ _)
    · obtain ⟨_, _, wk1, _, _, rfl⟩ := h3
      exact (assignNext_frame h2).trans (Frame.of_eq rfl rfl rfl rfl)
  · obtain ⟨_, _, h2 | h2⟩ := h1
    · obtain ⟨_, rfl⟩ := h2
      exact (Frame.of_ev (s := s) (s' := emit s (.syncIdle q w s.now)) rfl rfl rfl rfl rfl).trans (syncReturn_frame _ _ _)
    · obtain ⟨_, rfl⟩ := h2
      exact Frame.of_eq rfl rfl rfl rfl

theorem getCurrentOrNext_frame {h : Hints} {s s' : State} {q : ScqId} {w : WId} {pi block : Bool}
    (hh : getCurrentOrNext h s q w pi block = .ok s') : Frame s s' := by
  obtain ⟨wk, _, h1 | h1⟩ := getCurrentOrNext_ok hh
  · exact getNextTask_frame h1.2
  · obtain ⟨tid, t, _, _, h2 | h2⟩ := h1
    · obtain ⟨_, rfl⟩ := h2
      exact (Frame.of_ev (s := s) (s' := emit (s.setTask { t with retry := t.retry + 1 })
        (.syncExecute q w t.digest (s.now + s.cfg.busyInterval))) rfl rfl rfl rfl rfl).trans (syncReturn_frame _ _ _)
    · obtain ⟨_, s1, h3, h4⟩ := h2
      exact (complete_frame h3).trans (getNextTask_frame h4)

/-- the state carried by either outcome of `syncQueue` / `syncWorker` -/
def unsum (x : State ⊕ State) : State := match x with | .inl s => s | .inr s => s

theorem syncQueue_frame {s : State} {q : ScqId} {comps : List Nat} {pf : Nat} {w : WId} {x : State ⊕ State}
    (hh : syncQueue s q comps pf w = .ok x) : Frame s (unsum x) := by
  rcases syncQueue_ok hh with ⟨_, rfl⟩ | ⟨_, rfl⟩ | ⟨_, _, rfl⟩ | ⟨_, _, rfl⟩
  · exact Frame.of_eq rfl rfl rfl rfl
  · exact Frame.of_ev rfl rfl rfl rfl rfl
  · exact Frame.of_eq rfl rfl rfl rfl
  · exact Frame.of_eq rfl rfl rfl rfl

theorem syncWorker_frame (s : State) (q : ScqId) (w : WId) : Frame s (unsum (syncWorker s q w)) := by
  rcases syncWorker_cases s q w with ⟨wk, _, _, e⟩ | ⟨wk, _, _, e⟩ | ⟨_, e⟩ <;> rw [e]
  · exact Frame.of_ev rfl rfl rfl rfl rfl
  · exact Frame.of_eq rfl rfl rfl rfl
  · exact Frame.of_eq rfl rfl rfl rfl

theorem syncArrive_frame {h : Hints} {s s' : State} {now : Nat} {q : ScqId} {comps : List Nat} {pf : Nat}
    {w : WId} {rep : Report} {pi : Bool} (hh : syncArrive h s now q comps pf w rep pi = .ok s') : Frame s s' := by
  obtain ⟨s1, x, h1, h2, h3⟩ := syncArrive_ok hh
  refine (enter_frame h1).trans ?_
  rcases h3 with rfl | ⟨s2, rfl, h3⟩
  · exact syncQueue_frame h2
  · refine (syncQueue_frame h2).trans ?_
    rcases h3 with h3 | ⟨s3, wk, h3, _, h4⟩
    · have := syncWorker_frame s2 q w; rw [h3] at this; exact this
    · refine (by have := syncWorker_frame s2 q w; rw [h3] at this; exact this : Frame s2 s3).trans ?_
      rcases h4 with ⟨_, rfl⟩ | ⟨_, h4⟩ | ⟨d, _, _, rfl⟩ | ⟨d, _, _, h4⟩ | ⟨d, r, tid, s4, _, _, _, h4, h5⟩ | ⟨d, r, _, _, h4⟩
      · exact (Frame.of_ev (s := s3) (s' := emit s3 (.syncErr q w cInvalidArgument)) rfl rfl rfl rfl rfl).trans (syncReturn_frame _ _ _)
      · exact getCurrentOrNext_frame h4
      · exact (Frame.of_ev (s := s3) (s' := emit s3 (.syncNoChange q w (s3.now + s3.cfg.busyInterval))) rfl rfl rfl rfl rfl).trans (syncReturn_frame _ _ _)
      · exact getCurrentOrNext_frame h4
      · exact (complete_frame h4).trans (getNextTask_frame h5)
      · exact getCurrentOrNext_frame h4

theorem syncWake_frame {h : Hints} {s s' : State} {now : Nat} {q : ScqId} {w : WId} {reason : Nat}
    (hh : syncWake h s now q w reason = .ok s') : Frame s s' := by
  obtain ⟨s1, wk, h1, _, _, h2⟩ := syncWake_ok hh
  refine (enter_frame h1).trans ?_
  rcases h2 with ⟨_, h2 | h2⟩ | ⟨_, rfl⟩ | ⟨_, _, h2 | h2⟩ | ⟨_, sq, g, _, _, _, h2⟩
  · obtain ⟨s3, _, h3, rfl⟩ := h2
    exact ((Frame.of_eq (s := s1) (s' := s1.setWorker _) rfl rfl rfl rfl).trans (execResponse_frame h3)).trans (syncReturn_frame _ _ _)
  · obtain ⟨_, rfl⟩ := h2
    exact (Frame.of_ev (s := s1) (s' := emit (s1.setWorker { wk with parked := false, woken := false, drainWait := none })
      (.syncIdle q w s1.now)) rfl rfl rfl rfl rfl).trans (syncReturn_frame _ _ _)
  · exact (Frame.of_ev (s := s1) (s' := emit (s1.setWorker { wk with parked := false, woken := false, drainWait := none })
      (.syncErr q w cCanceled)) rfl rfl rfl rfl rfl).trans (syncReturn_frame _ _ _)
  · obtain ⟨s3, _, h3, rfl⟩ := h2
    exact ((Frame.of_eq (s := s1) (s' := s1.setWorker _) rfl rfl rfl rfl).trans (execResponse_frame h3)).trans (syncReturn_frame _ _ _)
  · exact (Frame.of_eq (s := s1) (s' := s1.setWorker { wk with woken := false }) rfl rfl rfl rfl).trans (getNextTask_frame h2.2)
  · exact (Frame.of_eq (s := s1) (s' := s1.setWorker { wk with drainWait := none }) rfl rfl rfl rfl).trans (getNextTask_frame h2)

theorem killOp_frame {h : Hints} {s s' : State} {now name code : Nat} (hh : killOp h s now name code = .ok s') :
    Frame s s' := by
  obtain ⟨s1, h1, ⟨_, rfl⟩ | ⟨op, s2, _, h2, rfl⟩⟩ := killOp_ok hh
  · exact (enter_frame h1).trans (Frame.of_ev rfl rfl rfl rfl rfl)
  · exact ((enter_frame h1).trans (complete_frame h2)).trans (Frame.of_ev rfl rfl rfl rfl rfl)

theorem killQueue_frame {h : Hints} {s s' : State} {now : Nat} {q : ScqId} {code : Nat}
    (hh : killQueue h s now q code = .ok s') : Frame s s' := by
  obtain ⟨s1, h1, ⟨ev, hev, rfl⟩ | ⟨s2, h2, rfl⟩⟩ := killQueue_ok hh
  · exact (enter_frame h1).trans (Frame.of_ev rfl rfl rfl rfl hev)
  · exact ((enter_frame h1).trans (cancelAllQueued_frame h2)).trans (Frame.of_ev rfl rfl rfl rfl rfl)

theorem foldl_frame {α} (f : State → α → State) (hf : ∀ s a, Frame s (f s a)) (l : List α) (s : State) :
    Frame s (l.foldl f s) := by
  induction l generalizing s with
  | nil => exact Frame.refl _
  | cons a r ih => exact (hf s a).trans (ih _)

theorem drainWake_frame (q : ScqId) (p : Pattern) (s : State) (w : Worker) : Frame s (drainWake q p s w) := by
  unfold drainWake; split
  · exact Frame.of_eq rfl rfl rfl rfl
  · exact Frame.refl _

theorem addDrain_frame {h : Hints} {s s' : State} {now : Nat} {q : ScqId} {p : Pattern}
    (hh : addDrain h s now q p = .ok s') : Frame s s' := by
  obtain ⟨s1, h1, ⟨_, rfl⟩ | ⟨sq, _, rfl⟩⟩ := addDrain_ok hh
  · exact (enter_frame h1).trans (Frame.of_ev rfl rfl rfl rfl rfl)
  · exact (((enter_frame h1).trans (Frame.of_eq (s' := s1.setScq _) rfl rfl rfl rfl)).trans
      (foldl_frame _ (drainWake_frame q p) _ _)).trans (Frame.of_ev rfl rfl rfl rfl rfl)

theorem removeDrain_frame {h : Hints} {s s' : State} {now : Nat} {q : ScqId} {p : Pattern}
    (hh : removeDrain h s now q p = .ok s') : Frame s s' := by
  obtain ⟨s1, h1, ⟨_, rfl⟩ | ⟨sq, _, rfl⟩⟩ := removeDrain_ok hh
  · exact (enter_frame h1).trans (Frame.of_ev rfl rfl rfl rfl rfl)
  · exact (enter_frame h1).trans (Frame.of_ev rfl rfl rfl rfl rfl)

theorem termMark_frame (s : State) (w : Worker) : Frame s (termMark s w) := by
  unfold termMark
  split
  · split
    · split
      · exact Frame.of_eq rfl rfl rfl rfl
      · exact Frame.of_eq rfl rfl rfl rfl
    · exact Frame.of_eq rfl rfl rfl rfl
  · exact Frame.refl _

end BbRe.Lemmas.SchedLive
