import BbRe.Lemmas.SchedTreePrimExec
/-!
Parking a worker in `getNextTask` (`parkW`) and `worker.dequeue` (`dequeueW`) preserve the tree invariant
for the addition / removal of one parked worker.

Both primitives change the `parked` list of the node at `p` and then walk up: for every non-root prefix
`r ++ [k]` of `p`, longest first, the `ikids` of the node at `r` are adjusted at key `k`.  The loop
invariant `Stage … ms r` says: the levels strictly above `r` have not been processed yet, i.e. `pk` holds
for the new bag everywhere and `ik` holds for the new bag except at the pairs (node at `r'`, key `k`) with
`r' ++ [k] <+: r`, where it still holds for the old bag.
-/
namespace BbRe.Lemmas.SchedTree
open BbRe.Sched BbRe.SchedTree

variable {X : List (ScqId × List Nat)} {ns : List Node} {E : List EC} {I : List IC} {Q : List QC} {P : List PC}

/-! ### list facts (in a namespace of their own: sibling files prove some of them too) -/

namespace PrimPark

theorem prefixes_concat (r : List Nat) (k : Nat) : prefixes (r ++ [k]) = prefixes r ++ [r ++ [k]] := by
  induction r with
  | nil => simp [prefixes]
  | cons a r ih => simp [prefixes, ih]

theorem ups_concat (r : List Nat) (k : Nat) : ups (r ++ [k]) = (r ++ [k]) :: ups r := by
  unfold ups; rw [prefixes_concat]; simp

theorem lastKey_concat (r : List Nat) (k : Nat) : lastKey (r ++ [k]) = k := by
  simp [lastKey]

theorem concat_prefix_concat {a r : List Nat} {k k0 : Nat} :
    (a ++ [k]) <+: (r ++ [k0]) ↔ (a ++ [k]) <+: r ∨ (a = r ∧ k = k0) := by
  rw [List.prefix_concat_iff]
  constructor
  · rintro (e | e)
    · right
      have h1 := congrArg List.dropLast e
      have h2 := congrArg lastKey e
      simp only [List.dropLast_concat, lastKey_concat] at h1 h2
      exact ⟨h1, h2⟩
    · exact Or.inl e
  · rintro (e | ⟨e1, e2⟩)
    · exact Or.inr e
    · subst e1; subst e2; exact Or.inl rfl

theorem not_concat_prefix_self (r : List Nat) (k : Nat) : ¬ (r ++ [k]) <+: r := by
  intro h
  have := h.length_le
  simp at this
  omega

theorem mem_insk {k k0 : Nat} {l : List Nat} : k ∈ insk k0 l ↔ k = k0 ∨ k ∈ l := by
  unfold insk
  split
  · constructor
    · exact Or.inr
    · rintro (e | e)
      · subst e; assumption
      · exact e
  · simp only [List.mem_append, List.mem_singleton]
    constructor
    · rintro (e | e)
      · exact Or.inr e
      · exact Or.inl e
    · rintro (e | e)
      · exact Or.inr e
      · exact Or.inl e

theorem nodup_insk {k0 : Nat} {l : List Nat} (h : l.Nodup) : (insk k0 l).Nodup := by
  unfold insk
  split
  · exact h
  · rename_i hk
    rw [List.nodup_append]
    refine ⟨h, by simp, ?_⟩
    intro a ha b hb e
    simp only [List.mem_singleton] at hb
    subst hb; subst e; exact hk ha

theorem mem_erase_once {α} [BEq α] [LawfulBEq α] {a : α} {l : List α} (h1 : a ∉ l.erase a) (c : α) :
    c ∈ l.erase a ↔ c ∈ l ∧ c ≠ a := by
  constructor
  · intro hc
    refine ⟨List.mem_of_mem_erase hc, ?_⟩
    intro e; subst e; exact h1 hc
  · rintro ⟨hc, hne⟩
    exact (List.mem_erase_of_ne hne).mpr hc

/-! ### `swapRemove` -/

theorem swap_map_spec {w last : WId} : ∀ {d : List WId}, d.Nodup → last ∉ d →
    (d.map (fun x => if x = w then last else x)).Nodup ∧
      ∀ y, y ∈ d.map (fun x => if x = w then last else x) ↔ (y ∈ d ∧ y ≠ w) ∨ (y = last ∧ w ∈ d) := by
  intro d
  induction d with
  | nil => intro _ _; simp
  | cons a t ih =>
    intro hnd hl
    simp only [List.nodup_cons] at hnd
    simp only [List.mem_cons, not_or] at hl
    obtain ⟨ih1, ih2⟩ := ih hnd.2 hl.2
    simp only [List.map_cons, List.nodup_cons]
    refine ⟨⟨?_, ih1⟩, ?_⟩
    · rw [ih2]
      by_cases haw : a = w
      · subst haw; simp only [if_true]
        rintro (⟨h1, _⟩ | ⟨_, h2⟩)
        · exact hl.2 h1
        · exact hnd.1 h2
      · simp only [haw, if_false]
        rintro (⟨h1, _⟩ | ⟨h1, _⟩)
        · exact hnd.1 h1
        · exact hl.1 h1.symm
    · intro y
      simp only [List.mem_cons, ih2]
      by_cases haw : a = w
      · subst haw; simp only [if_true]
        constructor
        · rintro (e | ⟨h1, h2⟩ | ⟨h1, h2⟩)
          · exact Or.inr ⟨e, Or.inl trivial⟩
          · exact Or.inl ⟨Or.inr h1, h2⟩
          · exact Or.inr ⟨h1, Or.inr h2⟩
        · rintro (⟨h1 | h1, h2⟩ | ⟨h1, h2⟩)
          · exact absurd h1 h2
          · exact Or.inr (Or.inl ⟨h1, h2⟩)
          · exact Or.inl h1
      · simp only [haw, if_false]
        constructor
        · rintro (e | ⟨h1, h2⟩ | ⟨h1, h2⟩)
          · subst e; exact Or.inl ⟨Or.inl rfl, haw⟩
          · exact Or.inl ⟨Or.inr h1, h2⟩
          · exact Or.inr ⟨h1, Or.inr h2⟩
        · rintro (⟨h1 | h1, h2⟩ | ⟨h1, h2 | h2⟩)
          · exact Or.inl h1
          · exact Or.inr (Or.inl ⟨h1, h2⟩)
          · exact absurd h2.symm haw
          · exact Or.inr (Or.inr ⟨h1, h2⟩)

theorem swapRemove_spec {w : WId} {l : List WId} (h : l.Nodup) :
    (swapRemove w l).Nodup ∧ ∀ x, x ∈ swapRemove w l ↔ x ∈ l ∧ x ≠ w := by
  unfold swapRemove
  by_cases hw : w ∈ l
  · simp only [hw, if_true]
    rcases List.eq_nil_or_concat l with e | ⟨d, last, e⟩
    · subst e; cases hw
    · rw [List.concat_eq_append] at e
      subst e
      rw [List.nodup_append] at h
      obtain ⟨hd, _, hdl⟩ := h
      have hld : last ∉ d := fun hm => hdl last hm last (by simp) rfl
      simp only [List.getLast?_concat, List.dropLast_concat]
      by_cases hlw : last = w
      · subst hlw
        simp only [if_true]
        refine ⟨hd, fun x => ?_⟩
        simp only [List.mem_append, List.mem_singleton]
        constructor
        · intro hx; exact ⟨Or.inl hx, fun e => hld (e ▸ hx)⟩
        · rintro ⟨hx | hx, hne⟩
          · exact hx
          · exact absurd hx hne
      · simp only [hlw, if_false]
        have hwd : w ∈ d := by
          rcases List.mem_append.mp hw with e | e
          · exact e
          · simp only [List.mem_singleton] at e; exact absurd e.symm hlw
        obtain ⟨s1, s2⟩ := swap_map_spec (w := w) hd hld
        refine ⟨s1, fun x => ?_⟩
        rw [s2]
        simp only [List.mem_append, List.mem_singleton]
        constructor
        · rintro (⟨h1, h2⟩ | ⟨h1, _⟩)
          · exact ⟨Or.inl h1, h2⟩
          · exact ⟨Or.inr h1, fun e => hlw (h1 ▸ e)⟩
        · rintro ⟨h1 | h1, h2⟩
          · exact Or.inl ⟨h1, h2⟩
          · exact Or.inr ⟨h1, hwd⟩
  · simp only [hw, if_false]
    refine ⟨h, fun x => ?_⟩
    constructor
    · intro hx; exact ⟨hx, fun e => hw (e ▸ hx)⟩
    · exact fun hx => hx.1

end PrimPark
open PrimPark

/-! ### maps that only change `parked` and `ikids` -/

/-- `g` changes nothing but `parked`, `ikids` (and the fields the invariant does not mention) -/
def ParkFrame (g : Node → Node) : Prop :=
  ∀ n, (g n).scq = n.scq ∧ (g n).path = n.path ∧ (g n).qops = n.qops ∧ (g n).qkids = n.qkids ∧
    (g n).exec = n.exec ∧ (g n).idle = n.idle

theorem ParkFrame.keepsKey {g : Node → Node} (hg : ParkFrame g) : KeepsKey g :=
  fun n => ⟨(hg n).1, (hg n).2.1⟩

theorem ParkFrame.comp {g s : Node → Node} (hg : ParkFrame g) (hs : ParkFrame s) :
    ParkFrame (fun n => s (g n)) := by
  intro n
  obtain ⟨a1, a2, a3, a4, a5, a6⟩ := hg n
  obtain ⟨b1, b2, b3, b4, b5, b6⟩ := hs (g n)
  exact ⟨b1.trans a1, b2.trans a2, b3.trans a3, b4.trans a4, b5.trans a5, b6.trans a6⟩

theorem ParkFrame.ite {c : Node → Bool} {f : Node → Node} (hf : ParkFrame f) :
    ParkFrame (fun n => if c n then f n else n) := by
  intro n
  by_cases h : c n = true
  · simp only [h, if_true]; exact hf n
  · simp only [h]; exact ⟨rfl, rfl, rfl, rfl, rfl, rfl⟩

theorem ParkFrame.isEmptyInv {g : Node → Node} (hg : ParkFrame g) (n : Node) :
    (g n).isEmptyInv = n.isEmptyInv := by
  obtain ⟨_, _, a3, a4, a5, a6⟩ := hg n
  simp only [Node.isEmptyInv, Node.isActive, Node.isQueued, a3, a4, a5, a6]

/-- the invariant after a map that only changes `parked` / `ikids`: only `pk` and `ik` are to be shown -/
theorem TreeOK.of_parkFrame (h : TreeOK X ns E I Q P) (g : Node → Node) (hg : ParkFrame g) (P' : List PC)
    (hpk : ∀ m ∈ ns.map g, m.parked.Nodup ∧ ∀ w, w ∈ m.parked ↔ (m.scq, m.path, w) ∈ P')
    (hik : ∀ m ∈ ns.map g, m.ikids.Nodup ∧
      ∀ k, k ∈ m.ikids ↔ ∃ c ∈ P', c.1 = m.scq ∧ (m.path ++ [k]) <+: c.2.1)
    (hrP : ∀ c ∈ P', (node? ns c.1 c.2.1).isSome = true)
    (hpi : ∀ c ∈ P', (c.1, c.2.1) ∈ I) : TreeOK X (ns.map g) E I Q P' := by
  apply h.of_map g hg.keepsKey
  · intro n hn k; rw [(hg n).2.2.2.2.1]; exact h.ex n hn k
  · intro n hn; rw [(hg n).2.2.2.2.1]; exact h.exnd n hn
  · intro n hn; rw [(hg n).2.2.2.2.2]; exact h.id n hn
  · intro n hn; rw [(hg n).2.2.1]; exact h.qo n hn
  · intro n hn; rw [(hg n).2.2.2.1]; exact h.qk n hn
  · intro n hn
    have := hpk (g n) (List.mem_map_of_mem hn)
    rw [(hg n).1, (hg n).2.1] at this; exact this
  · intro n hn
    have := hik (g n) (List.mem_map_of_mem hn)
    rw [(hg n).1, (hg n).2.1] at this; exact this
  · intro n hn hp hx; rw [hg.isEmptyInv]; exact h.ne n hn hp hx
  · exact h.rfE
  · exact h.rfI
  · exact h.rfQ
  · exact hrP
  · exact hpi

/-! ### the loop invariant -/

/-- State of the walk from `p` up to the root when the levels above `r` are still to be processed:
`Po` / `Pn` = bag of parked workers before / after the change. -/
structure Stage (ns : List Node) (q : ScqId) (p : List Nat) (Po Pn : List PC) (ms : List Node)
    (r : List Nat) : Prop where
  pre : r <+: p
  fr : ∃ g, ParkFrame g ∧ ms = ns.map g
  pk : ∀ m ∈ ms, m.parked.Nodup ∧ ∀ w, w ∈ m.parked ↔ (m.scq, m.path, w) ∈ Pn
  ik : ∀ m ∈ ms, m.ikids.Nodup ∧ ∀ k, k ∈ m.ikids ↔
    ∃ c ∈ (if m.scq = q ∧ (m.path ++ [k]) <+: r then Po else Pn), c.1 = m.scq ∧ (m.path ++ [k]) <+: c.2.1

variable {q : ScqId} {p : List Nat} {Po Pn : List PC}

/-- all levels processed: the invariant holds for the new bag -/
theorem Stage.final {ms : List Node} (hs : Stage ns q p Po Pn ms []) (h : TreeOK X ns E I Q P)
    (hrP : ∀ c ∈ Pn, (node? ns c.1 c.2.1).isSome = true) (hpi : ∀ c ∈ Pn, (c.1, c.2.1) ∈ I) :
    TreeOK X ms E I Q Pn := by
  obtain ⟨g, hg, e⟩ := hs.fr
  have hpk := hs.pk
  have hik := hs.ik
  subst e
  apply h.of_parkFrame g hg Pn hpk ?_ hrP hpi
  intro m hm
  refine ⟨(hik m hm).1, fun k => ?_⟩
  have := (hik m hm).2 k
  rw [if_neg (by simp)] at this
  exact this

/-- the walk: `step` takes the stage at `r ++ [k]` to the stage at `r` -/
theorem stage_fold {S : List Node → List Nat → Prop} {step : List Node → List Nat → List Node}
    (hstep : ∀ ms r k, S ms (r ++ [k]) → S (step ms (r ++ [k])) r) :
    ∀ (n : Nat) (r : List Nat), r.length = n → ∀ ms, S ms r → S ((ups r).foldl step ms) [] := by
  intro n
  induction n with
  | zero =>
    intro r hr ms hs
    have : r = [] := List.length_eq_zero_iff.mp hr
    subst this
    exact hs
  | succ n ih =>
    intro r hr ms hs
    rcases List.eq_nil_or_concat r with e | ⟨r', k, e⟩
    · subst e; simp at hr
    · rw [List.concat_eq_append] at e
      subst e
      rw [ups_concat, List.foldl_cons]
      apply ih r' (by simp at hr; exact hr)
      exact hstep ms r' k hs

/-- one level: the node at `r` gets new `ikids` that are right at key `k0` for the new bag and
unchanged at all other keys -/
theorem Stage.step {ms : List Node} {r : List Nat} {k0 : Nat} (hs : Stage ns q p Po Pn ms (r ++ [k0]))
    (f : Node → Node) (hf : ParkFrame f) (hfp : ∀ n, (f n).parked = n.parked)
    (hfi : ∀ m ∈ ms, m.scq = q → m.path = r → (f m).ikids.Nodup ∧
      (∀ k, k ≠ k0 → (k ∈ (f m).ikids ↔ k ∈ m.ikids)) ∧
      (k0 ∈ (f m).ikids ↔ ∃ c ∈ Pn, c.1 = q ∧ (r ++ [k0]) <+: c.2.1)) :
    Stage ns q p Po Pn (updNode ms q r f) r := by
  refine ⟨(List.prefix_append r [k0]).trans hs.pre, ?_, ?_, ?_⟩
  · obtain ⟨g, hg, e⟩ := hs.fr
    refine ⟨_, hg.comp (ParkFrame.ite (c := fun n => n.isAt q r) hf), ?_⟩
    rw [updNode_eq_map, e, List.map_map]; rfl
  · intro m' hm'
    obtain ⟨m, hm, e⟩ := mem_updNode.mp hm'
    have hk := hs.pk m hm
    by_cases hat : m.isAt q r = true
    · rw [if_pos hat] at e; subst m'
      rw [hfp, (hf m).1, (hf m).2.1]; exact hk
    · rw [if_neg hat] at e; subst m'; exact hk
  · intro m' hm'
    obtain ⟨m, hm, e⟩ := mem_updNode.mp hm'
    have hk := hs.ik m hm
    by_cases hat : m.isAt q r = true
    · rw [if_pos hat] at e; subst m'
      obtain ⟨hq, hp⟩ := (isAt_iff m q r).mp hat
      obtain ⟨f1, f2, f3⟩ := hfi m hm hq hp
      refine ⟨f1, fun k => ?_⟩
      rw [(hf m).1, (hf m).2.1, hp, hq]
      rw [if_neg (fun x => not_concat_prefix_self r k x.2)]
      by_cases hkk : k = k0
      · subst hkk; exact f3
      · rw [f2 k hkk, hk.2 k, hp, hq]
        rw [if_neg]
        rintro ⟨_, x⟩
        rcases concat_prefix_concat.mp x with x | x
        · exact not_concat_prefix_self r k x
        · exact hkk x.2
    · rw [if_neg hat] at e; subst m'
      refine ⟨hk.1, fun k => ?_⟩
      have hcond : (m.scq = q ∧ (m.path ++ [k]) <+: r ++ [k0]) ↔ (m.scq = q ∧ (m.path ++ [k]) <+: r) := by
        constructor
        · rintro ⟨h1, h2⟩
          rcases concat_prefix_concat.mp h2 with x | x
          · exact ⟨h1, x⟩
          · exact absurd ((isAt_iff m q r).mpr ⟨h1, x.1⟩) hat
        · rintro ⟨h1, h2⟩
          exact ⟨h1, concat_prefix_concat.mpr (Or.inl h2)⟩
      have := hk.2 k
      by_cases hc : (m.scq = q ∧ (m.path ++ [k]) <+: r)
      · rw [if_pos hc]; rw [if_pos (hcond.mpr hc)] at this; exact this
      · rw [if_neg hc]; rw [if_neg (fun x => hc (hcond.mp x))] at this; exact this

/-- before the walk: the node at `p` has its new `parked` list; the bags differ at `(q, p)` only -/
theorem Stage.init (h : TreeOK X ns E I Q P) (q : ScqId) (p : List Nat) (Pn : List PC)
    (f : List WId → List WId)
    (hoff : ∀ c : PC, ¬ (c.1 = q ∧ c.2.1 = p) → (c ∈ Pn ↔ c ∈ P))
    (hon : ∀ l : List WId, l.Nodup → (∀ x, x ∈ l ↔ (q, p, x) ∈ P) →
      (f l).Nodup ∧ ∀ x, x ∈ f l ↔ (q, p, x) ∈ Pn) :
    Stage ns q p P Pn (updNode ns q p (fun n => { n with parked := f n.parked })) p := by
  refine ⟨List.prefix_refl p, ⟨_, ParkFrame.ite (c := fun n => n.isAt q p)
    (f := fun n => { n with parked := f n.parked }) (fun n => ⟨rfl, rfl, rfl, rfl, rfl, rfl⟩), rfl⟩, ?_, ?_⟩
  · intro m' hm'
    obtain ⟨m, hm, e⟩ := mem_updNode.mp hm'
    have hk := h.pk m hm
    by_cases hat : m.isAt q p = true
    · rw [if_pos hat] at e; subst m'
      obtain ⟨hq, hp⟩ := (isAt_iff m q p).mp hat
      show (f m.parked).Nodup ∧ ∀ x, x ∈ f m.parked ↔ (m.scq, m.path, x) ∈ Pn
      rw [hq, hp] at hk ⊢
      exact hon m.parked hk.1 hk.2
    · rw [if_neg hat] at e; subst m'
      refine ⟨hk.1, fun x => ?_⟩
      rw [hk.2 x]
      exact (hoff (m.scq, m.path, x) (fun hc => hat ((isAt_iff m q p).mpr hc))).symm
  · intro m' hm'
    obtain ⟨m, hm, e⟩ := mem_updNode.mp hm'
    have hk := h.ik m hm
    have hsame : m'.ikids = m.ikids ∧ m'.scq = m.scq ∧ m'.path = m.path := by
      by_cases hat : m.isAt q p = true
      · rw [if_pos hat] at e; subst m'; exact ⟨rfl, rfl, rfl⟩
      · rw [if_neg hat] at e; subst m'; exact ⟨rfl, rfl, rfl⟩
    rw [hsame.1, hsame.2.1, hsame.2.2]
    refine ⟨hk.1, fun k => ?_⟩
    rw [hk.2 k]
    by_cases hc : m.scq = q ∧ (m.path ++ [k]) <+: p
    · rw [if_pos hc]
    · rw [if_neg hc]
      have hne : ∀ c : PC, c.1 = m.scq ∧ (m.path ++ [k]) <+: c.2.1 → ¬ (c.1 = q ∧ c.2.1 = p) := by
        rintro c ⟨c1, c2⟩ ⟨c3, c4⟩
        exact hc ⟨c1.symm.trans c3, c4 ▸ c2⟩
      constructor
      · rintro ⟨c, hc1, hc2⟩; exact ⟨c, (hoff c (hne c hc2)).mpr hc1, hc2⟩
      · rintro ⟨c, hc1, hc2⟩; exact ⟨c, (hoff c (hne c hc2)).mp hc1, hc2⟩

/-! ### parking -/

/-- parking in `getNextTask` (`idleSynchronizingWorkers.enqueue` + the `heapPushOrFix` loop): worker `w`
is now parked at `(q, p)` -/
theorem parkW_ok (h : TreeOK X ns E I Q P) (q : ScqId) (p : List Nat) (w : WId)
    (hn : (node? ns q p).isSome = true) (hI : (q, p) ∈ I) (hw : (q, p, w) ∉ P) :
    TreeOK X (parkW ns q p w) E I Q ((q, p, w) :: P) := by
  have h0 : Stage ns q p P ((q, p, w) :: P)
      (updNode ns q p (fun n => { n with parked := n.parked ++ [w] })) p := by
    apply Stage.init h q p ((q, p, w) :: P) (fun l => l ++ [w])
    · intro c hc
      rw [List.mem_cons]
      constructor
      · rintro (e | e)
        · subst e; exact absurd ⟨rfl, rfl⟩ hc
        · exact e
      · exact Or.inr
    · intro l hnd hl
      have hwl : w ∉ l := fun hx => hw ((hl w).mp hx)
      refine ⟨?_, fun x => ?_⟩
      · rw [List.nodup_append]
        refine ⟨hnd, by simp, ?_⟩
        intro a ha b hb e
        simp only [List.mem_singleton] at hb
        subst hb; subst e; exact hwl ha
      · simp only [List.mem_append, List.mem_cons, List.not_mem_nil, or_false, Prod.mk.injEq, true_and, hl x]
        exact Or.comm
  have hfold := stage_fold (S := Stage ns q p P ((q, p, w) :: P)) (step := parkStep q) (by
    intro ms r k0 hs
    unfold parkStep
    rw [List.dropLast_concat, lastKey_concat]
    apply hs.step (fun n => { n with ikids := insk k0 n.ikids }) (fun n => ⟨rfl, rfl, rfl, rfl, rfl, rfl⟩)
      (fun n => rfl)
    intro m hm hq hp
    have hk := hs.ik m hm
    refine ⟨nodup_insk hk.1, fun k hkk => ?_, ?_⟩
    · show k ∈ insk k0 m.ikids ↔ _
      rw [mem_insk]
      constructor
      · rintro (e | e)
        · exact absurd e hkk
        · exact e
      · exact Or.inr
    · show k0 ∈ insk k0 m.ikids ↔ _
      constructor
      · intro _; exact ⟨(q, p, w), List.mem_cons_self, rfl, hs.pre⟩
      · intro _; exact mem_insk.mpr (Or.inl rfl)) p.length p rfl _ h0
  apply hfold.final h
  · intro c hc
    rcases List.mem_cons.mp hc with e | e
    · subst e; exact hn
    · exact h.rfP c e
  · intro c hc
    rcases List.mem_cons.mp hc with e | e
    · subst e; exact hI
    · exact h.pi c e

/-! ### dequeueing -/

/-- in the stage at `r`, the node at `r` has neither parked workers nor `ikids` iff no worker of the new
bag is parked at or below it -/
theorem Stage.dead_iff {ms : List Node} {r : List Nat} (hs : Stage ns q p Po Pn ms r) {i : Node}
    (hi : i ∈ ms) (hq : i.scq = q) (hp : i.path = r) :
    (i.parked.isEmpty && i.ikids.isEmpty) = true ↔ ¬ ∃ c ∈ Pn, c.1 = q ∧ r <+: c.2.1 := by
  have hpk := hs.pk i hi
  have hik : ∀ k, k ∈ i.ikids ↔ ∃ c ∈ Pn, c.1 = q ∧ (r ++ [k]) <+: c.2.1 := by
    intro k
    have := (hs.ik i hi).2 k
    rw [hp, hq, if_neg (fun x => not_concat_prefix_self r k x.2)] at this
    exact this
  rw [hq, hp] at hpk
  simp only [Bool.and_eq_true, List.isEmpty_iff]
  constructor
  · rintro ⟨e1, e2⟩ ⟨c, hc, c1, c2⟩
    obtain ⟨t, ht⟩ := c2
    cases t with
    | nil =>
      have e : c.2.1 = r := by simpa using ht.symm
      have : c.2.2 ∈ i.parked := (hpk.2 c.2.2).mpr (by rw [← c1, ← e]; exact hc)
      rw [e1] at this; cases this
    | cons k t' =>
      have : k ∈ i.ikids := (hik k).mpr ⟨c, hc, c1, ⟨t', by rw [← ht]; simp⟩⟩
      rw [e2] at this; cases this
  · intro hd
    constructor
    · apply List.eq_nil_iff_forall_not_mem.mpr
      intro x hx
      exact hd ⟨(q, r, x), (hpk.2 x).mp hx, rfl, List.prefix_refl _⟩
    · apply List.eq_nil_iff_forall_not_mem.mpr
      intro k hk
      obtain ⟨c, hc, c1, c2⟩ := (hik k).mp hk
      exact hd ⟨c, hc, c1, (List.prefix_append r [k]).trans c2⟩

/-- `worker.dequeue`: worker `w` is no longer parked at `(q, p)` -/
theorem dequeueW_ok (h : TreeOK X ns E I Q P) (q : ScqId) (p : List Nat) (w : WId)
    (hc : (q, p, w) ∈ P) (h1 : (q, p, w) ∉ P.erase (q, p, w)) :
    TreeOK X (dequeueW ns q p w) E I Q (P.erase (q, p, w)) := by
  have hmem := mem_erase_once h1
  have hnp : (node? ns q p).isSome = true := h.rfP _ hc
  have h0 : Stage ns q p P (P.erase (q, p, w))
      (updNode ns q p (fun n => { n with parked := swapRemove w n.parked })) p := by
    apply Stage.init h q p _ (fun l => swapRemove w l)
    · intro c hcc
      rw [hmem]
      constructor
      · exact fun x => x.1
      · intro hx; exact ⟨hx, fun e => hcc (by subst e; exact ⟨rfl, rfl⟩)⟩
    · intro l hnd hl
      obtain ⟨s1, s2⟩ := swapRemove_spec (w := w) hnd
      refine ⟨s1, fun x => ?_⟩
      rw [s2, hmem, hl x]
      simp only [ne_eq, Prod.mk.injEq, true_and]
  have hfold := stage_fold (S := Stage ns q p P (P.erase (q, p, w))) (step := unparkStep q) (by
    intro ms r k0 hs
    obtain ⟨g, hg, e⟩ := hs.fr
    have hex : (node? ms q (r ++ [k0])).isSome = true := by
      rw [e, node?_map hg.keepsKey, Option.isSome_map]
      exact h.prefix_exists p hnp _ hs.pre
    unfold unparkStep
    cases hi : node? ms q (r ++ [k0]) with
    | none => rw [hi] at hex; cases hex
    | some i =>
      obtain ⟨him, hiq, hip⟩ := node?_some hi
      have hd := hs.dead_iff him hiq hip
      show Stage ns q p P (P.erase (q, p, w)) (if (i.parked.isEmpty && i.ikids.isEmpty) = true then _ else ms) r
      by_cases hdead : (i.parked.isEmpty && i.ikids.isEmpty) = true
      · rw [if_pos hdead, List.dropLast_concat, lastKey_concat]
        apply hs.step (fun n => { n with ikids := n.ikids.erase k0 })
          (fun n => ⟨rfl, rfl, rfl, rfl, rfl, rfl⟩) (fun n => rfl)
        intro m hm hq hp
        have hk := hs.ik m hm
        refine ⟨hk.1.erase k0, fun k hkk => List.mem_erase_of_ne hkk, ?_⟩
        show k0 ∈ m.ikids.erase k0 ↔ _
        constructor
        · intro hx; exact absurd rfl ((List.Nodup.mem_erase_iff hk.1).mp hx).1
        · intro hx; exact absurd hx (hd.mp hdead)
      · rw [if_neg hdead]
        have hst := hs.step (fun n => n) (fun n => ⟨rfl, rfl, rfl, rfl, rfl, rfl⟩) (fun n => rfl) (by
          intro m hm hq hp
          have hk := hs.ik m hm
          refine ⟨hk.1, fun k _ => Iff.rfl, ?_⟩
          have hk0 := hk.2 k0
          rw [if_pos ⟨hq, by rw [hp]; exact List.prefix_refl _⟩, hq, hp] at hk0
          have hex2 : ∃ c ∈ P.erase (q, p, w), c.1 = q ∧ (r ++ [k0]) <+: c.2.1 :=
            Classical.not_not.mp (fun x => hdead (hd.mpr x))
          constructor
          · intro _; exact hex2
          · intro _
            obtain ⟨c, c1, c2⟩ := hex2
            exact hk0.mpr ⟨c, List.mem_of_mem_erase c1, c2⟩)
        have e2 : updNode ms q r (fun n => n) = ms := by unfold updNode; simp
        rw [e2] at hst; exact hst) p.length p rfl _ h0
  apply hfold.final h
  · intro c hc'; exact h.rfP c (List.mem_of_mem_erase hc')
  · intro c hc'; exact h.pi c (List.mem_of_mem_erase hc')

end BbRe.Lemmas.SchedTree
