/-
Soundness of the lock-skeleton checker (property C14, part a).

`checker_sound`: if `consistent sig prog = true` then every returning execution of
every function `f` of `prog`, replayed from the entry requirement `req f`, never
releases a lock that is not held, touches guarded state (`need cs`) only while a lock of
one of the classes `cs` is held, and ends holding (a permutation of) `post f`.
Core Lean only.
-/
import BbRe.Model.LockSkel

namespace BbRe.Lemmas.LockSkel
open BbRe.LockSkel

/-! ## Multiset facts -/

theorem insertS_perm (l : Nat) (h : List Nat) : (insertS l h).Perm (l :: h) := by
  induction h with
  | nil => exact List.Perm.refl _
  | cons x xs ih =>
    unfold insertS
    split
    · exact List.Perm.refl _
    · exact (List.Perm.cons x ih).trans (List.Perm.swap l x xs)

theorem addAll_perm (h xs : List Nat) : (addAll h xs).Perm (xs ++ h) := by
  induction xs with
  | nil => exact List.Perm.refl _
  | cons x xs ih =>
    show (insertS x (addAll h xs)).Perm (x :: (xs ++ h))
    exact (insertS_perm x _).trans (List.Perm.cons x ih)

theorem sortS_perm (xs : List Nat) : (sortS xs).Perm xs := by
  have := addAll_perm [] xs
  simpa [addAll, sortS] using this

theorem contains_of_perm {h1 h2 : List Nat} (p : h1.Perm h2) (l : Nat) :
    h1.contains l = h2.contains l := by
  rw [Bool.eq_iff_iff, List.contains_iff_mem, List.contains_iff_mem]
  exact p.mem_iff

theorem removeAll_perm : ∀ (xs h h' : List Nat), removeAll h xs = some h' → h.Perm (xs ++ h')
  | [], h, h', e => by
    simp only [removeAll, Option.some.injEq] at e
    subst e; exact List.Perm.refl _
  | x :: xs, h, h', e => by
    unfold removeAll at e
    split at e
    · rename_i hc
      have hm : x ∈ h := List.contains_iff_mem.mp hc
      exact (List.perm_cons_erase hm).trans (List.Perm.cons x (removeAll_perm xs _ _ e))
    · cases e

/-! ## Guard classes, ghosts, renamings -/

theorem holdsClass_iff {h cs : List Nat} :
    holdsClass h cs = true ↔ ∃ l, l ∈ h ∧ cs.contains (gcls l) = true := by
  unfold holdsClass; exact List.any_eq_true

theorem holdsClass_mono {h1 h2 cs : List Nat} (sub : ∀ l, l ∈ h1 → l ∈ h2)
    (hc : holdsClass h1 cs = true) : holdsClass h2 cs = true := by
  rw [holdsClass_iff] at hc ⊢
  obtain ⟨l, hl, hcl⟩ := hc
  exact ⟨l, sub l hl, hcl⟩

theorem holdsClass_perm {h1 h2 : List Nat} (p : h1.Perm h2) (cs : List Nat) :
    holdsClass h1 cs = holdsClass h2 cs := by
  rw [Bool.eq_iff_iff]
  exact ⟨holdsClass_mono (fun _ => p.mem_iff.mp), holdsClass_mono (fun _ => p.mem_iff.mpr)⟩

theorem mem_of_lookup {α : Type} (f : Nat) (b : α) :
    ∀ (l : List (Nat × α)), l.lookup f = some b → (f, b) ∈ l
  | [], e => by cases e
  | (k, x) :: rest, e => by
    rw [List.lookup_cons] at e
    split at e
    · rename_i hk
      cases e
      have : f = k := by simpa using hk
      subst this
      exact List.mem_cons_self
    · exact List.mem_cons_of_mem _ (mem_of_lookup f b rest e)

theorem renOk_mem {ren : List (Nat × Nat)} (hr : renOk ren = true) {a b : Nat}
    (hm : (a, b) ∈ ren) : gcls a = gcls b ∧ isGhost a = false ∧ isGhost b = false := by
  unfold renOk at hr
  have := List.all_eq_true.mp hr _ hm
  simp only [Bool.and_eq_true, beq_iff_eq, Bool.not_eq_true'] at this
  exact ⟨this.1.1, this.1.2, this.2⟩

theorem rn_cases (ren : List (Nat × Nat)) (l : Nat) : rn ren l = l ∨ (l, rn ren l) ∈ ren := by
  unfold rn
  split
  · rename_i l' hl; exact Or.inr (mem_of_lookup l l' ren hl)
  · exact Or.inl rfl

theorem rn_gcls {ren : List (Nat × Nat)} (hr : renOk ren = true) (l : Nat) :
    gcls (rn ren l) = gcls l := by
  rcases rn_cases ren l with h | h
  · rw [h]
  · exact (renOk_mem hr h).1.symm

theorem rn_isGhost {ren : List (Nat × Nat)} (hr : renOk ren = true) (l : Nat) :
    isGhost (rn ren l) = isGhost l := by
  rcases rn_cases ren l with h | h
  · rw [h]
  · rw [(renOk_mem hr h).2.1, (renOk_mem hr h).2.2]

theorem rn_ghost {ren : List (Nat × Nat)} (hr : renOk ren = true) {l : Nat}
    (hg : isGhost l = true) : rn ren l = l := by
  rcases rn_cases ren l with h | h
  · exact h
  · rw [(renOk_mem hr h).2.1] at hg; cases hg

theorem holdsClass_map {ren : List (Nat × Nat)} (hr : renOk ren = true) (h cs : List Nat) :
    holdsClass (h.map (rn ren)) cs = holdsClass h cs := by
  unfold holdsClass
  rw [List.any_map]
  congr 1
  funext l
  simp only [Function.comp, rn_gcls hr]

theorem filter_ng_map {ren : List (Nat × Nat)} (hr : renOk ren = true) (xs : List Nat) :
    (xs.map (rn ren)).filter (fun l => !isGhost l)
      = (xs.filter (fun l => !isGhost l)).map (rn ren) := by
  rw [List.filter_map]
  congr 1
  apply List.filter_congr
  intro x _
  simp only [Function.comp, rn_isGhost hr]

/-- The lock an event operates on (directly or through a pile). -/
def evLock : Ev → Option Nat
  | .acq l => some l
  | .rel l => some l
  | .pacq _ l => some l
  | .prel _ l => some l
  | .need _ => none

/-- acq/rel events (plain or through a pile) never mention a ghost lock -/
def GhostFree (tr : List Ev) : Prop := ∀ e ∈ tr, ∀ l, evLock e = some l → isGhost l = false

theorem ghostFree_nil : GhostFree [] := by intro e he; cases he

theorem ghostFree_append {t1 t2 : List Ev} (h1 : GhostFree t1) (h2 : GhostFree t2) :
    GhostFree (t1 ++ t2) := by
  intro e he
  rcases List.mem_append.mp he with h | h
  · exact h1 e h
  · exact h2 e h

theorem ghostFree_single {e : Ev} (h : ∀ l, evLock e = some l → isGhost l = false) :
    GhostFree [e] := by
  intro e' he
  rw [List.mem_singleton] at he; subst he
  exact h

theorem ghostFree_acq {l : Nat} (hl : isGhost l = false) : GhostFree [.acq l] :=
  ghostFree_single (fun l' h => by simp only [evLock, Option.some.injEq] at h; subst h; exact hl)

theorem ghostFree_rel {l : Nat} (hl : isGhost l = false) : GhostFree [.rel l] :=
  ghostFree_single (fun l' h => by simp only [evLock, Option.some.injEq] at h; subst h; exact hl)

theorem ghostFree_pacq {p l : Nat} (hl : isGhost l = false) : GhostFree [.pacq p l] :=
  ghostFree_single (fun l' h => by simp only [evLock, Option.some.injEq] at h; subst h; exact hl)

theorem ghostFree_prel {p l : Nat} (hl : isGhost l = false) : GhostFree [.prel p l] :=
  ghostFree_single (fun l' h => by simp only [evLock, Option.some.injEq] at h; subst h; exact hl)

theorem ghostFree_need (cs : List Nat) : GhostFree [.need cs] :=
  ghostFree_single (fun l' h => by simp only [evLock] at h; cases h)

theorem ghostFree_prels (p : Nat) {xs : List Nat} (hx : ∀ l ∈ xs, isGhost l = false) :
    GhostFree (xs.map (Ev.prel p)) := by
  intro e he
  obtain ⟨l, hl, rfl⟩ := List.mem_map.mp he
  intro l' h
  simp only [evLock, Option.some.injEq] at h
  subst h; exact hx l hl

theorem ghostFree_tail {e : Ev} {t : List Ev} (h : GhostFree (e :: t)) : GhostFree t :=
  fun x hx => h x (List.mem_cons_of_mem _ hx)

theorem ghostFree_head {e : Ev} {l : Nat} {t : List Ev} (h : GhostFree (e :: t))
    (hl : evLock e = some l) : isGhost l = false := h e List.mem_cons_self l hl

theorem evLock_rnEv (ren : List (Nat × Nat)) (e : Ev) :
    evLock (rnEv ren e) = (evLock e).map (rn ren) := by
  cases e <;> rfl

theorem ghostFree_rename {ren : List (Nat × Nat)} (hr : renOk ren = true) {t : List Ev}
    (h : GhostFree t) : GhostFree (t.map (rnEv ren)) := by
  intro e he l hl
  obtain ⟨e0, he0, rfl⟩ := List.mem_map.mp he
  rw [evLock_rnEv] at hl
  cases h0 : evLock e0 with
  | none => rw [h0] at hl; cases hl
  | some l0 =>
    rw [h0] at hl
    simp only [Option.map_some, Option.some.injEq] at hl
    subst hl
    rw [rn_isGhost hr]; exact h e0 he0 l0 h0

/-! ## Replay facts -/

theorem run_append (h : List Nat) (t1 t2 : List Ev) :
    run h (t1 ++ t2) = (run h t1).bind (fun h1 => run h1 t2) := by
  induction t1 generalizing h with
  | nil => rfl
  | cons e t ih =>
    simp only [List.cons_append, run]
    cases stepH h e with
    | none => rfl
    | some h1 => exact ih h1

theorem run_append_some {h h1 h2 : List Nat} {t1 t2 : List Ev}
    (e1 : run h t1 = some h1) (e2 : run h1 t2 = some h2) : run h (t1 ++ t2) = some h2 := by
  rw [run_append, e1]; exact e2

/-- Replay is invariant under permutation of the held list and under adding a frame. -/
theorem run_frame : ∀ (t : List Ev) (h1 h1' h2 fr : List Nat),
    run h1 t = some h1' → h2.Perm (h1 ++ fr) →
    ∃ h2', run h2 t = some h2' ∧ h2'.Perm (h1' ++ fr)
  | [], h1, h1', h2, fr, e, p => by
    simp only [run, Option.some.injEq] at e
    subst e; exact ⟨h2, rfl, p⟩
  | .acq l :: t, h1, h1', h2, fr, e, p => by
    simp only [run, stepH] at e ⊢
    exact run_frame t (l :: h1) h1' (l :: h2) fr e (List.Perm.cons l p)
  | .rel l :: t, h1, h1', h2, fr, e, p => by
    simp only [run, stepH] at e ⊢
    by_cases hc : h1.contains l = true
    · rw [if_pos hc] at e
      have hm : l ∈ h1 := List.contains_iff_mem.mp hc
      have hm2 : l ∈ h2 := p.mem_iff.mpr (List.mem_append_left fr hm)
      rw [if_pos (List.contains_iff_mem.mpr hm2)]
      refine run_frame t (h1.erase l) h1' (h2.erase l) fr e ?_
      have := List.Perm.erase l p
      rwa [List.erase_append_left fr hm] at this
    · rw [if_neg hc] at e; cases e
  | .pacq _ l :: t, h1, h1', h2, fr, e, p => by
    simp only [run, stepH] at e ⊢
    exact run_frame t (l :: h1) h1' (l :: h2) fr e (List.Perm.cons l p)
  | .prel _ l :: t, h1, h1', h2, fr, e, p => by
    simp only [run, stepH] at e ⊢
    by_cases hc : h1.contains l = true
    · rw [if_pos hc] at e
      have hm : l ∈ h1 := List.contains_iff_mem.mp hc
      have hm2 : l ∈ h2 := p.mem_iff.mpr (List.mem_append_left fr hm)
      rw [if_pos (List.contains_iff_mem.mpr hm2)]
      refine run_frame t (h1.erase l) h1' (h2.erase l) fr e ?_
      have := List.Perm.erase l p
      rwa [List.erase_append_left fr hm] at this
    · rw [if_neg hc] at e; cases e
  | .need cs :: t, h1, h1', h2, fr, e, p => by
    simp only [run, stepH] at e ⊢
    by_cases hc : holdsClass h1 cs = true
    · rw [if_pos hc] at e
      have hc2 : holdsClass h2 cs = true :=
        holdsClass_mono (fun l hl => p.mem_iff.mpr (List.mem_append_left fr hl)) hc
      rw [if_pos hc2]
      exact run_frame t h1 h1' h2 fr e p
    · rw [if_neg hc] at e; cases e

theorem run_perm {t : List Ev} {h1 h1' h2 : List Nat}
    (e : run h1 t = some h1') (p : h2.Perm h1) :
    ∃ h2', run h2 t = some h2' ∧ h2'.Perm h1' := by
  have := run_frame t h1 h1' h2 [] e (by simpa using p)
  simpa using this

theorem map_erase_perm (r : Nat → Nat) {l : Nat} {h : List Nat} (hm : l ∈ h) :
    ((h.map r).erase (r l)).Perm ((h.erase l).map r) := by
  have p1 : (h.map r).Perm (r l :: (h.erase l).map r) := by
    simpa using List.Perm.map r (List.perm_cons_erase hm)
  have := List.Perm.erase (r l) p1
  simpa using this

/-- Replay commutes with (not necessarily injective) class-preserving renaming of lock names. -/
theorem run_rename (ren : List (Nat × Nat)) (hr : renOk ren = true) :
    ∀ (t : List Ev) (h h' : List Nat),
    run h t = some h' →
    ∃ g', run (h.map (rn ren)) (t.map (rnEv ren)) = some g' ∧ g'.Perm (h'.map (rn ren))
  | [], h, h', e => by
    simp only [run, Option.some.injEq] at e
    subst e; exact ⟨_, rfl, List.Perm.refl _⟩
  | .acq l :: t, h, h', e => by
    simp only [run, stepH, List.map_cons, rnEv] at e ⊢
    exact run_rename ren hr t (l :: h) h' e
  | .rel l :: t, h, h', e => by
    simp only [run, stepH, List.map_cons, rnEv] at e ⊢
    by_cases hc : h.contains l = true
    · rw [if_pos hc] at e
      have hm : l ∈ h := List.contains_iff_mem.mp hc
      have hm2 : rn ren l ∈ h.map (rn ren) := List.mem_map.mpr ⟨l, hm, rfl⟩
      rw [if_pos (List.contains_iff_mem.mpr hm2)]
      obtain ⟨g1, e1, p1⟩ := run_rename ren hr t (h.erase l) h' e
      obtain ⟨g2, e2, p2⟩ := run_perm e1 (map_erase_perm (rn ren) hm)
      exact ⟨g2, e2, p2.trans p1⟩
    · rw [if_neg hc] at e; cases e
  | .pacq _ l :: t, h, h', e => by
    simp only [run, stepH, List.map_cons, rnEv] at e ⊢
    exact run_rename ren hr t (l :: h) h' e
  | .prel _ l :: t, h, h', e => by
    simp only [run, stepH, List.map_cons, rnEv] at e ⊢
    by_cases hc : h.contains l = true
    · rw [if_pos hc] at e
      have hm : l ∈ h := List.contains_iff_mem.mp hc
      have hm2 : rn ren l ∈ h.map (rn ren) := List.mem_map.mpr ⟨l, hm, rfl⟩
      rw [if_pos (List.contains_iff_mem.mpr hm2)]
      obtain ⟨g1, e1, p1⟩ := run_rename ren hr t (h.erase l) h' e
      obtain ⟨g2, e2, p2⟩ := run_perm e1 (map_erase_perm (rn ren) hm)
      exact ⟨g2, e2, p2.trans p1⟩
    · rw [if_neg hc] at e; cases e
  | .need cs :: t, h, h', e => by
    simp only [run, stepH, List.map_cons, rnEv] at e ⊢
    by_cases hc : holdsClass h cs = true
    · rw [if_pos hc] at e
      rw [if_pos ((holdsClass_map hr h cs).trans hc)]
      exact run_rename ren hr t h h' e
    · rw [if_neg hc] at e; cases e

/-- Ghost cover: the ghosts `G` held by a callee may be replaced by any frame `F` that
contains, for every ghost, a lock of the same class. -/
theorem run_cover {G F : List Nat} (hG : ∀ g ∈ G, isGhost g = true)
    (hcov : ∀ g ∈ G, ∃ l, l ∈ F ∧ gcls l = gcls g) :
    ∀ (t : List Ev) (A h1 h2 h1' : List Nat), GhostFree t → (∀ a ∈ A, isGhost a = false) →
      h1.Perm (A ++ G) → h2.Perm (A ++ F) → run h1 t = some h1' →
      ∃ A' h2', (∀ a ∈ A', isGhost a = false) ∧ h1'.Perm (A' ++ G) ∧
        run h2 t = some h2' ∧ h2'.Perm (A' ++ F)
  | [], A, h1, h2, h1', _, hA, p1, p2, e => by
    simp only [run, Option.some.injEq] at e
    subst e
    exact ⟨A, h2, hA, p1, rfl, p2⟩
  | .acq l :: t, A, h1, h2, h1', gf, hA, p1, p2, e => by
    simp only [run, stepH] at e ⊢
    have hl : isGhost l = false := ghostFree_head gf rfl
    refine run_cover hG hcov t (l :: A) (l :: h1) (l :: h2) h1' (ghostFree_tail gf) ?_
      (List.Perm.cons l p1) (List.Perm.cons l p2) e
    intro a ha
    rcases List.mem_cons.mp ha with rfl | ha
    · exact hl
    · exact hA a ha
  | .rel l :: t, A, h1, h2, h1', gf, hA, p1, p2, e => by
    simp only [run, stepH] at e ⊢
    have hl : isGhost l = false := ghostFree_head gf rfl
    by_cases hc : h1.contains l = true
    · rw [if_pos hc] at e
      have hm1 : l ∈ A ++ G := p1.mem_iff.mp (List.contains_iff_mem.mp hc)
      have hmA : l ∈ A := by
        rcases List.mem_append.mp hm1 with h | h
        · exact h
        · have := hG l h; rw [hl] at this; cases this
      have hm2 : l ∈ h2 := p2.mem_iff.mpr (List.mem_append_left F hmA)
      rw [if_pos (List.contains_iff_mem.mpr hm2)]
      refine run_cover hG hcov t (A.erase l) (h1.erase l) (h2.erase l) h1' (ghostFree_tail gf)
        (fun a ha => hA a (List.mem_of_mem_erase ha)) ?_ ?_ e
      · have := List.Perm.erase l p1
        rwa [List.erase_append_left G hmA] at this
      · have := List.Perm.erase l p2
        rwa [List.erase_append_left F hmA] at this
    · rw [if_neg hc] at e; cases e
  | .pacq _ l :: t, A, h1, h2, h1', gf, hA, p1, p2, e => by
    simp only [run, stepH] at e ⊢
    have hl : isGhost l = false := ghostFree_head gf rfl
    refine run_cover hG hcov t (l :: A) (l :: h1) (l :: h2) h1' (ghostFree_tail gf) ?_
      (List.Perm.cons l p1) (List.Perm.cons l p2) e
    intro a ha
    rcases List.mem_cons.mp ha with rfl | ha
    · exact hl
    · exact hA a ha
  | .prel _ l :: t, A, h1, h2, h1', gf, hA, p1, p2, e => by
    simp only [run, stepH] at e ⊢
    have hl : isGhost l = false := ghostFree_head gf rfl
    by_cases hc : h1.contains l = true
    · rw [if_pos hc] at e
      have hm1 : l ∈ A ++ G := p1.mem_iff.mp (List.contains_iff_mem.mp hc)
      have hmA : l ∈ A := by
        rcases List.mem_append.mp hm1 with h | h
        · exact h
        · have := hG l h; rw [hl] at this; cases this
      have hm2 : l ∈ h2 := p2.mem_iff.mpr (List.mem_append_left F hmA)
      rw [if_pos (List.contains_iff_mem.mpr hm2)]
      refine run_cover hG hcov t (A.erase l) (h1.erase l) (h2.erase l) h1' (ghostFree_tail gf)
        (fun a ha => hA a (List.mem_of_mem_erase ha)) ?_ ?_ e
      · have := List.Perm.erase l p1
        rwa [List.erase_append_left G hmA] at this
      · have := List.Perm.erase l p2
        rwa [List.erase_append_left F hmA] at this
    · rw [if_neg hc] at e; cases e
  | .need cs :: t, A, h1, h2, h1', gf, hA, p1, p2, e => by
    simp only [run, stepH] at e ⊢
    by_cases hc : holdsClass h1 cs = true
    · rw [if_pos hc] at e
      have hc2 : holdsClass h2 cs = true := by
        rw [holdsClass_iff] at hc ⊢
        obtain ⟨x, hx, hcx⟩ := hc
        rcases List.mem_append.mp (p1.mem_iff.mp hx) with hxa | hxg
        · exact ⟨x, p2.mem_iff.mpr (List.mem_append_left F hxa), hcx⟩
        · obtain ⟨y, hy, hcy⟩ := hcov x hxg
          exact ⟨y, p2.mem_iff.mpr (List.mem_append_right A hy), by rw [hcy]; exact hcx⟩
      rw [if_pos hc2]
      exact run_cover hG hcov t A h1 h2 h1' (ghostFree_tail gf) hA p1 p2 e
    · rw [if_neg hc] at e; cases e

/-- The effect of a call on the caller's held multiset (list-level core of the `call` case). -/
theorem call_replay {ren : List (Nat × Nat)} (hr : renOk ren = true)
    {req post hp frame h ha : List Nat} {t : List Ev}
    (e1 : run req t = some hp) (p1 : hp.Perm post) (gf : GhostFree t)
    (hrem : removeAll ha ((req.filter (fun l => !isGhost l)).map (rn ren)) = some frame)
    (hcov : ∀ gh ∈ req.filter isGhost, holdsClass frame [gcls gh] = true)
    (hpa : h.Perm ha) :
    ∃ h2, run h (t.map (rnEv ren)) = some h2 ∧
      h2.Perm (addAll frame ((post.filter (fun l => !isGhost l)).map (rn ren))) := by
  obtain ⟨g1, e2, p2⟩ := run_rename ren hr t req hp e1
  have hG : ∀ g ∈ req.filter isGhost, isGhost g = true := fun g hg => (List.mem_filter.mp hg).2
  have hGmap : (req.filter isGhost).map (rn ren) = req.filter isGhost := by
    have : (req.filter isGhost).map (rn ren) = (req.filter isGhost).map id :=
      List.map_congr_left (fun a ha => rn_ghost hr (hG a ha))
    rw [this, List.map_id]
  have preq : (req.map (rn ren)).Perm
      ((req.filter (fun l => !isGhost l)).map (rn ren) ++ req.filter isGhost) := by
    have q := (List.filter_append_perm isGhost req).symm.trans List.perm_append_comm
    have q2 := List.Perm.map (rn ren) q
    rwa [List.map_append, hGmap] at q2
  have pf : h.Perm ((req.filter (fun l => !isGhost l)).map (rn ren) ++ frame) :=
    hpa.trans (removeAll_perm _ _ _ hrem)
  have hcov' : ∀ g ∈ req.filter isGhost, ∃ l, l ∈ frame ∧ gcls l = gcls g := by
    intro g hg
    obtain ⟨l, hl, hcl⟩ := holdsClass_iff.mp (hcov g hg)
    exact ⟨l, hl, by simpa using hcl⟩
  have hA : ∀ a ∈ (req.filter (fun l => !isGhost l)).map (rn ren), isGhost a = false := by
    intro a ha
    obtain ⟨a0, ha0, rfl⟩ := List.mem_map.mp ha
    rw [rn_isGhost hr]
    simpa using (List.mem_filter.mp ha0).2
  obtain ⟨A', h2', hA', q1, e3, q2⟩ :=
    run_cover hG hcov' _ _ _ _ _ (ghostFree_rename hr gf) hA preq pf e2
  refine ⟨h2', e3, q2.trans (List.Perm.trans ?_ (addAll_perm frame _).symm)⟩
  refine List.Perm.append_right frame ?_
  have f1 : (A' ++ req.filter isGhost).filter (fun l => !isGhost l) = A' := by
    rw [List.filter_append]
    have a1 : A'.filter (fun l => !isGhost l) = A' :=
      List.filter_eq_self.mpr (fun a ha => by rw [hA' a ha]; rfl)
    have a2 : (req.filter isGhost).filter (fun l => !isGhost l) = [] :=
      List.filter_eq_nil_iff.mpr (fun a ha => by rw [hG a ha]; simp)
    rw [a1, a2, List.append_nil]
  have f2 := List.Perm.filter (fun l => !isGhost l) (q1.symm.trans (p2.trans (List.Perm.map _ p1)))
  rw [f1, filter_ng_map hr] at f2
  exact f2

theorem run_prels_eq_removeAll (p : Nat) :
    ∀ (xs h : List Nat), run h (xs.map (Ev.prel p)) = removeAll h xs
  | [], h => rfl
  | x :: xs, h => by
    simp only [List.map_cons, run, stepH, removeAll]
    by_cases hc : h.contains x = true
    · rw [if_pos hc, if_pos hc]; exact run_prels_eq_removeAll p xs _
    · rw [if_neg hc, if_neg hc]

/-! ## Membership in the checker's outcome sets -/

theorem mem_insertNew {y x : Out × AS} {l : Outs} : y ∈ insertNew x l ↔ y = x ∨ y ∈ l := by
  unfold insertNew
  split
  · rename_i hc
    have hm : x ∈ l := List.contains_iff_mem.mp hc
    constructor
    · exact Or.inr
    · rintro (rfl | h)
      · exact hm
      · exact h
  · exact List.mem_cons

theorem mem_union {y : Out × AS} {a b : Outs} : y ∈ union a b ↔ y ∈ a ∨ y ∈ b := by
  induction a with
  | nil => simp [union]
  | cons x xs ih =>
    show y ∈ insertNew x (union xs b) ↔ _
    rw [mem_insertNew, ih, List.mem_cons, or_assoc]

theorem bindAll_mem {k : Out → AS → Res} : ∀ {r : Outs} {R : Outs} {o : Out} {s : AS},
    bindAll r k = .ok R → (o, s) ∈ r → ∃ R1, k o s = .ok R1 ∧ ∀ x, x ∈ R1 → x ∈ R
  | [], _, _, _, _, hm => by cases hm
  | (o0, s0) :: rest, R, o, s, he, hm => by
    unfold bindAll at he
    split at he
    · cases he
    · rename_i r1 h1
      split at he
      · cases he
      · rename_i r2 h2
        cases he
        rcases List.mem_cons.mp hm with heq | hm'
        · cases heq
          exact ⟨r1, h1, fun x hx => mem_union.mpr (Or.inl hx)⟩
        · obtain ⟨R1, e1, sub⟩ := bindAll_mem h2 hm'
          exact ⟨R1, e1, fun x hx => mem_union.mpr (Or.inr (sub x hx))⟩

/-! ## Pile contents are never ghosts -/

/-- Invariant of the control state along checked paths: no pile contains a ghost lock. -/
def PilesOK (c : CS) : Prop := ∀ kv ∈ c.piles, ∀ l ∈ kv.2, isGhost l = false

theorem getP_mem : ∀ (ps : List (Nat × List Nat)) (p l : Nat), l ∈ getP ps p →
    ∃ kv, kv ∈ ps ∧ l ∈ kv.2
  | [], p, l, h => by cases h
  | (k, x) :: r, p, l, h => by
    unfold getP at h
    split at h
    · exact ⟨(k, x), List.mem_cons_self, h⟩
    · obtain ⟨kv, hkv, hl⟩ := getP_mem r p l h
      exact ⟨kv, List.mem_cons_of_mem _ hkv, hl⟩

theorem setP_mem : ∀ (ps : List (Nat × List Nat)) (p : Nat) (xs : List Nat) (kv : Nat × List Nat),
    kv ∈ setP ps p xs → kv ∈ ps ∨ kv = (p, xs)
  | [], p, xs, kv, h => by
    unfold setP at h
    split at h
    · cases h
    · exact Or.inr (List.mem_singleton.mp h)
  | (k, x) :: r, p, xs, kv, h => by
    unfold setP at h
    by_cases h1 : p < k
    · rw [if_pos h1] at h
      split at h
      · exact Or.inl h
      · rcases List.mem_cons.mp h with h | h
        · exact Or.inr h
        · exact Or.inl h
    · rw [if_neg h1] at h
      by_cases h2 : p = k
      · rw [if_pos h2] at h
        split at h
        · exact Or.inl (List.mem_cons_of_mem _ h)
        · rcases List.mem_cons.mp h with h | h
          · exact Or.inr h
          · exact Or.inl (List.mem_cons_of_mem _ h)
      · rw [if_neg h2] at h
        rcases List.mem_cons.mp h with h | h
        · exact Or.inl (h ▸ List.mem_cons_self)
        · rcases setP_mem r p xs kv h with h | h
          · exact Or.inl (List.mem_cons_of_mem _ h)
          · exact Or.inr h

theorem pilesOK_get {c : CS} (hc : PilesOK c) (p : Nat) :
    ∀ l ∈ getP c.piles p, isGhost l = false := by
  intro l hl
  obtain ⟨kv, hkv, hl'⟩ := getP_mem _ _ _ hl
  exact hc kv hkv l hl'

theorem pilesOK_set {c : CS} (hc : PilesOK c) (p : Nat) {xs : List Nat}
    (hxs : ∀ l ∈ xs, isGhost l = false) :
    PilesOK { c with piles := setP c.piles p xs } := by
  intro kv hkv l hl
  rcases setP_mem _ _ _ _ hkv with h | h
  · exact hc kv h l hl
  · subst h; exact hxs l hl

/-! ## Simulation of one statement -/

/-- What the induction assumes about callees. -/
def CalleeOK (sig : Sig) (C : Nat → List Ev → Prop) : Prop :=
  ∀ g t, C g t → ∀ req post, sig.get g = some (req, post) →
    GhostFree t ∧ ∃ h', run req t = some h' ∧ h'.Perm post

/-- The symbolic execution of `s` covers every non-panicking concrete path of `s`. -/
def Sim (sig : Sig) (C : Nat → List Ev → Prop) (s : Stmt) : Prop :=
  ∀ (ha : List Nat) (c : CS) (R : Outs) (h : List Nat) (tr : List Ev) (o : Out) (c' : CS),
    execA sig s ⟨ha, c⟩ = .ok R → h.Perm ha → PilesOK c → sem C s c tr o c' →
    o = .pnc ∨ (GhostFree tr ∧ PilesOK c' ∧
      ∃ h' ha', run h tr = some h' ∧ (o, (⟨ha', c'⟩ : AS)) ∈ R ∧ h'.Perm ha')

variable {sig : Sig} {C : Nat → List Ev → Prop}

theorem sim_skip : Sim sig C .skip := by
  intro ha c R h tr o c' he hp hk hs
  simp only [execA, Except.ok.injEq] at he
  simp only [sem] at hs
  obtain ⟨rfl, rfl, rfl⟩ := hs
  subst he
  exact Or.inr ⟨ghostFree_nil, hk, h, ha, rfl, List.mem_singleton.mpr rfl, hp⟩

theorem sim_mark (k m : Nat) : Sim sig C (.mark k m) := by
  intro ha c R h tr o c' he hp hk hs
  simp only [execA, Except.ok.injEq] at he
  simp only [sem] at hs
  obtain ⟨rfl, rfl, rfl⟩ := hs
  subst he
  exact Or.inr ⟨ghostFree_nil, hk, h, ha, rfl, List.mem_singleton.mpr rfl, hp⟩

theorem sim_ret (t : Nat) : Sim sig C (.ret t) := by
  intro ha c R h tr o c' he hp hk hs
  simp only [execA, Except.ok.injEq] at he
  simp only [sem] at hs
  obtain ⟨rfl, rfl, rfl⟩ := hs
  subst he
  exact Or.inr ⟨ghostFree_nil, hk, h, ha, rfl, List.mem_singleton.mpr rfl, hp⟩

theorem sim_brk : Sim sig C .brk := by
  intro ha c R h tr o c' he hp hk hs
  simp only [execA, Except.ok.injEq] at he
  simp only [sem] at hs
  obtain ⟨rfl, rfl, rfl⟩ := hs
  subst he
  exact Or.inr ⟨ghostFree_nil, hk, h, ha, rfl, List.mem_singleton.mpr rfl, hp⟩

theorem sim_cont : Sim sig C .cont := by
  intro ha c R h tr o c' he hp hk hs
  simp only [execA, Except.ok.injEq] at he
  simp only [sem] at hs
  obtain ⟨rfl, rfl, rfl⟩ := hs
  subst he
  exact Or.inr ⟨ghostFree_nil, hk, h, ha, rfl, List.mem_singleton.mpr rfl, hp⟩

theorem sim_panic : Sim sig C .panic := by
  intro ha c R h tr o c' he hp hk hs
  simp only [sem] at hs
  exact Or.inl hs.2.1

theorem sim_unsupported (w : Nat) : Sim sig C (.unsupported w) := by
  intro ha c R h tr o c' he hp hk hs
  simp only [execA] at he
  cases he

theorem sim_setFlag (v : Nat) (b : Bool) : Sim sig C (.setFlag v b) := by
  intro ha c R h tr o c' he hp hk hs
  simp only [execA, Except.ok.injEq] at he
  simp only [sem] at hs
  obtain ⟨rfl, rfl, rfl⟩ := hs
  subst he
  exact Or.inr ⟨ghostFree_nil, hk, h, ha, rfl, List.mem_singleton.mpr rfl, hp⟩

theorem sim_need (cs : List Nat) : Sim sig C (.need cs) := by
  intro ha c R h tr o c' he hp hk hs
  simp only [execA] at he
  simp only [sem] at hs
  obtain ⟨rfl, rfl, rfl⟩ := hs
  by_cases hc : holdsClass ha cs = true
  · rw [if_pos hc] at he
    cases he
    have hc' : holdsClass h cs = true := by rw [holdsClass_perm hp]; exact hc
    have hr : run h [.need cs] = some h := by simp only [run, stepH, if_pos hc']
    exact Or.inr ⟨ghostFree_need cs, hk, h, ha, hr, List.mem_singleton.mpr rfl, hp⟩
  · rw [if_neg hc] at he; cases he

theorem sim_acq (l : Nat) : Sim sig C (.acq l) := by
  intro ha c R h tr o c' he hp hk hs
  simp only [execA] at he
  simp only [sem] at hs
  obtain ⟨rfl, rfl, rfl⟩ := hs
  by_cases hg : isGhost l = true
  · rw [if_pos hg] at he; cases he
  · rw [if_neg hg] at he
    cases he
    exact Or.inr ⟨ghostFree_acq (eq_false_of_ne_true hg), hk, l :: h, insertS l ha, rfl,
      List.mem_singleton.mpr rfl, (List.Perm.cons l hp).trans (insertS_perm l ha).symm⟩

theorem sim_pileLock (p l : Nat) : Sim sig C (.pileLock p l) := by
  intro ha c R h tr o c' he hp hk hs
  simp only [execA] at he
  simp only [sem] at hs
  obtain ⟨rfl, rfl, rfl⟩ := hs
  by_cases hg : isGhost l = true
  · rw [if_pos hg] at he; cases he
  · rw [if_neg hg] at he
    cases he
    have hg' := eq_false_of_ne_true hg
    refine Or.inr ⟨ghostFree_pacq hg', pilesOK_set hk p ?_, l :: h, insertS l ha, rfl,
      List.mem_singleton.mpr rfl, (List.Perm.cons l hp).trans (insertS_perm l ha).symm⟩
    intro x hx
    rcases List.mem_cons.mp ((insertS_perm l _).mem_iff.mp hx) with rfl | hx
    · exact hg'
    · exact pilesOK_get hk p x hx

theorem run_rel_perm {h ha : List Nat} {l : Nat} (hp : h.Perm ha) (hc : ha.contains l = true) :
    run h [.rel l] = some (h.erase l) ∧ (h.erase l).Perm (ha.erase l) := by
  have hc' : h.contains l = true := by rw [contains_of_perm hp]; exact hc
  simp only [run, stepH, if_pos hc']
  exact ⟨trivial, List.Perm.erase l hp⟩

theorem run_prel_perm {h ha : List Nat} {l : Nat} (p : Nat) (hp : h.Perm ha)
    (hc : ha.contains l = true) :
    run h [.prel p l] = some (h.erase l) ∧ (h.erase l).Perm (ha.erase l) := by
  have hc' : h.contains l = true := by rw [contains_of_perm hp]; exact hc
  simp only [run, stepH, if_pos hc']
  exact ⟨trivial, List.Perm.erase l hp⟩

theorem sim_rel (l : Nat) : Sim sig C (.rel l) := by
  intro ha c R h tr o c' he hp hk hs
  simp only [execA] at he
  simp only [sem] at hs
  obtain ⟨rfl, rfl, rfl⟩ := hs
  by_cases hg : isGhost l = true
  · rw [if_pos hg] at he; cases he
  · rw [if_neg hg] at he
    by_cases hc : ha.contains l = true
    · rw [if_pos hc] at he
      cases he
      obtain ⟨r1, p1⟩ := run_rel_perm hp hc
      exact Or.inr ⟨ghostFree_rel (eq_false_of_ne_true hg), hk, h.erase l, ha.erase l, r1,
        List.mem_singleton.mpr rfl, p1⟩
    · rw [if_neg hc] at he; cases he

theorem sim_pileUnlock (p l : Nat) : Sim sig C (.pileUnlock p l) := by
  intro ha c R h tr o c' he hp hk hs
  simp only [execA] at he
  simp only [sem] at hs
  by_cases hg : isGhost l = true
  · rw [if_pos hg] at he; cases he
  · rw [if_neg hg] at he
    by_cases hq : (getP c.piles p).contains l = true
    · rw [if_pos hq] at he hs
      obtain ⟨rfl, rfl, rfl⟩ := hs
      by_cases hc : ha.contains l = true
      · rw [if_pos hc] at he
        cases he
        obtain ⟨r1, p1⟩ := run_prel_perm p hp hc
        refine Or.inr ⟨ghostFree_prel (eq_false_of_ne_true hg), pilesOK_set hk p ?_,
          h.erase l, ha.erase l, r1, List.mem_singleton.mpr rfl, p1⟩
        exact fun x hx => pilesOK_get hk p x (List.mem_of_mem_erase hx)
      · rw [if_neg hc] at he; cases he
    · rw [if_neg hq] at he; cases he

theorem sim_pileUnlockAll (p : Nat) : Sim sig C (.pileUnlockAll p) := by
  intro ha c R h tr o c' he hp hk hs
  simp only [execA] at he
  simp only [sem] at hs
  obtain ⟨rfl, rfl, rfl⟩ := hs
  split at he
  · rename_i hr heq
    cases he
    have e1 : run ha ((getP c.piles p).map (Ev.prel p)) = some hr := by
      rw [run_prels_eq_removeAll]; exact heq
    obtain ⟨h2, e2, p2⟩ := run_perm e1 hp
    refine Or.inr ⟨ghostFree_prels p (pilesOK_get hk p), pilesOK_set hk p ?_, h2, hr, e2,
      List.mem_singleton.mpr rfl, p2⟩
    intro x hx; cases hx
  · cases he

theorem callA_ok {sig : Sig} {g : Nat} {ren : List (Nat × Nat)} {held frame h' : List Nat}
    (he : callA sig g ren held = .ok (frame, h')) :
    ∃ req post, sig.get g = some (req, post) ∧ renOk ren = true ∧
      removeAll held ((req.filter (fun l => !isGhost l)).map (rn ren)) = some frame ∧
      (∀ gh ∈ req.filter isGhost, holdsClass frame [gcls gh] = true) ∧
      h' = addAll frame ((post.filter (fun l => !isGhost l)).map (rn ren)) := by
  unfold callA at he
  split at he
  · cases he
  · rename_i req post hsig
    by_cases hr : renOk ren = true
    · simp only [hr, Bool.not_true, Bool.false_eq_true, if_false] at he
      split at he
      · cases he
      · rename_i fr hrem
        split at he
        · rename_i hall
          simp only [Except.ok.injEq, Prod.mk.injEq] at he
          obtain ⟨rfl, rfl⟩ := he
          exact ⟨req, post, hsig, hr, hrem, fun gh hgh => List.all_eq_true.mp hall gh hgh, rfl⟩
        · cases he
    · have : renOk ren = false := eq_false_of_ne_true hr
      simp only [this, Bool.not_false, if_true] at he
      cases he

theorem sim_call (hC : CalleeOK sig C) (g : Nat) (ren : List (Nat × Nat)) :
    Sim sig C (.call g ren) := by
  intro ha c R h tr o c' he hp hk hs
  simp only [execA] at he
  simp only [sem] at hs
  obtain ⟨t, hct, rfl, rfl, rfl⟩ := hs
  split at he
  · cases he
  · rename_i frame hnew hcall
    cases he
    obtain ⟨req, post, hsig, hr, hrem, hcov, rfl⟩ := callA_ok hcall
    obtain ⟨gf, h1, e1, p1⟩ := hC g t hct req post hsig
    obtain ⟨h2, e2, p2⟩ := call_replay hr e1 p1 gf hrem hcov hp
    exact Or.inr ⟨ghostFree_rename hr gf, hk, h2, _, e2, List.mem_singleton.mpr rfl, p2⟩

theorem sim_seq {a b : Stmt} (ia : Sim sig C a) (ib : Sim sig C b) : Sim sig C (.seq a b) := by
  intro ha c R h tr o c' he hp hk hs
  simp only [execA] at he
  split at he
  · cases he
  · rename_i r hra
    simp only [sem] at hs
    rcases hs with ⟨c1, t1, t2, s1, s2, rfl⟩ | ⟨hne, s1⟩
    · rcases ia ha c r h t1 .norm c1 hra hp hk s1 with hpn | ⟨g1, k1', h1, ha1, r1, m1, p1⟩
      · cases hpn
      · obtain ⟨R1, k1, sub⟩ := bindAll_mem he m1
        rw [if_pos rfl] at k1
        rcases ib ha1 c1 R1 h1 t2 o c' k1 p1 k1' s2 with hpn | ⟨g2, k2', h2, ha2, r2, m2, p2⟩
        · exact Or.inl hpn
        · exact Or.inr ⟨ghostFree_append g1 g2, k2', h2, ha2, run_append_some r1 r2, sub _ m2, p2⟩
    · rcases ia ha c r h tr o c' hra hp hk s1 with hpn | ⟨g1, k1', h1, ha1, r1, m1, p1⟩
      · exact Or.inl hpn
      · obtain ⟨R1, k1, sub⟩ := bindAll_mem he m1
        rw [if_neg hne] at k1
        cases k1
        exact Or.inr ⟨g1, k1', h1, ha1, r1, sub _ (List.mem_singleton.mpr rfl), p1⟩

theorem sim_choice {a b : Stmt} (tag : Nat) (ia : Sim sig C a) (ib : Sim sig C b) :
    Sim sig C (.choice tag a b) := by
  intro ha c R h tr o c' he hp hk hs
  simp only [execA] at he
  split at he
  · cases he
  · rename_i r1 hr1
    split at he
    · cases he
    · rename_i r2 hr2
      cases he
      simp only [sem] at hs
      rcases hs with s1 | s2
      · rcases ia ha c r1 h tr o c' hr1 hp hk s1 with hpn | ⟨g1, k1, h1, ha1, e1, m1, p1⟩
        · exact Or.inl hpn
        · exact Or.inr ⟨g1, k1, h1, ha1, e1, mem_union.mpr (Or.inl m1), p1⟩
      · rcases ib ha c r2 h tr o c' hr2 hp hk s2 with hpn | ⟨g1, k1, h1, ha1, e1, m1, p1⟩
        · exact Or.inl hpn
        · exact Or.inr ⟨g1, k1, h1, ha1, e1, mem_union.mpr (Or.inr m1), p1⟩

theorem sim_ifFlag {a b : Stmt} (v : Nat) (ia : Sim sig C a) (ib : Sim sig C b) :
    Sim sig C (.ifFlag v a b) := by
  intro ha c R h tr o c' he hp hk hs
  simp only [execA] at he
  simp only [sem] at hs
  by_cases hf : getF c.flags v = true
  · rw [if_pos hf] at he hs
    exact ia ha c R h tr o c' he hp hk hs
  · rw [if_neg hf] at he hs
    exact ib ha c R h tr o c' he hp hk hs

theorem sim_scope {a : Stmt} (ia : Sim sig C a) : Sim sig C (.scope a) := by
  intro ha c R h tr o c' he hp hk hs
  simp only [execA] at he
  split at he
  · cases he
  · rename_i r hr
    cases he
    simp only [sem] at hs
    obtain ⟨o1, s1, rfl⟩ := hs
    rcases ia ha c r h tr o1 c' hr hp hk s1 with hpn | ⟨g1, k1, h1, ha1, e1, m1, p1⟩
    · subst hpn; exact Or.inl rfl
    · exact Or.inr ⟨g1, k1, h1, ha1, e1, List.mem_map.mpr ⟨_, m1, rfl⟩, p1⟩

theorem sim_block {a : Stmt} (ia : Sim sig C a) : Sim sig C (.block a) := by
  intro ha c R h tr o c' he hp hk hs
  simp only [execA] at he
  split at he
  · cases he
  · rename_i r hr
    cases he
    simp only [sem] at hs
    obtain ⟨o1, s1, rfl⟩ := hs
    rcases ia ha c r h tr o1 c' hr hp hk s1 with hpn | ⟨g1, k1, h1, ha1, e1, m1, p1⟩
    · subst hpn; exact Or.inl rfl
    · exact Or.inr ⟨g1, k1, h1, ha1, e1, List.mem_map.mpr ⟨_, m1, rfl⟩, p1⟩

theorem sim_fin {a d : Stmt} (ia : Sim sig C a) (id : Sim sig C d) : Sim sig C (.fin a d) := by
  intro ha c R h tr o c' he hp hk hs
  simp only [execA] at he
  split at he
  · cases he
  · rename_i r hr
    simp only [sem] at hs
    obtain ⟨c1, t1, o1, s1, hcase⟩ := hs
    rcases hcase with ⟨_, _, rfl, _⟩ | ⟨hne, t2, o2, s2, rfl, rfl⟩
    · exact Or.inl rfl
    · rcases ia ha c r h t1 o1 c1 hr hp hk s1 with hpn | ⟨g1, k1', h1, ha1, e1, m1, p1⟩
      · exact absurd hpn hne
      · obtain ⟨R1, k1, sub⟩ := bindAll_mem he m1
        rw [if_neg hne] at k1
        split at k1
        · cases k1
        · rename_i r2 hr2
          cases k1
          rcases id ha1 c1 r2 h1 t2 o2 c' hr2 p1 k1' s2 with hpn | ⟨g2, k2', h2, ha2, e2, m2, p2⟩
          · subst hpn; exact Or.inl rfl
          · exact Or.inr ⟨ghostFree_append g1 g2, k2', h2, ha2, run_append_some e1 e2,
              sub _ (List.mem_map.mpr ⟨_, m2, rfl⟩), p2⟩

theorem loopOuts_ok {ce : Bool} {s : AS} {r R : Outs} (he : loopOuts ce s r = .ok R) :
    (∀ o a, (o, a) ∈ r → (o = .norm ∨ o = .cont) → a = s) ∧
    (ce = true → (Out.norm, s) ∈ R) ∧
    (∀ a, (Out.brk, a) ∈ r → (Out.norm, a) ∈ R) ∧
    (∀ a, (Out.ret, a) ∈ r → (Out.ret, a) ∈ R) := by
  unfold loopOuts at he
  split at he
  · rename_i hall
    cases he
    rw [List.all_eq_true] at hall
    refine ⟨?_, ?_, ?_, ?_⟩
    · intro o a hm ho
      have := hall _ hm
      rcases ho with rfl | rfl <;> simpa using this
    · intro hce; subst hce
      exact mem_union.mpr (Or.inl (List.mem_singleton.mpr rfl))
    · intro a hm
      exact mem_union.mpr (Or.inr (List.mem_filterMap.mpr ⟨_, hm, rfl⟩))
    · intro a hm
      exact mem_union.mpr (Or.inr (List.mem_filterMap.mpr ⟨_, hm, rfl⟩))
  · cases he

theorem sim_loop {a : Stmt} (ce : Bool) (ia : Sim sig C a) : Sim sig C (.loop ce a) := by
  intro ha c R h tr o c' he hp hk hs
  simp only [execA] at he
  split at he
  · cases he
  · rename_i r hr
    obtain ⟨hinv, hnorm, hbrk, hret⟩ := loopOuts_ok he
    simp only [sem] at hs
    obtain ⟨n, hn⟩ := hs
    clear he
    induction n generalizing h tr with
    | zero =>
      simp only [iter] at hn
      obtain ⟨hce, rfl, rfl, rfl⟩ := hn
      exact Or.inr ⟨ghostFree_nil, hk, h, ha, rfl, hnorm hce, hp⟩
    | succ n ih =>
      simp only [iter] at hn
      obtain ⟨t1, o1, c1, s1, hcase⟩ := hn
      rcases ia ha c r h t1 o1 c1 hr hp hk s1 with hpn | ⟨g1, k1, h1, ha1, e1, m1, p1⟩
      · subst hpn
        rcases hcase with ⟨hx | hx, _⟩ | ⟨hx, _⟩ | ⟨_, _, rfl, _⟩
        · cases hx
        · cases hx
        · cases hx
        · exact Or.inl rfl
      · rcases hcase with ⟨hnc, t2, it2, rfl⟩ | ⟨rfl, rfl, rfl, rfl⟩ | ⟨hrp, rfl, rfl, rfl⟩
        · have hs := hinv o1 _ m1 hnc
          injection hs with hs1 hs2
          subst hs1 hs2
          rcases ih h1 t2 p1 it2 with hpn | ⟨g2, k2, h2, ha2, e2, m2, p2⟩
          · exact Or.inl hpn
          · exact Or.inr ⟨ghostFree_append g1 g2, k2, h2, ha2, run_append_some e1 e2, m2, p2⟩
        · exact Or.inr ⟨g1, k1, h1, ha1, e1, hbrk _ m1, p1⟩
        · rcases hrp with rfl | rfl
          · exact Or.inr ⟨g1, k1, h1, ha1, e1, hret _ m1, p1⟩
          · exact Or.inl rfl

/-- The simulation holds for every statement. -/
theorem sim_all (hC : CalleeOK sig C) (s : Stmt) : Sim sig C s := by
  induction s with
  | skip => exact sim_skip
  | acq l => exact sim_acq l
  | rel l => exact sim_rel l
  | pileLock p l => exact sim_pileLock p l
  | pileUnlock p l => exact sim_pileUnlock p l
  | pileUnlockAll p => exact sim_pileUnlockAll p
  | call g ren => exact sim_call hC g ren
  | seq a b ia ib => exact sim_seq ia ib
  | choice tag a b ia ib => exact sim_choice tag ia ib
  | loop ce body ib => exact sim_loop ce ib
  | fin body d ib id => exact sim_fin ib id
  | scope s is => exact sim_scope is
  | block s is => exact sim_block is
  | setFlag v b => exact sim_setFlag v b
  | ifFlag v a b ia ib => exact sim_ifFlag v ia ib
  | ret t => exact sim_ret t
  | brk => exact sim_brk
  | cont => exact sim_cont
  | panic => exact sim_panic
  | unsupported w => exact sim_unsupported w
  | need cs => exact sim_need cs
  | mark k m => exact sim_mark k m

/-! ## Whole programs -/

theorem pilesOK_init : PilesOK CS.init := by
  intro kv hkv; cases hkv

theorem fnSem_sound (sig : Sig) (prog : Prog) (hc : consistent sig prog = true) :
    ∀ n, CalleeOK sig (fnSem prog n)
  | 0 => by intro g t h; cases h
  | n + 1 => by
    intro g t hg req post hsig
    simp only [fnSem] at hg
    obtain ⟨body, hb, o, c', hs, ho⟩ := hg
    have hmem : (g, body) ∈ prog := mem_of_lookup g body prog hb
    have hchk : checkFn sig g body = true := by
      unfold consistent at hc
      exact (List.all_eq_true.mp hc) _ hmem
    unfold checkFn at hchk
    rw [hsig] at hchk
    simp only at hchk
    split at hchk
    · cases hchk
    · rename_i r hr
      rcases sim_all (fnSem_sound sig prog hc n) body (sortS req) CS.init r req t o c' hr
          (sortS_perm req).symm pilesOK_init hs with hpn | ⟨gf, _, h1, ha1, e1, m1, p1⟩
      · subst hpn; rcases ho with ho | ho <;> cases ho
      · have hfin := (List.all_eq_true.mp hchk) _ m1
        unfold okFinal at hfin
        have hheld : ha1 = sortS post := by
          rcases ho with rfl | rfl <;> simpa using hfin
        subst hheld
        exact ⟨gf, h1, e1, p1.trans (sortS_perm post)⟩

theorem exec_sig (sig : Sig) (prog : Prog) (hc : consistent sig prog = true)
    {f : Nat} {tr : List Ev} (he : Exec prog f tr) : ∃ req post, sig.get f = some (req, post) := by
  obtain ⟨n, hn⟩ := he
  cases n with
  | zero => cases hn
  | succ n =>
    simp only [fnSem] at hn
    obtain ⟨body, hb, _⟩ := hn
    have hchk : checkFn sig f body = true := by
      unfold consistent at hc
      exact (List.all_eq_true.mp hc) _ (mem_of_lookup f body prog hb)
    unfold checkFn at hchk
    split at hchk
    · cases hchk
    · rename_i req post hsig
      exact ⟨req, post, hsig⟩

/-- Main theorem. -/
theorem checker_sound (sig : Sig) (prog : Prog) (hc : consistent sig prog = true) :
    ∀ (f : Nat) (tr : List Ev), Exec prog f tr →
      ∃ req post, sig.get f = some (req, post) ∧
        ∃ h', run req tr = some h' ∧ h'.Perm post := by
  intro f tr he
  obtain ⟨req, post, hsig⟩ := exec_sig sig prog hc he
  obtain ⟨n, hn⟩ := he
  exact ⟨req, post, hsig, (fnSem_sound sig prog hc n f tr hn req post hsig).2⟩

/-- Lock operations of checked code never mention a ghost lock. -/
theorem checker_sound_ghostFree (sig : Sig) (prog : Prog) (hc : consistent sig prog = true) :
    ∀ (f : Nat) (tr : List Ev), Exec prog f tr → GhostFree tr := by
  intro f tr he
  obtain ⟨req, post, hsig⟩ := exec_sig sig prog hc he
  obtain ⟨n, hn⟩ := he
  exact (fnSem_sound sig prog hc n f tr hn req post hsig).1

/-! ## Counting corollary -/

/-- event `e` acquires lock `l` (directly or through a pile) -/
def isAcq (l : Nat) : Ev → Bool
  | .acq k => k == l
  | .pacq _ k => k == l
  | _ => false

/-- event `e` releases lock `l` (directly or through a pile) -/
def isRel (l : Nat) : Ev → Bool
  | .rel k => k == l
  | .prel _ k => k == l
  | _ => false

def acqs (l : Nat) (tr : List Ev) : Nat := tr.countP (isAcq l)
def rels (l : Nat) (tr : List Ev) : Nat := tr.countP (isRel l)

/-- no prefix of the trace releases `l` more often than it was held initially plus acquired -/
def NeverUnderflows (h : List Nat) (tr : List Ev) : Prop :=
  ∀ p, p <+: tr → ∀ l, rels l p ≤ h.count l + acqs l p

theorem count_acq_step (k l : Nat) (h : List Nat) :
    (k :: h).count l = h.count l + (if (k == l) = true then 1 else 0) := List.count_cons

theorem count_rel_step {k : Nat} (l : Nat) {h : List Nat} (hm : k ∈ h) :
    (h.erase k).count l + (if (k == l) = true then 1 else 0) = h.count l := by
  by_cases hk : k = l
  · subst hk
    have hpos : 0 < h.count k := List.count_pos_iff.mpr hm
    rw [List.count_erase_self]
    simp; omega
  · have hne : ¬ (l = k) := fun h => hk h.symm
    rw [List.count_erase_of_ne hne]
    simp [hk]

theorem run_count : ∀ (tr : List Ev) (h h' : List Nat), run h tr = some h' →
    ∀ l, h'.count l + rels l tr = h.count l + acqs l tr
  | [], h, h', e, l => by
    simp only [run, Option.some.injEq] at e
    subst e; simp [rels, acqs]
  | .acq k :: t, h, h', e, l => by
    simp only [run, stepH] at e
    have ih := run_count t (k :: h) h' e l
    rw [count_acq_step] at ih
    by_cases hk : k = l <;>
      simp [hk, rels, acqs, isAcq, isRel] at ih ⊢ <;> omega
  | .pacq _ k :: t, h, h', e, l => by
    simp only [run, stepH] at e
    have ih := run_count t (k :: h) h' e l
    rw [count_acq_step] at ih
    by_cases hk : k = l <;>
      simp [hk, rels, acqs, isAcq, isRel] at ih ⊢ <;> omega
  | .rel k :: t, h, h', e, l => by
    simp only [run, stepH] at e
    by_cases hc : h.contains k = true
    · rw [if_pos hc] at e
      have ih := run_count t (h.erase k) h' e l
      have hm := count_rel_step l (List.contains_iff_mem.mp hc)
      by_cases hk : k = l <;>
        simp [hk, rels, acqs, isAcq, isRel] at ih hm ⊢ <;> omega
    · rw [if_neg hc] at e; cases e
  | .prel _ k :: t, h, h', e, l => by
    simp only [run, stepH] at e
    by_cases hc : h.contains k = true
    · rw [if_pos hc] at e
      have ih := run_count t (h.erase k) h' e l
      have hm := count_rel_step l (List.contains_iff_mem.mp hc)
      by_cases hk : k = l <;>
        simp [hk, rels, acqs, isAcq, isRel] at ih hm ⊢ <;> omega
    · rw [if_neg hc] at e; cases e
  | .need cs :: t, h, h', e, l => by
    simp only [run, stepH] at e
    by_cases hc : holdsClass h cs = true
    · rw [if_pos hc] at e
      have ih := run_count t h h' e l
      simp only [rels, acqs, List.countP_cons, isAcq, isRel] at ih ⊢
      simp only [Bool.false_eq_true, if_false] at ih ⊢
      omega
    · rw [if_neg hc] at e; cases e

theorem run_counts (h h' : List Nat) (tr : List Ev) (hr : run h tr = some h') :
    NeverUnderflows h tr ∧ ∀ l, h'.count l + rels l tr = h.count l + acqs l tr := by
  refine ⟨?_, run_count tr h h' hr⟩
  intro p ⟨s, hps⟩ l
  subst hps
  rw [run_append] at hr
  cases hp : run h p with
  | none => rw [hp] at hr; cases hr
  | some h1 =>
    have := run_count p h h1 hp l
    omega

theorem checker_sound_counts (sig : Sig) (prog : Prog) (hc : consistent sig prog = true)
    (f : Nat) (tr : List Ev) (he : Exec prog f tr) :
    ∃ req post, sig.get f = some (req, post) ∧ NeverUnderflows req tr ∧
      ∀ l, post.count l + rels l tr = req.count l + acqs l tr := by
  obtain ⟨req, post, hsig, h', hr, hp⟩ := checker_sound sig prog hc f tr he
  obtain ⟨hnu, hcnt⟩ := run_counts req h' tr hr
  refine ⟨req, post, hsig, hnu, fun l => ?_⟩
  rw [← hp.count_eq l]; exact hcnt l

/-! Assembling `consistent` from one obligation per function (used by the generated
`Properties/C14Generated.lean`, which proves `checkFn sigma k f_k = true` separately
for every function so that each kernel evaluation stays small). -/

theorem consistent_nil (sig : Sig) : consistent sig [] = true := rfl

theorem consistent_cons {sig : Sig} {f : Nat} {b : Stmt} {rest : Prog}
    (h1 : checkFn sig f b = true) (h2 : consistent sig rest = true) :
    consistent sig ((f, b) :: rest) = true := by
  simp only [consistent, List.all_cons, Bool.and_eq_true] at h2 ⊢
  exact ⟨h1, h2⟩

end BbRe.Lemmas.LockSkel
