import BbRe.Lemmas.SchedLiveClean
/-!
Cleanup accounting through `schedule`, `finishOps` and `complete`.
-/
namespace BbRe.Lemmas.SchedLive
open BbRe.Sched

/-- replacing a worker by a record with the same identity and `inSync` flag -/
theorem setWorker_proj {s : State} {w' : Worker} (hn : (s.workers.map wkey).Nodup) {wk : Worker} (hm : wk ∈ s.workers)
    (hk : wkey wk = wkey w') (hi : wk.inSync = w'.inSync) :
    (s.setWorker w').workers.map (fun w => (w.scq, w.id, w.inSync)) = s.workers.map (fun w => (w.scq, w.id, w.inSync)) := by
  rw [setWorker_workers, List.map_map]
  apply List.map_congr_left
  intro x hx
  simp only [Function.comp]
  split
  · rename_i hkx
    have : x = wk := eq_of_wkey hn hx hm (hkx.trans hk.symm)
    subst this
    simp only [wkey, Prod.mk.injEq] at hk
    simp [hk.1, hk.2, hi]
  · rfl

theorem CFrame.of_same {s s' : State} (h1 : s'.cleanup = s.cleanup) (h2 : s'.workers = s.workers)
    (h3 : s'.scqs = s.scqs) (h4 : s'.ops = s.ops) (h5 : s'.tasks = s.tasks) : CFrame s s' :=
  ⟨h1, by rw [h2], fun q => by simp [State.scq?, h3], h4, fun k => by simp [State.task?, h5]⟩

/-- one task rewritten keeping `response.isSome` and `ops` -/
theorem CFrame.of_task {s s' : State} {k0 : Nat} {t0 t2 : Task} (h0 : s.task? k0 = some t0)
    (hr : t2.response.isSome = t0.response.isSome) (ho : t2.ops = t0.ops)
    (h1 : s'.cleanup = s.cleanup) (h2 : s'.workers = s.workers) (h3 : s'.scqs = s.scqs) (h4 : s'.ops = s.ops)
    (h5 : ∀ k, s'.task? k = if k0 = k then some t2 else s.task? k) : CFrame s s' := by
  refine ⟨h1, by rw [h2], fun q => by simp [State.scq?, h3], h4, ?_⟩
  intro k; rw [h5]
  split
  · rename_i e; subst e; rw [h0]; simp [hr, ho]
  · rfl

theorem detachW_cframe {s : State} (t : Task) (hw : WInv s) : CFrame s (detachW s t) := by
  unfold detachW
  split
  · split
    · rename_i q w wk hwk
      obtain ⟨hm, _, _⟩ := worker?_mem hwk
      exact ⟨rfl, setWorker_proj hw.uniq hm rfl rfl, fun _ => rfl, rfl, fun _ => rfl⟩
    · exact CFrame.refl _
  · exact CFrame.refl _

theorem schedule_cframe {h : Hints} {s s' : State} {tid : Nat} (hh : schedule h s tid = .ok s') (hw : WInv s)
    (hid : ∀ t, s.task? tid = some t → t.id = tid) : CFrame s s' := by
  obtain ⟨t, h0, ⟨_, rfl⟩ | ⟨_, w, w1, hhw, hpk, hw1, hw1t, htw, rfl⟩⟩ := schedule_ok hh
  · refine CFrame.of_task (t2 := { t with queued := true }) h0 rfl rfl rfl rfl rfl rfl ?_
    intro k; simp [State.task?, alookup_aset, hid t h0]
  · have hm := hintedWorker_mem hhw
    have hlk : s.worker? w.scq w.id = some w := worker?_of_mem hw.uniq hm
    have e1 : w1 = { w with parked := false, woken := true } := by
      simp only [wakeWorker, worker?_setWorker, and_self, if_true, hlk, Option.map_some, Option.some.injEq] at hw1
      exact hw1.symm
    subst e1
    refine ⟨rfl, ?_, fun _ => rfl, rfl, ?_⟩
    · have : (assignS (wakeWorker s w) { w with parked := false, woken := true } t).workers =
          (s.setWorker { w with parked := false, woken := true, task := some t.id }).workers := by
        simp only [assignS_workers, wakeWorker]; exact setWorker_twice s _ _ rfl
      rw [this]; exact setWorker_proj hw.uniq hm rfl rfl
    · intro k
      simp only [State.task?, assignS_tasks, alookup_aset, wakeWorker_tasks, hid t h0]
      split
      · rename_i e; subst e
        have : alookup tid s.tasks = some t := h0
        rw [this]; rfl
      · rfl

/-! ### `finishOps` -/

/-- what one iteration of `finishOps` does to operation `o` -/
theorem finishOp_spec (s : State) (o : Nat) (hn : ∀ k op, s.op? k = some op → op.name = k) :
    (∀ k, (finishOp s o).op? k = (s.op? k).map (fun op => if k = o then { op with mayExistWithoutWaiters := false } else op)) ∧
    (∀ k, hasK (finishOp s o) k ↔ hasK s k ∨
      (k = .op o ∧ ∃ op, s.op? o = some op ∧ op.mayExistWithoutWaiters = true ∧ op.waiters = 0)) ∧
    ((s.cleanup.map (·.kind)).Nodup → ((finishOp s o).cleanup.map (·.kind)).Nodup) := by
  unfold finishOp
  cases hop : s.op? o with
  | none =>
    simp only
    refine ⟨?_, ?_, id⟩
    · intro k
      by_cases hk : k = o
      · subst hk; rw [hop]; rfl
      · cases s.op? k <;> simp [hk]
    · intro k; constructor
      · exact .inl
      · rintro (h | ⟨_, op, e, _⟩)
        · exact h
        · cases e
  | some op =>
    have hname := hn o op hop
    simp only
    by_cases hb : op.mayExistWithoutWaiters = true
    · simp only [hb, if_true]
      -- state after clearing the flag
      have hop1 : (s.setOp { op with mayExistWithoutWaiters := false }).op? o = some { op with mayExistWithoutWaiters := false } := by
        simp [State.op?, hname]
      unfold maybeStartCleanup
      simp only [hop1]
      have opl : ∀ k, (s.setOp { op with mayExistWithoutWaiters := false }).op? k =
          (s.op? k).map (fun op' => if k = o then { op' with mayExistWithoutWaiters := false } else op') := by
        intro k
        simp only [State.op?, setOp_ops, alookup_aset, hname]
        by_cases hk : o = k
        · subst hk
          have : alookup o s.ops = some op := hop
          simp [this, hname]
        · have : ¬ k = o := fun e => hk e.symm
          simp only [hk, if_false]
          cases alookup k s.ops <;> simp [this]
      split
      · rename_i hc
        refine ⟨?_, ?_, ?_⟩
        · intro k; rw [← opl]; rfl
        · intro k
          rw [hasK_add]
          constructor
          · rintro (rfl | h)
            · exact .inr ⟨rfl, op, rfl, hb, hc.1⟩
            · exact .inl h
          · rintro (h | ⟨rfl, _⟩)
            · exact .inr h
            · exact .inl rfl
        · intro hnd
          simp only [addCleanup_cleanup, List.map_cons, List.nodup_cons, setOp_cleanup]
          refine ⟨?_, hnd⟩
          intro hmem
          obtain ⟨e, he, hk⟩ := List.mem_map.1 hmem
          have : (s.setOp { op with mayExistWithoutWaiters := false }).hasCleanup (.op o) = true := by
            rw [hasCleanup_iff]; exact ⟨e, he, hk⟩
          simp [this] at hc
      · rename_i hc
        refine ⟨?_, ?_, id⟩
        · intro k; rw [← opl]
        · intro k
          constructor
          · exact .inl
          · rintro (h | ⟨rfl, op', e, _, hw0⟩)
            · exact h
            · injection e with e; subst e
              -- the entry was already armed
              have : (s.setOp { op with mayExistWithoutWaiters := false }).hasCleanup (.op o) = true := by
                cases hh : (s.setOp { op with mayExistWithoutWaiters := false }).hasCleanup (.op o) with
                | true => rfl
                | false => exact absurd ⟨hw0, by simp, by simp [hh]⟩ hc
              exact (hasCleanup_iff _ _).1 this
    · have hb' : op.mayExistWithoutWaiters = false := by simpa using hb
      simp only [hb', Bool.false_eq_true, if_false]
      refine ⟨?_, ?_, id⟩
      · intro k
        by_cases hk : k = o
        · subst hk; rw [hop]; simp only [Option.map_some, if_true]
          congr 1; cases op; simp_all
        · cases s.op? k <;> simp [hk]
      · intro k; constructor
        · exact .inl
        · rintro (h | ⟨_, op', e, hm, _⟩)
          · exact h
          · injection e with e; subst e; rw [hb'] at hm; cases hm

/-- `finishOps` over a list: flags of the listed operations cleared; an entry armed for those that were
background operations without waiters -/
theorem finishOps_spec (l : List Nat) (s : State) (hn : ∀ k op, s.op? k = some op → op.name = k) :
    (∀ k, (complete.finishOps s l).op? k =
      (s.op? k).map (fun op => if k ∈ l then { op with mayExistWithoutWaiters := false } else op)) ∧
    (∀ k, hasK (complete.finishOps s l) k ↔ hasK s k ∨
      (∃ o ∈ l, k = .op o ∧ ∃ op, s.op? o = some op ∧ op.mayExistWithoutWaiters = true ∧ op.waiters = 0)) ∧
    ((s.cleanup.map (·.kind)).Nodup → ((complete.finishOps s l).cleanup.map (·.kind)).Nodup) := by
  induction l generalizing s with
  | nil =>
    refine ⟨?_, ?_, id⟩
    · intro k; rw [finishOps_nil]; cases s.op? k <;> simp
    · intro k; rw [finishOps_nil]; simp
  | cons o r ih =>
    rw [finishOps_cons]
    obtain ⟨a1, a2, a3⟩ := finishOp_spec s o hn
    have hn1 : ∀ k op, (finishOp s o).op? k = some op → op.name = k := by
      intro k op e
      rw [a1] at e
      cases hs : s.op? k with
      | none => rw [hs] at e; cases e
      | some op0 =>
        rw [hs] at e; simp only [Option.map_some, Option.some.injEq] at e
        subst e; split <;> exact hn k op0 hs
    obtain ⟨b1, b2, b3⟩ := ih (finishOp s o) hn1
    refine ⟨?_, ?_, fun h => b3 (a3 h)⟩
    · intro k
      rw [b1, a1]
      cases s.op? k with
      | none => rfl
      | some op0 =>
        simp only [Option.map_some, List.mem_cons]
        by_cases h1 : k = o <;> by_cases h2 : k ∈ r <;> simp [h1, h2]
    · intro k
      rw [b2, a2]
      constructor
      · rintro ((h | ⟨rfl, op, e, hm, hw⟩) | ⟨o', ho', rfl, op', e', hm', hw'⟩)
        · exact .inl h
        · exact .inr ⟨o, List.mem_cons_self .., rfl, op, e, hm, hw⟩
        · -- the operation had the flag in the intermediate state, hence before
          rw [a1] at e'
          cases hs : s.op? o' with
          | none => rw [hs] at e'; cases e'
          | some op0 =>
            rw [hs] at e'; simp only [Option.map_some, Option.some.injEq] at e'
            subst e'
            by_cases h1 : o' = o
            · simp [h1] at hm'
            · simp only [h1, if_false] at hm' hw'
              exact .inr ⟨o', List.mem_cons_of_mem _ ho', rfl, op0, hs, hm', hw'⟩
      · rintro (h | ⟨o', ho', rfl, op, e, hm, hw⟩)
        · exact .inl (.inl h)
        · rcases List.mem_cons.1 ho' with rfl | ho'
          · exact .inl (.inr ⟨rfl, op, e, hm, hw⟩)
          · by_cases h1 : o' = o
            · subst h1; exact .inl (.inr ⟨rfl, op, e, hm, hw⟩)
            · refine .inr ⟨o', ho', rfl, op, ?_, hm, hw⟩
              rw [a1, e]; simp [h1]

end BbRe.Lemmas.SchedLive
