import BbRe.Lemmas.SchedTreePrimRefresh
import BbRe.Lemmas.SchedTreePrimCreate
import BbRe.Lemmas.SchedTreePrioPrim
/-!
Node level of "every non-root invocation's cached priority is what `updateFirstOperationPriority` would store
now" (`PrioFix`), for the tree layer after the fix of the stale cache (`incExecR false` / `decExecR false`).

`(updPrio pr ns n).prio` is a function of `n.qops` (and `pr` on them), `n.prio` and, for the members of
`n.qkids` that resolve to a node, that node's `(exec.length, prio, started)` (`ck`).  So a primitive can only
invalidate the invocations whose own `qops` / `qkids` / `prio` it writes and the PARENTS of the invocations whose
`ck` it changes; `FixEx` is the fixpoint clause outside a set of paths of one queue.
-/
namespace BbRe.Lemmas.SchedTree
open BbRe.Sched BbRe.SchedTree PrimQueue

/-- every non-root invocation's cached priority is what `updateFirstOperationPriority` would store now -/
def PrioFix (pr : Nat → Int) (ns : List Node) : Prop :=
  ∀ n ∈ ns, n.path ≠ [] → (updPrio pr ns n).prio = n.prio

/-- keys are unique and every member of `queuedChildren` is an existing, queued invocation -/
def StructOK (ns : List Node) : Prop :=
  (ns.map nkey).Nodup ∧ ∀ P ∈ ns, ∀ k ∈ P.qkids, ∃ c, node? ns P.scq (P.path ++ [k]) = some c ∧ c.isQueued = true

/-- `queuedChildren` has no duplicates -/
def KN (ns : List Node) : Prop := ∀ P ∈ ns, P.qkids.Nodup

/-! ### what `updateFirstOperationPriority` reads -/

/-- what `queuedChildrenHeap.Less` reads of a child -/
abbrev CK := Nat × Int × Nat

def ck (c : Node) : CK := (c.exec.length, c.prio, c.started)

def lessK (a b : CK) : Bool := Fair.isPreferred a.1 a.2.1 b.1 b.2.1 (decide (a.2.2 < b.2.2))

theorem childLess_ck (a b : Node) : childLess a b = lessK (ck a) (ck b) := rfl

def bestK (ks : List CK) : Option CK :=
  match ks.find? (fun c => ks.all (fun c' => !lessK c' c)) with
  | some c => some c
  | none => ks.head?

theorem bestKid_ck (ns : List Node) (n : Node) : (bestKid ns n).map ck = bestK ((kidsOf ns n).map ck) := by
  unfold bestKid bestK
  simp only []
  rw [List.find?_map, List.head?_map]
  have : ((fun c => ((kidsOf ns n).map ck).all (fun c' => !lessK c' c)) ∘ ck) =
      (fun c => (kidsOf ns n).all (fun c' => !childLess c' c)) := by
    funext c
    simp only [Function.comp, List.all_map, childLess_ck]
    rfl
  rw [this]
  cases (kidsOf ns n).find? (fun c => (kidsOf ns n).all (fun c' => !childLess c' c)) with
  | none => rfl
  | some c => rfl

def ckAt (ns : List Node) (q : ScqId) (p : List Nat) : Option CK := (node? ns q p).map ck

def kidsK (ns : List Node) (n : Node) : List CK := n.qkids.filterMap (fun k => ckAt ns n.scq (n.path ++ [k]))

theorem kidsK_eq (ns : List Node) (n : Node) : kidsK ns n = (kidsOf ns n).map ck := by
  unfold kidsK kidsOf ckAt
  rw [List.map_filterMap]

/-- the value `updateFirstOperationPriority` stores -/
def upval (pr : Nat → Int) (qops : List Nat) (prio : Int) (K : List CK) : Int :=
  if !qops.isEmpty then minPrio (qops.map pr)
  else match bestK K with
    | some c => c.2.1
    | none => prio

theorem updPrio_prio (pr : Nat → Int) (ns : List Node) (n : Node) :
    (updPrio pr ns n).prio = upval pr n.qops n.prio (kidsK ns n) := by
  unfold updPrio upval
  split
  · rfl
  · rw [kidsK_eq, ← bestKid_ck]
    cases bestKid ns n with
    | none => rfl
    | some c => rfl

theorem upval_idem (pr : Nat → Int) (qops : List Nat) (prio : Int) (K : List CK) :
    upval pr qops (upval pr qops prio K) K = upval pr qops prio K := by
  unfold upval
  split
  · rfl
  · cases bestK K with
    | none => rfl
    | some c => rfl

/-- the fixpoint clause for one node -/
def Fixed (pr : Nat → Int) (ns : List Node) (n : Node) : Prop := upval pr n.qops n.prio (kidsK ns n) = n.prio

theorem prioFix_iff (pr : Nat → Int) (ns : List Node) : PrioFix pr ns ↔ ∀ n ∈ ns, n.path ≠ [] → Fixed pr ns n := by
  unfold PrioFix Fixed
  constructor
  · intro h n hn hp; rw [← updPrio_prio]; exact h n hn hp
  · intro h n hn hp; rw [updPrio_prio]; exact h n hn hp

/-- the fixpoint clause outside the paths `S` of queue `q` -/
def FixEx (pr : Nat → Int) (ns : List Node) (q : ScqId) (S : List Nat → Prop) : Prop :=
  ∀ n ∈ ns, n.path ≠ [] → ¬ (n.scq = q ∧ S n.path) → Fixed pr ns n

theorem FixEx.of_prioFix {pr : Nat → Int} {ns : List Node} (h : PrioFix pr ns) (q : ScqId) (S : List Nat → Prop) :
    FixEx pr ns q S := fun n hn hp _ => (prioFix_iff pr ns).mp h n hn hp

theorem FixEx.prioFix {pr : Nat → Int} {ns : List Node} {q : ScqId} {S : List Nat → Prop} (h : FixEx pr ns q S)
    (hS : ∀ a, S a → a = []) : PrioFix pr ns := by
  rw [prioFix_iff]
  intro n hn hp
  exact h n hn hp (fun ⟨_, hs⟩ => hp (hS _ hs))

theorem FixEx.mono {pr : Nat → Int} {ns : List Node} {q : ScqId} {S S' : List Nat → Prop} (h : FixEx pr ns q S)
    (hS : ∀ a, a ≠ [] → S a → S' a) : FixEx pr ns q S' :=
  fun n hn hp hx => h n hn hp (fun ⟨e, hs⟩ => hx ⟨e, hS _ hp hs⟩)

/-! ### congruence -/

theorem filterMap_congr' {α β} {f g : α → Option β} : ∀ {l : List α}, (∀ a ∈ l, f a = g a) → l.filterMap f = l.filterMap g
  | [], _ => rfl
  | a :: l, h => by
    rw [List.filterMap_cons, List.filterMap_cons, h a List.mem_cons_self,
      filterMap_congr' (fun b hb => h b (List.mem_cons_of_mem _ hb))]

theorem kidsK_congr {ns ns' : List Node} {n : Node}
    (h : ∀ k ∈ n.qkids, ckAt ns' n.scq (n.path ++ [k]) = ckAt ns n.scq (n.path ++ [k])) : kidsK ns' n = kidsK ns n := by
  unfold kidsK
  exact filterMap_congr' h

theorem kidsK_fields (ns : List Node) {n n' : Node} (h1 : n'.scq = n.scq) (h2 : n'.path = n.path)
    (h3 : n'.qkids = n.qkids) : kidsK ns n' = kidsK ns n := by
  unfold kidsK; rw [h1, h2, h3]

theorem upval_pr_congr {pr pr' : Nat → Int} {qops : List Nat} (h : ∀ o ∈ qops, pr' o = pr o) (prio : Int) (K : List CK) :
    upval pr' qops prio K = upval pr qops prio K := by
  unfold upval
  rw [List.map_congr_left h]

/-- a key-preserving map keeps the fixpoint clause of a node whose own `qops`, `prio`, `qkids` and whose queued
children's `ck` it keeps -/
theorem fixed_map {pr : Nat → Int} {ns : List Node} {g : Node → Node} (hg : KeepsKey g) {n : Node}
    (h1 : (g n).qops = n.qops) (h2 : (g n).prio = n.prio) (h3 : (g n).qkids = n.qkids)
    (hc : ∀ k ∈ n.qkids, ∀ c, node? ns n.scq (n.path ++ [k]) = some c → ck (g c) = ck c) :
    Fixed pr (ns.map g) (g n) ↔ Fixed pr ns n := by
  have hk : kidsK (ns.map g) (g n) = kidsK ns n := by
    rw [kidsK_fields _ (hg n).1 (hg n).2 h3]
    apply kidsK_congr
    intro k hk
    unfold ckAt
    rw [node?_map hg]
    cases hn : node? ns n.scq (n.path ++ [k]) with
    | none => rfl
    | some c => simp only [Option.map_some]; rw [hc k hk c hn]
  unfold Fixed
  rw [hk, h1, h2]

/-! ### the structural part: unique keys, `queuedChildren` refers to existing queued invocations -/

/-- the `queuedChildren` clause of `StructOK` -/
def QKs (ns : List Node) : Prop :=
  ∀ P ∈ ns, ∀ k ∈ P.qkids, ∃ c, node? ns P.scq (P.path ++ [k]) = some c ∧ c.isQueued = true

theorem filter_keys_nodup {ns : List Node} (h : (ns.map nkey).Nodup) (keep : Node → Bool) :
    ((ns.filter keep).map nkey).Nodup :=
  h.sublist (List.Sublist.map _ List.filter_sublist)

theorem node?_mem_unique {ns : List Node} (hnd : (ns.map nkey).Nodup) {n c : Node} (hn : n ∈ ns)
    (hc : node? ns n.scq n.path = some c) : c = n := by
  rw [node?_of_mem hnd hn] at hc; cases hc; rfl

/-- a key-preserving map that keeps `qkids` and does not make a queued node unqueued -/
theorem QKs.map {ns : List Node} (h : QKs ns) {g : Node → Node} (hg : KeepsKey g)
    (hk : ∀ n, (g n).qkids = n.qkids) (hq : ∀ n, n.isQueued = true → (g n).isQueued = true) : QKs (ns.map g) := by
  intro P' hP' k hk'
  obtain ⟨P, hP, e⟩ := List.mem_map.mp hP'
  subst e
  rw [hk] at hk'
  obtain ⟨c, hc, hcq⟩ := h P hP k hk'
  refine ⟨g c, ?_, hq c hcq⟩
  rw [(hg P).1, (hg P).2, node?_map hg, hc]; rfl

theorem KN.map {ns : List Node} (h : KN ns) {g : Node → Node} (hk : ∀ n, (g n).qkids = n.qkids) : KN (ns.map g) := by
  intro P' hP'
  obtain ⟨P, hP, e⟩ := List.mem_map.mp hP'
  subst e
  rw [hk]; exact h P hP

/-- removing nodes such that the queued children of a kept node are kept -/
theorem QKs.filter {ns : List Node} (h : QKs ns) (keep : Node → Bool)
    (hK : ∀ P ∈ ns, keep P = true → ∀ k ∈ P.qkids, ∀ c, node? ns P.scq (P.path ++ [k]) = some c → keep c = true) :
    QKs (ns.filter keep) := by
  intro P hP k hk
  obtain ⟨hP1, hP2⟩ := List.mem_filter.mp hP
  obtain ⟨c, hc, hcq⟩ := h P hP1 k hk
  exact ⟨c, node?_filter_of_keep hc (hK P hP1 hP2 k hk c hc), hcq⟩

/-- removed nodes that are not queued are no queued children -/
theorem keep_of_unqueued {ns : List Node} (h : QKs ns) {keep : Node → Bool}
    (hrm : ∀ n ∈ ns, keep n = false → n.isQueued = false) :
    ∀ P ∈ ns, keep P = true → ∀ k ∈ P.qkids, ∀ c, node? ns P.scq (P.path ++ [k]) = some c → keep c = true := by
  intro P hP _ k hk c hc
  obtain ⟨c', hc', hq⟩ := h P hP k hk
  rw [hc] at hc'; cases hc'
  cases hkc : keep c with
  | true => rfl
  | false => rw [hrm c (node?_some hc).1 hkc] at hq; cases hq

theorem KN.filter {ns : List Node} (h : KN ns) (keep : Node → Bool) : KN (ns.filter keep) :=
  fun P hP => h P (List.mem_filter.mp hP).1

theorem QKs.append {ns ms : List Node} (h : QKs ns) (hm : ∀ m ∈ ms, m.qkids = []) : QKs (ns ++ ms) := by
  intro P hP k hk
  rcases List.mem_append.mp hP with a | a
  · obtain ⟨c, hc, hq⟩ := h P a k hk
    exact ⟨c, node?_append_of_some ms hc, hq⟩
  · rw [hm P a] at hk; cases hk

theorem KN.append {ns ms : List Node} (h : KN ns) (hm : ∀ m ∈ ms, m.qkids = []) : KN (ns ++ ms) := by
  intro P hP
  rcases List.mem_append.mp hP with a | a
  · exact h P a
  · rw [hm P a]; exact List.nodup_nil

/-! ### the fixpoint clause of one node under filters and appends -/

theorem fixed_filter {pr : Nat → Int} {ns : List Node} (h : QKs ns) (keep : Node → Bool)
    (hK : ∀ P ∈ ns, keep P = true → ∀ k ∈ P.qkids, ∀ c, node? ns P.scq (P.path ++ [k]) = some c → keep c = true)
    {n : Node} (hn : n ∈ ns) (hkn : keep n = true) : Fixed pr (ns.filter keep) n ↔ Fixed pr ns n := by
  have hk : kidsK (ns.filter keep) n = kidsK ns n := by
    apply kidsK_congr
    intro k hk
    obtain ⟨c, hc, _⟩ := h n hn k hk
    unfold ckAt
    rw [hc, node?_filter_of_keep hc (hK n hn hkn k hk c hc)]
  unfold Fixed; rw [hk]

theorem fixed_append {pr : Nat → Int} {ns : List Node} (h : QKs ns) (ms : List Node) {n : Node} (hn : n ∈ ns) :
    Fixed pr (ns ++ ms) n ↔ Fixed pr ns n := by
  have hk : kidsK (ns ++ ms) n = kidsK ns n := by
    apply kidsK_congr
    intro k hk
    obtain ⟨c, hc, _⟩ := h n hn k hk
    unfold ckAt
    rw [hc, node?_append_of_some ms hc]
  unfold Fixed; rw [hk]

theorem fixed_fresh (pr : Nat → Int) (ns : List Node) {m : Node} (h1 : m.qops = []) (h2 : m.qkids = []) : Fixed pr ns m := by
  unfold Fixed kidsK upval
  rw [h1, h2]
  rfl

theorem FixEx.filter {pr : Nat → Int} {ns : List Node} {q : ScqId} {S : List Nat → Prop} (hf : FixEx pr ns q S) (h : QKs ns)
    (keep : Node → Bool)
    (hK : ∀ P ∈ ns, keep P = true → ∀ k ∈ P.qkids, ∀ c, node? ns P.scq (P.path ++ [k]) = some c → keep c = true) :
    FixEx pr (ns.filter keep) q S := by
  intro n hn hp hx
  obtain ⟨h1, h2⟩ := List.mem_filter.mp hn
  exact (fixed_filter h keep hK h1 h2).mpr (hf n h1 hp hx)

theorem FixEx.append {pr : Nat → Int} {ns ms : List Node} {q : ScqId} {S : List Nat → Prop} (hf : FixEx pr ns q S)
    (h : QKs ns) (hm : ∀ m ∈ ms, m.qops = [] ∧ m.qkids = []) : FixEx pr (ns ++ ms) q S := by
  intro n hn hp hx
  rcases List.mem_append.mp hn with a | a
  · exact (fixed_append h ms a).mpr (hf n a hp hx)
  · exact fixed_fresh pr _ (hm n a).1 (hm n a).2

/-- a key-preserving map that keeps `qops`, `qkids` and what `queuedChildrenHeap.Less` reads -/
structure Invis (g : Node → Node) : Prop where
  key : KeepsKey g
  qops : ∀ n, (g n).qops = n.qops
  qkids : ∀ n, (g n).qkids = n.qkids
  ck : ∀ n, ck (g n) = ck n

theorem Invis.prio {g : Node → Node} (h : Invis g) (n : Node) : (g n).prio = n.prio :=
  congrArg (fun x : CK => x.2.1) (h.ck n)

theorem Invis.queued {g : Node → Node} (h : Invis g) (n : Node) : (g n).isQueued = n.isQueued := by
  unfold Node.isQueued; rw [h.qops, h.qkids]

theorem Invis.ite {c : Node → Bool} {f : Node → Node} (hf : Invis f) : Invis (fun n => if c n then f n else n) := by
  refine ⟨keepsKey_ite hf.key, ?_, ?_, ?_⟩ <;> intro n <;> by_cases h : c n = true <;> simp [h, hf.qops, hf.qkids, hf.ck]

theorem FixEx.map_invis {pr : Nat → Int} {ns : List Node} {q : ScqId} {S : List Nat → Prop} (hf : FixEx pr ns q S)
    {g : Node → Node} (hg : Invis g) : FixEx pr (ns.map g) q S := by
  intro m hm hp hx
  obtain ⟨n, hn, e⟩ := List.mem_map.mp hm
  subst e
  rw [fixed_map hg.key (hg.qops n) (hg.prio n) (hg.qkids n) (fun _ _ c _ => hg.ck c)]
  rw [(hg.key n).2] at hp
  rw [(hg.key n).1, (hg.key n).2] at hx
  exact hf n hn hp hx

/-! ### the node-level invariant and the primitives that do not touch what `updPrio` reads -/

/-- the fixpoint clause outside the paths `S` of queue `q`, and the structural part -/
structure NInvX (pr : Nat → Int) (ns : List Node) (q : ScqId) (S : List Nat → Prop) : Prop where
  fx : FixEx pr ns q S
  nd : (ns.map nkey).Nodup
  qk : QKs ns
  kn : KN ns

/-- exact caches and the structural part -/
structure NInv (pr : Nat → Int) (ns : List Node) : Prop where
  fix : PrioFix pr ns
  nd : (ns.map nkey).Nodup
  qk : QKs ns
  kn : KN ns

theorem NInv.x {pr : Nat → Int} {ns : List Node} (h : NInv pr ns) (q : ScqId) (S : List Nat → Prop) : NInvX pr ns q S :=
  ⟨FixEx.of_prioFix h.fix q S, h.nd, h.qk, h.kn⟩

theorem NInvX.ninv {pr : Nat → Int} {ns : List Node} {q : ScqId} {S : List Nat → Prop} (h : NInvX pr ns q S)
    (hS : ∀ a, S a → a = []) : NInv pr ns := ⟨h.fx.prioFix hS, h.nd, h.qk, h.kn⟩

theorem NInv.structOK {pr : Nat → Int} {ns : List Node} (h : NInv pr ns) : StructOK ns := ⟨h.nd, h.qk⟩

theorem NInv.nil (pr : Nat → Int) : NInv pr [] :=
  ⟨fun _ h => (nomatch h), List.nodup_nil, fun _ h => (nomatch h), fun _ h => (nomatch h)⟩

section
variable {pr : Nat → Int} {ns : List Node} {q : ScqId} {S : List Nat → Prop}

theorem NInvX.map_invis (h : NInvX pr ns q S) {g : Node → Node} (hg : Invis g) : NInvX pr (ns.map g) q S :=
  ⟨h.fx.map_invis hg, by rw [map_keys hg.key]; exact h.nd,
    h.qk.map hg.key hg.qkids (fun n hn => by rw [hg.queued]; exact hn), h.kn.map hg.qkids⟩

theorem NInvX.filter (h : NInvX pr ns q S) (keep : Node → Bool)
    (hrm : ∀ n ∈ ns, keep n = false → n.isQueued = false) : NInvX pr (ns.filter keep) q S :=
  have hK := keep_of_unqueued h.qk hrm
  ⟨h.fx.filter h.qk keep hK, filter_keys_nodup h.nd keep, h.qk.filter keep hK, h.kn.filter keep⟩

theorem NInvX.append (h : NInvX pr ns q S) {ms : List Node} (hm : ∀ m ∈ ms, m.qops = [] ∧ m.qkids = [])
    (hnd : ((ns ++ ms).map nkey).Nodup) : NInvX pr (ns ++ ms) q S :=
  ⟨h.fx.append h.qk hm, hnd, h.qk.append (fun m hm' => (hm m hm').2), h.kn.append (fun m hm' => (hm m hm').2)⟩

theorem NInv.map_invis (h : NInv pr ns) {g : Node → Node} (hg : Invis g) : NInv pr (ns.map g) :=
  ((h.x default (fun _ => False)).map_invis hg).ninv (fun _ hf => hf.elim)

theorem NInv.filter (h : NInv pr ns) (keep : Node → Bool)
    (hrm : ∀ n ∈ ns, keep n = false → n.isQueued = false) : NInv pr (ns.filter keep) :=
  ((h.x default (fun _ => False)).filter keep hrm).ninv (fun _ hf => hf.elim)

theorem NInv.append (h : NInv pr ns) {ms : List Node} (hm : ∀ m ∈ ms, m.qops = [] ∧ m.qkids = [])
    (hnd : ((ns ++ ms).map nkey).Nodup) : NInv pr (ns ++ ms) :=
  ((h.x default (fun _ => False)).append hm hnd).ninv (fun _ hf => hf.elim)

theorem NInv.foldl {β} (f : List Node → β → List Node) (hf : ∀ ns b, NInv pr ns → NInv pr (f ns b)) (l : List β) :
    ∀ ns, NInv pr ns → NInv pr (l.foldl f ns) := by
  induction l with
  | nil => intro ns h; exact h
  | cons b l ih => intro ns h; exact ih _ (hf ns b h)

end

theorem unqueued_of_empty {n : Node} (h : n.isEmptyInv = true) : n.isQueued = false := by
  unfold Node.isEmptyInv Node.isActive at h
  cases hq : n.isQueued with
  | false => rfl
  | true => rw [hq] at h; simp at h

section
variable {pr : Nat → Int} {ns : List Node}

theorem NInv.updNode (h : NInv pr ns) {f : Node → Node} (hf : Invis f) (q : ScqId) (p : List Nat) :
    NInv pr (BbRe.SchedTree.updNode ns q p f) := h.map_invis hf.ite

theorem NInv.updPath (h : NInv pr ns) {f : Node → Node} (hf : Invis f) (q : ScqId) (p : List Nat) :
    NInv pr (BbRe.SchedTree.updPath ns q p f) := h.map_invis hf.ite

theorem NInv.pruneP (h : NInv pr ns) (q : ScqId) (p : List Nat) : NInv pr (BbRe.SchedTree.pruneP ns q p) := by
  refine h.filter _ ?_
  intro n _ hk
  simp only [Bool.not_eq_false', Bool.and_eq_true] at hk
  exact unqueued_of_empty hk.2

end

/-- `Invis` for a structure update that touches none of the fields `updPrio` reads -/
macro "invis" : term => `(by
  refine ⟨fun _ => ⟨rfl, rfl⟩, fun _ => rfl, fun _ => rfl, fun _ => rfl⟩)

section
variable {pr : Nat → Int} {ns : List Node}

theorem NInv.setLastN (h : NInv pr ns) (q : ScqId) (p : List Nat) : NInv pr (BbRe.SchedTree.setLastN ns q p) :=
  h.updPath invis q p

theorem NInv.clearLastN (h : NInv pr ns) (q : ScqId) (p : List Nat) : NInv pr (BbRe.SchedTree.clearLastN ns q p) :=
  (h.updPath invis q p).pruneP q p

theorem NInv.parkW (h : NInv pr ns) (q : ScqId) (p : List Nat) (w : WId) : NInv pr (BbRe.SchedTree.parkW ns q p w) := by
  unfold BbRe.SchedTree.parkW
  refine NInv.foldl _ ?_ _ _ (h.updNode invis q p)
  intro ns b hb
  unfold parkStep
  exact hb.updNode invis _ _

theorem NInv.dequeueW (h : NInv pr ns) (q : ScqId) (p : List Nat) (w : WId) : NInv pr (BbRe.SchedTree.dequeueW ns q p w) := by
  unfold BbRe.SchedTree.dequeueW
  refine NInv.foldl _ ?_ _ _ (h.updNode invis q p)
  intro ns b hb
  unfold unparkStep
  split
  · exact hb
  · split
    · exact hb.updNode invis _ _
    · exact hb

theorem NInv.pruneChain (q : ScqId) (l : List (List Nat)) : ∀ {ns : List Node}, NInv pr ns → NInv pr (BbRe.SchedTree.pruneChain ns q l) := by
  induction l with
  | nil => intro ns h; exact h
  | cons pi rest ih =>
    intro ns h
    unfold BbRe.SchedTree.pruneChain
    split
    · rename_i i hi
      split
      · rename_i hemp
        refine ih (h.filter _ ?_)
        intro n hn hk
        have hat : n.isAt q pi = true := by simpa using hk
        obtain ⟨e1, e2⟩ := (isAt_iff n q pi).mp hat
        have : i = n := node?_mem_unique h.nd hn (by rw [e1, e2]; exact hi)
        subst this
        exact unqueued_of_empty hemp
      · exact h
    · exact h

theorem NInv.gocStep (h : NInv pr ns) (q : ScqId) (now : Nat) (pi : List Nat) : NInv pr (gocStep q now ns pi) := by
  unfold BbRe.Lemmas.SchedTree.gocStep
  split
  · exact h
  · rename_i hn
    refine h.append ?_ ?_
    · intro m hm
      rw [List.mem_singleton] at hm; subst hm; exact ⟨rfl, rfl⟩
    · rw [List.map_append, List.nodup_append]
      refine ⟨h.nd, by simp, ?_⟩
      intro a ha b hb e
      simp only [List.map_cons, List.map_nil, List.mem_singleton] at hb
      subst hb; subst e
      obtain ⟨n, hn', e'⟩ := List.mem_map.mp ha
      have hnone : node? ns q pi = none := by
        cases hx : node? ns q pi with
        | none => rfl
        | some _ => rw [hx] at hn; exact absurd rfl hn
      apply node?_eq_none_iff.mp hnone n hn'
      unfold nkey mkNode at e'
      exact ⟨(Prod.mk.inj e').1, (Prod.mk.inj e').2⟩

theorem NInv.getOrCreate (h : NInv pr ns) (q : ScqId) (p : List Nat) (now : Nat) :
    NInv pr (BbRe.SchedTree.getOrCreate ns q p now) := by
  unfold BbRe.SchedTree.getOrCreate
  exact NInv.foldl _ (fun ns b hb => hb.gocStep q now b) _ _ h

end

/-! ### `increment/decrementExecutingWorkersCount` with the refresh of the ancestors -/

/-- the proper prefixes of `p`: the parents of the invocations on the path -/
def PP (p : List Nat) (a : List Nat) : Prop := a <+: p ∧ a ≠ p

theorem pp_concat {p a : List Nat} {k : Nat} : PP (p ++ [k]) a ↔ a <+: p := by
  unfold PP
  constructor
  · rintro ⟨h1, h2⟩
    rcases List.prefix_concat_iff.mp h1 with e | e
    · exact absurd e h2
    · exact e
  · intro h
    refine ⟨h.trans (List.prefix_append _ _), ?_⟩
    intro e
    have := h.length_le
    rw [e] at this
    simp at this
    omega

theorem pp_of_child {p a : List Nat} {k : Nat} (h : a ++ [k] <+: p) : PP p a := by
  refine ⟨(List.prefix_append _ _).trans h, ?_⟩
  intro e
  have := h.length_le
  rw [e] at this
  simp at this
  omega

section
variable {pr : Nat → Int} {ns : List Node}

/-- the counters of the invocations on the path change: only their parents may have to be refreshed -/
theorem NInv.updPath_counters (h : NInv pr ns) {f : Node → Node} (hk : KeepsKey f) (h1 : ∀ n, (f n).qops = n.qops)
    (h2 : ∀ n, (f n).qkids = n.qkids) (h3 : ∀ n, (f n).prio = n.prio) (q : ScqId) (p : List Nat) :
    NInvX pr (BbRe.SchedTree.updPath ns q p f) q (PP p) := by
  rw [updPath_eq_map]
  have hg : KeepsKey (fun n => if n.onPath q p then f n else n) := keepsKey_ite hk
  have g1 : ∀ n : Node, (if n.onPath q p then f n else n).qops = n.qops := by intro n; split <;> simp [h1]
  have g2 : ∀ n : Node, (if n.onPath q p then f n else n).qkids = n.qkids := by intro n; split <;> simp [h2]
  have g3 : ∀ n : Node, (if n.onPath q p then f n else n).prio = n.prio := by intro n; split <;> simp [h3]
  refine ⟨?_, by rw [map_keys hg]; exact h.nd, h.qk.map hg g2 ?_, h.kn.map g2⟩
  · intro m hm hp hx
    obtain ⟨n, hn, e⟩ := List.mem_map.mp hm
    subst e
    rw [(hg n).2] at hp
    rw [(hg n).1, (hg n).2] at hx
    rw [fixed_map hg (g1 n) (g3 n) (g2 n)]
    · exact (prioFix_iff pr ns).mp h.fix n hn hp
    · intro k _ c hc
      obtain ⟨_, e1, e2⟩ := node?_some hc
      by_cases hon : c.onPath q p = true
      · exfalso
        obtain ⟨a, b⟩ := (onPath_iff c q p).mp hon
        rw [e2] at b
        exact hx ⟨e1.symm.trans a, pp_of_child b⟩
      · simp [hon]
  · intro n hq
    unfold Node.isQueued at hq ⊢
    rw [g1, g2]; exact hq

theorem refreshStep_ninvx {q : ScqId} {p' : List Nat} {k : Nat} (h : NInvX pr ns q (PP (p' ++ [k]))) :
    NInvX pr (refreshStep pr q ns (p' ++ [k])) q (PP p') := by
  rw [refreshStep_eq_map pr h.nd, List.dropLast_concat]
  have hg : KeepsKey (fun n => if n.isAt q p' then updPrio pr ns n else n) :=
    keepsKey_ite (fun n => by rw [updPrio_eq]; exact ⟨rfl, rfl⟩)
  have g1 : ∀ n : Node, (if n.isAt q p' then updPrio pr ns n else n).qops = n.qops := by
    intro n; split
    · rw [updPrio_eq]
    · rfl
  have g2 : ∀ n : Node, (if n.isAt q p' then updPrio pr ns n else n).qkids = n.qkids := by
    intro n; split
    · rw [updPrio_eq]
    · rfl
  refine ⟨?_, by rw [map_keys hg]; exact h.nd, h.qk.map hg g2 ?_, h.kn.map g2⟩
  · intro m hm hp hx
    obtain ⟨n, hn, e⟩ := List.mem_map.mp hm
    subst e
    rw [(hg n).2] at hp
    rw [(hg n).1, (hg n).2] at hx
    by_cases hat : n.isAt q p' = true
    · -- the refreshed invocation
      obtain ⟨a1, a2⟩ := (isAt_iff n q p').mp hat
      simp only [hat, if_true]
      have hk : kidsK (ns.map (fun n => if n.isAt q p' then updPrio pr ns n else n)) (updPrio pr ns n) = kidsK ns n := by
        rw [kidsK_fields _ (n := n) (by rw [updPrio_eq]) (by rw [updPrio_eq]) (by rw [updPrio_eq])]
        apply kidsK_congr
        intro k' _
        unfold ckAt
        rw [node?_map hg]
        cases hc : node? ns n.scq (n.path ++ [k']) with
        | none => rfl
        | some c =>
          obtain ⟨_, _, e2⟩ := node?_some hc
          have : c.isAt q p' = false := by
            cases hx' : c.isAt q p' with
            | false => rfl
            | true =>
              have := ((isAt_iff c q p').mp hx').2
              rw [e2, a2] at this
              simp at this
          simp [this]
      unfold Fixed
      rw [hk, updPrio_prio]
      have : (updPrio pr ns n).qops = n.qops := by rw [updPrio_eq]
      rw [this]
      exact upval_idem pr _ _ _
    · simp only [hat]
      have hnx : ¬ (n.scq = q ∧ PP (p' ++ [k]) n.path) := by
        rintro ⟨a, b⟩
        have b' := pp_concat.mp b
        by_cases e : n.path = p'
        · exact hat ((isAt_iff n q p').mpr ⟨a, e⟩)
        · exact hx ⟨a, b', e⟩
      have hfix := h.fx n hn hp hnx
      have := fixed_map (pr := pr) (ns := ns) hg (n := n) (g1 n) (by simp [hat]) (g2 n) ?_
      · simp only [hat] at this
        exact this.mpr hfix
      · intro k' _ c hc
        obtain ⟨_, e1, e2⟩ := node?_some hc
        by_cases hc' : c.isAt q p' = true
        · exfalso
          obtain ⟨a, b⟩ := (isAt_iff c q p').mp hc'
          rw [e2] at b
          refine hx ⟨e1.symm.trans a, ?_⟩
          rw [← b]
          exact pp_of_child (List.prefix_refl _)
        · simp [hc']
  · intro n hq
    unfold Node.isQueued at hq ⊢
    rw [g1, g2]; exact hq

theorem refreshUp_ninv {q : ScqId} (p : List Nat) : ∀ {ns : List Node}, NInvX pr ns q (PP p) → NInv pr (refreshUp pr ns q p) := by
  induction p using list_snoc_ind with
  | hnil =>
    intro ns h
    exact h.ninv (fun a ha => by
      have := List.prefix_nil.mp ha.1
      exact this)
  | hsnoc p' k ih =>
    intro ns h
    unfold refreshUp
    rw [ups_concat, List.foldl_cons]
    exact ih (refreshStep_ninvx h)

theorem NInv.incExecR (h : NInv pr ns) (q : ScqId) (p : List Nat) (w : WKey) (now : Nat) :
    NInv pr (BbRe.SchedTree.incExecR false pr ns q p w now) := by
  unfold BbRe.SchedTree.incExecR BbRe.SchedTree.incExec
  simp only [Bool.false_eq_true, if_false]
  exact refreshUp_ninv p (h.updPath_counters (by intro _; exact ⟨rfl, rfl⟩) (by intro _; rfl) (by intro _; rfl) (by intro _; rfl) q p)

theorem NInv.decExecR (h : NInv pr ns) (q : ScqId) (p : List Nat) (w : WKey) (now : Nat) :
    NInv pr (BbRe.SchedTree.decExecR false pr ns q p w now) := by
  unfold BbRe.SchedTree.decExecR BbRe.SchedTree.decExec
  simp only [Bool.false_eq_true, if_false]
  refine refreshUp_ninv p ?_
  unfold BbRe.SchedTree.pruneP
  refine (h.updPath_counters (by intro _; exact ⟨rfl, rfl⟩) (by intro _; rfl) (by intro _; rfl) (by intro _; rfl) q p).filter _ ?_
  intro n _ hk
  simp only [Bool.not_eq_false', Bool.and_eq_true] at hk
  exact unqueued_of_empty hk.2

end

/-! ### `operation.enqueue`, `removeQueuedFromInvocation`: the fixpoint clause -/

theorem dropLast_ne {pi : List Nat} (h : pi ≠ []) : pi.dropLast ≠ pi := by
  intro e
  have := congrArg List.length e
  rw [List.length_dropLast] at this
  have : 0 < pi.length := List.length_pos_iff.mpr h
  omega

theorem shape_prio (q : ScqId) (pi : List Nat) (z : Int) (F : List Nat → List Nat) (n : Node) :
    (shape q pi z F n).prio = if n.isAt q pi then z else n.prio := by
  unfold shape
  have e : ({ n with prio := z } : Node).isAt q pi.dropLast = n.isAt q pi.dropLast := rfl
  by_cases h1 : n.isAt q pi = true <;> by_cases h2 : n.isAt q pi.dropLast = true <;> simp [h1, h2, e]

theorem shape_key (q : ScqId) (pi : List Nat) (z : Int) (F : List Nat → List Nat) : KeepsKey (shape q pi z F) :=
  fun n => ⟨(shape_spec q pi z F n).1, (shape_spec q pi z F n).2.1⟩

theorem shape_qops (q : ScqId) (pi : List Nat) (z : Int) (F : List Nat → List Nat) (n : Node) :
    (shape q pi z F n).qops = n.qops := (shape_spec q pi z F n).2.2.2.2.2.2.1

theorem shape_qkids (q : ScqId) (pi : List Nat) (z : Int) (F : List Nat → List Nat) (n : Node) :
    (shape q pi z F n).qkids = if n.isAt q pi.dropLast then F n.qkids else n.qkids := (shape_spec q pi z F n).2.2.2.2.2.2.2

theorem ck_shape_ne {q : ScqId} {pi : List Nat} {z : Int} {F : List Nat → List Nat} {c : Node} (h : c.isAt q pi = false) :
    ck (shape q pi z F c) = ck c := by
  unfold shape
  simp only [h, Bool.false_eq_true, if_false]
  split <;> rfl

/-- a child is not at the key of its parent -/
theorem child_not_at {c : Node} {q : ScqId} {a : List Nat} {k : Nat} (e2 : c.path = a ++ [k]) : c.isAt q a = false := by
  cases hx : c.isAt q a with
  | false => rfl
  | true =>
    have := ((isAt_iff c q a).mp hx).2
    rw [e2] at this
    simp at this

section
variable {pr : Nat → Int} {ns : List Node} {q : ScqId} {pi : List Nat} {i : Node}

/-- one iteration at `pi`: the invocation there is refreshed (and is exact afterwards); only its parent, whose
`qkids` may change as well, may have to be refreshed -/
theorem shape_fixEx (hnd : (ns.map nkey).Nodup) (hi : node? ns q pi = some i) (hpi : pi ≠ [])
    (hf : FixEx pr ns q (· = pi)) (F : List Nat → List Nat) :
    FixEx pr (ns.map (shape q pi (updPrio pr ns i).prio F)) q (· = pi.dropLast) := by
  have hg := shape_key q pi (updPrio pr ns i).prio F
  intro m hm hp hx
  obtain ⟨n, hn, e⟩ := List.mem_map.mp hm
  subst e
  rw [(hg n).2] at hp
  rw [(hg n).1, (hg n).2] at hx
  have hnd' : n.isAt q pi.dropLast = false := by
    cases hx' : n.isAt q pi.dropLast with
    | false => rfl
    | true => exact absurd ((isAt_iff n q pi.dropLast).mp hx') hx
  have hqk : (shape q pi (updPrio pr ns i).prio F n).qkids = n.qkids := by rw [shape_qkids, hnd']; rfl
  by_cases hat : n.isAt q pi = true
  · obtain ⟨a1, a2⟩ := (isAt_iff n q pi).mp hat
    have hni : i = n := node?_mem_unique hnd hn (by rw [a1, a2]; exact hi)
    subst hni
    have hk : kidsK (ns.map (shape q pi (updPrio pr ns i).prio F)) (shape q pi (updPrio pr ns i).prio F i) = kidsK ns i := by
      rw [kidsK_fields _ (hg i).1 (hg i).2 hqk]
      apply kidsK_congr
      intro k' _
      unfold ckAt
      rw [node?_map hg]
      cases hc : node? ns i.scq (i.path ++ [k']) with
      | none => rfl
      | some c =>
        obtain ⟨_, _, e2⟩ := node?_some hc
        simp only [Option.map_some]
        rw [ck_shape_ne (by rw [← a2]; exact child_not_at e2)]
    unfold Fixed
    rw [hk, shape_qops, shape_prio, hat, if_pos rfl, updPrio_prio]
    exact upval_idem pr _ _ _
  · have hat' : n.isAt q pi = false := by simpa using hat
    have hfix := hf n hn hp (fun ⟨a, b⟩ => hat ((isAt_iff n q pi).mpr ⟨a, b⟩))
    refine (fixed_map hg (shape_qops _ _ _ _ n) (by rw [shape_prio, hat']; rfl) hqk ?_).mpr hfix
    intro k' _ c hc
    obtain ⟨_, e1, e2⟩ := node?_some hc
    apply ck_shape_ne
    cases hx' : c.isAt q pi with
    | false => rfl
    | true =>
      exfalso
      obtain ⟨a, b⟩ := (isAt_iff c q pi).mp hx'
      rw [e2] at b
      exact hx ⟨e1.symm.trans a, ((concat_eq_iff hpi).mp b).1⟩

theorem enqStep_keysN (hnd : (ns.map nkey).Nodup) : (enqStep pr q ns pi).map nkey = ns.map nkey := by
  cases hi : node? ns q pi with
  | none => unfold enqStep; rw [hi]
  | some i => rw [enqStep_eq pr hnd hi]; exact map_keys (shape_key _ _ _ _)

theorem deqStep_keysN (hnd : (ns.map nkey).Nodup) : (deqStep pr q ns pi).map nkey = ns.map nkey := by
  cases hi : node? ns q pi with
  | none => unfold deqStep; rw [hi]
  | some i => rw [deqStep_eq pr hnd hi]; exact map_keys (shape_key _ _ _ _)

theorem fixEx_of_none (hi : node? ns q pi = none) (hf : FixEx pr ns q (· = pi)) (S : List Nat → Prop) : FixEx pr ns q S :=
  fun n hn hp _ => hf n hn hp (fun ⟨a, b⟩ => node?_eq_none_iff.mp hi n hn ⟨a, b⟩)

theorem enqStep_fixEx (hnd : (ns.map nkey).Nodup) (hpi : pi ≠ []) (hf : FixEx pr ns q (· = pi)) :
    FixEx pr (enqStep pr q ns pi) q (· = pi.dropLast) := by
  cases hi : node? ns q pi with
  | none =>
    have : enqStep pr q ns pi = ns := by unfold enqStep; rw [hi]
    rw [this]; exact fixEx_of_none hi hf _
  | some i => rw [enqStep_eq pr hnd hi]; exact shape_fixEx hnd hi hpi hf _

theorem deqStep_fixEx (hnd : (ns.map nkey).Nodup) (hpi : pi ≠ []) (hf : FixEx pr ns q (· = pi)) :
    FixEx pr (deqStep pr q ns pi) q (· = pi.dropLast) := by
  cases hi : node? ns q pi with
  | none =>
    have : deqStep pr q ns pi = ns := by unfold deqStep; rw [hi]
    rw [this]; exact fixEx_of_none hi hf _
  | some i => rw [deqStep_eq pr hnd hi]; exact shape_fixEx hnd hi hpi hf _

end

theorem enq_fold_fix {pr : Nat → Int} (q : ScqId) (p : List Nat) : ∀ {ns : List Node}, (ns.map nkey).Nodup →
    FixEx pr ns q (· = p) → PrioFix pr ((ups p).foldl (enqStep pr q) ns) ∧
      (((ups p).foldl (enqStep pr q) ns).map nkey) = ns.map nkey := by
  induction p using list_snoc_ind with
  | hnil => intro ns _ h; exact ⟨h.prioFix (fun a e => e), rfl⟩
  | hsnoc p' k ih =>
    intro ns hnd h
    rw [ups_concat, List.foldl_cons]
    have h1 := enqStep_fixEx hnd (by simp) h
    rw [List.dropLast_concat] at h1
    have hk := enqStep_keysN (pr := pr) (q := q) (pi := p' ++ [k]) hnd
    obtain ⟨a, b⟩ := ih (by rw [hk]; exact hnd) h1
    exact ⟨a, b.trans hk⟩

theorem deq_fold_fix {pr : Nat → Int} (q : ScqId) (p : List Nat) : ∀ {ns : List Node}, (ns.map nkey).Nodup →
    FixEx pr ns q (· = p) → PrioFix pr ((ups p).foldl (deqStep pr q) ns) ∧
      (((ups p).foldl (deqStep pr q) ns).map nkey) = ns.map nkey := by
  induction p using list_snoc_ind with
  | hnil => intro ns _ h; exact ⟨h.prioFix (fun a e => e), rfl⟩
  | hsnoc p' k ih =>
    intro ns hnd h
    rw [ups_concat, List.foldl_cons]
    have h1 := deqStep_fixEx hnd (by simp) h
    rw [List.dropLast_concat] at h1
    have hk := deqStep_keysN (pr := pr) (q := q) (pi := p' ++ [k]) hnd
    obtain ⟨a, b⟩ := ih (by rw [hk]; exact hnd) h1
    exact ⟨a, b.trans hk⟩

/-- the `qops` of the invocation at `p` change: only that invocation may have to be refreshed -/
theorem qops_fixEx {pr : Nat → Int} {ns : List Node} (h : PrioFix pr ns) (q : ScqId) (p : List Nat) (G : List Nat → List Nat) :
    FixEx pr (updNode ns q p (fun n => { n with qops := G n.qops })) q (· = p) := by
  rw [updNode_eq_map]
  have hg : KeepsKey (fun n : Node => if n.isAt q p then { n with qops := G n.qops } else n) :=
    keepsKey_ite (fun _ => ⟨rfl, rfl⟩)
  intro m hm hp hx
  obtain ⟨n, hn, e⟩ := List.mem_map.mp hm
  subst e
  rw [(hg n).2] at hp
  rw [(hg n).1, (hg n).2] at hx
  have hat : n.isAt q p = false := by
    cases hx' : n.isAt q p with
    | false => rfl
    | true => exact absurd ((isAt_iff n q p).mp hx') hx
  have := fixed_map (pr := pr) (ns := ns) hg (n := n) (by simp [hat]) (by simp [hat]) (by simp [hat]) ?_
  · simp only [hat] at this ⊢
    exact this.mpr ((prioFix_iff pr ns).mp h n hn hp)
  · intro k _ c _
    split <;> rfl

/-! ### `operation.enqueue`, `removeQueuedFromInvocation`: the structural part -/

theorem lastKey_snoc (p : List Nat) (k : Nat) : lastKey (p ++ [k]) = k := by simp [lastKey]

theorem insk_ne_nil (k : Nat) (l : List Nat) : (insk k l).isEmpty = false := by
  unfold insk
  split
  · rename_i h
    cases l with
    | nil => cases h
    | cons a r => rfl
  · cases l <;> rfl

theorem queued_of_qkids {n : Node} (h : n.qkids.isEmpty = false) : n.isQueued = true := by
  unfold Node.isQueued; rw [h]; simp

theorem queued_of_qops {n : Node} (h : n.qops.isEmpty = false) : n.isQueued = true := by
  unfold Node.isQueued; rw [h]; simp

section
variable {pr : Nat → Int} {ns : List Node} {q : ScqId} {p' : List Nat} {k : Nat}

theorem enqStep_struct (hnd : (ns.map nkey).Nodup) (hqk : QKs ns) (hkn : KN ns) {i : Node}
    (hi : node? ns q (p' ++ [k]) = some i) (hq : i.isQueued = true) :
    QKs (enqStep pr q ns (p' ++ [k])) ∧ KN (enqStep pr q ns (p' ++ [k])) ∧
      ∀ P, node? (enqStep pr q ns (p' ++ [k])) q p' = some P → P.isQueued = true := by
  rw [enqStep_eq pr hnd hi, lastKey_snoc]
  generalize (updPrio pr ns i).prio = z
  have hg := shape_key q (p' ++ [k]) z (insk k)
  have hqk' : ∀ n : Node, (shape q (p' ++ [k]) z (insk k) n).qkids = if n.isAt q p' then insk k n.qkids else n.qkids := by
    intro n; rw [shape_qkids, List.dropLast_concat]
  have hmono : ∀ c : Node, c.isQueued = true → (shape q (p' ++ [k]) z (insk k) c).isQueued = true := by
    intro c hc
    unfold Node.isQueued at hc ⊢
    rw [shape_qops, hqk']
    split
    · rw [insk_ne_nil]; simp
    · exact hc
  refine ⟨?_, ?_, ?_⟩
  · intro P' hP' k' hk'
    obtain ⟨P0, hP0, e⟩ := List.mem_map.mp hP'
    subst e
    rw [(hg P0).1, (hg P0).2, node?_map hg]
    rw [hqk'] at hk'
    have hold : k' ∈ P0.qkids → ∃ c, Option.map (shape q (p' ++ [k]) z (insk k)) (node? ns P0.scq (P0.path ++ [k'])) = some c ∧
        c.isQueued = true := by
      intro hm
      obtain ⟨c, hc, hcq⟩ := hqk P0 hP0 k' hm
      exact ⟨_, by rw [hc]; rfl, hmono c hcq⟩
    by_cases hat : P0.isAt q p' = true
    · rw [if_pos hat] at hk'
      rcases ((insk_spec k P0.qkids (hkn P0 hP0)).2 k').mp hk' with e | e
      · subst e
        obtain ⟨a1, a2⟩ := (isAt_iff P0 q p').mp hat
        rw [a1, a2, hi]
        exact ⟨_, rfl, hmono i hq⟩
      · exact hold e
    · rw [if_neg hat] at hk'
      exact hold hk'
  · intro P' hP'
    obtain ⟨P0, hP0, e⟩ := List.mem_map.mp hP'
    subst e
    rw [hqk']
    split
    · exact (insk_spec k P0.qkids (hkn P0 hP0)).1
    · exact hkn P0 hP0
  · intro P hP
    rw [node?_map hg] at hP
    cases hc : node? ns q p' with
    | none => rw [hc] at hP; cases hP
    | some P0 =>
      rw [hc] at hP
      simp only [Option.map_some, Option.some.injEq] at hP
      subst hP
      obtain ⟨_, e1, e2⟩ := node?_some hc
      apply queued_of_qkids
      rw [hqk', if_pos ((isAt_iff P0 q p').mpr ⟨e1, e2⟩)]
      exact insk_ne_nil _ _

end

theorem enq_fold_struct {pr : Nat → Int} (q : ScqId) (p : List Nat) : ∀ {ns : List Node}, (ns.map nkey).Nodup → QKs ns → KN ns →
    (∀ pi ∈ ups p, (node? ns q pi).isSome = true) → (∀ i, node? ns q p = some i → i.isQueued = true) →
    QKs ((ups p).foldl (enqStep pr q) ns) ∧ KN ((ups p).foldl (enqStep pr q) ns) := by
  induction p using list_snoc_ind with
  | hnil => intro ns _ h1 h2 _ _; exact ⟨h1, h2⟩
  | hsnoc p' k ih =>
    intro ns hnd h1 h2 hex hq
    rw [ups_concat] at hex
    rw [ups_concat, List.foldl_cons]
    have hsome := hex (p' ++ [k]) List.mem_cons_self
    cases hi : node? ns q (p' ++ [k]) with
    | none => rw [hi] at hsome; cases hsome
    | some i =>
      obtain ⟨a, b, c⟩ := enqStep_struct (pr := pr) hnd h1 h2 hi (hq i hi)
      have hk := enqStep_keysN (pr := pr) (q := q) (pi := p' ++ [k]) hnd
      refine ih (by rw [hk]; exact hnd) a b ?_ c
      intro pi hpi
      rw [isSome_of_keys hk]
      exact hex pi (List.mem_cons_of_mem _ hpi)

/-- `StructOK`'s clause except that the invocation at `a` need not be queued -/
def QKx (ns : List Node) (q : ScqId) (a : List Nat) : Prop :=
  ∀ P ∈ ns, ∀ k ∈ P.qkids, ∃ c, node? ns P.scq (P.path ++ [k]) = some c ∧
    (c.isQueued = true ∨ (P.scq = q ∧ P.path ++ [k] = a))

section
variable {pr : Nat → Int} {ns : List Node} {q : ScqId} {p' : List Nat} {k : Nat}

theorem deqStep_struct (hnd : (ns.map nkey).Nodup) (hkn : KN ns) (hx : QKx ns q (p' ++ [k])) :
    QKx (deqStep pr q ns (p' ++ [k])) q p' ∧ KN (deqStep pr q ns (p' ++ [k])) := by
  cases hi : node? ns q (p' ++ [k]) with
  | none =>
    have : deqStep pr q ns (p' ++ [k]) = ns := by unfold deqStep; rw [hi]
    rw [this]
    refine ⟨?_, hkn⟩
    intro P hP k' hk'
    obtain ⟨c, hc, hor⟩ := hx P hP k' hk'
    refine ⟨c, hc, Or.inl ?_⟩
    rcases hor with a | ⟨a, b⟩
    · exact a
    · rw [a, b, hi] at hc; cases hc
  | some i =>
    rw [deqStep_eq pr hnd hi, lastKey_snoc]
    generalize (updPrio pr ns i).prio = z
    generalize hF : (fun l : List Nat => if (i.qkids.isEmpty && i.qops.isEmpty) = true then l.erase k else l) = F
    have hg := shape_key q (p' ++ [k]) z F
    have hqk' : ∀ n : Node, (shape q (p' ++ [k]) z F n).qkids = if n.isAt q p' then F n.qkids else n.qkids := by
      intro n; rw [shape_qkids, List.dropLast_concat]
    have hsub : ∀ l k', k' ∈ F l → k' ∈ l := by
      intro l k' h; rw [← hF] at h; dsimp only at h
      split at h
      · exact List.mem_of_mem_erase h
      · exact h
    have hsame : ∀ c : Node, c.isAt q p' = false → (shape q (p' ++ [k]) z F c).isQueued = c.isQueued := by
      intro c hc
      unfold Node.isQueued
      rw [shape_qops, hqk', hc]; rfl
    have hiat : i.isAt q p' = false := child_not_at (node?_some hi).2.2
    refine ⟨?_, ?_⟩
    · intro P' hP' k' hk'
      obtain ⟨P0, hP0, e⟩ := List.mem_map.mp hP'
      subst e
      rw [(hg P0).1, (hg P0).2, node?_map hg]
      rw [hqk'] at hk'
      have hk0 : k' ∈ P0.qkids := by
        split at hk'
        · exact hsub _ _ hk'
        · exact hk'
      obtain ⟨c, hc, hor⟩ := hx P0 hP0 k' hk0
      refine ⟨_, by rw [hc]; rfl, ?_⟩
      obtain ⟨_, c1, c2⟩ := node?_some hc
      rcases hor with hcq | ⟨e1, e2⟩
      · by_cases hcd : c.isAt q p' = true
        · right
          obtain ⟨a, b⟩ := (isAt_iff c q p').mp hcd
          exact ⟨c1.symm.trans a, c2.symm.trans b⟩
        · left
          rw [hsame c (by simpa using hcd)]; exact hcq
      · left
        obtain ⟨f1, f2⟩ := List.append_inj' e2 rfl
        have f3 : k' = k := by simpa using f2
        subst f3
        rw [e1, e2, hi] at hc
        cases hc
        rw [hsame i hiat]
        have hat : P0.isAt q p' = true := (isAt_iff P0 q p').mpr ⟨e1, f1⟩
        rw [if_pos hat, ← hF] at hk'
        dsimp only at hk'
        split at hk'
        · exact absurd rfl ((hkn P0 hP0).mem_erase_iff.mp hk').1
        · rename_i hcnd
          unfold Node.isQueued
          cases h1 : i.qkids.isEmpty <;> cases h2 : i.qops.isEmpty <;> simp_all
    · intro P' hP'
      obtain ⟨P0, hP0, e⟩ := List.mem_map.mp hP'
      subst e
      rw [hqk']
      split
      · rw [← hF]; dsimp only
        split
        · exact (hkn P0 hP0).erase _
        · exact hkn P0 hP0
      · exact hkn P0 hP0

end

theorem deq_fold_struct {pr : Nat → Int} (q : ScqId) (p : List Nat) : ∀ {ns : List Node}, (ns.map nkey).Nodup → KN ns →
    QKx ns q p → QKs ((ups p).foldl (deqStep pr q) ns) ∧ KN ((ups p).foldl (deqStep pr q) ns) := by
  induction p using list_snoc_ind with
  | hnil =>
    intro ns _ h2 hx
    refine ⟨?_, h2⟩
    intro P hP k hk
    obtain ⟨c, hc, hor⟩ := hx P hP k hk
    refine ⟨c, hc, ?_⟩
    rcases hor with a | ⟨_, b⟩
    · exact a
    · simp at b
  | hsnoc p' k ih =>
    intro ns hnd h2 hx
    rw [ups_concat, List.foldl_cons]
    obtain ⟨a, b⟩ := deqStep_struct (pr := pr) hnd h2 hx
    have hk := deqStep_keysN (pr := pr) (q := q) (pi := p' ++ [k]) hnd
    exact ih (by rw [hk]; exact hnd) b a

section
variable {pr : Nat → Int} {ns : List Node}

/-- `operation.enqueue`, for an invocation that exists together with its ancestors -/
theorem NInv.enqueueOp (h : NInv pr ns) (q : ScqId) (p : List Nat) (o : Nat)
    (hex : ∀ pi ∈ ups p, (node? ns q pi).isSome = true) : NInv pr (BbRe.SchedTree.enqueueOp pr ns q p o) := by
  unfold BbRe.SchedTree.enqueueOp
  have hfx := qops_fixEx h.fix q p (fun l => l ++ [o])
  rw [updNode_eq_map] at hfx ⊢
  have hg : KeepsKey (fun n : Node => if n.isAt q p then { n with qops := n.qops ++ [o] } else n) :=
    keepsKey_ite (fun _ => ⟨rfl, rfl⟩)
  have g2 : ∀ n : Node, (if n.isAt q p then { n with qops := n.qops ++ [o] } else n).qkids = n.qkids := by
    intro n; split <;> rfl
  have hk := map_keys (ns := ns) hg
  have hnd : ((ns.map (fun n : Node => if n.isAt q p then { n with qops := n.qops ++ [o] } else n)).map nkey).Nodup := by
    rw [hk]; exact h.nd
  obtain ⟨f1, f2⟩ := enq_fold_fix q p hnd hfx
  have m1 : ∀ n : Node, n.isQueued = true →
      (if n.isAt q p then { n with qops := n.qops ++ [o] } else n).isQueued = true := by
    intro n hq
    split
    · apply queued_of_qops; simp
    · exact hq
  have m2 : ∀ pi ∈ ups p, (node? (ns.map (fun n : Node => if n.isAt q p then { n with qops := n.qops ++ [o] } else n)) q pi).isSome = true := by
    intro pi hpi
    rw [isSome_of_keys hk]; exact hex pi hpi
  have m3 : ∀ i, node? (ns.map (fun n : Node => if n.isAt q p then { n with qops := n.qops ++ [o] } else n)) q p = some i →
      i.isQueued = true := by
    intro i hi
    rw [node?_map hg] at hi
    cases hc : node? ns q p with
    | none => rw [hc] at hi; cases hi
    | some i0 =>
      rw [hc] at hi
      simp only [Option.map_some, Option.some.injEq] at hi
      subst hi
      obtain ⟨_, e1, e2⟩ := node?_some hc
      rw [if_pos ((isAt_iff i0 q p).mpr ⟨e1, e2⟩)]
      apply queued_of_qops; simp
  obtain ⟨s1, s2⟩ := enq_fold_struct (pr := pr) q p hnd (h.qk.map hg g2 m1) (h.kn.map g2) m2 m3
  exact ⟨f1, by rw [f2]; exact hnd, s1, s2⟩

/-- `operation.removeQueuedFromInvocation` -/
theorem NInv.removeQueuedOp (h : NInv pr ns) (q : ScqId) (p : List Nat) (o : Nat) :
    NInv pr (BbRe.SchedTree.removeQueuedOp pr ns q p o) := by
  unfold BbRe.SchedTree.removeQueuedOp
  have hfx := qops_fixEx h.fix q p (fun l => l.erase o)
  rw [updNode_eq_map] at hfx ⊢
  have hg : KeepsKey (fun n : Node => if n.isAt q p then { n with qops := n.qops.erase o } else n) :=
    keepsKey_ite (fun _ => ⟨rfl, rfl⟩)
  have g2 : ∀ n : Node, (if n.isAt q p then { n with qops := n.qops.erase o } else n).qkids = n.qkids := by
    intro n; split <;> rfl
  have hk := map_keys (ns := ns) hg
  have hnd : ((ns.map (fun n : Node => if n.isAt q p then { n with qops := n.qops.erase o } else n)).map nkey).Nodup := by
    rw [hk]; exact h.nd
  obtain ⟨f1, f2⟩ := deq_fold_fix q p hnd hfx
  have m1 : QKx (ns.map (fun n : Node => if n.isAt q p then { n with qops := n.qops.erase o } else n)) q p := by
    intro P' hP' k' hk'
    obtain ⟨P0, hP0, e⟩ := List.mem_map.mp hP'
    subst e
    rw [g2] at hk'
    rw [(hg P0).1, (hg P0).2, node?_map hg]
    obtain ⟨c, hc, hcq⟩ := h.qk P0 hP0 k' hk'
    refine ⟨_, by rw [hc]; rfl, ?_⟩
    obtain ⟨_, c1, c2⟩ := node?_some hc
    by_cases hat : c.isAt q p = true
    · right
      obtain ⟨a, b⟩ := (isAt_iff c q p).mp hat
      exact ⟨c1.symm.trans a, c2.symm.trans b⟩
    · left
      dsimp only
      rw [if_neg hat]; exact hcq
  obtain ⟨s1, s2⟩ := deq_fold_struct (pr := pr) q p hnd (h.kn.map g2) m1
  exact ⟨f1, by rw [f2]; exact hnd, s1, s2⟩

end

/-! ### more closure properties: filters by queue, the priority table, existence of a path -/

section
variable {pr : Nat → Int} {ns : List Node}

/-- removing nodes such that the queued children of a kept node are kept (e.g. a whole queue) -/
theorem NInv.filterK (h : NInv pr ns) (keep : Node → Bool)
    (hK : ∀ P ∈ ns, keep P = true → ∀ k ∈ P.qkids, ∀ c, node? ns P.scq (P.path ++ [k]) = some c → keep c = true) :
    NInv pr (ns.filter keep) :=
  ⟨(FixEx.filter (FixEx.of_prioFix h.fix default (fun _ => False)) h.qk keep hK).prioFix (fun _ hf => hf.elim),
    filter_keys_nodup h.nd keep, h.qk.filter keep hK, h.kn.filter keep⟩

theorem NInv.dropScq (h : NInv pr ns) (q : ScqId) : NInv pr (ns.filter (fun n => n.scq ≠ q)) := by
  refine h.filterK _ ?_
  intro P _ hP k _ c hc
  rw [(node?_some hc).2.1]; exact hP

/-- the priorities of operations that are in no `queuedOperations` do not matter -/
theorem NInv.pr_congr (h : NInv pr ns) {pr' : Nat → Int} (he : ∀ n ∈ ns, ∀ o ∈ n.qops, pr' o = pr o) : NInv pr' ns := by
  refine ⟨?_, h.nd, h.qk, h.kn⟩
  rw [prioFix_iff]
  intro n hn hp
  have := (prioFix_iff pr ns).mp h.fix n hn hp
  unfold Fixed at this ⊢
  rw [upval_pr_congr (he n hn)]; exact this

theorem nodup_map_injN {α β} {f : α → β} : ∀ {l : List α}, l.Nodup → (∀ a b, f a = f b → a = b) → (l.map f).Nodup
  | [], _, _ => List.nodup_nil
  | a :: l, h, hf => by
    rw [List.nodup_cons] at h
    rw [List.map_cons, List.nodup_cons]
    refine ⟨?_, nodup_map_injN h.2 hf⟩
    intro hm
    obtain ⟨b, hb, e⟩ := List.mem_map.mp hm
    rw [hf b a e] at hb
    exact h.1 hb

/-- appending root invocations of queues that have no invocation yet -/
theorem NInv.append_roots (h : NInv pr ns) (qs : List ScqId) (now : Nat) (hnd : qs.Nodup)
    (hfresh : ∀ n ∈ ns, n.scq ∉ qs) : NInv pr (ns ++ qs.map (fun q => mkNode q [] now)) := by
  refine h.append ?_ ?_
  · intro m hm
    obtain ⟨q, _, e⟩ := List.mem_map.mp hm
    subst e; exact ⟨rfl, rfl⟩
  · rw [List.map_append, List.nodup_append]
    refine ⟨h.nd, ?_, ?_⟩
    · rw [List.map_map]
      exact nodup_map_injN hnd (fun a b e => (Prod.mk.inj e).1)
    · intro a ha b hb e
      subst e
      obtain ⟨n, hn, e1⟩ := List.mem_map.mp ha
      rw [List.map_map] at hb
      obtain ⟨q, hq, e2⟩ := List.mem_map.mp hb
      apply hfresh n hn
      have : n.scq = q := by
        have := e1.trans e2.symm
        exact (Prod.mk.inj this).1
      rw [this]; exact hq

end

/-- the invocation at `p` and its non-root ancestors exist -/
def PathEx (ns : List Node) (q : ScqId) (p : List Nat) : Prop := ∀ pi ∈ ups p, (node? ns q pi).isSome = true

theorem PathEx.of_keys {ns ns' : List Node} {q : ScqId} {p : List Nat} (h : PathEx ns q p) (hk : ns'.map nkey = ns.map nkey) :
    PathEx ns' q p := fun pi hpi => by rw [isSome_of_keys hk]; exact h pi hpi

theorem PathEx.getOrCreate {ns : List Node} {q : ScqId} {p : List Nat} (h : PathEx ns q p) (q' : ScqId) (p' : List Nat) (now : Nat) :
    PathEx (getOrCreate ns q' p' now) q p := by
  intro pi hpi
  cases hn : node? ns q pi with
  | none => have := h pi hpi; rw [hn] at this; cases this
  | some n => rw [getOrCreate_mono _ _ _ _ _ _ _ hn]; rfl

theorem getOrCreate_pathEx (ns : List Node) (q : ScqId) (p : List Nat) (now : Nat) : PathEx (getOrCreate ns q p now) q p := by
  induction p using list_snoc_ind with
  | hnil => intro pi hpi; simp [ups, prefixes] at hpi
  | hsnoc p k ih =>
    intro pi hpi
    rw [ups_concat] at hpi
    rw [getOrCreate_concat]
    rcases List.mem_cons.mp hpi with e | e
    · subst e; exact gocStep_self _ _ _ _
    · cases hn : node? (getOrCreate ns q p now) q pi with
      | none => have := ih pi e; rw [hn] at this; cases this
      | some n => rw [gocStep_mono _ _ _ _ hn]; rfl

theorem enq_fold_keys {pr : Nat → Int} (q : ScqId) (l : List (List Nat)) : ∀ {ns : List Node}, (ns.map nkey).Nodup →
    (l.foldl (enqStep pr q) ns).map nkey = ns.map nkey := by
  induction l with
  | nil => intro ns _; rfl
  | cons a r ih =>
    intro ns hnd
    rw [List.foldl_cons]
    have hk := enqStep_keysN (pr := pr) (q := q) (pi := a) hnd
    rw [ih (by rw [hk]; exact hnd), hk]

theorem enqueueOp_keysN {pr : Nat → Int} {ns : List Node} (hnd : (ns.map nkey).Nodup) (q : ScqId) (p : List Nat) (o : Nat) :
    (enqueueOp pr ns q p o).map nkey = ns.map nkey := by
  unfold enqueueOp
  have hk : (updNode ns q p (fun n => { n with qops := n.qops ++ [o] })).map nkey = ns.map nkey := by
    rw [updNode_eq_map]; exact map_keys (keepsKey_ite (fun _ => ⟨rfl, rfl⟩))
  rw [enq_fold_keys q _ (by rw [hk]; exact hnd), hk]

/-- `for _, o := range t.operations { o.enqueue() }` when all their invocations exist -/
theorem NInv.enqueueAll {pr : Nat → Int} (q : ScqId) (inv : Nat → List Nat) (l : List Nat) : ∀ {ns : List Node}, NInv pr ns →
    (∀ o ∈ l, PathEx ns q (inv o)) → NInv pr (l.foldl (fun ns o => BbRe.SchedTree.enqueueOp pr ns q (inv o) o) ns) := by
  induction l with
  | nil => intro ns h _; exact h
  | cons a r ih =>
    intro ns h hex
    rw [List.foldl_cons]
    refine ih (h.enqueueOp q (inv a) a (hex a List.mem_cons_self)) ?_
    intro o ho
    exact (hex o (List.mem_cons_of_mem _ ho)).of_keys (enqueueOp_keysN h.nd q (inv a) a)

end BbRe.Lemmas.SchedTree
