import BbRe.Model.LockRange
import BbRe.Model.BRL
import BbRe.Spec.ByteLocks
/-!
# C20 — NFSv4 (offset, length) ↔ lock-table range conversions

Lemmas about `Model/LockRange.lean` (`offsetLengthToStartEnd`, `toDenied`), the
transcription of the conversions in
`pkg/filesystem/virtual/nfsv4/opened_files_pool.go`; and, for the conversion as it
was before the fix 3d4b513 (`legacyOffsetLengthToStartEnd`), the consequences of
its single accepted request with an empty range — offset `2^64-1`, length
all-ones — on the lock table model `Model/BRL.lean`.

`o l` are the `uint64` arguments of the Go function, hence the hypotheses
`o ≤ maxU64`, `l ≤ maxU64`.  Core Lean only.
-/
namespace BbRe.Lemmas.NfsLockRange
open BbRe.LockRange BbRe.BRL

/-! ## `offsetLengthToStartEnd` -/

/-- The conversion answers `NFS4ERR_INVAL` exactly for length 0 and (for a length that is not
the all-ones "to end of file" marker) a range whose end overflows `uint64`. -/
theorem conv_inval_iff (o l : Nat) (ho : o ≤ maxU64) (hl : l ≤ maxU64) :
    offsetLengthToStartEnd o l = .error stInval ↔ (l = 0 ∨ (l ≠ maxU64 ∧ o + l > maxU64)) := by
  unfold offsetLengthToStartEnd
  have hM : maxU64 = 18446744073709551615 := by decide
  split
  · simp_all
  · split
    · split
      · simp_all [stInval, stBadRange]
      · simp_all
    · split
      · simp only [true_iff]; omega
      · simp only [reduceCtorEq, false_iff]; omega

/-- … and `NFS4ERR_BAD_RANGE` exactly for offset `2^64-1` with the all-ones length. -/
theorem conv_badRange_iff (o l : Nat) :
    offsetLengthToStartEnd o l = .error stBadRange ↔ (o = maxU64 ∧ l = maxU64) := by
  unfold offsetLengthToStartEnd
  have hM : maxU64 = 18446744073709551615 := by decide
  split
  · simp_all [stInval, stBadRange]
  · split
    · split
      · simp_all
      · simp_all
    · split
      · simp_all [stInval, stBadRange]
      · simp_all

/-- No other status is ever returned. -/
theorem conv_error (o l st : Nat) (h : offsetLengthToStartEnd o l = .error st) :
    st = stInval ∨ st = stBadRange := by
  unfold offsetLengthToStartEnd at h
  split at h
  · simp_all
  · split at h
    · split at h
      · simp_all
      · simp at h
    · split at h
      · simp_all
      · simp at h

example : offsetLengthToStartEnd 5 0 = .error stInval := by decide
example : offsetLengthToStartEnd (maxU64 - 1) 2 = .error stInval := by decide
example : offsetLengthToStartEnd maxU64 1 = .error stInval := by decide
example : offsetLengthToStartEnd maxU64 maxU64 = .error stBadRange := by decide
example : offsetLengthToStartEnd maxU64 0 = .error stInval := by decide

/-- Shape of an accepted conversion; in particular the range is never empty. -/
theorem conv_some (o l s e : Nat) (ho : o ≤ maxU64) (hl : l ≤ maxU64)
    (h : offsetLengthToStartEnd o l = .ok (s, e)) :
    s = o ∧ e ≤ maxU64 ∧ s < e ∧ (l = maxU64 → e = maxU64) ∧ (l ≠ maxU64 → e = o + l) := by
  unfold offsetLengthToStartEnd at h
  have hM : maxU64 = 18446744073709551615 := by decide
  split at h
  · simp at h
  · split at h
    · split at h
      · simp at h
      · simp only [Conv.ok.injEq, Prod.mk.injEq] at h
        omega
    · split at h
      · simp at h
      · simp only [Conv.ok.injEq, Prod.mk.injEq] at h
        omega

example : offsetLengthToStartEnd 5 10 = .ok (5, 15) := by decide
example : offsetLengthToStartEnd 5 maxU64 = .ok (5, maxU64) := by decide
example : offsetLengthToStartEnd (maxU64 - 1) 1 = .ok (maxU64 - 1, maxU64) := by decide
example : offsetLengthToStartEnd (maxU64 - 1) maxU64 = .ok (maxU64 - 1, maxU64) := by decide
example : offsetLengthToStartEnd 0 (maxU64 - 1) = .ok (0, maxU64 - 1) := by decide

/-- RFC 7530 §16.10.4: an accepted request covers the bytes `offset …
offset+length-1`, or — for the all-ones length — all bytes from `offset` to the
end (the representable bytes are `0 … 2^64-2`). -/
theorem conv_bytes (o l s e : Nat) (ho : o ≤ maxU64) (hl : l ≤ maxU64)
    (h : offsetLengthToStartEnd o l = .ok (s, e)) (b : Nat) :
    (s ≤ b ∧ b < e) ↔ (o ≤ b ∧ b < maxU64 ∧ (l = maxU64 ∨ b < o + l)) := by
  have hc := conv_some o l s e ho hl h
  have hM : maxU64 = 18446744073709551615 := by decide
  omega

/-- Every accepted request yields a non-empty range (no precondition any more). -/
theorem conv_nonempty (o l s e : Nat) (ho : o ≤ maxU64) (hl : l ≤ maxU64)
    (h : offsetLengthToStartEnd o l = .ok (s, e)) : s < e :=
  (conv_some o l s e ho hl h).2.2.1

/-- The fixed conversion agrees with the legacy one everywhere but in the corner. -/
theorem conv_eq_legacy (o l : Nat) (hc : ¬ (o = maxU64 ∧ l = maxU64)) :
    offsetLengthToStartEnd o l =
      match legacyOffsetLengthToStartEnd o l with
      | none => .error stInval
      | some p => .ok p := by
  unfold offsetLengthToStartEnd legacyOffsetLengthToStartEnd
  split
  · rfl
  · split
    · rw [if_neg (by intro h; exact hc ⟨h, by assumption⟩)]
    · split <;> rfl

/-! ## The conversion before 3d4b513 (`legacy…`) -/

theorem legacy_conv_none_iff (o l : Nat) (ho : o ≤ maxU64) (hl : l ≤ maxU64) :
    legacyOffsetLengthToStartEnd o l = none ↔ (l = 0 ∨ (l ≠ maxU64 ∧ o + l > maxU64)) := by
  unfold legacyOffsetLengthToStartEnd
  have hM : maxU64 = 18446744073709551615 := by decide
  split
  · simp_all
  · split
    · simp_all
    · split
      · simp only [true_iff]; omega
      · simp only [reduceCtorEq, false_iff]; omega

theorem legacy_conv_some (o l s e : Nat) (ho : o ≤ maxU64) (hl : l ≤ maxU64)
    (h : legacyOffsetLengthToStartEnd o l = some (s, e)) :
    s = o ∧ e ≤ maxU64 ∧ s ≤ e ∧ (l = maxU64 → e = maxU64) ∧ (l ≠ maxU64 → e = o + l) := by
  unfold legacyOffsetLengthToStartEnd at h
  have hM : maxU64 = 18446744073709551615 := by decide
  split at h
  · simp at h
  · split at h
    · simp only [Option.some.injEq, Prod.mk.injEq] at h
      omega
    · split at h
      · simp at h
      · simp only [Option.some.injEq, Prod.mk.injEq] at h
        omega

/-- The exact precondition of the legacy conversion: the only accepted request that yields an
empty range is offset `2^64-1` with the all-ones length. -/
theorem legacy_conv_nonempty_iff (o l s e : Nat) (ho : o ≤ maxU64) (hl : l ≤ maxU64)
    (h : legacyOffsetLengthToStartEnd o l = some (s, e)) :
    s < e ↔ ¬ (o = maxU64 ∧ l = maxU64) := by
  have hc := legacy_conv_some o l s e ho hl h
  have hn : legacyOffsetLengthToStartEnd o l ≠ none := by rw [h]; simp
  rw [Ne, legacy_conv_none_iff o l ho hl] at hn
  have hM : maxU64 = 18446744073709551615 := by decide
  omega

/-- … and that request was accepted. -/
theorem legacy_conv_empty_corner :
    legacyOffsetLengthToStartEnd maxU64 maxU64 = some (maxU64, maxU64) := by
  decide

/-! ## `toDenied` -/

/-- `byteRangeLockToLock4Denied` inverts the conversion on every non-empty table
range that ends at or before `2^64-1`. -/
theorem denied_inverts (s e : Nat) (hse : s < e) (he : e ≤ maxU64) :
    offsetLengthToStartEnd (toDenied s e).1 (toDenied s e).2 = .ok (s, e) := by
  unfold toDenied
  have hM : maxU64 = 18446744073709551615 := by decide
  by_cases h : e = maxU64
  · subst h
    simp only [ne_eq, not_true_eq_false, ↓reduceIte]
    unfold offsetLengthToStartEnd
    rw [if_neg (by omega), if_pos rfl, if_neg (by omega)]
  · simp only [ne_eq, h, not_false_eq_true, ↓reduceIte]
    unfold offsetLengthToStartEnd
    rw [if_neg (by omega), if_neg (by omega), if_neg (by omega)]
    simp only [Conv.ok.injEq, Prod.mk.injEq, true_and]
    omega

example : toDenied 5 15 = (5, 10) := by decide
example : toDenied 5 maxU64 = (5, maxU64) := by decide
example : toDenied (maxU64 - 1) maxU64 = (maxU64 - 1, maxU64) := by decide

/-- Round trip the other way: the reported offset is the requested one; the
reported length is the requested one, except that a range ending exactly at
`2^64-1` is reported with the all-ones length (which denotes the same bytes). -/
theorem denied_of_conv (o l s e : Nat) (ho : o ≤ maxU64) (hl : l ≤ maxU64)
    (h : offsetLengthToStartEnd o l = .ok (s, e)) :
    (toDenied s e).1 = o ∧
      ((toDenied s e).2 = l ∨ ((toDenied s e).2 = maxU64 ∧ o + l = maxU64)) := by
  have hc := conv_some o l s e ho hl h
  unfold toDenied
  by_cases h1 : e = maxU64
  · simp only [h1, ne_eq, not_true_eq_false, ↓reduceIte]
    by_cases h2 : l = maxU64
    · exact ⟨hc.1, Or.inl h2.symm⟩
    · refine ⟨hc.1, Or.inr ⟨trivial, ?_⟩⟩
      have := hc.2.2.2.2 h2
      omega
  · simp only [ne_eq, h1, not_false_eq_true, ↓reduceIte]
    refine ⟨hc.1, Or.inl ?_⟩
    by_cases h2 : l = maxU64
    · exact absurd (hc.2.2.2.1 h2) h1
    · have := hc.2.2.2.2 h2
      omega

/-- The exception of `denied_of_conv` really occurs: length 1 at offset `2^64-2`
is reported back with the all-ones length. -/
example : offsetLengthToStartEnd (maxU64 - 1) 1 = .ok (maxU64 - 1, maxU64) ∧
    toDenied (maxU64 - 1) maxU64 = (maxU64 - 1, maxU64) := by decide

/-! ## Consequences of the legacy conversion's empty corner range on the lock table -/

/-- `Test` for an empty range `[M, M)` never reports a conflict when all entries
end at or before `M`. -/
theorem test_empty_gen (M : Nat) (ls : List Lock) (hM : ∀ x ∈ ls, x.stop ≤ M) (o : Nat)
    (ty : Ty) : test ls ⟨M, M, o, ty⟩ = none := by
  induction ls with
  | nil => rfl
  | cons s rest ih =>
    have hs : s.stop ≤ M := hM s (List.mem_cons_self ..)
    unfold test
    split
    · rfl
    · rw [if_neg]
      · exact ih (fun x hx => hM x (List.mem_cons_of_mem _ hx))
      · intro hc
        have := hc.2.1
        simp only at this
        omega

/-- `Test` never reports a conflict for the empty range at `2^64-1` (entries of
real tables end at or before `2^64-1`). -/
theorem test_empty_corner (ls : List Lock) (hM : ∀ x ∈ ls, x.stop ≤ maxU64) (o : Nat) (ty : Ty) :
    test ls ⟨maxU64, maxU64, o, ty⟩ = none :=
  test_empty_gen maxU64 ls hM o ty

example : (∀ x ∈ [(⟨0, maxU64, 1, .excl⟩ : Lock)], x.stop ≤ maxU64) ∧
    test [⟨0, maxU64, 1, .excl⟩] ⟨maxU64, maxU64, 2, .excl⟩ = none := by decide

/-- `Set` of an empty range `[M, M)` into the empty table inserts the byte-less
entry. -/
theorem setList_nil_gen (M o : Nat) (ty : Ty) (hty : ty ≠ .unlocked) :
    setList [] ⟨M, M, o, ty⟩ = [⟨M, M, o, ty⟩] := by
  simp [setList, phase1, phase2, hty]

/-- `Set` of `[M, M)` for a second owner keeps the first owner's byte-less entry
and adds another one in front of it. -/
theorem setList_two_gen (M o1 o2 : Nat) (t1 t2 : Ty) (ho : o1 ≠ o2) (ht2 : t2 ≠ .unlocked) :
    setList [⟨M, M, o1, t1⟩] ⟨M, M, o2, t2⟩ = [⟨M, M, o2, t2⟩, ⟨M, M, o1, t1⟩] := by
  simp [setList, phase1, phase2, ho, ht2]

/-- Two different owners are BOTH granted an exclusive lock for (offset `2^64-1`,
length all-ones): owner 1's `Test` on the empty table and — after owner 1's
`Set` — owner 2's `Test` report no conflict; the resulting table holds two
exclusive entries of different owners with the same (empty) range (owner 2's
entry in front); the byte-less entry bumps `lockCount` by one; and the resulting
tables violate the representation invariant (`WF.nonempty`). -/
theorem corner_two_exclusive_owners :
    test [] ⟨maxU64, maxU64, 1, .excl⟩ = none ∧
    setList [] ⟨maxU64, maxU64, 1, .excl⟩ = [⟨maxU64, maxU64, 1, .excl⟩] ∧
    test [⟨maxU64, maxU64, 1, .excl⟩] ⟨maxU64, maxU64, 2, .excl⟩ = none ∧
    setList [⟨maxU64, maxU64, 1, .excl⟩] ⟨maxU64, maxU64, 2, .excl⟩ =
      [⟨maxU64, maxU64, 2, .excl⟩, ⟨maxU64, maxU64, 1, .excl⟩] ∧
    (set [] ⟨maxU64, maxU64, 1, .excl⟩).2 = 1 ∧
    (set [⟨maxU64, maxU64, 1, .excl⟩] ⟨maxU64, maxU64, 2, .excl⟩).2 = 1 ∧
    ¬ Spec.ByteLocks.WF [⟨maxU64, maxU64, 1, .excl⟩] ∧
    ¬ Spec.ByteLocks.WF [⟨maxU64, maxU64, 2, .excl⟩, ⟨maxU64, maxU64, 1, .excl⟩] := by
  refine ⟨rfl, setList_nil_gen _ _ _ (by decide), ?_, setList_two_gen _ _ _ _ _ (by decide)
    (by decide), ?_, ?_, ?_, ?_⟩
  · exact test_empty_corner _ (by simp) _ _
  · simp [BRL.set, setList_nil_gen]
  · simp [BRL.set, setList_two_gen]
  · intro h
    exact Nat.lt_irrefl _ (h.nonempty _ (List.mem_cons_self ..))
  · intro h
    exact Nat.lt_irrefl _ (h.nonempty _ (List.mem_cons_self ..))

/-- The same, phrased with the caller model `Spec.ByteLocks.run` and the legacy NFS
conversion: both owners' `LOCK(offset = 2^64-1, length = all-ones, WRITE)`
requests pass the conversion, are applied, and the table ends up with two
exclusive entries of different owners. -/
theorem corner_two_exclusive_owners_run :
    legacyOffsetLengthToStartEnd maxU64 maxU64 = some (maxU64, maxU64) ∧
    Spec.ByteLocks.run [] [⟨maxU64, maxU64, 1, .excl⟩, ⟨maxU64, maxU64, 2, .excl⟩] =
      [⟨maxU64, maxU64, 2, .excl⟩, ⟨maxU64, maxU64, 1, .excl⟩] := by
  refine ⟨legacy_conv_empty_corner, ?_⟩
  have h1 : test [] ⟨maxU64, maxU64, 1, .excl⟩ = none := rfl
  have h2 : test [⟨maxU64, maxU64, 1, .excl⟩] ⟨maxU64, maxU64, 2, .excl⟩ = none :=
    test_empty_corner _ (by simp) _ _
  simp [Spec.ByteLocks.run, Spec.ByteLocks.applyReq, h1, h2, setList_nil_gen, setList_two_gen]

/-- `UnlockAll` (range `[0, 2^64-1)`) does remove the byte-less entry, so `CLOSE`
finds the owner's `lockCount` consistent with the table. -/
theorem corner_unlock_all_removes (o : Nat) (ty : Ty) (_hty : ty ≠ .unlocked) :
    setList [⟨maxU64, maxU64, o, ty⟩] ⟨0, maxU64, o, .unlocked⟩ = [] := by
  generalize maxU64 = M
  simp [setList, phase1, phase2]

example : unlockAllRange = (0, maxU64) := rfl

end BbRe.Lemmas.NfsLockRange
