import BbRe.Lemmas.SchedTreeLinkDefs
/-!
`MInv` (the fragment of the scheduler invariant the tree layer relies on) is preserved by the state
updates that occur inside `task.schedule`, `task.complete`, `Execute`.
-/
namespace BbRe.Lemmas.SchedTree
open BbRe.Sched BbRe.SchedTree BbRe.Lemmas.SchedInv

/-- bring the fields of an `MInv` fact into the context -/
syntax "minv_facts " term : tactic
set_option hygiene false in
macro_rules
  | `(tactic| minv_facts $h) => `(tactic| (
      have h_tnd := ($h).core.tnd; have h_tid := ($h).core.tid; have h_p2 := ($h).core.p2; have h_p3 := ($h).core.p3
      have h_q1 := ($h).core.q1; have h_q2 := ($h).core.q2; have h_w1 := ($h).core.w1
      have h_o3 := ($h).oinv.o3; have h_own := ($h).oinv.own; have h_bound := ($h).oinv.bound))

theorem MInv.wake {ex} {s : State} (h : MInv ex s) {w : Worker} (hw : wfind s.workers w.scq w.id = some w) :
    MInv ex (wakeWorker s w) := by
  minv_facts h
  simp only [wakeWorker, setWorker_eq]
  refine ⟨⟨h_tnd, h_tid, ?_, h_p3, h_q1, h_q2, ?_⟩, ⟨h_o3, h_own, h_bound⟩⟩ <;> grind

theorem MInv.assign {ex} {s : State} (h : MInv ex s) {w : Worker} {t : Task}
    (hw : wfind s.workers w.scq w.id = some w) (hwt : w.task = none) (hwp : w.parked = false)
    (ht : alookup t.id s.tasks = some t) (hr : t.response = none) :
    MInv (fun k => ex k ∧ k ≠ t.id) (assignSt s w t) := by
  minv_facts h
  simp only [assignSt, State.setTask, setWorker_eq]
  refine ⟨⟨?_, ?_, ?_, ?_, ?_, ?_, ?_⟩, ⟨?_, ?_, ?_⟩⟩ <;> grind

theorem MInv.queue {ex} {s : State} (h : MInv ex s) {t : Task} (ht : alookup t.id s.tasks = some t)
    (hr : t.response = none) (htw : t.worker = none) :
    MInv (fun k => ex k ∧ k ≠ t.id) (s.setTask { t with queued := true }) := by
  minv_facts h
  simp only [State.setTask]
  refine ⟨⟨?_, ?_, ?_, ?_, ?_, ?_, ?_⟩, ⟨?_, ?_, ?_⟩⟩ <;> grind

/-- a task record is replaced by one that is neither queued nor assigned (it becomes the task being
processed, or it is completed); its worker, if any, is released -/
theorem MInv.settle {ex} {s s' : State} (h : MInv ex s) {t t' : Task} (ht : alookup t.id s.tasks = some t)
    (hk : t'.id = t.id ∧ t'.worker = none ∧ t'.queued = false ∧ t'.ops = t.ops)
    (hst : s'.tasks = aset t.id t' s.tasks) (hnt : s'.nextTask = s.nextTask) (hno : s'.nextOp = s.nextOp)
    (hsw : s'.workers = s.workers ∧ t.worker = none ∨ ∃ q w wk, t.worker = some (q, w) ∧ wfind s.workers q w = some wk ∧
      s'.workers = wset s.workers { wk with task := none }) :
    MInv (fun k => ex k ∨ (k = t.id ∧ t'.response = none)) s' := by
  minv_facts h
  obtain ⟨a, b, c, d⟩ := hk
  rcases hsw with ⟨hsw, e0⟩ | ⟨q, w, wk, e1, e2, hsw⟩
  · refine ⟨⟨?_, ?_, ?_, ?_, ?_, ?_, ?_⟩, ⟨?_, ?_, ?_⟩⟩
    all_goals (try rw [hst])
    all_goals (try rw [hsw])
    all_goals (try rw [hnt])
    all_goals (try rw [hno])
    all_goals grind
  · refine ⟨⟨?_, ?_, ?_, ?_, ?_, ?_, ?_⟩, ⟨?_, ?_, ?_⟩⟩
    all_goals (try rw [hst])
    all_goals (try rw [hsw])
    all_goals (try rw [hnt])
    all_goals (try rw [hno])
    all_goals grind

end BbRe.Lemmas.SchedTree
