import BbRe.Lemmas.SchedTreeLinkStepA
/-!
The stage switch of `task.complete` on the tree (`TState.detachTree`): a QUEUED task is assigned to a
temporary worker and dequeued, an EXECUTING task leaves its worker (`setLastInvocation`); then
`decrementExecutingWorkersCount` for every operation.
-/
namespace BbRe.Lemmas.SchedTree
open BbRe.Sched BbRe.SchedTree BbRe.Lemmas.SchedInv

/-! ### lowest common ancestor -/

theorem lcp2_prefix_left : ∀ (a b : List Nat), lcp2 a b <+: a
  | [], _ => by simp [lcp2]
  | _ :: _, [] => by simp [lcp2]
  | x :: p, y :: q => by
    unfold lcp2
    split
    · rename_i h; exact List.cons_prefix_cons.mpr ⟨rfl, lcp2_prefix_left p q⟩
    · exact List.nil_prefix

theorem lcp2_prefix_right : ∀ (a b : List Nat), lcp2 a b <+: b
  | [], _ => by simp [lcp2]
  | _ :: _, [] => by simp [lcp2]
  | x :: p, y :: q => by
    unfold lcp2
    split
    · rename_i h; exact List.cons_prefix_cons.mpr ⟨h, lcp2_prefix_right p q⟩
    · exact List.nil_prefix

theorem lcp_prefix : ∀ (l : List (List Nat)) (p : List Nat), p ∈ l → lcp l <+: p
  | [], _, h => by cases h
  | [a], p, h => by
    simp only [List.mem_singleton] at h; subst h; exact List.prefix_refl _
  | a :: b :: r, p, h => by
    show lcp2 a (lcp (b :: r)) <+: p
    rcases List.mem_cons.mp h with e | e
    · subst e; exact lcp2_prefix_left _ _
    · exact (lcp2_prefix_right _ _).trans (lcp_prefix (b :: r) p e)

/-! ### membership in a bag from a task entry -/

theorem mem_bagE_of_task {ts : TState} {t : Task} {q0 : ScqId} {w : WId} (ht : alookup t.id ts.s.tasks = some t)
    (hw : t.worker = some (q0, w)) {o : Nat} (ho : o ∈ t.ops) : (t.scq, ts.invOf o, some w) ∈ bagE ts := by
  rw [bagE_def]
  refine List.mem_flatMap.mpr ⟨(t.id, t), mem_of_alookup ht, ?_⟩
  unfold conE
  rw [hw]
  exact List.mem_map.mpr ⟨o, ho, rfl⟩

theorem mem_bagQ_of_task {ts : TState} {t : Task} (ht : alookup t.id ts.s.tasks = some t)
    (hq : t.queued = true) {o : Nat} (ho : o ∈ t.ops) : (t.scq, ts.invOf o, o) ∈ bagQ ts := by
  rw [bagQ_def]
  refine List.mem_flatMap.mpr ⟨(t.id, t), mem_of_alookup ht, ?_⟩
  unfold conQ
  rw [hq]
  exact List.mem_map.mpr ⟨o, ho, rfl⟩

theorem conQ_queued' (ox : List (Nat × OX)) (t : Task) (h : t.queued = true) :
    conQ ox t = t.ops.map (fun o => (t.scq, (match alookup o ox with | some y => y.inv | none => []), o)) := by
  unfold conQ; rw [if_pos h]; rfl

theorem conE_worker (ox : List (Nat × OX)) (t : Task) (q0 : ScqId) (w : WId) (h : t.worker = some (q0, w)) :
    conE ox t = t.ops.map (fun o => (t.scq, (match alookup o ox with | some y => y.inv | none => []), some w)) := by
  unfold conE; rw [h]; rfl

/-! ### a duplicate-free list with the same members (the queued bag only matters up to membership) -/

def ddup {α} [DecidableEq α] : List α → List α
  | [] => []
  | a :: l => if a ∈ ddup l then ddup l else a :: ddup l

theorem mem_ddup {α} [DecidableEq α] (a : α) : ∀ l : List α, a ∈ ddup l ↔ a ∈ l
  | [] => by simp [ddup]
  | b :: l => by
    unfold ddup
    have ih := mem_ddup a l
    by_cases hb : b ∈ ddup l
    · rw [if_pos hb, ih, List.mem_cons]
      constructor
      · exact Or.inr
      · rintro (e | e)
        · subst e; exact (mem_ddup a l).mp hb
        · exact e
    · rw [if_neg hb, List.mem_cons, List.mem_cons, ih]

theorem nodup_ddup {α} [DecidableEq α] : ∀ l : List α, (ddup l).Nodup
  | [] => by simp [ddup]
  | b :: l => by
    unfold ddup
    by_cases hb : b ∈ ddup l
    · rw [if_pos hb]; exact nodup_ddup l
    · rw [if_neg hb]; exact List.nodup_cons.mpr ⟨hb, nodup_ddup l⟩

/-! ### node lists of the composite updates -/

theorem decOps_nodes (ts : TState) (t : Task) (k : WKey) :
    (ts.decOps t k).nodes = t.ops.foldl (fun ns o => decExecR ts.legacyPrio ts.prioOf ns t.scq (ts.invOf o) k ts.s.now) ts.nodes := rfl
theorem deqOps_nodes (ts : TState) (t : Task) :
    (ts.deqOps t).nodes = t.ops.foldl (fun ns o => removeQueuedOp ts.prioOf ns t.scq (ts.invOf o) o) ts.nodes := rfl

/-- the stage switch of a QUEUED task on the node list -/
theorem detachQueued_nodes_ok {E : List EC} {I : List IC} {Q : List QC} {P : List PC} (ts : TState) (t : Task)
    (hT : TreeOK [] ts.nodes E I Q P) (hQ : Q.Nodup) (hnd : t.ops.Nodup)
    (hq : ∀ o ∈ t.ops, (t.scq, ts.invOf o, o) ∈ Q) :
    TreeOK [] (((ts.incOps t none).deqOps t).decOps t none).nodes E I
      (Q.filter (fun c => !(t.ops.map (fun o => (t.scq, ts.invOf o, o))).contains c)) P := by
  have hn : ∀ o ∈ t.ops, (node? ts.nodes t.scq (ts.invOf o)).isSome = true := fun o ho => hT.rfQ _ (hq o ho)
  have h1 := incOps_ok hT ts.legacyPrio ts.prioOf t.scq ts.invOf none ts.s.now t.ops hn
  rw [List.filter_nil] at h1
  have h2 := deqOps_ok h1 ts.prioOf t.scq ts.invOf t.ops hQ hnd hq
  -- the invocations on the operations' paths are kept alive by the temporary worker's entries
  have h3 : TreeOK [] (t.ops.foldl (fun ns o => removeQueuedOp ts.prioOf ns t.scq (ts.invOf o) o)
      (t.ops.foldl (fun ns o => incExecR ts.legacyPrio ts.prioOf ns t.scq (ts.invOf o) none ts.s.now) ts.nodes))
      (t.ops.map (fun o => (t.scq, ts.invOf o, none)) ++ E) I
      (Q.filter (fun c => !(t.ops.map (fun o => (t.scq, ts.invOf o, o))).contains c)) P := by
    apply h2.reexempt
    intro n hn' hp hx _
    simp only [List.nil_append, List.mem_flatMap, List.mem_map, mem_prefixes] at hx
    obtain ⟨o, ho, pi, ⟨hpre, _⟩, he⟩ := hx
    simp only [Prod.mk.injEq] at he
    apply (h2.not_empty_iff hn').mpr
    left
    exact ⟨(t.scq, ts.invOf o, none), List.mem_append_left _ (List.mem_map.mpr ⟨o, ho, rfl⟩), he.1, by rw [← he.2]; exact hpre⟩
  exact decOps_ok ts.legacyPrio ts.prioOf t.scq ts.invOf none ts.s.now t.ops h3

/-- membership in a bag that is a `flatMap` over the task table, after one entry is replaced -/
theorem mem_flatMap_aset {β} (f : Task → List β) (tasks : List (Nat × Task)) (hnd : (keys tasks).Nodup)
    (k : Nat) (t' : Task) (c : β) :
    c ∈ (aset k t' tasks).flatMap (fun kt => f kt.2) ↔
      c ∈ f t' ∨ ∃ k' t'', k' ≠ k ∧ alookup k' tasks = some t'' ∧ c ∈ f t'' := by
  rw [List.mem_flatMap]
  constructor
  · rintro ⟨⟨k', t''⟩, hm, hc⟩
    have h1 := (mem_iff_alookup (nodup_aset k t' tasks hnd)).mp hm
    rw [alookup_aset] at h1
    by_cases hk : k = k'
    · rw [if_pos hk] at h1; cases h1; exact Or.inl hc
    · rw [if_neg hk] at h1; exact Or.inr ⟨k', t'', fun e => hk e.symm, h1, hc⟩
  · rintro (hc | ⟨k', t'', hk, h1, hc⟩)
    · refine ⟨(k, t'), ?_, hc⟩
      apply mem_of_alookup; rw [alookup_aset, if_pos rfl]
    · refine ⟨(k', t''), ?_, hc⟩
      apply mem_of_alookup; rw [alookup_aset, if_neg (fun e => hk e.symm)]; exact h1

theorem mem_flatMap_tasks {β} (f : Task → List β) (tasks : List (Nat × Task)) (hnd : (keys tasks).Nodup) (c : β) :
    c ∈ tasks.flatMap (fun kt => f kt.2) ↔ ∃ k t, alookup k tasks = some t ∧ c ∈ f t := by
  rw [List.mem_flatMap]
  constructor
  · rintro ⟨⟨k, t⟩, hm, hc⟩; exact ⟨k, t, (mem_iff_alookup hnd).mp hm, hc⟩
  · rintro ⟨k, t, h1, hc⟩; exact ⟨(k, t), mem_of_alookup h1, hc⟩

/-- **stage switch of a QUEUED task** (`task.complete`, `case QUEUED`), up to the point where the task
record is written back as neither queued nor assigned -/
theorem detachQueued_ts {ex exo} {ts : TState} {t t' : Task} {bw : Bool} {s' : State}
    (hT : TInvX ex exo [] ts) (ht : alookup t.id ts.s.tasks = some t) (htw : t.worker = none) (hq : t.queued = true)
    (hown : ∀ k t'', alookup k ts.s.tasks = some t'' → ∀ o ∈ t''.ops, o ∈ t.ops → k = t.id)
    (hk : t'.id = t.id ∧ t'.worker = none ∧ t'.queued = false)
    (hst : s'.tasks = aset t.id t' ts.s.tasks) (hsw : s'.workers = ts.s.workers) (hsq : s'.scqs = ts.s.scqs)
    (hso : ∀ o op', s'.op? o = some op' → ∃ op, ts.s.op? o = some op ∧ op'.inv = op.inv ∧ op'.prio = op.prio) :
    TS [] ((ts.detachTree t bw).setS s') := by
  have htnd := hT.inv.core.tnd
  have hond := (hT.inv.oinv.o3 t.id t ht).1
  have hdt : ts.detachTree t bw = ((ts.incOps t none).deqOps t).decOps t none := by
    unfold TState.detachTree; rw [htw]
  rw [hdt]
  -- the tree
  have hT0 : TreeOK [] ts.nodes (bagE ts) (bagI ts) (ddup (bagQ ts)) (bagP ts) :=
    hT.tree.congr (List.Perm.refl _) (List.Perm.refl _) (fun c => (mem_ddup c _).symm) (fun c => Iff.rfl)
  have hqm : ∀ o ∈ t.ops, (t.scq, ts.invOf o, o) ∈ ddup (bagQ ts) :=
    fun o ho => (mem_ddup _ _).mpr (mem_bagQ_of_task ht hq ho)
  have h1 := detachQueued_nodes_ok ts t hT0 (nodup_ddup _) hond hqm
  let ts' : TState := (((ts.incOps t none).deqOps t).decOps t none).setS s'
  have hE : (bagE ts).Perm (bagE ts') := by
    have := bagE_setTask ts s' t t' ts.ox (by rw [hk.1]; exact ht) (by rw [hk.1]; exact hst) (fun _ _ => rfl) ts' rfl rfl
    rw [conE_unassigned _ t htw, conE_unassigned _ t' hk.2.1, List.append_nil, List.append_nil] at this
    exact this
  have hQ : ∀ c, c ∈ (ddup (bagQ ts)).filter (fun c => !(t.ops.map (fun o => (t.scq, ts.invOf o, o))).contains c) ↔
      c ∈ bagQ ts' := by
    intro c
    rw [List.mem_filter, mem_ddup]
    show _ ↔ c ∈ s'.tasks.flatMap (fun kt => conQ ts.ox kt.2)
    rw [hst, mem_flatMap_aset (conQ ts.ox) ts.s.tasks htnd, conQ_unqueued _ t' hk.2.2, bagQ_def,
      mem_flatMap_tasks (conQ ts.ox) ts.s.tasks htnd]
    simp only [List.not_mem_nil, false_or, Bool.not_eq_true', List.contains_eq_mem, decide_eq_false_iff_not]
    constructor
    · rintro ⟨⟨k, t'', h1, hc⟩, hnot⟩
      refine ⟨k, t'', ?_, h1, hc⟩
      intro e; subst e
      rw [ht] at h1; cases h1
      apply hnot
      rw [conQ_queued' _ _ hq] at hc
      exact hc
    · rintro ⟨k, t'', hne, h1, hc⟩
      refine ⟨⟨k, t'', h1, hc⟩, ?_⟩
      intro hm
      obtain ⟨o, ho, he⟩ := List.mem_map.mp hm
      -- `c` is the entry of operation `o` of `t`, but it comes from the queued task `t''`
      unfold conQ at hc
      split at hc
      · obtain ⟨o', ho', he'⟩ := List.mem_map.mp hc
        rw [← he] at he'
        simp only [Prod.mk.injEq] at he'
        have : o' = o := he'.2.2
        subst this
        exact hne (hown k t'' h1 o' ho' ho)
      · cases hc
  refine ⟨h1.congr hE (List.Perm.refl _) hQ (fun c => Iff.rfl), ?_⟩
  -- the coupling
  have hS := hT.side
  have hnf : NFrame [] ts.nodes ts'.nodes :=
    NFrame.trans0 (NFrame.trans0 (incOps_nframe ts t none) (deqOps_nframe _ t)) (decOps_nframe _ t none)
  have hnodes := side_nodes hS hnf (scqs' := s'.scqs) (by intro q hq; cases hq)
    (fun sq h => by rw [hsq]; exact h) (fun sq h => Or.inl (by rw [hsq] at h; exact h))
  refine ⟨hnodes.1, hnodes.2, hS.wxnd, ?_, ?_, ?_, ?_⟩
  · intro q w; show (ts.wx? q w).isSome = (s'.worker? q w).isSome
    rw [worker?_def, hsw]; exact hS.wxw q w
  · intro q w wk x hwk hx
    rw [worker?_def] at hwk
    change wfind s'.workers q w = some wk at hwk
    rw [hsw] at hwk
    exact hS.wpl q w wk x (by rw [worker?_def]; exact hwk) hx
  · intro o op' hop
    obtain ⟨op, h1, h2, h3⟩ := hso o op' hop
    have := hS.oxok o op h1
    show alookup o ts.ox = some ⟨op'.inv, op'.prio⟩
    rw [this, h2, h3]
  · intro k t'' q w h1 hw
    change alookup k s'.tasks = some t'' at h1
    rw [hst, alookup_aset] at h1
    by_cases hkk : t.id = k
    · rw [if_pos hkk] at h1; cases h1; rw [hk.2.1] at hw; cases hw
    · rw [if_neg hkk] at h1; exact hS.wq k t'' q w h1 hw

theorem detachW_workers (s : State) (t : Task) (q0 : ScqId) (w : WId) (wk : Worker)
    (hw : t.worker = some (q0, w)) (hwk : wfind s.workers q0 w = some wk) :
    (BbRe.SchedTree.detachW s t).workers = wset s.workers { wk with task := none } := by
  unfold BbRe.SchedTree.detachW
  rw [hw]
  simp only [worker?_def, hwk]
  rfl

theorem setLast_nodes (ts : TState) (tq q : ScqId) (w : WId) (p : List Nat) :
    (ts.setLast tq q w p).nodes = setLastN ts.nodes tq p := rfl
theorem setLast_wx (ts : TState) (tq q : ScqId) (w : WId) (p : List Nat) :
    (ts.setLast tq q w p).wx = setWX ts.wx q w (fun y => { y with last := some p }) := rfl

/-- **stage switch of an EXECUTING task** (`task.complete`, `case EXECUTING`): `setLastInvocation` of its
worker and `decrementExecutingWorkersCount` for every operation, up to the point where the task record is
written back as neither queued nor assigned -/
theorem detachExec_ts {ex exo} {ts : TState} {t t' : Task} {q0 : ScqId} {w : WId} {bw : Bool} {s' : State}
    (hT : TInvX ex exo [] ts) (ht : alookup t.id ts.s.tasks = some t) (hw : t.worker = some (q0, w))
    (hk : t'.id = t.id ∧ t'.worker = none ∧ t'.queued = false)
    (hst : s'.tasks = aset t.id t' ts.s.tasks) (hsw : s'.workers = (BbRe.SchedTree.detachW ts.s t).workers)
    (hsq : s'.scqs = ts.s.scqs)
    (hso : ∀ o op', s'.op? o = some op' → ∃ op, ts.s.op? o = some op ∧ op'.inv = op.inv ∧ op'.prio = op.prio) :
    TS [] ((ts.detachTree t bw).setS s') := by
  have hS := hT.side
  have hc := hT.inv.core
  have hq0 : q0 = t.scq := hS.wq t.id t q0 w ht hw
  obtain ⟨wk, hwk, hwkt⟩ := hc.p2 t.id t q0 w ht hw
  obtain ⟨x0, hx0, hxq, hxi, hxp, hxl⟩ := hS.wx_of_worker hwk
  have hx0l : x0.last = none := hxl.mpr (by rw [hwkt]; rfl)
  have hwkp : wk.parked = false := by
    cases hp : wk.parked with
    | false => rfl
    | true => have := hc.w1 q0 w wk hwk hp; rw [hwkt] at this; cases this
  have htq : t.queued = false := by
    cases hq : t.queued with
    | false => rfl
    | true => have := (hc.q1 t.id t ht hq).1; rw [hw] at this; cases this
  have hops := hT.inv.oinv.o3 t.id t ht
  let p : List Nat := if bw then lcp (t.ops.map ts.invOf) else []
  have hdt : ts.detachTree t bw = (ts.setLast t.scq q0 w p).decOps t (some w) := by
    unfold TState.detachTree; rw [hw]
  rw [hdt]
  -- the invocation the worker is left at exists
  have hnp : (node? ts.nodes t.scq p).isSome = true := by
    obtain ⟨o1, ho1⟩ := List.exists_mem_of_ne_nil _ hops.2
    have hn1 := hT.tree.rfE _ (mem_bagE_of_task ht hw ho1)
    apply hT.tree.prefix_exists _ hn1
    show (if bw then lcp (t.ops.map ts.invOf) else []) <+: ts.invOf o1
    split
    · exact lcp_prefix _ _ (List.mem_map.mpr ⟨o1, ho1, rfl⟩)
    · exact List.nil_prefix
  have h1 := setLastN_ok hT.tree t.scq p hnp
  have hoff : offPath ([] : List (ScqId × List Nat)) t.scq p = [] := rfl
  rw [hoff] at h1
  -- split off the task's executing entries
  let E0 : List EC := (aerase t.id ts.s.tasks).flatMap (fun kt => conE ts.ox kt.2)
  have hEsplit : (bagE ts).Perm (t.ops.map (fun o => (t.scq, ts.invOf o, some w)) ++ E0) := by
    have := flatMap_aerase_some (fun kt : Nat × Task => conE ts.ox kt.2) t.id ts.s.tasks t ht
    simp only [] at this
    rw [conE_worker _ t q0 w hw] at this
    exact this
  have h2 := h1.congr hEsplit (List.Perm.refl _) (fun c => Iff.rfl) (fun c => Iff.rfl)
  have h3 := decOps_ok ts.legacyPrio ts.prioOf t.scq ts.invOf (some w) ts.s.now t.ops h2
  let ts' : TState := ((ts.setLast t.scq q0 w p).decOps t (some w)).setS s'
  -- the bags of the new state
  have hE : E0.Perm (bagE ts') := by
    have := bagE_setTask ts s' t t' ts.ox (by rw [hk.1]; exact ht) (by rw [hk.1]; exact hst) (fun _ _ => rfl) ts' rfl rfl
    rw [conE_unassigned _ t' hk.2.1, List.append_nil, conE_worker _ t q0 w hw] at this
    have h4 : (t.ops.map (fun o => (t.scq, ts.invOf o, some w)) ++ E0).Perm
        (bagE ts' ++ t.ops.map (fun o => (t.scq, ts.invOf o, some w))) := hEsplit.symm.trans this
    exact (List.perm_append_right_iff _).mp (List.perm_append_comm.trans h4)
  have hQ : (bagQ ts).Perm (bagQ ts') := by
    have := bagQ_setTask ts s' t t' ts.ox (by rw [hk.1]; exact ht) (by rw [hk.1]; exact hst) (fun _ _ => rfl) ts' rfl rfl
    rw [conQ_unqueued _ t htq, conQ_unqueued _ t' hk.2.2, List.append_nil, List.append_nil] at this
    exact this
  let g : WX → WX := fun y => { y with last := some p }
  have hg : ∀ y, wxkey (g y) = wxkey y := fun y => rfl
  have hwx' : ts'.wx = setWX ts.wx q0 w g := rfl
  have hI : ((t.scq, p) :: bagI ts).Perm (bagI ts') := by
    have := bagI_setWX ts.wx q0 w g hg hS.wxnd x0 hx0
    have e1 : conI (g x0) = [(t.scq, p)] := by show (match (g x0).last with | some p => [((g x0).scq, p)] | none => []) = _; simp [g, hxq, hq0]
    have e2 : conI x0 = [] := by unfold conI; rw [hx0l]
    rw [e1, e2, List.append_nil] at this
    rw [bagI_def, bagI_def, hwx']
    exact (List.perm_append_comm (l₁ := [(t.scq, p)])).trans this
  have hP : (bagP ts).Perm (bagP ts') := by
    have := bagP_setWX ts.wx q0 w g hg hS.wxnd x0 hx0
    have e1 : conP (g x0) = [] := by unfold conP; simp [g, hxp, hwkp]
    have e2 : conP x0 = [] := by unfold conP; simp [hxp, hwkp]
    rw [e1, e2, List.append_nil, List.append_nil] at this
    rw [bagP_def, bagP_def, hwx']; exact this
  refine ⟨h3.congr hE hI (fun c => hQ.mem_iff) (fun c => hP.mem_iff), ?_⟩
  -- the coupling
  have hnf : NFrame [] ts.nodes ts'.nodes :=
    NFrame.trans0 (setLast_nframe ts t.scq q0 w p) (decOps_nframe _ t (some w))
  have hnodes := side_nodes hS hnf (scqs' := s'.scqs) (by intro q hq; cases hq)
    (fun sq h => by rw [hsq]; exact h) (fun sq h => Or.inl (by rw [hsq] at h; exact h))
  have hsw' : s'.workers = wset ts.s.workers { wk with task := none } := by
    rw [hsw]; exact detachW_workers ts.s t q0 w wk hw hwk
  have hkey := wfind_key hwk
  refine ⟨hnodes.1, hnodes.2, ?_, ?_, ?_, ?_, ?_⟩
  · show ((setWX ts.wx q0 w g).map wxkey).Nodup
    rw [setWX_keys ts.wx q0 w g hg]; exact hS.wxnd
  · intro q' w'
    show (List.find? _ (setWX ts.wx q0 w g)).isSome = (s'.worker? q' w').isSome
    rw [worker?_def, hsw', find?_setWX _ _ _ _ hg, wfind_wset]
    have := hS.wxw q' w'
    rw [worker?_def, wx?_eq] at this
    by_cases hkk : wk.scq = q' ∧ wk.id = w'
    · simp only [hkk, and_self, if_true, Option.isSome_map]
      rw [this]; cases (wfind ts.s.workers q' w') <;> rfl
    · simp only [hkk, if_false, Option.isSome_map]; exact this
  · intro q' w' wk2 x hwk2 hx
    rw [worker?_def] at hwk2
    change wfind s'.workers q' w' = some wk2 at hwk2
    rw [hsw', wfind_wset] at hwk2
    change List.find? _ (setWX ts.wx q0 w g) = some x at hx
    rw [find?_setWX _ _ _ _ hg] at hx
    by_cases hkk : wk.scq = q' ∧ wk.id = w'
    · simp only [hkk, and_self, if_true] at hwk2
      have e1 : q' = q0 := by rw [← hkk.1, hkey.1]
      have e2 : w' = w := by rw [← hkk.2, hkey.2]
      subst e1; subst e2
      rw [hwk] at hwk2
      simp only [Option.isSome_some, if_true, Option.some.injEq] at hwk2
      rw [hx0] at hx
      simp only [Option.map_some, hxq, hxi, and_self, if_true, Option.some.injEq] at hx
      subst hwk2; subst hx
      exact ⟨hxp, by simp [g]⟩
    · simp only [hkk, if_false] at hwk2
      cases hf : ts.wx.find? (fun x => x.scq = q' ∧ x.id = w') with
      | none => rw [hf] at hx; cases hx
      | some y =>
        rw [hf] at hx
        have hyk := List.find?_some hf
        simp only [decide_eq_true_eq] at hyk
        have : ¬ (y.scq = q0 ∧ y.id = w) := by
          rw [hyk.1, hyk.2, ← hkey.1, ← hkey.2]; exact fun h => hkk ⟨h.1.symm, h.2.symm⟩
        simp only [Option.map_some, this, if_false, Option.some.injEq] at hx
        subst hx
        exact hS.wpl q' w' wk2 y (by rw [worker?_def]; exact hwk2) hf
  · intro o op' hop
    obtain ⟨op, h1, h2, h3⟩ := hso o op' hop
    have := hS.oxok o op h1
    show alookup o ts.ox = some ⟨op'.inv, op'.prio⟩
    rw [this, h2, h3]
  · intro k t'' q w h1 hw'
    change alookup k s'.tasks = some t'' at h1
    rw [hst, alookup_aset] at h1
    by_cases hkk : t.id = k
    · rw [if_pos hkk] at h1; cases h1; rw [hk.2.1] at hw'; cases hw'
    · rw [if_neg hkk] at h1; exact hS.wq k t'' q w h1 hw'

end BbRe.Lemmas.SchedTree
