import BbRe.Lemmas.SchedLiveWorker7
/-!
Cleanup accounting (C06): every object the scheduler created on behalf of a
client or worker is either actively held (a worker inside `Synchronize`, an
operation with waiters, a background operation of an uncompleted task, a
removable queue with workers) or has exactly one armed cleanup entry.
-/
namespace BbRe.Lemmas.SchedLive
open BbRe.Sched

/-- an entry of kind `k` is armed -/
def hasK (s : State) (k : CleanupKind) : Prop := ∃ e ∈ s.cleanup, e.kind = k

theorem hasCleanup_iff (s : State) (k : CleanupKind) : s.hasCleanup k = true ↔ hasK s k := by
  unfold State.hasCleanup hasK
  simp only [List.any_eq_true, decide_eq_true_eq]

theorem hasK_congr {s s' : State} (h : s'.cleanup = s.cleanup) (k : CleanupKind) : hasK s' k ↔ hasK s k := by
  unfold hasK; rw [h]

theorem hasK_add (s : State) (d : Nat) (k0 k : CleanupKind) : hasK (s.addCleanup d k0) k ↔ k = k0 ∨ hasK s k := by
  unfold hasK
  simp only [addCleanup_cleanup, List.mem_cons]
  constructor
  · rintro ⟨e, rfl | he, hk⟩
    · exact .inl hk.symm
    · exact .inr ⟨e, he, hk⟩
  · rintro (rfl | ⟨e, he, hk⟩)
    · exact ⟨_, .inl rfl, rfl⟩
    · exact ⟨e, .inr he, hk⟩

theorem hasK_remove (s : State) (k0 k : CleanupKind) : hasK (s.removeCleanup k0) k ↔ k ≠ k0 ∧ hasK s k := by
  unfold hasK
  simp only [removeCleanup_cleanup, List.mem_filter, decide_eq_true_eq]
  constructor
  · rintro ⟨e, ⟨he, hne⟩, hk⟩; exact ⟨hk ▸ hne, e, he, hk⟩
  · rintro ⟨hne, e, he, hk⟩; exact ⟨e, ⟨he, hk ▸ hne⟩, hk⟩

/-- after popping entry `e` (all copies) from a queue with distinct kinds, exactly its kind disappears -/
theorem hasK_pop {s : State} {e : CleanupEntry} (hn : (s.cleanup.map (·.kind)).Nodup) (he : e ∈ s.cleanup)
    (k : CleanupKind) : hasK (setCleanup s (s.cleanup.filter (fun x => x ≠ e))) k ↔ k ≠ e.kind ∧ hasK s k := by
  unfold hasK
  simp only [setCleanup_cleanup, List.mem_filter, decide_eq_true_eq]
  constructor
  · rintro ⟨x, ⟨hx, hne⟩, hk⟩
    refine ⟨?_, x, hx, hk⟩
    intro hke
    -- two entries with the same kind in a list with distinct kinds are equal
    have : ∀ (l : List CleanupEntry), (l.map (·.kind)).Nodup → x ∈ l → e ∈ l → x.kind = e.kind → x = e := by
      intro l; induction l with
      | nil => intro _ h; cases h
      | cons a r ih =>
        intro hn hx he hk'
        simp only [List.map_cons, List.nodup_cons] at hn
        rcases List.mem_cons.1 hx with rfl | hx' <;> rcases List.mem_cons.1 he with he' | he'
        · exact he'.symm
        · exact absurd (List.mem_map.2 ⟨e, he', hk'.symm⟩) hn.1
        · subst he'; exact absurd (List.mem_map.2 ⟨x, hx', hk'⟩) hn.1
        · exact ih hn.2 hx' he' hk'
    exact hne (this _ hn hx he (hk.trans hke))
  · rintro ⟨hne, x, hx, hk⟩
    exact ⟨x, ⟨hx, fun h => hne (by rw [← hk, h])⟩, hk⟩

/-- objects temporarily exempt from the "held or armed" clauses in the middle of a segment: an operation
that was just created and is about to be attached to (or whose entry was just popped), a size-class queue /
a worker whose cleanup entry was just popped and whose callback is running -/
structure Ex where
  op : Option Nat := none
  scq : Option ScqId := none
  wk : Option (ScqId × WId) := none

/-- **Cleanup accounting invariant** (with exemptions `x`, all `none` between segments). -/
structure CInv (x : Ex) (s : State) : Prop where
  uniq : (s.cleanup.map (·.kind)).Nodup
  wIn : ∀ wk ∈ s.workers, wk.inSync = true → ¬ hasK s (.worker wk.scq wk.id)
  wOut : ∀ wk ∈ s.workers, wk.inSync = false → some (wk.scq, wk.id) ≠ x.wk → hasK s (.worker wk.scq wk.id)
  eW : ∀ q w, hasK s (.worker q w) → ∃ wk ∈ s.workers, wk.scq = q ∧ wk.id = w
  eO : ∀ o, hasK s (.op o) → ∃ op, s.op? o = some op ∧ op.waiters = 0 ∧ op.mayExistWithoutWaiters = false
  eS : ∀ q, hasK s (.scq q) → (∃ sq, s.scq? q = some sq ∧ sq.mayBeRemoved = true) ∧ ∀ wk ∈ s.workers, wk.scq ≠ q
  opBg : ∀ o op, s.op? o = some op → op.mayExistWithoutWaiters = true →
    ∃ t, s.task? op.task = some t ∧ t.response = none
  opFg : ∀ o op, s.op? o = some op → op.mayExistWithoutWaiters = false → some o ≠ x.op →
    0 < op.waiters ∨ hasK s (.op o)
  opT : ∀ o op, s.op? o = some op → ∃ t, s.task? op.task = some t ∧ o ∈ t.ops
  scqW : ∀ q sq, s.scq? q = some sq → sq.mayBeRemoved = true → some q ≠ x.scq →
    (∃ wk ∈ s.workers, wk.scq = q) ∨ hasK s (.scq q)
  wScq : ∀ wk ∈ s.workers, ∃ sq, s.scq? wk.scq = some sq
  exScq : ∀ q, x.scq = some q → (∀ wk ∈ s.workers, wk.scq ≠ q) ∧ ¬ hasK s (.scq q)
  exWk : ∀ q w, x.wk = some (q, w) → ¬ hasK s (.worker q w)

theorem mem_of_map_eq {α β} {f : α → β} {l l' : List α} (h : l'.map f = l.map f) {a' : α} (ha : a' ∈ l') :
    ∃ a ∈ l, f a = f a' := by
  have : f a' ∈ l.map f := h ▸ List.mem_map.2 ⟨a', ha, rfl⟩
  obtain ⟨a, ha, e⟩ := List.mem_map.1 this
  exact ⟨a, ha, e⟩

/-- lookups by id in two queue lists with equal `(id, mayBeRemoved)` projections agree on these -/
theorem find?_scq_proj {l l' : List Scq} (h : l'.map (fun q => (q.id, q.mayBeRemoved)) = l.map (fun q => (q.id, q.mayBeRemoved)))
    (q : ScqId) :
    (l'.find? (fun y => y.id = q)).map (fun q => (q.id, q.mayBeRemoved)) =
      (l.find? (fun y => y.id = q)).map (fun q => (q.id, q.mayBeRemoved)) := by
  induction l generalizing l' with
  | nil => cases l' <;> simp_all
  | cons a r ih =>
    cases l' with
    | nil => simp at h
    | cons a' r' =>
      simp only [List.map_cons, List.cons.injEq, Prod.mk.injEq] at h
      simp only [List.find?_cons, h.1.1]
      by_cases hq : a.id = q
      · simp [hq, h.1.1, h.1.2]
      · simp only [hq, decide_false]; exact ih h.2

/-- what the accounting invariant depends on is unchanged -/
structure CFrame (s s' : State) : Prop where
  cleanup : s'.cleanup = s.cleanup
  workers : s'.workers.map (fun w => (w.scq, w.id, w.inSync)) = s.workers.map (fun w => (w.scq, w.id, w.inSync))
  scqs : ∀ q, (s'.scq? q).map (·.mayBeRemoved) = (s.scq? q).map (·.mayBeRemoved)
  ops : s'.ops = s.ops
  tasks : ∀ k, (s'.task? k).map (fun t => (t.response.isSome, t.ops)) = (s.task? k).map (fun t => (t.response.isSome, t.ops))

theorem CFrame.refl (s : State) : CFrame s s := ⟨rfl, rfl, fun _ => rfl, rfl, fun _ => rfl⟩

theorem CFrame.trans {a b c : State} (h1 : CFrame a b) (h2 : CFrame b c) : CFrame a c :=
  ⟨h2.cleanup.trans h1.cleanup, h2.workers.trans h1.workers, fun q => (h2.scqs q).trans (h1.scqs q), h2.ops.trans h1.ops,
   fun k => (h2.tasks k).trans (h1.tasks k)⟩

theorem CInv.frame {x : Ex} {s s' : State} (h : CInv x s) (f : CFrame s s') : CInv x s' := by
  have hk : ∀ k, hasK s' k ↔ hasK s k := hasK_congr f.cleanup
  have wfwd : ∀ wk' ∈ s'.workers, ∃ wk ∈ s.workers, wk.scq = wk'.scq ∧ wk.id = wk'.id ∧ wk.inSync = wk'.inSync := by
    intro wk' hm
    obtain ⟨wk, hm', e⟩ := mem_of_map_eq f.workers hm
    simp only [Prod.mk.injEq] at e
    exact ⟨wk, hm', e.1, e.2.1, e.2.2⟩
  have wbwd : ∀ wk ∈ s.workers, ∃ wk' ∈ s'.workers, wk'.scq = wk.scq ∧ wk'.id = wk.id ∧ wk'.inSync = wk.inSync := by
    intro wk hm
    obtain ⟨wk', hm', e⟩ := mem_of_map_eq f.workers.symm hm
    simp only [Prod.mk.injEq] at e
    exact ⟨wk', hm', e.1, e.2.1, e.2.2⟩
  have qfwd : ∀ q sq', s'.scq? q = some sq' → ∃ sq, s.scq? q = some sq ∧ sq.mayBeRemoved = sq'.mayBeRemoved := by
    intro q sq' e
    have := f.scqs q
    rw [e] at this
    cases hs : s.scq? q with
    | none => rw [hs] at this; cases this
    | some sq =>
      rw [hs] at this; simp only [Option.map_some, Option.some.injEq] at this
      exact ⟨sq, rfl, this.symm⟩
  have qbwd : ∀ q sq, s.scq? q = some sq → ∃ sq', s'.scq? q = some sq' ∧ sq'.mayBeRemoved = sq.mayBeRemoved := by
    intro q sq e
    have := f.scqs q
    rw [e] at this
    cases hs : s'.scq? q with
    | none => rw [hs] at this; cases this
    | some sq' =>
      rw [hs] at this; simp only [Option.map_some, Option.some.injEq] at this
      exact ⟨sq', rfl, this⟩
  have hop : ∀ o, s'.op? o = s.op? o := by intro o; simp [State.op?, f.ops]
  have htask' : ∀ k t, s.task? k = some t → ∃ t', s'.task? k = some t' ∧ t'.response.isSome = t.response.isSome ∧ t'.ops = t.ops := by
    intro k t e
    have := f.tasks k
    rw [e] at this
    cases hs : s'.task? k with
    | none => rw [hs] at this; cases this
    | some t' =>
      rw [hs] at this; simp only [Option.map_some, Option.some.injEq, Prod.mk.injEq] at this
      exact ⟨t', rfl, this.1, this.2⟩
  refine ⟨by rw [f.cleanup]; exact h.uniq, ?_, ?_, ?_, ?_, ?_, ?_, ?_, ?_, ?_, ?_, ?_, ?_⟩
  · intro wk' hm hi
    obtain ⟨wk, hm', e1, e2, e3⟩ := wfwd wk' hm
    rw [hk, ← e1, ← e2]; exact h.wIn wk hm' (e3.trans hi)
  · intro wk' hm hi hx
    obtain ⟨wk, hm', e1, e2, e3⟩ := wfwd wk' hm
    rw [hk, ← e1, ← e2]; exact h.wOut wk hm' (e3.trans hi) (by rw [e1, e2]; exact hx)
  · intro q w hh
    obtain ⟨wk, hm, e1, e2⟩ := h.eW q w ((hk _).1 hh)
    obtain ⟨wk', hm', a1, a2, _⟩ := wbwd wk hm
    exact ⟨wk', hm', a1.trans e1, a2.trans e2⟩
  · intro o hh; rw [hop]; exact h.eO o ((hk _).1 hh)
  · intro q hh
    obtain ⟨⟨sq, e1, e2⟩, hno⟩ := h.eS q ((hk _).1 hh)
    obtain ⟨sq', a1, a2⟩ := qbwd q sq e1
    refine ⟨⟨sq', a1, a2.trans e2⟩, ?_⟩
    intro wk' hm'' e
    obtain ⟨wk, hm3, b1, _⟩ := wfwd wk' hm''
    exact hno wk hm3 (b1.trans e)
  · intro o op ho hb
    rw [hop] at ho
    obtain ⟨t, e1, e2⟩ := h.opBg o op ho hb
    obtain ⟨t', a1, a2, _⟩ := htask' _ t e1
    refine ⟨t', a1, ?_⟩
    cases hr : t'.response with
    | none => rfl
    | some r => rw [hr, e2] at a2; cases a2
  · intro o op ho hb hx
    rw [hop] at ho; rw [hk]; exact h.opFg o op ho hb hx
  · intro o op ho
    rw [hop] at ho
    obtain ⟨t, e1, e2⟩ := h.opT o op ho
    obtain ⟨t', a1, _, a3⟩ := htask' _ t e1
    exact ⟨t', a1, a3 ▸ e2⟩
  · intro q sq' e hb hx
    obtain ⟨sq, e1, e2⟩ := qfwd q sq' e
    rcases h.scqW q sq e1 (e2.trans hb) hx with ⟨wk, hmw, ew⟩ | hh
    · obtain ⟨wk', hmw', a1, _⟩ := wbwd wk hmw
      exact .inl ⟨wk', hmw', a1.trans ew⟩
    · exact .inr ((hk _).2 hh)
  · intro wk' hm
    obtain ⟨wk, hm', e1, _⟩ := wfwd wk' hm
    obtain ⟨sq, es⟩ := h.wScq wk hm'
    obtain ⟨sq', a1, _⟩ := qbwd _ sq es
    exact ⟨sq', by rw [← e1]; exact a1⟩
  · intro q hq
    obtain ⟨a, b⟩ := h.exScq q hq
    refine ⟨?_, fun hh => b ((hk _).1 hh)⟩
    intro wk' hm e
    obtain ⟨wk, hm', e1, _⟩ := wfwd wk' hm
    exact a wk hm' (e1.trans e)
  · intro q w hq hh; exact h.exWk q w hq ((hk _).1 hh)

/-- no exemption -/
def noEx : Ex := {}

/-- adding an operation exemption -/
theorem CInv.exempt {s : State} (o : Option Nat) (h : CInv noEx s) : CInv { op := o } s :=
  ⟨h.uniq, h.wIn, h.wOut, h.eW, h.eO, h.eS, h.opBg, fun k op a b _ => h.opFg k op a b (by simp [noEx]), h.opT, h.scqW,
   h.wScq, (fun _ hq => nomatch hq), (fun _ _ hq => nomatch hq)⟩

end BbRe.Lemmas.SchedLive
