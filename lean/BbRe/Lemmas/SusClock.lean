import BbRe.Model.SusClock
/-!
Helper lemmas for C11, part 1: the counter model of `Suspend`/`Resume`
(`Clk`, `clockAt`) computes the measure of the time not covered by any
suspension interval (`unsuspTo`).
-/
namespace BbRe.Lemmas.SusClock
open BbRe.SusClock

/-! ### `countFree` -/

theorem countFree_congr {f g : Nat → Nat} {a : Nat} :
    ∀ n, (∀ τ, a ≤ τ → τ < a + n → f τ = g τ) → countFree f a n = countFree g a n
  | 0, _ => rfl
  | n + 1, h => by
    simp only [countFree]
    rw [countFree_congr n (fun τ h1 h2 => h τ h1 (by omega)), h (a + n) (by omega) (by omega)]

theorem countFree_add (f : Nat → Nat) (a m : Nat) :
    ∀ n, countFree f a (m + n) = countFree f a m + countFree f (a + m) n
  | 0 => rfl
  | n + 1 => by
    show countFree f a (m + n + 1) = _
    simp only [countFree]
    rw [countFree_add f a m n, Nat.add_assoc a m n]
    omega

theorem countFree_const {f : Nat → Nat} {a k : Nat} :
    ∀ n, (∀ τ, a ≤ τ → τ < a + n → f τ = k) → countFree f a n = if k = 0 then n else 0
  | 0, _ => by simp [countFree]
  | n + 1, h => by
    simp only [countFree]
    rw [countFree_const n (fun τ h1 h2 => h τ h1 (by omega)), h (a + n) (by omega) (by omega)]
    split <;> simp

theorem countFree_le (f : Nat → Nat) (a : Nat) : ∀ n, countFree f a n ≤ n
  | 0 => Nat.le_refl 0
  | n + 1 => by
    have := countFree_le f a n
    simp only [countFree]
    split <;> omega

/-- Splitting `[a, c)` at `b`. -/
theorem countFree_split (f : Nat → Nat) {a b c : Nat} (h1 : a ≤ b) (h2 : b ≤ c) :
    countFree f a (c - a) = countFree f a (b - a) + countFree f b (c - b) := by
  have h : c - a = (b - a) + (c - b) := by omega
  rw [h, countFree_add]
  have : a + (b - a) = b := by omega
  rw [this]

/-! ### `unsuspTo` / `unsuspended` -/

theorem unsuspTo_eq_add (tl : List Ev) {a b : Nat} (h : a ≤ b) :
    unsuspTo tl b = unsuspTo tl a + unsuspended tl a b := by
  unfold unsuspTo unsuspended
  have := countFree_split (depthAt tl) (Nat.zero_le a) h
  simpa using this

theorem unsuspTo_mono (tl : List Ev) {a b : Nat} (h : a ≤ b) : unsuspTo tl a ≤ unsuspTo tl b := by
  rw [unsuspTo_eq_add tl h]; omega

theorem unsuspended_le (tl : List Ev) (a b : Nat) : unsuspended tl a b ≤ b - a :=
  countFree_le _ _ _

/-- Unsuspended time grows at most as fast as wall time. -/
theorem unsuspTo_lipschitz (tl : List Ev) {a b : Nat} (h : a ≤ b) :
    unsuspTo tl b ≤ unsuspTo tl a + (b - a) := by
  rw [unsuspTo_eq_add tl h]
  have := unsuspended_le tl a b
  omega

theorem unsuspended_add (tl : List Ev) {a b c : Nat} (h1 : a ≤ b) (h2 : b ≤ c) :
    unsuspended tl a c = unsuspended tl a b + unsuspended tl b c :=
  countFree_split _ h1 h2

/-! ### the clock state machine -/

/-- A `Suspend`/`Resume` at instant `t` does not change the unsuspended total
observed at `t`: same-instant calls may be ordered arbitrarily around a reader. -/
theorem totalNow_apply (c : Clk) (e : Ev) : (c.apply e).totalNow e.time = c.totalNow e.time := by
  cases e with
  | suspend t =>
    simp only [Clk.apply, Clk.suspend, Clk.totalNow, Ev.time]
    split <;> simp
  | resume t =>
    simp only [Clk.apply, Clk.resume, Clk.totalNow, Ev.time]
    split
    · rfl
    · simp only
      split <;> simp_all

theorem totalNow_advance (c : Clk) {T t : Nat} (h1 : c.us ≤ T) (h2 : T ≤ t) :
    c.totalNow t = c.totalNow T + if c.cnt = 0 then t - T else 0 := by
  simp only [Clk.totalNow]
  split <;> omega

theorem us_apply (c : Clk) (e : Ev) (h : c.us ≤ e.time) : (c.apply e).us ≤ e.time := by
  cases e with
  | suspend t => simpa [Clk.apply, Clk.suspend, Ev.time] using h
  | resume t =>
    simp only [Clk.apply, Clk.resume, Ev.time] at *
    split
    · exact h
    · simp only; split <;> omega

theorem totalWithTime_eq (c : Clk) {t : Nat} (h : c.us ≤ t) : c.totalWithTime t = c.totalNow t := by
  simp only [Clk.totalWithTime, Clk.totalNow]
  by_cases h0 : c.cnt = 0
  · by_cases h1 : c.us < t
    · simp [h0, h1]
    · have : t - c.us = 0 := by omega
      simp [h0, h1, this]
  · simp [h0]

/-! ### sortedness, balance, depth -/

theorem sortedFrom_mono {lo lo' : Nat} (h : lo' ≤ lo) : ∀ tl, sortedFrom lo tl = true → sortedFrom lo' tl = true
  | [], _ => rfl
  | e :: rest, hs => by
    simp only [sortedFrom, Bool.and_eq_true, decide_eq_true_eq] at *
    exact ⟨by omega, hs.2⟩

theorem cnt_zero_of_sorted {lo τ : Nat} (hτ : τ < lo) :
    ∀ tl, sortedFrom lo tl = true → cntS tl τ = 0 ∧ cntR tl τ = 0
  | [], _ => by simp [cntS, cntR]
  | e :: rest, hs => by
    simp only [sortedFrom, Bool.and_eq_true, decide_eq_true_eq] at hs
    have ih := cnt_zero_of_sorted (lo := e.time) (τ := τ) (by omega) rest hs.2
    have hne : ¬ e.time ≤ τ := by omega
    unfold cntS cntR at *
    simp [hne, ih.1, ih.2]

theorem depthFrom_early {n lo τ : Nat} (hτ : τ < lo) (tl : List Ev) (hs : sortedFrom lo tl = true) :
    depthFrom n tl τ = n := by
  have := cnt_zero_of_sorted hτ tl hs
  simp [depthFrom, this.1, this.2]

theorem depthFrom_cons_suspend (n t : Nat) (rest : List Ev) {τ : Nat} (h : t ≤ τ) :
    depthFrom n (.suspend t :: rest) τ = depthFrom (n + 1) rest τ := by
  simp [depthFrom, cntS, cntR, Ev.isSuspend, Ev.time, h]
  omega

theorem depthFrom_cons_resume (n t : Nat) (rest : List Ev) {τ : Nat} (h : t ≤ τ) (hn : n ≠ 0) :
    depthFrom n (.resume t :: rest) τ = depthFrom (n - 1) rest τ := by
  simp [depthFrom, cntS, cntR, Ev.isSuspend, Ev.time, h]
  omega

/-- The heart of `nesting`: running the counter model over a sorted, balanced
list of calls adds exactly the number of unit intervals that no suspension covers. -/
theorem runTo_total : ∀ (rest : List Ev) (c : Clk) (T t : Nat), c.us ≤ T → T ≤ t →
    sortedFrom T rest = true → balancedFrom c.cnt rest = true →
    (runTo c rest t).totalNow t = c.totalNow T + countFree (depthFrom c.cnt rest) T (t - T) ∧
    (runTo c rest t).us ≤ t
  | [], c, T, t, h1, h2, _, _ => by
    refine ⟨?_, by simp [runTo]; omega⟩
    rw [countFree_const (k := c.cnt) _ (fun τ _ _ => by simp [depthFrom, cntS, cntR])]
    exact totalNow_advance c h1 h2
  | e :: rest, c, T, t, h1, h2, hs, hb => by
    have hs' := hs
    simp only [sortedFrom, Bool.and_eq_true, decide_eq_true_eq] at hs'
    have hs2 : sortedFrom e.time (e :: rest) = true := by simp [sortedFrom, hs'.2]
    by_cases he : e.time ≤ t
    · -- the call happens before `t`
      have hstep : runTo c (e :: rest) t = runTo (c.apply e) rest t := by simp [runTo, he]
      have hus := us_apply c e (by omega)
      have hb' : balancedFrom (c.apply e).cnt rest = true ∧
          (∀ τ, e.time ≤ τ → depthFrom c.cnt (e :: rest) τ = depthFrom (c.apply e).cnt rest τ) := by
        cases e with
        | suspend t' =>
          simp only [balancedFrom] at hb
          exact ⟨by simpa [Clk.apply, Clk.suspend] using hb,
            fun τ hτ => by simpa [Clk.apply, Clk.suspend] using depthFrom_cons_suspend c.cnt t' rest hτ⟩
        | resume t' =>
          simp only [balancedFrom, Bool.and_eq_true, decide_eq_true_eq] at hb
          have hc : c.cnt ≠ 0 := hb.1
          exact ⟨by simpa [Clk.apply, Clk.resume, hc] using hb.2,
            fun τ hτ => by simpa [Clk.apply, Clk.resume, hc] using depthFrom_cons_resume c.cnt t' rest hτ hc⟩
      have ih := runTo_total rest (c.apply e) e.time t hus he hs'.2 hb'.1
      rw [hstep]
      refine ⟨?_, ih.2⟩
      rw [ih.1, totalNow_apply, totalNow_advance c h1 hs'.1,
        countFree_split (depthFrom c.cnt (e :: rest)) hs'.1 he,
        countFree_const (k := c.cnt) (e.time - T) (fun τ _ h4 => depthFrom_early (by omega) _ hs2),
        countFree_congr (f := depthFrom c.cnt (e :: rest)) (g := depthFrom (c.apply e).cnt rest) (t - e.time)
          (fun τ h3 _ => hb'.2 τ h3)]
      omega
    · -- the first remaining call is after `t`: nothing more happens up to `t`
      have hstep : runTo c (e :: rest) t = c := by simp [runTo, he]
      rw [hstep]
      refine ⟨?_, by omega⟩
      rw [countFree_const (k := c.cnt) _ (fun τ _ h4 => depthFrom_early (by omega) _ hs2)]
      exact totalNow_advance c h1 h2

/-- `getTotalUnsuspendedNow()` at instant `t` equals the measure of `[0,t)` minus
the union of the suspension intervals. -/
theorem clockAt_total {tl : List Ev} (hs : Sorted tl) (hb : Balanced tl) (t : Nat) :
    (clockAt tl t).totalNow t = unsuspTo tl t := by
  have h := (runTo_total tl Clk.init 0 t (Nat.le_refl 0) (Nat.zero_le t) hs hb).1
  rw [Nat.sub_zero] at h
  show (runTo Clk.init tl t).totalNow t = countFree (depthFrom 0 tl) 0 t
  rw [h]
  simp [Clk.init, Clk.totalNow]

theorem clockAt_us {tl : List Ev} (hs : Sorted tl) (hb : Balanced tl) (t : Nat) :
    (clockAt tl t).us ≤ t :=
  (runTo_total tl Clk.init 0 t (Nat.le_refl 0) (Nat.zero_le t) hs hb).2

theorem clockAt_totalWithTime {tl : List Ev} (hs : Sorted tl) (hb : Balanced tl) (t : Nat) :
    (clockAt tl t).totalWithTime t = unsuspTo tl t := by
  rw [totalWithTime_eq _ (clockAt_us hs hb t), clockAt_total hs hb]

end BbRe.Lemmas.SusClock
