import BbRe.Lemmas.SchedTreeLinkDefs
/-!
How the bags computed from the state change when one task entry or one worker's extras are replaced.
-/
namespace BbRe.Lemmas.SchedTree
open BbRe.Sched BbRe.SchedTree BbRe.Lemmas.SchedInv

theorem flatMap_congr' {α β} {l : List α} {f g : α → List β} (h : ∀ a ∈ l, f a = g a) : l.flatMap f = l.flatMap g := by
  induction l with
  | nil => rfl
  | cons a t ih =>
    simp only [List.flatMap_cons]
    rw [h a List.mem_cons_self, ih (fun b hb => h b (List.mem_cons_of_mem _ hb))]

theorem bagE_def (ts : TState) : bagE ts = ts.s.tasks.flatMap (fun kt => conE ts.ox kt.2) := rfl
theorem bagQ_def (ts : TState) : bagQ ts = ts.s.tasks.flatMap (fun kt => conQ ts.ox kt.2) := rfl
theorem bagI_def (ts : TState) : bagI ts = ts.wx.flatMap conI := rfl
theorem bagP_def (ts : TState) : bagP ts = ts.wx.flatMap conP := rfl

/-- replacing the entry of task `t0` by `t1` (same id) -/
theorem bagE_setTask (ts : TState) (s' : State) (t0 t1 : Task) (ox' : List (Nat × OX))
    (h0 : alookup t1.id ts.s.tasks = some t0) (hs : s'.tasks = aset t1.id t1 ts.s.tasks)
    (hox : ∀ kt ∈ ts.s.tasks, conE ox' kt.2 = conE ts.ox kt.2) (ts' : TState) (hts : ts'.s = s') (hox' : ts'.ox = ox') :
    (bagE ts ++ conE ox' t1).Perm (bagE ts' ++ conE ts.ox t0) := by
  rw [bagE_def, bagE_def, hts, hs, hox']
  have e : ts.s.tasks.flatMap (fun kt => conE ts.ox kt.2) = ts.s.tasks.flatMap (fun kt => conE ox' kt.2) := by
    apply flatMap_congr'; intro kt hkt; exact (hox kt hkt).symm
  rw [e]
  have := flatMap_aset_some (fun kt : Nat × Task => conE ox' kt.2) t1.id t1 ts.s.tasks t0 h0
  simp only [] at this
  rw [← hox (t1.id, t0) (mem_of_alookup h0)]
  exact this

theorem bagQ_setTask (ts : TState) (s' : State) (t0 t1 : Task) (ox' : List (Nat × OX))
    (h0 : alookup t1.id ts.s.tasks = some t0) (hs : s'.tasks = aset t1.id t1 ts.s.tasks)
    (hox : ∀ kt ∈ ts.s.tasks, conQ ox' kt.2 = conQ ts.ox kt.2) (ts' : TState) (hts : ts'.s = s') (hox' : ts'.ox = ox') :
    (bagQ ts ++ conQ ox' t1).Perm (bagQ ts' ++ conQ ts.ox t0) := by
  rw [bagQ_def, bagQ_def, hts, hs, hox']
  have e : ts.s.tasks.flatMap (fun kt => conQ ts.ox kt.2) = ts.s.tasks.flatMap (fun kt => conQ ox' kt.2) := by
    apply flatMap_congr'; intro kt hkt; exact (hox kt hkt).symm
  rw [e]
  have := flatMap_aset_some (fun kt : Nat × Task => conQ ox' kt.2) t1.id t1 ts.s.tasks t0 h0
  simp only [] at this
  rw [← hox (t1.id, t0) (mem_of_alookup h0)]
  exact this

/-- a new task entry -/
theorem bagE_newTask (ts : TState) (s' : State) (t1 : Task) (ox' : List (Nat × OX))
    (h0 : alookup t1.id ts.s.tasks = none) (hs : s'.tasks = aset t1.id t1 ts.s.tasks)
    (hox : ∀ kt ∈ ts.s.tasks, conE ox' kt.2 = conE ts.ox kt.2) (ts' : TState) (hts : ts'.s = s') (hox' : ts'.ox = ox') :
    bagE ts' = bagE ts ++ conE ox' t1 := by
  rw [bagE_def, bagE_def, hts, hs, hox', flatMap_aset_none _ _ _ _ h0]
  congr 1
  apply flatMap_congr'; intro kt hkt; exact hox kt hkt

theorem bagQ_newTask (ts : TState) (s' : State) (t1 : Task) (ox' : List (Nat × OX))
    (h0 : alookup t1.id ts.s.tasks = none) (hs : s'.tasks = aset t1.id t1 ts.s.tasks)
    (hox : ∀ kt ∈ ts.s.tasks, conQ ox' kt.2 = conQ ts.ox kt.2) (ts' : TState) (hts : ts'.s = s') (hox' : ts'.ox = ox') :
    bagQ ts' = bagQ ts ++ conQ ox' t1 := by
  rw [bagQ_def, bagQ_def, hts, hs, hox', flatMap_aset_none _ _ _ _ h0]
  congr 1
  apply flatMap_congr'; intro kt hkt; exact hox kt hkt

/-- replacing the extras of one worker -/
theorem bagI_setWX (wx : List WX) (q : ScqId) (w : WId) (g : WX → WX) (hg : ∀ x, wxkey (g x) = wxkey x)
    (hnd : (wx.map wxkey).Nodup) (x0 : WX) (h0 : wx.find? (fun x => x.scq = q ∧ x.id = w) = some x0) :
    (wx.flatMap conI ++ conI (g x0)).Perm ((setWX wx q w g).flatMap conI ++ conI x0) :=
  flatMap_setWX conI q w g hg wx hnd x0 h0

theorem bagP_setWX (wx : List WX) (q : ScqId) (w : WId) (g : WX → WX) (hg : ∀ x, wxkey (g x) = wxkey x)
    (hnd : (wx.map wxkey).Nodup) (x0 : WX) (h0 : wx.find? (fun x => x.scq = q ∧ x.id = w) = some x0) :
    (wx.flatMap conP ++ conP (g x0)).Perm ((setWX wx q w g).flatMap conP ++ conP x0) :=
  flatMap_setWX conP q w g hg wx hnd x0 h0

/-- every parked worker is parked at its last invocation (the `pi` clause is structural) -/
theorem conP_sub_conI (x : WX) : ∀ c ∈ conP x, (c.1, c.2.1) ∈ conI x := by
  intro c hc
  unfold conP at hc
  unfold conI
  split at hc
  · cases hl : x.last with
    | none => rw [hl] at hc; cases hc
    | some p => rw [hl] at hc; simp at hc; subst hc; simp
  · cases hc

theorem bagP_sub_bagI (wx : List WX) : ∀ c ∈ wx.flatMap conP, (c.1, c.2.1) ∈ wx.flatMap conI := by
  intro c hc
  obtain ⟨x, hx, hcx⟩ := List.mem_flatMap.mp hc
  exact List.mem_flatMap.mpr ⟨x, hx, conP_sub_conI x c hcx⟩

/-- two updates of the same worker's extras compose -/
theorem setWX_setWX (l : List WX) (q : ScqId) (w : WId) (g1 g2 : WX → WX) (hg : ∀ x, wxkey (g1 x) = wxkey x) :
    setWX (setWX l q w g1) q w g2 = setWX l q w (fun x => g2 (g1 x)) := by
  unfold setWX
  rw [List.map_map]
  apply List.map_congr_left
  intro x _
  simp only [Function.comp]
  by_cases hx : x.scq = q ∧ x.id = w
  · have := hg x
    simp only [wxkey, Prod.mk.injEq] at this
    simp [hx, this.1, this.2]
  · simp [hx]

/-- removing an element that a permutation puts last -/
theorem perm_erase_of_append {α} [BEq α] [LawfulBEq α] {l l' : List α} {c : α} (h : l.Perm (l' ++ [c])) :
    (l.erase c).Perm l' := by
  have h1 : (l.erase c).Perm ((l' ++ [c]).erase c) := h.erase c
  have h2 : (l' ++ [c]).Perm (c :: l') := List.perm_append_comm
  have h3 : ((l' ++ [c]).erase c).Perm ((c :: l').erase c) := h2.erase c
  rw [List.erase_cons_head] at h3
  exact h1.trans h3

end BbRe.Lemmas.SchedTree
