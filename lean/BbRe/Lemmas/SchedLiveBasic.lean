import BbRe.Model.SchedStep
/-!
Basic facts for the liveness / timeout / routing proofs about `Model/Sched.lean`
(C02, C05, C06): the `Except` monad, association lists, and *inversion lemmas*
that restate each helper of the model as "succeeds iff guards hold, and then the
result is this composition of primitive updates".  No definition of the model is
changed; the pure functions defined here (`assignS`, `detachW`, `finalizeS`, …)
only name sub-terms of the model's definitions.
-/
namespace BbRe.Lemmas.SchedLive
open BbRe.Sched

/-! ## the `Except String` monad -/

theorem bind_ok {α β} (x : M α) (f : α → M β) (b : β) :
    (x >>= f) = .ok b ↔ ∃ a, x = .ok a ∧ f a = .ok b := by
  cases x <;> simp [bind, Except.bind]

theorem bind_ok' {α β} (x : M α) (f : α → M β) (b : β) :
    (Except.bind x f) = .ok b ↔ ∃ a, x = .ok a ∧ f a = .ok b := by
  cases x <;> simp [Except.bind]

@[simp] theorem throw_ne_ok {α} (e : String) (a : α) : ((throw e : M α) = .ok a) ↔ False := by
  simp [throw, throwThe, MonadExceptOf.throw]

@[simp] theorem pure_ok {α} (a b : α) : ((pure a : M α) = .ok b) ↔ a = b := by
  simp [pure, Except.pure]

/-! ## association lists -/

@[simp] theorem alookup_aset {α} (k k' : Nat) (v : α) (l : List (Nat × α)) :
    alookup k (aset k' v l) = if k' = k then some v else alookup k l := by
  induction l with
  | nil => simp [aset, alookup]
  | cons p r ih =>
    obtain ⟨a, b⟩ := p
    simp only [aset]
    by_cases h : a = k'
    · subst h; simp only [if_true, alookup]; split <;> rfl
    · simp only [h, if_false, alookup, ih]
      by_cases h2 : a = k
      · subst h2; simp [Ne.symm h]
      · simp [h2]

theorem alookup_aerase_ne {α} (k k' : Nat) (l : List (Nat × α)) (h : k' ≠ k) :
    alookup k (aerase k' l) = alookup k l := by
  induction l with
  | nil => simp [aerase]
  | cons p r ih =>
    obtain ⟨a, b⟩ := p
    simp only [aerase]
    by_cases h1 : a = k'
    · subst h1; simp [alookup, h]
    · simp only [h1, if_false, alookup, ih]

/-- keys of an association list -/
def akeys {α} (l : List (Nat × α)) : List Nat := l.map (·.1)

theorem alookup_none_iff {α} (k : Nat) (l : List (Nat × α)) : alookup k l = none ↔ k ∉ akeys l := by
  induction l with
  | nil => simp [alookup, akeys]
  | cons p r ih =>
    obtain ⟨a, b⟩ := p
    simp only [alookup, akeys, List.map_cons, List.mem_cons]
    by_cases h : a = k
    · simp [h]
    · simp only [h, if_false]; rw [ih]; simp [akeys, Ne.symm h]

theorem alookup_mem {α} {k : Nat} {v : α} {l : List (Nat × α)} (h : alookup k l = some v) : (k, v) ∈ l := by
  induction l with
  | nil => simp [alookup] at h
  | cons p r ih =>
    obtain ⟨a, b⟩ := p
    simp only [alookup] at h
    by_cases h1 : a = k
    · simp [h1] at h; simp [h1, h]
    · simp [h1] at h; exact List.mem_cons_of_mem _ (ih h)

theorem akeys_aset {α} (k : Nat) (v : α) (l : List (Nat × α)) :
    akeys (aset k v l) = if k ∈ akeys l then akeys l else akeys l ++ [k] := by
  induction l with
  | nil => simp [aset, akeys]
  | cons p r ih =>
    obtain ⟨a, b⟩ := p
    simp only [aset]
    by_cases h : a = k
    · simp [h, akeys]
    · simp only [h, if_false]
      simp only [akeys, List.map_cons, List.mem_cons] at ih ⊢
      rw [ih]
      by_cases h2 : k ∈ List.map (·.1) r
      · simp [h2]
      · simp [h2, Ne.symm h]

theorem nodup_akeys_aset {α} (k : Nat) (v : α) (l : List (Nat × α)) (h : (akeys l).Nodup) :
    (akeys (aset k v l)).Nodup := by
  rw [akeys_aset]; split
  · exact h
  · rw [List.nodup_append]; refine ⟨h, by simp, ?_⟩
    intro a ha b hb; simp at hb; subst hb; intro e; subst e; contradiction

theorem akeys_aerase_sub {α} (k : Nat) (l : List (Nat × α)) : (akeys (aerase k l)).Sublist (akeys l) := by
  induction l with
  | nil => simp [aerase, akeys]
  | cons p r ih =>
    obtain ⟨a, b⟩ := p
    simp only [aerase]
    by_cases h : a = k
    · simp [h, akeys]
    · simp only [h, if_false, akeys, List.map_cons]; exact List.Sublist.cons_cons _ ih

theorem nodup_akeys_aerase {α} (k : Nat) (l : List (Nat × α)) (h : (akeys l).Nodup) :
    (akeys (aerase k l)).Nodup := List.Nodup.sublist (akeys_aerase_sub k l) h

theorem alookup_aerase_self {α} (k : Nat) (l : List (Nat × α)) (h : (akeys l).Nodup) :
    alookup k (aerase k l) = none := by
  induction l with
  | nil => simp [aerase, alookup]
  | cons p r ih =>
    obtain ⟨a, b⟩ := p
    simp only [akeys, List.map_cons, List.nodup_cons] at h
    simp only [aerase]
    by_cases h1 : a = k
    · subst h1; simp only [if_true]; rw [alookup_none_iff]; exact h.1
    · simp only [h1, if_false, alookup]; exact ih h.2

theorem alookup_aerase {α} (k k' : Nat) (l : List (Nat × α)) (h : (akeys l).Nodup) :
    alookup k (aerase k' l) = if k' = k then none else alookup k l := by
  split
  · rename_i e; subst e; exact alookup_aerase_self _ _ h
  · rename_i e; exact alookup_aerase_ne _ _ _ e

theorem alookup_aerase_some {α} {k k' : Nat} {l : List (Nat × α)} {v : α}
    (h : alookup k (aerase k' l) = some v) : ∃ v', alookup k l = some v' := by
  induction l with
  | nil => simp [aerase, alookup] at h
  | cons p r ih =>
    obtain ⟨a, b⟩ := p
    simp only [aerase] at h
    by_cases h1 : a = k'
    · simp only [h1, if_true] at h
      simp only [alookup]; split
      · exact ⟨_, rfl⟩
      · exact ⟨_, h⟩
    · simp only [h1, if_false, alookup] at h ⊢
      split
      · exact ⟨_, rfl⟩
      · rename_i h2; simp only [h2, if_false] at h; exact ih h

theorem length_aerase_le {α} (k : Nat) (l : List (Nat × α)) : (aerase k l).length ≤ l.length := by
  induction l with
  | nil => simp [aerase]
  | cons p r ih =>
    obtain ⟨a, b⟩ := p
    simp only [aerase]; split <;> simp <;> omega

theorem length_aerase_lt {α} (k : Nat) (l : List (Nat × α)) (v : α) (h : alookup k l = some v) :
    (aerase k l).length < l.length := by
  induction l with
  | nil => simp [alookup] at h
  | cons p r ih =>
    obtain ⟨a, b⟩ := p
    simp only [aerase, alookup] at h ⊢
    by_cases h1 : a = k
    · simp [h1]
    · simp only [h1, if_false] at h ⊢; simp only [List.length_cons]; have := ih h; omega

theorem length_aset {α} (k : Nat) (v v' : α) (l : List (Nat × α)) (h : alookup k l = some v') :
    (aset k v l).length = l.length := by
  induction l with
  | nil => simp [alookup] at h
  | cons p r ih =>
    obtain ⟨a, b⟩ := p
    simp only [aset, alookup] at h ⊢
    by_cases h1 : a = k
    · simp [h1]
    · simp only [h1, if_false] at h ⊢; simp [ih h]

end BbRe.Lemmas.SchedLive
