import BbRe.Model.GoHeap
/-!
Basic facts about the `container/heap` model: `swp` is a transposition (sizes, lookups,
permutation), `lessAt` after a swap, and the abstract (index-level) invariants of the two loops.

The order reasoning is done on the relation `R p q := lessAt less a p q` between *positions*;
a swap of positions `i` and `j` turns `R` into `fun p q => R (tr i j p) (tr i j q)`.
-/
namespace BbRe.Lemmas.GoHeap
open BbRe.GoHeap

variable {α : Type}

/-- The transposition of `i` and `j`. -/
def tr (i j k : Nat) : Nat := if k = i then j else if k = j then i else k

@[simp] theorem size_swp (a : Array α) (i j : Nat) : (swp a i j).size = a.size := by
  unfold swp; split <;> simp

theorem getElem?_swp (a : Array α) (i j k : Nat) (hi : i < a.size) (hj : j < a.size) :
    (swp a i j)[k]? = a[tr i j k]? := by
  unfold swp tr
  rw [dif_pos ⟨hi, hj⟩, Array.getElem?_swap]
  by_cases h1 : k = i
  · subst h1
    by_cases h2 : j = k
    · subst h2; simp
    · simp [h2, Array.getElem?_eq_getElem hj]
  · by_cases h2 : k = j
    · subst h2; simp [h1, Array.getElem?_eq_getElem hi]
    · have h3 : ¬ j = k := fun h => h2 h.symm
      have h4 : ¬ i = k := fun h => h1 h.symm
      simp [h1, h2, h3, h4]

theorem swp_perm (a : Array α) (i j : Nat) : (swp a i j).Perm a := by
  unfold swp
  split
  · exact Array.swap_perm _ _
  · exact Array.Perm.refl _

theorem swp_oob (a : Array α) (i j : Nat) (h : ¬ (i < a.size ∧ j < a.size)) : swp a i j = a := by
  unfold swp; rw [dif_neg h]

theorem lessAt_swp (less : α → α → Bool) (a : Array α) (i j p q : Nat)
    (hi : i < a.size) (hj : j < a.size) :
    lessAt less (swp a i j) p q = lessAt less a (tr i j p) (tr i j q) := by
  unfold lessAt
  rw [getElem?_swp a i j p hi hj, getElem?_swp a i j q hi hj]

theorem lessAt_eq (less : α → α → Bool) (a : Array α) (p q : Nat) (hp : p < a.size) (hq : q < a.size) :
    lessAt less a p q = less a[p] a[q] := by
  unfold lessAt
  rw [Array.getElem?_eq_getElem hp, Array.getElem?_eq_getElem hq]

theorem lessAt_oob_left (less : α → α → Bool) (a : Array α) (p q : Nat) (hp : a.size ≤ p) :
    lessAt less a p q = false := by
  unfold lessAt
  rw [Array.getElem?_eq_none hp]

theorem lessAt_oob_right (less : α → α → Bool) (a : Array α) (p q : Nat) (hq : a.size ≤ q) :
    lessAt less a p q = false := by
  unfold lessAt
  rw [Array.getElem?_eq_none hq]
  split <;> simp_all

/-- A strict weak order on positions `< m` (positions `≥ m` are related to nothing). -/
structure SWOn (R : Nat → Nat → Bool) (m : Nat) : Prop where
  asymm : ∀ x y, R x y = true → R y x = false
  negTrans : ∀ x y z, y < m → R x y = false → R y z = false → R x z = false

theorem SWOn.of_strictWeak {less : α → α → Bool} (sw : StrictWeak less) (a : Array α) :
    SWOn (lessAt less a) a.size := by
  constructor
  · intro x y h
    by_cases hx : x < a.size
    · by_cases hy : y < a.size
      · rw [lessAt_eq less a x y hx hy] at h
        rw [lessAt_eq less a y x hy hx]
        exact sw.asymm _ _ h
      · exact lessAt_oob_left less a y x (Nat.le_of_not_lt hy)
    · exact lessAt_oob_right less a y x (Nat.le_of_not_lt hx)
  · intro x y z hy h1 h2
    by_cases hx : x < a.size
    · by_cases hz : z < a.size
      · rw [lessAt_eq less a x y hx hy] at h1
        rw [lessAt_eq less a y z hy hz] at h2
        rw [lessAt_eq less a x z hx hz]
        exact sw.negTrans _ _ _ h1 h2
      · exact lessAt_oob_right less a x z (Nat.le_of_not_lt hz)
    · exact lessAt_oob_left less a x z (Nat.le_of_not_lt hx)

theorem tr_lt {i j k m : Nat} (hi : i < m) (hj : j < m) (hk : k < m) : tr i j k < m := by
  unfold tr; repeat' split
  all_goals omega

theorem SWOn.swap {R : Nat → Nat → Bool} {m : Nat} (h : SWOn R m) (i j : Nat) (hi : i < m) (hj : j < m) :
    SWOn (fun p q => R (tr i j p) (tr i j q)) m := by
  constructor
  · intro x y hxy; exact h.asymm _ _ hxy
  · intro x y z hy h1 h2
    exact h.negTrans _ (tr i j y) _ (tr_lt hi hj hy) h1 h2

theorem SWOn.irrefl {R : Nat → Nat → Bool} {m : Nat} (h : SWOn R m) (x : Nat) : R x x = false := by
  cases hx : R x x with
  | false => rfl
  | true => have := h.asymm x x hx; simp_all

/-- Transitivity, derived from asymmetry and negative transitivity. -/
theorem SWOn.trans {R : Nat → Nat → Bool} {m : Nat} (h : SWOn R m) (x y z : Nat) (hz : z < m)
    (h1 : R x y = true) (h2 : R y z = true) : R x z = true := by
  cases hxz : R x z with
  | true => rfl
  | false =>
    have h3 : R z y = false := h.asymm _ _ h2
    have := h.negTrans x z y hz hxz h3
    simp_all

end BbRe.Lemmas.GoHeap
