import BbRe.Model.ISC
import BbRe.Lemmas.ISCStoch
/-!
Helper lemmas for C07 (b): the random selection loop of `Select` picks the strategy
whose half-open interval of cumulative probability contains the draw.
-/
namespace BbRe.Lemmas.ISC
open BbRe.ISC

/-- Cumulative probability of the first `k` strategies. -/
def prefixSum (ss : List Strategy) (k : Nat) : Rat := sumRat ((probs ss).take k)

theorem prefixSum_zero (ss : List Strategy) : prefixSum ss 0 = 0 := by simp [prefixSum, sumRat]

theorem prefixSum_cons_succ (a : Strategy) (ss : List Strategy) (k : Nat) :
    prefixSum (a :: ss) (k + 1) = a.prob + prefixSum ss k := by
  simp [prefixSum, probs, sumRat]

theorem prefixSum_mono (ss : List Strategy) (hnn : ∀ s ∈ ss, 0 ≤ s.prob) :
    ∀ i j, i ≤ j → prefixSum ss i ≤ prefixSum ss j := by
  induction ss with
  | nil => intro i j _; simp [prefixSum, probs, sumRat]
  | cons a ss ih =>
    intro i j hij
    cases i with
    | zero =>
      rw [prefixSum_zero]
      exact sumRat_nonneg _ (by
        intro x hx
        have := List.mem_of_mem_take hx
        simp only [probs, List.mem_map] at this
        obtain ⟨s, hs, rfl⟩ := this
        exact hnn s hs)
    | succ i =>
      cases j with
      | zero => omega
      | succ j =>
        rw [prefixSum_cons_succ, prefixSum_cons_succ]
        have := ih (fun s hs => hnn s (by simp [hs])) i j (by omega)
        grind

/-- What `pick` returns: the index `k + i` of a strategy whose interval contains the draw,
or nothing when the draw is at least the total probability. -/
theorem pick_interval (ss : List Strategy) : ∀ (k : Nat) (r : Rat), 0 ≤ r →
    (∀ j s, pick ss k r = some (j, s) →
      ∃ i, j = k + i ∧ ss[i]? = some s ∧ prefixSum ss i ≤ r ∧ r < prefixSum ss (i + 1)) ∧
    (pick ss k r = none → prefixSum ss ss.length ≤ r) := by
  induction ss with
  | nil => intro k r h0; simpa [pick, prefixSum, probs, sumRat] using h0
  | cons a ss ih =>
    intro k r h0
    constructor
    · intro j s h
      unfold pick at h
      split at h
      · rename_i hlt
        simp only [Option.some.injEq, Prod.mk.injEq] at h
        obtain ⟨h1, h2⟩ := h
        subst h1; subst h2
        refine ⟨0, by simp, by simp, ?_, ?_⟩
        · rw [prefixSum_zero]; exact h0
        · rw [prefixSum_cons_succ, prefixSum_zero]; grind
      · rename_i hge
        have h0' : 0 ≤ r - a.prob := by grind
        obtain ⟨i, hj, hs, h1, h2⟩ := (ih (k + 1) (r - a.prob) h0').1 j s h
        refine ⟨i + 1, by omega, by simpa using hs, ?_, ?_⟩
        · rw [prefixSum_cons_succ]; grind
        · rw [prefixSum_cons_succ]; grind
    · intro h
      unfold pick at h
      split at h
      · simp at h
      · rename_i hge
        have h0' : 0 ≤ r - a.prob := by grind
        have := (ih (k + 1) (r - a.prob) h0').2 h
        simp only [List.length_cons]
        rw [prefixSum_cons_succ]; grind

/-- The intervals are disjoint: at most one index can contain the draw. -/
theorem interval_unique (ss : List Strategy) (hnn : ∀ s ∈ ss, 0 ≤ s.prob) (r : Rat) (i j : Nat)
    (hi : prefixSum ss i ≤ r ∧ r < prefixSum ss (i + 1))
    (hj : prefixSum ss j ≤ r ∧ r < prefixSum ss (j + 1)) : i = j := by
  rcases Nat.lt_trichotomy i j with h | h | h
  · have := prefixSum_mono ss hnn (i + 1) j (by omega)
    grind
  · exact h
  · have := prefixSum_mono ss hnn (j + 1) i (by omega)
    grind

end BbRe.Lemmas.ISC
