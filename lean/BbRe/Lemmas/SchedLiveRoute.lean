import BbRe.Lemmas.SchedLiveSpec2
/-!
Routing (C05): `route` is the longest registered prefix with equal platform;
`State.sizes` lists exactly the size classes of the platform queue's size-class
queues; `popDue` picks an earliest due entry (C06).
-/
namespace BbRe.Lemmas.SchedLive
open BbRe.Sched

theorem isPrefixOf'_iff (a b : List Nat) : isPrefixOf' a b = true ↔ ∃ suffix, b = a ++ suffix := by
  induction a generalizing b with
  | nil => simp [isPrefixOf']
  | cons x r ih =>
    cases b with
    | nil => simp [isPrefixOf']
    | cons y r' =>
      simp only [isPrefixOf', Bool.and_eq_true, beq_iff_eq, ih, List.cons_append, List.cons.injEq]
      constructor
      · rintro ⟨rfl, sfx, rfl⟩; exact ⟨sfx, rfl, rfl⟩
      · rintro ⟨sfx, rfl, rfl⟩; exact ⟨rfl, sfx, rfl⟩

/-- the "best so far" fold of `route` -/
def better (best : Option PQ) (p : PQ) : Option PQ :=
  match best with
  | none => some p
  | some b => if p.comps.length > b.comps.length then some p else some b

theorem foldl_better (l : List PQ) (best : Option PQ) :
    (l.foldl better best = none ↔ best = none ∧ l = []) ∧
    (∀ pq, l.foldl better best = some pq →
      (pq ∈ l ∨ best = some pq) ∧ (∀ p ∈ l, p.comps.length ≤ pq.comps.length) ∧
      (∀ b, best = some b → b.comps.length ≤ pq.comps.length)) := by
  induction l generalizing best with
  | nil =>
    simp only [List.foldl_nil, and_true, List.not_mem_nil, false_or, false_implies, implies_true, true_and]
    intro pq h; exact ⟨h, fun b e => by rw [h] at e; injection e with e; subst e; exact Nat.le_refl _⟩
  | cons a r ih =>
    simp only [List.foldl_cons]
    obtain ⟨i1, i2⟩ := ih (better best a)
    constructor
    · rw [i1]; cases best <;> simp [better]; split <;> simp
    · intro pq hpq
      obtain ⟨j1, j2, j3⟩ := i2 pq hpq
      cases hb : best with
      | none =>
        simp only [hb, better] at j1 j3
        refine ⟨?_, ?_, by simp⟩
        · rcases j1 with j1 | j1
          · exact .inl (List.mem_cons_of_mem _ j1)
          · injection j1 with j1; subst j1; exact .inl (List.mem_cons_self ..)
        · intro p hp; rcases List.mem_cons.1 hp with rfl | hp
          · exact j3 _ rfl
          · exact j2 p hp
      | some b =>
        simp only [hb, better] at j1 j3
        by_cases hgt : a.comps.length > b.comps.length
        · simp only [hgt, if_true] at j1 j3
          have ha := j3 a rfl
          refine ⟨?_, ?_, ?_⟩
          · rcases j1 with j1 | j1
            · exact .inl (List.mem_cons_of_mem _ j1)
            · injection j1 with j1; subst j1; exact .inl (List.mem_cons_self ..)
          · intro p hp; rcases List.mem_cons.1 hp with rfl | hp
            · exact ha
            · exact j2 p hp
          · intro b' hb'; injection hb' with hb'; subst hb'; omega
        · simp only [hgt, if_false] at j1 j3
          have hb' := j3 b rfl
          refine ⟨?_, ?_, ?_⟩
          · rcases j1 with j1 | j1
            · exact .inl (List.mem_cons_of_mem _ j1)
            · exact .inr j1
          · intro p hp; rcases List.mem_cons.1 hp with rfl | hp
            · omega
            · exact j2 p hp
          · intro b' e; injection e with e; subst e; exact hb'

theorem route_eq (s : State) (comps : List Nat) (platform : Nat) :
    route s comps platform =
      (s.pqs.filter (fun p => p.platform = platform ∧ isPrefixOf' p.comps comps)).foldl better none := rfl

/-- **Longest-prefix routing.** -/
theorem route_some {s : State} {comps : List Nat} {platform : Nat} {pq : PQ} (h : route s comps platform = some pq) :
    pq ∈ s.pqs ∧ pq.platform = platform ∧ isPrefixOf' pq.comps comps = true ∧
    ∀ p ∈ s.pqs, p.platform = platform → isPrefixOf' p.comps comps = true → p.comps.length ≤ pq.comps.length := by
  rw [route_eq] at h
  obtain ⟨j1, j2, _⟩ := (foldl_better _ none).2 pq h
  have hm : pq ∈ s.pqs.filter (fun p => p.platform = platform ∧ isPrefixOf' p.comps comps) := by
    rcases j1 with j1 | j1
    · exact j1
    · cases j1
  simp only [List.mem_filter, decide_eq_true_eq, Bool.decide_and, Bool.and_eq_true, Bool.decide_eq_true] at hm
  refine ⟨hm.1, hm.2.1, hm.2.2, ?_⟩
  intro p hp h1 h2
  exact j2 p (by simp [List.mem_filter, hp, h1, h2])

theorem route_none {s : State} {comps : List Nat} {platform : Nat} :
    route s comps platform = none ↔ ∀ p ∈ s.pqs, ¬ (p.platform = platform ∧ isPrefixOf' p.comps comps = true) := by
  rw [route_eq, (foldl_better _ none).1]
  simp only [true_and, List.filter_eq_nil_iff, decide_eq_true_eq, Bool.decide_and, Bool.and_eq_true,
    Bool.decide_eq_true]

/-! ### `State.sizes` -/

theorem mem_insertSorted (x y : Nat) (l : List Nat) : y ∈ insertSorted x l ↔ y = x ∨ y ∈ l := by
  induction l with
  | nil => simp [insertSorted]
  | cons a r ih =>
    simp only [insertSorted]
    split
    · simp only [List.mem_cons, ih]; constructor
      · rintro (h | h | h) <;> simp [h]
      · rintro (h | h | h) <;> simp [h]
    · simp

theorem mem_foldl_insertSorted (l : List Scq) (acc : List Nat) (y : Nat) :
    y ∈ l.foldl (fun acc q => insertSorted q.id.sc acc) acc ↔ y ∈ acc ∨ ∃ q ∈ l, q.id.sc = y := by
  induction l generalizing acc with
  | nil => simp
  | cons a r ih =>
    simp only [List.foldl_cons, ih, mem_insertSorted, List.mem_cons]
    constructor
    · rintro ((h | h) | ⟨q, hq, e⟩)
      · exact .inr ⟨a, .inl rfl, h.symm⟩
      · exact .inl h
      · exact .inr ⟨q, .inr hq, e⟩
    · rintro (h | ⟨q, rfl | hq, e⟩)
      · exact .inl (.inr h)
      · exact .inl (.inl e.symm)
      · exact .inr ⟨q, hq, e⟩

/-- the size classes offered to the selector are exactly those of existing size-class queues -/
theorem mem_sizes {s : State} {pq sc : Nat} : sc ∈ s.sizes pq ↔ ∃ q ∈ s.scqs, q.id = ⟨pq, sc⟩ := by
  unfold State.sizes
  rw [mem_foldl_insertSorted]
  simp only [List.not_mem_nil, false_or, List.mem_filter, decide_eq_true_eq]
  constructor
  · rintro ⟨q, ⟨hq, h1⟩, h2⟩; exact ⟨q, hq, by cases hqi : q.id; simp_all⟩
  · rintro ⟨q, hq, e⟩; exact ⟨q, ⟨hq, by rw [e]⟩, by rw [e]⟩

theorem getElem?_mem_sizes {s : State} {pq i sc : Nat} (h : (s.sizes pq)[i]? = some sc) :
    ∃ q ∈ s.scqs, q.id = ⟨pq, sc⟩ := mem_sizes.1 (List.mem_of_getElem? h)

/-! ### `popDue` -/

/-- the fold of `popDue` -/
def earlier (now : Nat) (best : Option CleanupEntry) (e : CleanupEntry) : Option CleanupEntry :=
  if e.deadline ≤ now then
    match best with
    | none => some e
    | some b => if e.deadline < b.deadline then some e else some b
  else best

theorem foldl_earlier (now : Nat) (l : List CleanupEntry) (best : Option CleanupEntry)
    (hb : ∀ b, best = some b → b.deadline ≤ now) :
    (l.foldl (earlier now) best = none ↔ best = none ∧ ∀ e ∈ l, now < e.deadline) ∧
    (∀ x, l.foldl (earlier now) best = some x →
      (x ∈ l ∨ best = some x) ∧ x.deadline ≤ now ∧ (∀ e ∈ l, e.deadline ≤ now → x.deadline ≤ e.deadline) ∧
      (∀ b, best = some b → x.deadline ≤ b.deadline)) := by
  induction l generalizing best with
  | nil =>
    simp only [List.foldl_nil, List.not_mem_nil, false_implies, implies_true, and_true, false_or, true_and]
    intro x hx; exact ⟨hx, hb x hx, fun b e => by rw [hx] at e; injection e with e; subst e; exact Nat.le_refl _⟩
  | cons a r ih =>
    simp only [List.foldl_cons]
    have hb' : ∀ b, earlier now best a = some b → b.deadline ≤ now := by
      intro b e; unfold earlier at e
      split at e
      · split at e
        · injection e with e; subst e; assumption
        · split at e <;> (injection e with e; subst e)
          · assumption
          · exact hb _ rfl
      · exact hb b e
    obtain ⟨i1, i2⟩ := ih (earlier now best a) hb'
    constructor
    · rw [i1]; unfold earlier
      by_cases ha : a.deadline ≤ now
      · simp only [ha, if_true]
        constructor
        · rintro ⟨h, _⟩; cases best <;> simp at h; split at h <;> cases h
        · rintro ⟨_, h⟩; have := h a (List.mem_cons_self ..); omega
      · simp only [ha, if_false, List.mem_cons, forall_eq_or_imp]
        constructor
        · rintro ⟨h1, h2⟩; exact ⟨h1, by omega, h2⟩
        · rintro ⟨h1, _, h2⟩; exact ⟨h1, h2⟩
    · intro x hx
      obtain ⟨j1, j2, j3, j4⟩ := i2 x hx
      refine ⟨?_, j2, ?_, ?_⟩
      · rcases j1 with j1 | j1
        · exact .inl (List.mem_cons_of_mem _ j1)
        · unfold earlier at j1
          split at j1
          · split at j1
            · injection j1 with j1; subst j1; exact .inl (List.mem_cons_self ..)
            · split at j1
              · injection j1 with j1; subst j1; exact .inl (List.mem_cons_self ..)
              · exact .inr j1
          · exact .inr j1
      · intro e he hd
        rcases List.mem_cons.1 he with rfl | he
        · unfold earlier at j4
          simp only [hd, if_true] at j4
          cases hbest : best with
          | none => simp only [hbest] at j4; exact j4 _ rfl
          | some b =>
            simp only [hbest] at j4
            by_cases hlt : e.deadline < b.deadline
            · simp only [hlt, if_true] at j4; exact j4 _ rfl
            · simp only [hlt, if_false] at j4; have := j4 _ rfl; omega
        · exact j3 e he hd
      · intro b hbb
        subst hbb
        unfold earlier at j4
        by_cases ha : a.deadline ≤ now
        · simp only [ha, if_true] at j4
          by_cases hlt : a.deadline < b.deadline
          · simp only [hlt, if_true] at j4; have := j4 _ rfl; omega
          · simp only [hlt, if_false] at j4; exact j4 _ rfl
        · simp only [ha, if_false] at j4; exact j4 _ rfl

theorem popDue_eq (now : Nat) (cs : List CleanupEntry) :
    popDue now cs = match cs.foldl (earlier now) none with
      | none => none
      | some e => some (e, cs.filter (fun x => x ≠ e)) := rfl

/-- **`popDue` facts**: nothing is popped iff nothing is due; a popped entry is in the queue, due,
and no due entry has an earlier deadline; all its copies are removed. -/
theorem popDue_none {now : Nat} {cs : List CleanupEntry} : popDue now cs = none ↔ ∀ e ∈ cs, now < e.deadline := by
  rw [popDue_eq]
  have := (foldl_earlier now cs none (by simp)).1
  cases h : cs.foldl (earlier now) none with
  | none => simp only [true_iff]; exact (this.1 h).2
  | some e =>
    simp only [false_iff, reduceCtorEq]
    intro hall; have := this.2 ⟨rfl, hall⟩; rw [h] at this; cases this

theorem popDue_some {now : Nat} {cs rest : List CleanupEntry} {e : CleanupEntry} (h : popDue now cs = some (e, rest)) :
    e ∈ cs ∧ e.deadline ≤ now ∧ (∀ x ∈ cs, x.deadline ≤ now → e.deadline ≤ x.deadline) ∧
    rest = cs.filter (fun x => x ≠ e) := by
  rw [popDue_eq] at h
  cases hf : cs.foldl (earlier now) none with
  | none => rw [hf] at h; cases h
  | some x =>
    rw [hf] at h; simp only [Option.some.injEq, Prod.mk.injEq] at h
    obtain ⟨rfl, rfl⟩ := h
    obtain ⟨j1, j2, j3, _⟩ := (foldl_earlier now cs none (by simp)).2 x hf
    refine ⟨?_, j2, j3, rfl⟩
    rcases j1 with j1 | j1
    · exact j1
    · cases j1

end BbRe.Lemmas.SchedLive
