import BbRe.Lemmas.FilePoolOps
/-!
`WriteAt` (loop and size update), and the read-only operations, against the
accounting invariant `Part`.
-/
namespace BbRe.Lemmas.FilePool
open BbRe.FilePool

theorem SameMeta.trans {a b c : File} (h1 : SameMeta a b) (h2 : SameMeta b c) : SameMeta a c :=
  ⟨h2.1.trans h1.1, h2.2.1.trans h1.2.1, h2.2.2.trans h1.2.2⟩

theorem writeLoop_part {O : Nat → Prop} {c : Cfg} : ∀ (fuel : Nat) (f : File) (e : Env) (p : List Byte)
    (idx endIdx ow : Nat), ow < c.ss → Part c.nsec O e.allocd (nz f.sectors) → e.dfree = false →
    Part c.nsec O (writeLoop c fuel f e p idx endIdx ow).2.1.allocd
        (nz (writeLoop c fuel f e p idx endIdx ow).1.sectors) ∧
      (writeLoop c fuel f e p idx endIdx ow).2.1.dfree = false ∧
      SameMeta f (writeLoop c fuel f e p idx endIdx ow).1 := by
  intro fuel
  induction fuel with
  | zero => intro f e p idx endIdx ow _ hP hd; exact ⟨hP, hd, ⟨rfl, rfl, rfl⟩⟩
  | succ fuel ih =>
    intro f e p idx endIdx ow how hP hd
    have hw := writeToSectors_part p idx endIdx ow how hP hd
    unfold writeLoop
    dsimp only
    split
    · exact ⟨hw.1, hw.2.1, hw.2.2.1⟩
    · split
      · exact ⟨hw.1, hw.2.1, hw.2.2.1⟩
      · have := ih (writeToSectors c f e p idx endIdx ow).1 (writeToSectors c f e p idx endIdx ow).2.1
          (List.drop (writeToSectors c f e p idx endIdx ow).2.2.1 p)
          (idx + (ow + (writeToSectors c f e p idx endIdx ow).2.2.1) / c.ss) endIdx 0 (by omega) hw.1 hw.2.1
        exact ⟨this.1, this.2.1, hw.2.2.1.trans this.2.2⟩

theorem writeAt_part {O : Nat → Prop} {c : Cfg} {f : File} {e : Env} (p : List Byte) (off : Int)
    (hss : 0 < c.ss) (hP : Part c.nsec O e.allocd (nz f.sectors)) (hd : e.dfree = false) :
    Part c.nsec O (writeAt c f e p off).2.1.allocd (nz (writeAt c f e p off).1.sectors) ∧
      (writeAt c f e p off).2.1.dfree = false ∧ (writeAt c f e p off).1.closed = f.closed ∧
      (writeAt c f e p off).1.hole = f.hole := by
  unfold writeAt
  split
  · exact ⟨hP, hd, rfl, rfl⟩
  · split
    · exact ⟨hP, hd, rfl, rfl⟩
    · dsimp only
      have := writeLoop_part (O := O) (c := c) (p.length + 1) f e p (off.toNat / c.ss)
        (min ((off.toNat + p.length + c.ss - 1) / c.ss) f.sectors.length) (off.toNat % c.ss)
        (Nat.mod_lt _ hss) hP hd
      split
      · exact ⟨this.1, this.2.1, this.2.2.2.2, this.2.2.2.1⟩
      · exact ⟨this.1, this.2.1, this.2.2.2.2, this.2.2.2.1⟩

/-! ## read-only operations do not touch the allocator -/

theorem readFromSectors_same (c : Cfg) (f : File) (e : Env) (n idx endIdx ow : Nat) :
    SameAlloc e (readFromSectors c f e n idx endIdx ow).1 := by
  unfold readFromSectors
  split
  · exact readHole_same _ _ _ _
  · dsimp only
    split
    · exact readHole_same _ _ _ _
    · exact devRead_same _ _ _

theorem readLoop_same (c : Cfg) (f : File) : ∀ (fuel : Nat) (e : Env) (n idx endIdx ow : Nat),
    SameAlloc e (readLoop c f fuel e n idx endIdx ow).1 := by
  intro fuel
  induction fuel with
  | zero => intro e n idx endIdx ow; exact SameAlloc.refl e
  | succ fuel ih =>
    intro e n idx endIdx ow
    unfold readLoop
    dsimp only
    have h1 := readFromSectors_same c f e n idx endIdx ow
    split
    · exact h1
    · split
      · exact h1
      · split
        · exact h1
        · exact h1.trans (ih _ _ _ _ _)

theorem readAt_same (c : Cfg) (f : File) (e : Env) (off : Int) (n : Nat) :
    SameAlloc e (readAt c f e off n).1 := by
  unfold readAt
  split
  · exact SameAlloc.refl e
  · split
    · exact SameAlloc.refl e
    · dsimp only
      split
      · exact SameAlloc.refl e
      · exact readLoop_same _ _ _ _ _ _ _ _

theorem seekData_same (c : Cfg) (f : File) (e : Env) (off : Nat) : SameAlloc e (seekData c f e off).1 := by
  unfold seekData
  dsimp only
  have h1 := holeSeek_same e
  split
  · split
    · rename_i heq; rw [heq] at h1; exact h1
    · rename_i heq; rw [heq] at h1; exact h1
  · split
    · exact SameAlloc.refl e
    · split
      · exact SameAlloc.refl e
      · split
        · rename_i heq; rw [heq] at h1; exact h1
        · rename_i heq; rw [heq] at h1; exact h1

theorem seekHoleLoop_same (c : Cfg) (f : File) : ∀ (fuel : Nat) (e : Env) (off : Nat),
    SameAlloc e (seekHoleLoop c f fuel e off).1 := by
  intro fuel
  induction fuel with
  | zero => intro e off; exact SameAlloc.refl e
  | succ fuel ih =>
    intro e off
    unfold seekHoleLoop
    dsimp only
    generalize seekHoleAdvance c f off = a
    have h1 := holeSeek_same e
    split
    · exact SameAlloc.refl e
    · split
      · rename_i heq; rw [heq] at h1; exact h1
      · rename_i e1 heq; rw [heq] at h1
        split
        · exact h1
        · split
          · exact h1
          · exact h1.trans (ih _ _)

theorem seek_same (c : Cfg) (f : File) (e : Env) (off : Int) (data : Bool) :
    SameAlloc e (seek c f e off data).1 := by
  unfold seek
  split
  · exact SameAlloc.refl e
  · split
    · exact SameAlloc.refl e
    · split
      · exact seekData_same _ _ _ _
      · exact seekHoleLoop_same _ _ _ _ _

end BbRe.Lemmas.FilePool
