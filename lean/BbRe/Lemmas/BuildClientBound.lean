import BbRe.Lemmas.BuildClientFrame
/-!
`schedulerMayThinkExecutingUntil` never exceeds the largest synchronization
time the scheduler ever promised plus one minute (`BoundInv`).
-/
namespace BbRe.Lemmas.BuildClient
open BbRe.BuildClient

/-- The may-think bound never exceeds the largest promised synchronization time
plus one minute. -/
def BoundInv (s : State) : Prop :=
  s.nextSync ≤ s.maxSync ∧ ∀ t, s.mayThink = some t → t ≤ s.maxSync + 60

@[simp] theorem retRun_b (s : State) (a b : Bool) : BoundInv (retRun s a b) ↔ BoundInv s := Iff.rfl
@[simp] theorem sendReq_b (s : State) (rc : Bool) : BoundInv (sendReq s rc) ↔ BoundInv s := Iff.rfl
theorem touch_b (s : State) (h : s.nextSync ≤ s.maxSync) : BoundInv (touch s) := by
  refine ⟨h, ?_⟩
  intro t ht; simp [touch] at ht ⊢; omega
@[simp] theorem afterReady_b (s : State) (rc : Bool) : BoundInv (afterReady s rc) ↔ BoundInv s := by
  unfold afterReady; split <;> exact Iff.rfl
theorem finishStop_b (s : State) (k : DrainFor) (h : BoundInv s) : BoundInv (finishStop s k) := by
  cases k with
  | idle => exact ⟨h.1, by simp [finishStop, retRun]⟩
  | start d => simp only [finishStop, retRun_b]; exact touch_b _ h.1
theorem stopThen_b (s : State) (k : DrainFor) (h : BoundInv s) : BoundInv (stopThen s k) := by
  unfold stopThen; split
  · exact h
  · exact finishStop_b s k h

theorem bound_set {s : State} (h : BoundInv s) (ts : Nat) (r : Option Reply) :
    BoundInv { s with nextSync := ts, maxSync := max s.maxSync ts, lastReply := r } := by
  refine ⟨by simp; omega, ?_⟩
  intro t ht
  have := h.2 t ht
  simp; omega

/-- The part of `reply` after the conditional touch. -/
def replyBody (s1 : State) (ce : Bool) (r : Reply) : Option State :=
  match r with
  | .rpcError => some (retRun s1 false true)
  | .reply none _ => some (retRun s1 false true)
  | .reply (some ts) d =>
    let s2 := { s1 with nextSync := ts, maxSync := max s1.maxSync ts }
    match d with
    | .execute (.ok dg) => some (stopThen s2 (.start dg))
    | .execute _ => some (retRun s2 false true)
    | .idle => some (stopThen s2 .idle)
    | .unknown => some (retRun s2 false true)
    | .none =>
      if ce then some (retRun (touch s2) false false)
      else some (retRun { s2 with mayThink := none } true false)

theorem reply_eq (s : State) (r : Reply) :
    reply s r = match s.pc with
      | .sync ce => replyBody (if s.mayThink.isNone then touch { s with lastReply := some r }
          else { s with lastReply := some r }) ce r
      | _ => none := by
  unfold reply
  cases s.pc <;> rfl

theorem bound_replyBody {s1 s' : State} (h1 : BoundInv s1) (ce : Bool) (r : Reply)
    (hs : replyBody s1 ce r = some s') : BoundInv s' := by
  have h2 : ∀ ts, BoundInv { s1 with nextSync := ts, maxSync := max s1.maxSync ts } :=
    fun ts => bound_set h1 ts s1.lastReply
  unfold replyBody at hs
  cases r with
  | rpcError => simp at hs; subst hs; simpa using h1
  | reply ts d =>
    cases ts with
    | none => simp at hs; subst hs; simpa using h1
    | some ts =>
      cases d with
      | none =>
        simp at hs
        split at hs <;> simp at hs <;> subst hs
        · simp only [retRun_b]; exact touch_b _ (h2 ts).1
        · simp only [retRun_b]; exact ⟨(h2 ts).1, by simp⟩
      | idle => simp at hs; subst hs; exact stopThen_b _ _ (h2 ts)
      | unknown => simp at hs; subst hs; simpa using h2 ts
      | execute e =>
        cases e with
        | ok dg => simp at hs; subst hs; exact stopThen_b _ _ (h2 ts)
        | badSuffix dg => simp at hs; subst hs; simpa using h2 ts
        | badDigestFunction dg => simp at hs; subst hs; simpa using h2 ts

theorem bound_reply {s s' : State} (h : BoundInv s) (r : Reply) (hs : reply s r = some s') :
    BoundInv s' := by
  rw [reply_eq] at hs
  split at hs
  · rename_i ce _
    apply bound_replyBody _ ce r hs
    split
    · exact touch_b _ h.1
    · exact h
  · simp at hs

macro "bound_tac" : tactic =>
  `(tactic| (intro hs
             (repeat' (split at hs))
             all_goals (try (simp at hs))
             all_goals (try (obtain ⟨_, hs⟩ := hs))
             all_goals (try (subst hs))
             all_goals (try (intro hb))
             all_goals (try (first
               | (exact hb)
               | (simpa using hb)
               | (exact finishStop_b _ _ hb)
               | simp_all))))

theorem bound_step? {s s' : State} (ev : Ev) :
    step? s ev = some s' → BoundInv s → BoundInv s' := by
  cases ev with
  | runBegin => simp only [step?, runBegin]; bound_tac
  | readyResult ok => simp only [step?, readyResult]; bound_tac
  | wakeTimer => simp only [step?, wakeTimer]; bound_tac
  | wakeUpdate c =>
    intro hs hb
    obtain ⟨rc, e, hpc, hc, rfl⟩ := wakeUpdate_eq (by simpa [step?] using hs)
    simp only [sendReq_b]
    have hcb : BoundInv (consumed s e c) := by
      unfold consumed; simp only; split <;> exact hb
    split
    · rename_i hlt
      refine ⟨?_, hcb.2⟩
      have := hcb.1
      simp only; omega
    · exact hcb
  | reply r => intro hs hb; exact bound_reply hb r (by simpa [step?] using hs)
  | drainRecv => simp only [step?, drainRecv]; bound_tac
  | drainDone => simp only [step?, drainDone]; bound_tac
  | cancel => simp only [step?]; bound_tac
  | tick n => simp only [step?]; bound_tac
  | emit u => simp only [step?, emit]; bound_tac
  | finish r => simp only [step?, finish]; bound_tac
  | close => simp only [step?, close]; bound_tac

theorem bound_step {s : State} (ev : Ev) (h : BoundInv s) : BoundInv (step s ev) := by
  unfold step
  cases hs : step? s ev with
  | none => simpa using h
  | some s' => simpa using bound_step? ev hs h

theorem bound_run {s : State} (evs : List Ev) (h : BoundInv s) : BoundInv (run s evs) := by
  induction evs generalizing s with
  | nil => exact h
  | cons ev t ih => exact ih (bound_step ev h)

theorem bound_reachable (t0 : Nat) (evs : List Ev) : BoundInv (run (init t0) evs) :=
  bound_run evs ⟨by simp [init], by simp [init]⟩

end BbRe.Lemmas.BuildClient
