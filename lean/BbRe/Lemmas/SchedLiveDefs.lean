import BbRe.Lemmas.SchedLiveBasic
/-!
Names for sub-terms of the definitions of `Model/Sched.lean` and equational lemmas
that restate the model's definitions through them.  Nothing here changes the model.
-/
namespace BbRe.Lemmas.SchedLive
open BbRe.Sched

/-- explore every path of a monadic definition unfolded in hypothesis `h`, dropping failing paths -/
macro "paths" h:ident : tactic => `(tactic| (
  simp only [bind, Except.bind, pure, Except.pure] at $h:ident
  repeat' split at $h:ident
  all_goals first
    | (simp at $h:ident; done)
    | (exfalso; exact ‹∀ _, some _ = some _ → False› _ rfl)
    | (exfalso; exact absurd ‹throw _ = Except.ok _› (by simp))
    | skip ))

/-- result of `assignTo` -/
def assignS (s : State) (w : Worker) (t : Task) : State :=
  { ((s.setWorker { w with task := some t.id }).setTask
      { t with worker := some (w.scq, w.id), retry := 0, queued := false }) with
    assigned := (w.scq, w.id, t.id) :: s.assigned }

/-- the task after the "assigned to a temporary worker / detached from the real worker" prefix of `complete` -/
def detachT (t : Task) : Task :=
  { (if t.worker.isNone then bumpGen { t with queued := false, retry := 0 } else t) with worker := none }

/-- the state after clearing the worker's `currentTask` in `complete` -/
def detachW (s : State) (t : Task) : State :=
  match t.worker with
  | some (q, w) => match s.worker? q w with
    | some wk => s.setWorker { wk with task := none }
    | none => s
  | none => s

def dropDedup (s : State) (t : Task) : State :=
  if alookup t.dkey s.dedup = some t.id then { s with dedup := aerase t.dkey s.dedup } else s

/-- one iteration of `complete.finishOps` -/
def finishOp (s : State) (o : Nat) : State :=
  match s.op? o with
  | some op => if op.mayExistWithoutWaiters
      then maybeStartCleanup (s.setOp { op with mayExistWithoutWaiters := false }) o else s
  | none => s

theorem finishOps_nil (s : State) : complete.finishOps s [] = s := rfl
theorem finishOps_cons (s : State) (o : Nat) (l : List Nat) :
    complete.finishOps s (o :: l) = complete.finishOps (finishOp s o) l := rfl

/-- `complete.finalize` as a pure function -/
def finalizeS (s : State) (t : Task) (r : Resp) : State :=
  complete.finishOps ((dropDedup s t).setTask (bumpGen { t with response := some r })) t.ops

theorem finalize_eq (s : State) (t : Task) (r : Resp) : complete.finalize s t r = .ok (finalizeS s t r) := rfl

/-- the background task and operation created by a successful completion -/
def bgTask (s : State) (t : Task) (bq : ScqId) (bl : Nat) : Task :=
  { id := s.nextTask, digest := t.digest, dkey := t.dkey, doNotCache := true, scq := bq, ops := [s.nextOp],
    worker := none, retry := 0, response := none, gen := 0, learner := some bl, background := true, queued := false }
def bgOp (s : State) (pq : PQ) : Op :=
  { name := s.nextOp, task := s.nextTask, inv := [0], prio := pq.bgPrio, waiters := 0, mayExistWithoutWaiters := true }
def bgState (s : State) (t : Task) (bq : ScqId) (bl : Nat) (pq : PQ) : State :=
  ({ s with nextTask := s.nextTask + 1, nextOp := s.nextOp + 1 }.setTask (bgTask s t bq bl)).setOp (bgOp s pq)

def bumpLearner (s : State) : State := { s with nextLearner := s.nextLearner + 1 }

/-- events addressed to a client stream (`msg`, `ret`) as opposed to workers / analyzers / operators -/
def isClientEv : Event → Bool
  | .msg .. => true
  | .ret .. => true
  | _ => false

/-- state after the final completion in the success branch of `complete` (`ev` = the learner event) -/
def succS (s : State) (t : Task) (ev : Event) (r : Resp) : State :=
  finalizeS (emit s ev) { t with learner := none } r

/-- success branch of `complete` (after the detach prefix): `s`, `t` are the detached state / task -/
def completeSucc (h : Hints) (s : State) (t : Task) (learner : Nat) (r : Resp) : M State := do
    let s := emit s (.learnerSucceeded learner (if h.bg.isSome then some s.nextLearner else none))
    let t := { t with learner := none }
    let s := finalizeS s t r
    match h.bg with
    | none => return s
    | some bgIdx =>
      let bl := s.nextLearner
      let s := { s with nextLearner := bl + 1 }
      let some pq := s.pq? t.scq.pq | throw "complete: no platform queue"
      if pq.bgMax = 0 then return emit s (.learnerAbandoned bl)
      let sizes := s.sizes t.scq.pq
      let some bsc := sizes[min bgIdx (sizes.length - 1)]? | throw "platform queue without size classes"
      let bq : ScqId := ⟨t.scq.pq, bsc⟩
      if countQueuedBackground s bq ≥ pq.bgMax then return emit s (.learnerAbandoned bl)
      schedule h (bgState s t bq bl pq) s.nextTask

/-- state and task handed to `schedule` in the retry branch -/
def retryS (s : State) (l : Nat) (r : Resp) : State :=
  emit (bumpLearner s) (.learnerFailed l (r.code = cDeadlineExceeded) (some s.nextLearner))
def retryT (s : State) (t : Task) (l : Nat) (r : Resp) : Task :=
  { t with learner := some s.nextLearner, scq := largestScq (retryS s l r) t.scq }

/-- retry branch of `complete` -/
def completeRetry (h : Hints) (s : State) (t : Task) (learner : Nat) (r : Resp) : M State := do
    let nl := s.nextLearner
    let s := emit { s with nextLearner := nl + 1 } (.learnerFailed learner (r.code = cDeadlineExceeded) (some nl))
    let t := { t with learner := some nl, scq := largestScq s t.scq }
    let s := s.setTask t
    let s ← schedule h s t.id
    let some t := s.task? t.id | throw "complete: task vanished"
    return s.setTask (bumpGen t)

/-! ### pieces of the cleanup callbacks -/

def eraseOp (s : State) (o : Nat) : State := { s with ops := aerase o s.ops }

/-- tail of `removeOp`: drop `o` from the task's operation list; drop the task with its last operation -/
def dropOpT (s : State) (t : Task) (o : Nat) : State :=
  if (t.ops.filter (· ≠ o)).isEmpty then { s with tasks := aerase t.id s.tasks }
  else s.setTask { t with ops := t.ops.filter (· ≠ o) }

/-- tail of `removeScq` -/
def dropScq (s : State) (q : ScqId) : State :=
  if (s.scqs.filter (fun x => x.id ≠ q)).any (fun x => x.id.pq = q.pq)
  then { s with scqs := s.scqs.filter (fun x => x.id ≠ q) }
  else { s with scqs := s.scqs.filter (fun x => x.id ≠ q), pqs := s.pqs.filter (fun p => p.id ≠ q.pq) }

def filterWorkers (s : State) (q : ScqId) (w : WId) : State :=
  { s with workers := s.workers.filter (fun x => ¬ (x.scq = q ∧ x.id = w)) }

/-- tail of `removeStaleWorker` -/
def dropWorker (s : State) (q : ScqId) (w : WId) (rt : Nat) : State :=
  match (filterWorkers s q w).scq? q with
  | some sq =>
    if !(filterWorkers s q w).workers.any (fun x => x.scq = q) ∧ sq.mayBeRemoved
    then (filterWorkers s q w).addCleanup (rt + s.cfg.pqTimeout) (.scq q) else filterWorkers s q w
  | none => filterWorkers s q w

def setCleanup (s : State) (cs : List CleanupEntry) : State := { s with cleanup := cs }
def setNow (s : State) (t : Nat) : State := { s with now := t }

/-- the callback of one cleanup entry -/
def callback (h : Hints) (s : State) (e : CleanupEntry) : M State :=
  match e.kind with
  | .worker q w => removeStaleWorker h s q w e.deadline
  | .op o => removeOp h s o
  | .scq q => removeScq h s q

theorem runCleanup_zero (h : Hints) (s : State) : runCleanup h 0 s = pure s := rfl
theorem runCleanup_succ (h : Hints) (f : Nat) (s : State) :
    runCleanup h (f + 1) s =
      match popDue s.now s.cleanup with
      | none => pure s
      | some (e, rest) => callback h (setCleanup s rest) e >>= runCleanup h f := by
  rw [runCleanup]
  cases popDue s.now s.cleanup with
  | none => rfl
  | some p => obtain ⟨e, rest⟩ := p; cases e with | mk d k => cases k <;> rfl

/-! ### pieces of the stream functions -/

def dropStream (s : State) (c : Nat) : State := { s with streams := s.streams.filter (fun x => x.client ≠ c) }

def sendDone (s : State) (c o : Nat) (op : Op) (t : Task) (r : Resp) : State :=
  maybeStartCleanup ((emit (emit (dropStream s c) (.msg c o t.stage true r.code r.tok)) (.ret c cOK)).setOp
    { op with waiters := op.waiters - 1 }) o

def addStream (s : State) (st : Stream) : State := { s with streams := st :: s.streams }

def sendPark (s : State) (c o : Nat) (t : Task) : State :=
  addStream (emit (dropStream s c) (.msg c o t.stage false 0 0)) ⟨c, o, t.gen, s.now + s.cfg.updateInterval⟩

def attachS (s : State) (o : Nat) (op : Op) : State :=
  (s.removeCleanup (.op o)).setOp { op with waiters := op.waiters + 1 }

def leaveS (s : State) (c : Nat) (st : Stream) (op : Op) (code : Nat) : State :=
  emit (maybeStartCleanup ((dropStream s c).setOp { op with waiters := op.waiters - 1 }) st.op) (.ret c code)

/-! ### pieces of `execArrive` -/

/-- a further operation (other invocation) on an in-flight task -/
def addOpS (s : State) (tid : Nat) (t : Task) (inv : List Nat) (prio : Int) : State :=
  ({ s with nextOp := s.nextOp + 1 }.setOp
      { name := s.nextOp, task := tid, inv := inv, prio := prio, waiters := 0, mayExistWithoutWaiters := false }).setTask
    { t with ops := t.ops ++ [s.nextOp] }

def newTask (s : State) (digest dkey : Nat) (dnc : Bool) (q : ScqId) : Task :=
  { id := s.nextTask, digest := digest, dkey := dkey, doNotCache := dnc, scq := q, ops := [s.nextOp], worker := none,
    retry := 0, response := none, gen := 0, learner := some s.nextLearner, background := false, queued := false }

def newOp (s : State) (inv : List Nat) (prio : Int) : Op :=
  { name := s.nextOp, task := s.nextTask, inv := inv, prio := prio, waiters := 0, mayExistWithoutWaiters := false }

/-- the state after `Execute` created a task and its first operation -/
def newTaskS (s : State) (digest dkey : Nat) (dnc : Bool) (q : ScqId) (inv : List Nat) (prio : Int) : State :=
  ((if dnc then
      { (emit { s with nextLearner := s.nextLearner + 1 } (.selSelect s.nextLearner)) with
        nextTask := s.nextTask + 1, nextOp := s.nextOp + 1 }
    else
      { (emit { s with nextLearner := s.nextLearner + 1 } (.selSelect s.nextLearner)) with
        nextTask := s.nextTask + 1, nextOp := s.nextOp + 1, dedup := aset dkey s.nextTask s.dedup }).setTask
    (newTask s digest dkey dnc q)).setOp (newOp s inv prio)

/-! ### pieces of the worker functions -/

def parkS (s : State) (wk : Worker) : State :=
  s.setWorker { wk with parked := true, woken := false, timer := some (wk.timer.getD (s.now + s.cfg.idleInterval)) }

def drainWaitS (s : State) (wk : Worker) (sq : Scq) : State :=
  s.setWorker { wk with drainWait := some sq.undrainGen, timer := some (wk.timer.getD (s.now + s.cfg.idleInterval)) }

def addScq (s : State) (q : ScqId) : State :=
  { s with scqs := s.scqs ++ [{ id := q, mayBeRemoved := true, drains := [], undrainGen := 0 }] }

def addPqScq (s : State) (q : ScqId) (comps : List Nat) (platform : Nat) : State :=
  { s with pqs := s.pqs ++ [{ id := q.pq, comps := comps, platform := platform, bgMax := 0, bgPrio := 0 }],
           scqs := s.scqs ++ [{ id := q, mayBeRemoved := true, drains := [], undrainGen := 0 }] }

def addWorker (s : State) (q : ScqId) (w : WId) : State :=
  { s with workers := s.workers ++ [{ scq := q, id := w, task := none, terminating := false, parked := false, woken := false, inSync := true, drainWait := none, timer := none }] }

def addTerm (s : State) (tc : TermCall) : State := { s with terms := tc :: s.terms }
def dropTerm (s : State) (id : Nat) : State := { s with terms := s.terms.filter (fun t => t.id ≠ id) }

/-- `complete` restated: lookup, COMPLETED short-cut, detach prefix, three-way split. -/
theorem complete_eq (h : Hints) (s : State) (tid : Nat) (r : Resp) (bw : Bool) :
    complete h s tid r bw =
      match s.task? tid with
      | none => throw "complete: no task"
      | some t =>
        if t.response.isSome then pure s else
        match t.learner with
        | none => throw "complete: task without learner"
        | some l =>
          if r.code = cOK ∧ r.exit = 0 then completeSucc h (detachW s t) (detachT t) l r
          else if bw then
            if h.retry then completeRetry h (detachW s t) (detachT t) l r
            else pure (finalizeS (emit (detachW s t) (.learnerFailed l (r.code = cDeadlineExceeded) none)) { detachT t with learner := none } r)
          else pure (finalizeS (emit (detachW s t) (.learnerAbandoned l)) { detachT t with learner := none } r) := by
  unfold complete
  cases s.task? tid with
  | none => rfl
  | some t =>
    obtain ⟨id, digest, dkey, dnc, scq, ops, worker, retry, response, gen, learner, bg, queued⟩ := t
    cases response with
    | some r' => rfl
    | none =>
      cases learner with
      | none => cases worker <;> rfl
      | some l =>
        cases worker with
        | none => rfl
        | some qw => obtain ⟨q, w⟩ := qw; rfl

end BbRe.Lemmas.SchedLive
