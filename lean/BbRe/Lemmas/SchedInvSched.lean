import BbRe.Lemmas.SchedInvPrim
/-!
`assignTo`, `wakeWorker`, `task.schedule`, `finishOps`.
-/
namespace BbRe.Lemmas.SchedInv
open BbRe.Sched

/-- bring every field of a `Core` fact into the context -/
syntax "core_facts " term : tactic
set_option hygiene false in
macro_rules
  | `(tactic| core_facts $hc) => `(tactic| (
      have h_tnd := ($hc).tnd; have h_tid := ($hc).tid; have h_wnd := ($hc).wnd; have h_dnd := ($hc).dnd
      have h_p1 := ($hc).p1; have h_p2 := ($hc).p2; have h_p3 := ($hc).p3
      have h_q1 := ($hc).q1; have h_q2 := ($hc).q2
      have h_d1 := ($hc).d1; have h_d2 := ($hc).d2; have h_bg := ($hc).bg
      have h_l1 := ($hc).l1; have h_l2 := ($hc).l2; have h_l3 := ($hc).l3
      have h_w1 := ($hc).w1; have h_w2 := ($hc).w2; have h_w3 := ($hc).w3))

def assignSt (s : State) (w : Worker) (t : Task) : State :=
  { (s.setWorker { w with task := some t.id }).setTask
      { t with worker := some (w.scq, w.id), retry := 0, queued := false } with
    assigned := (w.scq, w.id, t.id) :: s.assigned }

theorem assignTo_eq (s : State) (w : Worker) (t : Task) :
    assignTo s w t = if w.task.isSome then .error "Worker is already associated with a task"
      else if t.worker.isSome then .error "Task is already associated with a worker"
      else .ok (assignSt s w t) := by
  unfold assignTo
  split
  · rfl
  · split
    · rfl
    · rfl

theorem assignSt_core {ex} {s : State} {w : Worker} {t : Task}
    (hc : Core ex s.tasks s.workers s.dedup s.nextTask s.nextLearner)
    (hw : wfind s.workers w.scq w.id = some w) (hwt : w.task = none) (hwp : w.parked = false)
    (hwd : w.drainWait = none) (ht : alookup t.id s.tasks = some t) (hr : t.response = none)
    (htw : t.worker = none) :
    Core (fun k => ex k ∧ k ≠ t.id) (assignSt s w t).tasks (assignSt s w t).workers s.dedup s.nextTask
      s.nextLearner := by
  simp only [assignSt, State.setTask, setWorker_eq]
  core_facts hc
  constructor <;> grind


theorem assignSt_inv {ex exo} {s : State} {w : Worker} {t : Task} (hI : InvX ex exo s)
    (hw : wfind s.workers w.scq w.id = some w) (hwt : w.task = none) (hwp : w.parked = false)
    (hwd : w.drainWait = none) (ht : alookup t.id s.tasks = some t) (hr : t.response = none)
    (htw : t.worker = none) : InvX (fun k => ex k ∧ k ≠ t.id) exo (assignSt s w t) := by
  refine ⟨assignSt_core hI.core hw hwt hwp hwd ht hr htw, ?_, hI.sinv, ?_⟩
  · exact hI.oinv.setTask (t := { t with worker := some (w.scq, w.id), retry := 0, queued := false }) ht rfl
  · exact hI.linv.setTask (t := { t with worker := some (w.scq, w.id), retry := 0, queued := false }) ht (Or.inl rfl)

/-! ## `task.schedule` -/

/-- what `schedule h s tid` does to the state (`t` = the task before) -/
structure SchedPost (s : State) (tid : Nat) (t : Task) (s' : State) : Prop where
  same : ∃ ws ts asg, s' = { s with workers := ws, tasks := ts, assigned := asg }
  tk : ∀ k, k ≠ tid → alookup k s'.tasks = alookup k s.tasks
  tt : ∃ t', alookup tid s'.tasks = some t' ∧
        t' = { t with worker := t'.worker, retry := t'.retry, queued := t'.queued } ∧
        (t'.worker.isSome = true ∨ t'.queued = true) ∧
        ∀ q w, t'.worker = some (q, w) → ∃ wk, wfind s.workers q w = some wk ∧ wk.parked = true
  rw : RW s s'
  wex : ∀ q w, (wfind s'.workers q w).isSome = (wfind s.workers q w).isSome
  asg : Ext (fun x => x.2.2 = tid) s.assigned s'.assigned

theorem anyParked_false {s : State} {q : ScqId} (h : anyParked s q = false) :
    ∀ w, w ∈ s.workers → w.scq = q → w.parked = false := by
  intro w hw hq
  unfold anyParked at h
  rw [List.any_eq_false] at h
  have := h w hw
  simp [hq] at this
  simpa using this

theorem hintedWorker_some {h : Hints} {s : State} {t : Task} {w : Worker} (hh : hintedWorker h s t = some w) :
    wfind s.workers w.scq w.id = some w := by
  unfold hintedWorker at hh
  split at hh
  · rename_i a _
    have := wfind_key hh
    rw [this.1, this.2]; exact hh
  · cases hh

theorem wake_inv {ex exo} {s : State} {w : Worker} (hI : InvX ex exo s)
    (hw : wfind s.workers w.scq w.id = some w) (hp : w.parked = true) : InvX ex exo (wakeWorker s w) := by
  refine ⟨?_, hI.oinv, hI.sinv, hI.linv⟩
  simp only [wakeWorker, setWorker_eq]
  have hc := hI.core
  core_facts hc
  constructor <;> grind

theorem schedule_assign_post {s : State} {w : Worker} {t : Task} {tid : Nat} (hid : t.id = tid)
    (hwf : wfind s.workers w.scq w.id = some w) (hp : w.parked = true) :
    SchedPost s tid t (assignSt (wakeWorker s w) { w with parked := false, woken := true } t) := by
  refine ⟨⟨_, _, _, rfl⟩, ?_, ?_, ?_, ?_, ?_⟩
  · intro k hk; simp only [assignSt, State.setTask, setWorker_eq, wakeWorker]; grind
  · refine ⟨{ t with worker := some (w.scq, w.id), retry := 0, queued := false }, ?_, rfl, Or.inl rfl, ?_⟩
    · simp only [assignSt, State.setTask, setWorker_eq, wakeWorker]; grind
    · intro q i hqi; cases hqi; exact ⟨w, hwf, hp⟩
  · intro q i wk hwk hpk
    simp only [assignSt, State.setTask, setWorker_eq, wakeWorker]
    refine ⟨wk, ?_, rfl, Or.inl rfl⟩
    grind
  · intro q i; simp only [assignSt, State.setTask, setWorker_eq, wakeWorker]; grind
  · exact ⟨[(w.scq, w.id, t.id)], rfl, by simp [hid]⟩

theorem schedule_queue_post {s : State} {t : Task} {tid : Nat} (hid : t.id = tid) (htw : t.worker = none) :
    SchedPost s tid t (s.setTask { t with queued := true }) := by
  refine ⟨⟨_, _, _, rfl⟩, ?_, ?_, RW.refl s, fun _ _ => rfl, Ext.refl _ _⟩
  · intro k hk; simp only [State.setTask]; grind
  · refine ⟨{ t with queued := true }, ?_, rfl, Or.inr rfl, ?_⟩
    · simp only [State.setTask]; grind
    · intro q i hqi; simp [htw] at hqi


theorem queue_inv {ex exo} {s : State} {t : Task} {tid : Nat} (hI : InvX ex exo s)
    (ht : alookup tid s.tasks = some t) (hr : t.response = none) (htw : t.worker = none) :
    InvX (fun k => ex k ∧ k ≠ tid) exo (s.setTask { t with queued := true }) := by
  have hid : t.id = tid := (hI.core.tid tid t ht).1
  have ht' : alookup t.id s.tasks = some t := by rw [hid]; exact ht
  refine ⟨?_, ?_, hI.sinv, ?_⟩
  · simp only [State.setTask]
    have hc := hI.core
    core_facts hc
    constructor <;> grind
  · exact hI.oinv.setTask (t := { t with queued := true }) ht' rfl
  · exact hI.linv.setTask (t := { t with queued := true }) ht' (Or.inl rfl)

theorem schedule_spec {ex exo} {h : Hints} {s : State} {tid : Nat} {t : Task} (hI : InvX ex exo s)
    (ht : alookup tid s.tasks = some t) (hr : t.response = none) (htw : t.worker = none) :
    wp (schedule h s tid) (fun s' => InvX (fun k => ex k ∧ k ≠ tid) exo s' ∧ SchedPost s tid t s') := by
  have hid : t.id = tid := (hI.core.tid tid t ht).1
  unfold schedule
  simp only [task?_def, ht]
  split
  · -- somebody is parked
    split
    · rename_i w hh
      have hwf := hintedWorker_some hh
      by_cases hp : w.parked = true
      · simp only [hp, Bool.not_true, Bool.false_eq_true, if_false]
        have hw1 := hI.core.w1 _ _ _ hwf hp
        simp only [wakeWorker, worker?_def, setWorker_eq, wfind_wset, hwf, Option.isSome_some, if_true, and_self]
        rw [assignTo_eq]
        simp only [hw1.1, htw, Option.isSome_none, Bool.false_eq_true, if_false, wp_ok]
        have hI2 := wake_inv hI hwf hp
        have hwf2 : wfind (wakeWorker s w).workers w.scq w.id = some { w with parked := false, woken := true } := by
          simp only [wakeWorker, setWorker_eq]; grind
        have ht2 : alookup t.id (wakeWorker s w).tasks = some t := by rw [hid]; exact ht
        have := assignSt_inv (w := { w with parked := false, woken := true }) hI2 hwf2 hw1.1 rfl hw1.2.1 ht2 hr htw
        rw [hid] at this
        have hp2 := schedule_assign_post hid hwf hp
        simp only [wakeWorker, setWorker_eq, hw1.1] at this hp2
        exact ⟨this, hp2⟩
      · simp only [hp, Bool.not_false, if_true]; okerr
    · okerr
  · -- nobody is parked: enqueue
    simp only [wp_pure]
    exact ⟨queue_inv hI ht hr htw, schedule_queue_post hid htw⟩


/-- bumping the wake-up generation of a task -/
theorem bumpGen_inv {ex exo} {s : State} {t : Task} {tid : Nat} (hI : InvX ex exo s)
    (ht : alookup tid s.tasks = some t) : InvX ex exo (s.setTask (bumpGen t)) := by
  have hid : t.id = tid := (hI.core.tid tid t ht).1
  have ht' : alookup (bumpGen t).id s.tasks = some t := by simp only [bumpGen]; rw [hid]; exact ht
  refine ⟨?_, hI.oinv.setTask (t := bumpGen t) ht' rfl, hI.sinv, hI.linv.setTask (t := bumpGen t) ht' (Or.inl rfl)⟩
  simp only [State.setTask, bumpGen]
  have hc := hI.core
  core_facts hc
  constructor <;> grind

theorem SchedPost.fr {s s' : State} {tid : Nat} {t : Task} (h : SchedPost s tid t s')
    (ht : alookup tid s.tasks = some t) (hr : t.response = none) : Fr s s' := by
  obtain ⟨ws, ts, asg, he⟩ := h.same
  have hnd : ¬ Dead s.tasks s.nextTask tid := by
    intro hd; have := hd.2 t ht; simp [hr] at this
  refine ⟨⟨by rw [he], by rw [he]; exact Nat.le_refl _, by rw [he]; exact Nat.le_refl _,
    by rw [he]; exact Nat.le_refl _, ?_, ?_⟩, by rw [he]; exact Ext.refl _ _⟩
  · intro k hk
    by_cases hkt : k = tid
    · subst hkt; exact absurd hk hnd
    · refine ⟨by rw [he]; exact hk.1, ?_⟩
      rw [h.tk k hkt]; exact hk.2
  · refine h.asg.mono ?_
    intro x hx; rw [hx]; exact hnd

/-! ## `finishOps` -/

/-- one iteration of `finishOps` -/
def fstep (s : State) (o : Nat) : State :=
  match s.op? o with
  | some op => if op.mayExistWithoutWaiters
      then maybeStartCleanup (s.setOp { op with mayExistWithoutWaiters := false }) o else s
  | none => s

theorem finishOps_eq (s : State) (ops : List Nat) : complete.finishOps s ops = ops.foldl fstep s := rfl

theorem fstep_frame {exo ts no} (s : State) (o : Nat) (ho : OInv exo ts s.ops no) :
    ∃ os cl, fstep s o = { s with ops := os, cleanup := cl } ∧ OpsSim s.ops os ∧
      (SInv s.ops s.streams s.cleanup → SInv os s.streams cl) := by
  unfold fstep
  split
  · rename_i op hop
    simp only [op?_def] at hop
    have hop' : alookup op.name s.ops = some op := by rw [(ho.oid o op hop).1]; exact hop
    have hsim : OpsSim s.ops (s.setOp { op with mayExistWithoutWaiters := false }).ops := by
      simp only [State.setOp]
      exact OpsSim.setOp (op' := { op with mayExistWithoutWaiters := false }) hop' rfl rfl rfl rfl
    split
    · rw [maybeStartCleanup_eq]
      refine ⟨_, _, rfl, hsim, ?_⟩
      intro hs
      exact SInv.maybeStartCleanup (s := s.setOp { op with mayExistWithoutWaiters := false }) (hs.sim hsim) o
    · exact ⟨s.ops, s.cleanup, rfl, OpsSim.refl _, id⟩
  · exact ⟨s.ops, s.cleanup, rfl, OpsSim.refl _, id⟩

theorem finishOps_frame {exo ts no} (s : State) (ops : List Nat) (ho : OInv exo ts s.ops no) :
    ∃ os cl, complete.finishOps s ops = { s with ops := os, cleanup := cl } ∧ OpsSim s.ops os ∧
      (SInv s.ops s.streams s.cleanup → SInv os s.streams cl) := by
  rw [finishOps_eq]
  induction ops generalizing s with
  | nil => exact ⟨s.ops, s.cleanup, rfl, OpsSim.refl _, id⟩
  | cons o rest ih =>
    rw [List.foldl_cons]
    obtain ⟨os1, cl1, e1, sim1, inv1⟩ := fstep_frame s o ho
    rw [e1]
    obtain ⟨os2, cl2, e2, sim2, inv2⟩ := ih { s with ops := os1, cleanup := cl1 } (ho.sim sim1)
    rw [e2]
    exact ⟨os2, cl2, rfl, sim1.trans sim2, fun hs => inv2 (inv1 hs)⟩

end BbRe.Lemmas.SchedInv
