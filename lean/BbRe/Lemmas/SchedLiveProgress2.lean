import BbRe.Lemmas.SchedLiveProgress
import BbRe.Lemmas.SchedLiveQuiesce6
/-!
**Progress, general form** (C02 `eventually_done`): the *settling schedule* — every blocked `Synchronize`
call returns and no worker ever calls again, and the clock advances beyond all cleanup deadlines until
no cleanup entry is left — completes every task that can complete at all.
-/
namespace BbRe.Lemmas.SchedLive
open BbRe.Sched

/-- workers stop synchronizing, time passes until nothing is left to clean up -/
def settle (s : State) : State :=
  let b := run s (syncSegs s.now (s.workers.map wkey))
  drain (objCount b + 1) b

theorem run_nil (s : State) : run s [] = s := by simp [run]

theorem run_app (s : State) (a b : List Seg) : run s (a ++ b) = run (run s a) b := by
  induction a generalizing s with
  | nil => rw [List.nil_append, run_nil]
  | cons g r ih => rw [List.cons_append, run_cons, ih, ← run_cons]

/-- `drain f` is a run of at most `f` clock segments -/
theorem drain_is_run : ∀ (f : Nat) (s : State), ∃ gs : List Seg, gs.length ≤ f ∧ drain f s = run s gs ∧
    ∀ g ∈ gs, ∃ T, g = .touch qh T := by
  intro f
  induction f with
  | zero => intro s; exact ⟨[], Nat.le_refl _, by simp [drain, run], by intro g hg; cases hg⟩
  | succ f ih =>
    intro s
    unfold drain
    by_cases he : s.cleanup.isEmpty = true
    · rw [if_pos he]; exact ⟨[], Nat.zero_le _, by simp [run], by intro g hg; cases hg⟩
    · rw [if_neg he]
      obtain ⟨gs, hl, hr, hall⟩ := ih (run s [.touch qh (maxDeadline s + 1)])
      refine ⟨.touch qh (maxDeadline s + 1) :: gs, by simp; omega, by rw [hr, ← run_cons], ?_⟩
      intro g hg
      rcases List.mem_cons.1 hg with rfl | hg
      · exact ⟨_, rfl⟩
      · exact hall g hg

theorem drain_round_r {s : State} (hs : Reachable s) (hne : s.cleanup ≠ []) :
    let s1 := run s [.touch qh (maxDeadline s + 1)]
    Reachable s1 ∧ objCount s1 < objCount s ∧ s1.streams = s.streams ∧ WSub s s1 := by
  simp only
  obtain ⟨hnow, hdl⟩ := maxDeadline_spec s
  obtain ⟨s1, hst, hrun⟩ := touch_ok hs qh (maxDeadline s + 1)
  have hent : enter qh s (maxDeadline s + 1) = .ok s1 := hst
  rw [hrun]
  refine ⟨Reachable.step _ hs hst, ?_, (enter_frame hent).streams, enter_wsub hent⟩
  rcases enter_ok hent with ⟨hle, _⟩ | ⟨_, h1⟩
  · omega
  · have hi0 : KWC noEx (setNow s (maxDeadline s + 1)) :=
      ⟨KWStep.of_same (s := s) rfl rfl rfl rfl rfl rfl (kwc_reachable hs).1,
       (kwc_reachable hs).2.frame (CFrame.of_same rfl rfl rfl rfl rfl)⟩
    obtain ⟨_, hlt⟩ := runCleanup_objCount (cleanupFuel s) _ _ hi0 h1
    have hdue : popDue (setNow s (maxDeadline s + 1)).now (setNow s (maxDeadline s + 1)).cleanup ≠ none := by
      intro hnone
      have := popDue_none.1 hnone
      obtain ⟨e, he⟩ := List.exists_mem_of_ne_nil _ hne
      have h1' := this e he
      have h2' := hdl e he
      simp only [setNow_now] at h1'
      omega
    have := hlt (by unfold cleanupFuel; omega) hdue
    simpa [objCount] using this

theorem drain_spec_r : ∀ (f : Nat) (s : State), Reachable s → objCount s < f →
    Reachable (drain f s) ∧ (drain f s).cleanup = [] ∧ (drain f s).streams = s.streams ∧ WSub s (drain f s) := by
  intro f
  induction f with
  | zero => intro s _ h; omega
  | succ f ih =>
    intro s hq hlt
    unfold drain
    by_cases he : s.cleanup.isEmpty = true
    · rw [if_pos he]
      exact ⟨hq, List.isEmpty_iff.1 he, rfl, WSub.refl s⟩
    · rw [if_neg he]
      have hne : s.cleanup ≠ [] := fun e => he (by rw [e]; rfl)
      obtain ⟨q1, c1, st1, w1⟩ := drain_round_r hq hne
      obtain ⟨q2, c2, st2, w2⟩ := ih _ q1 (by omega)
      exact ⟨q2, c2, st2.trans st1, w1.trans w2⟩

/-- **eventually_done, general form.**  After the settling schedule no worker, no cleanup entry and no
removable queue is left, every parked stream is still parked, and the task it waits for is either completed
— then delivering the stream's wake-up sends `done` — or it is queued, without a worker, and every size-class
queue that still exists is a predeclared one (such a task waits for a worker to appear, by design). -/
theorem settle_spec {s : State} (hs : Reachable s) {c : Nat} {st : Stream}
    (hst : s.streams.find? (fun x => x.client = c) = some st) :
    Reachable (settle s) ∧ (settle s).workers = [] ∧ (settle s).cleanup = [] ∧
    (∀ q sq, (settle s).scq? q = some sq → sq.mayBeRemoved = false) ∧
    (settle s).streams = s.streams ∧
    ∃ op t, (settle s).op? st.op = some op ∧ (settle s).task? op.task = some t ∧
      ((∃ r, t.response = some r ∧
          (run (settle s) [.streamWake qh (settle s).now c 0]).events =
            .ret c cOK :: .msg c st.op 4 true r.code r.tok :: (settle s).events) ∨
       (t.response = none ∧ t.worker = none ∧ t.queued = true)) := by
  unfold settle
  simp only
  obtain ⟨b1, _, _, b4⟩ := sync_all s.now (s.workers.map wkey) s hs rfl
  have hrb : Reachable (run s (syncSegs s.now (s.workers.map wkey))) := reachable_run hs _
  have hwb : ∀ wk ∈ (run s (syncSegs s.now (s.workers.map wkey))).workers, wk.inSync = false := by
    intro wk hm
    cases hi : wk.inSync with
    | false => rfl
    | true =>
      obtain ⟨hnot, x, hx, e, _⟩ := b4 wk hm hi
      exact absurd (e ▸ List.mem_map.2 ⟨x, hx, rfl⟩) hnot
  generalize run s (syncSegs s.now (s.workers.map wkey)) = b at hrb hwb b1
  obtain ⟨d1, d2, d3, d5⟩ := drain_spec_r (objCount b + 1) b hrb (Nat.lt_succ_self _)
  generalize drain (objCount b + 1) b = s' at d1 d2 d3 d5
  have hc := cinv_reachable d1
  have hI := BbRe.Lemmas.SchedInv.inv_reachable d1
  have hno : ∀ k, ¬ hasK s' k := by intro k ⟨e, he, _⟩; rw [d2] at he; cases he
  have hw : s'.workers = [] := by
    cases hl : s'.workers with
    | nil => rfl
    | cons a r =>
      have hm : a ∈ s'.workers := by rw [hl]; exact List.mem_cons_self ..
      have hout : a.inSync = false := by
        obtain ⟨x, hx, _, e⟩ := d5 a hm
        rw [← e]; exact hwb x hx
      exact absurd (hc.wOut a hm hout (by simp [noEx])) (hno _)
  have hstr : s'.streams = s.streams := d3.trans b1
  have hst' : s'.streams.find? (fun x => x.client = c) = some st := by rw [hstr]; exact hst
  refine ⟨d1, hw, d2, ?_, hstr, ?_⟩
  · intro q sq e
    cases hm : sq.mayBeRemoved with
    | false => rfl
    | true =>
      rcases hc.scqW q sq e hm (by simp [noEx]) with ⟨wk, hmw, _⟩ | h
      · rw [hw] at hmw; cases hmw
      · exact absurd h (hno _)
  · obtain ⟨op, t, hop, _, ht⟩ := stream_op_exists d1 (List.mem_of_find?_eq_some hst')
    refine ⟨op, t, hop, ht, ?_⟩
    cases hr : t.response with
    | some r =>
      left
      obtain ⟨s'', op2, t2, r2, hop2, ht2, hr2, hsw, hev⟩ := completed_wakes d1 qh hst'
        (by intro op2 t2 h1 h2; rw [hop] at h1; injection h1 with h1; subst h1
            rw [ht] at h2; injection h2 with h2; subst h2; rw [hr]; rfl)
      rw [hop] at hop2; injection hop2 with hop2; subst hop2
      rw [ht] at ht2; injection ht2 with ht2; subst ht2
      rw [hr] at hr2; injection hr2 with hr2; subst hr2
      refine ⟨r, rfl, ?_⟩
      rw [run_single]
      have : step s' (.streamWake qh s'.now c 0) = .ok s'' := hsw
      rw [this]; exact hev
    | none =>
      right
      have hwn : t.worker = none := by
        cases hwk : t.worker with
        | none => rfl
        | some qw =>
          obtain ⟨q, w⟩ := qw
          obtain ⟨wk, hf, _⟩ := hI.core.p2 _ t q w ht hwk
          rw [hw] at hf; simp [BbRe.Lemmas.SchedInv.wfind] at hf
      refine ⟨rfl, hwn, ?_⟩
      rcases hI.core.q2 _ t ht hr with h | h | h
      · exact h
      · rw [hwn] at h; cases h
      · exact absurd h (fun h => h)

/-- the settling schedule is a run of at most `#workers + objCount + 1` segments -/
theorem settle_bound (s : State) :
    ∃ gs : List Seg, settle s = run s gs ∧
      gs.length ≤ s.workers.length + objCount (run s (syncSegs s.now (s.workers.map wkey))) + 1 := by
  unfold settle
  simp only
  obtain ⟨gs, hl, hr, _⟩ := drain_is_run (objCount (run s (syncSegs s.now (s.workers.map wkey))) + 1)
    (run s (syncSegs s.now (s.workers.map wkey)))
  refine ⟨syncSegs s.now (s.workers.map wkey) ++ gs, by rw [run_app, hr], ?_⟩
  have : (syncSegs s.now (s.workers.map wkey)).length = s.workers.length := by
    simp only [syncSegs, List.length_map]
  rw [List.length_append, this]
  omega

end BbRe.Lemmas.SchedLive
