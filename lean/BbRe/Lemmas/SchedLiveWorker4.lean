import BbRe.Lemmas.SchedLiveWorker3
/-!
Worker invariant through the `Synchronize` family.
-/
namespace BbRe.Lemmas.SchedLive
open BbRe.Sched

/-- the non-parked worker `(q, w)` survives with the same flags; its task pointer is kept or cleared -/
def WKeep (q : ScqId) (w : WId) (s s' : State) : Prop :=
  ∀ wk, s.worker? q w = some wk → wk.parked = false →
    ∃ wk', s'.worker? q w = some wk' ∧ wk'.parked = false ∧ wk'.inSync = wk.inSync ∧ wk'.woken = wk.woken ∧
      wk'.drainWait = wk.drainWait ∧ wk'.terminating = wk.terminating ∧ (wk'.task = wk.task ∨ wk'.task = none)

theorem WKeep.refl (q : ScqId) (w : WId) (s : State) : WKeep q w s s :=
  fun wk h hp => ⟨wk, h, hp, rfl, rfl, rfl, rfl, .inl rfl⟩

theorem WKeep.trans {q : ScqId} {w : WId} {a b c : State} (h1 : WKeep q w a b) (h2 : WKeep q w b c) : WKeep q w a c := by
  intro wk h hp
  obtain ⟨wk1, e1, p1, a1, a2, a3, a4, a5⟩ := h1 wk h hp
  obtain ⟨wk2, e2, p2, b1, b2, b3, b4, b5⟩ := h2 wk1 e1 p1
  refine ⟨wk2, e2, p2, b1.trans a1, b2.trans a2, b3.trans a3, b4.trans a4, ?_⟩
  rcases b5 with b5 | b5
  · rcases a5 with a5 | a5
    · exact .inl (b5.trans a5)
    · exact .inr (b5.trans a5)
  · exact .inr b5

theorem worker?_congr {s s' : State} (h : s'.workers = s.workers) (q : ScqId) (w : WId) :
    s'.worker? q w = s.worker? q w := by simp [State.worker?, h]

theorem WKeep.of_eq {q : ScqId} {w : WId} {s s' : State} (h : s'.workers = s.workers) : WKeep q w s s' := by
  intro wk hh hp; rw [← worker?_congr h] at hh; exact ⟨wk, hh, hp, rfl, rfl, rfl, rfl, .inl rfl⟩

/-- replacing another worker -/
theorem WKeep.setWorker_other {q : ScqId} {w : WId} {s s' : State} {a : Worker}
    (h : s'.workers = (s.setWorker a).workers) (hne : ¬ (a.scq = q ∧ a.id = w)) : WKeep q w s s' := by
  intro wk hh hp
  refine ⟨wk, ?_, hp, rfl, rfl, rfl, rfl, .inl rfl⟩
  rw [worker?_congr h, worker?_setWorker, if_neg hne]; exact hh

theorem schedule_keep {h : Hints} {s s' : State} {tid : Nat} {q : ScqId} {w : WId}
    (hh : schedule h s tid = .ok s') (hn : (s.workers.map wkey).Nodup) : WKeep q w s s' := by
  obtain ⟨t, h0, ⟨_, rfl⟩ | ⟨_, w0, w1, hhw, hpk, hw1, hw1t, htw, rfl⟩⟩ := schedule_ok hh
  · exact WKeep.of_eq rfl
  · have hm := hintedWorker_mem hhw
    have hlk : s.worker? w0.scq w0.id = some w0 := worker?_of_mem hn hm
    have e1 : w1 = { w0 with parked := false, woken := true } := by
      simp only [wakeWorker, worker?_setWorker, and_self, if_true, hlk, Option.map_some, Option.some.injEq] at hw1
      exact hw1.symm
    subst e1
    intro wk hwk hp
    have hne : ¬ (w0.scq = q ∧ w0.id = w) := by
      rintro ⟨rfl, rfl⟩; rw [hlk] at hwk; injection hwk with hwk; subst hwk; rw [hpk] at hp; cases hp
    refine WKeep.setWorker_other (a := { w0 with parked := false, woken := true, task := some t.id }) ?_ hne wk hwk hp
    simp only [assignS_workers, wakeWorker]
    exact setWorker_twice s _ _ rfl

/-- the detach prefix clears the pointer of the worker that runs the task -/
theorem detachW_keep {s : State} {tid : Nat} {t : Task} {q : ScqId} {w : WId} (hw : WInv s)
    (h0 : s.task? tid = some t) :
    WKeep q w s (detachW s t) ∧
    (∀ wk, s.worker? q w = some wk → wk.task = some tid →
      ∀ wk', (detachW s t).worker? q w = some wk' → wk'.task = none) := by
  cases htw : t.worker with
  | none =>
    have e : detachW s t = s := by unfold detachW; simp [htw]
    rw [e]; refine ⟨WKeep.refl _ _ _, ?_⟩
    intro wk hwk htk
    have := (((hw.ok wk (worker?_mem hwk).1).ptr _ htk).2 t h0).1
    rw [htw] at this; cases this
  | some qw =>
    obtain ⟨q0, w0⟩ := qw
    cases hlk : s.worker? q0 w0 with
    | none =>
      have e : detachW s t = s := by unfold detachW; simp [htw, hlk]
      rw [e]; refine ⟨WKeep.refl _ _ _, ?_⟩
      intro wk hwk htk
      obtain ⟨hm, hq, hw'⟩ := worker?_mem hwk
      have := (((hw.ok wk hm).ptr _ htk).2 t h0).1
      rw [htw] at this; simp only [Option.some.injEq, Prod.mk.injEq] at this
      rw [this.1, this.2, hq, hw', hwk] at hlk; cases hlk
    | some wk0 =>
      have e : detachW s t = s.setWorker { wk0 with task := none } := by unfold detachW; simp [htw, hlk]
      rw [e]
      obtain ⟨hm0, hq0, hw0⟩ := worker?_mem hlk
      constructor
      · intro wk hwk hp
        by_cases hk : wk0.scq = q ∧ wk0.id = w
        · have : wk0 = wk := by
            rw [← hq0, ← hw0, hk.1, hk.2, hwk] at hlk; injection hlk with hlk; exact hlk.symm
          subst this
          refine ⟨{ wk0 with task := none }, ?_, hp, rfl, rfl, rfl, rfl, .inr rfl⟩
          rw [worker?_setWorker]; simp only [hk, and_self, if_true, hwk, Option.map_some]
        · refine ⟨wk, ?_, hp, rfl, rfl, rfl, rfl, .inl rfl⟩
          rw [worker?_setWorker]; simp only [hk, if_false]; exact hwk
      · intro wk hwk htk wk' hwk'
        obtain ⟨hm, hq, hw'⟩ := worker?_mem hwk
        have := (((hw.ok wk hm).ptr _ htk).2 t h0).1
        rw [htw] at this; simp only [Option.some.injEq, Prod.mk.injEq] at this
        rw [worker?_setWorker] at hwk'
        have hk : wk0.scq = q ∧ wk0.id = w := by rw [hq0, hw0, this.1, this.2, hq, hw']; exact ⟨rfl, rfl⟩
        simp only [hk, and_self, if_true, hwk, Option.map_some, Option.some.injEq] at hwk'
        subst hwk'; rfl

/-- `complete` keeps every non-parked worker (flags unchanged) and clears the pointer of the worker
that was running the completed task. -/
theorem complete_keep {h : Hints} {s s' : State} {tid : Nat} {r : Resp} {bw : Bool} {q : ScqId} {w : WId}
    (hh : complete h s tid r bw = .ok s') (hw : WInv s) :
    WKeep q w s s' ∧
    (∀ wk, s.worker? q w = some wk → wk.parked = false → wk.task = some tid →
      ∀ wk', s'.worker? q w = some wk' → wk'.task = none) := by
  obtain ⟨t, h0, ⟨hsome, rfl⟩ | ⟨hr, l, _, h1⟩⟩ := complete_ok hh
  · refine ⟨WKeep.refl _ _ _, ?_⟩
    intro wk hwk _ htk
    have := (((hw.ok wk (worker?_mem hwk).1).ptr _ htk).2 t h0).2
    rw [this] at hsome; cases hsome
  · obtain ⟨kd, cd⟩ := detachW_keep (q := q) (w := w) hw h0
    obtain ⟨hd, _⟩ := detachW_winv hw h0
    -- whatever follows the detach prefix keeps `(q, w)` as it is after the prefix
    have rest : WKeep q w (detachW s t) s' := by
      rcases h1 with h1 | h1 | h1
      · obtain ⟨ev, _, rfl | ⟨ev', _, rfl⟩ | ⟨bq, pq, h2, _⟩⟩ := completeSucc_ok h1.2
        · exact WKeep.of_eq (by simp)
        · exact WKeep.of_eq (by simp)
        · exact (WKeep.of_eq (s' := bgState (bumpLearner (succS (detachW s t) (detachT t) ev r))
            { detachT t with learner := none } bq (succS (detachW s t) (detachT t) ev r).nextLearner pq) (by simp)).trans
            (schedule_keep h2 (by simp; exact hd.uniq))
      · obtain ⟨_, _, _, h5⟩ := h1
        obtain ⟨s2, t2, h2, _, rfl⟩ := completeRetry_ok h5
        exact ((WKeep.of_eq (s' := (retryS (detachW s t) l r).setTask (retryT (detachW s t) (detachT t) l r)) (by simp)).trans
          (schedule_keep h2 (by simp; exact hd.uniq))).trans (WKeep.of_eq rfl)
      · obtain ⟨_, _, ev, _, rfl⟩ := h1
        exact WKeep.of_eq (by simp)
    refine ⟨kd.trans rest, ?_⟩
    intro wk hwk hp htk wk' hwk'
    obtain ⟨wk1, e1, p1, _⟩ := kd wk hwk hp
    have hnone := cd wk hwk htk wk1 e1
    obtain ⟨wk2, e2, _, _, _, _, _, t2⟩ := rest wk1 e1 p1
    rw [e2] at hwk'; injection hwk' with hwk'; subst hwk'
    rcases t2 with t2 | t2
    · rw [t2]; exact hnone
    · exact t2

end BbRe.Lemmas.SchedLive
