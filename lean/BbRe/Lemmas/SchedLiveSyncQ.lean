import BbRe.Lemmas.SchedLiveSpec2
/-!
`Synchronize` for a size class that has no queue yet: when it is refused and when it creates the queue.
-/
namespace BbRe.Lemmas.SchedLive
open BbRe.Sched

/-- the refusal condition of `Synchronize` for a new size class `sc` of a known platform queue whose largest
size-class queue is `maxQ` (size class `maxSc`) -/
def refusesSizeClass (maxQ : Scq) (maxSc sc : Nat) : Prop :=
  maxQ.mayBeRemoved = true ∨ maxSc < sc ∨ (0 < maxSc ∧ sc < 1)

/-- `syncQueue` for a size class without a queue, platform queue known -/
theorem syncQueue_known {s : State} {q : ScqId} {comps : List Nat} {pf : Nat} {w : WId} {x : State ⊕ State}
    (hh : syncQueue s q comps pf w = .ok x) (hn : s.scq? q = none) {pq : PQ} (hpq : s.pq? q.pq = some pq) :
    ∃ maxSc maxQ, (s.sizes q.pq).getLast? = some maxSc ∧ s.scq? ⟨q.pq, maxSc⟩ = some maxQ ∧
      (refusesSizeClass maxQ maxSc q.sc → x = .inl (emit s (.syncErr q w cInvalidArgument))) ∧
      (¬ refusesSizeClass maxQ maxSc q.sc → x = .inr (addScq s q)) := by
  unfold syncQueue at hh
  rw [hn] at hh
  simp only [hpq] at hh
  split at hh
  · cases hh
  · rename_i maxSc hl
    split at hh
    · cases hh
    · rename_i maxQ hq
      refine ⟨maxSc, maxQ, hl, hq, ?_⟩
      unfold refusesSizeClass
      by_cases h1 : maxQ.mayBeRemoved = true
      · rw [if_pos h1] at hh; injection hh with hh
        exact ⟨fun _ => hh.symm, fun hc => absurd (Or.inl h1) hc⟩
      · rw [if_neg h1] at hh
        by_cases h2 : q.sc > maxSc
        · rw [if_pos h2] at hh; injection hh with hh
          exact ⟨fun _ => hh.symm, fun hc => absurd (Or.inr (Or.inl h2)) hc⟩
        · rw [if_neg h2] at hh
          by_cases h3 : maxSc > 0 ∧ q.sc < 1
          · rw [if_pos h3] at hh; injection hh with hh
            exact ⟨fun _ => hh.symm, fun hc => absurd (Or.inr (Or.inr h3)) hc⟩
          · rw [if_neg h3] at hh; injection hh with hh
            refine ⟨fun hc => ?_, fun _ => hh.symm⟩
            rcases hc with h | h | h
            · exact absurd h h1
            · exact absurd h h2
            · exact absurd h h3

/-- `syncQueue` for an unknown platform queue creates platform queue and size-class queue -/
theorem syncQueue_unknown {s : State} {q : ScqId} {comps : List Nat} {pf : Nat} {w : WId} {x : State ⊕ State}
    (hh : syncQueue s q comps pf w = .ok x) (hn : s.scq? q = none) (hpq : s.pq? q.pq = none) :
    x = .inr (addPqScq s q comps pf) := by
  rcases syncQueue_ok hh with ⟨⟨_, e⟩, _⟩ | ⟨_, rfl⟩ | ⟨_, ⟨_, e⟩, _⟩ | ⟨_, _, rfl⟩
  · rw [hn] at e; cases e
  · -- the refusal needs a known platform queue
    exfalso
    unfold syncQueue at hh
    rw [hn] at hh; simp only [hpq] at hh
    cases hh
  · rw [hpq] at e; cases e
  · rfl

end BbRe.Lemmas.SchedLive
