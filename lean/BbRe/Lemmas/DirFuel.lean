import BbRe.Lemmas.DirInv
/-!
The fuel of `removeTree` (the work-list form of the recursion
`removeAllChildren` → `postRemoveChildren` → `removeAllChildren`) is always
sufficient: with `removeFuel` the work list is exhausted, more fuel changes
nothing.  (Every step clears one directory; a directory is pushed only when an
entry referring to it is cleared, and cleared entries are gone.)
-/
namespace BbRe.Lemmas.Dir
open BbRe.Dir

theorem sum_map_set {α : Type} (f : α → Nat) : ∀ (l : List α) (i : Nat) (x : α) (h : i < l.length),
    ((l.set i x).map f).sum + f l[i] = (l.map f).sum + f x
  | [], i, x, h => by simp at h
  | a :: l, 0, x, _ => by simp; omega
  | a :: l, i + 1, x, h => by
    have ih := sum_map_set f l i x (by simpa using h)
    simp at ih ⊢
    omega

theorem totalEntries_setDir (s : Store) (d : Nat) (x : Dir) (h : d < s.dirs.length) :
    totalEntries (s.setDir d x) + (s.dir d).entries.length = totalEntries s + x.entries.length := by
  have := sum_map_set (fun y : Dir => y.entries.length) s.dirs d x h
  simpa [totalEntries, Store.dir, List.getElem?_eq_getElem h] using this

theorem totalEntries_of_dirs {s t : Store} (h : s.dirs = t.dirs) : totalEntries s = totalEntries t := by
  simp [totalEntries, h]

theorem totalEntries_clearDir (s : Store) (d : Nat) (del : Bool) :
    totalEntries (clearDir s d del) + (s.dir d).entries.length = totalEntries s := by
  rw [clearDir_eq]
  have hud : (unlinkLeaves s (s.dir d).entries).dirs = s.dirs := unlinkLeaves_dirs s _
  by_cases hd : d < s.dirs.length
  · have h1 := totalEntries_setDir (unlinkLeaves s (s.dir d).entries) d (clearedDir (s.dir d) del) (by rw [hud]; exact hd)
    rw [dir_eq_of_dirs hud d, totalEntries_of_dirs hud] at h1
    simpa [clearedDir] using h1
  · have h2 : (unlinkLeaves s (s.dir d).entries).setDir d (clearedDir (s.dir d) del) = unlinkLeaves s (s.dir d).entries := by
      unfold Store.setDir
      rw [List.set_eq_of_length_le (by rw [hud]; omega)]
    rw [h2, totalEntries_of_dirs hud, dir_default s d (by omega)]
    rfl

theorem length_dirChildren_le (es : List Entry) : (dirChildren es).length ≤ es.length := by
  induction es with
  | nil => simp [dirChildren]
  | cons e rest ih =>
    unfold dirChildren
    cases e.child <;> simp <;> omega

/-- More fuel than `totalEntries + length of the work list` never changes the result. -/
theorem removeTree_fuel : ∀ (n : Nat) (s : Store) (stack : List Nat), totalEntries s + stack.length ≤ n →
    ∀ f1 f2, n ≤ f1 → n ≤ f2 → removeTree f1 s stack = removeTree f2 s stack
  | n, s, [], _, f1, f2, _, _ => by
    cases f1 <;> cases f2 <;> simp [removeTree]
  | 0, s, d :: rest, h, _, _, _, _ => by simp at h
  | n + 1, s, d :: rest, h, f1, f2, h1, h2 => by
    obtain ⟨g1, rfl⟩ : ∃ g, f1 = g + 1 := ⟨f1 - 1, by omega⟩
    obtain ⟨g2, rfl⟩ : ∃ g, f2 = g + 1 := ⟨f2 - 1, by omega⟩
    simp only [removeTree]
    apply removeTree_fuel n
    · have e1 := totalEntries_clearDir s d true
      have e2 := length_dirChildren_le (s.dir d).entries
      simp only [List.length_append, List.length_cons] at h ⊢
      omega
    · omega
    · omega

/-- The fuel handed to `removeTree` by `RemoveAll` / `RemoveAllChildren` / `CreateChildren(overwrite)` suffices. -/
theorem removeFuel_sufficient (s : Store) (stack : List Nat) (extra : Nat) :
    removeTree (removeFuel s stack) s stack = removeTree (removeFuel s stack + extra) s stack :=
  removeTree_fuel (totalEntries s + stack.length) s stack (Nat.le_refl _) _ _
    (by unfold removeFuel; omega) (by unfold removeFuel; omega)

end BbRe.Lemmas.Dir
