import BbRe.Lemmas.FilePoolInv
import BbRe.Lemmas.FilePoolContig
/-!
Every file operation of `Model/FilePool.lean` preserves `Part n O` (allocated
list = this file's sectors ⊎ the other files' sectors `O`) and never double
frees — for every oracle.
-/
namespace BbRe.Lemmas.FilePool
open BbRe.FilePool

/-- What an operation keeps of the file apart from its sector list. -/
def SameMeta (f f' : File) : Prop := f'.size = f.size ∧ f'.hole = f.hole ∧ f'.closed = f.closed

theorem truncateSectors_part {n : Nat} {O : Nat → Prop} {f : File} {e : Env} (k : Nat)
    (hP : Part n O e.allocd (nz f.sectors)) (hd : e.dfree = false) :
    Part n O (truncateSectors f e k).2.allocd (nz (truncateSectors f e k).1.sectors) ∧
      (truncateSectors f e k).2.dfree = false ∧ SameMeta f (truncateSectors f e k).1 ∧
      (truncateSectors f e k).2.dev = e.dev ∧ (truncateSectors f e k).2.faults = e.faults ∧
      (truncateSectors f e k).2.answers = e.answers := by
  unfold truncateSectors
  split
  · dsimp only
    have hsplit : nz f.sectors = nz (f.sectors.take k) ++ nz (f.sectors.drop k) := by
      rw [← nz_append, List.take_append_drop]
    have hnd := hP.nodupF
    rw [hsplit] at hnd
    obtain ⟨hn1, hn2, hn3⟩ := List.nodup_append.mp hnd
    have hsubF : ∀ s ∈ f.sectors.drop k, s ≠ 0 → s ∈ nz f.sectors := by
      intro s hs h0; exact mem_nz.mpr ⟨List.mem_of_mem_drop hs, h0⟩
    have hfl := freeList_spec e (f.sectors.drop k) hP.nodupA
      (fun s hs h0 => (hP.mem s).mpr (Or.inl (hsubF s hs h0))) hn2
    refine ⟨?_, hfl.1.trans hd, ⟨rfl, rfl, rfl⟩, rfl, rfl, rfl⟩
    refine hP.remove hfl.2.1 hfl.2.2 hsubF ?_ ?_
    · exact (nz_sublist (trimZeros_sublist _)).nodup hn1
    · intro s
      rw [mem_nz_trimZeros, hsplit, List.mem_append]
      constructor
      · intro h1
        refine ⟨Or.inl h1, fun ⟨h2, h3⟩ => hn3 s h1 s (mem_nz.mpr ⟨h2, h3⟩) rfl⟩
      · rintro ⟨h1 | h1, h2⟩
        · exact h1
        · exact absurd ⟨(mem_nz.mp h1).1, (mem_nz.mp h1).2⟩ h2
  · exact ⟨hP, hd, ⟨rfl, rfl, rfl⟩, rfl, rfl, rfl⟩

theorem close_part {n : Nat} {O : Nat → Prop} {f : File} {e : Env}
    (hP : Part n O e.allocd (nz f.sectors)) (hd : e.dfree = false) :
    Part n O (close f e).2.1.allocd [] ∧ (close f e).2.1.dfree = false ∧
      (close f e).1.sectors = [] ∧ (close f e).1.closed = true ∧ (close f e).2.1.dev = e.dev := by
  have key : Part n O (if f.sectors.length > 0 then e.freeList f.sectors else e).allocd [] ∧
      (if f.sectors.length > 0 then e.freeList f.sectors else e).dfree = false ∧
      (if f.sectors.length > 0 then e.freeList f.sectors else e).dev = e.dev := by
    split
    · have hfl := freeList_spec e f.sectors hP.nodupA
        (fun s hs h0 => (hP.mem s).mpr (Or.inl (mem_nz.mpr ⟨hs, h0⟩))) hP.nodupF
      refine ⟨?_, hfl.1.trans hd, rfl⟩
      refine hP.remove hfl.2.1 hfl.2.2 (fun s hs h0 => mem_nz.mpr ⟨hs, h0⟩) List.nodup_nil ?_
      intro s
      constructor
      · intro h; cases h
      · rintro ⟨h1, h2⟩; exact absurd ⟨(mem_nz.mp h1).1, (mem_nz.mp h1).2⟩ h2
    · rename_i hlen
      have : f.sectors = [] := by
        cases hs : f.sectors with
        | nil => rfl
        | cons a b => simp [hs] at hlen
      rw [this] at hP
      exact ⟨hP, hd, rfl⟩
  unfold close
  dsimp only
  generalize (if f.sectors.length > 0 then e.freeList f.sectors else e) = e1 at key ⊢
  split
  · exact ⟨key.1, key.2.1, rfl, rfl, key.2.2⟩
  · exact ⟨key.1, key.2.1, rfl, rfl, key.2.2⟩

theorem truncate_part {n : Nat} {O : Nat → Prop} {c : Cfg} {f : File} {e : Env} (size : Int)
    (hP : Part n O e.allocd (nz f.sectors)) (hd : e.dfree = false) :
    Part n O (truncate c f e size).2.1.allocd (nz (truncate c f e size).1.sectors) ∧
      (truncate c f e size).2.1.dfree = false ∧ (truncate c f e size).1.closed = f.closed := by
  unfold truncate
  split
  · exact ⟨hP, hd, rfl⟩
  · dsimp only
    generalize hzr : (if size.toNat % c.ss ≠ 0 ∧ size.toNat < f.size ∧ size.toNat / c.ss < f.sectors.length ∧
        f.sectors.getD (size.toNat / c.ss) 0 ≠ 0 then
        e.devWrite ((f.sectors.getD (size.toNat / c.ss) 0 - 1) * c.ss + size.toNat % c.ss)
          (List.replicate (min (c.ss - size.toNat % c.ss) (f.size - size.toNat)) 0)
        else (e, none)) = zr
    have hs : SameAlloc e zr.1 := by
      rw [← hzr]; split
      · exact devWrite_same _ _ _
      · exact SameAlloc.refl e
    have hP1 : Part n O zr.1.allocd (nz f.sectors) := hs.1 ▸ hP
    have hd1 : zr.1.dfree = false := hs.2.1.trans hd
    split
    · exact ⟨hP1, hd1, rfl⟩
    · generalize (if size.toNat % c.ss = 0 then size.toNat / c.ss else size.toNat / c.ss + 1) = k
      have ht := truncateSectors_part (f := f) (e := zr.1) k hP1 hd1
      split
      · split
        · exact ⟨ht.1, ht.2.1, ht.2.2.1.2.2⟩
        · exact ⟨ht.1, ht.2.1, ht.2.2.1.2.2⟩
      · exact ⟨ht.1, ht.2.1, ht.2.2.1.2.2⟩

theorem want_le_cnt (ow ss cnt m : Nat) (h1 : ow < ss) (h2 : 1 ≤ cnt) (h3 : m ≤ cnt * ss - ow) :
    (ow + m + ss - 1) / ss ≤ cnt := by
  have hss : 0 < ss := by omega
  have h4 : ss ≤ cnt * ss := Nat.le_mul_of_pos_left ss h2
  have h5 : (ow + m + ss - 1) / ss < cnt + 1 := by
    rw [Nat.div_lt_iff_lt_mul hss, Nat.add_mul]
    omega
  omega

theorem readHole_err (e : Env) (h : Hole) (off n : Nat) (x : Err) (hx : (e.readHole h off n).2.2 = some x) :
    x = .internal ∨ x = .hole := by
  unfold Env.readHole at hx
  split at hx
  · dsimp only at hx
    split at hx
    · split at hx
      · simp at hx
      · simp at hx; exact Or.inl hx.symm
    · simp at hx; exact Or.inr hx.symm
  · simp at hx
  · simp at hx

theorem wnsPhases_err (c : Cfg) (h : Hole) (e : Env) (p : List Byte) (first idx ow : Nat) (x : Err)
    (hx : (wnsPhases c h e p first idx ow).2 = some x) : x = .internal ∨ x = .hole ∨ x = .io := by
  unfold wnsPhases at hx
  split at hx
  · rename_i e1 y heq
    simp only [Option.some.injEq] at hx; subst hx
    unfold wnsPhase1 at heq
    dsimp only at heq
    split at heq
    · split at heq
      · rename_i z hz
        simp only [Prod.mk.injEq, Except.error.injEq] at heq
        rcases readHole_err _ _ _ _ _ hz with h1 | h1 <;> simp [← heq.2, h1]
      · split at heq
        · rename_i z hz
          simp only [Prod.mk.injEq, Except.error.injEq] at heq
          split at hz
          · rcases readHole_err _ _ _ _ _ hz with h1 | h1 <;> simp [← heq.2, h1]
          · simp at hz
        · split at heq
          · simp only [Prod.mk.injEq, Except.error.injEq] at heq; simp [← heq.2]
          · simp at heq
    · simp at heq
  · rename_i e1 cur1 heq
    split at hx
    · rename_i e2 y heq2
      simp only [Option.some.injEq] at hx; subst hx
      unfold wnsPhase2 at heq2
      dsimp only at heq2
      split at heq2
      · split at heq2
        · simp only [Prod.mk.injEq, Except.error.injEq] at heq2; simp [← heq2.2]
        · simp at heq2
      · simp at heq2
    · rename_i e2 cur2 heq2
      unfold wnsPhase3 at hx
      dsimp only at hx
      split at hx
      · split at hx
        · rename_i z hz
          simp only [Option.some.injEq] at hx; subst hx
          rcases readHole_err _ _ _ _ _ hz with h1 | h1 <;> simp [h1]
        · split at hx
          · simp only [Option.some.injEq] at hx; simp [← hx]
          · simp at hx
      · simp at hx

theorem wns_error_ne_panic {c : Cfg} {h : Hole} {e e' : Env} {p : List Byte} {idx ow : Nat} {x : Err}
    (hr : writeToNewSectors c h e p idx ow = (e', .error x)) : x ≠ .panic := by
  unfold writeToNewSectors at hr
  split at hr
  · simp only [Prod.mk.injEq, Except.error.injEq] at hr; simp [← hr.2]
  · simp only [Prod.mk.injEq, Except.error.injEq] at hr; simp [← hr.2]
  · dsimp only at hr
    split at hr
    · rename_i e2 y heq2
      simp only [Prod.mk.injEq, Except.error.injEq] at hr
      have := wnsPhases_err _ _ _ _ _ _ _ y (by rw [heq2])
      rcases this with h1 | h1 | h1 <;> simp [← hr.2, h1]
    · simp at hr

theorem nz_grown (secs : List Nat) (k : Nat) : nz (secs ++ List.replicate k 0) = nz secs := by
  rw [nz_append, nz_replicate_zero, List.append_nil]

/-- Appending to a file (`idx ≥ len`): `insertSectorsContiguous` never panics. -/
theorem insert_grown_some (secs : List Nat) (idx first got : Nat) (h : idx ≥ secs.length) :
    ∃ secs', insertSectors (secs ++ List.replicate (idx + got - secs.length) 0) idx first got = some secs' := by
  unfold insertSectors
  have h1 : idx + got ≤ (secs ++ List.replicate (idx + got - secs.length) 0).length := by
    simp; omega
  have h2 := all_zero_of_getD (secs ++ List.replicate (idx + got - secs.length) 0) idx got (by
    intro j _
    rw [getD_append_replicate_zero]
    simp [List.getD_eq_getElem?_getD, List.getElem?_eq_none (show secs.length ≤ idx + j by omega)])
  rw [if_pos ⟨h1, h2⟩]
  exact ⟨_, rfl⟩

/-- Filling a hole: the run `[idx, idx+cnt)` consists of holes, so inserting `got ≤ cnt` sectors never panics. -/
theorem insert_hole_some (secs : List Nat) (idx first got cnt : Nat) (hlen : idx + cnt ≤ secs.length)
    (hz : ∀ j, j < cnt → secs.getD (idx + j) 0 = 0) (hg : got ≤ cnt) :
    ∃ secs', insertSectors secs idx first got = some secs' := by
  unfold insertSectors
  have h2 := all_zero_of_getD secs idx got (fun j hj => hz j (by omega))
  rw [if_pos ⟨by omega, h2⟩]
  exact ⟨_, rfl⟩

theorem writeToSectors_part {O : Nat → Prop} {c : Cfg} {f : File} {e : Env} (p : List Byte)
    (idx endIdx ow : Nat) (how : ow < c.ss)
    (hP : Part c.nsec O e.allocd (nz f.sectors)) (hd : e.dfree = false) :
    Part c.nsec O (writeToSectors c f e p idx endIdx ow).2.1.allocd
        (nz (writeToSectors c f e p idx endIdx ow).1.sectors) ∧
      (writeToSectors c f e p idx endIdx ow).2.1.dfree = false ∧
      SameMeta f (writeToSectors c f e p idx endIdx ow).1 ∧
      f.sectors.length ≤ (writeToSectors c f e p idx endIdx ow).1.sectors.length ∧
      (writeToSectors c f e p idx endIdx ow).2.2.2 ≠ some .panic := by
  unfold writeToSectors
  split
  · rename_i hidx
    split
    · rename_i e1 x heq
      have := wns_error hP.nodupA heq
      refine ⟨hP.same this.2.1 this.2.2 (List.Perm.refl _), this.1.trans hd, ⟨rfl, rfl, rfl⟩, Nat.le_refl _, ?_⟩
      have := wns_error_ne_panic heq
      simpa using this
    · rename_i e1 n first got heq
      have hw := wns_ok heq
      obtain ⟨secs', hs'⟩ := insert_grown_some f.sectors idx first got hidx
      dsimp only
      rw [hs']
      have hsp := insertSectors_spec hs' hw.2.2.2.2.1
      dsimp only
      refine ⟨?_, hw.2.1.trans hd, ⟨rfl, rfl, rfl⟩, ?_, by simp⟩
      · rw [hw.1]
        refine hP.add hw.2.2.2.2.1 hw.2.2.2.2.2.1 hw.2.2.2.2.2.2.1 ?_
        rw [nz_grown] at hsp; exact hsp.2
      · rw [hsp.1]; simp
  · rename_i hidx
    have hidx' : idx < f.sectors.length := by omega
    obtain ⟨hc1, hc2, hc3, hc4, hc5⟩ := contig_spec f.sectors idx endIdx hidx'
    dsimp only
    split
    · rename_i hz
      split
      · rename_i e1 x heq
        have := wns_error hP.nodupA heq
        refine ⟨hP.same this.2.1 this.2.2 (List.Perm.refl _), this.1.trans hd, ⟨rfl, rfl, rfl⟩, Nat.le_refl _, ?_⟩
        have := wns_error_ne_panic heq
        simpa using this
      · rename_i e1 n first got heq
        have hw := wns_ok heq
        have hgot : got ≤ (contig f.sectors idx endIdx).2 := by
          refine Nat.le_trans hw.2.2.2.1 (want_le_cnt ow c.ss _ _ how hc2 ?_)
          simp only [List.length_take]; omega
        obtain ⟨secs', hs'⟩ := insert_hole_some f.sectors idx first got _ hc3
          (fun j hj => by rw [hc5 j hj, if_pos hz]) hgot
        rw [hs']
        have hsp := insertSectors_spec hs' hw.2.2.2.2.1
        dsimp only
        refine ⟨?_, hw.2.1.trans hd, ⟨rfl, rfl, rfl⟩, ?_, by simp⟩
        · rw [hw.1]
          exact hP.add hw.2.2.2.2.1 hw.2.2.2.2.2.1 hw.2.2.2.2.2.2.1 hsp.2
        · exact hsp.1 ▸ Nat.le_refl _
    · have hs := devWrite_same e (((contig f.sectors idx endIdx).1 - 1) * c.ss + ow)
        (List.take ((contig f.sectors idx endIdx).2 * c.ss - ow) p)
      split
      · exact ⟨hs.1 ▸ hP, hs.2.1.trans hd, ⟨rfl, rfl, rfl⟩, Nat.le_refl _, by simp⟩
      · exact ⟨hs.1 ▸ hP, hs.2.1.trans hd, ⟨rfl, rfl, rfl⟩, Nat.le_refl _, by simp⟩

end BbRe.Lemmas.FilePool
