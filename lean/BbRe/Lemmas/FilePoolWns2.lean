import BbRe.Lemmas.FilePoolWns
/-!
`wnsPhases` / `writeToNewSectors`: contents of the new run after success, and
the frame (nothing outside the run changes) on every path.
-/
namespace BbRe.Lemmas.FilePool
open BbRe.FilePool

/-- After phase 1 (when it succeeds): `w ∈ {0,1}` sectors are complete. -/
theorem phase1_done {c : Cfg} {h : Hole} {e e1 : Env} {p : List Byte} {t0 idx ow : Nat} {cur : Cursor}
    (how : ow < c.ss) (hr : wnsPhase1 c h e p (t0 + 1) idx ow = (e1, .ok cur)) :
    ∃ w, ((w = 0 ∧ ow = 0) ∨ (w = 1 ∧ 0 < ow)) ∧ cur = (p.drop (w * c.ss - ow), t0 + 1 + w, idx + w) ∧
      (∀ j, j < w * c.ss → rd e1.dev (t0 * c.ss + j) = tgt c.ss h p idx ow j) ∧
      (∀ q, (q < t0 * c.ss ∨ t0 * c.ss + w * c.ss ≤ q) → rd e1.dev q = rd e.dev q) := by
  by_cases h0 : ow = 0
  · subst h0
    rw [wnsPhase1_ok0] at hr
    simp only [Prod.mk.injEq, Except.ok.injEq] at hr
    obtain ⟨rfl, rfl⟩ := hr
    refine ⟨0, Or.inl ⟨rfl, rfl⟩, by simp, ?_, fun q _ => rfl⟩
    intro j hj; simp at hj
  · have hpos : 0 < ow := Nat.pos_of_ne_zero h0
    obtain ⟨hdev, hcur⟩ := wnsPhase1_ok hr hpos
    simp only [Nat.add_sub_cancel] at hdev
    refine ⟨1, Or.inr ⟨rfl, hpos⟩, ?_, ?_, ?_⟩
    · rw [hcur, Nat.one_mul, drop_min_length]
    · intro j hj
      rw [Nat.one_mul] at hj
      rw [hdev, rd_writeBytes, if_pos (by rw [buf1_length _ _ _ _ _ how]; omega)]
      rw [Nat.add_sub_cancel_left]
      exact buf1_getD c.ss h p idx ow j how hj
    · intro q hq
      rw [Nat.one_mul] at hq
      rw [hdev, rd_writeBytes_outside _ _ _ _ (by rw [buf1_length _ _ _ _ _ how]; omega)]

/-- **Contents after success**: all `W = ⌈(ow+|p|)/ss⌉` sectors of the run are
completely written (data in place, hole-source contents around it); nothing
outside the run changed. -/
theorem wnsPhases_ok {c : Cfg} {h : Hole} {e : Env} {p : List Byte} {t0 idx ow : Nat}
    (hss : 0 < c.ss) (how : ow < c.ss)
    (hok : (wnsPhases c h e p (t0 + 1) idx ow).2 = none) :
    (∀ j, j < (ow + p.length + c.ss - 1) / c.ss * c.ss →
        rd (wnsPhases c h e p (t0 + 1) idx ow).1.dev (t0 * c.ss + j) = tgt c.ss h p idx ow j) ∧
      (∀ q, (q < t0 * c.ss ∨ (t0 + (ow + p.length + c.ss - 1) / c.ss) * c.ss ≤ q) →
        rd (wnsPhases c h e p (t0 + 1) idx ow).1.dev q = rd e.dev q) := by
  unfold wnsPhases at hok ⊢
  split at hok
  · simp at hok
  · rename_i e1 cur1 heq1
    obtain ⟨w, hw, hcur1, hdone, hframe1⟩ := phase1_done how heq1
    split at hok
    · simp at hok
    · rename_i e2 cur2 heq2
      obtain ⟨hdev2, hcur2⟩ := wnsPhase2_ok heq2
      have hdev3 := wnsPhase3_ok hok
      rw [hcur2] at hdev3
      rw [hcur1] at hdev2 hdev3
      dsimp only at hdev2 hdev3
      have e5 : t0 + 1 + w - 1 = t0 + w := by omega
      have e6 : t0 + 1 + w + (p.drop (w * c.ss - ow)).length / c.ss - 1 =
          t0 + w + (p.drop (w * c.ss - ow)).length / c.ss := by
        generalize (p.drop (w * c.ss - ow)).length / c.ss = F; omega
      rw [e5] at hdev2
      rw [e6] at hdev3
      have := phase23_point c.ss h p t0 idx ow w e1.dev hss how hw hdone
        (p.drop (w * c.ss - ow)) rfl ((p.drop (w * c.ss - ow)).length / c.ss) rfl e2.dev hdev2
        ((p.drop (w * c.ss - ow)).drop ((p.drop (w * c.ss - ow)).length / c.ss * c.ss)) rfl
        (wnsPhase3 c h e2 cur2).1.dev (by rw [hcur2, hcur1]; exact hdev3)
      refine ⟨this.1, fun q hq => ?_⟩
      have hb := run_bounds c.ss ow p.length w _ _ hss how hw rfl rfl
      rw [this.2 q (by
        rcases hq with hq | hq
        · left; rw [Nat.add_mul]; omega
        · right; exact hq)]
      apply hframe1
      rcases hq with hq | hq
      · left; exact hq
      · right
        rw [Nat.add_mul] at hq
        rw [← List.length_drop] at hb
        have := hb.1
        omega

/-- **Frame on every path** (success, or failure at any hole-source read or
device write): the phases only touch the `W` sectors starting at `t0+1`. -/
theorem wnsPhases_frame {c : Cfg} {h : Hole} {e : Env} {p : List Byte} {t0 idx ow : Nat}
    (hss : 0 < c.ss) (how : ow < c.ss) (hp : 0 < p.length) (q : Nat)
    (hq : q < t0 * c.ss ∨ (t0 + (ow + p.length + c.ss - 1) / c.ss) * c.ss ≤ q) :
    rd (wnsPhases c h e p (t0 + 1) idx ow).1.dev q = rd e.dev q := by
  rw [Nat.add_mul] at hq
  obtain ⟨q1, hq1, hdev1⟩ := wnsPhase1_dev c h e p (t0 + 1) idx ow how
  simp only [Nat.add_sub_cancel] at hdev1
  unfold wnsPhases
  split
  · rename_i e1 x heq1
    rw [heq1] at hdev1
    dsimp only at hdev1 ⊢
    rw [hdev1, rd_writeBytes_outside]
    have hb := (run_bounds c.ss ow p.length (if 0 < ow then 1 else 0) _ _ hss how
      (by split <;> omega) rfl rfl).2.2 (by omega)
    omega
  · rename_i e1 cur1 heq1
    obtain ⟨w, hw, hcur1, _, hframe1⟩ := phase1_done how heq1
    subst hcur1
    have hb := run_bounds c.ss ow p.length w _ _ hss how hw rfl rfl
    rw [← List.length_drop] at hb
    obtain ⟨m, hdev2⟩ := wnsPhase2_dev c e1 (p.drop (w * c.ss - ow), t0 + 1 + w, idx + w)
    dsimp only at hdev2
    have e5 : t0 + 1 + w - 1 = t0 + w := by omega
    rw [e5, Nat.add_mul] at hdev2
    have hframe2 : rd (wnsPhase2 c e1 (p.drop (w * c.ss - ow), t0 + 1 + w, idx + w)).1.dev q = rd e.dev q := by
      rw [hdev2, rd_writeBytes_outside, hframe1 q (by omega)]
      have : (List.take m (List.take ((p.drop (w * c.ss - ow)).length / c.ss * c.ss)
          (p.drop (w * c.ss - ow)))).length ≤ (p.drop (w * c.ss - ow)).length / c.ss * c.ss := by
        rw [List.length_take, List.length_take]; omega
      have := hb.1
      omega
    split
    · rename_i e2 x heq2
      rw [heq2] at hframe2
      exact hframe2
    · rename_i e2 cur2 heq2
      rw [heq2] at hframe2
      dsimp only at hframe2
      obtain ⟨_, hcur2⟩ := wnsPhase2_ok heq2
      dsimp only at hcur2
      have hmod := Nat.mod_lt (p.drop (w * c.ss - ow)).length hss
      have hdm := Nat.div_add_mod (p.drop (w * c.ss - ow)).length c.ss
      rw [Nat.mul_comm] at hdm
      have hl2 : cur2.1.length = (p.drop (w * c.ss - ow)).length % c.ss := by
        rw [hcur2]; dsimp only; rw [List.length_drop]; omega
      obtain ⟨q3, hq3, hz3, hdev3⟩ := wnsPhase3_dev c h e2 cur2 (by rw [hl2]; exact hmod)
      rw [hdev3]
      by_cases hz : cur2.1.length = 0
      · rw [hz3 hz, writeBytes_nil]; exact hframe2
      · rw [rd_writeBytes_outside, hframe2]
        have := hb.2.1 (by rw [← hl2]; omega)
        rw [hcur2]
        dsimp only
        have e6 : t0 + 1 + w + (p.drop (w * c.ss - ow)).length / c.ss - 1 =
            t0 + w + (p.drop (w * c.ss - ow)).length / c.ss := by
          generalize (p.drop (w * c.ss - ow)).length / c.ss = F; omega
        rw [e6, Nat.add_mul, Nat.add_mul]
        omega

end BbRe.Lemmas.FilePool
