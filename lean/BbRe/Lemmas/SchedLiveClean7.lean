import BbRe.Lemmas.SchedLiveClean6
/-!
Cleanup accounting through `Execute` and the worker-facing segments.
-/
namespace BbRe.Lemmas.SchedLive
open BbRe.Sched

/-! ### `Execute` -/

/-- a fresh operation (no waiters yet) on an existing task: exempt until the attach that follows -/
theorem addOpS_cinv {s : State} {tid : Nat} {t : Task} (inv : List Nat) (prio : Int) (hk : KeysOK s)
    (hc : CInv noEx s) (h0 : s.task? tid = some t) : CInv { op := some s.nextOp } (addOpS s tid t inv prio) := by
  have hid := (hk.tid tid t h0).1
  have hop : ∀ k, (addOpS s tid t inv prio).op? k = if s.nextOp = k then
      some { name := s.nextOp, task := tid, inv := inv, prio := prio, waiters := 0, mayExistWithoutWaiters := false }
      else s.op? k := by
    intro k; simp [State.op?, alookup_aset]
  have htk : ∀ k, (addOpS s tid t inv prio).task? k = if tid = k then some { t with ops := t.ops ++ [s.nextOp] }
      else s.task? k := by
    intro k; simp [State.task?, alookup_aset, hid]
  have hkk : ∀ k, hasK (addOpS s tid t inv prio) k ↔ hasK s k := hasK_congr rfl
  have old : ∀ k op, s.op? k = some op → ¬ s.nextOp = k := by
    intro k op e; have := (hk.oname k op e).2.1; omega
  refine ⟨hc.uniq, hc.wIn, fun wk hm hi _ => hc.wOut wk hm hi (by simp [noEx]), hc.eW, ?_, hc.eS, ?_, ?_, ?_,
    fun q sq e hb _ => hc.scqW q sq e hb (by simp [noEx]), hc.wScq, (fun _ hq => nomatch hq), (fun _ _ hq => nomatch hq)⟩
  · intro o hh
    obtain ⟨op, e, a, b⟩ := hc.eO o hh
    exact ⟨op, by rw [hop]; simp [old o op e, e], a, b⟩
  · intro k op e hb
    rw [hop] at e
    split at e
    · injection e with e; subst e; cases hb
    · obtain ⟨t1, e1, e2⟩ := hc.opBg k op e hb
      rw [htk]; split
      · rename_i hkk'; rw [← hkk', h0] at e1; injection e1 with e1; subst e1; exact ⟨_, rfl, e2⟩
      · exact ⟨t1, e1, e2⟩
  · intro k op e hb hx
    rw [hop] at e
    split at e
    · rename_i hkk'; subst hkk'; simp at hx
    · exact hc.opFg k op e hb (by simp [noEx])
  · intro k op e
    rw [hop] at e
    split at e
    · rename_i hkk'; injection e with e; subst e
      exact ⟨{ t with ops := t.ops ++ [s.nextOp] }, by rw [htk]; simp, by simp [hkk']⟩
    · obtain ⟨t1, e1, e2⟩ := hc.opT k op e
      rw [htk]; split
      · rename_i hkk'; rw [← hkk', h0] at e1; injection e1 with e1; subst e1
        exact ⟨_, rfl, List.mem_append_left _ e2⟩
      · exact ⟨t1, e1, e2⟩

/-- a fresh task with its first operation -/
theorem newTaskS_cinv {s : State} (digest dkey : Nat) (dnc : Bool) (q : ScqId) (inv : List Nat) (prio : Int)
    (hk : KeysOK s) (hc : CInv noEx s) : CInv { op := some s.nextOp } (newTaskS s digest dkey dnc q inv prio) := by
  have hop : ∀ k, (newTaskS s digest dkey dnc q inv prio).op? k = if s.nextOp = k then some (newOp s inv prio) else s.op? k := by
    intro k; simp [State.op?, alookup_aset]
  have htk : ∀ k, (newTaskS s digest dkey dnc q inv prio).task? k =
      if s.nextTask = k then some (newTask s digest dkey dnc q) else s.task? k := by
    intro k; simp [State.task?, alookup_aset]
  have hkk : ∀ k, hasK (newTaskS s digest dkey dnc q inv prio) k ↔ hasK s k := hasK_congr (by simp)
  have old : ∀ k op, s.op? k = some op → ¬ s.nextOp = k := by
    intro k op e; have := (hk.oname k op e).2.1; omega
  have oldt : ∀ k t', s.task? k = some t' → (newTaskS s digest dkey dnc q inv prio).task? k = some t' := by
    intro k t' e; rw [htk]
    have := (hk.tid k t' e).2
    have : ¬ s.nextTask = k := by omega
    simp [this, e]
  have hw : (newTaskS s digest dkey dnc q inv prio).workers = s.workers := by simp
  have hscq : ∀ q', (newTaskS s digest dkey dnc q inv prio).scq? q' = s.scq? q' := by intro q'; simp [State.scq?]
  refine ⟨by simpa using hc.uniq, ?_, ?_, ?_, ?_, ?_, ?_, ?_, ?_, ?_, ?_, (fun _ hq => nomatch hq), (fun _ _ hq => nomatch hq)⟩
  · intro wk hm hi; rw [hkk]; exact hc.wIn wk (hw ▸ hm) hi
  · intro wk hm hi _; rw [hkk]; exact hc.wOut wk (hw ▸ hm) hi (by simp [noEx])
  · intro q' w hh; rw [hw]; exact hc.eW q' w ((hkk _).1 hh)
  · intro o hh
    obtain ⟨op, e, a, b⟩ := hc.eO o ((hkk _).1 hh)
    exact ⟨op, by rw [hop]; simp [old o op e, e], a, b⟩
  · intro q' hh; rw [hw, hscq]; exact hc.eS q' ((hkk _).1 hh)
  · intro k op e hb
    rw [hop] at e
    split at e
    · injection e with e; subst e; cases hb
    · obtain ⟨t1, e1, e2⟩ := hc.opBg k op e hb
      exact ⟨t1, oldt _ _ e1, e2⟩
  · intro k op e hb hx
    rw [hop] at e
    split at e
    · rename_i hkk'; subst hkk'; simp at hx
    · rw [hkk]; exact hc.opFg k op e hb (by simp [noEx])
  · intro k op e
    rw [hop] at e
    split at e
    · rename_i hkk'; injection e with e; subst e
      exact ⟨newTask s digest dkey dnc q, by rw [htk]; simp [newOp], by simp [newTask, hkk']⟩
    · obtain ⟨t1, e1, e2⟩ := hc.opT k op e
      exact ⟨t1, oldt _ _ e1, e2⟩
  · intro q' sq e hb _
    rw [hscq] at e; rw [hw, hkk]; exact hc.scqW q' sq e hb (by simp [noEx])
  · intro wk hm; rw [hscq]; exact hc.wScq wk (hw ▸ hm)

theorem execArrive_kwc {h : Hints} {s s' : State} {now c digest dkey : Nat} {dnc : Bool}
    {comps : List Nat} {platform : Nat} {inv : List Nat} {prio : Int}
    (hh : execArrive h s now c digest dkey dnc comps platform inv prio = .ok s') (hi : KWC noEx s) : KWC noEx s' := by
  obtain ⟨s1, h1, h2 | h2 | h2⟩ := execArrive_ok hh
  all_goals have hi1 := enter_kwc hi h1
  · obtain ⟨tid, t, _, h0, ⟨o, _, h3⟩ | ⟨_, h3⟩⟩ := h2
    · exact streamAttach_kwc h3 ⟨KWStep.of_same (s := s1) rfl rfl rfl rfl rfl rfl hi1.1,
        (hi1.2.frame (s' := emit s1 .selAbandoned) (CFrame.of_same rfl rfl rfl rfl rfl)).exempt _⟩
    · have hkE : KW (emit s1 .selAbandoned) := KWStep.of_same (s := s1) rfl rfl rfl rfl rfl rfl hi1.1
      have hcE : CInv noEx (emit s1 .selAbandoned) := hi1.2.frame (CFrame.of_same rfl rfl rfl rfl rfl)
      have hkA : KW (addOpS (emit s1 .selAbandoned) tid t inv prio) := by
        refine KWStep.of (addOpS_tstep True inv prio (s := emit s1 .selAbandoned) h0) (fun hk hw => ?_) hkE
        have hid := (hk.tid tid t h0).1
        exact hw.of_frame rfl (WFrame.of_aset_same (t0 := t) (t2 := { t with ops := t.ops ++ [s1.nextOp] }) (k0 := t.id)
          (by rw [hid]; exact h0) rfl rfl rfl rfl rfl) (NoPtr.noX _)
      exact streamAttach_kwc h3 ⟨hkA, addOpS_cinv inv prio hkE.1 hcE h0⟩
  · obtain ⟨_, _, rfl⟩ := h2
    exact ⟨KWStep.of_same (s := s1) rfl rfl rfl rfl rfl rfl hi1.1, hi1.2.frame (CFrame.of_same rfl rfl rfl rfl rfl)⟩
  · obtain ⟨_, pq, sc, s3, _, _, h3, h4⟩ := h2
    have hb : WInv (newTaskS s1 digest dkey dnc ⟨pq.id, sc⟩ inv prio) := by
      refine hi1.1.2.of_frame (X := noX) (by simp) ⟨by simp, ?_, ?_⟩ (NoPtr.noX _)
      · intro q sq' hq p hp; simp only [State.scq?, newTaskS_scqs] at hq; exact ⟨sq', hq, hp⟩
      · intro tid' t' hlt' _ ht'
        simp only [State.task?, newTaskS_tasks, alookup_aset] at ht'
        split at ht'
        · omega
        · exact ⟨t', ht', rfl, rfl⟩
    have hidN : ∀ tb, (newTaskS s1 digest dkey dnc ⟨pq.id, sc⟩ inv prio).task? s1.nextTask = some tb → tb.id = s1.nextTask := by
      intro tb htb
      simp only [State.task?, newTaskS_tasks, alookup_aset, if_true, Option.some.injEq] at htb
      subst htb; rfl
    have hkw3 : KW s3 := by
      refine ⟨((tstep_new_then_schedule (allow := True) (s := s1) (tn := newTask s1 digest dkey dnc ⟨pq.id, sc⟩)
        (on := newOp s1 inv prio) rfl rfl rfl (by simp) (by simp) (by simp) (by simp) h3) hi1.1.1).1, ?_⟩
      refine schedule_winv h3 hb ?_
      intro tb htb
      have := hidN tb htb
      simp only [State.task?, newTaskS_tasks, alookup_aset, if_true, Option.some.injEq] at htb
      subst htb
      exact ⟨rfl, by simp, rfl⟩
    have hc3 : CInv { op := some s1.nextOp } s3 :=
      (newTaskS_cinv digest dkey dnc ⟨pq.id, sc⟩ inv prio hi1.1.1 hi1.2).frame (schedule_cframe h3 hb hidN)
    exact streamAttach_kwc h4 ⟨hkw3, hc3⟩

/-! ### `Synchronize`: finding / creating the queue and the worker -/

/-- The two front stages of `Synchronize` together: the entry of the queue and of the worker are gone, the
worker exists inside the call, its queue exists. -/
theorem sync_front_cinv {s1 s3 : State} {q : ScqId} {w : WId} (hc : CInv noEx s1)
    (hK : ∀ k, hasK s3 k ↔ (k ≠ .scq q ∧ k ≠ .worker q w ∧ hasK s1 k))
    (hU : (s3.cleanup.map (·.kind)).Nodup)
    (hW1 : ∀ x ∈ s3.workers, (x.scq = q ∧ x.id = w ∧ x.inSync = true) ∨ (x ∈ s1.workers ∧ ¬ (x.scq = q ∧ x.id = w)))
    (hW2 : ∀ x ∈ s1.workers, ¬ (x.scq = q ∧ x.id = w) → x ∈ s3.workers)
    (hW3 : ∃ x ∈ s3.workers, x.scq = q ∧ x.id = w)
    (hQ1 : ∀ q', q' ≠ q → s3.scq? q' = s1.scq? q')
    (hQ2 : ∃ sq3, s3.scq? q = some sq3 ∧ ∀ sq1, s1.scq? q = some sq1 → sq3 = sq1)
    (hO : s3.ops = s1.ops) (hT : s3.tasks = s1.tasks) : CInv noEx s3 := by
  have hop : ∀ k, s3.op? k = s1.op? k := by intro k; simp [State.op?, hO]
  have htk : ∀ k, s3.task? k = s1.task? k := by intro k; simp [State.task?, hT]
  have hsub : ∀ k, hasK s3 k → hasK s1 k := fun k h => ((hK k).1 h).2.2
  refine ⟨hU, ?_, ?_, ?_, ?_, ?_, ?_, ?_, ?_, ?_, ?_, (fun _ hq => nomatch hq), (fun _ _ hq => nomatch hq)⟩
  · intro x hx hi hh
    rcases hW1 x hx with ⟨a, b, _⟩ | ⟨hx1, _⟩
    · exact ((hK _).1 hh).2.1 (by rw [a, b])
    · exact hc.wIn x hx1 hi (hsub _ hh)
  · intro x hx hi _
    rcases hW1 x hx with ⟨_, _, c⟩ | ⟨hx1, hne⟩
    · rw [hi] at c; cases c
    · refine (hK _).2 ⟨by simp, ?_, hc.wOut x hx1 hi (by simp [noEx])⟩
      simp only [ne_eq, CleanupKind.worker.injEq]; exact hne
  · intro q' w' hh
    obtain ⟨hn1, hn2, h1⟩ := (hK _).1 hh
    obtain ⟨x, hx, e1, e2⟩ := hc.eW q' w' h1
    refine ⟨x, hW2 x hx ?_, e1, e2⟩
    rw [e1, e2]; simpa using hn2
  · intro o hh; rw [hop]; exact hc.eO o (hsub _ hh)
  · intro q' hh
    obtain ⟨hn1, _, h1⟩ := (hK _).1 hh
    have hne : q' ≠ q := by simpa using hn1
    obtain ⟨a, b⟩ := hc.eS q' h1
    rw [hQ1 q' hne]
    refine ⟨a, ?_⟩
    intro x hx
    rcases hW1 x hx with ⟨e, _, _⟩ | ⟨hx1, _⟩
    · rw [e]; exact fun e' => hne e'.symm
    · exact b x hx1
  · intro k op e hb; rw [hop] at e; rw [htk]; exact hc.opBg k op e hb
  · intro k op e hb _
    rw [hop] at e
    rcases hc.opFg k op e hb (by simp [noEx]) with h | h
    · exact .inl h
    · exact .inr ((hK _).2 ⟨by simp, by simp, h⟩)
  · intro k op e; rw [hop] at e; rw [htk]; exact hc.opT k op e
  · intro q' sq e hb _
    by_cases hqq : q' = q
    · subst hqq
      obtain ⟨x, hx, ex, _⟩ := hW3
      exact .inl ⟨x, hx, ex⟩
    · rw [hQ1 q' hqq] at e
      rcases hc.scqW q' sq e hb (by simp [noEx]) with ⟨x, hx, ex⟩ | h
      · exact .inl ⟨x, hW2 x hx (by rw [ex]; exact fun a => hqq a.1), ex⟩
      · exact .inr ((hK _).2 ⟨by simp; exact hqq, by simp, h⟩)
  · intro x hx
    obtain ⟨sq3, e3, _⟩ := hQ2
    rcases hW1 x hx with ⟨e, _, _⟩ | ⟨hx1, _⟩
    · rw [e]; exact ⟨sq3, e3⟩
    · by_cases hqq : x.scq = q
      · rw [hqq]; exact ⟨sq3, e3⟩
      · rw [hQ1 _ hqq]; exact hc.wScq x hx1

end BbRe.Lemmas.SchedLive
