import BbRe.Lemmas.SchedQExistsDefs
/-!
`QExists` across `task.schedule` and `task.complete` (no use of `Inv`).
-/
namespace BbRe.Lemmas.SchedQ
open BbRe.Sched BbRe.Lemmas.SchedInv

/-! ## size classes of a platform queue -/

theorem mem_insertSorted (x y : Nat) (l : List Nat) : y ∈ insertSorted x l ↔ y = x ∨ y ∈ l := by
  induction l with
  | nil => simp [insertSorted]
  | cons a r ih =>
    unfold insertSorted
    split
    · simp only [List.mem_cons, ih]
      constructor
      · rintro (h | h | h)
        · exact Or.inr (Or.inl h)
        · exact Or.inl h
        · exact Or.inr (Or.inr h)
      · rintro (h | h | h)
        · exact Or.inr (Or.inl h)
        · exact Or.inl h
        · exact Or.inr (Or.inr h)
    · simp only [List.mem_cons]

theorem mem_foldl_insertSorted (l : List Scq) (init : List Nat) (y : Nat) :
    y ∈ l.foldl (fun acc q => insertSorted q.id.sc acc) init ↔ y ∈ init ∨ ∃ q ∈ l, q.id.sc = y := by
  induction l generalizing init with
  | nil => simp
  | cons a r ih =>
    rw [List.foldl_cons, ih, mem_insertSorted]
    constructor
    · rintro ((h | h) | ⟨q, hq, he⟩)
      · exact Or.inr ⟨a, List.mem_cons_self, h.symm⟩
      · exact Or.inl h
      · exact Or.inr ⟨q, List.mem_cons_of_mem _ hq, he⟩
    · rintro (h | ⟨q, hq, he⟩)
      · exact Or.inl (Or.inr h)
      · rcases List.mem_cons.mp hq with e | e
        · subst e; exact Or.inl (Or.inl he.symm)
        · exact Or.inr ⟨q, e, he⟩

/-- `pq.sizeClasses` lists exactly the size classes of the registered size-class queues of `pq` -/
theorem mem_sizes (s : State) (pq sc : Nat) : sc ∈ s.sizes pq ↔ HasScq s ⟨pq, sc⟩ := by
  unfold State.sizes HasScq scqIds
  rw [mem_foldl_insertSorted]
  simp only [List.not_mem_nil, false_or, List.mem_filter, List.mem_map, decide_eq_true_eq]
  constructor
  · rintro ⟨q, ⟨hq, hp⟩, he⟩
    refine ⟨q, hq, ?_⟩
    cases hqi : q.id with
    | mk a b => rw [hqi] at hp he; simp only at hp he; rw [hp, he]
  · rintro ⟨q, hq, he⟩
    exact ⟨q, ⟨hq, by rw [he]⟩, by rw [he]⟩

theorem hasScq_largest {s : State} {q : ScqId} (h : HasScq s q) : HasScq s (largestScq s q) := by
  unfold largestScq
  split
  · rename_i sc hsc
    exact (mem_sizes s q.pq sc).mp (List.mem_of_getLast? hsc)
  · exact h

theorem largest_pq (s : State) (q : ScqId) : (largestScq s q).pq = q.pq := by
  unfold largestScq; split <;> rfl

theorem sizes_get_some {s : State} {q : ScqId} (h : HasScq s q) (i : Nat) :
    ∃ sc, (s.sizes q.pq)[min i ((s.sizes q.pq).length - 1)]? = some sc := by
  have hm : q.sc ∈ s.sizes q.pq := (mem_sizes s q.pq q.sc).mpr h
  have hl : 0 < (s.sizes q.pq).length := List.length_pos_of_mem hm
  have : min i ((s.sizes q.pq).length - 1) < (s.sizes q.pq).length := by omega
  exact ⟨_, List.getElem?_eq_getElem this⟩

theorem hasScq_of_sizes_get {s : State} {pq i sc : Nat} (h : (s.sizes pq)[i]? = some sc) : HasScq s ⟨pq, sc⟩ :=
  (mem_sizes s pq sc).mp (List.mem_of_getElem? h)

variable {ne : Prop}

/-! ## `assignTo`, `schedule` -/

theorem hintedWorker_scq {h : Hints} {s : State} {t : Task} {w : Worker} (hh : hintedWorker h s t = some w) :
    w.scq = t.scq := by
  unfold hintedWorker at hh
  split at hh
  · rename_i a ha
    have h1 := List.find?_some ha
    simp only [decide_eq_true_eq] at h1
    have := wfind_key hh
    rw [this.1]; exact h1.2
  · cases hh

theorem taskOK_of_lookup {s : State} (hq : QExists ne s) {k : Nat} {t : Task} (ht : alookup k s.tasks = some t) :
    TaskOK s t := hq.tq (k, t) (mem_of_alookup ht)

theorem assignSt_q {s : State} (hq : QExists ne s) {w : Worker} {t : Task} (hw : ∃ wk ∈ s.workers, wk.scq = w.scq)
    (ht : TaskOK s t) (hs : w.scq = t.scq) : QP ne s (assignSt s w t) := by
  have h1 := hq.setWorker { w with task := some t.id } hw
  have h2 := h1.1.setTask { t with worker := some (w.scq, w.id), retry := 0, queued := false } (by
    intro hr
    obtain ⟨a, _⟩ := ht hr
    refine ⟨a, ?_⟩
    intro q' w' hqw
    simp only [Option.some.injEq, Prod.mk.injEq] at hqw
    rw [← hqw.1]; exact hs)
  have h3 := h1.trans h2
  exact h3.trans (h3.1.same (s' := assignSt s w t) rfl rfl rfl rfl (fun _ h _ _ => h))

/-- creating a task (in a state that differs from `s` only in counters, events, dedup) -/
theorem newTask_q {s : State} (hq : QExists ne s) (s1 : State) (h1 : s1.tasks = s.tasks) (h2 : s1.workers = s.workers)
    (h3 : s1.scqs = s.scqs) (h4 : s1.pqs = s.pqs) (h5 : s1.cleanup = s.cleanup) (bt : Task) (hbt : HasScq s bt.scq)
    (hw : bt.worker = none) (bo : Op) : QP ne s ((s1.setTask bt).setOp bo) := by
  have hX : QP ne s s1 := hq.same h1 h2 h3 h4 (by rw [h5]; exact fun _ h _ _ => h)
  have hT := hX.1.setTask bt (by
    intro _
    refine ⟨?_, by rw [hw]; intro _ _ h; cases h⟩
    unfold HasScq scqIds; rw [h3]; exact hbt)
  exact hX.trans (hT.trans (hT.1.setOp bo))

theorem schedule_q {h : Hints} {s : State} {tid : Nat} (hq : QExists ne s) :
    wpR ne (schedule h s tid) (QP ne s) := by
  unfold schedule
  simp only [task?_def]
  cases ht : alookup tid s.tasks with
  | none => noterr
  | some t =>
    have htok := taskOK_of_lookup hq ht
    simp only []
    split
    · split
      · rename_i w hh
        have hwf := hintedWorker_some hh
        have hws := hintedWorker_scq hh
        by_cases hp : w.parked = true
        · simp only [hp, Bool.not_true, Bool.false_eq_true, if_false]
          simp only [wakeWorker, worker?_def, setWorker_eq, wfind_wset, hwf, Option.isSome_some, if_true, and_self]
          rw [assignTo_eq]
          have h1 := hq.wakeWorker w (wfind_mem hwf)
          simp only [wakeWorker, setWorker_eq] at h1
          split
          · noterr
          · split
            · noterr
            · simp only [wpR_ok]
              refine h1.trans (assignSt_q h1.1 (w := { w with parked := false, woken := true }) ?_ ?_ hws)
              · exact ⟨{ w with parked := false, woken := true }, by
                  simp only []
                  have : wfind (wset s.workers { w with parked := false, woken := true }) w.scq w.id =
                      some { w with parked := false, woken := true } := by
                    rw [wfind_wset]; simp [hwf]
                  exact wfind_mem this, rfl⟩
              · intro hr; exact htok hr
        · simp only [hp, Bool.not_false, if_true]; noterr
      · noterr
    · simp only [wpR_pure]
      exact hq.setTask _ (fun hr => htok hr)

/-! ## `finishOps`, `finalize` -/

theorem fstep_q {s : State} (hq : QExists ne s) (o : Nat) : QP ne s (fstep s o) := by
  unfold fstep
  split
  · split
    · exact (hq.setOp _).trans ((hq.setOp _).1.maybeStartCleanup o)
    · exact ⟨hq, QFr.refl s⟩
  · exact ⟨hq, QFr.refl s⟩

theorem finishOps_q {s : State} (hq : QExists ne s) (ops : List Nat) : QP ne s (complete.finishOps s ops) := by
  rw [finishOps_eq]
  induction ops generalizing s with
  | nil => exact ⟨hq, QFr.refl s⟩
  | cons o rest ih =>
    rw [List.foldl_cons]
    exact (fstep_q hq o).trans (ih (fstep_q hq o).1)

/-- a task that has a response is fine -/
theorem taskOK_done (s : State) {t : Task} (h : t.response.isSome = true) : TaskOK s t := by
  intro hr; rw [hr] at h; cases h

theorem finSt0_q {s : State} (hq : QExists ne s) (t : Task) (r : Resp) : QP ne s (finSt0 s t r) := by
  refine hq.upd rfl rfl ⟨fun _ h _ _ => h, fun wk h => ⟨wk, h, rfl⟩⟩ ?_
  intro p hp
  rcases mem_aset hp with e | e
  · rw [e]; exact taskOK_done s rfl
  · exact hq.tq p e

theorem finalize_q {s : State} (hq : QExists ne s) (t : Task) (r : Resp) :
    wpR ne (complete.finalize s t r) (QP ne s) := by
  rw [finalize_eq]
  exact (finSt0_q hq t r).trans (finishOps_q (finSt0_q hq t r).1 _)

/-! ## the background part and the retry branch -/

theorem bgPart_q {h : Hints} {s : State} {t : Task} {i : Nat} (hq : QExists ne s) (hs : HasScq s t.scq) :
    wpR ne (bgPart h s t i) (QP ne s) := by
  unfold bgPart
  have hpq := (hasPq_iff s t.scq.pq).mp (hq.qp t.scq hs)
  obtain ⟨pq, hpq⟩ := hpq
  have hpq' : State.pq? { s with nextLearner := s.nextLearner + 1 } t.scq.pq = some pq := hpq
  simp only [hpq']
  split
  · exact hq.same rfl rfl rfl rfl (fun _ h _ _ => h)
  · obtain ⟨bsc, hb⟩ := sizes_get_some hs i
    have hb' : (State.sizes { s with nextLearner := s.nextLearner + 1 } t.scq.pq)[min i
        ((State.sizes { s with nextLearner := s.nextLearner + 1 } t.scq.pq).length - 1)]? = some bsc := hb
    simp only [hb']
    split
    · exact hq.same rfl rfl rfl rfl (fun _ h _ _ => h)
    · -- create the background task and schedule it
      have hbq : HasScq s ⟨t.scq.pq, bsc⟩ := hasScq_of_sizes_get hb
      refine wpR_mono (schedule_q (h := h) ?a) ?b
      case a => exact (newTask_q hq _ (by rfl) (by rfl) (by rfl) (by rfl) (by rfl) _ hbq (by rfl) _).1
      case b =>
        intro s' hp
        exact QP.trans (newTask_q hq _ (by rfl) (by rfl) (by rfl) (by rfl) (by rfl) _ hbq (by rfl) _) hp

/-! ## `complete` -/

theorem completeOk_q {h : Hints} {s : State} {t : Task} {r : Resp} {l : Nat} (hq : QExists ne s)
    (hs : HasScq s t.scq) : wpR ne (completeOk h s t r l) (QP ne s) := by
  rw [completeOk_eq]
  apply wpR_bind
  have h0 := hq.emit (.learnerSucceeded l (if h.bg.isSome then some s.nextLearner else none))
  refine wpR_mono (finalize_q h0.1 _ r) ?_
  intro s1 h1
  have h01 := h0.trans h1
  split
  · exact h01
  · refine wpR_mono (bgPart_q h01.1 ?_) (fun s' hp => h01.trans hp)
    exact (h01.2.hasScq _).mpr hs

theorem retrySt_q {s : State} (hq : QExists ne s) (t0 : Task) (l : Nat) (r : Resp) (hs : HasScq s t0.scq)
    (hw : t0.worker = none) : QP ne s (retrySt s t0 l r) := by
  unfold retrySt
  have h0 : QP ne s (emit { s with nextLearner := s.nextLearner + 1 } (.learnerFailed l (r.code = cDeadlineExceeded) (some s.nextLearner))) :=
    hq.same rfl rfl rfl rfl (fun _ h _ _ => h)
  refine h0.trans (h0.1.setTask _ ?_)
  intro _
  refine ⟨?_, by intro q w hqw; simp only [hw] at hqw; cases hqw⟩
  exact (h0.2.hasScq _).mpr (hasScq_largest hs)

theorem completeRetry_q {h : Hints} {s : State} {t : Task} {r : Resp} {l : Nat} (hq : QExists ne s)
    (hs : HasScq s t.scq) (hw : t.worker = none) : wpR ne (completeRetry h s t r l) (QP ne s) := by
  rw [completeRetry_eq]
  apply wpR_bind
  have h0 := retrySt_q hq t l r hs hw
  refine wpR_mono (schedule_q h0.1) ?_
  intro s3 h3
  simp only [task?_def]
  split
  · rename_i t3 ht3
    simp only [wpR_pure]
    have := h3.1.setTask (bumpGen t3) (by
      have := taskOK_of_lookup h3.1 ht3
      intro hr; exact this hr)
    exact (h0.trans h3).trans this
  · noterr

theorem detachW_q {s : State} (hq : QExists ne s) (t : Task) : QP ne s (detachW s t) := by
  unfold detachW
  split
  · split
    · rename_i wk hwk
      exact hq.setWorker _ ⟨wk, wfind_mem hwk, rfl⟩
    · exact ⟨hq, QFr.refl s⟩
  · exact ⟨hq, QFr.refl s⟩

theorem preT_scq (t : Task) : (preT t).scq = t.scq := by unfold preT; split <;> rfl
theorem preT_response (t : Task) : (preT t).response = t.response := by unfold preT; split <;> rfl

/-- `task.complete` keeps `QExists`, and never fails with a routing error -/
theorem complete_q {h : Hints} {s : State} {tid : Nat} {r : Resp} {bw : Bool} (hq : QExists ne s) :
    wpR ne (complete h s tid r bw) (QP ne s) := by
  rw [complete_eq]
  simp only [task?_def]
  cases ht : alookup tid s.tasks with
  | none => noterr
  | some t =>
    simp only []
    by_cases hr : t.response.isSome = true
    · simp only [hr, if_true, wpR_pure]; exact ⟨hq, QFr.refl s⟩
    · rw [if_neg hr]
      have hr' : t.response = none := by simpa using hr
      have hs : HasScq s t.scq := (taskOK_of_lookup hq ht hr').1
      have h1 := detachW_q hq (preT t)
      have hs1 : HasScq (detachW s (preT t)) ({ preT t with worker := none } : Task).scq := by
        rw [h1.2.hasScq]; show HasScq s (preT t).scq; rw [preT_scq]; exact hs
      split
      · noterr
      · rename_i l _
        split
        · exact wpR_mono (completeOk_q h1.1 hs1) (fun s' hp => h1.trans hp)
        · split
          · split
            · exact wpR_mono (completeRetry_q h1.1 hs1 rfl) (fun s' hp => h1.trans hp)
            · have h2 := h1.1.emit (.learnerFailed l (r.code = cDeadlineExceeded) none)
              exact wpR_mono (finalize_q h2.1 _ r) (fun s' hp => (h1.trans h2).trans hp)
          · have h2 := h1.1.emit (.learnerAbandoned l)
            exact wpR_mono (finalize_q h2.1 _ r) (fun s' hp => (h1.trans h2).trans hp)

end BbRe.Lemmas.SchedQ
