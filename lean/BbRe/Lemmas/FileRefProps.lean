import BbRe.Lemmas.FileRefStep
/-!
Consequences of the C16 invariant used by `Properties/C16.lean`: frame facts about the
contents, behaviour of every step once the last reference is gone, and the wake-up
facts behind the bounded wait for writers.
-/
namespace BbRe.Lemmas.FileRef
open BbRe.FileRef

theorem frozenClose_bytes (s : State) : (frozenClose s).bytes = s.bytes := by
  unfold frozenClose State.panic
  split
  · rfl
  · rw [release_bytes]

theorem frozenClose_cas (s : State) : (frozenClose s).cas = s.cas := by
  unfold frozenClose State.panic
  split
  · rfl
  · rw [release_cas]

theorem openFrozenFor_bytes (s : State) (t : Nat) (v : PC) : (openFrozenFor s t v).1.bytes = s.bytes := by
  unfold openFrozenFor; split <;> rfl

theorem mutBody_frozen {s : State} (t : Nat) (op : MutOp) (hf : 0 < s.frozen) :
    mutBody s t op = (s.setPc t (.mutWait op false), .parked) := by
  unfold mutBody; rw [if_pos hf]

/-- While a frozen reader exists no step changes the contents (mechanism only: no invariant needed). -/
theorem step_bytes_frozen {s s' : State} {o : Out} (op : Op) (hf : 0 < s.frozen)
    (hs : step s op = some (s', o)) : s'.bytes = s.bytes := by
  unfold step at hs
  split at hs
  · cases hs
  · have hfr := fun fn => digestStep_frame s fn
    cases op <;> simp only at hs
    case link => repeat' split at hs
                 all_goals (cases hs; rfl)
    case unlink =>
      split at hs
      · split at hs
        · cases hs; rfl
        · split at hs
          · cases hs; rw [release_bytes]
          · cases hs; rfl
      · rw [← some_pair_eq hs, release_bytes]
    case open_ m => split at hs <;> (cases hs; rfl)
    case close m =>
      split at hs
      · cases hs; rfl
      · rw [← some_pair_eq hs, release_bytes]
        split <;> rfl
    case read off len => repeat' split at hs
                         all_goals (cases hs; rfl)
    case seek off => repeat' split at hs
                     all_goals (cases hs; rfl)
    case getattr => cases hs; rfl
    case setperm x => cases hs; rfl
    case chown => cases hs; rfl
    case persist => cases hs; rfl
    case mbegin t mop =>
      split at hs
      · rw [mutBody_frozen t mop hf] at hs; cases hs; rfl
      · cases hs
    case mwake t =>
      split at hs
      · rename_i mop _
        rw [mutBody_frozen t mop hf] at hs; cases hs; rfl
      · cases hs
    case ubegin t u k fn =>
      split at hs
      · split at hs
        · cases hs; rfl
        · rw [← some_pair_eq hs, openFrozenFor_bytes]
      · cases hs
    case uwake t v =>
      split at hs
      · split at hs
        · split at hs
          · split at hs
            · rw [← some_pair_eq hs, openFrozenFor_bytes]
            · cases hs
          · cases hs
        · split at hs
          · split at hs
            · cases hs; rfl
            · rw [← some_pair_eq hs, openFrozenFor_bytes]
          · cases hs
      · cases hs
    case udigest t =>
      split at hs
      · rename_i fn _
        split at hs
        · cases hs; exact (hfr fn).2.1
        · cases hs; rw [frozenClose_bytes]; exact (hfr fn).2.1
      · cases hs
    case putDone t ok =>
      split at hs
      · repeat' split at hs
        all_goals (cases hs; rw [frozenClose_bytes]; rfl)
      · cases hs
    case fread t off len =>
      split at hs
      · repeat' split at hs
        all_goals (cases hs; rfl)
      · cases hs
    case fclose t =>
      split at hs
      · cases hs; rw [frozenClose_bytes]; rfl
      · cases hs
    case statOpen t fn =>
      split at hs
      · split at hs
        · rw [← some_pair_eq hs, openFrozenFor_bytes]
        · cases hs; rfl
      · cases hs
    case statFinish t =>
      split at hs
      · rename_i fn _
        cases hs; rw [frozenClose_bytes]; exact (hfr fn).2.1
      · cases hs
    case fire k => cases hs; rfl
    case fault k v => repeat' split at hs
                      all_goals (cases hs; rfl)

end BbRe.Lemmas.FileRef

namespace BbRe.Lemmas.FileRef
open BbRe.FileRef

theorem some_pair_eq2 {α β : Type} {p : α × β} {a : α} {b : β} (h : some p = some (a, b)) : p.2 = b := by
  cases h; rfl

theorem baseLinks_zero {s : State} (h : baseLinks s = 0) : s.linkCount = 0 := by
  unfold baseLinks at h
  split at h
  · split at h
    · cases h
    · omega
  · exact h

theorem perform_openTrunc_stale {s : State} (m : Mask) (h : s.refs = 0) :
    perform s (.openTrunc m) = (s, .st .stale) := by
  simp only [perform, if_pos h]

/-- A mutating call on a file whose last reference is gone (`referenceCount = 0`) changes
nothing and returns STALE: always for `O_TRUNC`, for the other calls in the current code. -/
theorem perform_stale {s : State} (op : MutOp) (h : s.refs = 0)
    (hc : s.checked = true ∨ ∃ m, op = .openTrunc m) :
    (perform s op).1 = s ∧ ((perform s op).2 = .st .stale ∨ (perform s op).2 = .wrote 0 .stale) := by
  cases op with
  | openTrunc m => rw [perform_openTrunc_stale m h]; exact ⟨rfl, Or.inl rfl⟩
  | write off data =>
    rcases hc with hc | ⟨m, e⟩
    · have e : perform s (.write off data) = (s, .wrote 0 .stale) := by simp only [perform, if_pos (And.intro hc h)]
      rw [e]; exact ⟨rfl, Or.inr rfl⟩
    · cases e
  | alloc off len =>
    rcases hc with hc | ⟨m, e⟩
    · have e : perform s (.alloc off len) = (s, .st .stale) := by simp only [perform, if_pos (And.intro hc h)]
      rw [e]; exact ⟨rfl, Or.inl rfl⟩
    · cases e
  | setattr n x =>
    rcases hc with hc | ⟨m, e⟩
    · have e : perform s (.setattr n x) = (s, .st .stale) := by simp only [perform, if_pos (And.intro hc h)]
      rw [e]; exact ⟨rfl, Or.inl rfl⟩
    · cases e

structure ClosedFacts (s : State) : Prop where
  refs : s.refs = 0
  links : s.linkCount = 0
  rd : s.rd = 0
  wr : s.wr = 0
  frozen : s.frozen = 0
  writers : s.writers = 0
  noFrozen : ∀ t, (s.pc t).isFrozen = false

theorem Inv.closedFacts {s : State} (h : Inv s) (hc : s.closed = true) : ClosedFacts s := by
  have h0 := h.closedIff.mp hc
  have hr := h.refsEq
  have hw := h.writersEq
  have hf : s.frozen = 0 := by omega
  refine ⟨h0, baseLinks_zero (by omega), by omega, by omega, hf, by omega, ?_⟩
  have := h.pcs.fcount
  rw [hf] at this
  exact this.zero_all

/-- What a call returns once the last reference is gone: `Link`/`VirtualOpenSelf` (with or
without `O_TRUNC`), `VirtualAllocate`, `VirtualSetAttributes` with a size → `StatusErrStale`,
`VirtualWrite` → `(0, StatusErrStale)`; upload / frozen open / output-service stat → NotFound. -/
def CleanFail : Op → Out → Prop
  | .link, o => o = .st .stale
  | .open_ _, o => o = .st .stale
  | .mbegin _ _, o => o = .st .stale ∨ o = .wrote 0 .stale
  | .mwake _, o => o = .st .stale ∨ o = .wrote 0 .stale
  | .ubegin _ _ _ _, o => o = .st .notFound
  | .uwake _ _, o => o = .st .notFound
  | .statOpen _ _, o => o = .st .notFound
  | _, _ => True

theorem closed_mutBody {s : State} (h : Inv s) (hc : s.closed = true) (cf : ClosedFacts s) (t : Nat)
    (mop : MutOp) (hok : MutOk s mop) :
    (mutBody s t mop).1.refs = 0 ∧ (mutBody s t mop).1.closed = true ∧
    (mutBody s t mop).1.closeCalls = s.closeCalls ∧ (mutBody s t mop).1.bytes = s.bytes ∧
    ((mutBody s t mop).2 = .st .stale ∨ (mutBody s t mop).2 = .wrote 0 .stale) := by
  have hcase : s.checked = true ∨ ∃ m, mop = .openTrunc m := by
    rcases hok with hck | ⟨hd, hsz⟩
    · exact Or.inl hck
    · cases mop with
      | write off data => have := hd rfl; have := cf.rd; have := cf.wr; omega
      | alloc off len => have := hd rfl; have := cf.rd; have := cf.wr; omega
      | setattr n x =>
        rcases hsz n x rfl with h1 | h1
        · have := cf.rd; have := cf.wr; omega
        · have := cf.links; omega
      | openTrunc m => exact Or.inr ⟨m, rfl⟩
  have hp := perform_stale mop cf.refs hcase
  unfold mutBody
  rw [if_neg (by have := cf.frozen; omega)]
  simp only
  rw [hp.1]
  exact ⟨cf.refs, hc, rfl, rfl, hp.2⟩

/-- Once the pool file has been closed, every step the caller contract allows leaves
`referenceCount = 0`, does not call `Close` again, does not change the contents, and the
calls that would take a new reference fail cleanly. -/
theorem closed_step {s s' : State} {o : Out} (op : Op) (h : Inv s) (hc : s.closed = true)
    (hl : legal s op = true) (hs : step s op = some (s', o)) :
    s'.refs = 0 ∧ s'.closed = true ∧ s'.closeCalls = s.closeCalls ∧ s'.bytes = s.bytes ∧ CleanFail op o := by
  have cf := h.closedFacts hc
  unfold step at hs
  rw [if_neg (step_unfold h.noPanic)] at hs
  have hbl : baseLinks s = 0 := by have := h.refsEq; have := cf.refs; omega
  cases op <;> simp only at hs
  case link =>
    split at hs
    · rw [if_pos cf.links] at hs; cases hs; exact ⟨cf.refs, hc, rfl, rfl, rfl⟩
    · rw [if_pos cf.refs] at hs; cases hs; exact ⟨cf.refs, hc, rfl, rfl, rfl⟩
  case unlink =>
    have : 0 < s.linkCount := by simpa [legal] using hl
    have := cf.links; omega
  case open_ m =>
    rw [if_pos cf.refs] at hs; cases hs; exact ⟨cf.refs, hc, rfl, rfl, rfl⟩
  case close m =>
    have hh : 1 ≤ m.count ∧ b2n m.r ≤ s.rd ∧ b2n m.w ≤ s.wr := by simpa [legal] using hl
    have := cf.rd; have := cf.wr
    have : m.count = b2n m.r + b2n m.w := rfl
    omega
  case read off len =>
    have : 0 < s.rd + s.wr := by simpa [legal] using hl
    have := cf.rd; have := cf.wr; omega
  case seek off =>
    have : 0 < s.rd + s.wr := by simpa [legal] using hl
    have := cf.rd; have := cf.wr; omega
  case getattr => cases hs; exact ⟨cf.refs, hc, rfl, rfl, trivial⟩
  case setperm x => cases hs; exact ⟨cf.refs, hc, rfl, rfl, trivial⟩
  case chown => cases hs; exact ⟨cf.refs, hc, rfl, rfl, trivial⟩
  case persist => cases hs; exact ⟨cf.refs, hc, rfl, rfl, trivial⟩
  case mbegin t mop =>
    have hlm := legal_mut (s := s) (op := mop) hl
    split at hs
    · have e1 := some_pair_eq hs
      have e2 : (mutBody s t mop).2 = o := some_pair_eq2 hs
      rw [← e1, ← e2]
      exact closed_mutBody h hc cf t mop hlm
    · cases hs
  case mwake t =>
    split at hs
    · rename_i mop hpc
      have hlm : MutOk s mop := by
        apply legal_mut
        simp only [legal, hpc] at hl
        exact hl
      have e1 := some_pair_eq hs
      have e2 : (mutBody s t mop).2 = o := some_pair_eq2 hs
      rw [← e1, ← e2]
      exact closed_mutBody h hc cf t mop hlm
    · cases hs
  case ubegin t u k fn =>
    split at hs
    · rw [if_neg (by have := cf.writers; omega)] at hs
      have e1 := some_pair_eq hs
      have e2 : (openFrozenFor s t (frozenPcFor u fn)).2 = o := some_pair_eq2 hs
      rw [← e1, ← e2]
      unfold openFrozenFor
      rw [if_pos cf.refs]
      exact ⟨cf.refs, hc, rfl, rfl, rfl⟩
    · cases hs
  case uwake t v =>
    split at hs
    · rename_i u k fn woken hpc
      have key : ∀ p : State × Out, p = openFrozenFor s t (frozenPcFor u fn) →
          p.1.refs = 0 ∧ p.1.closed = true ∧ p.1.closeCalls = s.closeCalls ∧ p.1.bytes = s.bytes ∧
            p.2 = .st .notFound := by
        intro p hp
        rw [hp]
        unfold openFrozenFor
        rw [if_pos cf.refs]
        exact ⟨cf.refs, hc, rfl, rfl, rfl⟩
      split at hs
      · split at hs
        · split at hs
          · have e1 := some_pair_eq hs
            have e2 : (openFrozenFor s t (frozenPcFor u fn)).2 = o := some_pair_eq2 hs
            rw [← e1, ← e2]
            exact key _ rfl
          · cases hs
        · cases hs
      · split at hs
        · rw [if_neg (by have := cf.writers; omega)] at hs
          have e1 := some_pair_eq hs
          have e2 : (openFrozenFor s t (frozenPcFor u fn)).2 = o := some_pair_eq2 hs
          rw [← e1, ← e2]
          exact key _ rfl
        · cases hs
    · cases hs
  case udigest t =>
    split at hs
    · rename_i fn hpc
      have := cf.noFrozen t; rw [hpc] at this; cases this
    · cases hs
  case putDone t ok =>
    split at hs
    · rename_i d hpc
      have := cf.noFrozen t; rw [hpc] at this; cases this
    · cases hs
  case fread t off len =>
    split at hs
    · rename_i hpc
      have := cf.noFrozen t; rw [hpc] at this; cases this
    · cases hs
  case fclose t =>
    split at hs
    · rename_i hpc
      have := cf.noFrozen t; rw [hpc] at this; cases this
    · cases hs
  case statOpen t fn =>
    split at hs
    · rw [if_pos cf.writers] at hs
      have e1 := some_pair_eq hs
      have e2 : (openFrozenFor s t (.statFrozen fn)).2 = o := some_pair_eq2 hs
      rw [← e1, ← e2]
      unfold openFrozenFor
      rw [if_pos cf.refs]
      exact ⟨cf.refs, hc, rfl, rfl, rfl⟩
    · cases hs
  case statFinish t =>
    split at hs
    · rename_i fn hpc
      have := cf.noFrozen t; rw [hpc] at this; cases this
    · cases hs
  case fire k => cases hs; exact ⟨cf.refs, hc, rfl, rfl, trivial⟩
  case fault k v =>
    repeat' split at hs
    all_goals (cases hs; exact ⟨cf.refs, hc, rfl, rfl, trivial⟩)

end BbRe.Lemmas.FileRef
