import BbRe.Lemmas.DirBasic
/-!
The representation invariant of the directory store (`contents_inv`) and its
preservation by the primitive updates.  `InvF P s fl` is the invariant with a
multiset `fl` of *floating* references: children that have been detached (or
created / linked) but not attached yet.  `Inv` is `InvF` without floating
references; every operation starts and ends there.
-/
namespace BbRe.Lemmas.Dir
open BbRe.Dir

structure DirOK (P : Params) (x : Dir) : Prop where
  norm   : ∀ e ∈ x.entries, e.norm = P.normalize e.name
  nodup  : x.entries.Pairwise (fun a b => a.norm ≠ b.norm)
  sorted : x.entries.Pairwise (fun a b => a.cookie < b.cookie)
  bound  : ∀ e ∈ x.entries, e.cookie < x.changeID
  del    : x.deleted = true → x.entries = [] ∧ x.lazy = none
  lazy   : x.lazy ≠ none → x.entries = []

structure InvF (P : Params) (s : Store) (fl : List Child) : Prop where
  dirs      : ∀ x ∈ s.dirs, DirOK P x
  dirRef    : ∀ d, Child.dir d ∈ refs s ++ fl → d < s.dirs.length
  leafRef   : ∀ l, Child.leaf l ∈ refs s ++ fl → l < s.leaves.length
  oneParent : ∀ d, (refs s ++ fl).count (Child.dir d) ≤ 1
  links     : ∀ l, (s.leaf l).links = (refs s ++ fl).count (Child.leaf l)
  tmplLeaf  : ∀ t ∈ s.tmpls, ∀ c ∈ t, ∀ l, c.2 = TChild.leaf l → l < s.leaves.length

abbrev Inv (P : Params) (s : Store) : Prop := InvF P s []

theorem dirOK_default (P : Params) : DirOK P (default : Dir) :=
  ⟨(by intro e he; cases he), List.Pairwise.nil, List.Pairwise.nil, (by intro e he; cases he),
   (by intro h; cases h), (by intro _; rfl)⟩

theorem InvF.dirOK {P : Params} {s : Store} {fl : List Child} (h : InvF P s fl) (d : Nat) : DirOK P (s.dir d) := by
  by_cases hd : d < s.dirs.length
  · exact h.dirs _ (dir_mem s d hd)
  · rw [dir_default s d (by omega)]; exact dirOK_default P

/-! ### one directory -/

theorem DirOK.attach {P : Params} {x : Dir} (h : DirOK P x) (name nn : Nat) (c : Child)
    (hn : nn = P.normalize name) (hma : x.mayAttach nn = none) (hl : x.lazy = none) :
    DirOK P (x.attach name nn c) := by
  have hdel : x.deleted = false := by
    unfold Dir.mayAttach at hma; split at hma <;> simp_all
  have hnf : x.find? nn = none := by
    unfold Dir.mayAttach at hma
    simp [hdel] at hma
    cases hf : x.find? nn <;> simp_all
  rw [find?_eq_none] at hnf
  refine ⟨?_, ?_, ?_, ?_, ?_, ?_⟩
  · intro e he
    simp at he
    rcases he with he | he
    · exact h.norm e he
    · subst he; exact hn
  · simp only [attach_entries]
    rw [List.pairwise_append]
    refine ⟨h.nodup, List.pairwise_singleton _ _, ?_⟩
    intro a ha b hb
    simp at hb; subst hb
    exact hnf a ha
  · simp only [attach_entries]
    rw [List.pairwise_append]
    refine ⟨h.sorted, List.pairwise_singleton _ _, ?_⟩
    intro a ha b hb
    simp at hb; subst hb
    exact h.bound a ha
  · intro e he
    simp at he
    rcases he with he | he
    · have := h.bound e he; simp; omega
    · subst he; simp
  · intro hd; simp [hdel] at hd
  · intro hz; simp [hl] at hz

/-- Keeping a sublist of the entries and raising the change counter. -/
theorem DirOK.shrink {P : Params} {x : Dir} (h : DirOK P x) (p : Entry → Bool) (k : Nat) :
    DirOK P { x with entries := x.entries.filter p, changeID := x.changeID + k } := by
  refine ⟨?_, ?_, ?_, ?_, ?_, ?_⟩
  · intro e he; exact h.norm e (List.mem_filter.mp he).1
  · exact h.nodup.sublist List.filter_sublist
  · exact h.sorted.sublist List.filter_sublist
  · intro e he
    have := h.bound e (List.mem_filter.mp he).1
    simp; omega
  · intro hd
    have := h.del hd
    simp [this.1, this.2]
  · intro hz
    have := h.lazy hz
    simp [this]

theorem DirOK.detach {P : Params} {x : Dir} (h : DirOK P x) (n : Nat) : DirOK P (x.detach n) :=
  h.shrink (fun e => e.norm != n) 1

theorem DirOK.clear {P : Params} {x : Dir} (_h : DirOK P x) (k : Nat) (del : Bool) :
    DirOK P { x with lazy := none, entries := [], changeID := x.changeID + k, deleted := x.deleted || del } :=
  ⟨(by intro e he; cases he), List.Pairwise.nil, List.Pairwise.nil, (by intro e he; cases he),
   (by intro _; exact ⟨rfl, rfl⟩), (by intro _; rfl)⟩

theorem DirOK.unlazy {P : Params} {x : Dir} (h : DirOK P x) : DirOK P { x with lazy := none } :=
  ⟨h.norm, h.nodup, h.sorted, h.bound, (by intro hd; exact ⟨(h.del hd).1, rfl⟩), (by intro hz; simp at hz)⟩

/-! ### transport of the global part -/

theorem mem_of_count_le {A B : List Child} (h : ∀ c, A.count c ≤ B.count c) {c : Child} (hc : c ∈ A) : c ∈ B := by
  have h1 := List.count_pos_iff.mpr hc
  have h2 := h c
  exact List.count_pos_iff.mp (by omega)

/-- The global clauses follow from: every directory is fine, nothing shrank, no
reference count grew, and leaf link counts moved together with the references. -/
theorem InvF.transport {P : Params} {s s' : Store} {fl fl' : List Child} (h : InvF P s fl)
    (hdirs : ∀ x ∈ s'.dirs, DirOK P x)
    (hlen : s.dirs.length ≤ s'.dirs.length) (hlen2 : s.leaves.length ≤ s'.leaves.length)
    (htm : s'.tmpls = s.tmpls)
    (hdir : ∀ d, (refs s' ++ fl').count (Child.dir d) ≤ (refs s ++ fl).count (Child.dir d))
    (hleaf : ∀ l, (s'.leaf l).links + (refs s ++ fl).count (Child.leaf l) =
                  (s.leaf l).links + (refs s' ++ fl').count (Child.leaf l)) :
    InvF P s' fl' := by
  refine ⟨hdirs, ?_, ?_, ?_, ?_, ?_⟩
  · intro d hd
    have h1 := List.count_pos_iff.mpr hd
    have h2 := hdir d
    have := h.dirRef d (List.count_pos_iff.mp (by omega))
    omega
  · intro l hl
    have h1 := List.count_pos_iff.mpr hl
    have h2 := hleaf l
    have h3 := h.links l
    by_cases h4 : l < s.leaves.length
    · omega
    · -- l was not referenced before and has no links
      have h5 : ¬ (Child.leaf l ∈ refs s ++ fl) := fun hm => h4 (h.leafRef l hm)
      have h6 : (refs s ++ fl).count (Child.leaf l) = 0 := List.count_eq_zero.mpr h5
      by_cases h7 : l < s'.leaves.length
      · exact h7
      · rw [leaf_default s' l (by omega), leaf_default s l (by omega)] at h2
        omega
  · intro d; exact Nat.le_trans (hdir d) (h.oneParent d)
  · intro l
    have := hleaf l
    have := h.links l
    omega
  · intro t ht c hc l hl
    rw [htm] at ht
    have := h.tmplLeaf t ht c hc l hl
    omega

theorem count_append_cons (A fl : List Child) (c c' : Child) :
    (A ++ c :: fl).count c' = (A ++ fl).count c' + (if c = c' then 1 else 0) := by
  by_cases h : c = c'
  · subst h; simp [List.count_append, List.count_cons]; omega
  · have h' : ¬ (c' = c) := fun e => h e.symm
    simp [List.count_append, List.count_cons, h, h']

theorem dirs_set_ok {P : Params} {s : Store} {fl : List Child} (h : InvF P s fl) (d : Nat) (x : Dir) (hx : DirOK P x) :
    ∀ y ∈ (s.setDir d x).dirs, DirOK P y := by
  intro y hy
  rcases List.mem_or_eq_of_mem_set hy with h1 | h1
  · exact h.dirs y h1
  · subst h1; exact hx

/-! ### primitive updates -/

/-- Attaching a floating child. -/
theorem InvF.attach {P : Params} {s : Store} {fl : List Child} {c : Child} (h : InvF P s (c :: fl))
    (d : Nat) (hd : d < s.dirs.length) (name nn : Nat) (hn : nn = P.normalize name)
    (hma : (s.dir d).mayAttach nn = none) (hl : (s.dir d).lazy = none) :
    InvF P (s.modDir d (fun x => x.attach name nn c)) fl := by
  show InvF P (s.setDir d ((s.dir d).attach name nn c)) fl
  have hcnt : ∀ c', (refs (s.setDir d ((s.dir d).attach name nn c)) ++ fl).count c' = (refs s ++ c :: fl).count c' := by
    intro c'
    have := count_refs_setDir s d ((s.dir d).attach name nn c) c' hd
    rw [count_append_cons]
    simp only [List.count_append] at this ⊢
    by_cases hc : c = c'
    · subst hc; simp [List.count_append, List.count_cons] at this ⊢; omega
    · have hc' : ¬ (c' = c) := fun e => hc e.symm
      simp [List.count_append, List.count_cons, hc, hc'] at this ⊢; omega
  apply h.transport (dirs_set_ok h d _ ((h.dirOK d).attach name nn c hn hma hl))
  · simp
  · simp
  · rfl
  · intro d'; rw [hcnt]; exact Nat.le_refl _
  · intro l; rw [hcnt]; simp

/-- Detaching the entry stored under a normalised name; it becomes floating. -/
theorem InvF.detach {P : Params} {s : Store} {fl : List Child} (h : InvF P s fl)
    (d : Nat) (hd : d < s.dirs.length) (n : Nat) (e : Entry) (he : (s.dir d).find? n = some e) :
    InvF P (s.modDir d (fun x => x.detach n)) (e.child :: fl) := by
  show InvF P (s.setDir d ((s.dir d).detach n)) (e.child :: fl)
  have hcnt : ∀ c', (refs (s.setDir d ((s.dir d).detach n)) ++ e.child :: fl).count c' = (refs s ++ fl).count c' := by
    intro c'
    have h1 := count_refs_setDir s d ((s.dir d).detach n) c' hd
    have h2 := count_detach (s.dir d) n c' (h.dirOK d).nodup
    rw [he] at h2
    rw [count_append_cons]
    simp only [List.count_append, detach_entries] at h1 h2 ⊢
    by_cases hc : e.child = c'
    · simp [hc] at h2 ⊢; omega
    · simp [hc] at h2 ⊢; omega
  apply h.transport (dirs_set_ok h d _ ((h.dirOK d).detach n))
  · simp
  · simp
  · rfl
  · intro d'; rw [hcnt]; exact Nat.le_refl _
  · intro l; rw [hcnt]; simp

/-- Generalised detach: keep the entries satisfying `p`, the others become floating. -/
theorem InvF.detachMany {P : Params} {s : Store} {fl : List Child} (h : InvF P s fl)
    (d : Nat) (hd : d < s.dirs.length) (p : Entry → Bool) (k : Nat) :
    InvF P (s.setDir d { s.dir d with entries := (s.dir d).entries.filter p, changeID := (s.dir d).changeID + k })
      (((s.dir d).entries.filter (fun e => !p e)).map (fun e => e.child) ++ fl) := by
  have hsplit : ∀ (es : List Entry) (c' : Child),
      ((es.filter p).map (fun e => e.child)).count c' + ((es.filter (fun e => !p e)).map (fun e => e.child)).count c' =
        (es.map (fun e => e.child)).count c' := by
    intro es c'
    induction es with
    | nil => simp
    | cons e rest ih =>
      by_cases hp : p e <;> simp [List.filter_cons, hp, List.count_cons] at ih ⊢ <;> omega
  have hcnt : ∀ c', (refs (s.setDir d { s.dir d with entries := (s.dir d).entries.filter p, changeID := (s.dir d).changeID + k }) ++
      (((s.dir d).entries.filter (fun e => !p e)).map (fun e => e.child) ++ fl)).count c' = (refs s ++ fl).count c' := by
    intro c'
    have h1 := count_refs_setDir s d { s.dir d with entries := (s.dir d).entries.filter p, changeID := (s.dir d).changeID + k } c' hd
    have h2 := hsplit (s.dir d).entries c'
    simp only [List.count_append] at h1 ⊢
    omega
  apply h.transport (dirs_set_ok h d _ ((h.dirOK d).shrink p k))
  · simp
  · simp
  · rfl
  · intro d'; rw [hcnt]; exact Nat.le_refl _
  · intro l; rw [hcnt]; simp

/-- `Link()` succeeded: one more floating reference to the leaf. -/
theorem InvF.link {P : Params} {s : Store} {fl : List Child} (h : InvF P s fl) (l : Nat) (hl : l < s.leaves.length) :
    InvF P (s.link l) (Child.leaf l :: fl) := by
  apply h.transport
  · exact h.dirs
  · simp
  · simp
  · rfl
  · intro d; rw [count_append_cons]; simp
  · intro l'
    rw [count_append_cons, links_link]
    simp
    by_cases h1 : l = l'
    · subst h1; simp [hl]; omega
    · simp [h1]

/-- `Unlink()` of a floating leaf reference. -/
theorem InvF.unlink {P : Params} {s : Store} {fl : List Child} {l : Nat} (h : InvF P s (Child.leaf l :: fl)) :
    InvF P (s.unlink l) fl := by
  have hl : l < s.leaves.length := h.leafRef l (by simp)
  have hpos : 1 ≤ (s.leaf l).links := by
    rw [h.links l, count_append_cons]; simp
  apply h.transport
  · exact h.dirs
  · simp
  · simp
  · rfl
  · intro d; rw [count_append_cons]; simp
  · intro l'
    rw [count_append_cons, links_unlink]
    simp
    by_cases h1 : l = l'
    · subst h1; simp [hl]; omega
    · simp [h1]

/-- A floating directory reference may simply be dropped (the directory is orphaned). -/
theorem InvF.dropDir {P : Params} {s : Store} {fl : List Child} {d : Nat} (h : InvF P s (Child.dir d :: fl)) :
    InvF P s fl := by
  apply h.transport h.dirs (Nat.le_refl _) (Nat.le_refl _) rfl
  · intro d'; rw [count_append_cons]; omega
  · intro l; rw [count_append_cons]; simp

/-- A fresh leaf that starts with one (floating) reference. -/
theorem InvF.pushLeafOwned {P : Params} {s : Store} {fl : List Child} (h : InvF P s fl) (k : Nat) :
    InvF P (s.pushLeaf { kind := k, links := 1 }) (Child.leaf s.leaves.length :: fl) := by
  have hfresh : (refs s ++ fl).count (Child.leaf s.leaves.length) = 0 := by
    apply List.count_eq_zero.mpr
    intro hm
    have := h.leafRef _ hm
    omega
  apply h.transport
  · exact h.dirs
  · simp
  · simp
  · rfl
  · intro d; rw [count_append_cons]; simp
  · intro l
    simp only [refs_pushLeaf]
    rw [count_append_cons, leaf_pushLeaf]
    by_cases h1 : l = s.leaves.length
    · subst h1
      have := h.links s.leaves.length
      simp; omega
    · have h2 : ¬ s.leaves.length = l := fun h' => h1 h'.symm
      simp [h1, h2]

/-- A fresh leaf without references (created by the harness, not yet handed over). -/
theorem InvF.pushLeafFree {P : Params} {s : Store} {fl : List Child} (h : InvF P s fl) (k : Nat) :
    InvF P (s.pushLeaf { kind := k, links := 0 }) fl := by
  have hfresh : (refs s ++ fl).count (Child.leaf s.leaves.length) = 0 := by
    apply List.count_eq_zero.mpr
    intro hm
    have := h.leafRef _ hm
    omega
  apply h.transport
  · exact h.dirs
  · simp
  · simp
  · rfl
  · intro d; simp
  · intro l
    simp only [refs_pushLeaf]
    rw [leaf_pushLeaf]
    by_cases h1 : l = s.leaves.length
    · subst h1
      have := h.links s.leaves.length
      simp; omega
    · simp [h1]

/-- A fresh directory without entries; `float` says whether a reference to it is floating. -/
theorem InvF.pushDir {P : Params} {s : Store} {fl : List Child} (h : InvF P s fl) (x : Dir) (hx : DirOK P x)
    (he : x.entries = []) : InvF P (s.pushDir x) (Child.dir s.dirs.length :: fl) := by
  have hfresh : (refs s ++ fl).count (Child.dir s.dirs.length) = 0 := by
    apply List.count_eq_zero.mpr
    intro hm
    have := h.dirRef _ hm
    omega
  have hrefs : refs (s.pushDir x) = refs s := by rw [refs_pushDir, he]; simp
  refine ⟨?_, ?_, ?_, ?_, ?_, ?_⟩
  · intro y hy
    simp at hy
    rcases hy with hy | hy
    · exact h.dirs y hy
    · subst hy; exact hx
  · intro d hd
    rw [hrefs] at hd
    simp at hd ⊢
    rcases hd with hd | hd | hd
    · have := h.dirRef d (by simp [hd]); omega
    · omega
    · have := h.dirRef d (by simp [hd]); omega
  · intro l hl
    rw [hrefs] at hl
    simp at hl ⊢
    exact h.leafRef l (by simpa using hl)
  · intro d
    rw [hrefs, count_append_cons]
    have h0 := h.oneParent d
    by_cases h1 : s.dirs.length = d
    · subst h1; rw [hfresh]; simp
    · have h2 : ¬ (Child.dir s.dirs.length = Child.dir d) := by intro h'; cases h'; exact h1 rfl
      rw [if_neg h2]; exact h0
  · intro l
    rw [hrefs, count_append_cons]
    simpa using h.links l
  · exact h.tmplLeaf

theorem InvF.pushRoot {P : Params} {s : Store} {fl : List Child} (h : InvF P s fl) (x : Dir) (hx : DirOK P x)
    (he : x.entries = []) : InvF P (s.pushDir x) fl :=
  (h.pushDir x hx he).dropDir

/-- Forgetting the fetcher of a directory that has no entries. -/
theorem InvF.unlazy {P : Params} {s : Store} {fl : List Child} (h : InvF P s fl) (d : Nat) :
    InvF P (s.modDir d (fun x => { x with lazy := none })) fl := by
  by_cases hd : d < s.dirs.length
  · show InvF P (s.setDir d { s.dir d with lazy := none }) fl
    have hcnt : ∀ c', (refs (s.setDir d { s.dir d with lazy := none }) ++ fl).count c' = (refs s ++ fl).count c' := by
      intro c'
      have h1 := count_refs_setDir s d { s.dir d with lazy := none } c' hd
      simp only [List.count_append] at h1 ⊢
      omega
    apply h.transport (dirs_set_ok h d _ (h.dirOK d).unlazy)
    · simp
    · simp
    · rfl
    · intro d'; rw [hcnt]; exact Nat.le_refl _
    · intro l; rw [hcnt]; simp
  · have : s.modDir d (fun x => { x with lazy := none }) = s := by
      unfold Store.modDir Store.setDir
      rw [List.set_eq_of_length_le (by omega)]
    rw [this]; exact h

/-! ### bulk removal -/

theorem links_unlinkLeaves (s : Store) (es : List Entry) (l : Nat)
    (hv : ∀ l', Child.leaf l' ∈ es.map (fun e => e.child) → l' < s.leaves.length) :
    ((unlinkLeaves s es).leaf l).links = (s.leaf l).links - (es.map (fun e => e.child)).count (Child.leaf l) := by
  induction es generalizing s with
  | nil => simp [unlinkLeaves]
  | cons e rest ih =>
    unfold unlinkLeaves
    cases hc : e.child with
    | dir d' =>
      simp only []
      rw [ih s (by intro l' hl'; exact hv l' (by simp [hl']))]
      simp [hc]
    | leaf l0 =>
      simp only []
      have hl0 : l0 < s.leaves.length := hv l0 (by simp [hc])
      rw [ih (s.unlink l0) (by intro l' hl'; simpa using hv l' (by simp [hl']))]
      rw [links_unlink]
      by_cases h1 : l0 = l
      · subst h1; simp [hc, hl0]; omega
      · have h2 : ¬ (Child.leaf l0 = Child.leaf l) := by intro h'; cases h'; exact h1 rfl
        simp [hc, h1, h2]

theorem unlinkLeaves_dirs (s : Store) (es : List Entry) : (unlinkLeaves s es).dirs = s.dirs := by
  induction es generalizing s with
  | nil => rfl
  | cons e rest ih => unfold unlinkLeaves; cases e.child <;> simp [ih]

theorem unlinkLeaves_leaves_length (s : Store) (es : List Entry) : (unlinkLeaves s es).leaves.length = s.leaves.length := by
  induction es generalizing s with
  | nil => rfl
  | cons e rest ih => unfold unlinkLeaves; cases e.child <;> simp [ih]

theorem unlinkLeaves_tmpls (s : Store) (es : List Entry) : (unlinkLeaves s es).tmpls = s.tmpls := by
  induction es generalizing s with
  | nil => rfl
  | cons e rest ih => unfold unlinkLeaves; cases e.child <;> simp [ih]

theorem unlinkLeaves_fetchFail (s : Store) (es : List Entry) : (unlinkLeaves s es).fetchFail = s.fetchFail := by
  induction es generalizing s with
  | nil => rfl
  | cons e rest ih => unfold unlinkLeaves; cases e.child <;> simp [ih]

theorem unlinkLeaves_allocFail (s : Store) (es : List Entry) : (unlinkLeaves s es).allocFail = s.allocFail := by
  induction es generalizing s with
  | nil => rfl
  | cons e rest ih => unfold unlinkLeaves; cases e.child <;> simp [ih]

/-- Unlinking floating leaf references and dropping floating directory references. -/
theorem InvF.unlinkFloating {P : Params} {s : Store} {fl : List Child} (es : List Entry)
    (h : InvF P s (es.map (fun e => e.child) ++ fl)) : InvF P (unlinkLeaves s es) fl := by
  induction es generalizing s with
  | nil => simpa [unlinkLeaves] using h
  | cons e rest ih =>
    unfold unlinkLeaves
    cases hc : e.child with
    | dir d' =>
      simp only []
      apply ih
      have h' : InvF P s (Child.dir d' :: (rest.map (fun e => e.child) ++ fl)) := by simpa [hc] using h
      exact h'.dropDir
    | leaf l0 =>
      simp only []
      apply ih
      have h' : InvF P s (Child.leaf l0 :: (rest.map (fun e => e.child) ++ fl)) := by simpa [hc] using h
      exact h'.unlink

/-- What `clearDir` leaves of the directory record. -/
def clearedDir (x : Dir) (del : Bool) : Dir :=
  { x with lazy := none, entries := [], changeID := x.changeID + x.entries.length, deleted := x.deleted || del }

theorem clearDir_eq (s : Store) (d : Nat) (del : Bool) :
    BbRe.Dir.clearDir s d del = (unlinkLeaves s (s.dir d).entries).setDir d (clearedDir (s.dir d) del) := rfl

/-- `clearDir`: all entries of `d` go away, the leaves among them are unlinked. -/
theorem InvF.clearDir {P : Params} {s : Store} {fl : List Child} (h : InvF P s fl) (d : Nat) (del : Bool) :
    InvF P (clearDir s d del) fl := by
  rw [clearDir_eq]
  by_cases hd : d < s.dirs.length
  · have hsub : ∀ c, c ∈ (s.dir d).entries.map (fun e => e.child) → c ∈ refs s := by
      intro c hc
      obtain ⟨e, he, rfl⟩ := List.mem_map.mp hc
      exact mem_refs.mpr ⟨s.dir d, dir_mem s d hd, e, he, rfl⟩
    have hv : ∀ l', Child.leaf l' ∈ (s.dir d).entries.map (fun e => e.child) → l' < s.leaves.length := by
      intro l' hl'
      exact h.leafRef l' (by simp [hsub _ hl'])
    have hud : (unlinkLeaves s (s.dir d).entries).dirs = s.dirs := unlinkLeaves_dirs s _
    have hur : refs (unlinkLeaves s (s.dir d).entries) = refs s := refs_of_dirs hud
    have hudir : (unlinkLeaves s (s.dir d).entries).dir d = s.dir d := dir_eq_of_dirs hud d
    have hcnt : ∀ c', (refs ((unlinkLeaves s (s.dir d).entries).setDir d (clearedDir (s.dir d) del))).count c' +
        ((s.dir d).entries.map (fun e => e.child)).count c' = (refs s).count c' := by
      intro c'
      have h1 := count_refs_setDir (unlinkLeaves s (s.dir d).entries) d (clearedDir (s.dir d) del) c' (by rw [hud]; exact hd)
      rw [hudir, hur] at h1
      simpa [clearedDir] using h1
    apply h.transport
    · intro y hy
      have hy' : y ∈ s.dirs.set d (clearedDir (s.dir d) del) := by
        simpa [unlinkLeaves_dirs] using hy
      rcases List.mem_or_eq_of_mem_set hy' with h1 | h1
      · exact h.dirs y h1
      · subst h1; exact (h.dirOK d).clear _ del
    · simp [unlinkLeaves_dirs]
    · simp [unlinkLeaves_leaves_length]
    · simp [unlinkLeaves_tmpls]
    · intro d'
      have := hcnt (Child.dir d')
      simp only [List.count_append]
      omega
    · intro l
      have h1 := hcnt (Child.leaf l)
      have h2 : (((unlinkLeaves s (s.dir d).entries).setDir d (clearedDir (s.dir d) del)).leaf l).links =
          (s.leaf l).links - ((s.dir d).entries.map (fun e => e.child)).count (Child.leaf l) := by
        simpa using links_unlinkLeaves s (s.dir d).entries l hv
      have h3 := h.links l
      simp only [List.count_append] at h3 ⊢
      omega
  · have : (unlinkLeaves s (s.dir d).entries).setDir d (clearedDir (s.dir d) del) = unlinkLeaves s (s.dir d).entries := by
      unfold Store.setDir
      rw [List.set_eq_of_length_le (by rw [unlinkLeaves_dirs]; omega)]
    rw [this, dir_default s d (by omega)]
    exact h

/-- `removeTree`: clearing directories one after the other. -/
theorem InvF.removeTree {P : Params} (fuel : Nat) {s : Store} {fl : List Child} (h : InvF P s fl) (stack : List Nat) :
    InvF P (removeTree fuel s stack) fl := by
  induction fuel generalizing s stack with
  | zero => simpa [BbRe.Dir.removeTree] using h
  | succ n ih =>
    cases stack with
    | nil => simpa [BbRe.Dir.removeTree] using h
    | cons d rest =>
      simp only [BbRe.Dir.removeTree]
      exact ih (h.clearDir d true) _

/-- `postRemoveChildren` of floating entries. -/
theorem InvF.postRemove {P : Params} {s : Store} {fl : List Child} (es : List Entry)
    (h : InvF P s (es.map (fun e => e.child) ++ fl)) : InvF P (postRemove s es) fl := by
  unfold BbRe.Dir.postRemove
  exact (InvF.unlinkFloating es h).removeTree _ _

end BbRe.Lemmas.Dir
