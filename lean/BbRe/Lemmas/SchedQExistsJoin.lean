import BbRe.Lemmas.SchedQExistsSync
import BbRe.Lemmas.SchedInvProps
/-!
A fresh worker that synchronizes on a size-class queue holding queued tasks is handed one of them:
the `Synchronize` arrival segment computed step by step (no oracle freedom beyond the choice among the
queued tasks of that queue).
-/
namespace BbRe.Lemmas.SchedQ
open BbRe.Sched BbRe.Lemmas.SchedInv

/-- the task record after `assignQueuedTask` handed `t` to worker `wk` -/
def assignedT (wk : Worker) (t : Task) : Task :=
  bumpGen { t with worker := some (wk.scq, wk.id), retry := 0, queued := false }

/-- the state after `assignNextQueuedTask` handed `t` to worker `wk` -/
def assignedSt (s : State) (wk : Worker) (t : Task) : State := (assignSt s wk t).setTask (assignedT wk t)

theorem queued_worker_none {s : State} {q : ScqId} {t : Task} (h : t ∈ queuedTasks s q) :
    t.worker = none ∧ t.response = none ∧ t.scq = q := by
  unfold queuedTasks at h
  obtain ⟨p, hp, he⟩ := List.mem_map.mp h
  have hp2 := (List.mem_filter.mp hp).2
  simp only [decide_eq_true_eq] at hp2
  subst he
  exact ⟨by simpa using hp2.2.2.1, by simpa using hp2.2.2.2, hp2.1⟩

/-- an admissible hint for worker `(q, w)`: it names the lowest operation of a queued task of `q` -/
def Admissible (h : Hints) (s : State) (q : ScqId) (w : WId) (t' : Task) : Prop :=
  ∃ a, h.assign.find? (fun a => a.1 = q ∧ a.2.1 = w) = some a ∧
    (queuedTasks s q).find? (fun t => lowestOp t = a.2.2) = some t'

theorem Admissible.mem {h : Hints} {s : State} {q : ScqId} {w : WId} {t' : Task} (ha : Admissible h s q w t') :
    t' ∈ queuedTasks s q := by
  obtain ⟨a, _, h2⟩ := ha
  exact List.mem_of_find?_eq_some h2

theorem assignNext_hit {h : Hints} {s : State} {wk : Worker} {t' : Task} (hwt : wk.task = none)
    (ha : Admissible h s wk.scq wk.id t') : assignNext h s wk = .ok (assignedSt s wk t', true) := by
  obtain ⟨a, h1, h2⟩ := ha
  have htw := (queued_worker_none (List.mem_of_find?_eq_some h2)).1
  unfold assignNext
  simp only [h1, h2]
  rw [assignTo_eq]
  simp only [hwt, htw, Option.isSome_none, Bool.false_eq_true, if_false, ok_bind', task?_def]
  have : alookup t'.id (assignSt s wk t').tasks =
      some { t' with worker := some (wk.scq, wk.id), retry := 0, queued := false } := by
    simp only [assignSt, State.setTask]; rw [alookup_aset]; simp
  rw [this]
  rfl

theorem assignedSt_worker {s : State} {q : ScqId} {w : WId} {wk : Worker} (t : Task)
    (hw : wfind s.workers q w = some wk) :
    wfind (assignedSt s wk t).workers q w = some { wk with task := some t.id } := by
  have := wfind_setWorker_self (wk' := { wk with task := some t.id }) hw rfl rfl
  exact this

theorem assignedSt_task (s : State) (wk : Worker) (t : Task) :
    alookup t.id (assignedSt s wk t).tasks = some (assignedT wk t) := by
  simp only [assignedSt, State.setTask, assignedT, bumpGen]; rw [alookup_aset]; simp

/-- what the segment leaves behind -/
structure Served (s s' : State) (q : ScqId) (w : WId) (t : Task) : Prop where
  ev : s'.events = .syncExecute q w t.digest (s.now + s.cfg.busyInterval) :: s.events
  tk : ∃ T, s'.task? t.id = some T ∧ T.worker = some (q, w) ∧ T.response = none ∧ T.stage = 3 ∧
    T.digest = t.digest ∧ T.ops = t.ops
  wk : ∃ W, s'.worker? q w = some W ∧ W.task = some t.id ∧ W.inSync = false

theorem getNextTask_hit {h : Hints} {s : State} {q : ScqId} {w : WId} {wk : Worker} {sq : Scq} {t' : Task}
    (hw : wfind s.workers q w = some wk) (hwt : wk.task = none) (hsq : s.scq? q = some sq)
    (hnd : isDrained sq wk = false) (ha : Admissible h s q w t') :
    ∃ s', getNextTask h s q w false true = .ok s' ∧ s'.events = .syncExecute q w t'.digest (s.now + s.cfg.busyInterval) :: s.events ∧
      s'.tasks = (assignedSt s wk t').tasks ∧
      ∃ W, wfind s'.workers q w = some W ∧ W.task = some t'.id ∧ W.inSync = false := by
  obtain ⟨hk1, hk2⟩ := wfind_key hw
  have ha' : Admissible h s wk.scq wk.id t' := by rw [hk1, hk2]; exact ha
  have hw3 := assignedSt_worker t' hw
  have ht3 := assignedSt_task s wk t'
  unfold getNextTask
  simp only [worker?_def, hw, hsq, hnd, Bool.false_eq_true, if_false, Bool.not_false, if_true,
    assignNext_hit hwt ha', ok_bind', hw3]
  unfold execResponse
  simp only [task?_def, ht3, ok_bind']
  refine ⟨_, rfl, ?_, ?_, ?_⟩
  · rw [syncReturn_events]
    simp only [emit, assignedT, bumpGen, hk1, hk2]
    rfl
  · rw [syncReturn_eq]
    simp only [worker?_def]
    have : wfind (emit (assignedSt s wk t') (.syncExecute wk.scq wk.id (assignedT wk t').digest
        ((assignedSt s wk t').now + (assignedSt s wk t').cfg.busyInterval))).workers q w =
        some { wk with task := some t'.id } := hw3
    rw [this]
    rfl
  · rw [syncReturn_eq]
    simp only [worker?_def]
    have : wfind (emit (assignedSt s wk t') (.syncExecute wk.scq wk.id (assignedT wk t').digest
        ((assignedSt s wk t').now + (assignedSt s wk t').cfg.busyInterval))).workers q w =
        some { wk with task := some t'.id } := hw3
    rw [this]
    refine ⟨resetW { wk with task := some t'.id }, ?_, rfl, rfl⟩
    exact wfind_setWorker_self (s := emit (assignedSt s wk t') _) this rfl rfl

/-- **A joining worker is served.**  `Synchronize` of a worker `(q, w)` that is not registered, on a
registered queue `q` that has no drain matching it, reporting idle, not preferring to stay idle, with a
hint naming a queued task `t'` of `q`: the segment succeeds, tells the worker to execute `t'`, and
`t'` is assigned to it. -/
theorem sync_join_served {h : Hints} {s : State} {now : Nat} {q : ScqId} {comps : List Nat} {platform : Nat}
    {w : WId} {sq : Scq} {t' : Task} (hnow : now ≤ s.now) (hsq : s.scq? q = some sq)
    (hfresh : s.worker? q w = none) (hnd : sq.drains.any (fun p => p.matches w) = false)
    (ha : Admissible h s q w t') :
    ∃ s', step s (.sync h now q comps platform w .idle false) = .ok s' ∧ Served s s' q w t' := by
  have hfresh' : wfind s.workers q w = none := hfresh
  let s2 : State := { s.removeCleanup (.scq q) with workers := s.workers ++ [freshW q w] }
  have hw2 : wfind s2.workers q w = some (freshW q w) := by
    show wfind (s.workers ++ [freshW q w]) q w = _
    rw [wfind_append, hfresh']; simp [freshW]
  have hsq2 : s2.scq? q = some sq := hsq
  have ha2 : Admissible h s2 q w t' := ha
  have hnd2 : isDrained sq (freshW q w) = false := by
    unfold isDrained; simp only [freshW, Bool.false_or]; exact hnd
  obtain ⟨s', he, hev, htk, W, hW, hWt, hWs⟩ := getNextTask_hit (h := h) hw2 rfl hsq2 hnd2 ha2
  refine ⟨s', ?_, ⟨hev, ?_, ⟨W, hW, hWt, hWs⟩⟩⟩
  · show syncArrive h s now q comps platform w .idle false = .ok s'
    rw [syncArrive_eq, enter_noop hnow]
    simp only [ok_bind']
    unfold syncQueue
    simp only [hsq, ok_bind']
    simp only [pure_bind]
    have hsw : syncWorker (s.removeCleanup (.scq q)) q w = .inr s2 := by
      unfold syncWorker
      have : (s.removeCleanup (.scq q)).worker? q w = none := hfresh
      simp only [this]
      rfl
    rw [hsw]
    simp only []
    unfold syncBody
    simp only [worker?_def, hw2]
    unfold getCurrentOrNext
    simp only [worker?_def, hw2, freshW]
    exact he
  · refine ⟨assignedT (freshW q w) t', ?_, rfl, ?_, ?_, rfl, rfl⟩
    · show alookup t'.id s'.tasks = _
      rw [htk]; exact assignedSt_task s2 _ t'
    · exact (queued_worker_none ha.mem).2.1
    · simp [Task.stage, assignedT, bumpGen, (queued_worker_none ha.mem).2.1]

/-- the hint that names task `t` is admissible up to ties on the lowest operation name: it selects a
queued task of the same queue -/
theorem admissible_of_mem {s : State} {q : ScqId} (w : WId) {t : Task} (h : t ∈ queuedTasks s q) :
    ∃ t', Admissible ⟨[(q, w, lowestOp t)], 0, none, false⟩ s q w t' := by
  cases hf : (queuedTasks s q).find? (fun x => lowestOp x = lowestOp t) with
  | some t' => exact ⟨t', (q, w, lowestOp t), by simp, hf⟩
  | none =>
    have := List.find?_eq_none.mp hf t h
    simp at this

/-! ## the hint identifies the task: operation names belong to one task -/

theorem foldl_low_mem (l : List Nat) (a : Nat) :
    l.foldl (fun a b => if a = 0 ∨ b < a then b else a) a ∈ a :: l := by
  induction l generalizing a with
  | nil => simp
  | cons b r ih =>
    rw [List.foldl_cons]
    have := ih (if a = 0 ∨ b < a then b else a)
    rcases List.mem_cons.mp this with h | h
    · rw [h]; split <;> simp
    · exact List.mem_cons_of_mem _ (List.mem_cons_of_mem _ h)

theorem lowestOp_mem {t : Task} (h : t.ops ≠ []) : lowestOp t ∈ t.ops := by
  unfold lowestOp
  cases ho : t.ops with
  | nil => exact absurd ho h
  | cons b r =>
    rw [List.foldl_cons]
    simp only [true_or, if_true]
    exact foldl_low_mem r b

/-- two tasks of a state satisfying `Inv` with the same lowest operation name are the same task -/
theorem lowestOp_inj {s : State} (hI : Inv s) {k k' : Nat} {t t' : Task} (ht : alookup k s.tasks = some t)
    (ht' : alookup k' s.tasks = some t') (h : lowestOp t = lowestOp t') : t = t' := by
  have h1 := lowestOp_mem (hI.oinv.o3 k t ht).2
  have h2 := lowestOp_mem (hI.oinv.o3 k' t' ht').2
  rw [h] at h1
  rcases (hI.oinv.o2 k t _ ht h1).2 with a | ⟨op, a, b⟩
  · exact absurd a id
  · rcases (hI.oinv.o2 k' t' _ ht' h2).2 with a' | ⟨op', a', b'⟩
    · exact absurd a' id
    · rw [a] at a'; cases a'
      have : k = k' := b.symm.trans b'
      subst this
      rw [ht] at ht'; exact Option.some.inj ht'

/-- in a state satisfying `Inv` the hint that names queued task `t` selects exactly `t` -/
theorem admissible_self {s : State} (hI : Inv s) {q : ScqId} (w : WId) {t : Task} (h : t ∈ queuedTasks s q) :
    Admissible ⟨[(q, w, lowestOp t)], 0, none, false⟩ s q w t := by
  obtain ⟨t', a, h1, h2⟩ := admissible_of_mem w h
  have ha : a = (q, w, lowestOp t) := by simpa using h1.symm
  have hm := List.mem_of_find?_eq_some h2
  have hp := List.find?_some h2
  simp only [decide_eq_true_eq, ha] at hp
  obtain ⟨k, hk, _⟩ := BbRe.Lemmas.SchedInv.mem_queuedTasks hI.core.tnd h
  obtain ⟨k', hk', _⟩ := BbRe.Lemmas.SchedInv.mem_queuedTasks hI.core.tnd hm
  have := lowestOp_inj hI hk' hk hp
  subst this
  exact ⟨a, h1, h2⟩

end BbRe.Lemmas.SchedQ
