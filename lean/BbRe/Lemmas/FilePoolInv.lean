import BbRe.Lemmas.FilePoolAlloc
/-!
The accounting invariant of one file against the allocator, parametric in the
set `O` of sectors owned by the *other* files: `Part n O A F` says the allocated
list `A` is the disjoint union of this file's non-zero sectors `F` and `O`.
Every operation of `Model/FilePool.lean` on a file preserves it with the same
`O` — for every oracle (allocator answers, fault plan).
-/
namespace BbRe.Lemmas.FilePool
open BbRe.FilePool

structure Part (n : Nat) (O : Nat → Prop) (A F : List Nat) : Prop where
  nodupA : A.Nodup
  nodupF : F.Nodup
  mem : ∀ s, s ∈ A ↔ (s ∈ F ∨ O s)
  sep : ∀ s ∈ F, ¬ O s
  range : ∀ s ∈ A, 1 ≤ s ∧ s ≤ n

/-- same allocated set, same file sectors (up to permutation). -/
theorem Part.same {n O A F A' F'} (h : Part n O A F) (hA : A'.Nodup) (hm : ∀ s, s ∈ A' ↔ s ∈ A)
    (hF : F'.Perm F) : Part n O A' F' :=
  ⟨hA, hF.nodup_iff.mpr h.nodupF, fun s => by rw [hm, h.mem, hF.mem_iff],
    fun s hs => h.sep s (hF.mem_iff.mp hs), fun s hs => h.range s ((hm s).mp hs)⟩

/-- a fresh run is allocated and added to the file. -/
theorem Part.add {n O A F F'} {first count : Nat} (h : Part n O A F) (hf : 1 ≤ first)
    (hr : first + count ≤ n + 1) (hfresh : ∀ s, first ≤ s → s < first + count → s ∉ A)
    (hF : F'.Perm (List.range' first count ++ F)) : Part n O (List.range' first count ++ A) F' := by
  have hdisj : ∀ a, a ∈ List.range' first count → a ∉ A := by
    intro a ha; have := List.mem_range'_1.mp ha; exact hfresh a this.1 this.2
  refine ⟨?_, ?_, ?_, ?_, ?_⟩
  · refine List.nodup_append.mpr ⟨List.nodup_range', h.nodupA, ?_⟩
    intro a ha b hb hab; subst hab; exact hdisj a ha hb
  · rw [hF.nodup_iff]
    refine List.nodup_append.mpr ⟨List.nodup_range', h.nodupF, ?_⟩
    intro a ha b hb hab; subst hab; exact hdisj a ha ((h.mem a).mpr (Or.inl hb))
  · intro s
    rw [List.mem_append, hF.mem_iff, List.mem_append, h.mem]
    constructor
    · rintro (h1 | h1 | h1)
      · exact Or.inl (Or.inl h1)
      · exact Or.inl (Or.inr h1)
      · exact Or.inr h1
    · rintro ((h1 | h1) | h1)
      · exact Or.inl h1
      · exact Or.inr (Or.inl h1)
      · exact Or.inr (Or.inr h1)
  · intro s hs
    rcases List.mem_append.mp (hF.mem_iff.mp hs) with h1 | h1
    · intro ho; exact hdisj s h1 ((h.mem s).mpr (Or.inr ho))
    · exact h.sep s h1
  · intro s hs
    rcases List.mem_append.mp hs with h1 | h1
    · have := List.mem_range'_1.mp h1; omega
    · exact h.range s h1

/-- part of the file's sectors is freed. -/
theorem Part.remove {n O A F A' F'} {L : List Nat} (h : Part n O A F) (hA : A'.Nodup)
    (hm : ∀ s, s ∈ A' ↔ (s ∈ A ∧ ¬ (s ∈ L ∧ s ≠ 0))) (hLF : ∀ s ∈ L, s ≠ 0 → s ∈ F)
    (hF : F'.Nodup) (hFm : ∀ s, s ∈ F' ↔ (s ∈ F ∧ ¬ (s ∈ L ∧ s ≠ 0))) : Part n O A' F' := by
  refine ⟨hA, hF, ?_, ?_, ?_⟩
  · intro s
    rw [hm, hFm, h.mem]
    constructor
    · rintro ⟨h1 | h1, h2⟩
      · exact Or.inl ⟨h1, h2⟩
      · exact Or.inr h1
    · rintro (⟨h1, h2⟩ | h1)
      · exact ⟨Or.inl h1, h2⟩
      · exact ⟨Or.inr h1, fun ⟨h3, h4⟩ => h.sep s (hLF s h3 h4) h1⟩
  · intro s hs; exact h.sep s ((hFm s).mp hs).1
  · intro s hs; exact h.range s ((hm s).mp hs).1

/-! ## trimZeros -/

theorem trimZeros_getD (l : List Nat) : ∀ q, (trimZeros l).getD q 0 = l.getD q 0 := by
  induction l with
  | nil => intro q; rfl
  | cons x xs ih =>
    intro q
    unfold trimZeros
    split
    · rename_i heq
      have ih' : ∀ q, xs.getD q 0 = 0 := by intro q; rw [← ih q, heq]; rfl
      split
      · rename_i hx; subst hx
        cases q with
        | zero => rfl
        | succ q => simp only [List.getD_cons_succ, ih' q]; rfl
      · cases q with
        | zero => rfl
        | succ q => simp only [List.getD_cons_succ, ih' q]; rfl
    · rename_i y ys heq
      cases q with
      | zero => rfl
      | succ q => simp only [List.getD_cons_succ]; rw [← heq]; exact ih q

theorem mem_iff_getD {l : List Nat} {s : Nat} (hs : s ≠ 0) : s ∈ l ↔ ∃ q, l.getD q 0 = s := by
  constructor
  · intro h
    obtain ⟨q, hq, rfl⟩ := List.getElem_of_mem h
    exact ⟨q, by simp [List.getD_eq_getElem?_getD, hq]⟩
  · rintro ⟨q, hq⟩
    by_cases hlt : q < l.length
    · simp only [List.getD_eq_getElem?_getD, List.getElem?_eq_getElem hlt, Option.getD_some] at hq
      exact hq ▸ List.getElem_mem hlt
    · simp only [List.getD_eq_getElem?_getD, List.getElem?_eq_none (Nat.le_of_not_lt hlt), Option.getD_none] at hq
      exact absurd hq.symm hs

theorem trimZeros_sublist (l : List Nat) : (trimZeros l).Sublist l := by
  induction l with
  | nil => exact List.Sublist.refl _
  | cons x xs ih =>
    unfold trimZeros
    split
    · split
      · exact List.nil_sublist _
      · exact List.Sublist.cons₂ _ (List.nil_sublist _)
    · rename_i y ys heq
      rw [← heq]; exact List.Sublist.cons₂ _ ih

theorem trimZeros_length_le (l : List Nat) : (trimZeros l).length ≤ l.length :=
  (trimZeros_sublist l).length_le

theorem mem_nz_trimZeros (l : List Nat) (s : Nat) : s ∈ nz (trimZeros l) ↔ s ∈ nz l := by
  rw [mem_nz, mem_nz]
  constructor
  · rintro ⟨h1, h2⟩
    exact ⟨(trimZeros_sublist l).subset h1, h2⟩
  · rintro ⟨h1, h2⟩
    refine ⟨?_, h2⟩
    rw [mem_iff_getD h2] at h1 ⊢
    obtain ⟨q, hq⟩ := h1
    exact ⟨q, by rw [trimZeros_getD]; exact hq⟩

theorem nz_sublist {a b : List Nat} (h : a.Sublist b) : (nz a).Sublist (nz b) :=
  List.Sublist.filter _ h

end BbRe.Lemmas.FilePool
