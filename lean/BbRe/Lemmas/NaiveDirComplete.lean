import BbRe.Lemmas.NaiveDirReach
/-!
Completeness of the eager merge: without faults, on a store whose Directory messages below
the root are present, well-formed, acyclic (rank below the fuel) and whose file blobs are
present, the walk ends clean — fuel never runs out and `MergeDirectoryContents` returns OK.
-/
namespace BbRe.Lemmas.NaiveDir
open BbRe.InputRoot BbRe.NaiveDir BbRe.Lemmas.InputRoot

theorem loop_complete {α : Type} (step : α → Children → Bool → StepR) (nameOf : α → Name)
    (mk : α → Option Node) :
    ∀ (es : List α) (ch : Children),
      (∀ e ∈ es, ∀ ch0, hasName ch0 (nameOf e) = false →
        ∃ v, mk e = some v ∧ step e ch0 false = .next (ch0 ++ [(nameOf e, v)]) false) →
      GoodList nameOf mk es ch →
      loop step es ch false = ⟨ch ++ conv nameOf mk es, false, none⟩ := by
  intro es
  induction es with
  | nil => intro ch _ _; simp [loop, conv]
  | cons e rest ih =>
    intro ch H ⟨h1, h2, h3⟩
    obtain ⟨v, hv, hs⟩ := H e (List.mem_cons_self ..) ch (h3 e (List.mem_cons_self ..))
    simp only [List.map_cons, List.nodup_cons] at h2
    have hgood : GoodList nameOf mk rest (ch ++ [(nameOf e, v)]) := by
      refine ⟨fun e' he' => h1 e' (List.mem_cons_of_mem _ he'), h2.2, fun e' he' => ?_⟩
      rw [hasName_append, h3 e' (List.mem_cons_of_mem _ he'), hasName_single]
      simp only [Bool.false_or, decide_eq_false_iff_not]
      intro heq
      exact h2.1 (heq ▸ List.mem_map_of_mem he')
    simp only [loop, hs]
    rw [ih _ (fun e' he' => H e' (List.mem_cons_of_mem _ he')) hgood]
    simp [conv, hv]

/-- A well-formed message passes the three loop conditions of the eager walk. -/
theorem goodLists_of_wellFormed (hl : Nat) (m : DirMsg) (mkD : DirNode → Option Node)
    (hD : ∀ e ∈ m.dirs, (mkD e).isSome = true) (hw : WellFormed hl m) :
    GoodList FileNode.name (mkFile hl) m.files [] ∧
    GoodList DirNode.name mkD m.dirs (conv FileNode.name (mkFile hl) m.files) ∧
    GoodList SymNode.name mkSym m.syms
      (conv FileNode.name (mkFile hl) m.files ++ conv DirNode.name mkD m.dirs) := by
  obtain ⟨hvalid, hnodup, _, hfiles, hsyms⟩ := hw
  simp only [entryNames] at hnodup
  rw [List.nodup_append, List.nodup_append] at hnodup
  obtain ⟨⟨hdn, hfn, hdf⟩, hsn, hdfs⟩ := hnodup
  have hFs : ∀ e ∈ m.files, (mkFile hl e).isSome = true := fun e he => by
    rw [mkFile_isSome]; exact hfiles e he
  have hF := hasName_conv FileNode.name (mkFile hl) m.files hFs
  have hDn := hasName_conv DirNode.name mkD m.dirs hD
  refine ⟨⟨fun e he => ⟨hvalid _ ?_, hFs e he⟩, hfn, fun e _ => by simp [hasName, lookup]⟩,
    ⟨fun e he => ⟨hvalid _ ?_, hD e he⟩, hdn, fun e he => ?_⟩,
    ⟨fun e he => ⟨hvalid _ ?_, (mkSym_isSome e).2 (hsyms e he)⟩, hsn, fun e he => ?_⟩⟩
  · simp only [entryNames, List.mem_append, List.mem_map]; exact Or.inl (Or.inr ⟨e, he, rfl⟩)
  · simp only [entryNames, List.mem_append, List.mem_map]; exact Or.inl (Or.inl ⟨e, he, rfl⟩)
  · refine (hasName_false_iff _ _).2 (fun h => ?_)
    exact hdf _ (List.mem_map_of_mem he) _ ((hF _).1 h) rfl
  · simp only [entryNames, List.mem_append, List.mem_map]; exact Or.inr ⟨e, he, rfl⟩
  · refine (hasName_false_iff _ _).2 (fun h => ?_)
    rw [hasName_append, Bool.or_eq_true] at h
    rcases h with h | h
    · exact hdfs _ (List.mem_append.2 (Or.inr ((hF _).1 h))) _ (List.mem_map_of_mem he) rfl
    · exact hdfs _ (List.mem_append.2 (Or.inl ((hDn _).1 h))) _ (List.mem_map_of_mem he) rfl

theorem lookup_none_of_hasName (ch : Children) (x : Name) (h : hasName ch x = false) :
    lookup ch x = none := by
  cases hl : lookup ch x with
  | none => rfl
  | some v => simp [hasName, hl] at h

/-- What the store has to offer below `d` for a merge to succeed: every Directory reachable is
present and well-formed, and the blob of every file it lists is present. -/
def Complete (c : CAS) (d : Dig) : Prop :=
  ∀ d', Reach c d d' → ∃ m, assoc c.dirs d' = some (some m) ∧ WellFormed c.hashLen m ∧
    ∀ e ∈ m.files, ∀ fd, parseDigest c.hashLen e.digest = some fd → (assoc c.blobs fd).isSome = true

theorem clean_of_complete (c : CAS) (O : Oracle) (hcas : O.cas = []) (hfs : O.fs = [])
    (rank : Dig → Nat) (hr : Acyclic c rank) :
    ∀ (f : Nat) (d : Dig) (p : Path), rank d < f → Complete c d →
      ∃ ch, mergeDirIn c O f d p [] false = ⟨ch, false, none⟩ := by
  intro f
  induction f with
  | zero => intro d p h; omega
  | succ f ih =>
    intro d p hrank hcomp
    obtain ⟨m, hm, hw, hblobs⟩ := hcomp d (.refl d)
    have hw' := hw
    obtain ⟨hvalid, _, hdirs, hfiles, hsyms⟩ := hw'
    -- sub-directories end clean
    have hsub : ∀ e ∈ m.dirs, (mkDirN c O f p e).isSome = true := by
      intro e he
      obtain ⟨d1, hp⟩ := Option.isSome_iff_exists.1 (hdirs e he)
      have hlt : rank d1 < f := by have := hr d m hm e he d1 hp; omega
      obtain ⟨chE, hE⟩ := ih d1 (p ++ [e.name]) hlt
        (fun d' hr' => hcomp d' (.step hm he hp hr'))
      simp [mkDirN, hp, hE]
    obtain ⟨g1, g2, g3⟩ := goodLists_of_wellFormed c.hashLen m (mkDirN c O f p) hsub hw
    have hget : getDirectory c O.cas d = .ok m := by simp [getDirectory, hcas, hm]
    have l1 := loop_complete (fileStep c O p) FileNode.name (mkFile c.hashLen) m.files [] (by
      intro e he ch0 hfresh
      obtain ⟨fd, hp⟩ := Option.isSome_iff_exists.1 (hfiles e he)
      obtain ⟨b, hb⟩ := Option.isSome_iff_exists.1 (hblobs e he fd hp)
      have hv : validName e.name = true := g1.1 e he |>.1
      refine ⟨.file fd e.exec none, by simp [mkFile, hp], ?_⟩
      simp [fileStep, getFile, Oracle.fails, hcas, hfs, hv, hp, hfresh, hb]) g1
    have l2 := loop_complete (dirStep c O (fun d' q b => mergeDirIn c O f d' q [] b) p) DirNode.name
      (mkDirN c O f p) m.dirs (conv FileNode.name (mkFile c.hashLen) m.files) (by
      intro e he ch0 hfresh
      obtain ⟨d1, hp⟩ := Option.isSome_iff_exists.1 (hdirs e he)
      have hv : validName e.name = true := g2.1 e he |>.1
      have hs := hsub e he
      unfold mkDirN at hs ⊢
      simp only [hp, Option.bind] at hs ⊢
      split at hs
      · rename_i hc
        simp only [hc, if_true]
        simp only [Bool.and_eq_true, Bool.not_eq_true', Option.isNone_iff_eq_none] at hc
        refine ⟨_, rfl, ?_⟩
        simp [dirStep, Oracle.fails, hfs, hv, hp, lookup_none_of_hasName _ _ hfresh, hc.1, hc.2]
      · cases hs) g2
    have l3 := loop_complete (symStep O p) SymNode.name mkSym m.syms _ (by
      intro e he ch0 hfresh
      have hv : validName e.name = true := g3.1 e he |>.1
      have ht := hsyms e he
      refine ⟨.sym e.target, by simp [mkSym, ht], ?_⟩
      simp [symStep, Oracle.fails, hfs, hv, ht, lookup_none_of_hasName _ _ hfresh]) g3
    refine ⟨naiveChildren c O f p m, ?_⟩
    simp only [List.nil_append] at l1
    simp only [mergeDirIn, hget, l1, l2, l3, naiveChildren]

end BbRe.Lemmas.NaiveDir
