import BbRe.Lemmas.FilePoolWriteContent
/-!
`writeToSectors` as one step on `content`.
-/
namespace BbRe.Lemmas.FilePool
open BbRe.FilePool

theorem take_take_le (p : List Byte) (a m : Nat) (h : m ≤ a) : (p.take a).take m = p.take m := by
  rw [List.take_take, Nat.min_eq_left h]

theorem boundary_of_short (ss ow got P n : Nat) (hss : 0 < ss) (how : ow < ss) (hg : 1 ≤ got)
    (hn : n = min (got * ss - ow) P) : n = P ∨ (0 < n ∧ (ow + n) % ss = 0) := by
  have : ss ≤ got * ss := Nat.le_mul_of_pos_left ss hg
  by_cases h : P ≤ got * ss - ow
  · left; omega
  · right
    have hn' : n = got * ss - ow := by omega
    refine ⟨by omega, ?_⟩
    rw [hn', show ow + (got * ss - ow) = got * ss by omega]
    exact Nat.mul_mod_left _ _

/-- One `writeToSectors`: `n` bytes of `p` are laid over the contents at
`idx*ss+ow`, nothing else in this file changes, no byte of a sector that is
allocated but not referenced by this file changes; when it reports no error it
either consumed all of `p` or stopped exactly at a sector boundary. -/
theorem writeToSectors_content {O : Nat → Prop} {c : Cfg} {f : File} {e : Env} (p : List Byte)
    (idx endIdx ow : Nat) (hss : 0 < c.ss) (how : ow < c.ss) (hp : 0 < p.length)
    (hP : Part c.nsec O e.allocd (nz f.sectors)) :
    (∀ i, content c.ss (writeToSectors c f e p idx endIdx ow).2.1.dev (writeToSectors c f e p idx endIdx ow).1 i =
        overlay (content c.ss e.dev f) (idx * c.ss + ow) (p.take (writeToSectors c f e p idx endIdx ow).2.2.1) i) ∧
      (writeToSectors c f e p idx endIdx ow).2.2.1 ≤ p.length ∧
      ((writeToSectors c f e p idx endIdx ow).2.2.2 = none →
        (writeToSectors c f e p idx endIdx ow).2.2.1 = p.length ∨
          (0 < (writeToSectors c f e p idx endIdx ow).2.2.1 ∧
            (ow + (writeToSectors c f e p idx endIdx ow).2.2.1) % c.ss = 0)) ∧
      (∀ t k, k < c.ss → t + 1 ∈ e.allocd → t + 1 ∉ f.sectors →
        rd (writeToSectors c f e p idx endIdx ow).2.1.dev (t * c.ss + k) = rd e.dev (t * c.ss + k)) := by
  unfold writeToSectors
  split
  · -- appending
    rename_i hidx
    have hconf := fun t k (hk : k < c.ss) (ht : t + 1 ∈ e.allocd) =>
      wns_conf (c := c) (h := f.hole) (e := e) (p := p) (idx := idx) hss how hp t k hk ht
    have hunch := fun i => content_wns_unchanged (f := f) (e := e) (p := p) (idx := idx) hss how hp hP i
    split
    · rename_i e1 x heq
      rw [heq] at hconf hunch
      refine ⟨fun i => ?_, Nat.zero_le _, by simp, fun t k hk ht _ => hconf t k hk ht⟩
      rw [List.take_zero, overlay_nil]; exact hunch i
    · rename_i e1 n first got heq
      rw [heq] at hconf
      have hw := wns_ok heq
      obtain ⟨secs', hs'⟩ := insert_grown_some f.sectors idx first got hidx
      dsimp only
      rw [hs']
      dsimp only
      refine ⟨fun i => ?_, by rw [hw.2.2.2.2.2.2.2]; omega, fun _ => ?_, fun t k hk ht _ => hconf t k hk ht⟩
      · exact insert_content (f := f) _ secs' hss how hp (fun q => getD_append_replicate_zero _ _ _) heq hs'
          (fun q hq1 _ => by
            simp [List.getD_eq_getElem?_getD, List.getElem?_eq_none (show f.sectors.length ≤ q by omega)]) hP i
      · exact boundary_of_short c.ss ow got p.length n hss how hw.2.2.1 hw.2.2.2.2.2.2.2
  · rename_i hidx
    have hidx' : idx < f.sectors.length := by omega
    obtain ⟨hc1, hc2, hc3, hc4, hc5⟩ := contig_spec f.sectors idx endIdx hidx'
    dsimp only
    have hcs : c.ss ≤ (contig f.sectors idx endIdx).2 * c.ss := Nat.le_mul_of_pos_left c.ss hc2
    have hp' : 0 < (List.take ((contig f.sectors idx endIdx).2 * c.ss - ow) p).length := by
      rw [List.length_take]; omega
    split
    · -- filling a hole
      rename_i hz
      have hconf := fun t k (hk : k < c.ss) (ht : t + 1 ∈ e.allocd) =>
        wns_conf (c := c) (h := f.hole) (e := e) (p := List.take ((contig f.sectors idx endIdx).2 * c.ss - ow) p)
          (idx := idx) hss how hp' t k hk ht
      have hunch := fun i => content_wns_unchanged (f := f) (e := e)
        (p := List.take ((contig f.sectors idx endIdx).2 * c.ss - ow) p) (idx := idx) hss how hp' hP i
      split
      · rename_i e1 x heq
        rw [heq] at hconf hunch
        refine ⟨fun i => ?_, Nat.zero_le _, by simp, fun t k hk ht _ => hconf t k hk ht⟩
        rw [List.take_zero, overlay_nil]; exact hunch i
      · rename_i e1 n first got heq
        rw [heq] at hconf
        have hw := wns_ok heq
        have hgot : got ≤ (contig f.sectors idx endIdx).2 := by
          refine Nat.le_trans hw.2.2.2.1 (want_le_cnt ow c.ss _ _ how hc2 ?_)
          simp only [List.length_take]; omega
        obtain ⟨secs', hs'⟩ := insert_hole_some f.sectors idx first got _ hc3
          (fun j hj => by rw [hc5 j hj, if_pos hz]) hgot
        rw [hs']
        dsimp only
        have hnle : n ≤ (contig f.sectors idx endIdx).2 * c.ss - ow := by
          rw [hw.2.2.2.2.2.2.2, List.length_take]; omega
        refine ⟨fun i => ?_, ?_, fun _ => ?_, fun t k hk ht _ => hconf t k hk ht⟩
        · have := insert_content (f := f) f.sectors secs' hss how hp' (fun q => rfl) heq hs'
            (fun q hq1 hq2 => by
              have := hc5 (q - idx) (by omega)
              rw [show idx + (q - idx) = q by omega, if_pos hz] at this; exact this) hP i
          rw [take_take_le _ _ _ hnle] at this
          exact this
        · rw [hw.2.2.2.2.2.2.2, List.length_take]; omega
        · have hb := boundary_of_short c.ss ow got _ n hss how hw.2.2.1 hw.2.2.2.2.2.2.2
          rcases hb with hb | hb
          · rw [List.length_take] at hb
            by_cases hfull : p.length ≤ (contig f.sectors idx endIdx).2 * c.ss - ow
            · left; omega
            · right
              have hn' : n = (contig f.sectors idx endIdx).2 * c.ss - ow := by omega
              refine ⟨by omega, ?_⟩
              rw [hn', show ow + ((contig f.sectors idx endIdx).2 * c.ss - ow) =
                (contig f.sectors idx endIdx).2 * c.ss by omega]
              exact Nat.mul_mod_left _ _
          · exact Or.inr hb
    · -- overwriting existing sectors
      rename_i hnz
      obtain ⟨m, hm, hdev, hsome, hnone⟩ := devWrite_dev e (((contig f.sectors idx endIdx).1 - 1) * c.ss + ow)
        (List.take ((contig f.sectors idx endIdx).2 * c.ss - ow) p)
      rw [List.length_take] at hm hnone
      rw [take_take_le _ _ _ (by omega)] at hdev
      have hcontent := fun i => overwrite_content (f := f) (e := e) p idx endIdx ow m hss how hidx' hnz hP
        (by omega) (by omega) i
      have hframe : ∀ t k, k < c.ss → t + 1 ∉ f.sectors →
          rd (writeBytes e.dev (((contig f.sectors idx endIdx).1 - 1) * c.ss + ow) (List.take m p)) (t * c.ss + k) =
            rd e.dev (t * c.ss + k) := by
        intro t k hk hnot
        rw [rd_writeBytes_outside]
        rw [List.length_take]
        have hout : t < (contig f.sectors idx endIdx).1 - 1 ∨
            (contig f.sectors idx endIdx).1 - 1 + (contig f.sectors idx endIdx).2 ≤ t := by
          by_cases hc : (contig f.sectors idx endIdx).1 - 1 ≤ t ∧
              t < (contig f.sectors idx endIdx).1 - 1 + (contig f.sectors idx endIdx).2
          · exfalso
            have h5 := hc5 (t - ((contig f.sectors idx endIdx).1 - 1)) (by omega)
            rw [if_neg hnz] at h5
            apply hnot
            have : f.sectors.getD (idx + (t - ((contig f.sectors idx endIdx).1 - 1))) 0 = t + 1 := by
              rw [h5]; omega
            exact (mem_iff_getD (by omega)).mpr ⟨_, this⟩
          · omega
        have := pos_outside c.ss t _ _ k hk hout
        rw [Nat.add_mul] at this
        omega
      split
      · rename_i n hn
        have hnm := hsome n hn
        subst hnm
        refine ⟨fun i => ?_, by dsimp only; omega, by simp, fun t k hk _ hnot => ?_⟩
        · dsimp only; rw [hdev]; exact hcontent i
        · dsimp only; rw [hdev]; exact hframe t k hk hnot
      · rename_i hn
        have hmm := hnone hn
        refine ⟨fun i => ?_, by dsimp only; rw [List.length_take]; omega, fun _ => ?_, fun t k hk _ hnot => ?_⟩
        · dsimp only; rw [hdev, List.length_take, ← hmm]; exact hcontent i
        · dsimp only
          rw [List.length_take]
          by_cases hfull : p.length ≤ (contig f.sectors idx endIdx).2 * c.ss - ow
          · left; omega
          · right
            refine ⟨by omega, ?_⟩
            rw [Nat.min_eq_left (by omega), show ow + ((contig f.sectors idx endIdx).2 * c.ss - ow) =
              (contig f.sectors idx endIdx).2 * c.ss by omega]
            exact Nat.mul_mod_left _ _
        · dsimp only; rw [hdev]; exact hframe t k hk hnot

end BbRe.Lemmas.FilePool
