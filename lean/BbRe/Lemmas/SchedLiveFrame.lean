import BbRe.Lemmas.SchedLiveSpec
/-!
Frame of the scheduler-internal helpers (`schedule`, `complete`, the cleanup
callbacks, `runCleanup`, `enter`): they never touch the parked client streams,
the blocked `TerminateWorkers` calls or the configuration, and the events they
emit are never addressed to a client (`msg` / `ret`).
-/
namespace BbRe.Lemmas.SchedLive
open BbRe.Sched

structure Frame (s s' : State) : Prop where
  streams : s'.streams = s.streams
  terms : s'.terms = s.terms
  cfg : s'.cfg = s.cfg
  events : ∃ new, s'.events = new ++ s.events ∧ ∀ e ∈ new, isClientEv e = false

theorem Frame.refl (s : State) : Frame s s := ⟨rfl, rfl, rfl, [], rfl, by simp⟩

theorem Frame.trans {a b c : State} (h1 : Frame a b) (h2 : Frame b c) : Frame a c := by
  obtain ⟨n1, e1, p1⟩ := h1.events
  obtain ⟨n2, e2, p2⟩ := h2.events
  refine ⟨h2.streams.trans h1.streams, h2.terms.trans h1.terms, h2.cfg.trans h1.cfg, n2 ++ n1, ?_, ?_⟩
  · rw [e2, e1, List.append_assoc]
  · intro e he; rcases List.mem_append.1 he with h | h
    · exact p2 e h
    · exact p1 e h

/-- a state update that leaves the four components alone -/
theorem Frame.of_eq {s s' : State} (h1 : s'.streams = s.streams) (h2 : s'.terms = s.terms)
    (h3 : s'.cfg = s.cfg) (h4 : s'.events = s.events) : Frame s s' :=
  ⟨h1, h2, h3, [], by simpa using h4, by simp⟩

theorem Frame.of_ev {s s' : State} {ev : Event} (h1 : s'.streams = s.streams) (h2 : s'.terms = s.terms)
    (h3 : s'.cfg = s.cfg) (h4 : s'.events = ev :: s.events) (h5 : isClientEv ev = false) : Frame s s' :=
  ⟨h1, h2, h3, [ev], by simpa using h4, by simpa using h5⟩

theorem schedule_frame {h : Hints} {s s' : State} {tid : Nat} (hh : schedule h s tid = .ok s') : Frame s s' := by
  obtain ⟨t, _, h1 | h1⟩ := schedule_ok hh
  · obtain ⟨_, rfl⟩ := h1; exact Frame.of_eq rfl rfl rfl rfl
  · obtain ⟨_, w, w1, _, _, _, _, _, rfl⟩ := h1; exact Frame.of_eq rfl rfl rfl rfl

theorem complete_frame {h : Hints} {s s' : State} {tid : Nat} {r : Resp} {bw : Bool}
    (hh : complete h s tid r bw = .ok s') : Frame s s' := by
  obtain ⟨t, _, h1 | ⟨_, l, _, h1 | h1 | h1⟩⟩ := complete_ok hh
  · obtain ⟨_, rfl⟩ := h1; exact Frame.refl _
  · obtain ⟨_, h1⟩ := h1
    obtain ⟨ev, hev, h2 | h2 | h2⟩ := completeSucc_ok h1
    · subst h2; exact Frame.of_ev (by simp) (by simp) (by simp) (by simp) hev
    · obtain ⟨ev', hev', rfl⟩ := h2
      exact (Frame.of_ev (s' := succS (detachW s t) (detachT t) ev r) (by simp) (by simp) (by simp) (by simp) hev).trans
        (Frame.of_ev (by simp) (by simp) (by simp) (by simp) hev')
    · obtain ⟨bq, pq, h3, _⟩ := h2
      exact ((Frame.of_ev (s' := succS (detachW s t) (detachT t) ev r) (by simp) (by simp) (by simp) (by simp) hev).trans
        (Frame.of_eq (by simp) (by simp) (by simp) (by simp))).trans (schedule_frame h3)
  · obtain ⟨_, _, _, h1⟩ := h1
    obtain ⟨s2, t2, h2, _, rfl⟩ := completeRetry_ok h1
    exact ((Frame.of_ev (s' := (retryS (detachW s t) l r).setTask (retryT (detachW s t) (detachT t) l r))
      (ev := .learnerFailed l (r.code = cDeadlineExceeded) (some s.nextLearner))
      (by simp) (by simp) (by simp) (by simp) rfl).trans (schedule_frame h2)).trans (Frame.of_eq rfl rfl rfl rfl)
  · obtain ⟨_, _, ev, hev, rfl⟩ := h1
    exact Frame.of_ev (by simp) (by simp) (by simp) (by simp) hev

theorem removeOp_frame {h : Hints} {s s' : State} {o : Nat} (hh : removeOp h s o = .ok s') : Frame s s' := by
  rcases removeOp_ok hh with ⟨_, rfl⟩ | ⟨op, t, s1, t1, _, _, h1, _, rfl⟩
  · exact Frame.refl _
  · have : Frame s s1 := by
      rcases h1 with ⟨_, h1⟩ | ⟨_, rfl⟩
      · exact (Frame.of_eq (s := s) (s' := eraseOp s o) rfl rfl rfl rfl).trans (complete_frame h1)
      · exact Frame.of_eq rfl rfl rfl rfl
    exact this.trans (Frame.of_eq (by simp) (by simp) (by simp) (by simp))

theorem cancelAllQueued_frame {h : Hints} {s s' : State} {q : ScqId} {r : Resp}
    (hh : cancelAllQueued h s q r = .ok s') : Frame s s' :=
  cancelAllQueued_rel Frame Frame.refl (fun _ _ _ => Frame.trans) (fun _ _ _ => complete_frame) hh

theorem removeScq_frame {h : Hints} {s s' : State} {q : ScqId} (hh : removeScq h s q = .ok s') : Frame s s' := by
  obtain ⟨s1, h1, rfl⟩ := removeScq_ok hh
  exact (cancelAllQueued_frame h1).trans (Frame.of_eq (by simp) (by simp) (by simp) (by simp))

theorem removeStaleWorker_frame {h : Hints} {s s' : State} {q : ScqId} {w : WId} {rt : Nat}
    (hh : removeStaleWorker h s q w rt = .ok s') : Frame s s' := by
  rcases removeStaleWorker_ok hh with ⟨_, rfl⟩ | ⟨wk, s1, _, h1, rfl⟩
  · exact Frame.refl _
  · have : Frame s s1 := by
      rcases h1 with ⟨t, _, h1⟩ | ⟨_, rfl⟩
      · exact complete_frame h1
      · exact Frame.refl _
    exact this.trans (Frame.of_eq (by simp) (by simp) (by simp) (by simp))

theorem callback_frame {h : Hints} {s s' : State} {e : CleanupEntry} (hh : callback h s e = .ok s') : Frame s s' := by
  unfold callback at hh
  split at hh
  · exact removeStaleWorker_frame hh
  · exact removeOp_frame hh
  · exact removeScq_frame hh

theorem runCleanup_frame {h : Hints} {f : Nat} {s s' : State} (hh : runCleanup h f s = .ok s') : Frame s s' :=
  runCleanup_rel Frame Frame.refl (fun _ _ _ => Frame.trans)
    (fun _ _ _ _ => Frame.of_eq rfl rfl rfl rfl) (fun _ _ _ => callback_frame) f s s' hh

theorem enter_frame {h : Hints} {s s' : State} {t : Nat} (hh : enter h s t = .ok s') : Frame s s' := by
  rcases enter_ok hh with ⟨_, rfl⟩ | ⟨_, h1⟩
  · exact Frame.refl _
  · exact (Frame.of_eq (s := s) (s' := setNow s t) rfl rfl rfl rfl).trans (runCleanup_frame h1)

end BbRe.Lemmas.SchedLive
