import BbRe.Lemmas.SchedTreePrioFixFn
import BbRe.Lemmas.SchedTreePrioStep
/-!
`FixInv` for the RPC segments of the tree layer and in every reachable state: after the fix of the stale cache
every non-root invocation's `firstQueuedOperationPriority` is exact, and every logged pick saw such a tree.
-/
namespace BbRe.Lemmas.SchedTree
open BbRe.Sched BbRe.SchedTree BbRe.Lemmas.SchedInv

/-! ### `Execute`, `WaitExecution` -/

theorem tExecDedup_fix {ts ts' : TState} {c tid : Nat} {t : Task} {inv : List Nat} {prio : Int}
    (hp : FixInv ts) (hq : QB ts.s.nextOp ts) (hh : tExecDedup ts c tid t inv prio = .ok ts') : FixInv ts' := by
  unfold tExecDedup at hh
  tpaths hh
  · cases hh; fixi
  · cases hh
    have hA : FixInv ((ts.create t.scq inv).setOX ts.s.nextOp { inv := inv, prio := prio }) :=
      FixInv.setOX _ (by fixi) (hq.create _ _).notin
    exact FixInv.setS _ (hA.withIncExec _ _ _ _)
  · cases hh
    have hA : FixInv ((ts.create t.scq inv).setOX ts.s.nextOp { inv := inv, prio := prio }) :=
      FixInv.setOX _ (by fixi) (hq.create _ _).notin
    exact FixInv.setS _ (hA.withEnqueue _ _ _ (getOrCreate_pathEx _ _ _ _))

theorem tExecArrive_fix {h : Hints} {x : Extras} {ts ts' : TState} {now c digest dkey : Nat} {dnc : Bool}
    {comps : List Nat} {platform : Nat} {inv : List Nat} {prio : Int} (hI : TInv ts) (hp : FixInv ts)
    (hh : tExecArrive h x ts now c digest dkey dnc comps platform inv prio = .ok ts') : FixInv ts' := by
  unfold tExecArrive at hh
  tpaths hh
  all_goals have hI0 := tEnter_tinv hI (by assumption)
  all_goals have hp0 := tEnter_fix hI hp (by assumption)
  · exact tExecDedup_fix hp0 (qb_of_tinv hI0) hh
  · cases hh; fixi
  · cases hh; fixi
  · cases hh
    refine FixInv.setS _ (tSchedule_fix ?_ ?_ (by assumption))
    · refine FixInv.create _ _ (FixInv.setS _ (FixInv.setTX _ _ (FixInv.setOX _ hp0 ?_)))
      exact (qb_of_tinv hI0).notin
    · intro t' ht' o ho
      simp only [create_s, setS_s, task?_def, State.setOp, State.setTask, alookup_aset, if_true, Option.some.injEq] at ht'
      subst ht'
      simp only [List.mem_singleton] at ho
      subst ho
      show PathEx (getOrCreate _ _ _ _) _ (TState.invOf (TState.setOX _ _ _) _)
      rw [invOf_setOX]
      exact getOrCreate_pathEx _ _ _ _

theorem tWaitArrive_fix {h : Hints} {x : Extras} {ts ts' : TState} {now c name : Nat} (hI : TInv ts) (hp : FixInv ts)
    (hh : tWaitArrive h x ts now c name = .ok ts') : FixInv ts' := by
  unfold tWaitArrive at hh
  tpaths hh
  all_goals have hp0 := tEnter_fix hI hp (by assumption)
  all_goals (cases hh; fixi)

theorem tStreamWake_fix {h : Hints} {x : Extras} {ts ts' : TState} {now c reason : Nat} (hI : TInv ts) (hp : FixInv ts)
    (hh : tStreamWake h x ts now c reason = .ok ts') : FixInv ts' := by
  unfold tStreamWake at hh
  tpaths hh
  all_goals have hp0 := tEnter_fix hI hp (by assumption)
  all_goals (cases hh; fixi)

/-! ### `getNextTask`, `getCurrentOrNextTask` -/

theorem tAssignNext_fix {h : Hints} {x : Extras} {ts ts' : TState} {w : Worker} {b : Bool} (hp : FixInv ts)
    (hh : tAssignNext h x ts w = .ok (ts', b)) : FixInv ts' := by
  unfold tAssignNext at hh
  tpaths hh
  · have h1 := tAssignTo_fix (hp.log (d := .pick _ _ _ _ _ _ _) ⟨ts.opOf, ts.prioOf, ts.nodes, hp.n.fix, hp.n.structOK, fun _ => rfl, rfl⟩)
      (by assumption)
    cases hh
    fixi
  · cases hh; exact hp

theorem tGetNextTask_fix {h : Hints} {x : Extras} {ts ts' : TState} {q : ScqId} {w : WId} {pi bl : Bool}
    (hp : FixInv ts) (hh : tGetNextTask h x ts q w pi bl = .ok ts') : FixInv ts' := by
  unfold tGetNextTask at hh
  tpaths hh
  all_goals first
    | (cases hh; fixi)
    | (have h2 := tAssignNext_fix hp (by assumption); cases hh; fixi)

theorem tGetCurrentOrNext_fix {h : Hints} {x : Extras} {ts ts' : TState} {q : ScqId} {w : WId} {pi bl : Bool}
    (hp : FixInv ts) (hq : QB ts.s.nextOp ts) (hh : tGetCurrentOrNext h x ts q w pi bl = .ok ts') : FixInv ts' := by
  unfold tGetCurrentOrNext at hh
  tpaths hh
  · cases hh; fixi
  · exact tGetNextTask_fix (tComplete_fix hp hq (by assumption)) hh
  · exact tGetNextTask_fix hp hh

/-! ### `Synchronize` -/

/-- no invocation belongs to a size-class queue that does not exist -/
theorem fresh_of_tinv {ts : TState} (hI : TInv ts) {q : ScqId} (h : ts.s.scq? q = none) : ∀ n ∈ ts.nodes, n.scq ≠ q := by
  intro n hn e
  obtain ⟨sq, hsq, e'⟩ := hI.side.nscq n hn
  exact scq?_none h sq hsq (e'.trans e)

theorem tSyncQueue_fix {ts : TState} {q : ScqId} {comps : List Nat} {platform : Nat} {w : WId} {r : TState ⊕ TState}
    (hI : TInv ts) (hp : FixInv ts) (hh : tSyncQueue ts q comps platform w = .ok r) : FixInv (sumT r) := by
  unfold tSyncQueue at hh
  tpaths hh
  · cases hh; simp only [sumT]; fixi
  · cases hh; simp only [sumT]; fixi
  · cases hh; simp only [sumT]
    refine FixInv.setS _ (hp.addScqTree q (fresh_of_tinv hI ?_))
    cases hs : ts.s.scq? q with
    | none => rfl
    | some _ => simp_all

theorem tSyncWorker_fix {ts : TState} (hp : FixInv ts) (q : ScqId) (w : WId) : FixInv (sumT (tSyncWorker ts q w)) := by
  unfold tSyncWorker
  cases syncWorker ts.s q w with
  | inl s => simp only [sumT]; fixi
  | inr s =>
    simp only []
    split <;> (simp only [sumT]; fixi)

theorem tSyncBody_fix {h : Hints} {x : Extras} {ts ts' : TState} {q : ScqId} {w : WId} {rep : Report} {pi : Bool}
    (hp : FixInv ts) (hq : QB ts.s.nextOp ts) (hh : tSyncBody h x ts q w rep pi = .ok ts') : FixInv ts' := by
  unfold tSyncBody at hh
  tpaths hh
  all_goals first
    | (cases hh; fixi)
    | exact tGetCurrentOrNext_fix hp hq hh
    | exact tGetNextTask_fix (tComplete_fix hp hq (by assumption)) hh

theorem tSyncArrive_fix {h : Hints} {x : Extras} {ts ts' : TState} {now : Nat} {q : ScqId} {comps : List Nat}
    {platform : Nat} {w : WId} {rep : Report} {pi : Bool} (hI : TInv ts) (hp : FixInv ts)
    (hh : tSyncArrive h x ts now q comps platform w rep pi = .ok ts') : FixInv ts' := by
  rw [tSyncArrive_eq] at hh
  simp only [bind, Except.bind] at hh
  split at hh
  · cases hh
  · rename_i ts0 he
    have hTI0 : TInv ts0 := tEnter_tinv hI he
    have hp0 := tEnter_fix hI hp he
    have hI0 := hTI0.inv
    split at hh
    · cases hh
    · rename_i r hq
      have htq := tSyncQueue_ts hTI0 hq
      have hpq := tSyncQueue_fix hTI0 hp0 hq
      have hrq := tSyncQueue_ref ts0 q comps platform w r hq
      have hsq := wp_of_ok (syncQueue_spec (q := q) (comps := comps) (platform := platform) (w := w) hI0) hrq
      cases r with
      | inl ts1 =>
        cases hh
        exact hpq
      | inr ts1 =>
        dsimp only at hh htq
        simp only [sproj] at hrq hsq
        simp only [sumT] at hpq
        have hTI1 : TInv ts1 := TInv.mk' hsq.1 htq
        have hex := syncQueue_has hrq
        have htw := tSyncWorker_ts (w := w) hTI1 hex
        have hpw := tSyncWorker_fix hpq q w
        have hsw := syncWorker_spec (q := q) (w := w) hsq.1
        rw [tSyncWorker_ref] at hsw
        cases hw : tSyncWorker ts1 q w with
        | inl ts2 =>
          rw [hw] at hh htw hpw
          cases hh
          exact hpw
        | inr ts2 =>
          rw [hw] at hh htw hsw hpw
          simp only [sproj] at hsw
          simp only [sumT] at hpw
          obtain ⟨hI2, _, wk2, hw2, hr2⟩ := hsw
          exact tSyncBody_fix hpw (qb_of_tinv (TInv.mk' hI2 htw)) hh

theorem tSyncWake_fix {h : Hints} {x : Extras} {ts ts' : TState} {now : Nat} {q : ScqId} {w : WId} {reason : Nat}
    (hI : TInv ts) (hp : FixInv ts) (hh : tSyncWake h x ts now q w reason = .ok ts') : FixInv ts' := by
  unfold tSyncWake at hh
  tpaths hh
  all_goals have hp0 := tEnter_fix hI hp (by assumption)
  all_goals first
    | (cases hh; fixi)
    | exact tGetNextTask_fix (by fixi) hh

/-! ### operator calls -/

theorem tKillOp_fix {h : Hints} {x : Extras} {ts ts' : TState} {now name code : Nat} (hI : TInv ts) (hp : FixInv ts)
    (hh : tKillOp h x ts now name code = .ok ts') : FixInv ts' := by
  unfold tKillOp at hh
  tpaths hh
  all_goals have hI0 := tEnter_tinv hI (by assumption)
  all_goals have hp0 := tEnter_fix hI hp (by assumption)
  all_goals first
    | (cases hh; fixi)
    | (have h2 := tComplete_fix hp0 (qb_of_tinv hI0) (by assumption); cases hh; fixi)

theorem tKillQueue_fix {h : Hints} {x : Extras} {ts ts' : TState} {now : Nat} {q : ScqId} {code : Nat} (hI : TInv ts)
    (hp : FixInv ts) (hh : tKillQueue h x ts now q code = .ok ts') : FixInv ts' := by
  unfold tKillQueue at hh
  tpaths hh
  all_goals have hI0 := tEnter_tinv hI (by assumption)
  all_goals have hp0 := tEnter_fix hI hp (by assumption)
  all_goals first
    | (cases hh; fixi)
    | (have h2 := tCancelAllQueued_fix hI0 hp0 (by assumption); cases hh; fixi)

theorem foldl_fix {β} (l : List β) (f : TState → β → TState) (hf : ∀ ts b, FixInv ts → FixInv (f ts b)) :
    ∀ ts, FixInv ts → FixInv (l.foldl f ts) := by
  induction l with
  | nil => intro ts h; exact h
  | cons b l ih => intro ts h; exact ih _ (hf ts b h)

theorem tAddDrain_fix {h : Hints} {x : Extras} {ts ts' : TState} {now : Nat} {q : ScqId} {p : Pattern} (hI : TInv ts)
    (hp : FixInv ts) (hh : tAddDrain h x ts now q p = .ok ts') : FixInv ts' := by
  unfold tAddDrain at hh
  tpaths hh
  all_goals have hp0 := tEnter_fix hI hp (by assumption)
  all_goals first
    | (cases hh; fixi)
    | (cases hh
       refine FixInv.setS _ (foldl_fix _ _ ?_ _ (by fixi))
       intro ts b hb
       split
       · fixi
       · exact hb)

theorem tRemoveDrain_fix {h : Hints} {x : Extras} {ts ts' : TState} {now : Nat} {q : ScqId} {p : Pattern} (hI : TInv ts)
    (hp : FixInv ts) (hh : tRemoveDrain h x ts now q p = .ok ts') : FixInv ts' := by
  unfold tRemoveDrain at hh
  tpaths hh
  all_goals have hp0 := tEnter_fix hI hp (by assumption)
  all_goals (cases hh; fixi)

theorem tTerminate_fix {h : Hints} {x : Extras} {ts ts' : TState} {now id : Nat} {p : Pattern} (hI : TInv ts)
    (hp : FixInv ts) (hh : tTerminate h x ts now id p = .ok ts') : FixInv ts' := by
  unfold tTerminate at hh
  tpaths hh
  all_goals have hp0 := tEnter_fix hI hp (by assumption)
  all_goals (cases hh; exact FixInv.setS _ (foldl_fix _ _ (fun _ b hb => FixInv.tTerminateOne b hb) _ hp0))

theorem tTermWake_fix {ts ts' : TState} {id reason : Nat} (hp : FixInv ts) (hh : tTermWake ts id reason = .ok ts') :
    FixInv ts' := by
  unfold tTermWake at hh
  tpaths hh
  cases hh; fixi

/-! ### steps and reachable states -/

theorem tstep_fix {ts ts' : TState} {g : TSeg} (hI : TInv ts) (hp : FixInv ts) (hh : tstep ts g = .ok ts') :
    FixInv ts' := by
  unfold tstep at hh
  split at hh
  · split at hh
    · rename_i hok
      cases hh
      unfold registerOK at hok
      simp only [Bool.and_eq_true, List.all_eq_true, decide_eq_true_eq] at hok
      refine FixInv.tRegisterPQ _ _ _ _ _ _ _ hp hok.2 ?_
      intro n hn
      obtain ⟨sq, hsq, e⟩ := hI.side.nscq n hn
      rw [← e]; exact hok.1 sq hsq
    · cases hh
  · exact tExecArrive_fix hI hp hh
  · exact tWaitArrive_fix hI hp hh
  · exact tStreamWake_fix hI hp hh
  · exact tSyncArrive_fix hI hp hh
  · exact tSyncWake_fix hI hp hh
  · exact tKillOp_fix hI hp hh
  · exact tKillQueue_fix hI hp hh
  · exact tAddDrain_fix hI hp hh
  · exact tRemoveDrain_fix hI hp hh
  · exact tTerminate_fix hI hp hh
  · exact tTermWake_fix hp hh
  · exact tEnter_fix hI hp hh

theorem fixInv_reachable {ts : TState} (h : TReachable ts) : FixInv ts := by
  induction h with
  | init cfg => exact ⟨rfl, NInv.nil _, fun d hd => nomatch hd⟩
  | step g hr hs ih => exact tstep_fix (tinv_reachable hr) ih hs

/-- the tree layer runs the code after the fix -/
theorem legacy_reachable {ts : TState} (h : TReachable ts) : ts.legacyPrio = false := (fixInv_reachable h).legacy

/-- in every reachable state every non-root invocation's cached priority is what `updateFirstOperationPriority`
would store now -/
theorem fix_reachable {ts : TState} (h : TReachable ts) : PrioFix ts.prioOf ts.nodes ∧ StructOK ts.nodes :=
  ⟨(fixInv_reachable h).n.fix, (fixInv_reachable h).n.structOK⟩

/-- every logged pick saw a tree with exact caches -/
theorem decfix_reachable {ts : TState} (h : TReachable ts) : ∀ d ∈ ts.decisions, DecFix d := (fixInv_reachable h).dec

/-- exact caches imply the weaker statement about invocations with own queued operations -/
theorem prioOK_of_fix {ts : TState} (h : PrioFix ts.prioOf ts.nodes) : PrioOK ts := by
  intro n hn hp hq
  rw [← h n hn hp]
  unfold updPrio
  have : (!n.qops.isEmpty) = true := by
    cases hx : n.qops with
    | nil => exact absurd hx hq
    | cons a l => rfl
  rw [if_pos this]

end BbRe.Lemmas.SchedTree
