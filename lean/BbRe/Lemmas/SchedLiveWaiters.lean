import BbRe.Lemmas.SchedLiveFuel
import BbRe.Lemmas.SchedLiveWake
/-!
Waiter counts (C02 `no_lost_wakeup`, enabledness): the operation of every
parked stream exists and counts at least as many waiters as streams are parked
on it — so it cannot be removed under a parked stream, and the final message can
be delivered.
-/
namespace BbRe.Lemmas.SchedLive
open BbRe.Sched

/-- how operations evolve as far as waiter counts are concerned -/
structure OpW (s s' : State) : Prop where
  nop : s.nextOp ≤ s'.nextOp
  keep : ∀ o op', s'.op? o = some op' → (∃ op, s.op? o = some op ∧ op'.waiters = op.waiters) ∨
    (s.nextOp ≤ o ∧ op'.waiters = 0)
  gone : ∀ o op, s.op? o = some op → s'.op? o = none → op.waiters = 0

/-- `OpW` for key-disciplined states -/
def OStep (s s' : State) : Prop := KeysOK s → KeysOK s' ∧ OpW s s'

theorem OStep.refl (s : State) : OStep s s :=
  fun hk => ⟨hk, Nat.le_refl _, fun _ op' e => .inl ⟨op', e, rfl⟩, fun _ op e e' => by rw [e] at e'; cases e'⟩

theorem OStep.trans {a b c : State} (h1 : OStep a b) (h2 : OStep b c) : OStep a c := by
  intro hk
  obtain ⟨kb, r1⟩ := h1 hk
  obtain ⟨kc, r2⟩ := h2 kb
  refine ⟨kc, Nat.le_trans r1.nop r2.nop, ?_, ?_⟩
  · intro o op' e
    rcases r2.keep o op' e with ⟨opb, eb, wb⟩ | hf
    · rcases r1.keep o opb eb with ⟨opa, ea, wa⟩ | hf
      · exact .inl ⟨opa, ea, wb.trans wa⟩
      · exact .inr ⟨hf.1, wb.trans hf.2⟩
    · exact .inr ⟨Nat.le_trans r1.nop hf.1, hf.2⟩
  · intro o op e e'
    cases hb : b.op? o with
    | none => exact r1.gone o op e hb
    | some opb =>
      rcases r1.keep o opb hb with ⟨opa, ea, wa⟩ | hf
      · rw [e] at ea; injection ea with ea; subst ea
        rw [← wa]; exact r2.gone o opb hb e'
      · have := (hk.oname o op e).2.1; have := hf.1; omega

theorem OStep.of {allow : Prop} {s s' : State} (ht : TStep allow s s') (ho : KeysOK s → OpW s s') : OStep s s' :=
  fun hk => ⟨(ht hk).1, ho hk⟩

theorem OpW.of_eq {s s' : State} (h : s'.ops = s.ops) (hn : s.nextOp ≤ s'.nextOp) : OpW s s' := by
  have hop : ∀ o, s'.op? o = s.op? o := by intro o; simp [State.op?, h]
  exact ⟨hn, fun o op' e => .inl ⟨op', by rw [← hop]; exact e, rfl⟩, fun o op e e' => by rw [hop, e] at e'; cases e'⟩

theorem OStep.of_same {s s' : State} (h1 : s'.tasks = s.tasks) (h2 : s'.ops = s.ops)
    (h3 : s'.nextTask = s.nextTask) (h4 : s'.nextOp = s.nextOp) : OStep s s' :=
  OStep.of (TStep.of_same (allow := True) h1 h2 h3 h4) (fun _ => OpW.of_eq h2 (by omega))

theorem schedule_opw {h : Hints} {s s' : State} {tid : Nat} (hh : schedule h s tid = .ok s') : OpW s s' := by
  obtain ⟨t, t', _, _, _, e2, _, e4⟩ := schedule_shape hh
  exact OpW.of_eq e2 (by omega)

/-- operations equal up to cleared flags keep their waiter counts -/
theorem OpW.of_opsSame {s s' : State} (h : OpsSame s s') (hn : s.nextOp ≤ s'.nextOp) : OpW s s' := by
  refine ⟨hn, ?_, ?_⟩
  · intro o op' e
    rcases h.ops o with ⟨_, e2⟩ | ⟨op, op2, e1, e2, l⟩
    · rw [e2] at e; cases e
    · rw [e2] at e; injection e with e; subst e; exact .inl ⟨op, e1, l.waiters⟩
  · intro o op e e'
    rcases h.ops o with ⟨e1, _⟩ | ⟨op1, op2, e1, e2, _⟩
    · rw [e1] at e; cases e
    · rw [e2] at e'; cases e'

theorem succS_opw {s : State} (t : Task) (ev : Event) (r : Resp) (hk : KeysOK s) :
    OpW s (succS (detachW s t) (detachT t) ev r) := by
  let M : State := (dropDedup (emit (detachW s t) ev) { detachT t with learner := none }).setTask
      (bumpGen { detachT t with learner := none, response := some r })
  have eM : succS (detachW s t) (detachT t) ev r = complete.finishOps M (detachT t).ops := rfl
  have hMo : M.ops = s.ops := by simp [M]
  have hn : ∀ k op, M.op? k = some op → op.name = k := by
    intro k op e
    have : s.op? k = some op := by simpa [State.op?, hMo] using e
    exact (hk.oname k op this).1
  have hs := finishOps_opsSame (detachT t).ops M hn
  have h1 : OpW s M := OpW.of_eq hMo (by simp [M])
  have h2 : OpW M (complete.finishOps M (detachT t).ops) := OpW.of_opsSame hs (by simp)
  rw [eM]
  refine ⟨Nat.le_trans h1.nop h2.nop, ?_, ?_⟩
  · intro o op' e
    rcases h2.keep o op' e with ⟨opb, eb, wb⟩ | hf
    · rcases h1.keep o opb eb with ⟨opa, ea, wa⟩ | hf
      · exact .inl ⟨opa, ea, wb.trans wa⟩
      · exact .inr ⟨hf.1, wb.trans hf.2⟩
    · exact .inr ⟨Nat.le_trans h1.nop hf.1, hf.2⟩
  · intro o op e e'
    have eb : M.op? o = some op := by simpa [State.op?, hMo] using e
    rcases hs.ops o with ⟨e1, _⟩ | ⟨op1, op2, _, e2, _⟩
    · rw [e1] at eb; cases eb
    · rw [e2] at e'; cases e'

theorem complete_ostep {h : Hints} {s s' : State} {tid : Nat} {r : Resp} {bw : Bool}
    (hh : complete h s tid r bw = .ok s') : OStep s s' := by
  refine OStep.of (complete_tstep hh) (fun hk => ?_)
  have fin : ∀ t ev, OpW s (succS (detachW s t) (detachT t) ev r) := fun t ev => succS_opw t ev r hk
  obtain ⟨t, h0, ⟨_, rfl⟩ | ⟨hr, l, _, h1 | h1 | h1⟩⟩ := complete_ok hh
  · exact OpW.of_eq rfl (Nat.le_refl _)
  · obtain ⟨ev, _, rfl | ⟨ev', _, rfl⟩ | ⟨bq, pq, h2, _⟩⟩ := completeSucc_ok h1.2
    · exact fin t ev
    · have := fin t ev
      exact ⟨this.nop, this.keep, this.gone⟩
    · have f := fin t ev
      obtain ⟨tb, tb', _, _, _, e2, _, e4⟩ := schedule_shape h2
      have hnop : (succS (detachW s t) (detachT t) ev r).nextOp = s.nextOp := by simp
      have hop : ∀ o, s'.op? o = if s.nextOp = o then some (bgOp (bumpLearner (succS (detachW s t) (detachT t) ev r)) pq)
          else (succS (detachW s t) (detachT t) ev r).op? o := by
        intro o; simp [State.op?, e2, alookup_aset]
      refine ⟨by rw [e4]; simp, ?_, ?_⟩
      · intro o op' e
        rw [hop] at e
        split at e
        · rename_i hkk; injection e with e; subst e; exact .inr ⟨by omega, rfl⟩
        · exact f.keep o op' e
      · intro o op e e'
        rw [hop] at e'
        split at e'
        · cases e'
        · exact f.gone o op e e'
  · obtain ⟨_, _, _, h5⟩ := h1
    obtain ⟨s2, t2, h2, _, rfl⟩ := completeRetry_ok h5
    obtain ⟨_, _, _, _, _, e2, _, e4⟩ := schedule_shape h2
    exact OpW.of_eq (by simp [e2]) (by simp [e4])
  · obtain ⟨_, _, ev, _, rfl⟩ := h1
    exact fin t ev

theorem cancelAllQueued_ostep {h : Hints} {s s' : State} {q : ScqId} {r : Resp}
    (hh : cancelAllQueued h s q r = .ok s') : OStep s s' :=
  cancelAllQueued_rel OStep OStep.refl (fun _ _ _ => OStep.trans) (fun _ _ _ => complete_ostep) hh

theorem removeScq_ostep {h : Hints} {s s' : State} {q : ScqId} (hh : removeScq h s q = .ok s') : OStep s s' := by
  obtain ⟨s1, h1, rfl⟩ := removeScq_ok hh
  exact (cancelAllQueued_ostep h1).trans (OStep.of_same (by simp) (by simp) (by simp) (by simp))

theorem removeStaleWorker_ostep {h : Hints} {s s' : State} {q : ScqId} {w : WId} {rt : Nat}
    (hh : removeStaleWorker h s q w rt = .ok s') : OStep s s' := by
  rcases removeStaleWorker_ok hh with ⟨_, rfl⟩ | ⟨wk, s1, _, h1, rfl⟩
  · exact OStep.refl _
  · have : OStep s s1 := by
      rcases h1 with ⟨t, _, h1⟩ | ⟨_, rfl⟩
      · exact complete_ostep h1
      · exact OStep.refl _
    exact this.trans (OStep.of_same (by simp) (by simp) (by simp) (by simp))

/-- removing an operation that has no waiters -/
theorem removeOp_ostep {h : Hints} {s s' : State} {o : Nat} (hh : removeOp h s o = .ok s')
    (hw0 : ∀ op, s.op? o = some op → op.waiters = 0) : OStep s s' := by
  rcases removeOp_ok hh with ⟨_, rfl⟩ | ⟨op, t, s1, t1, hop, _, h1, h2, rfl⟩
  · exact OStep.refl _
  · have he : OStep s (eraseOp s o) := by
      refine OStep.of (eraseOp_tstep True s o) (fun hk => ⟨Nat.le_refl _, ?_, ?_⟩)
      · intro k op' e
        simp only [State.op?, eraseOp_ops, alookup_aerase _ _ _ hk.onodup] at e
        split at e
        · cases e
        · exact .inl ⟨op', e, rfl⟩
      · intro k opk e e'
        simp only [State.op?, eraseOp_ops, alookup_aerase _ _ _ hk.onodup] at e'
        split at e'
        · rename_i hkk; subst hkk; exact hw0 opk e
        · rw [show alookup k s.ops = some opk from e] at e'; cases e'
    have h1' : OStep (eraseOp s o) s1 := by
      rcases h1 with ⟨_, h1⟩ | ⟨_, rfl⟩
      · exact complete_ostep h1
      · exact OStep.refl _
    exact (he.trans h1').trans (OStep.of (dropOpT_tstep True o h2) (fun _ => OpW.of_eq (by simp) (by simp)))

end BbRe.Lemmas.SchedLive
