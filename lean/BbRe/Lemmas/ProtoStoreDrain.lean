import BbRe.Lemmas.ProtoStoreFrame
/-! Draining: from a quiescent state, whole successful `Get`s of a digest without a
handle empty the write queue three handles at a time. -/
namespace BbRe.Lemmas.ProtoStore
open BbRe.ProtoStore

/-- A drain `Get` in progress. -/
structure Dr (s : State) (g e : Nat) (r : GetRec) : Prop where
  gets : s.gets = [(g, r)]
  ex : r.existing = none
  dig : r.digest = e
  nf : r.failed = false
  held : ∀ h, s.held h = 0
  me : s.map e = none
  ver : ∀ w, w ∈ r.writes → s.current w.h = w.ver

theorem dr_lookup {s : State} {g e : Nat} {r : GetRec} (h : Dr s g e r) : lookupG s.gets g = some r := by
  rw [h.gets]; simp [lookupG]

theorem dr_useCount {s : State} {g e : Nat} {r : GetRec} (h : Dr s g e r) (hq : QInv s) (x : Nat) :
    s.useCount x = 0 := by
  have := hq.acct x
  rw [h.gets] at this
  simp [refs, h.ex, h.held x] at this
  exact this

theorem dr_getBeginMid (s : State) (g e : Nat) (hqu : quiescent s) (hme : s.map e = none) :
    ∃ r, Dr (getBeginMid s g e) g e r ∧ r.readPending = true ∧ r.writes = [] ∧
      (getBeginMid s g e).queue = s.queue ∧ (getBeginMid s g e).latest = s.latest := by
  unfold getBeginMid
  rw [hme]
  dsimp only
  let r0 : GetRec := { digest := e, existing := none, readPending := true, readMsg := 0, writes := [], failed := false, need := if s.store e = s.latest e then 0 else s.latest e }
  refine ⟨r0, ⟨?_, rfl, rfl, rfl, hqu.2, hme, ?_⟩, rfl, rfl, rfl, rfl⟩
  · dsimp only; rw [hqu.1]; rfl
  · intro w hw; cases hw

theorem dr_dequeueOne (s : State) (g e : Nat) (r : GetRec) (hd : Dr s g e r) (hq : QInv s) :
    ∃ r', Dr (dequeueOne s g) g e r' ∧ r'.readPending = r.readPending ∧
      (dequeueOne s g).queue = s.queue.dropLast ∧ (dequeueOne s g).latest = s.latest := by
  cases hl : s.queue.getLast? with
  | none =>
    have hqe : s.queue = [] := by simpa using hl
    refine ⟨r, ?_, rfl, ?_, ?_⟩
    · unfold dequeueOne; simp only [hl]; exact hd
    · unfold dequeueOne; simp only [hl]; rw [hqe]; rfl
    · unfold dequeueOne; simp only [hl]
  | some h =>
    rw [dequeueOne_eq s g h r hq.q1 hl (dr_lookup hd)]
    refine ⟨{ r with writes := r.writes ++ [⟨h, s.msg h, s.current h⟩] },
      ⟨?_, hd.ex, hd.dig, hd.nf, hd.held, hd.me, ?_⟩, rfl, rfl, rfl⟩
    · dsimp only
      rw [hd.gets]
      simp [setG]
    · intro w hw
      dsimp only at hw ⊢
      simp only [List.mem_append, List.mem_singleton] at hw
      rcases hw with hw | hw
      · exact hd.ver w hw
      · subst hw; rfl

theorem dr_dequeueN (s : State) (g e n : Nat) (r : GetRec) (hd : Dr s g e r) (hq : QInv s) :
    ∃ r', Dr (dequeueN s g n) g e r' ∧ r'.readPending = r.readPending ∧
      (dequeueN s g n).queue.length = s.queue.length - min n s.queue.length ∧
      (dequeueN s g n).latest = s.latest := by
  induction n generalizing s r with
  | zero => exact ⟨r, hd, rfl, by simp [dequeueN], rfl⟩
  | succ n ih =>
    obtain ⟨r1, h1, h2, h3, h4⟩ := dr_dequeueOne s g e r hd hq
    obtain ⟨r2, k1, k2, k3, k4⟩ := ih (dequeueOne s g) r1 h1 (qinv_dequeueOne s g hq)
    refine ⟨r2, k1, by rw [k2, h2], ?_, ?_⟩
    · show (dequeueN (dequeueOne s g) g n).queue.length = _
      rw [k3, h3, List.length_dropLast]
      omega
    · show (dequeueN (dequeueOne s g) g n).latest = _
      rw [k4, h4]

theorem dr_readDone (s : State) (g e : Nat) (r : GetRec) (hd : Dr s g e r) (hp : r.readPending = true) :
    ∃ r', Dr (readDone s g true) g e r' ∧ r'.readPending = false ∧ r'.writes = r.writes ∧
      (readDone s g true).queue = s.queue ∧ (readDone s g true).latest = s.latest := by
  unfold readDone
  rw [dr_lookup hd]
  dsimp only
  rw [if_pos hp]
  refine ⟨{ r with readPending := false, readMsg := s.store r.digest, failed := r.failed || !true },
    ⟨?_, hd.ex, hd.dig, ?_, hd.held, hd.me, hd.ver⟩, rfl, rfl, rfl, rfl⟩
  · dsimp only
    rw [hd.gets]
    simp [setG]
  · simp [hd.nf]

theorem nodup_map_inj (ws : List Write) (hn : (ws.map (·.h)).Nodup) (a b : Write)
    (ha : a ∈ ws) (hb : b ∈ ws) (hab : a.h = b.h) : a = b := by
  induction ws with
  | nil => cases ha
  | cons x rest ih =>
    simp only [List.map_cons, List.nodup_cons, List.mem_map, not_exists, not_and] at hn
    simp only [List.mem_cons] at ha hb
    rcases ha with ha | ha <;> rcases hb with hb | hb
    · rw [ha, hb]
    · subst ha; exact absurd hab.symm (hn.1 b hb)
    · subst hb; exact absurd hab (hn.1 a ha)
    · exact ih hn.2 ha hb

/-- One successful Put of a drain `Get`: the handle is clean afterwards and leaves the
map; nothing is queued. -/
theorem dr_putDone (s : State) (g e : Nat) (r : GetRec) (w : Write) (hd : Dr s g e r)
    (hq : QInv s) (hg : GInv s) (hw : w ∈ r.writes) :
    Dr (putDone repoConfig s g w.h .ok) g e { r with writes := r.writes.filter (fun w' => w'.h != w.h) } ∧
      (putDone repoConfig s g w.h .ok).queue = s.queue ∧
      (putDone repoConfig s g w.h .ok).latest = s.latest := by
  have hl := dr_lookup hd
  have hnd := hg.g3n g r hl
  -- the write found for handle `w.h` is `w` itself
  have hfind : findWrite r.writes w.h = some w := by
    cases hf : findWrite r.writes w.h with
    | none =>
      unfold findWrite at hf
      rw [List.find?_eq_none] at hf
      have := hf w hw
      simp at this
    | some w2 =>
      obtain ⟨hm2, hh2⟩ := findWrite_some _ _ _ hf
      rw [nodup_map_inj r.writes hnd w2 w hm2 hw hh2]
  obtain ⟨hwg, hver, _, _, _⟩ := hg.g3 g r w hl hw
  have hcur := hd.ver w hw
  have huc := dr_useCount hd hq w.h
  unfold putDone
  rw [hl]
  simp only [hfind]
  unfold removeOrQueue
  have hcfg : repoConfig.writeGuard = true := rfl
  simp only [hcfg, true_and]
  simp only [reduceCtorEq, if_true, if_false, upd_same, huc, hcur, ne_eq, not_true_eq_false,
    not_false_eq_true, and_self]
  refine ⟨⟨?_, hd.ex, hd.dig, ?_, hd.held, ?_, ?_⟩, trivial⟩
  · dsimp only
    rw [hd.gets]
    simp [setG]
  · simp [hd.nf]
  · dsimp only
    simp only [upd_apply]
    split
    · rfl
    · exact hd.me
  · intro w' hw'
    dsimp only at hw' ⊢
    exact hd.ver w' (List.mem_filter.1 hw').1

theorem filter_ne_head (w : Write) (rest : List Write) (hn : ((w :: rest).map (·.h)).Nodup) :
    (w :: rest).filter (fun w' => w'.h != w.h) = rest := by
  simp only [List.map_cons, List.nodup_cons, List.mem_map, not_exists, not_and] at hn
  rw [List.filter_cons]
  simp only [bne_self_eq_false, Bool.false_eq_true, if_false]
  rw [List.filter_eq_self]
  intro a ha
  simp only [bne_iff_ne, ne_eq]
  exact hn.1 a ha

theorem dr_putAllOk (g e : Nat) (ws : List Write) :
    ∀ (s : State) (r : GetRec), Dr s g e r → QInv s → GInv s → r.writes = ws →
      ∃ r', Dr (putAllOk repoConfig g s ws) g e r' ∧ r'.writes = [] ∧ r'.readPending = r.readPending ∧
        QInv (putAllOk repoConfig g s ws) ∧ GInv (putAllOk repoConfig g s ws) ∧
        (putAllOk repoConfig g s ws).queue = s.queue ∧ (putAllOk repoConfig g s ws).latest = s.latest := by
  induction ws with
  | nil =>
    intro s r hd hq hg hw
    exact ⟨r, hd, hw, rfl, hq, hg, rfl, rfl⟩
  | cons w rest ih =>
    intro s r hd hq hg hw
    have hmem : w ∈ r.writes := by rw [hw]; simp
    obtain ⟨h1, h2, h3⟩ := dr_putDone s g e r w hd hq hg hmem
    have hnd := hg.g3n g r (dr_lookup hd)
    rw [hw] at hnd
    have hrest : ({ r with writes := r.writes.filter (fun w' => w'.h != w.h) } : GetRec).writes = rest := by
      dsimp only
      rw [hw]
      exact filter_ne_head w rest hnd
    obtain ⟨r', k1, k2, k3, k4, k5, k6, k7⟩ := ih _ _ h1 (qinv_putDone repoConfig s g w.h .ok hq)
      (ginv_putDone s g w.h .ok hg) hrest
    refine ⟨r', k1, k2, k3, k4, k5, ?_, ?_⟩
    · show (putAllOk repoConfig g (putDone repoConfig s g w.h .ok) rest).queue = _
      rw [k6, h2]
    · show (putAllOk repoConfig g (putDone repoConfig s g w.h .ok) rest).latest = _
      rw [k7, h3]

/-- The end of a drain `Get` (all calls completed) and the clean release of the new
handle: the store is quiescent again and the digest has no handle. -/
theorem dr_finish (s : State) (g e : Nat) (r : GetRec) (hd : Dr s g e r)
    (hp : r.readPending = false) (hw : r.writes = []) :
    let s' := release repoConfig (getEnd repoConfig s g) (getEndHandle s r) false
    quiescent s' ∧ s'.map e = none ∧ s'.queue = s.queue ∧ s'.latest = s.latest := by
  have hl := dr_lookup hd
  have hgh : getEndHandle s r = s.nextH := by
    unfold getEndHandle
    rw [hd.ex, hd.dig, hd.me]
  have hge : getEnd repoConfig s g = { s with
      gets := []
      map := upd s.map e (some s.nextH)
      hdigest := upd s.hdigest s.nextH e
      useCount := upd s.useCount s.nextH 1
      written := upd s.written s.nextH 0
      current := upd s.current s.nextH 0
      idx := upd s.idx s.nextH none
      msg := upd s.msg s.nextH r.readMsg
      wg := upd s.wg s.nextH none
      held := upd s.held s.nextH 1
      nextH := s.nextH + 1 } := by
    unfold getEnd
    rw [hl]
    simp only [hp, hw, Bool.false_eq_true, ne_eq, not_true_eq_false, or_self, if_false, hd.nf, hd.ex]
    rw [hd.dig, hd.me]
    dsimp only
    rw [hd.gets]
    simp [eraseG]
  intro s'
  have hs' : s' = release repoConfig (getEnd repoConfig s g) s.nextH false := by
    show release repoConfig (getEnd repoConfig s g) (getEndHandle s r) false = _
    rw [hgh]
  rw [hs', hge]
  unfold release decreaseUseCount removeOrQueue
  have hcfg : repoConfig.writeGuard = true := rfl
  simp only [hcfg, true_and]
  simp only [upd_same, Bool.false_eq_true, if_false, Nat.succ_ne_zero, Nat.add_one_sub_one, ne_eq,
    not_true_eq_false, not_false_eq_true, and_self, if_true]
  refine ⟨⟨rfl, ?_⟩, trivial⟩
  intro h
  dsimp only
  simp only [upd_apply]
  split
  · rfl
  · exact hd.held h

/-- One drain `Get` from a quiescent state. -/
theorem drain_step (s : State) (g e : Nat) (hq : QInv s) (hg : GInv s) (hqu : quiescent s)
    (hme : s.map e = none) :
    QInv (fullGetRelease repoConfig s g e) ∧ GInv (fullGetRelease repoConfig s g e) ∧
    quiescent (fullGetRelease repoConfig s g e) ∧ (fullGetRelease repoConfig s g e).map e = none ∧
    (fullGetRelease repoConfig s g e).latest = s.latest ∧
    (fullGetRelease repoConfig s g e).queue.length = s.queue.length - min 3 s.queue.length := by
  have hfree : lookupG s.gets g = none := by rw [hqu.1]; rfl
  -- first lock-held section
  obtain ⟨r0, d0, p0, _, q0, l0⟩ := dr_getBeginMid s g e hqu hme
  have hq0 := qinv_getBeginMid s g e hq hfree
  have hg0 := ginv_getBeginMid s g e hq hg hfree
  obtain ⟨r1, d1, p1, q1, l1⟩ := dr_dequeueN _ g e writesPerRead r0 d0 hq0
  have hq1 := qinv_dequeueN _ g writesPerRead hq0
  have hg1 := inv_dequeueN _ g writesPerRead hq0 hg0
  rw [← getBegin_eq s g e hfree] at d1 q1 l1 hq1 hg1
  -- the read
  obtain ⟨r2, d2, p2, w2, q2, l2⟩ := dr_readDone _ g e r1 d1 (by rw [p1, p0])
  have hq2 := qinv_readDone _ g true hq1
  have hg2 := ginv_readDone _ g true hg1
  -- the writes
  obtain ⟨r3, d3, w3, p3, hq3, hg3, q3, l3⟩ := dr_putAllOk g e r2.writes _ r2 d2 hq2 hg2 rfl
  -- the last lock-held section and the release
  have hfin := dr_finish _ g e r3 d3 (by rw [p3, p2]) w3
  have hq4 := qinv_release repoConfig _
    (getEndHandle (putAllOk repoConfig g (readDone (getBegin s g e) g true) r2.writes) r3) false
    (qinv_getEnd repoConfig _ g hq3)
  have hg4 := ginv_release _
    (getEndHandle (putAllOk repoConfig g (readDone (getBegin s g e) g true) r2.writes) r3) false
    (qinv_getEnd repoConfig _ g hq3) (ginv_getEnd _ g hq3 hg3)
  have heq : fullGetRelease repoConfig s g e =
      release repoConfig (getEnd repoConfig (putAllOk repoConfig g (readDone (getBegin s g e) g true) r2.writes) g)
        (getEndHandle (putAllOk repoConfig g (readDone (getBegin s g e) g true) r2.writes) r3) false := by
    unfold fullGetRelease
    dsimp only
    rw [dr_lookup d2]
    dsimp only
    rw [dr_lookup d3]
  rw [heq]
  refine ⟨hq4, hg4, hfin.1, hfin.2.1, ?_, ?_⟩
  · rw [hfin.2.2.2, l3, l2, l1, l0]
  · rw [hfin.2.2.1, q3, q2, q1, q0]
    rfl

/-- In a quiescent reachable state every handle in the map is queued. -/
theorem quiescent_queued (s : State) (hq : QInv s) (hg : GInv s) (hqu : quiescent s) (d h : Nat)
    (hm : s.map d = some h) : s.idx h ≠ none := by
  have hu : s.useCount h = 0 := by
    have := hq.acct h
    rw [hqu.1, hqu.2 h] at this
    simpa [refs] using this
  have hw : s.wg h = none := by
    cases hwg : s.wg h with
    | none => rfl
    | some g =>
      obtain ⟨_, r, w, hl, _, _⟩ := hg.g2 h g hwg
      rw [hqu.1] at hl
      cases hl
  have := (hg.c d h hm).2
  rcases this with h1 | h1 | h1 | h1
  · exact absurd h1 id
  · omega
  · exact h1
  · exact absurd hw h1

theorem drain_all (e : Nat) (gs : List Nat) :
    ∀ s, QInv s → GInv s → quiescent s → s.map e = none → s.queue.length ≤ 3 * gs.length →
      (drain repoConfig e s gs).queue = [] ∧ (∀ d, (drain repoConfig e s gs).map d = none) ∧
      (∀ d, (drain repoConfig e s gs).store d = s.latest d) := by
  induction gs with
  | nil =>
    intro s hq hg hqu hme hlen
    have hqe : s.queue = [] := by
      simpa using hlen
    have hmap : ∀ d, s.map d = none := by
      intro d
      cases hm : s.map d with
      | none => rfl
      | some h =>
        have hi := quiescent_queued s hq hg hqu d h hm
        cases hidx : s.idx h with
        | none => exact absurd hidx hi
        | some i =>
          have := (hq.q1 i h).2 hidx
          rw [hqe] at this
          simp at this
    exact ⟨hqe, hmap, fun d => hg.d2 d (hmap d)⟩
  | cons g gs ih =>
    intro s hq hg hqu hme hlen
    obtain ⟨h1, h2, h3, h4, h5, h6⟩ := drain_step s g e hq hg hqu hme
    have := ih (fullGetRelease repoConfig s g e) h1 h2 h3 h4 (by
      rw [h6]; simp only [List.length_cons] at hlen; omega)
    rw [h5] at this
    exact this

/-- A failed Put (nothing stored) of an unused handle puts the handle back into the
write queue; it stays in the map with its message. -/
theorem putDone_err_requeues (s : State) (g h : Nat) (r : GetRec) (w : Write) (hg : GInv s)
    (hl : lookupG s.gets g = some r) (hf : findWrite r.writes h = some w) (hu : s.useCount h = 0) :
    (putDone repoConfig s g h .err).idx h = some s.queue.length ∧
    (putDone repoConfig s g h .err).queue = s.queue ++ [h] ∧
    (putDone repoConfig s g h .err).map = s.map ∧
    (putDone repoConfig s g h .err).msg = s.msg ∧
    (putDone repoConfig s g h .err).store = s.store := by
  obtain ⟨hmem, hwh⟩ := findWrite_some _ _ _ hf
  obtain ⟨hwg, _, _, _, _⟩ := hg.g3 g r w hl hmem
  rw [hwh] at hwg
  obtain ⟨hdirty, _⟩ := hg.g2 h g hwg
  have hnq : s.idx h = none := by
    apply Classical.byContradiction
    intro hi
    have := (hg.g1 h hi).1
    rw [hwg] at this; cases this
  unfold putDone
  rw [hl]
  simp only [hf]
  unfold removeOrQueue
  have hcfg : repoConfig.writeGuard = true := rfl
  simp only [hcfg, true_and]
  simp only [reduceCtorEq, if_true, if_false, upd_same, hu, hdirty, hnq, ne_eq, not_true_eq_false,
    not_false_eq_true, and_self]
end BbRe.Lemmas.ProtoStore
