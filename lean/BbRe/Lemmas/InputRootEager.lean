import BbRe.Lemmas.InputRootEquiv
import BbRe.Lemmas.InputRootFetch
/-!
The eager tree (`expand`) for C17: it is equivalent to the lazy one for every
fuel, and with fuel above the DAG depth of the root nothing fetchable is left
lazy in it.
-/
namespace BbRe.Lemmas.InputRoot
open BbRe.InputRoot

theorem expand_equiv (c : CAS) : ∀ (f : Nat) (n : Node), Equiv c (expand c f n) n := by
  intro f
  induction f with
  | zero => intro n; simp only [expand]; exact Equiv.refl c n
  | succ f ih =>
    intro n
    cases n with
    | dir ch =>
      simp only [expand]
      exact equiv_dir (chrel_map (expand c f) ih ch)
    | lazy d m =>
      simp only [expand]
      cases h : (fetch c [] d m).result with
      | error e => exact Equiv.refl c _
      | ok ch =>
        simp only []
        have hc : contents c [] (.lazy d m) = .ok ch := by simp [contents, h]
        exact (equiv_dir (chrel_map (expand c f) ih ch)).trans (equiv_force hc)
    | file d x m => simp only [expand]; exact Equiv.refl c _
    | sym t => simp only [expand]; exact Equiv.refl c _
    | loc => simp only [expand]; exact Equiv.refl c _

/-- A successful fetch comes from a well-formed message and yields exactly its entries. -/
theorem fetch_ok_spec (c : CAS) (d : Dig) (mon : Option Path) (ch : Children)
    (h : (fetch c [] d mon).result = .ok ch) :
    ∃ m, assoc c.dirs d = some (some m) ∧ WellFormed c.hashLen m ∧
      ch = (specChildren c.hashLen m).map (annotate mon) := by
  have hF : d ∉ ([] : List Dig) := by simp
  cases hm : assoc c.dirs d with
  | none => simp [fetch, fetchBase, hm] at h
  | some o =>
    cases o with
    | none => simp [fetch, fetchBase, hm] at h
    | some m =>
      refine ⟨m, rfl, ?_⟩
      by_cases hw : WellFormed c.hashLen m
      · rw [fetch_wellFormed c [] d mon m hF hm hw] at h
        simp only [Except.ok.injEq] at h
        exact ⟨hw, h.symm⟩
      · obtain ⟨k, hk⟩ := fetch_malformed c [] d mon m hF hm hw
        rw [hk] at h
        cases h

theorem mem_conv {α : Type} (nameOf : α → Name) (mk : α → Option Node) (es : List α)
    (x : Name) (v : Node) (h : (x, v) ∈ conv nameOf mk es) : ∃ e ∈ es, nameOf e = x ∧ mk e = some v := by
  simp only [conv, List.mem_filterMap] at h
  obtain ⟨e, he, hv⟩ := h
  cases hm : mk e with
  | none => simp [hm] at hv
  | some w =>
    simp only [hm, Option.map, Option.some.injEq, Prod.mk.injEq] at hv
    exact ⟨e, he, hv.1, by rw [← hv.2]; exact hm⟩

/-- Children produced by a fetch are files, symlinks or lazy directories named by the message. -/
theorem mem_specChildren (hl : Nat) (m : DirMsg) (x : Name) (v : Node)
    (h : (x, v) ∈ specChildren hl m) :
    (∃ e ∈ m.dirs, ∃ d', parseDigest hl e.digest = some d' ∧ v = .lazy d' none) ∨
    (∃ d' ex, v = .file d' ex none) ∨ (∃ t, v = .sym t) := by
  simp only [specChildren, List.mem_append] at h
  rcases h with (h | h) | h
  · obtain ⟨e, he, _, hv⟩ := mem_conv _ _ _ _ _ h
    left
    simp only [mkDir] at hv
    cases hp : parseDigest hl e.digest with
    | none => simp [hp] at hv
    | some d' => simp [hp] at hv; exact ⟨e, he, d', hp, hv.symm⟩
  · obtain ⟨e, _, _, hv⟩ := mem_conv _ _ _ _ _ h
    right; left
    simp only [mkFile] at hv
    cases hp : parseDigest hl e.digest with
    | none => simp [hp] at hv
    | some d' => simp [hp] at hv; exact ⟨d', e.exec, hv.symm⟩
  · obtain ⟨e, _, _, hv⟩ := mem_conv _ _ _ _ _ h
    right; right
    simp only [mkSym] at hv
    split at hv
    · simp at hv; exact ⟨e.target, hv.symm⟩
    · cases hv

/-- The Directory messages form a DAG: sub-directory digests have smaller rank.
(For a content addressed store: the depth of the tree a digest names.) -/
def Acyclic (c : CAS) (rank : Dig → Nat) : Prop :=
  ∀ d m, assoc c.dirs d = some (some m) → ∀ e ∈ m.dirs, ∀ d',
    parseDigest c.hashLen e.digest = some d' → rank d' < rank d

/-- No directory that could be fetched is left lazy (following materialised
directories only): what is lazy in an eager tree is a directory that cannot be
loaded (malformed or absent). -/
def Eager (c : CAS) (n : Node) : Prop :=
  ∀ p d m, rawAt n p = some (.lazy d m) → ∃ e, (fetch c [] d m).result = .error e

/-- Children of a (possibly wrapped) fetch: annotated entries of the message. -/
theorem mem_fetched (hl : Nat) (mon : Option Path) (m : DirMsg) (x : Name) (v : Node)
    (h : (x, v) ∈ (specChildren hl m).map (annotate mon)) :
    (∃ e ∈ m.dirs, ∃ d' a, parseDigest hl e.digest = some d' ∧ v = .lazy d' a) ∨
    (∃ d' ex a, v = .file d' ex a) ∨ (∃ t, v = .sym t) := by
  obtain ⟨⟨y, w⟩, hw, heq⟩ := List.mem_map.1 h
  rcases mem_specChildren hl m y w hw with ⟨e, he, d', hp, rfl⟩ | ⟨d', ex, rfl⟩ | ⟨t, rfl⟩
  · left; simp only [annotate, Prod.mk.injEq] at heq; exact ⟨e, he, d', _, hp, heq.2.symm⟩
  · right; left; simp only [annotate, Prod.mk.injEq] at heq; exact ⟨d', ex, _, heq.2.symm⟩
  · right; right; simp only [annotate, Prod.mk.injEq] at heq; exact ⟨t, heq.2.symm⟩

theorem lookup_map (g : Node → Node) (ch : Children) (x : Name) :
    lookup (ch.map fun e => (e.1, g e.2)) x = (lookup ch x).map g := by
  induction ch with
  | nil => rfl
  | cons e es ih =>
    obtain ⟨n, v⟩ := e
    by_cases h : n = x <;> simp [lookup, h, ih]

theorem lookup_mem (ch : Children) (x : Name) (v : Node) (h : lookup ch x = some v) : (x, v) ∈ ch := by
  induction ch with
  | nil => simp [lookup] at h
  | cons e es ih =>
    obtain ⟨n, w⟩ := e
    by_cases hn : n = x
    · simp [lookup, hn] at h; simp [hn, h]
    · simp only [lookup, hn, if_false] at h; exact List.mem_cons_of_mem _ (ih h)

theorem expand_eager (c : CAS) (rank : Dig → Nat) (hr : Acyclic c rank) :
    ∀ (f : Nat) (d : Dig) (mon : Option Path), rank d < f → Eager c (expand c f (.lazy d mon)) := by
  intro f
  induction f with
  | zero => intro d mon h; omega
  | succ f ih =>
    intro d mon hd p d0 m0 hp
    simp only [expand] at hp
    cases h : (fetch c [] d mon).result with
    | error e =>
      simp only [h] at hp
      cases p with
      | nil =>
        simp only [rawAt, Option.some.injEq, Node.lazy.injEq] at hp
        obtain ⟨rfl, rfl⟩ := hp
        exact ⟨e, h⟩
      | cons x rest => simp [rawAt] at hp
    | ok ch =>
      simp only [h] at hp
      obtain ⟨m, hm, _, hch⟩ := fetch_ok_spec c d mon ch h
      cases p with
      | nil => simp [rawAt] at hp
      | cons x rest =>
        simp only [rawAt, lookup_map] at hp
        cases hx : lookup ch x with
        | none => simp [hx] at hp
        | some v =>
          simp only [hx, Option.map] at hp
          have hmem := lookup_mem ch x v hx
          rw [hch] at hmem
          rcases mem_fetched _ _ _ _ _ hmem with ⟨e, he, d', a, hp', rfl⟩ | ⟨d', ex, a, rfl⟩ | ⟨t, rfl⟩
          · have hlt : rank d' < f := by
              have := hr d m hm e he d' hp'
              omega
            exact ih d' a hlt rest d0 m0 hp
          · cases f <;> cases rest <;> simp [expand, rawAt] at hp
          · cases f <;> cases rest <;> simp [expand, rawAt] at hp

end BbRe.Lemmas.InputRoot
