import BbRe.Lemmas.SchedLiveMono2
import BbRe.Lemmas.SchedLiveFrame2
/-!
`TStep` for every RPC segment and for `step`.
-/
namespace BbRe.Lemmas.SchedLive
open BbRe.Sched

/-- replace one existing operation by a version with the same name and task -/
theorem TStep.of_op {allow : Prop} {s s' : State} {k0 : Nat} {o0 o2 : Op} (h0 : s.op? k0 = some o0)
    (hn : o2.name = o0.name) (ht : o2.task = o0.task)
    (hm : o2.mayExistWithoutWaiters = true → o0.mayExistWithoutWaiters = true) (h1 : s'.tasks = s.tasks)
    (h2 : s'.ops = aset o0.name o2 s.ops) (h3 : s'.nextTask = s.nextTask) (h4 : s'.nextOp = s.nextOp) :
    TStep allow s s' := by
  intro hk
  have hname := (hk.oname k0 o0 h0).1
  refine TStep.of_ops h1 (fun h => h2 ▸ nodup_akeys_aset _ _ _ h) ?_ h3 h4 hk
  intro k o' e
  simp only [State.op?, h2, alookup_aset, hname] at e
  split at e
  · rename_i hkk; subst hkk; injection e with e; subst e; exact ⟨o0, h0, ht, hn, hm⟩
  · exact ⟨o', e, rfl, rfl, id⟩

theorem streamSend_tstep {allow : Prop} {s s' : State} {c o : Nat} (hh : streamSend s c o = .ok s') :
    TStep allow s s' := by
  obtain ⟨op, t, h0, _, ⟨r, _, _, rfl⟩ | ⟨_, rfl⟩⟩ := streamSend_ok hh
  · intro hk
    have hname := (hk.oname o op h0).1
    exact TStep.of_op (o2 := { op with waiters := op.waiters - 1 }) h0 rfl rfl id (by simp) (by simp [sendDone, hname]) (by simp) (by simp) hk
  · exact TStep.of_same rfl rfl rfl rfl

theorem streamAttach_tstep {allow : Prop} {s s' : State} {c o : Nat} (hh : streamAttach s c o = .ok s') :
    TStep allow s s' := by
  obtain ⟨op, h0, h1⟩ := streamAttach_ok hh
  refine TStep.trans (b := attachS s o op) ?_ (streamSend_tstep h1)
  intro hk
  have hname := (hk.oname o op h0).1
  exact TStep.of_op (o2 := { op with waiters := op.waiters + 1 }) h0 rfl rfl id rfl (by simp [attachS, hname]) rfl rfl hk

theorem streamLeave_tstep {allow : Prop} {s s' : State} {c code : Nat} (hh : streamLeave s c code = .ok s') :
    TStep allow s s' := by
  obtain ⟨st, op, _, h0, _, rfl⟩ := streamLeave_ok hh
  intro hk
  have hname := (hk.oname st.op op h0).1
  exact TStep.of_op (o2 := { op with waiters := op.waiters - 1 }) h0 rfl rfl id (by simp) (by simp [leaveS, hname]) (by simp) (by simp) hk

theorem streamWake_tstep {allow : Prop} {h : Hints} {s s' : State} {now c reason : Nat}
    (hh : streamWake h s now c reason = .ok s') : TStep allow s s' := by
  obtain ⟨s1, st, h1, _, ⟨_, h3⟩ | ⟨_, _, h3⟩⟩ := streamWake_ok hh
  · exact (enter_tstep h1).trans (streamLeave_tstep h3)
  · exact (enter_tstep h1).trans (streamSend_tstep h3)

/-- a further operation on an existing task -/
theorem addOpS_tstep (allow : Prop) {s : State} {tid : Nat} {t : Task} (inv : List Nat) (prio : Int)
    (h0 : s.task? tid = some t) : TStep allow s (addOpS s tid t inv prio) := by
  apply TStep.intro; intro hk
  have hid := hk.tid tid t h0
  refine ⟨by simp only [addOpS_tasks]; exact nodup_akeys_aset _ _ _ hk.tnodup,
    by simp only [addOpS_ops]; exact nodup_akeys_aset _ _ _ hk.onodup, by simp, by simp, ?_, ?_⟩
  · intro k t' e
    simp only [State.task?, addOpS_tasks, alookup_aset] at e
    split at e
    · rename_i hkk; injection e with e; subst e
      refine .inl ⟨t, by rw [← hkk, hid.1]; exact h0, ⟨rfl, Nat.le_refl _, rfl, rfl, rfl, fun _ h => h, by simp, by simp [Task.stage], rfl⟩⟩
    · exact .inl ⟨t', e, TaskLe.refl _ _⟩
  · intro k o' e
    simp only [State.op?, addOpS_ops, alookup_aset] at e
    split at e
    · rename_i hkk; injection e with e; subst e
      exact .inr ⟨by omega, by simp; omega, hkk, by simp; exact hid.2, by simp⟩
    · exact .inl ⟨o', e, rfl, rfl, id⟩

theorem execArrive_tstep {allow : Prop} {h : Hints} {s s' : State} {now c digest dkey : Nat} {dnc : Bool}
    {comps : List Nat} {platform : Nat} {inv : List Nat} {prio : Int}
    (hh : execArrive h s now c digest dkey dnc comps platform inv prio = .ok s') : TStep allow s s' := by
  obtain ⟨s1, h1, h2 | h2 | h2⟩ := execArrive_ok hh
  · obtain ⟨tid, t, _, h0, ⟨o, _, h3⟩ | ⟨_, h3⟩⟩ := h2
    · exact ((enter_tstep h1).trans (TStep.of_same (s' := emit s1 .selAbandoned) rfl rfl rfl rfl)).trans (streamAttach_tstep h3)
    · exact (((enter_tstep h1).trans (TStep.of_same (s' := emit s1 .selAbandoned) rfl rfl rfl rfl)).trans
        (addOpS_tstep allow inv prio (s := emit s1 .selAbandoned) h0)).trans (streamAttach_tstep h3)
  · obtain ⟨_, _, rfl⟩ := h2
    exact (enter_tstep h1).trans (TStep.of_same rfl rfl rfl rfl)
  · obtain ⟨_, pq, sc, s3, _, _, h3, h4⟩ := h2
    refine ((enter_tstep h1).trans ?_).trans (streamAttach_tstep h4)
    exact tstep_new_then_schedule (s := s1) (tn := newTask s1 digest dkey dnc ⟨pq.id, sc⟩) (on := newOp s1 inv prio)
      rfl rfl rfl (by simp) (by simp) (by simp) (by simp) h3

theorem waitArrive_tstep {allow : Prop} {h : Hints} {s s' : State} {now c name : Nat}
    (hh : waitArrive h s now c name = .ok s') : TStep allow s s' := by
  obtain ⟨s1, h1, ⟨_, rfl⟩ | ⟨op, _, h2⟩⟩ := waitArrive_ok hh
  · exact (enter_tstep h1).trans (TStep.of_same rfl rfl rfl rfl)
  · exact (enter_tstep h1).trans (streamAttach_tstep h2)

/-! ### workers -/

theorem assignNext_tstep {allow : Prop} {h : Hints} {s s1 : State} {w : Worker} {got : Bool}
    (hh : assignNext h s w = .ok (s1, got)) : TStep allow s s1 := by
  rcases assignNext_ok hh with ⟨_, rfl, _⟩ | ⟨_, t, t', hq, _, htw, h3, rfl⟩
  · exact TStep.refl _ _
  · -- `t` is a queued task of the state: it is stored under its own id
    unfold queuedTasks at hq
    simp only [List.mem_map, List.mem_filter] at hq
    obtain ⟨⟨k, t0⟩, ⟨hm, hc⟩, rfl⟩ := hq
    intro hk
    have ht' : t' = { t0 with worker := some (w.scq, w.id), retry := 0, queued := false } := by
      simp only [State.task?, assignS_tasks, alookup_aset, if_true] at h3
      injection h3 with h3; exact h3.symm
    subst ht'
    -- membership gives the lookup because keys are distinct
    have hl : s.task? k = some t0 := by
      have : ∀ (l : List (Nat × Task)), (akeys l).Nodup → (k, t0) ∈ l → alookup k l = some t0 := by
        intro l; induction l with
        | nil => intro _ h; cases h
        | cons p r ih =>
          obtain ⟨a, b⟩ := p
          intro hn hm
          simp only [akeys, List.map_cons, List.nodup_cons] at hn
          simp only [List.mem_cons, Prod.mk.injEq] at hm
          rcases hm with ⟨rfl, rfl⟩ | hm
          · simp [alookup]
          · have : a ≠ k := by
              intro e; subst e; exact hn.1 (List.mem_map.2 ⟨(a, t0), hm, rfl⟩)
            simp only [alookup, this, if_false]; exact ih hn.2 hm
      exact this s.tasks hk.tnodup hm
    have hid := (hk.tid k t0 hl).1
    simp only [decide_eq_true_eq] at hc
    have hresp : t0.response = none := by simpa using hc.2.2.2
    refine TStep.of_task' (k0 := t0.id) (t0 := t0)
      (t2 := bumpGen { t0 with worker := some (w.scq, w.id), retry := 0, queued := false })
      (by rw [hid]; exact hl)
      ⟨rfl, by simp [bumpGen], rfl, rfl, rfl, fun _ h => h, by intro _; simp [bumpGen], ?_, rfl⟩ ?_ ?_ rfl rfl rfl hk
    · rintro (h | h)
      · simp [bumpGen, Task.stage, hresp] at h; split at h <;> omega
      · simp [bumpGen] at h
    · intro k'
      simp only [State.task?, setTask_tasks, assignS_tasks, alookup_aset, bumpGen]
      by_cases hkk : t0.id = k' <;> simp [hkk]
    · intro hn
      simp only [setTask_tasks, assignS_tasks]
      exact nodup_akeys_aset _ _ _ (nodup_akeys_aset _ _ _ hn)

theorem execResponse_tstep {allow : Prop} {s s' : State} {w : Worker} (hh : execResponse s w = .ok s') :
    TStep allow s s' := by
  obtain ⟨tid, t, _, _, rfl⟩ := execResponse_ok hh
  exact TStep.of_same rfl rfl rfl rfl

theorem syncReturn_tstep (allow : Prop) (s : State) (q : ScqId) (w : WId) : TStep allow s (syncReturn s q w) :=
  TStep.of_same (by simp) (by simp) (by simp) (by simp)

theorem getNextTask_tstep {allow : Prop} {h : Hints} {s s' : State} {q : ScqId} {w : WId} {pi block : Bool}
    (hh : getNextTask h s q w pi block = .ok s') : TStep allow s s' := by
  obtain ⟨wk, sq, _, _, h1 | h1 | h1⟩ := getNextTask_ok hh
  · obtain ⟨_, rfl⟩ := h1
    exact TStep.of_same (by simp) (by simp) (by simp) (by simp)
  · obtain ⟨_, _, s1, got, h2, h3 | h3 | h3⟩ := h1
    · obtain ⟨_, wk1, s2, _, h4, rfl⟩ := h3
      exact ((assignNext_tstep h2).trans (execResponse_tstep h4)).trans (syncReturn_tstep _ _ _ _)
    · obtain ⟨_, _, rfl⟩ := h3
      exact (assignNext_tstep h2).trans (TStep.of_same (by simp) (by simp) (by simp) (by simp))
    · obtain ⟨_, _, wk1, _, _, rfl⟩ := h3
      exact (assignNext_tstep h2).trans (TStep.of_same rfl rfl rfl rfl)
  · obtain ⟨_, _, h2 | h2⟩ := h1
    · obtain ⟨_, rfl⟩ := h2
      exact TStep.of_same (by simp) (by simp) (by simp) (by simp)
    · obtain ⟨_, rfl⟩ := h2
      exact TStep.of_same rfl rfl rfl rfl

theorem getCurrentOrNext_tstep {allow : Prop} {h : Hints} {s s' : State} {q : ScqId} {w : WId} {pi block : Bool}
    (hh : getCurrentOrNext h s q w pi block = .ok s') : TStep allow s s' := by
  obtain ⟨wk, _, h1 | h1⟩ := getCurrentOrNext_ok hh
  · exact getNextTask_tstep h1.2
  · obtain ⟨tid, t, _, h0, h2 | h2⟩ := h1
    · obtain ⟨_, rfl⟩ := h2
      intro hk
      have hid := (hk.tid tid t h0).1
      exact TStep.of_task (t0 := t) (t2 := { t with retry := t.retry + 1 }) (by rw [hid]; exact h0)
        ⟨rfl, Nat.le_refl _, rfl, rfl, rfl, fun _ h => h, by simp, by simp [Task.stage], rfl⟩
        (by simp) (by simp) (by simp) (by simp) hk
    · obtain ⟨_, s1, h3, h4⟩ := h2
      exact (complete_tstep_false h3).trans (getNextTask_tstep h4)

theorem syncQueue_tstep {allow : Prop} {s : State} {q : ScqId} {comps : List Nat} {pf : Nat} {w : WId}
    {x : State ⊕ State} (hh : syncQueue s q comps pf w = .ok x) : TStep allow s (unsum x) := by
  rcases syncQueue_ok hh with ⟨_, rfl⟩ | ⟨_, rfl⟩ | ⟨_, _, rfl⟩ | ⟨_, _, rfl⟩ <;> exact TStep.of_same rfl rfl rfl rfl

theorem syncWorker_tstep (allow : Prop) (s : State) (q : ScqId) (w : WId) : TStep allow s (unsum (syncWorker s q w)) := by
  rcases syncWorker_cases s q w with ⟨wk, _, _, e⟩ | ⟨wk, _, _, e⟩ | ⟨_, e⟩ <;> rw [e] <;> exact TStep.of_same rfl rfl rfl rfl

/-- the segment is a `Synchronize` that reports a failed completion and whose analyzer asks for a retry -/
def isRetrySeg : Seg → Prop
  | .sync h _ _ _ _ _ (.completed _ r) _ => h.retry = true ∧ ¬ isSucc r
  | _ => False

theorem syncArrive_tstep {h : Hints} {s s' : State} {now : Nat} {q : ScqId} {comps : List Nat} {pf : Nat}
    {w : WId} {rep : Report} {pi : Bool} (hh : syncArrive h s now q comps pf w rep pi = .ok s') :
    TStep (isRetrySeg (.sync h now q comps pf w rep pi)) s s' := by
  obtain ⟨s1, x, h1, h2, h3⟩ := syncArrive_ok hh
  refine (enter_tstep h1).trans ?_
  rcases h3 with rfl | ⟨s2, rfl, h3⟩
  · exact syncQueue_tstep h2
  · refine (syncQueue_tstep h2).trans ?_
    rcases h3 with h3 | ⟨s3, wk, h3, _, h4⟩
    · have := syncWorker_tstep (isRetrySeg (.sync h now q comps pf w rep pi)) s2 q w; rw [h3] at this; exact this
    · refine (by have := syncWorker_tstep (isRetrySeg (.sync h now q comps pf w rep pi)) s2 q w; rw [h3] at this; exact this :
        TStep _ s2 s3).trans ?_
      rcases h4 with ⟨_, rfl⟩ | ⟨_, h4⟩ | ⟨d, _, _, rfl⟩ | ⟨d, _, _, h4⟩ | ⟨d, r, tid, s4, hrep, _, _, h4, h5⟩ | ⟨d, r, _, _, h4⟩
      · exact TStep.of_same (by simp) (by simp) (by simp) (by simp)
      · exact getCurrentOrNext_tstep h4
      · exact TStep.of_same (by simp) (by simp) (by simp) (by simp)
      · exact getCurrentOrNext_tstep h4
      · subst hrep
        exact ((complete_tstep h4).mono (fun ⟨_, a, b⟩ => ⟨a, b⟩)).trans (getNextTask_tstep h5)
      · exact getCurrentOrNext_tstep h4

theorem syncWake_tstep {allow : Prop} {h : Hints} {s s' : State} {now : Nat} {q : ScqId} {w : WId} {reason : Nat}
    (hh : syncWake h s now q w reason = .ok s') : TStep allow s s' := by
  obtain ⟨s1, wk, h1, _, _, h2⟩ := syncWake_ok hh
  refine (enter_tstep h1).trans ?_
  rcases h2 with ⟨_, h2 | h2⟩ | ⟨_, rfl⟩ | ⟨_, _, h2 | h2⟩ | ⟨_, sq, g, _, _, _, h2⟩
  · obtain ⟨s3, _, h3, rfl⟩ := h2
    exact ((TStep.of_same (s := s1) (s' := s1.setWorker _) rfl rfl rfl rfl).trans (execResponse_tstep h3)).trans (syncReturn_tstep _ _ _ _)
  · obtain ⟨_, rfl⟩ := h2
    exact TStep.of_same (by simp) (by simp) (by simp) (by simp)
  · exact TStep.of_same (by simp) (by simp) (by simp) (by simp)
  · obtain ⟨s3, _, h3, rfl⟩ := h2
    exact ((TStep.of_same (s := s1) (s' := s1.setWorker _) rfl rfl rfl rfl).trans (execResponse_tstep h3)).trans (syncReturn_tstep _ _ _ _)
  · exact (TStep.of_same (s := s1) (s' := s1.setWorker { wk with woken := false }) rfl rfl rfl rfl).trans (getNextTask_tstep h2.2)
  · exact (TStep.of_same (s := s1) (s' := s1.setWorker { wk with drainWait := none }) rfl rfl rfl rfl).trans (getNextTask_tstep h2)

/-! ### operator calls -/

theorem killOp_tstep {allow : Prop} {h : Hints} {s s' : State} {now name code : Nat}
    (hh : killOp h s now name code = .ok s') : TStep allow s s' := by
  obtain ⟨s1, h1, ⟨_, rfl⟩ | ⟨op, s2, _, h2, rfl⟩⟩ := killOp_ok hh
  · exact (enter_tstep h1).trans (TStep.of_same rfl rfl rfl rfl)
  · exact ((enter_tstep h1).trans (complete_tstep_false h2)).trans (TStep.of_same rfl rfl rfl rfl)

theorem killQueue_tstep {allow : Prop} {h : Hints} {s s' : State} {now : Nat} {q : ScqId} {code : Nat}
    (hh : killQueue h s now q code = .ok s') : TStep allow s s' := by
  obtain ⟨s1, h1, ⟨ev, _, rfl⟩ | ⟨s2, h2, rfl⟩⟩ := killQueue_ok hh
  · exact (enter_tstep h1).trans (TStep.of_same rfl rfl rfl rfl)
  · exact ((enter_tstep h1).trans (cancelAllQueued_tstep h2)).trans (TStep.of_same rfl rfl rfl rfl)

theorem foldl_tstep {allow : Prop} {α} (f : State → α → State) (hf : ∀ s a, TStep allow s (f s a)) (l : List α) (s : State) :
    TStep allow s (l.foldl f s) := by
  induction l generalizing s with
  | nil => exact TStep.refl _ _
  | cons a r ih => exact (hf s a).trans (ih _)

theorem drainWake_tstep (allow : Prop) (q : ScqId) (p : Pattern) (s : State) (w : Worker) :
    TStep allow s (drainWake q p s w) := by
  unfold drainWake; split
  · exact TStep.of_same rfl rfl rfl rfl
  · exact TStep.refl _ _

theorem termMark_tstep (allow : Prop) (s : State) (w : Worker) : TStep allow s (termMark s w) := by
  unfold termMark
  (repeat' split) <;> first | exact TStep.of_same rfl rfl rfl rfl | exact TStep.refl _ _

theorem addDrain_tstep {allow : Prop} {h : Hints} {s s' : State} {now : Nat} {q : ScqId} {p : Pattern}
    (hh : addDrain h s now q p = .ok s') : TStep allow s s' := by
  obtain ⟨s1, h1, ⟨_, rfl⟩ | ⟨sq, _, rfl⟩⟩ := addDrain_ok hh
  · exact (enter_tstep h1).trans (TStep.of_same rfl rfl rfl rfl)
  · exact (((enter_tstep h1).trans (TStep.of_same (s' := s1.setScq _) rfl rfl rfl rfl)).trans
      (foldl_tstep _ (drainWake_tstep allow q p) _ _)).trans (TStep.of_same rfl rfl rfl rfl)

theorem removeDrain_tstep {allow : Prop} {h : Hints} {s s' : State} {now : Nat} {q : ScqId} {p : Pattern}
    (hh : removeDrain h s now q p = .ok s') : TStep allow s s' := by
  obtain ⟨s1, h1, ⟨_, rfl⟩ | ⟨sq, _, rfl⟩⟩ := removeDrain_ok hh
  · exact (enter_tstep h1).trans (TStep.of_same rfl rfl rfl rfl)
  · exact (enter_tstep h1).trans (TStep.of_same rfl rfl rfl rfl)

theorem terminate_tstep {allow : Prop} {h : Hints} {s s' : State} {now id : Nat} {p : Pattern}
    (hh : terminate h s now id p = .ok s') : TStep allow s s' := by
  obtain ⟨s1, h1, h2⟩ := terminate_ok hh
  simp only at h2
  refine (enter_tstep h1).trans
    ((foldl_tstep termMark (termMark_tstep allow) (s1.workers.filter (fun w => p.matches w.id)) s1).trans ?_)
  rcases h2 with ⟨_, rfl⟩ | ⟨_, rfl⟩ <;> exact TStep.of_same rfl rfl rfl rfl

theorem termWake_tstep {allow : Prop} {s s' : State} {id reason : Nat} (hh : termWake s id reason = .ok s') :
    TStep allow s s' := by
  obtain ⟨tc, _, ⟨_, rfl⟩ | ⟨_, _, rfl⟩⟩ := termWake_ok hh <;> exact TStep.of_same rfl rfl rfl rfl

/-- **Every segment** preserves the key discipline and evolves old tasks monotonically; stage / size
class may only drop in a retrying `Synchronize`. -/
theorem step_tstep {s s' : State} {g : Seg} (hstep : step s g = .ok s') : TStep (isRetrySeg g) s s' := by
  cases g with
  | register id comps pf sizes bm bp =>
    simp only [step, pure_ok] at hstep; subst hstep; exact TStep.of_same rfl rfl rfl rfl
  | exec h now c0 d dk dnc comps pf inv prio => exact execArrive_tstep hstep
  | wait h now c0 name => exact waitArrive_tstep hstep
  | streamWake h now c0 reason => exact streamWake_tstep hstep
  | sync h now q comps pf w rep pi => exact syncArrive_tstep hstep
  | syncWake h now q w reason => exact syncWake_tstep hstep
  | killOp h now name code => exact killOp_tstep hstep
  | killQueue h now q code => exact killQueue_tstep hstep
  | addDrain h now q p => exact addDrain_tstep hstep
  | removeDrain h now q p => exact removeDrain_tstep hstep
  | terminate h now id p => exact terminate_tstep hstep
  | termWake id reason => exact termWake_tstep hstep
  | touch h now => exact enter_tstep hstep

theorem keysOK_init (cfg : Cfg) : KeysOK (State.init cfg) :=
  ⟨by simp [State.init, akeys], by simp [State.init, akeys],
   by intro k t h; simp [State.init, State.task?, alookup] at h,
   by intro k o h; simp [State.init, State.op?, alookup] at h⟩

theorem keysOK_reachable {s : State} (hs : Reachable s) : KeysOK s := by
  induction hs with
  | init cfg => exact keysOK_init cfg
  | step g _ hstep ih => exact (step_tstep hstep ih).1

end BbRe.Lemmas.SchedLive
