import BbRe.Model.ProtoStore
/-! Helper lemmas for `Model/ProtoStore.lean`: pointwise update, the association
list of in-flight Gets, and the three queue primitives (push / pop / swap-remove). -/
namespace BbRe.Lemmas.ProtoStore
open BbRe.ProtoStore

@[simp] theorem upd_same {α : Type} (f : Nat → α) (k : Nat) (v : α) : upd f k v k = v := by
  simp [upd]

theorem upd_other {α : Type} (f : Nat → α) (k x : Nat) (v : α) (h : x ≠ k) : upd f k v x = f x := by
  simp [upd, h]

theorem upd_apply {α : Type} (f : Nat → α) (k x : Nat) (v : α) :
    upd f k v x = if x = k then v else f x := rfl

/-! ### in-flight Gets -/

theorem lookupG_setG (gs : List (Nat × GetRec)) (g g' : Nat) (r : GetRec) :
    lookupG (setG gs g r) g' = if g = g' then some r else lookupG gs g' := by
  induction gs with
  | nil => simp [setG, lookupG]
  | cons p rest ih =>
    obtain ⟨k, r0⟩ := p
    unfold setG
    by_cases hk : k = g
    · subst hk
      simp only [if_true, lookupG]
      by_cases hk' : k = g' <;> simp [hk']
    · simp only [hk, if_false, lookupG]
      by_cases hk' : k = g'
      · subst hk'
        simp [Ne.symm hk]
      · simp only [hk', if_false]; exact ih

theorem lookupG_eraseG_ne (gs : List (Nat × GetRec)) (g g' : Nat) (h : g ≠ g') :
    lookupG (eraseG gs g) g' = lookupG gs g' := by
  induction gs with
  | nil => simp [eraseG, lookupG]
  | cons p rest ih =>
    obtain ⟨k, r0⟩ := p
    unfold eraseG
    by_cases hk : k = g
    · subst hk
      simp [lookupG, h]
    · simp only [hk, if_false, lookupG]
      by_cases hk' : k = g'
      · simp [hk']
      · simp only [hk', if_false]; exact ih

/-- Keys of the in-flight Gets are pairwise distinct. -/
def KeysNodup (gs : List (Nat × GetRec)) : Prop := (gs.map Prod.fst).Nodup

theorem lookupG_none_of_not_mem (gs : List (Nat × GetRec)) (g : Nat)
    (h : g ∉ gs.map Prod.fst) : lookupG gs g = none := by
  induction gs with
  | nil => rfl
  | cons p rest ih =>
    obtain ⟨k, r0⟩ := p
    simp only [List.map_cons, List.mem_cons, not_or] at h
    simp only [lookupG, Ne.symm h.1, if_false]
    exact ih h.2

theorem mem_keys_of_lookupG (gs : List (Nat × GetRec)) (g : Nat) (r : GetRec)
    (h : lookupG gs g = some r) : g ∈ gs.map Prod.fst := by
  apply Classical.byContradiction
  intro hn
  rw [lookupG_none_of_not_mem gs g hn] at h
  cases h

theorem lookupG_eraseG_self (gs : List (Nat × GetRec)) (g : Nat) (h : KeysNodup gs) :
    lookupG (eraseG gs g) g = none := by
  induction gs with
  | nil => rfl
  | cons p rest ih =>
    obtain ⟨k, r0⟩ := p
    unfold KeysNodup at h
    simp only [List.map_cons, List.nodup_cons] at h
    unfold eraseG
    by_cases hk : k = g
    · subst hk
      simp only [if_true]
      exact lookupG_none_of_not_mem rest k h.1
    · simp only [hk, if_false, lookupG]
      exact ih h.2

theorem keys_eraseG_subset (gs : List (Nat × GetRec)) (g x : Nat)
    (h : x ∈ (eraseG gs g).map Prod.fst) : x ∈ gs.map Prod.fst := by
  induction gs with
  | nil => simp [eraseG] at h
  | cons p rest ih =>
    obtain ⟨k, r0⟩ := p
    unfold eraseG at h
    by_cases hk : k = g
    · simp only [hk, if_true] at h
      simp [h]
    · simp only [hk, if_false, List.map_cons, List.mem_cons] at h
      rcases h with h | h
      · simp [h]
      · simp [ih h]

theorem keysNodup_eraseG (gs : List (Nat × GetRec)) (g : Nat) (h : KeysNodup gs) :
    KeysNodup (eraseG gs g) := by
  induction gs with
  | nil => simpa [eraseG] using h
  | cons p rest ih =>
    obtain ⟨k, r0⟩ := p
    unfold KeysNodup at h ⊢
    simp only [List.map_cons, List.nodup_cons] at h
    unfold eraseG
    by_cases hk : k = g
    · simp only [hk, if_true]; exact h.2
    · simp only [hk, if_false, List.map_cons, List.nodup_cons]
      exact ⟨fun hm => h.1 (keys_eraseG_subset rest g k hm), ih h.2⟩

theorem keys_setG (gs : List (Nat × GetRec)) (g x : Nat) (r : GetRec)
    (h : x ∈ (setG gs g r).map Prod.fst) : x = g ∨ x ∈ gs.map Prod.fst := by
  induction gs with
  | nil => simp [setG] at h; exact Or.inl h
  | cons p rest ih =>
    obtain ⟨k, r0⟩ := p
    unfold setG at h
    by_cases hk : k = g
    · simp only [hk, if_true, List.map_cons, List.mem_cons] at h
      rcases h with h | h
      · exact Or.inl h
      · right; simp [h]
    · simp only [hk, if_false, List.map_cons, List.mem_cons] at h
      rcases h with h | h
      · right; simp [h]
      · rcases ih h with h | h
        · exact Or.inl h
        · right; simp [h]

theorem keysNodup_setG (gs : List (Nat × GetRec)) (g : Nat) (r : GetRec) (h : KeysNodup gs) :
    KeysNodup (setG gs g r) := by
  induction gs with
  | nil => simp [setG, KeysNodup]
  | cons p rest ih =>
    obtain ⟨k, r0⟩ := p
    unfold KeysNodup at h ⊢
    simp only [List.map_cons, List.nodup_cons] at h
    unfold setG
    by_cases hk : k = g
    · subst hk
      simp only [if_true, List.map_cons, List.nodup_cons]
      exact h
    · simp only [hk, if_false, List.map_cons, List.nodup_cons]
      refine ⟨fun hm => ?_, ih h.2⟩
      rcases keys_setG rest g k r hm with h' | h'
      · exact hk h'
      · exact h.1 h'

theorem refs_setG_same (gs : List (Nat × GetRec)) (g h : Nat) (r0 r : GetRec)
    (hl : lookupG gs g = some r0) (he : r.existing = r0.existing) :
    refs (setG gs g r) h = refs gs h := by
  induction gs with
  | nil => simp [lookupG] at hl
  | cons p rest ih =>
    obtain ⟨k, r1⟩ := p
    unfold setG
    unfold lookupG at hl
    by_cases hk : k = g
    · simp only [hk, if_true, Option.some.injEq] at hl
      subst hl
      simp only [hk, if_true, refs, he]
    · simp only [hk, if_false] at hl
      simp only [hk, if_false, refs, ih hl]

theorem refs_setG_new (gs : List (Nat × GetRec)) (g h : Nat) (r : GetRec)
    (hl : lookupG gs g = none) :
    refs (setG gs g r) h = refs gs h + (if r.existing = some h then 1 else 0) := by
  induction gs with
  | nil => simp [setG, refs]
  | cons p rest ih =>
    obtain ⟨k, r1⟩ := p
    unfold lookupG at hl
    unfold setG
    by_cases hk : k = g
    · simp [hk] at hl
    · simp only [hk, if_false] at hl
      simp only [hk, if_false, refs, ih hl]
      omega

theorem refs_eraseG (gs : List (Nat × GetRec)) (g h : Nat) (r : GetRec)
    (hl : lookupG gs g = some r) :
    refs (eraseG gs g) h + (if r.existing = some h then 1 else 0) = refs gs h := by
  induction gs with
  | nil => simp [lookupG] at hl
  | cons p rest ih =>
    obtain ⟨k, r1⟩ := p
    unfold lookupG at hl
    unfold eraseG
    by_cases hk : k = g
    · simp only [hk, if_true, Option.some.injEq] at hl
      subst hl
      simp only [hk, if_true, refs]
      omega
    · simp only [hk, if_false] at hl
      simp only [hk, if_false, refs]
      have := ih hl
      omega

/-! ### the write queue -/

/-- queue indices are consistent with positions -/
def Q1 (q : List Nat) (idx : Nat → Option Nat) : Prop := ∀ i h, q[i]? = some h ↔ idx h = some i

theorem q1_push (q : List Nat) (idx : Nat → Option Nat) (h : Nat) (hq : Q1 q idx) (hn : idx h = none) :
    Q1 (q ++ [h]) (upd idx h (some q.length)) := by
  intro i x
  have := hq i x
  simp only [upd_apply]
  by_cases hx : x = h
  · subst hx
    simp only [if_true]
    constructor
    · intro hi
      by_cases hlt : i < q.length
      · rw [List.getElem?_append_left hlt] at hi
        have := (hq i x).1 hi
        rw [hn] at this; cases this
      · have : i = q.length := by
          have := List.getElem?_eq_some_iff.1 hi
          obtain ⟨hlen, _⟩ := this
          simp at hlen; omega
        rw [this]
    · intro hi
      have : i = q.length := by simpa using hi.symm
      subst this
      simp
  · simp only [hx, if_false]
    rw [← this]
    by_cases hlt : i < q.length
    · rw [List.getElem?_append_left hlt]
    · have h1 : q[i]? = none := by simp; omega
      rw [h1]
      constructor
      · intro hi
        have := List.getElem?_eq_some_iff.1 hi
        obtain ⟨hlen, he⟩ := this
        simp at hlen
        have : i = q.length := by omega
        subst this
        simp at he
        exact absurd he.symm hx
      · intro hi; cases hi

theorem q1_pop (q : List Nat) (idx : Nat → Option Nat) (h : Nat) (hq : Q1 q idx)
    (hl : q.getLast? = some h) :
    idx h = some (q.length - 1) ∧ Q1 q.dropLast (upd idx h none) := by
  have hne : q ≠ [] := by intro h0; subst h0; simp at hl
  have hlen : 0 < q.length := List.length_pos_iff.2 hne
  have hidx : idx h = some (q.length - 1) := by
    apply (hq _ _).1
    rw [List.getLast?_eq_getElem?] at hl
    exact hl
  refine ⟨hidx, ?_⟩
  intro i x
  simp only [upd_apply]
  rw [List.getElem?_dropLast]
  by_cases hx : x = h
  · subst hx
    simp only [if_true]
    constructor
    · intro hi
      split at hi
      · rename_i hlt
        have := (hq i x).1 hi
        rw [hidx] at this
        simp at this; omega
      · cases hi
    · intro hi; cases hi
  · simp only [hx, if_false]
    rw [← hq i x]
    split
    · rfl
    · rename_i hge
      constructor
      · intro hi; cases hi
      · intro hi
        have h2 := List.getElem?_eq_some_iff.1 hi
        obtain ⟨hl2, he⟩ := h2
        have : i = q.length - 1 := by omega
        subst this
        rw [List.getLast?_eq_getElem?] at hl
        rw [hl] at hi
        simp at hi
        exact absurd hi.symm hx

theorem q1_swapRemove (q : List Nat) (idx : Nat → Option Nat) (h i last : Nat) (hq : Q1 q idx)
    (hi : idx h = some i) (hl : q.getLast? = some last) :
    i < q.length ∧ idx last = some (q.length - 1) ∧
    Q1 ((q.set i last).dropLast) (upd (upd idx last (some i)) h none) := by
  have hqi : q[i]? = some h := (hq i h).2 hi
  have hilt : i < q.length := (List.getElem?_eq_some_iff.1 hqi).1
  rw [List.getLast?_eq_getElem?] at hl
  have hlast : idx last = some (q.length - 1) := (hq _ _).1 hl
  refine ⟨hilt, hlast, ?_⟩
  intro j x
  simp only [upd_apply]
  rw [List.getElem?_dropLast, List.length_set, List.getElem?_set]
  have hx := hq j x
  by_cases hxh : x = h
  · subst hxh
    simp only [if_true]
    constructor
    · intro hj
      split at hj
      · split at hj
        · rename_i h1 h2
          -- j = i, q'[j] = last = x
          subst h2
          simp at hj
          subst hj
          rw [hlast] at hi
          simp at hi
          omega
        · rename_i h1 h2
          have := hx.1 hj
          rw [hi] at this
          simp at this
          exact absurd this h2
      · cases hj
    · intro hj; cases hj
  · simp only [hxh, if_false]
    by_cases hxl : x = last
    · subst hxl
      simp only [if_true]
      constructor
      · intro hj
        split at hj
        · split at hj
          · rename_i h1 h2; rw [h2]
          · rename_i h1 h2
            have := hx.1 hj
            rw [hlast] at this
            simp at this; omega
        · cases hj
      · intro hj
        simp at hj
        subst hj
        have hne : i ≠ q.length - 1 := by
          intro he
          rw [he] at hqi
          rw [hqi] at hl
          simp at hl
          exact hxh hl.symm
        have : i < q.length - 1 := by omega
        simp [this, hilt]
    · simp only [hxl, if_false]
      rw [← hx]
      split
      · split
        · rename_i h1 h2
          subst h2
          simp [hilt]
          constructor
          · intro he; exact absurd he.symm hxl
          · intro he
            have : q[i]? = some x := by rw [List.getElem?_eq_getElem hilt, he]
            rw [hqi] at this; simp at this; exact absurd this.symm hxh
        · rfl
      · rename_i hge
        constructor
        · intro hj; cases hj
        · intro hj
          have h2 := (List.getElem?_eq_some_iff.1 hj).1
          have : j = q.length - 1 := by omega
          subst this
          rw [hl] at hj
          simp at hj
          exact absurd hj.symm hxl
end BbRe.Lemmas.ProtoStore
