import BbRe.Model.FilePool
/-!
`toDeviceOffset` in machine arithmetic: no wrap-around for any sector number below 2^32 and any
sector size up to 2^31, hence equal to the `Nat` expression used by the model, and the device
ranges of distinct sectors are disjoint intervals of `sectorSizeBytes` bytes.  Kernel-checked
(`omega` and `BitVec.toNat_*` lemmas only; the counterexample for the 32-bit variant is `decide`).
-/
namespace BbRe.Lemmas.FilePool
open BbRe.FilePool

/-- the fixed-width expression is the exact natural-number offset. -/
theorem toDeviceOffset_toNat (sector : BitVec 32) (ss ow : BitVec 64) (hs : 1 ≤ sector.toNat)
    (hss : ss.toNat ≤ 2 ^ 31) (how : ow.toNat < ss.toNat) :
    (toDeviceOffset sector ss ow).toNat = (sector.toNat - 1) * ss.toNat + ow.toNat := by
  have hlt := sector.isLt
  have h1 : (sector - 1).toNat = sector.toNat - 1 := by
    rw [BitVec.toNat_sub]
    have : BitVec.toNat (1 : BitVec 32) = 1 := rfl
    rw [this]
    omega
  have hprod : (sector.toNat - 1) * ss.toNat ≤ (2 ^ 32 - 2) * 2 ^ 31 :=
    Nat.mul_le_mul (by omega) hss
  unfold toDeviceOffset
  rw [BitVec.toNat_add, BitVec.toNat_mul, BitVec.toNat_setWidth, h1]
  have hm1 : (sector.toNat - 1) % 2 ^ 64 = sector.toNat - 1 := Nat.mod_eq_of_lt (by omega)
  rw [hm1]
  have hm2 : (sector.toNat - 1) * ss.toNat % 2 ^ 64 = (sector.toNat - 1) * ss.toNat := Nat.mod_eq_of_lt (by omega)
  rw [hm2]
  exact Nat.mod_eq_of_lt (by omega)

/-- **Distinct sectors occupy disjoint device ranges**, for all sector numbers `1 … 2^32-1` and all
sector sizes `1 … 2^31`: a byte of sector `s1` and a byte of sector `s2 ≠ s1` never have the same
device offset (so the map (sector, offset within sector) ↦ device offset is injective). -/
theorem toDeviceOffset_disjoint (s1 s2 : BitVec 32) (ss o1 o2 : BitVec 64) (h1 : 1 ≤ s1.toNat) (h2 : 1 ≤ s2.toNat)
    (hss : ss.toNat ≤ 2 ^ 31) (ho1 : o1.toNat < ss.toNat) (ho2 : o2.toNat < ss.toNat) (hne : s1 ≠ s2) :
    toDeviceOffset s1 ss o1 ≠ toDeviceOffset s2 ss o2 := by
  intro heq
  have e1 := toDeviceOffset_toNat s1 ss o1 h1 hss ho1
  have e2 := toDeviceOffset_toNat s2 ss o2 h2 hss ho2
  rw [heq] at e1
  have hnat : s1.toNat ≠ s2.toNat := fun h => hne (BitVec.eq_of_toNat_eq h)
  rcases Nat.lt_or_gt_of_ne hnat with hlt | hlt
  · have := Nat.mul_le_mul_right ss.toNat (show s1.toNat - 1 + 1 ≤ s2.toNat - 1 by omega)
    rw [Nat.add_mul, Nat.one_mul] at this
    omega
  · have := Nat.mul_le_mul_right ss.toNat (show s2.toNat - 1 + 1 ≤ s1.toNat - 1 by omega)
    rw [Nat.add_mul, Nat.one_mul] at this
    omega

/-- the range of sector `s` is the interval `[(s-1)*ss, s*ss)`. -/
theorem toDeviceOffset_range (s : BitVec 32) (ss ow : BitVec 64) (hs : 1 ≤ s.toNat) (hss : ss.toNat ≤ 2 ^ 31)
    (how : ow.toNat < ss.toNat) :
    (s.toNat - 1) * ss.toNat ≤ (toDeviceOffset s ss ow).toNat ∧
      (toDeviceOffset s ss ow).toNat < s.toNat * ss.toNat := by
  rw [toDeviceOffset_toNat s ss ow hs hss how]
  have : s.toNat * ss.toNat = (s.toNat - 1) * ss.toNat + ss.toNat := by
    have : s.toNat = (s.toNat - 1) + 1 := by omega
    rw [this, Nat.add_mul, Nat.one_mul]; rfl
  omega

/-- the 32-bit-multiplication variant is not injective: with 4 KiB sectors, sector `2^20+1`
(the first one beyond 4 GiB) lands on sector 1. -/
theorem toDeviceOffsetLegacy32_collision :
    toDeviceOffsetLegacy32 (2 ^ 20 + 1) 4096 0 = toDeviceOffsetLegacy32 1 4096 0 ∧
      toDeviceOffset (2 ^ 20 + 1) 4096 0 ≠ toDeviceOffset 1 4096 0 := by decide

end BbRe.Lemmas.FilePool
