import BbRe.Lemmas.OutputsTrie
/-!
Helper lemmas for C10 (`exact_listing`, `errors_do_not_lie`): the contribution of one
declared path (`single`, `specOne`) expressed through what an lstat-walk (`walkN`) finds
at its normalised location.
-/
namespace BbRe.Lemmas.Outputs
open BbRe.Outputs

/-- What `uploadOutputs` reports for one declared string `s`, given what lstat finds at its location. -/
def atLoc (env : Env) (up : Bool) (s : Str) : Option Node → Res
  | none => {}
  | some (.dir r es) => uploadOutputDirectoryEntered env up (.dir r es) [s]
  | some (.file x c) => if env.putFails (.file c) then .err .put else { files := [(s, c, x)] }
  | some (.symlink t) => if env.readlinkFails t then .err .fs else { symlinks := [(s, normTarget t)] }
  | some .special => .err .invalidArgument

def isDir : Node → Bool
  | .dir _ _ => true
  | _ => false

/-- Descending along `cs` reaches something that exists and is not a directory. -/
def blocked : List Name → Node → Bool
  | [], n => !isDir n
  | c :: cs, .dir _ es =>
    match lookupE c es with
    | none => false
    | some n' => blocked cs n'
  | _ :: _, _ => true

theorem uploadPath_single (env : Env) (up : Bool) (es : Entries) (name : Name) (s : Str) :
    uploadPath env up es name [s] = atLoc env up s (lookupE name es) := by
  unfold uploadPath atLoc
  cases lookupE name es with
  | none => rfl
  | some n => cases n <;> simp

theorem walkN_nondir (cs : List Name) (last : Name) (n : Node) (h : isDir n = false) :
    walkN (cs ++ [last]) n = none := by
  cases cs <;> cases n <;> simp_all [walkN, isDir]

theorem blocked_nondir (cs : List Name) (n : Node) (h : isDir n = false) : blocked cs n = true := by
  cases cs <;> cases n <;> simp_all [blocked, isDir]

theorem single_lists (env : Env) (up : Bool) (cs : List Name) (last : Name) (s : Str) (r : Bool)
    (es : Entries) :
    (single env up cs last s es).files = (atLoc env up s (walkN (cs ++ [last]) (.dir r es))).files ∧
    (single env up cs last s es).dirs = (atLoc env up s (walkN (cs ++ [last]) (.dir r es))).dirs ∧
    (single env up cs last s es).symlinks = (atLoc env up s (walkN (cs ++ [last]) (.dir r es))).symlinks ∧
    ((single env up cs last s es).errs = [] ↔
      (blocked cs (.dir r es) = false ∧ (atLoc env up s (walkN (cs ++ [last]) (.dir r es))).errs = [])) := by
  induction cs generalizing r es with
  | nil =>
    simp only [single, uploadPath_single, List.nil_append, walkN, blocked, isDir]
    cases lookupE last es with
    | none => simp
    | some n => simp [walkN]
  | cons c cs ih =>
    simp only [single, List.cons_append, walkN, blocked]
    cases hl : lookupE c es with
    | none => simp [atLoc]
    | some n =>
      cases n with
      | dir r' ces => exact ih r' ces
      | file x c' =>
        simp [walkN_nondir cs last (.file x c') rfl, blocked_nondir cs (.file x c') rfl, atLoc]
      | symlink t =>
        simp [walkN_nondir cs last (.symlink t) rfl, blocked_nondir cs (.symlink t) rfl, atLoc]
      | special =>
        simp [walkN_nondir cs last .special rfl, blocked_nondir cs .special rfl, atLoc]

theorem splitLast_none {α : Type} (l : List α) : splitLast l = none ↔ l = [] := by
  induction l with
  | nil => simp [splitLast]
  | cons x xs ih =>
    cases xs with
    | nil => simp [splitLast]
    | cons y r =>
      simp only [splitLast]
      cases h : splitLast (y :: r) with
      | none => exact absurd (ih.1 h) (by simp)
      | some il => simp

theorem splitLast_some {α : Type} (l i : List α) (x : α) : splitLast l = some (i, x) ↔ l = i ++ [x] := by
  induction l generalizing i x with
  | nil => simp [splitLast]
  | cons a as ih =>
    cases as with
    | nil =>
      simp only [splitLast, Option.some.injEq, Prod.mk.injEq]
      constructor
      · rintro ⟨rfl, rfl⟩; rfl
      · intro h
        cases i with
        | nil => simp at h; exact ⟨rfl, h⟩
        | cons b bs =>
          have := congrArg List.length h
          simp at this
    | cons y r =>
      simp only [splitLast]
      cases h : splitLast (y :: r) with
      | none => exact absurd ((splitLast_none _).1 h) (by simp)
      | some il =>
        obtain ⟨i', l'⟩ := il
        have h' := (ih i' l').1 h
        simp only [Option.some.injEq, Prod.mk.injEq]
        constructor
        · rintro ⟨rfl, rfl⟩
          rw [h']; rfl
        · intro hh
          cases i with
          | nil =>
            have := congrArg List.length hh
            simp at this
          | cons b bs =>
            simp only [List.cons_append, List.cons.injEq] at hh
            obtain ⟨rfl, h2⟩ := hh
            rw [h'] at h2
            have hlen : i'.length = bs.length := by
              have := congrArg List.length h2
              simpa using this
            have := List.append_inj h2 hlen
            simp at this
            exact ⟨by rw [this.1], this.2⟩

theorem flatMap_congr' {α β : Type} (l : List α) (f g : α → List β) (h : ∀ a ∈ l, f a = g a) :
    l.flatMap f = l.flatMap g := by
  induction l with
  | nil => rfl
  | cons a as ih =>
    simp only [List.flatMap_cons]
    rw [h a (by simp), ih (fun b hb => h b (by simp [hb]))]

/-- Where a declared path string ends up, and what lstat finds there. -/
def locate (wd : List Name) (root : Node) (s : Str) : Option Node :=
  match resolveRel wd s with
  | .error _ => none
  | .ok loc => walkN loc root

/-- A parent location of the declared path exists but is not a directory. -/
def parentBlocked (wd : List Name) (root : Node) (s : Str) : Bool :=
  match resolveRel wd s with
  | .error _ => false
  | .ok loc => blocked loc.dropLast root

theorem specOne_lists (env : Env) (up : Bool) (wd : List Name) (r : Bool) (es : Entries) (s : Str) :
    (specOne env up wd (.dir r es) s).files = (atLoc env up s (locate wd (.dir r es) s)).files ∧
    (specOne env up wd (.dir r es) s).dirs = (atLoc env up s (locate wd (.dir r es) s)).dirs ∧
    (specOne env up wd (.dir r es) s).symlinks = (atLoc env up s (locate wd (.dir r es) s)).symlinks ∧
    ((specOne env up wd (.dir r es) s).errs = [] ↔
      (parentBlocked wd (.dir r es) s = false ∧ (atLoc env up s (locate wd (.dir r es) s)).errs = [])) := by
  unfold specOne locate parentBlocked
  cases hres : resolveRel wd s with
  | error e => simp [atLoc]
  | ok loc =>
    simp only
    cases hsl : splitLast loc with
    | none =>
      have := (splitLast_none loc).1 hsl
      subst this
      simp [walkN, atLoc, blocked, isDir]
    | some il =>
      obtain ⟨i, l⟩ := il
      have := (splitLast_some loc i l).1 hsl
      subst this
      simpa using single_lists env up i l s r es

theorem uode_files (env : Env) (up : Bool) (n : Node) (ps : List Str) :
    (uploadOutputDirectoryEntered env up n ps).files = [] := by
  unfold uploadOutputDirectoryEntered
  cases n.uploadDirectory env {} with
  | mk r st => cases r <;> rfl

theorem uode_symlinks (env : Env) (up : Bool) (n : Node) (ps : List Str) :
    (uploadOutputDirectoryEntered env up n ps).symlinks = [] := by
  unfold uploadOutputDirectoryEntered
  cases n.uploadDirectory env {} with
  | mk r st => cases r <;> rfl

theorem atLoc_files (env : Env) (up : Bool) (s : Str) (found : Option Node) :
    (atLoc env up s found).files =
      match found with
      | some (.file x c) => if env.putFails (.file c) then [] else [(s, c, x)]
      | _ => [] := by
  cases found with
  | none => rfl
  | some n =>
    cases n with
    | dir r es => simp [atLoc, uode_files]
    | file x c => simp only [atLoc]; split <;> rfl
    | symlink t => simp only [atLoc]; split <;> rfl
    | special => rfl

theorem atLoc_symlinks (env : Env) (up : Bool) (s : Str) (found : Option Node) :
    (atLoc env up s found).symlinks =
      match found with
      | some (.symlink t) => if env.readlinkFails t then [] else [(s, normTarget t)]
      | _ => [] := by
  cases found with
  | none => rfl
  | some n =>
    cases n with
    | dir r es => simp [atLoc, uode_symlinks]
    | file x c => simp only [atLoc]; split <;> rfl
    | symlink t => simp only [atLoc]; split <;> rfl
    | special => rfl

theorem atLoc_dirs (env : Env) (up : Bool) (s : Str) (found : Option Node) :
    (atLoc env up s found).dirs =
      match found with
      | some (.dir r es) => (uploadOutputDirectoryEntered env up (.dir r es) [s]).dirs
      | _ => [] := by
  cases found with
  | none => rfl
  | some n =>
    cases n with
    | dir r es => rfl
    | file x c => simp only [atLoc]; split <;> rfl
    | symlink t => simp only [atLoc]; split <;> rfl
    | special => rfl

/-- Every `OutputDirectory` entry produced for the strings `ps` carries one of these strings. -/
theorem uode_dirs_path (env : Env) (up : Bool) (n : Node) (ps : List Str)
    (e : Str × List DirMsg × Option DirMsg) (h : e ∈ (uploadOutputDirectoryEntered env up n ps).dirs) :
    e.1 ∈ ps := by
  unfold uploadOutputDirectoryEntered at h
  cases hu : n.uploadDirectory env {} with
  | mk r st =>
    rw [hu] at h
    cases r with
    | none => simp at h
    | some root =>
      simp only at h
      split at h
      · simp only [List.mem_map] at h
        obtain ⟨p, hp, rfl⟩ := h
        exact hp
      · simp at h

theorem count_flatMap_single {α β : Type} [BEq α] [LawfulBEq α] [BEq β] [LawfulBEq β] (l : List α) (f : α → List β)
    (a : α) (b : β) (ha : f a = [b]) (hne : ∀ a' ∈ l, a' ≠ a → b ∉ f a') :
    (l.flatMap f).count b = l.count a := by
  induction l with
  | nil => rfl
  | cons x xs ih =>
    simp only [List.flatMap_cons, List.count_append, List.count_cons]
    rw [ih (fun a' h' => hne a' (by simp [h']))]
    by_cases hx : x = a
    · subst hx; simp [ha]; omega
    · have : b ∉ f x := hne x (by simp) hx
      simp [List.count_eq_zero_of_not_mem this, hx]

end BbRe.Lemmas.Outputs
